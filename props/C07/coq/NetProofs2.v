(* C07 — send -> receive round trips of the Art-Net and E1.31 packet models. *)
From OlaBase Require Import Bytes.
From C07 Require Import Gen Model ModelNet2 ListLemmas NetProofs.
Local Open Scope N_scope.

(* ------------------------------------------------------------------ Art-Net *)
Lemma artnet_roundtrip_gen seq phys addr net pa f old :
  1 <= len f -> len f <= 512 -> addr < 256 -> net < 256 ->
  exists p, artnet_build seq phys addr net f = Some p /\
            artnet_handle p net pa old =
              if addr =? pa then R2 (RHandled (expect_artnet f)) else R2 RDropped.
Proof.
  intros H1 H2 Ha Hn. unfold artnet_build.
  destruct (N.eqb_spec (len f) 0) as [X|_]; [lia|].
  rewrite take_all by (unfold DMX_UNIVERSE_SIZE; lia).
  set (d := if len f mod 2 =? 0 then f else f ++ [0]).
  assert (Ld : 2 <= len d /\ len d <= 512).
  { unfold d. destruct (N.eqb_spec (len f mod 2) 0) as [E|E].
    - split; [|lia]. destruct (N.eq_dec (len f) 1) as [X|X]; [rewrite X in E; discriminate E|lia].
    - rewrite len_app, len_cons, len_nil. split; [lia|].
      destruct (N.eq_dec (len f) 512) as [X|X]; [rewrite X in E; exfalso; apply E; reflexivity|lia]. }
  destruct Ld as [Ld1 Ld2]. set (L := len d) in *.
  eexists. split; [reflexivity|].
  set (h := [65; 114; 116; 45; 78; 101; 116; 0; 0; 80; 0; 14; u8 seq; u8 phys; u8 addr; u8 net;
             (L / 256) mod 256; L mod 256]).
  change (AN_ID ++ le16 AN_OP_DMX ++ be16 AN_VERSION ++ [u8 seq; u8 phys; u8 addr; u8 net]
          ++ [(L / 256) mod 256; L mod 256] ++ d) with (h ++ d).
  assert (Lh : len h = 18) by reflexivity.
  unfold artnet_handle. rewrite len_app, Lh. fold L.
  change AN_HEADER_SIZE with 10. change AN_OP_DMX with 20480. change AN_DMX_HEADER_SIZE with 8.
  change AN_OFF_version with 0. change AN_OFF_net with 5. change AN_OFF_universe with 4.
  change AN_OFF_length with 6. change AN_OFF_data with 8. change AN_VERSION with 14.
  destruct (N.leb_spec (18 + L) 10) as [X|_]; [lia|].
  replace (rd16le (h ++ d) 8) with (Some 20480) by reflexivity.
  change (20480 =? 20480) with true. cbn [negb].
  destruct (N.ltb_spec (18 + L - 10) (8 + 2)) as [X|_]; [lia|].
  replace (rd16be (h ++ d) (10 + 0)) with (Some 14) by reflexivity.
  replace (rd (h ++ d) (10 + 5)) with (Some (u8 net)) by reflexivity.
  replace (rd (h ++ d) (10 + 4)) with (Some (u8 addr)) by reflexivity.
  replace (rd (h ++ d) (10 + 6)) with (Some ((L / 256) mod 256)) by reflexivity.
  replace (rd (h ++ d) (10 + 6 + 1)) with (Some (L mod 256)) by reflexivity.
  change (14 =? 14) with true. cbn [negb]. rewrite !u8_id by lia. rewrite (N.eqb_refl net). cbn [negb].
  destruct (N.eqb_spec addr pa) as [_|_]; [|reflexivity].
  rewrite (N.mul_comm ((L / 256) mod 256) 256), be16_join by lia.
  replace (18 + L - 10 - 8) with L by lia. rewrite N.min_id, u16_id by lia.
  assert (SL : slice (h ++ d) (10 + 8) L = d) by (unfold L; apply slice_app_exact0).
  rewrite SL. change (len d) with L. rewrite N.eqb_refl.
  unfold buf_set, expect_artnet. rewrite take_all by (unfold DMX_UNIVERSE_SIZE; exact Ld2).
  reflexivity.
Qed.

Lemma artnet_roundtrip seq phys addr net f old :
  1 <= len f -> len f <= 512 -> addr < 256 -> net < 256 ->
  exists p, artnet_build seq phys addr net f = Some p /\
            artnet_handle p net addr old = R2 (RHandled (expect_artnet f)).
Proof.
  intros H1 H2 Ha Hn.
  destruct (artnet_roundtrip_gen seq phys addr net addr f old H1 H2 Ha Hn) as (p & B & R).
  exists p. split; [exact B|]. rewrite R, N.eqb_refl. reflexivity.
Qed.

(* ------------------------------------------------------------------ one packed PDU is unpacked *)
Lemma flag_bits x : x < 16 ->
  let fl := N.lor (N.lor (N.lor x ACN_VFLAG) ACN_HFLAG) ACN_DFLAG in
  N.land fl ACN_LFLAG = 0 /\ N.land fl ACN_LENGTH_MASK = x /\
  N.land fl ACN_VFLAG <> 0 /\ N.land fl ACN_HFLAG <> 0.
Proof.
  intros H.
  assert (E := upto (fun x => let fl := N.lor (N.lor (N.lor x 64) 32) 16 in
                      (N.land fl 128 =? 0) && (N.land fl 15 =? x) && negb (N.land fl 64 =? 0)
                      && negb (N.land fl 32 =? 0)) 16 eq_refl x H).
  cbv beta zeta in E. apply andb_prop in E as [E E4]. apply andb_prop in E as [E E3].
  apply andb_prop in E as [E1 E2].
  change ACN_VFLAG with 64. change ACN_HFLAG with 32. change ACN_DFLAG with 16.
  change ACN_LFLAG with 128. change ACN_LENGTH_MASK with 15. cbv zeta.
  repeat split; try lia.
Qed.

Lemma pdu_one_pack vb hdr data vsize hsize :
  len vb = vsize -> len hdr = hsize -> 2 + len vb + len hdr + len data < 4096 ->
  pdu_one (pdu_pack vb hdr data) vsize hsize = PGot (be_val vb) hdr data.
Proof.
  intros Hv Hh Hs. unfold pdu_pack. set (size := 2 + len vb + len hdr + len data) in *.
  assert (Hx : size / 256 < 16) by (apply N.div_lt_upper_bound; lia).
  rewrite (N.mod_small (size / 256) 16) by exact Hx.
  destruct (flag_bits (size / 256) Hx) as (F1 & F2 & F3 & F4). cbv zeta in *.
  set (fl := N.lor (N.lor (N.lor (size / 256) ACN_VFLAG) ACN_HFLAG) ACN_DFLAG) in *.
  set (body := vb ++ hdr ++ data).
  assert (Lb : len body = len vb + len hdr + len data) by (unfold body; rewrite !len_app; lia).
  cbn [app].
  unfold pdu_one. rewrite !len_cons, Lb.
  destruct (N.eqb_spec (1 + (1 + (len vb + len hdr + len data))) 0) as [X|_]; [lia|].
  change (rd (fl :: size mod 256 :: body) 0) with (Some fl). cbv beta iota.
  rewrite F1, F2. change (0 =? 0) with true. cbn [negb].
  destruct (N.ltb_spec (1 + (1 + (len vb + len hdr + len data))) 2) as [X|_]; [lia|].
  change (slice (fl :: size mod 256 :: body) 1 (2 - 1)) with (take 1 (size mod 256 :: body)).
  change (take 1 (size mod 256 :: body)) with [size mod 256].
  assert (BV : be_val [size / 256; size mod 256] = size).
  { cbn [be_val]. change (len [size mod 256]) with 1. change (len (@nil N)) with 0.
    change (256 ^ 1) with 256. change (256 ^ 0) with 1.
    rewrite N.mul_1_r, N.add_0_r. rewrite N.mul_comm. symmetry. apply N.div_mod. lia. }
  rewrite BV.
  replace (1 + (1 + (len vb + len hdr + len data))) with size by (unfold size; lia).
  destruct (N.ltb_spec size 2) as [X|_]; [unfold size in X; lia|].
  rewrite N.ltb_irrefl.
  change (drop 2 (fl :: size mod 256 :: body)) with body.
  destruct (N.eqb_spec (N.land fl ACN_VFLAG) 0) as [X|_]; [contradiction|].
  rewrite Lb. destruct (N.ltb_spec (len vb + len hdr + len data) vsize) as [X|_]; [lia|].
  destruct (N.eqb_spec (N.land fl ACN_HFLAG) 0) as [X|_]; [contradiction|].
  unfold body. rewrite <- Hv. rewrite drop_app_exact, take_app_exact.
  rewrite len_app. destruct (N.ltb_spec (len hdr + len data) hsize) as [X|_]; [lia|].
  rewrite <- Hh. rewrite drop_app_exact, take_app_exact. reflexivity.
Qed.

(* ------------------------------------------------------------------ E1.31 *)
Lemma len_pdu_pack vb hdr data : 2 + len vb + len hdr + len data < 4096 ->
  len (pdu_pack vb hdr data) = 2 + len vb + len hdr + len data.
Proof. intros _. unfold pdu_pack. rewrite !len_app, !len_cons, len_nil. lia. Qed.

Lemma dmp_handle_ok (rev2 : bool) (ehdr d : list N) (hu : N) (ip : bool) (old : buf) (priority : N) :
  rd ehdr (if rev2 then E131R2_OFF_priority else E131_OFF_priority) = Some priority ->
  rd16be ehdr (if rev2 then E131R2_OFF_universe else E131_OFF_universe) = Some hu ->
  (rev2 = false -> rd ehdr E131_OFF_options = Some 0) ->
  priority <= 200 -> 1 <= len d -> len d <= 512 ->
  let dmp_data := if rev2 then d else 0 :: d in
  dmp_e131_handle rev2 DMP_SET_PROPERTY_VECTOR ehdr [DMP_ADDR_HEADER]
    (be16 0 ++ be16 1 ++ be16 (u16 (len dmp_data)) ++ dmp_data) hu ip old = RHandled (Some d).
Proof.
  intros Hp Hu Ho Hpri H1 H2 dmp_data. unfold dmp_e131_handle.
  rewrite N.eqb_refl. cbn [negb]. rewrite Hp, Hu.
  change (rd [DMP_ADDR_HEADER] 0) with (Some 161).
  assert (Opt : (if rev2 then 0 else match rd ehdr E131_OFF_options with Some o => o | None => 0 end) = 0).
  { destruct rev2; [reflexivity|]. rewrite Ho by reflexivity. reflexivity. }
  rewrite Opt. change (N.land 0 E131_PREVIEW_DATA_MASK =? 0) with true.
  change (N.land 0 E131_STREAM_TERMINATED_MASK =? 0) with true. cbn [negb andb].
  rewrite N.eqb_refl. cbn [negb].
  change ((N.land 161 128 =? 0) || negb (N.land 161 64 =? 0) || negb (N.land 161 3 =? DMP_TWO_BYTES)
          || negb (N.land 161 48 / 16 =? DMP_RANGE_EQUAL)) with false. cbv iota.
  change E131_MAX_PRIORITY with 200.
  destruct (N.ltb_spec 200 priority) as [X|_]; [lia|].
  assert (Lc : len dmp_data = (if rev2 then len d else 1 + len d))
    by (unfold dmp_data; destruct rev2; [reflexivity|apply len_cons]).
  set (cnt := len dmp_data) in *.
  assert (Hc : 1 <= cnt /\ cnt <= 513) by (rewrite Lc; destruct rev2; lia).
  rewrite u16_id by lia.
  set (h6 := [0; 0; 0; 1; (cnt / 256) mod 256; cnt mod 256]).
  change (be16 0 ++ be16 1 ++ be16 cnt ++ dmp_data) with (h6 ++ dmp_data).
  assert (L6 : len h6 = 6) by reflexivity.
  rewrite len_app, L6. fold cnt.
  destruct (N.ltb_spec (6 + cnt) 6) as [X|_]; [lia|].
  replace (rd16be (h6 ++ dmp_data) 0) with (Some 0) by reflexivity.
  replace (rd16be (h6 ++ dmp_data) 2) with (Some 1) by reflexivity.
  replace (rd16be (h6 ++ dmp_data) 4) with (Some (256 * ((cnt / 256) mod 256) + cnt mod 256)) by reflexivity.
  rewrite be16_join by lia. change (1 =? 1) with true. cbn [negb].
  replace (6 + cnt - 6) with cnt by lia. rewrite N.min_id.
  destruct rev2.
  - cbv iota. cbn [negb andb]. cbv iota.
    assert (SL : slice (h6 ++ dmp_data) 6 cnt = d).
    { unfold cnt, dmp_data. change 6 with (len h6). apply slice_app_exact0. }
    rewrite SL.
    unfold buf_set. rewrite take_all by (unfold DMX_UNIVERSE_SIZE; lia). reflexivity.
  - destruct (N.ltb_spec 0 cnt) as [_|X]; [|lia]. cbn [andb].
    replace (rd (h6 ++ dmp_data) 6) with (Some 0) by reflexivity. cbn [negb andb]. cbv iota.
    replace (cnt - 1) with (len d) by lia.
    assert (SL : slice (h6 ++ dmp_data) 7 (len d) = d).
    { unfold dmp_data. change (h6 ++ 0 :: d) with ((h6 ++ [0]) ++ d).
      change 7 with (len (h6 ++ [0])). apply slice_app_exact0. }
    rewrite SL. unfold buf_set. rewrite take_all by (unfold DMX_UNIVERSE_SIZE; lia). reflexivity.
Qed.

Lemma rd16be_at (A B : list N) k a b o : o = len A + k ->
  rd B k = Some a -> rd B (k + 1) = Some b -> rd16be (A ++ B) o = Some (256 * a + b).
Proof.
  intros -> Ha Hb. unfold rd16be.
  rewrite (rd_app_off A B k) by reflexivity. rewrite (rd_app_off A B (k + 1)) by lia.
  rewrite Ha, Hb. reflexivity.
Qed.

Lemma e131_roundtrip (rev2 : bool) (cid name : list N) (priority seq universe : N) (f : list N)
      (ip : bool) (old : buf) :
  1 <= len f -> len f <= 512 -> 1 <= universe -> universe <= 65534 -> priority <= 200 ->
  exists p, e131_build rev2 cid name priority seq universe false f = Some p /\
            e131_handle p universe ip old = R2 (RHandled (expect_full f)).
Proof.
  intros H1 H2 U1 U2 Hp. unfold e131_build.
  destruct (N.eqb_spec universe 0) as [X|_]; [lia|].
  destruct (N.eqb_spec universe 65535) as [X|_]; [lia|]. cbn [orb].
  rewrite take_all by (unfold DMX_UNIVERSE_SIZE; lia).
  rewrite (u8_id priority), (u16_id universe) by lia.
  set (dmp_data := if rev2 then f else 0 :: f).
  assert (Lc : len dmp_data <= 513)
    by (unfold dmp_data; destruct rev2; [lia|rewrite len_cons; lia]).
  set (ddata := be16 0 ++ be16 1 ++ be16 (u16 (len dmp_data)) ++ dmp_data).
  assert (Ldd : len ddata = 6 + len dmp_data)
    by (unfold ddata, be16; cbn [app]; rewrite !len_cons; lia).
  set (hdr := if rev2
              then fixed E131_REV2_SOURCE_NAME_LEN name ++ [priority; u8 seq] ++ be16 universe
              else fixed E131_SOURCE_NAME_LEN name ++ [priority; 0; 0; u8 seq; 0] ++ be16 universe).
  assert (Lh : len hdr = if rev2 then E131_REV2_HEADER_SIZE else E131_HEADER_SIZE)
    by (unfold hdr; destruct rev2; rewrite !len_app, len_fixed; reflexivity).
  assert (Lh' : len hdr <= 71) by (rewrite Lh; destruct rev2; [change E131_REV2_HEADER_SIZE with 36|change E131_HEADER_SIZE with 71]; lia).
  set (dmp := pdu_pack [DMP_SET_PROPERTY_VECTOR] [DMP_ADDR_HEADER] ddata).
  assert (Ldmp : len dmp = 4 + len ddata).
  { unfold dmp. rewrite len_pdu_pack; rewrite !len_cons, len_nil; lia. }
  set (e131 := pdu_pack (be32 VECTOR_E131_DATA) hdr dmp).
  assert (Le : len e131 = 6 + len hdr + len dmp).
  { unfold e131. rewrite len_pdu_pack; change (len (be32 VECTOR_E131_DATA)) with 4; lia. }
  eexists. split; [reflexivity|].
  set (rv := if rev2 then VECTOR_ROOT_E131_REV2 else VECTOR_ROOT_E131).
  set (root := pdu_pack (be32 rv) (fixed ACN_CID_LENGTH cid) e131).
  unfold e131_handle. rewrite len_app. change (len ACN_HEADER) with 16.
  destruct (N.ltb_spec (16 + len root) 16) as [X|_]; [lia|].
  rewrite (take_app_exact ACN_HEADER root : take 16 (ACN_HEADER ++ root) = ACN_HEADER).
  rewrite (drop_app_exact ACN_HEADER root : drop 16 (ACN_HEADER ++ root) = root).
  change (forallb (fun xy => fst xy =? snd xy) (combine ACN_HEADER ACN_HEADER)) with true. cbn [negb].
  assert (Lbe : forall x, len (be32 x) = 4) by reflexivity.
  unfold root. rewrite pdu_one_pack;
    [| apply Lbe | apply len_fixed | rewrite Lbe, len_fixed; change ACN_CID_LENGTH with 16; lia].
  cbv beta iota zeta.
  assert (RV : be_val (be32 rv) = rv) by (unfold rv; destruct rev2; reflexivity).
  rewrite RV.
  assert (R2' : (rv =? VECTOR_ROOT_E131_REV2) = rev2) by (unfold rv; destruct rev2; reflexivity).
  assert (R3 : (rv =? VECTOR_ROOT_E131) || (rv =? VECTOR_ROOT_E131_REV2) = true)
    by (unfold rv; destruct rev2; reflexivity).
  rewrite R3, R2'. cbn [negb].
  unfold e131. rewrite pdu_one_pack;
    [| apply Lbe | rewrite Lh; destruct rev2; reflexivity | rewrite Lbe; lia].
  replace (be_val (be32 VECTOR_E131_DATA)) with VECTOR_E131_DATA by reflexivity.
  rewrite N.eqb_refl. cbn [negb].
  unfold dmp. rewrite pdu_one_pack; [| reflexivity | reflexivity | rewrite !len_cons, len_nil; lia].
  replace (be_val [DMP_SET_PROPERTY_VECTOR]) with DMP_SET_PROPERTY_VECTOR by reflexivity.
  f_equal. unfold ddata, expect_full. fold dmp_data.
  apply (dmp_handle_ok rev2 hdr f universe ip old priority); try assumption.
  - unfold hdr. destruct rev2.
    + rewrite (rd_app_off _ _ 0) by (rewrite len_fixed; reflexivity). reflexivity.
    + rewrite (rd_app_off _ _ 0) by (rewrite len_fixed; reflexivity). reflexivity.
  - unfold hdr. destruct rev2.
    + rewrite (rd16be_at _ _ 2 ((universe / 256) mod 256) (universe mod 256))
        by (try reflexivity; rewrite len_fixed; reflexivity).
      rewrite be16_join by lia. reflexivity.
    + rewrite (rd16be_at _ _ 5 ((universe / 256) mod 256) (universe mod 256))
        by (try reflexivity; rewrite len_fixed; reflexivity).
      rewrite be16_join by lia. reflexivity.
  - intros ->. unfold hdr. rewrite (rd_app_off _ _ 4) by (rewrite len_fixed; reflexivity). reflexivity.
Qed.
