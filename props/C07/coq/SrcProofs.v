(* C07 — E1.31 receiver with several sender CIDs: the live sender is reproduced exactly once every
   other sender has expired. *)
From OlaBase Require Import Bytes.
From C07 Require Import Gen Model ModelNet2 ModelStream ModelMerge ModelSrc.
Local Open Scope N_scope.

Lemma filter_own_only c now (l : list esrc) :
  (forall s, In s l -> e_cid s <> c -> e_ts s + E131_EXPIRY_MS < now) ->
  filter (fun s => same_cid c s || negb (e_ts s + E131_EXPIRY_MS <? now)) l = filter (same_cid c) l.
Proof.
  intros H. apply filter_ext_in. intros s Hs. unfold same_cid.
  destruct (N.eqb_spec (e_cid s) c) as [E|E]; [reflexivity|]. cbn [orb].
  specialize (H s Hs E). destruct (N.ltb_spec (e_ts s + E131_EXPIRY_MS) now); [reflexivity|lia].
Qed.

Lemma filter_own_nodup c (l : list esrc) : NoDup (map e_cid l) ->
  filter (same_cid c) l = [] \/ exists s, filter (same_cid c) l = [s] /\ In s l /\ e_cid s = c.
Proof.
  induction l as [|x r IH]; intros ND; [left; reflexivity|].
  cbn [map] in ND. inversion ND as [|? ? Hx Hr]; subst. cbn [filter].
  destruct (same_cid c x) eqn:Sx; unfold same_cid in Sx;
    [apply N.eqb_eq in Sx; rename Sx into E|apply N.eqb_neq in Sx; rename Sx into E].
  - right. exists x.
    assert (F : filter (same_cid c) r = []).
    { destruct (IH Hr) as [F|(s & F & Hs & Es)]; [exact F|].
      exfalso. apply Hx. rewrite E, <- Es. apply in_map. exact Hs. }
    rewrite F. split; [reflexivity|]. split; [left; reflexivity|exact E].
  - destruct (IH Hr) as [F|(s & F & Hs & Es)]; [left; exact F|].
    right. exists s. split; [exact F|]. split; [right; exact Hs|exact Es].
Qed.

Lemma e131_remaining_sender st now p :
  k_term p = false -> k_sc0 p = true ->
  NoDup (map e_cid (r_srcs st)) ->
  (forall s, In s (r_srcs st) -> e_cid s <> k_cid p -> e_ts s + E131_EXPIRY_MS < now) ->
  (forall s, In s (r_srcs st) -> e_cid s = k_cid p -> seq_old (k_seq p) (e_seq s) = false) ->
  exists st', e131_track st now p = (st', true) /\ r_hbuf st' = buf_set (k_frame p).
Proof.
  intros Ht Hc ND Hstale Hseq. unfold e131_track.
  rewrite (filter_own_only (k_cid p) now (r_srcs st) Hstale).
  destruct (filter_own_nodup (k_cid p) (r_srcs st) ND) as [F|(s & F & Hs & Es)]; rewrite F.
  - cbn [find]. rewrite Ht. cbn [orb].
    destruct (N.ltb_spec (k_prio p) 0) as [X|_]; [lia|].
    assert (E6 : (len (@nil esrc) =? E131_MAX_MERGE_SOURCES) = false) by reflexivity.
    destruct (0 <? k_prio p); rewrite E6; cbn [app publish e_buf]; rewrite Hc;
      unfold buf_set; eexists; split; reflexivity.
  - cbn [find]. unfold same_cid at 1. rewrite Es, N.eqb_refl.
    rewrite (Hseq s Hs Es), Ht. rewrite Hc.
    change (len [s] =? 1) with true. cbv iota.
    assert (R : forall n, replace_src (k_cid p) n [s] = [n]).
    { intros n. cbn [replace_src]. unfold same_cid. rewrite Es, N.eqb_refl. reflexivity. }
    rewrite R.
    destruct (k_prio p <? r_active st); [|destruct (r_active st <? k_prio p)];
      cbn [publish e_buf]; unfold buf_set; eexists; split; reflexivity.
Qed.

(* ------------------------------------------------------------------ the source list never holds a CID twice *)
Lemma nodup_filter (q : esrc -> bool) l : NoDup (map e_cid l) -> NoDup (map e_cid (filter q l)).
Proof.
  induction l as [|x r IH]; intros ND; [constructor|]. cbn [map] in ND. inversion ND as [|? ? Hx Hr]; subst.
  cbn [filter]. destruct (q x); [|apply IH; exact Hr]. cbn [map]. constructor; [|apply IH; exact Hr].
  intros Hin. apply Hx. apply in_map_iff in Hin as (s & Es & Hs). apply filter_In in Hs as [Hs _].
  rewrite <- Es. apply in_map. exact Hs.
Qed.

Lemma find_none_notin c l : find (same_cid c) l = None -> ~ In c (map e_cid l).
Proof.
  intros F Hin. apply in_map_iff in Hin as (s & Es & Hs).
  pose proof (find_none _ _ F s Hs) as X. unfold same_cid in X. rewrite Es, N.eqb_refl in X. discriminate X.
Qed.

Lemma map_replace c n l : e_cid n = c -> map e_cid (replace_src c n l) = map e_cid l.
Proof.
  intros En. induction l as [|x r IH]; [reflexivity|]. cbn [replace_src].
  destruct (same_cid c x) eqn:Sx; cbn [map]; [|rewrite IH; reflexivity].
  unfold same_cid in Sx. apply N.eqb_eq in Sx. rewrite En, Sx. reflexivity.
Qed.

Lemma nodup_snoc c l x : NoDup (map e_cid l) -> ~ In c (map e_cid l) -> e_cid x = c ->
  NoDup (map e_cid (l ++ [x])).
Proof.
  intros ND Hn Ex. rewrite map_app. cbn [map]. rewrite Ex.
  induction l as [|y r IH]; cbn [map app]; [constructor; [intros []|constructor]|].
  cbn [map] in ND, Hn. inversion ND as [|? ? Hy Hr]; subst. constructor.
  - intros Hin. apply in_app_or in Hin as [Hin|[Hin|[]]]; [exact (Hy Hin)|].
    apply Hn. left. symmetry. exact Hin.
  - apply IH; [exact Hr|]. intros Hin. apply Hn. right. exact Hin.
Qed.

Lemma e131_track_nodup st now p :
  NoDup (map e_cid (r_srcs st)) -> NoDup (map e_cid (r_srcs (fst (e131_track st now p)))).
Proof.
  intros ND. unfold e131_track. cbv zeta.
  set (srcs1 := filter _ (r_srcs st)).
  assert (N1 : NoDup (map e_cid srcs1)) by (apply nodup_filter; exact ND).
  assert (Fin : forall srcs a, r_srcs (fst (let '(hb, ran) := publish srcs (r_hbuf st) in
                  ({| r_srcs := srcs; r_active := a; r_hbuf := hb |}, ran))) = srcs)
    by (intros srcs a; destruct (publish srcs (r_hbuf st)); reflexivity).
  destruct (find (same_cid (k_cid p)) srcs1) as [s|] eqn:F.
  - destruct (seq_old (k_seq p) (e_seq s)); [exact N1|].
    destruct (k_term p).
    + rewrite Fin. apply nodup_filter. exact N1.
    + destruct (k_prio p <? _); [|destruct (_ <? k_prio p)]; try destruct (len srcs1 =? 1);
        rewrite Fin; try (rewrite map_replace by reflexivity; exact N1);
        try (apply nodup_filter; exact N1).
      cbn [map]. constructor; [intros []|constructor].
  - destruct (k_term p || _); [exact N1|].
    destruct (_ <? k_prio p).
    + destruct (len (@nil esrc) =? E131_MAX_MERGE_SOURCES); [constructor|].
      rewrite Fin. cbn [app map]. constructor; [intros []|constructor].
    + destruct (len srcs1 =? E131_MAX_MERGE_SOURCES); [exact N1|].
      rewrite Fin. apply (nodup_snoc (k_cid p)); [exact N1|apply find_none_notin; exact F|reflexivity].
Qed.
