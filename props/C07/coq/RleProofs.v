(* C07 — RunLengthEncoder: Encode never leaves its buffer, reports truncation exactly, and what it
   wrote decodes (with the real Decode loop) to the encoded slots over any receiver buffer. *)
From OlaBase Require Import Bytes.
From C07 Require Import Gen Model ListLemmas.
Local Open Scope N_scope.

(* ------------------------------------------------------------------ inner loops of Encode *)
Lemma run_end_spec f n i : i < n -> n = len f -> forall fuel j,
  i < j -> j <= n -> j - i <= 127 ->
  (forall x, i <= x < j -> get f x = get f i) ->
  (N.to_nat (127 + i - j) < fuel)%nat ->
  exists j', run_end f n i j fuel = Some j' /\ j <= j' /\ j' <= n /\ j' - i <= 127 /\
             (forall x, i <= x < j' -> get f x = get f i).
Proof.
  intros Hi Hn. induction fuel as [|k IH]; intros j H1 H2 H3 H4 Hf; [lia|].
  cbn [run_end].
  destruct (N.ltb_spec j n) as [E1|E1]; cbn [andb]; [|exists j; repeat split; auto; lia].
  destruct (N.eqb_spec (get f i) (get f j)) as [E2|E2]; cbn [andb]; [|exists j; repeat split; auto; lia].
  destruct (N.ltb_spec (j - i) 127) as [E3|E3]; [|exists j; repeat split; auto; lia].
  destruct (IH (j + 1)) as (j' & R & A & B & C & D); try lia.
  - intros x Hx. destruct (N.eq_dec x j) as [->|Hne]; [symmetry; exact E2|apply H4; lia].
  - exists j'. repeat split; auto; lia.
Qed.

Lemma lit_end_spec f n lim i : n = len f -> forall fuel j,
  i < j -> j <= n -> (N.to_nat (127 + i - j) < fuel)%nat ->
  exists j0, lit_end f n lim i j fuel = Some j0 /\ i < j0 /\ j0 <= n.
Proof.
  intros Hn. induction fuel as [|k IH]; intros j H1 H2 Hf; [lia|]. cbn [lit_end].
  destruct (N.ltb_spec j lim) as [E1|E1]; cbn [andb]; [|exists j; auto].
  destruct (N.ltb_spec (j - i) 127) as [E3|E3]; [|exists j; auto].
  destruct (j =? lim) eqn:E4; [exists n; repeat split; lia|].
  destruct ((get f j =? get f (j + 1)) && (get f j =? get f (j + 2))) eqn:E5; [exists j; auto|].
  assert (j < n) as Hj.
  { destruct (N.eq_dec j n) as [->|Hne]; [|lia]. exfalso.
    unfold get, len in *. rewrite !nth_overflow in E5 by lia. discriminate E5. }
  apply IH; lia.
Qed.

(* ------------------------------------------------------------------ single Decode steps *)
Lemma rd_at_pre pre c rest : rd (pre ++ c :: rest) (len pre) = Some c.
Proof. rewrite rd_app_r by lia. rewrite N.sub_diag. reflexivity. Qed.

Lemma rd_at_pre1 pre c v rest : rd (pre ++ c :: v :: rest) (len pre + 1) = Some v.
Proof.
  rewrite rd_app_r by lia. replace (len pre + 1 - len pre) with 1 by lia. reflexivity.
Qed.

Lemma dec_end pre dest b fd : (0 < fd)%nat -> dec_loop (pre ++ []) (len pre) dest b fd = DOk b true.
Proof.
  intros H. destruct fd; [lia|]. cbn [dec_loop]. rewrite app_nil_r, N.ltb_irrefl. reflexivity.
Qed.

Lemma dec_seg_lit pre xs rest dest b fd :
  1 <= len xs -> len xs < 128 -> dest + len xs <= DMX_UNIVERSE_SIZE -> dest <= len (materialise b) ->
  len (pre ++ (len xs :: xs) ++ rest) < 4294967296 ->
  dec_loop (pre ++ (len xs :: xs) ++ rest) (len pre) dest b (S fd) =
  dec_loop ((pre ++ len xs :: xs) ++ rest) (len (pre ++ len xs :: xs)) (dest + len xs)
           (Some (overlay (materialise b) dest xs)) fd.
Proof.
  intros H1 H2 H3 H4 H5. cbn [dec_loop]. cbn [app] in *.
  assert (LS : len (pre ++ len xs :: xs ++ rest) = len pre + 1 + len xs + len rest)
    by (rewrite len_app, len_cons, len_app; lia).
  destruct (N.ltb_spec (len pre) (len (pre ++ len xs :: xs ++ rest))) as [_|E]; [|lia].
  rewrite rd_at_pre. destruct (count_lit (len xs) H2) as [L1 L2].
  change REPEAT_FLAG with 128. rewrite L1, L2, N.eqb_refl.
  rewrite usub32_ge by lia.
  destruct (N.ltb_spec (len (pre ++ len xs :: xs ++ rest) - (len pre + 1)) (len xs)) as [E|_]; [lia|].
  destruct (N.leb_spec (len pre + 1 + len xs) (len (pre ++ len xs :: xs ++ rest))) as [_|E]; [|lia].
  rewrite slice_mid by reflexivity.
  rewrite set_range_overlay by (unfold DMX_UNIVERSE_SIZE in *; lia). cbn [fst].
  rewrite <- app_assoc. cbn [app]. f_equal.
  rewrite len_app, len_cons. lia.
Qed.

Lemma dec_seg_rep pre v m rest dest b fd :
  m < 128 -> dest + m <= DMX_UNIVERSE_SIZE -> dest < DMX_UNIVERSE_SIZE -> dest <= len (materialise b) ->
  len (pre ++ [u8 (N.lor REPEAT_FLAG m); v] ++ rest) < 4294967296 ->
  dec_loop (pre ++ [u8 (N.lor REPEAT_FLAG m); v] ++ rest) (len pre) dest b (S fd) =
  dec_loop ((pre ++ [u8 (N.lor REPEAT_FLAG m); v]) ++ rest) (len (pre ++ [u8 (N.lor REPEAT_FLAG m); v]))
           (dest + m) (Some (overlay (materialise b) dest (repeat v (N.to_nat m)))) fd.
Proof.
  intros H2 H3 H3' H4 H5. cbn [dec_loop]. cbn [app] in *. change REPEAT_FLAG with 128 in *.
  set (c := u8 (N.lor 128 m)) in *.
  assert (LS : len (pre ++ c :: v :: rest) = len pre + 2 + len rest)
    by (rewrite len_app, !len_cons; lia).
  destruct (N.ltb_spec (len pre) (len (pre ++ c :: v :: rest))) as [_|E]; [|lia].
  rewrite rd_at_pre. destruct (count_rep m H2) as (L1 & L2 & _). fold c in L1, L2.
  rewrite L1, L2. change (128 =? 0) with false. cbv iota.
  destruct (N.leb_spec (len (pre ++ c :: v :: rest)) (len pre + 1)) as [E|_]; [lia|].
  rewrite rd_at_pre1.
  rewrite set_range_to_value_overlay by lia. cbn [fst].
  rewrite <- app_assoc. cbn [app]. f_equal.
  rewrite len_app, !len_cons, len_nil. lia.
Qed.

(* ------------------------------------------------------------------ the main invariant *)
Definition decodes_to (bytes : list N) (dest : N) (b : buf) (slots : list N) (k : N) : Prop :=
  forall pre fd, (N.to_nat (len bytes) < fd)%nat -> len (pre ++ bytes) < 4294967296 ->
    exists b', dec_loop (pre ++ bytes) (len pre) dest b fd = DOk b' true /\
               materialise b' = overlay (materialise b) dest slots /\
               (b' = None -> b = None /\ k = 0).

Lemma decodes_nil dest b : decodes_to [] dest b [] 0.
Proof.
  intros pre fd Hfd _. exists b. rewrite dec_end by lia. rewrite overlay_nil. auto.
Qed.

(* a segment followed by a stream that decodes *)
Lemma decodes_cons seg rest dest b xs ys k m :
  (forall pre fd, len (pre ++ seg ++ rest) < 4294967296 ->
     dec_loop (pre ++ seg ++ rest) (len pre) dest b (S fd) =
     dec_loop ((pre ++ seg) ++ rest) (len (pre ++ seg)) (dest + m)
              (Some (overlay (materialise b) dest xs)) fd) ->
  2 <= len seg -> m = len xs -> dest <= len (materialise b) ->
  decodes_to rest (dest + m) (Some (overlay (materialise b) dest xs)) ys k ->
  decodes_to (seg ++ rest) dest b (xs ++ ys) (m + k).
Proof.
  intros Hstep Hseg Hm Hd Hrest pre fd Hfd Hlen.
  destruct fd as [|fd]; [lia|]. rewrite Hstep by exact Hlen.
  destruct (Hrest (pre ++ seg) fd) as (b' & D & M & Nn).
  - rewrite len_app in Hfd. lia.
  - rewrite <- app_assoc. exact Hlen.
  - exists b'. split; [exact D|]. split.
    + rewrite M. cbn [materialise]. subst m. apply overlay_overlay. exact Hd.
    + intros ->. destruct (Nn eq_refl) as [X _]. discriminate X.
Qed.

Lemma enc_dec_main f n cap : n = len f -> n <= 512 -> cap < 4294967296 ->
  forall fuel i di,
  i <= n -> di <= 2 * i -> (N.to_nat (n - i) < fuel)%nat ->
  exists bytes ret k,
    enc_loop INNER_FUEL f n cap i di fuel = EOk bytes ret (di + len bytes) /\
    (di <= cap -> di + len bytes <= cap) /\
    i + k <= n /\ (ret = true <-> i + k = n) /\
    forall b dest, dest + (n - i) <= DMX_UNIVERSE_SIZE -> dest <= len (materialise b) ->
      decodes_to bytes dest b (slice f i k) k.
Proof.
  intros Hn Hn512 Hcap. induction fuel as [|fuel IH]; intros i di Hi Hdi Hf; [lia|].
  cbn [enc_loop]. unfold DMX_UNIVERSE_SIZE in *.
  destruct ((i <? n) && (di <? cap)) eqn:Ec.
  2:{ exists [], (negb (i <? n)), 0. rewrite len_nil, N.add_0_r. split; [reflexivity|].
      split; [lia|]. split; [lia|]. split.
      - destruct (N.ltb_spec i n); cbn [negb]; split; intros; try lia; try discriminate; reflexivity.
      - intros b dest Hdest Hb. rewrite slice_0. apply decodes_nil. }
  apply andb_prop in Ec as [Ei Ed]. apply N.ltb_lt in Ei, Ed.
  destruct (run_end_spec f n i Ei Hn INNER_FUEL (i + 1)) as (j & R & J1 & J2 & J3 & J4); try lia.
  { intros x Hx. f_equal. lia. }
  { unfold INNER_FUEL. lia. }
  rewrite R. rewrite (usub32_ge cap di) by lia.
  destruct (N.ltb_spec 2 (j - i)) as [E2|E2].
  - (* repeat segment *)
    destruct (N.ltb_spec 1 (cap - di)) as [E3|E3].
    + destruct (N.leb_spec (di + 2) cap) as [_|E4]; [|lia].
      set (seg := [u8 (N.lor REPEAT_FLAG (j - i)); get f i]).
      set (xs := repeat (get f i) (N.to_nat (j - i))).
      assert (Lxs : len xs = j - i) by (unfold xs; rewrite len_repeat; lia).
      destruct (IH j (di + 2)) as (bytes & ret & k & He & Hc & Hk & Hr & Hd); try lia.
      rewrite He. cbn [prepend]. exists (seg ++ bytes), ret, ((j - i) + k).
      split; [f_equal; unfold seg; cbn [app]; rewrite !len_cons; lia|].
      split; [intros _; unfold seg; cbn [app]; rewrite !len_cons; lia|].
      split; [lia|]. split; [rewrite Hr; lia|]. intros b dest Hdest Hb.
      rewrite slice_app. replace (i + (j - i)) with j by lia.
      rewrite (slice_const f i (j - i) (get f i)) by (try lia; intros x Hx; apply J4; lia).
      fold xs. apply decodes_cons.
      * intros pre fd Hl. unfold seg, xs. apply dec_seg_rep; unfold DMX_UNIVERSE_SIZE; try lia; exact Hl.
      * unfold seg. rewrite !len_cons, len_nil. lia.
      * lia.
      * exact Hb.
      * apply Hd; [lia|]. cbn [materialise]. rewrite len_overlay by lia. lia.
    + exists [], false, 0. rewrite len_nil, N.add_0_r. split; [reflexivity|].
      split; [lia|]. split; [lia|]. split; [split; [discriminate|lia]|].
      intros b dest Hdest Hb. rewrite slice_0. apply decodes_nil.
  - (* literal segment *)
    destruct (lit_end_spec f n (usub32 n 2) i Hn INNER_FUEL (i + 1)) as (j0 & L & K1 & K2); try lia.
    { unfold INNER_FUEL. lia. }
    rewrite L. cbv zeta.
    set (j1 := if usub32 n 2 <=? j0 then n else j0).
    assert (K3 : i < j1 /\ j1 <= n) by (unfold j1; destruct (usub32 n 2 <=? j0); lia).
    set (jj := if 127 <? j1 - i then i + 127 else j1).
    assert (K4 : i < jj /\ jj <= n /\ jj - i <= 127)
      by (unfold jj; destruct (N.ltb_spec 127 (j1 - i)); lia).
    destruct K4 as (K4 & K5 & K6).
    assert (U : u32 (di + jj - i) = di + jj - i) by (apply u32_id; lia).
    rewrite U.
    destruct (N.ltb_spec (di + jj - i) cap) as [E3|E3].
    + destruct (N.leb_spec (di + 1 + (jj - i)) cap) as [_|E4]; [|lia].
      destruct (N.leb_spec jj n) as [_|E5]; [|lia]. cbn [andb].
      set (xs := slice f i (jj - i)).
      assert (Lxs : len xs = jj - i) by (unfold xs; apply len_slice; lia).
      rewrite u8_id by lia.
      destruct (IH jj (di + 1 + (jj - i))) as (bytes & ret & k & He & Hc & Hk & Hr & Hd); try lia.
      rewrite He. cbn [prepend]. exists ((jj - i :: xs) ++ bytes), ret, ((jj - i) + k).
      split; [f_equal; cbn [app]; rewrite len_cons, len_app; lia|].
      split; [intros _; cbn [app]; rewrite len_cons, len_app; lia|].
      split; [lia|]. split; [rewrite Hr; lia|]. intros b dest Hdest Hb.
      rewrite slice_app. replace (i + (jj - i)) with jj by lia. fold xs.
      apply decodes_cons.
      * intros pre fd Hl. rewrite <- Lxs in *. apply dec_seg_lit; unfold DMX_UNIVERSE_SIZE; try lia; exact Hl.
      * rewrite len_cons. lia.
      * lia.
      * exact Hb.
      * apply Hd; [lia|]. cbn [materialise]. rewrite len_overlay by lia. lia.
    + destruct (N.ltb_spec 1 (cap - di)) as [E4|E4].
      * rewrite (usub32_ge (cap - di) 1) by lia.
        set (l := cap - di - 1).
        destruct (N.leb_spec (di + 1 + l) cap) as [_|E5]; [|lia].
        destruct (N.leb_spec (i + l) n) as [_|E6]; [|lia]. cbn [andb].
        set (xs := slice f i l).
        assert (Lxs : len xs = l) by (unfold xs; apply len_slice; lia).
        rewrite u8_id by lia.
        exists (l :: xs), false, l.
        split; [f_equal; rewrite len_cons; lia|].
        split; [intros _; rewrite len_cons; lia|].
        split; [lia|]. split; [split; [discriminate|lia]|]. intros b dest Hdest Hb.
        assert (G : decodes_to ((l :: xs) ++ []) dest b (xs ++ []) (l + 0)).
        { apply decodes_cons.
          -- intros pre fd Hl. rewrite <- Lxs in *.
             apply dec_seg_lit; unfold DMX_UNIVERSE_SIZE; try lia; exact Hl.
          -- rewrite len_cons. lia.
          -- lia.
          -- lia.
          -- apply decodes_nil. }
        rewrite !app_nil_r, N.add_0_r in G. exact G.
      * exists [], false, 0. rewrite len_nil, N.add_0_r. split; [reflexivity|].
        split; [lia|]. split; [lia|]. split; [split; [discriminate|lia]|].
        intros b dest Hdest Hb. rewrite slice_0. apply decodes_nil.
Qed.

(* ------------------------------------------------------------------ top-level statements *)
Lemma rle_encode_spec f cap : len f <= 512 -> cap < 4294967296 ->
  exists bytes ret k,
    rle_encode f cap = EOk bytes ret (len bytes) /\ len bytes <= cap /\
    k <= len f /\ (ret = true <-> k = len f) /\
    forall start b, start + len f <= 512 -> start <= len (materialise b) ->
      exists b', rle_decode start bytes b = DOk b' true /\
                 materialise b' = overlay (materialise b) start (take k f) /\
                 (b' = None -> b = None /\ k = 0).
Proof.
  intros Hf Hcap. unfold rle_encode.
  destruct (enc_dec_main f (len f) cap eq_refl Hf Hcap (S (N.to_nat (len f))) 0 0)
    as (bytes & ret & k & He & Hc & Hk & Hr & Hd); try lia.
  exists bytes, ret, k. rewrite N.add_0_l in *. split; [exact He|].
  assert (Hlen : len bytes <= cap) by (apply Hc; lia).
  split; [exact Hlen|]. split; [lia|]. split; [exact Hr|].
  intros start b Hs Hb. unfold rle_decode.
  destruct (Hd b start) with (pre := @nil N) (fd := S (N.to_nat (len bytes))) as (b' & D & M & Nn).
  - unfold DMX_UNIVERSE_SIZE. lia.
  - exact Hb.
  - lia.
  - cbn [app]. lia.
  - exists b'. cbn [app] in D. change (len (@nil N)) with 0 in D. split; [exact D|].
    split; [|exact Nn]. rewrite M. unfold slice. rewrite drop_0. reflexivity.
Qed.

Lemma rle_lossless f cap bytes sz start b :
  1 <= len f -> len f <= 512 -> cap < 4294967296 ->
  start + len f <= 512 -> start <= len (materialise b) ->
  rle_encode f cap = EOk bytes true sz ->
  rle_decode start bytes b = DOk (expect_overlay start f b) true.
Proof.
  intros H1 H2 Hcap Hs Hb He.
  destruct (rle_encode_spec f cap H2 Hcap) as (bytes' & ret & k & He' & _ & _ & Hr & Hd).
  rewrite He in He'. inversion He'; subst bytes' ret.
  assert (k = len f) as -> by (apply Hr; reflexivity).
  destruct (Hd start b Hs Hb) as (b' & D & M & Nn). rewrite D. f_equal.
  rewrite take_all in M by lia.
  destruct b' as [l'|]; [|destruct (Nn eq_refl); lia].
  cbn [materialise] in M. unfold expect_overlay. rewrite M. reflexivity.
Qed.

Lemma rle_bounded f cap : len f <= 512 -> cap < 4294967296 ->
  exists bytes ret k,
    rle_encode f cap = EOk bytes ret (len bytes) /\ len bytes <= cap /\
    k <= len f /\ (ret = true <-> k = len f) /\
    exists b', rle_decode 0 bytes None = DOk b' true /\
               materialise b' = take k f ++ zeros (512 - k).
Proof.
  intros Hf Hcap.
  destruct (rle_encode_spec f cap Hf Hcap) as (bytes & ret & k & He & Hl & Hk & Hr & Hd).
  exists bytes, ret, k. repeat (split; [assumption|]).
  destruct (Hd 0 None) as (b' & D & M & _); [lia|cbn; lia|].
  exists b'. split; [exact D|]. rewrite M. unfold overlay. rewrite take_0. cbn [app].
  f_equal. rewrite len_take, N.min_l by lia. cbn [materialise].
  unfold zeros, drop, DMX_UNIVERSE_SIZE. rewrite N.add_0_l.
  replace (N.to_nat 512) with (N.to_nat k + N.to_nat (512 - k))%nat by lia.
  rewrite repeat_app, skipn_app, repeat_length, Nat.sub_diag.
  rewrite skipn_all2 by (rewrite repeat_length; lia). reflexivity.
Qed.
