(* C07 — executable model of the code that exists (after fixes/01..03):
   DmxBuffer::{Set,SetRange,SetRangeToValue,Get(channel)} (common/utils/DmxBuffer.cpp),
   RunLengthEncoder::{Encode,Decode} (common/dmx/RunLengthEncoder.cpp),
   ShowNetNode::{BuildCompressedPacket,HandlePacket,HandleCompressedPacket},
   SandNetNode::{SendUncompressedDMX,SocketReady,HandleDMX},
   EspNetNode::{SendEspData,SocketReady,HandleData (raw)},
   PathportNode::{SendDMX,SocketReady,HandleDmxData}.
   No proofs here. *)
From OlaBase Require Import Bytes.
From C07 Require Import Gen.
Local Open Scope N_scope.

(* ------------------------------------------------------------------ DmxBuffer *)
(* None: no block allocated yet (m_data == NULL); Some l: m_length = len l, contents l.
   Bytes of the 512-byte block beyond m_length are never observable: every writer requires
   offset <= m_length. *)
Definition buf := option (list N).

Definition zeros (n : N) : list N := repeat 0 (N.to_nat n).
Definition slice (l : list N) (off cnt : N) : list N := take cnt (drop off l).

(* what SetRange/SetRangeToValue see after the implicit Blackout() of an unallocated buffer *)
Definition materialise (b : buf) : list N :=
  match b with None => zeros DMX_UNIVERSE_SIZE | Some l => l end.

(* DmxBuffer::SetRange(offset, data, length) with data != NULL, data = the `length` bytes *)
Definition set_range (b : buf) (off : N) (data : list N) : buf * bool :=
  if DMX_UNIVERSE_SIZE <=? off then (b, false)
  else
    let l := materialise b in
    if len l <? off then (Some l, false)
    else
      let cl := N.min (len data) (DMX_UNIVERSE_SIZE - off) in
      (Some (take off l ++ take cl data ++ drop (off + cl) l), true).

(* DmxBuffer::SetRangeToValue(offset, value, length) *)
Definition set_range_to_value (b : buf) (off v cnt : N) : buf * bool :=
  if DMX_UNIVERSE_SIZE <=? off then (b, false)
  else
    let l := materialise b in
    if len l <? off then (Some l, false)
    else
      let cl := N.min cnt (DMX_UNIVERSE_SIZE - off) in
      (Some (take off l ++ repeat v (N.to_nat cl) ++ drop (off + cl) l), true).

(* DmxBuffer::Set(data, length), data != NULL *)
Definition buf_set (data : list N) : buf := Some (take DMX_UNIVERSE_SIZE data).

(* DmxBuffer::Get(channel): 0 outside the frame *)
Definition get (f : list N) (j : N) : N := nth (N.to_nat j) f 0.

(* ------------------------------------------------------------------ RunLengthEncoder::Encode *)
Inductive eres :=
| EOk (bytes : list N) (complete : bool) (data_size : N)  (* bytes written in order, return value, *data_size *)
| EOob            (* a write beyond data[dst_size) or a read beyond the source frame *)
| EOutOfFuel.

Definition prepend (seg : list N) (r : eres) : eres :=
  match r with EOk b c s => EOk (seg ++ b) c s | x => x end.

(* while (j < src_size && src.Get(i) == src.Get(j) && j - i < 0x7f) j++; *)
Fixpoint run_end (f : list N) (n i j : N) (fuel : nat) : option N :=
  match fuel with
  | O => None
  | S k =>
    if (j <? n) && (get f i =? get f j) && (j - i <? 127)
    then run_end f n i (j + 1) k else Some j
  end.

(* for (j = i + 1; j < src_size - 2 && j - i < 0x7f; j++) {
     if (j == src_size - 2) { j = src_size; break; }
     if (Get(j) == Get(j+1) && Get(j) == Get(j+2)) break; }
   lim = src_size - 2 in unsigned int arithmetic *)
Fixpoint lit_end (f : list N) (n lim i j : N) (fuel : nat) : option N :=
  match fuel with
  | O => None
  | S k =>
    if (j <? lim) && (j - i <? 127) then
      if j =? lim then Some n
      else if (get f j =? get f (j + 1)) && (get f j =? get f (j + 2)) then Some j
      else lit_end f n lim i (j + 1) k
    else Some j
  end.

Definition INNER_FUEL : nat := 130.

Fixpoint enc_loop (ifuel : nat) (f : list N) (n dst_size i dst_index : N) (fuel : nat) : eres :=
  match fuel with
  | O => EOutOfFuel
  | S k =>
    if (i <? n) && (dst_index <? dst_size) then
      match run_end f n i (i + 1) ifuel with
      | None => EOutOfFuel
      | Some j =>
        if 2 <? j - i then
          (* a run of more than two *)
          if 1 <? usub32 dst_size dst_index then
            if dst_index + 2 <=? dst_size then
              prepend [u8 (N.lor REPEAT_FLAG (j - i)); get f i]
                      (enc_loop ifuel f n dst_size j (dst_index + 2) k)
            else EOob
          else EOk [] false dst_index
        else
          match lit_end f n (usub32 n 2) i (i + 1) ifuel with
          | None => EOutOfFuel
          | Some j0 =>
            let j1 := if usub32 n 2 <=? j0 then n else j0 in
            (* fixes/01: if (j - i > 0x7f) j = i + 0x7f; *)
            let j := if 127 <? j1 - i then i + 127 else j1 in
            if u32 (dst_index + j - i) <? dst_size then
              if (dst_index + 1 + (j - i) <=? dst_size) && (j <=? n) then
                prepend (u8 (j - i) :: slice f i (j - i))
                        (enc_loop ifuel f n dst_size j (dst_index + 1 + (j - i)) k)
              else EOob
            else if 1 <? usub32 dst_size dst_index then
              let l := usub32 (usub32 dst_size dst_index) 1 in
              if (dst_index + 1 + l <=? dst_size) && (i + l <=? n) then
                EOk (u8 l :: slice f i l) false (dst_index + 1 + l)
              else EOob
            else EOk [] false dst_index
          end
      end
    else EOk [] (negb (i <? n)) dst_index
  end.

(* Encode(src, data, &size) with src.Size() = len f, *size = cap on entry *)
Definition rle_encode (f : list N) (cap : N) : eres :=
  enc_loop INNER_FUEL f (len f) cap 0 0 (S (N.to_nat (len f))).

(* ------------------------------------------------------------------ RunLengthEncoder::Decode *)
Inductive dres :=
| DOk (b : buf) (ret : bool)
| DOob            (* src_data read at or beyond `length` *)
| DOutOfFuel.

(* src is the array, length = len src; i the read index; dest = destination_index *)
Fixpoint dec_loop (src : list N) (i dest : N) (b : buf) (fuel : nat) : dres :=
  match fuel with
  | O => DOutOfFuel
  | S k =>
    if i <? len src then
      match rd src i with
      | None => DOob
      | Some c =>
        let seg := N.land c 127 in
        if N.land c REPEAT_FLAG =? 0 then
          let i1 := i + 1 in
          (* fixes/02: if (segment_length > length - i) return false; *)
          if usub32 (len src) i1 <? seg then DOk b false
          else if i1 + seg <=? len src then
            dec_loop src (i1 + seg) (dest + seg) (fst (set_range b dest (slice src i1 seg))) k
          else DOob
        else
          let i1 := i + 1 in
          (* fixes/02: if (i >= length) return false; *)
          if len src <=? i1 then DOk b false
          else
            match rd src i1 with
            | None => DOob
            | Some v => dec_loop src (i1 + 1) (dest + seg) (fst (set_range_to_value b dest v seg)) k
            end
      end
    else DOk b true
  end.

Definition rle_decode (start : N) (src : list N) (b : buf) : dres :=
  dec_loop src 0 start b (S (N.to_nat (len src))).

(* ------------------------------------------------------------------ byte order helpers *)
Definition le16 (x : N) : list N := [x mod 256; (x / 256) mod 256].
Definition be16 (x : N) : list N := [(x / 256) mod 256; x mod 256].
Definition be32 (x : N) : list N :=
  [(x / 16777216) mod 256; (x / 65536) mod 256; (x / 256) mod 256; x mod 256].
Definition rd16le (p : list N) (o : N) : option N :=
  match rd p o, rd p (o + 1) with Some a, Some b => Some (a + 256 * b) | _, _ => None end.
Definition rd16be (p : list N) (o : N) : option N :=
  match rd p o, rd p (o + 1) with Some a, Some b => Some (256 * a + b) | _, _ => None end.
Definition rd32be (p : list N) (o : N) : option N :=
  match rd16be p o, rd16be p (o + 2) with Some a, Some b => Some (65536 * a + b) | _, _ => None end.
(* strings::CopyToFixedLengthBuffer: truncate / zero-fill to n bytes *)
Definition fixed (n : N) (s : list N) : list N := take n s ++ zeros (n - N.min n (len s)).

(* outcome of delivering one datagram to a node with one registered handler *)
Inductive rres :=
| RHandled (b : buf)      (* handler buffer after the datagram; closure ran *)
| RDropped                (* datagram ignored, buffer untouched *)
| ROob                    (* the handler read beyond the datagram *)
| RFuel.

(* ------------------------------------------------------------------ ShowNet *)
Definition SN_DATA : N := SN_HEADER_SIZE + SN_OFF_data.   (* offset of RLE data in the datagram *)

(* BuildCompressedPacket + the `size` SendDMX passes to SendTo.  ip: 4 bytes, seq: m_packet_count *)
Definition shownet_build (ip : list N) (name : list N) (seq universe : N) (f : list N)
  : option (list N) :=
  match rle_encode f SN_UNION_SIZE with
  | EOk bytes _ enc_len =>
    (* fixes/03: if (enc_len == buffer.Size()) buffer.Get(data, &enc_len); *)
    let data := if enc_len =? len f then f else bytes in
    Some (be16 SN_COMPRESSED_DMX_PACKET ++ fixed 4 ip
          ++ le16 (u16 (universe * DMX_UNIVERSE_SIZE + 1)) ++ zeros 6
          ++ le16 (u16 (len f)) ++ zeros 6
          ++ le16 (u16 SN_MAGIC_INDEX_OFFSET) ++ le16 (u16 (SN_MAGIC_INDEX_OFFSET + enc_len)) ++ zeros 6
          ++ be16 (u16 seq) ++ zeros 4 ++ fixed SN_NAME_LENGTH name ++ data)
  | _ => None
  end.

(* HandlePacket + HandleCompressedPacket for a node whose only handler is for universe hu.
   The size check is modelled as intended (bytes of data[] actually received); for datagrams
   produced by shownet_build it passes both as written today (sizeof of a pointer) and as intended. *)
Definition shownet_handle (p : list N) (hu : N) (b : buf) : rres :=
  let packet_size := len p in
  if packet_size <=? SN_HEADER_SIZE then RDropped
  else match rd16be p 0 with
  | None => ROob
  | Some ty =>
    if negb (ty =? SN_COMPRESSED_DMX_PACKET) then RDropped
    else
      let psz := packet_size - SN_HEADER_SIZE in
      match rd16le p (SN_HEADER_SIZE + SN_OFF_indexBlock), rd16le p (SN_HEADER_SIZE + SN_OFF_netSlot),
            rd16le p (SN_HEADER_SIZE + SN_OFF_indexBlock + 2), rd16le p (SN_HEADER_SIZE + SN_OFF_slotSize) with
      | Some index_block, Some net_slot, Some ib1, Some slot_size =>
        if index_block <? SN_MAGIC_INDEX_OFFSET then RDropped
        else if (ib1 <? index_block + 1) || (net_slot =? 0) then RDropped   (* int enc_len < 1 *)
        else
          let enc_len := ib1 - index_block in
          let data_offset := index_block - SN_MAGIC_INDEX_OFFSET in
          if psz <? SN_OFF_data then RDropped
          else if psz - SN_OFF_data <? data_offset + enc_len then RDropped
          else if slot_size =? 0 then RDropped
          else
            let start_channel := (net_slot - 1) mod DMX_UNIVERSE_SIZE in
            let universe_id := (net_slot - 1) / DMX_UNIVERSE_SIZE in
            if negb (universe_id =? hu) then RDropped
            else
              let d := slice p (SN_DATA + data_offset) enc_len in
              if negb (len d =? enc_len) then ROob
              else if negb (slot_size =? enc_len) then
                match rle_decode start_channel d b with
                | DOk b' _ => RHandled b'
                | DOob => ROob
                | DOutOfFuel => RFuel
                end
              else RHandled (fst (set_range b start_channel d))
      | _, _, _, _ => ROob
      end
  end.

(* ------------------------------------------------------------------ SandNet (uncompressed) *)
Definition sandnet_build (group universe port : N) (f : list N) : list N :=
  be16 SA_OP_DMX ++ [u8 group; u8 universe; u8 port] ++ take DMX_UNIVERSE_SIZE f.

Definition sandnet_handle (p : list N) (hg hu : N) (b : buf) : rres :=
  if len p <? SA_OPCODE_SIZE then RDropped
  else match rd16be p 0 with
  | None => ROob
  | Some op =>
    if negb (op =? SA_OP_DMX) then RDropped
    else
      let size := len p - SA_OPCODE_SIZE in
      if size <=? SA_DMX_HEADER_SIZE then RDropped
      else match rd p SA_OPCODE_SIZE, rd p (SA_OPCODE_SIZE + 1) with
      | Some g, Some u =>
        if negb ((g =? hg) && (u =? hu)) then RDropped
        else RHandled (buf_set (slice p (SA_OPCODE_SIZE + SA_DMX_HEADER_SIZE) (size - SA_DMX_HEADER_SIZE)))
      | _, _ => ROob
      end
  end.

(* ------------------------------------------------------------------ ESP Net (raw data) *)
Definition espnet_build (universe : N) (f : list N) : list N :=
  let d := take DMX_UNIVERSE_SIZE f in
  be32 ES_DMX_HEAD ++ [u8 universe; ES_START_CODE; ES_DATA_RAW] ++ be16 (u16 (len d))
  ++ d ++ zeros (DMX_UNIVERSE_SIZE - len d).

Definition espnet_handle (p : list N) (hu : N) (b : buf) : rres :=
  if len p <? 4 then RDropped
  else match rd32be p 0 with
  | None => ROob
  | Some head =>
    if negb (head =? ES_DMX_HEAD) then RDropped
    else if len p <? ES_DATA_HEADER_SIZE then RDropped
    else match rd p 4, rd p 6, rd16be p 7 with
    | Some u, Some ty, Some sz =>
      if negb (u =? hu) then RDropped
      else
        let data_size := N.min (len p - ES_DATA_HEADER_SIZE) sz in
        if ty =? ES_DATA_RAW then RHandled (buf_set (slice p ES_DATA_HEADER_SIZE data_size))
        else RDropped   (* pairs unsupported; RLE (never sent by OLA) is outside this model *)
    | _, _, _ => ROob
    end
  end.

(* ------------------------------------------------------------------ Pathport *)
Definition PP_DATA_OFF : N := PP_HEADER_SIZE + PP_PDU_HEADER_SIZE + PP_PDU_DATA_SIZE.

(* the bytes SendDMX defines; the padding up to a multiple of four is uninitialised stack in the C++
   (written here as zeros, never read by a receiver because channel_count bounds the copy) *)
Definition pathport_build (device_id seq universe : N) (f : list N) : list N :=
  let n := len f in
  let padded := N.land (n + 3) 4294967292 in
  be16 PP_PROTOCOL ++ [PP_MAJOR_VERSION; PP_MINOR_VERSION] ++ be16 (u16 seq) ++ zeros 6
  ++ be32 (u32 device_id) ++ be32 PP_DATA_GROUP
  ++ be16 PP_DATA ++ be16 (u16 (padded + PP_PDU_DATA_SIZE))
  ++ be16 PP_XDMX_DATA_FLAT ++ be16 (u16 n) ++ [0; 0] ++ be16 (u16 (DMX_UNIVERSE_SIZE * universe))
  ++ f ++ zeros (padded - n).

(* while (data_size > 0 && universe <= MAX_UNIVERSES) { ... } with one handler, for universe hu *)
Fixpoint pp_loop (data : list N) (data_size offset universe hu : N) (b : buf) (hit : bool) (fuel : nat)
  : option (buf * bool) :=
  match fuel with
  | O => None
  | S k =>
    if (0 <? data_size) && (universe <=? PP_MAX_UNIVERSES) then
      let ch := N.min data_size (DMX_UNIVERSE_SIZE - offset) in
      let '(b', hit') := if universe =? hu then (fst (set_range b offset (take ch data)), true) else (b, hit) in
      pp_loop (drop ch data) (data_size - ch) 0 (universe + 1) hu b' hit' k
    else Some (b, hit)
  end.

Definition pathport_handle (p : list N) (device_id hu : N) (b : buf) : rres :=
  if len p <? PP_HEADER_SIZE then RDropped
  else match rd16be p 0, rd p 2, rd p 3, rd32be p 16 with
  | Some proto, Some maj, Some mnr, Some dest =>
    if negb ((proto =? PP_PROTOCOL) && (maj =? PP_MAJOR_VERSION) && (mnr =? PP_MINOR_VERSION)) then RDropped
    else if negb ((dest =? device_id) || (dest =? PP_ID_BROADCAST) || (dest =? PP_STATUS_GROUP)
                  || (dest =? PP_CONFIG_GROUP) || (dest =? PP_DATA_GROUP)) then RDropped
    else
      let sz := len p - PP_HEADER_SIZE in
      if sz <? PP_PDU_HEADER_SIZE then RDropped
      else match rd16be p PP_HEADER_SIZE with
      | None => ROob
      | Some ty =>
        if negb (ty =? PP_DATA) then RDropped
        else
          let size := sz - PP_PDU_HEADER_SIZE in
          if size <? PP_PDU_DATA_SIZE then RDropped
          else
            let o := PP_HEADER_SIZE + PP_PDU_HEADER_SIZE in
            match rd16be p o, rd16be p (o + 2), rd p (o + 5), rd16be p (o + 6) with
            | Some dty, Some count, Some sc, Some off =>
              if negb (dty =? PP_XDMX_DATA_FLAT) then RDropped
              else if negb (sc =? 0) then RDropped
              else
                let data_size := N.min count (u16 (size - PP_PDU_DATA_SIZE)) in
                let data := drop PP_DATA_OFF p in
                if len data <? data_size then ROob
                else
                  match pp_loop data data_size (off mod DMX_UNIVERSE_SIZE) (off / DMX_UNIVERSE_SIZE)
                                hu b false (S (N.to_nat PP_MAX_UNIVERSES) + 1) with
                  | None => RFuel
                  | Some (b', true) => RHandled b'
                  | Some (_, false) => RDropped
                  end
            | _, _, _, _ => ROob
            end
      end
  | _, _, _, _ => ROob
  end.

(* ------------------------------------------------------------------ what the property expects *)
(* full-frame protocols (E1.31, SandNet, ESP Net raw): the receiver's buffer is the frame *)
Definition expect_full (f : list N) : buf := Some f.
(* Art-Net: even-length padding with one zero *)
Definition expect_artnet (f : list N) : buf :=
  Some (if (len f) mod 2 =? 0 then f else f ++ [0]).
(* partial-universe protocols (ShowNet, Pathport): the frame at [start, start+len f) over the
   receiver's previous contents (512 zeros when it had none), remaining slots untouched *)
Definition expect_overlay (start : N) (f : list N) (old : buf) : buf :=
  let l := materialise old in
  Some (take start l ++ f ++ drop (start + len f) l).
