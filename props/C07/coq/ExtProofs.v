(* C07 — extension: history-level statements for the partial-universe protocols, empty frames. *)
From OlaBase Require Import Bytes.
From C07 Require Import Gen Model ModelNet2 ListLemmas RleProofs RleMore NetProofs NetProofs2.
Local Open Scope N_scope.

(* ------------------------------------------------------------------ histories of partial frames *)
(* the receiver's buffer after a sequence of frames on one universe, each delivered as its datagram *)
Fixpoint shownet_history (ip name : list N) (u : N) (fs : list (N * list N)) (b : buf) : option buf :=
  match fs with
  | [] => Some b
  | (seq, f) :: r =>
    match shownet_build ip name seq u f with
    | Some p => match shownet_handle p u b with
                | RHandled b' => shownet_history ip name u r b'
                | _ => None end
    | None => None
    end
  end.

Fixpoint pathport_history (dev u : N) (fs : list (N * list N)) (b : buf) : option buf :=
  match fs with
  | [] => Some b
  | (seq, f) :: r =>
    match pathport_handle (pathport_build dev seq u f) dev u b with
    | RHandled b' => pathport_history dev u r b'
    | _ => None end
  end.

(* what the property says the buffer is: each frame written at offset 0 over what was there *)
Fixpoint overlay_all (fs : list (N * list N)) (b : buf) : buf :=
  match fs with
  | [] => b
  | (_, f) :: r => overlay_all r (expect_overlay 0 f b)
  end.

Definition ok_frames (fs : list (N * list N)) : Prop :=
  Forall (fun sf => 1 <= len (snd sf) /\ len (snd sf) <= 512) fs.

Lemma shownet_history_ok ip name u fs : u < 8 -> ok_frames fs -> forall b,
  shownet_history ip name u fs b = Some (overlay_all fs b).
Proof.
  intros Hu. induction 1 as [|[seq f] r [H1 H2] _ IH]; intros b; [reflexivity|].
  cbn [snd] in *. cbn [shownet_history overlay_all].
  destruct (shownet_roundtrip ip name seq u f b H1 H2 Hu) as (p & B & R).
  rewrite B, R. apply IH.
Qed.

Lemma pathport_history_ok dev u fs : u <= 127 -> ok_frames fs -> forall b,
  pathport_history dev u fs b = Some (overlay_all fs b).
Proof.
  intros Hu. induction 1 as [|[seq f] r [H1 H2] _ IH]; intros b; [reflexivity|].
  cbn [snd] in *. cbn [pathport_history overlay_all].
  rewrite (pathport_roundtrip dev seq u f b H1 H2 Hu). apply IH.
Qed.

(* slot-wise reading of overlay_all: slot i holds the value of the LAST frame long enough to cover
   it, or the old value (0 for a receiver without data) when no frame reached it *)
Fixpoint last_cover (i : N) (fs : list (N * list N)) (cur : option N) : option N :=
  match fs with
  | [] => cur
  | (_, f) :: r => last_cover i r (if i <? len f then Some (get f i) else cur)
  end.

Lemma materialise_overlay f b : len f <= 512 ->
  materialise (expect_overlay 0 f b) = f ++ drop (len f) (materialise b).
Proof. intros _. reflexivity. Qed.

Lemma get_app_l (a b : list N) i : i < len a -> get (a ++ b) i = get a i.
Proof. unfold get, len. intros H. apply app_nth1. lia. Qed.

Lemma get_app_r (a b : list N) i : len a <= i -> get (a ++ b) i = get b (i - len a).
Proof. unfold get, len. intros H. rewrite app_nth2 by lia. f_equal. lia. Qed.

Lemma get_drop (l : list N) k i : get (drop k l) i = get l (k + i).
Proof. unfold get, drop. rewrite nth_skipn_add. f_equal. lia. Qed.

Lemma overlay_all_slot fs : forall b i,
  get (materialise (overlay_all fs b)) i =
  match last_cover i fs None with Some v => v | None => get (materialise b) i end.
Proof.
  induction fs as [|[s f] r IH]; intros b i; [reflexivity|].
  cbn [overlay_all last_cover]. rewrite IH.
  assert (M : forall cur, last_cover i r cur = match last_cover i r None with Some v => Some v | None => cur end).
  { clear. induction r as [|[s f] r IH]; intros cur; [reflexivity|]. cbn [last_cover].
    rewrite (IH (if i <? len f then Some (get f i) else cur)), (IH (if i <? len f then Some (get f i) else None)).
    destruct (last_cover i r None); destruct (i <? len f); reflexivity. }
  rewrite (M (if i <? len f then Some (get f i) else None)).
  destruct (last_cover i r None) as [v|]; [reflexivity|].
  change (materialise (expect_overlay 0 f b)) with (f ++ drop (0 + len f) (materialise b)).
  destruct (N.ltb_spec i (len f)) as [L|L].
  - apply get_app_l. exact L.
  - rewrite get_app_r by exact L. rewrite get_drop. f_equal. lia.
Qed.
