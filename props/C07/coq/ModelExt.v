(* C07 — most general E1.31 sender history: one sender, either framing revision, any interleaving of
   sends over any universes, each with its own priority; plus the SandNet compressed receive path. *)
From OlaBase Require Import Bytes.
From C07 Require Import Gen Model ModelNet2 ModelStream ModelMulti.
Local Open Scope N_scope.

Definition hop := (N * N * list N)%type.      (* universe, priority, frame *)

Fixpoint send_hist (rev2 : bool) (cid name : list N) (hu : N) (ip : bool)
         (ops : list hop) (m : txmap) (st : rxs) : list (bool * buf) * txmap * rxs :=
  match ops with
  | [] => ([], m, st)
  | (u, prio, f) :: r =>
    let '(p, m') := tx_send_map rev2 cid name prio m u f in
    let '(st', ran) := match p with Some p => deliver hu ip st p | None => (st, false) end in
    let '(o, m'', st'') := send_hist rev2 cid name hu ip r m' st' in
    ((ran, rx_buf st') :: o, m'', st'')
  end.

Fixpoint expect_hist (hu : N) (ops : list hop) (cur : buf) : list (bool * buf) :=
  match ops with
  | [] => []
  | (u, _, f) :: r =>
    if u =? hu then (true, Some f) :: expect_hist hu r (Some f)
    else (false, cur) :: expect_hist hu r cur
  end.

(* ------------------------------------------------------------------ SandNet compressed DMX (receive only) *)
(* SandNetNode::SocketReady + HandleCompressedDMX; OLA itself never sends this packet type.  The
   size of the header before the RLE data is regenerated (Gen.SA_COMPRESSED_HEADER_SIZE). *)
Inductive cres :=
| CHandled (b : buf)      (* decoded, closure ran *)
| CFailed (b : buf)       (* Decode returned false: closure not run, buffer possibly partly written *)
| CDropped
| COob
| CFuel.

Definition sandnet_handle_compressed (p : list N) (hg hu : N) (b : buf) : cres :=
  if len p <? SA_OPCODE_SIZE then CDropped
  else match rd16be p 0 with
  | None => COob
  | Some op =>
    if negb (op =? SA_OP_COMPRESSED_DMX) then CDropped
    else
      let size := len p - SA_OPCODE_SIZE in
      if size <=? SA_COMPRESSED_HEADER_SIZE then CDropped
      else match rd p SA_OPCODE_SIZE, rd p (SA_OPCODE_SIZE + 1) with
      | Some g, Some u =>
        if negb ((g =? hg) && (u =? hu)) then CDropped
        else
          match rle_decode 0 (drop (SA_OPCODE_SIZE + SA_COMPRESSED_HEADER_SIZE) p) b with
          | DOk b' true => CHandled b'
          | DOk b' false => CFailed b'
          | DOob => COob
          | DOutOfFuel => CFuel
          end
      | _, _ => COob
      end
  end.

(* ------------------------------------------------------------------ E1.31 sender: settings calls *)
(* E131Node::SetSourceName / StartStream on a universe: create the tx settings (sequence 0) when the
   universe has none, otherwise leave the sequence alone (the name only changes header bytes) *)
Definition tx_touch (u : N) (m : txmap) : txmap :=
  match tx_lookup u m with None => tx_update u 0 m | Some _ => m end.

Inductive sop :=
| SSend (u prio : N) (f : list N)
| STouch (u : N).                    (* SetSourceName(u, _) or StartStream(u) *)

Fixpoint send_script (rev2 : bool) (cid name : list N) (hu : N) (ip : bool)
         (ops : list sop) (m : txmap) (st : rxs) : list (option (bool * buf)) * txmap * rxs :=
  match ops with
  | [] => ([], m, st)
  | STouch u :: r =>
    let '(o, m', st') := send_script rev2 cid name hu ip r (tx_touch u m) st in (None :: o, m', st')
  | SSend u prio f :: r =>
    let '(p, m') := tx_send_map rev2 cid name prio m u f in
    let '(st', ran) := match p with Some p => deliver hu ip st p | None => (st, false) end in
    let '(o, m'', st'') := send_script rev2 cid name hu ip r m' st' in
    (Some (ran, rx_buf st') :: o, m'', st'')
  end.

Fixpoint expect_script (hu : N) (ops : list sop) (cur : buf) : list (option (bool * buf)) :=
  match ops with
  | [] => []
  | STouch _ :: r => None :: expect_script hu r cur
  | SSend u _ f :: r =>
    if u =? hu then Some (true, Some f) :: expect_script hu r (Some f)
    else Some (false, cur) :: expect_script hu r cur
  end.
