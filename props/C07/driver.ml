(* C07 model driver.  payload: "<op> args..." (see prop.py) *)
let buf_of (s : string) : n list option = if s = "none" then None else Some (bytes_of_hex s)
let buf_s (b : n list option) : string = match b with None -> "none" | Some l -> hex_of_bytes l
let nn s = n_of_int (ios s)

(* classes: where the frame sits relative to the encoder's case splits *)
let frame_class (f : int list) : string =
  let n = List.length f in
  let arr = Array.of_list f in
  (* length of the final stretch without a run of three *)
  let tail = ref 0 in
  (try
     for i = n - 1 downto 0 do
       if i + 2 < n && arr.(i) = arr.(i+1) && arr.(i) = arr.(i+2) then raise Exit;
       incr tail
     done
   with Exit -> ());
  let maxrun = ref 0 in
  let cur = ref 0 in
  Array.iteri (fun i x -> if i > 0 && arr.(i-1) = x then incr cur else cur := 1;
                if !cur > !maxrun then maxrun := !cur) arr;
  let t = if !tail >= 126 && !tail <= 130 then Printf.sprintf "tail%d" !tail
          else if !tail > 130 then "tail>130" else if !tail = 0 then "tail0" else "tail<126" in
  let r = if !maxrun >= 126 && !maxrun <= 129 then Printf.sprintf "run%d" !maxrun
          else if !maxrun > 129 then "run>129" else if !maxrun >= 3 then "run3+"
          else Printf.sprintf "run%d" !maxrun in
  let l = if n = 0 then "len0" else if n <= 2 then "len1-2" else if n = 512 then "len512" else "len3-511" in
  l ^ "," ^ t ^ "," ^ r

let rres_s (pkt : n list option) (r : rres) (old : n list option) (expect : n list option) : string =
  let p = "pkt=" ^ (match pkt with None -> "none" | Some p -> hex_of_bytes p) in
  match r with
  | RHandled b -> Printf.sprintf "%s;handled=1;buf=%s;spec=%s" p (buf_s b) (bool01 (b = expect))
  | RDropped -> Printf.sprintf "%s;handled=0;buf=%s;spec=0" p (buf_s old)
  | ROob -> p ^ ";handled=OOB"
  | RFuel -> p ^ ";handled=FUEL"

let r2_s pkt (r : rres2) old expect : string =
  match r with
  | R2 r -> rres_s pkt r old expect
  | RUnmodelled -> "handled=UNMODELLED"

let rec handle (pl : string) : string =
  match split pl with
  | ["encd"; cap; dirty; fr] -> handle (String.concat " " ["enc"; cap; fr]) ^ (if dirty = "-" then "" else ":dirty")
  | ["snd"; u; hu; old; seq; name; dirty; fr] -> handle (String.concat " " ["sn"; u; hu; old; seq; name; fr]) ^ ":dirty"
  | ["an2"; ipc; order; net; sub; uni; port; huni; old; pre; fr] ->
    handle (String.concat " " ["an"; net; sub; uni; port; huni; old; pre; fr]) ^ ":rx-inputs" ^ ipc ^ (if ios order / 6 mod 2 = 1 then ":started-first" else ":configured-first")
  | ["e1s"; u; prio; n; fa; m; fb] ->
    let cid = List.map n_of_int [1;2;3;4;5;6;7;8;9;10;11;12;13;14;15;16] in
    let name = List.map (fun c -> n_of_int (Char.code c)) ['s';'t';'r';'e';'a';'m'] in
    let universe = nn u and priority = nn prio in
    let nth_frame base i = match base with
      | x :: r -> n_of_int ((int_of_n x + i) land 255) :: r | [] -> [] in
    let short b = let s = buf_s b in if String.length s > 8 then String.sub s 0 8 else s in
    let st = ref { rx_src = None; rx_active = N0; rx_buf = None } in
    let tx = ref None in
    let trace = Buffer.create 256 in
    let all = ref true and delivered = ref 0 and bad = ref "" in
    let deliver p =
      (match e131_rx p universe true !st with
       | SOk (st', ran) -> st := st'; ran
       | SOob -> bad := "OOB"; false
       | SUnmodelled -> bad := "UNMODELLED"; false) in
    let run_phase base cnt =
      for i = 0 to cnt - 1 do
        let f = nth_frame base i in
        let (p, t') = tx_send cid name priority universe !tx f in
        tx := t';
        (match p with
         | None -> bad := "notsent"
         | Some p ->
           let ran = deliver p in
           let ok = ran && (!st).rx_buf = Some f in
           if ok then incr delivered else all := false;
           Buffer.add_string trace ((if ran then "1:" else "0:") ^ short (!st).rx_buf ^ ","))
      done in
    run_phase (bytes_of_hex fa) (ios n);
    let (pk, t') = tx_terminate cid name priority universe !tx in
    tx := t';
    Buffer.add_string trace ("T" ^ string_of_int (List.length pk) ^ ":");
    List.iter (fun p -> Buffer.add_string trace (if deliver p then "1" else "0")) pk;
    Buffer.add_string trace (":" ^ short (!st).rx_buf ^ ",");
    run_phase (bytes_of_hex fb) (ios m);
    if !bad <> "" then "t=" ^ !bad ^ ";class=e1s:" ^ !bad
    else Printf.sprintf "t=%s;delivered=%d;spec=%s;class=e1s:n%s:m%s" (Buffer.contents trace) !delivered
           (bool01 !all) (if ios n > 21 then ">21" else n) (if ios m > 21 then ">21" else m)
  | ["e1m"; rev2; ubase; n; rounds; prio; samp; fr] ->
    let cid = List.map n_of_int [1;2;3;4;5;6;7;8;9;10;11;12;13;14;15;16] in
    let name = List.map (fun c -> n_of_int (Char.code c)) ['m';'u';'l';'t';'i'] in
    let rev2b = rev2 = "1" in
    let ubase = ios ubase and n = ios n and rounds = ios rounds in
    let sampled = List.map ios (String.split_on_char ',' samp) in
    let base = List.map int_of_n (bytes_of_hex fr) in
    let frame i r = match base with
      | x :: y :: rest -> List.map n_of_int (((x + 31 * r + i) land 255) :: ((y + r) land 255) :: rest)
      | [x] -> [n_of_int ((x + 31 * r + i) land 255)] | [] -> [] in
    let states = List.map (fun i -> (i, ref { rx_src = None; rx_active = N0; rx_buf = None })) sampled in
    let m = ref [] in
    let trace = Buffer.create 64 in
    let delivered = ref 0 and stray = ref 0 and expected = ref 0 and bad = ref "" in
    for r = 0 to rounds - 1 do
      for i = 0 to n - 1 do
        let f = frame i r in
        let (p, m') = tx_send_map rev2b cid name (nn prio) !m (n_of_int (ubase + i)) f in
        m := m';
        (match p with
         | None -> bad := "notsent"
         | Some p ->
           List.iter (fun (j, st) ->
             let ran = (match e131_rx p (n_of_int (ubase + j)) true !st with
               | SOk (st', ran) -> st := st'; ran
               | SOob -> bad := "OOB"; false
               | SUnmodelled -> bad := "UNMODELLED"; false) in
             if j = i then begin
               incr expected;
               let ok = ran && (!st).rx_buf = Some f in
               if ok then incr delivered;
               Buffer.add_string trace (if ok then "1" else "0")
             end else if ran then incr stray) states)
      done
    done;
    if !bad <> "" then "t=" ^ !bad ^ ";class=e1m:" ^ !bad
    else Printf.sprintf "t=%s;stray=%d;delivered=%d;spec=%s;class=e1m:rev%s:N%d" (Buffer.contents trace) !stray
           !delivered (bool01 (!delivered = !expected && !stray = 0)) (if rev2b then "2" else "3") n
  | ["an3"; net; sub; uni; port; hs; pre; fr] ->
    let f = bytes_of_hex fr in
    let addr = ((ios sub land 15) * 16 + (ios uni land 15)) in
    let netv = ios net land 127 in
    (match artnet_build (nn pre) (nn port) (n_of_int addr) (n_of_int netv) f with
     | None -> "pkt=none;sent=0;class=an3:not-sent"
     | Some p ->
       let hl = String.split_on_char ',' hs in
       let all = ref true and matching = ref 0 in
       let parts = List.mapi (fun k h ->
         if h = "x" then begin
           (* a disabled port keeps universe 0 of the sub-net but is not enabled: never updated *)
           Printf.sprintf ";p%d=0:none" k end
         else begin
           let pa = (ios sub land 15) * 16 + (ios h land 15) in
           let want = pa = addr in
           if want then incr matching;
           match artnet_handle p (n_of_int netv) (n_of_int pa) None with
           | R2 (RHandled b) -> if not (want && b = expect_artnet f) then all := false;
             Printf.sprintf ";p%d=1:%s" k (buf_s b)
           | R2 RDropped -> if want then all := false; Printf.sprintf ";p%d=0:none" k
           | _ -> all := false; Printf.sprintf ";p%d=?" k end) hl in
       "pkt=" ^ hex_of_bytes p ^ String.concat "" parts ^ ";spec=" ^ bool01 !all
       ^ ";class=an3:matching-ports" ^ string_of_int !matching)
  | ["anu"; bcast; net; sub; uni; step; steps; every; fr] ->
    let base = List.map int_of_n (bytes_of_hex fr) in
    let addr = n_of_int ((ios sub land 15) * 16 + (ios uni land 15)) in
    let netv = n_of_int (ios net land 127) in
    let step = ios step and steps = ios steps and every = ios every in
    let st = ref (None, N0) and b = ref None in
    let trace = Buffer.create 64 in
    let delivered = ref 0 and sends = ref 0 in
    for k = 0 to steps do
      if every > 0 && k mod every = 0 then begin
        st := fst (an_tx_step (bcast = "1") N0 addr netv !st (AReply (n_of_int (k * step))));
        Buffer.add_char trace 'R' end;
      if k > 0 then begin
        let f = (match base with x :: r -> List.map n_of_int (((x + k) land 255) :: r) | [] -> []) in
        let (st', p) = an_tx_step (bcast = "1") N0 addr netv !st (ASend (n_of_int (k * step), f)) in
        st := st'; incr sends;
        (match p with
         | None -> Buffer.add_char trace '-'
         | Some p ->
           (match artnet_handle p netv addr !b with
            | R2 (RHandled b') -> b := b';
              if b' = expect_artnet f then (incr delivered; Buffer.add_char trace '1') else Buffer.add_char trace '0'
            | _ -> Buffer.add_char trace '0'))
      end
    done;
    Printf.sprintf "t=%s;delivered=%d;spec=%s;class=anu:%s:reply-gap%s" (Buffer.contents trace) !delivered
      (bool01 (!delivered = !sends)) (if bcast = "1" then "broadcast" else "unicast")
      (if every = 0 then "-never" else if every * step <= 31 then "<=31s" else ">31s")
  | ["e1p"; rev2; u; prios; fr] ->
    let cid = List.map n_of_int [1;2;3;4;5;6;7;8;9;10;11;12;13;14;15;16] in
    let name = List.map (fun c -> n_of_int (Char.code c)) ['p';'r';'i';'o'] in
    let base = List.map int_of_n (bytes_of_hex fr) in
    let pl = List.map ios (String.split_on_char ',' prios) in
    let st = ref { rx_src = None; rx_active = N0; rx_buf = None } in
    let t = ref None in
    let trace = Buffer.create 64 in
    let delivered = ref 0 and bad = ref "" in
    List.iteri (fun i prio ->
      let f = (match base with x :: r -> List.map n_of_int (((x + i) land 255) :: r) | [] -> []) in
      let (p, t') = tx_send_r (rev2 = "1") cid name (n_of_int prio) (nn u) !t f in
      t := t';
      match p with
      | None -> bad := "notsent"
      | Some p ->
        let ran = (match e131_rx p (nn u) true !st with
          | SOk (st', ran) -> st := st'; ran
          | SOob -> bad := "OOB"; false
          | SUnmodelled -> bad := "UNMODELLED"; false) in
        let ok = ran && (!st).rx_buf = Some f in
        if ok then incr delivered;
        Buffer.add_string trace ((if ok then "1:" else "0:") ^ string_of_int (int_of_n (!st).rx_active) ^ ",")) pl;
    if !bad <> "" then "t=" ^ !bad ^ ";class=e1p:" ^ !bad
    else Printf.sprintf "t=%s;delivered=%d;spec=%s;class=e1p:rev%s" (Buffer.contents trace) !delivered
           (bool01 (!delivered = List.length pl)) (if rev2 = "1" then "2" else "3")
  | ["sac"; g; u; hg; hu; old; cut; fr] ->
    let f = bytes_of_hex fr in
    (match rle_encode f (n_of_int 1026) with
     | EOk (bytes, complete, _) ->
       let cut = ios cut in
       let bytes = if cut >= 0 && cut < List.length bytes then List.filteri (fun i _ -> i < cut) bytes else bytes in
       let size = List.length bytes in
       let pkt = List.map n_of_int [0x0a; 0x00; ios g; ios u; 1; 0; 0; 0; 0; 2; size lsr 8; size land 255] @ bytes in
       let head = Printf.sprintf "complete=%s;pkt=%s" (bool01 complete) (hex_of_bytes pkt) in
       (match sandnet_handle_compressed pkt (nn hg) (nn hu) (buf_of old) with
        | CHandled b -> Printf.sprintf "%s;handled=1;buf=%s;spec=%s;class=sac:%s" head (buf_s b)
                          (bool01 (b = expect_overlay N0 f (buf_of old))) (if cut < 0 then "whole" else "cut-but-whole")
        | CFailed b -> Printf.sprintf "%s;handled=0;buf=%s;spec=0;class=sac:truncated" head (buf_s b)
        | CDropped -> Printf.sprintf "%s;handled=0;buf=%s;spec=0;class=sac:dropped" head (buf_s (buf_of old))
        | COob -> head ^ ";handled=OOB" | CFuel -> head ^ ";handled=FUEL")
     | _ -> "complete=?")
  | ["hist"; proto; pool; script] ->
    let pool = Array.of_list (List.map bytes_of_hex (String.split_on_char '/' pool)) in
    let toks = String.split_on_char ',' script in
    let h = ref 2166136261 in
    let fnv_byte b = h := ((!h lxor b) * 16777619) land 0xffffffff in
    let fnv_bytes l = List.iter (fun x -> fnv_byte (int_of_n x)) l in
    let fnv_string s = String.iter (fun c -> fnv_byte (Char.code c)) s in
    let slots = (match proto with
      | "sn" -> [|0; 1; 6; 7|] | "sa" | "es" -> [|0; 1; 254; 255|] | "pp" -> [|0; 1; 126; 127|]
      | "an" -> [|0; 1; 14; 15|] | _ -> [|1; 2; 63999; 65534|]) in
    let bufs = Array.make 4 None in
    let rxst = Array.init 4 (fun _ -> { rx_src = None; rx_active = N0; rx_buf = None }) in
    let seq = ref 0 and name = ref [] in
    let names = Hashtbl.create 4 in
    let m = ref [] in
    let cid = List.map n_of_int [1;2;3;4;5;6;7;8;9;10;11;12;13;14;15;16] in
    let str s = List.init (String.length s) (fun i -> n_of_int (Char.code s.[i])) in
    let trace = Buffer.create 64 in
    let sends = ref 0 and delivered = ref 0 and bad = ref "" in
    let is_prefix f b = (match b with
      | None -> false
      | Some l -> let rec go a b = (match a, b with [], _ -> true | x :: a', y :: b' -> x = y && go a' b' | _ -> false) in go f l) in
    List.iter (fun tk ->
      if String.length tk >= 2 then begin
        let slot = Char.code tk.[1] - 48 in
        let k = if String.length tk > 2 then ios (String.sub tk 2 (String.length tk - 2)) else 0 in
        if slot >= 0 && slot <= 3 then
        match tk.[0] with
        | 'n' ->
          let nm = str ("nm" ^ string_of_int k) in
          if proto = "e1" || proto = "e2" then begin
            Hashtbl.replace names slots.(slot) nm; m := tx_touch (n_of_int slots.(slot)) !m end
          else name := nm
        | 'x' -> if proto = "e1" || proto = "e2" then m := tx_touch (n_of_int slots.(slot)) !m
        | 's' when k < Array.length pool ->
          let f = pool.(k) in
          let u = slots.(slot) in
          incr sends;
          (* the datagram *)
          let pkt = (match proto with
            | "sn" -> let p = shownet_build (List.map n_of_int [10;0;0;1]) !name (n_of_int !seq) (n_of_int u) f in
                      seq := (!seq + 1) land 65535; p
            | "sa" -> Some (sandnet_build (n_of_int 1) (n_of_int u) N0 f)
            | "es" -> Some (espnet_build (n_of_int u) f)
            | "pp" -> Some (pathport_build (n_of_int 77) (n_of_int 1) (n_of_int u) f)
            | "an" -> let p = artnet_build (n_of_int !seq) N0 (n_of_int (48 + u)) (n_of_int 5) f in
                      (match p with Some _ -> seq := (!seq + 1) land 255 | None -> ()); p
            | _ -> let nm = (try Hashtbl.find names u with Not_found -> str "hist") in
                   let (p, m') = tx_send_map (proto = "e2") cid nm (n_of_int 100) !m (n_of_int u) f in
                   m := m'; p) in
          (match pkt with
           | None -> Buffer.add_char trace '-'
           | Some p ->
             fnv_bytes p;
             let ok = ref true in
             for z = 0 to 3 do
               let hz = slots.(z) in
               let ran = (match proto with
                 | "sn" -> (match shownet_handle p (n_of_int hz) bufs.(z) with
                            | RHandled b -> bufs.(z) <- b; true | RDropped -> false | _ -> bad := "OOB"; false)
                 | "sa" -> (match sandnet_handle p (n_of_int 1) (n_of_int hz) bufs.(z) with
                            | RHandled b -> bufs.(z) <- b; true | RDropped -> false | _ -> bad := "OOB"; false)
                 | "es" -> (match espnet_handle p (n_of_int hz) bufs.(z) with
                            | RHandled b -> bufs.(z) <- b; true | RDropped -> false | _ -> bad := "OOB"; false)
                 | "pp" -> (match pathport_handle p (n_of_int 78) (n_of_int hz) bufs.(z) with
                            | RHandled b -> bufs.(z) <- b; true | RDropped -> false | _ -> bad := "OOB"; false)
                 | "an" -> (match artnet_handle p (n_of_int 5) (n_of_int (48 + hz)) bufs.(z) with
                            | R2 (RHandled b) -> bufs.(z) <- b; true | R2 RDropped -> false | _ -> bad := "OOB"; false)
                 | _ -> (match e131_rx p (n_of_int hz) true rxst.(z) with
                         | SOk (st', ran) -> rxst.(z) <- st'; bufs.(z) <- st'.rx_buf; ran
                         | _ -> bad := "UNMODELLED"; false)) in
               if (z = slot) <> ran then ok := false
             done;
             let e = if proto = "an" && List.length f land 1 = 1 then f @ [N0] else f in
             let partial = proto = "sn" || proto = "pp" in
             if partial then (if not (is_prefix e bufs.(slot)) then ok := false)
             else if bufs.(slot) <> Some e then ok := false;
             fnv_string (buf_s bufs.(slot));
             if !ok then incr delivered;
             Buffer.add_char trace (if !ok then '1' else '0'))
        | _ -> ()
      end) toks;
    if !bad <> "" then "t=" ^ !bad ^ ";class=hist:" ^ !bad
    else Printf.sprintf "t=%s;h=%08x;delivered=%d;spec=%s;class=hist:%s" (Buffer.contents trace) !h !delivered
           (bool01 (!delivered = !sends)) proto
  | ["anm"; ltp; pool; script] ->
    let pool = Array.of_list (List.map bytes_of_hex (String.split_on_char '/' pool)) in
    let toks = String.split_on_char ',' script in
    let h = ref 2166136261 in
    let fnv_string s = String.iter (fun c -> h := ((!h lxor Char.code c) * 16777619) land 0xffffffff) s in
    let slots = ref (None, None) and buf = ref None in
    let now = ref 0 and last = [| -1; -1; -1 |] in
    let seqs = [| 0; 0; 0 |] in
    let trace = Buffer.create 64 in
    let sole = ref 0 and sole_ok = ref 0 in
    List.iter (fun tk ->
      if String.length tk >= 2 then begin
        let k = ios (String.sub tk 1 (String.length tk - 1)) in
        if tk.[0] = 'w' then now := !now + k
        else begin
          let who = Char.code tk.[0] - 97 in
          if who >= 0 && who <= 2 && k < Array.length pool then begin
            let f = pool.(k) in
            match artnet_build (n_of_int seqs.(who)) N0 (n_of_int 0x23) (n_of_int 1) f with
            | None -> Buffer.add_char trace '-'
            | Some p ->
              seqs.(who) <- (seqs.(who) + 1) land 255;
              (* the datagram is parsed as by a fresh single-source port; the frame then goes through the slots *)
              let d = (match artnet_handle p (n_of_int 1) (n_of_int 0x23) None with
                | R2 (RHandled (Some d)) -> Some d | _ -> None) in
              let ran = (match d with
                | None -> false
                | Some d ->
                  let (s', merged) = an_update (ltp = "1") !slots (n_of_int (who + 2)) (n_of_int !now) d in
                  slots := s';
                  (match merged with Some m -> buf := Some m; true | None -> false)) in
              let alone = ref true in
              for z = 0 to 2 do
                if z <> who && last.(z) >= 0 && not (last.(z) + 10 < !now) then alone := false
              done;
              last.(who) <- !now;
              let exact = ran && !buf = expect_artnet f in
              if !alone then begin incr sole; if exact then incr sole_ok end;
              fnv_string ((if ran then "1:" else "0:") ^ buf_s !buf);
              Buffer.add_char trace (if exact then (if !alone then '1' else 'e') else (if !alone then '0' else 'm'))
          end
        end
      end) toks;
    Printf.sprintf "t=%s;h=%08x;sole=%d;spec=%s;class=anm:%s" (Buffer.contents trace) !h !sole_ok
      (bool01 (!sole_ok = !sole)) (if ltp = "1" then "ltp" else "htp")
  | ["e1c"; rev2; pool; script] ->
    let rev2b = rev2 = "1" in
    let pool = Array.of_list (List.map bytes_of_hex (String.split_on_char '/' pool)) in
    let toks = String.split_on_char ',' script in
    let h = ref 2166136261 in
    let fnv_string s = String.iter (fun c -> h := ((!h lxor Char.code c) * 16777619) land 0xffffffff) s in
    let cids = Array.init 3 (fun k -> List.init 16 (fun z -> n_of_int (16 * (k + 1) + z))) in
    let name = List.map (fun c -> n_of_int (Char.code c)) ['c';'i';'d'] in
    let universe = n_of_int 7 in
    let txs = [| None; None; None |] in
    let st = ref { r_srcs = []; r_active = N0; r_hbuf = None } in
    let now = ref 0 in
    let last = [| -1; -1; -1 |] and term = [| false; false; false |] and prio = [| 100; 100; 100 |] in
    let lastf = [| []; []; [] |] in
    let trace = Buffer.create 64 in
    let sole = ref 0 and sole_ok = ref 0 and bad = ref "" in
    let deliver p =
      (match e131_packet p universe true with
       | PkGot pk -> let (st', ran) = e131_track !st (n_of_int !now) pk in st := st'; ran
       | PkIgnore -> false
       | PkOob -> bad := "OOB"; false
       | PkUnmod -> bad := "UNMODELLED"; false) in
    List.iter (fun tk ->
      if String.length tk >= 2 then begin
        let rest n = String.sub tk n (String.length tk - n) in
        match tk.[0] with
        | 'w' -> now := !now + ios (rest 1)
        | 'p' -> let w = Char.code tk.[1] - 97 in if w >= 0 && w < 3 then prio.(w) <- ios (rest 2)
        | 't' ->
          let w = Char.code tk.[1] - 97 in
          if w >= 0 && w < 3 && not rev2b then begin
            let (pk, t') = tx_terminate cids.(w) name (n_of_int prio.(w)) universe txs.(w) in
            txs.(w) <- t';
            List.iter (fun p -> ignore (deliver p)) pk;
            term.(w) <- true;
            fnv_string ("T:" ^ buf_s (!st).r_hbuf);
            Buffer.add_char trace 'T' end
        | c ->
          let who = Char.code c - 97 in
          let k = ios (rest 1) in
          if who >= 0 && who <= 2 && k < Array.length pool then begin
            let f = pool.(k) in
            let (p, t') = tx_send_r rev2b cids.(who) name (n_of_int prio.(who)) universe txs.(who) f in
            txs.(who) <- t';
            match p with
            | None -> Buffer.add_char trace '-'
            | Some p ->
              let ran = deliver p in
              let alone = ref true in
              for z = 0 to 2 do
                if z <> who && last.(z) >= 0 && not term.(z) && not (last.(z) + 2500 < !now) then begin
                  let zero = List.length lastf.(z) <= List.length f && prio.(z) = prio.(who)
                             && List.for_all (fun x -> x = N0) lastf.(z) in
                  if not zero then alone := false end
              done;
              last.(who) <- !now; term.(who) <- false; lastf.(who) <- f;
              let exact = ran && (!st).r_hbuf = Some f in
              if !alone then begin incr sole; if exact then incr sole_ok end;
              fnv_string ((if ran then "1:" else "0:") ^ buf_s (!st).r_hbuf);
              Buffer.add_char trace (if exact then (if !alone then '1' else 'e') else (if !alone then '0' else 'm'))
          end
      end) toks;
    if !bad <> "" then "t=" ^ !bad ^ ";class=e1c:" ^ !bad
    else Printf.sprintf "t=%s;h=%08x;sole=%d;spec=%s;class=e1c:rev%s" (Buffer.contents trace) !h !sole_ok
           (bool01 (!sole_ok = !sole)) (if rev2b then "2" else "3")
  | ["esr"; u; hu; old; fr] ->
    let f = bytes_of_hex fr in
    let enc = esp_encode f in
    let pkt = espnet_build_rle (nn u) enc in
    let special = List.exists (fun x -> int_of_n x >= 253 && int_of_n x <= 254) f in
    let exp = (match buf_of old with
      | None -> if f = [] then None else expect_overlay N0 f None
      | Some _ -> Some f) in
    (match espnet_handle_rle pkt (nn hu) (buf_of old) with
     | E2Handled b -> Printf.sprintf "enc=%s;handled=1;buf=%s;spec=%s;class=esr:%s" (hex_of_bytes enc) (buf_s b)
                        (bool01 (b = exp)) (if special then "with-fd-fe" else "plain")
     | E2Dropped -> Printf.sprintf "enc=%s;handled=0;buf=%s;spec=0;class=esr:dropped" (hex_of_bytes enc) (buf_s (buf_of old))
     | E2Oob -> "enc=OOB" | E2Fuel -> "enc=FUEL")
  | ["esd"; old; bs] ->
    (match esp_decode (bytes_of_hex bs) (buf_of old) with
     | Some b -> Printf.sprintf "dbuf=%s;class=esd" (buf_s b)
     | None -> "dbuf=FUEL")
  | ["e1x"; rev2; pool; script] ->
    let rev2b = rev2 = "1" in
    let pool = Array.of_list (List.map bytes_of_hex (String.split_on_char '/' pool)) in
    let toks = String.split_on_char ',' script in
    let h = ref 2166136261 in
    let fnv_byte b = h := ((!h lxor b) * 16777619) land 0xffffffff in
    let fnv_string s = String.iter (fun c -> fnv_byte (Char.code c)) s in
    let cid = List.init 16 (fun z -> n_of_int (z + 1)) in
    let str s = List.init (String.length s) (fun i -> n_of_int (Char.code s.[i])) in
    let name = ref (str "entry") in
    let universe = n_of_int 9 in
    let m = ref [] in                       (* sender settings: universe -> next sequence *)
    let st = ref { rx_src = None; rx_active = N0; rx_buf = None } in
    let trace = Buffer.create 64 in
    let all = ref true and bad = ref "" in
    let cur () = (match tx_lookup universe !m with Some s -> int_of_n s | None -> 0) in
    let ensure () = m := tx_touch universe !m in
    let advance () = m := tx_update universe (n_of_int ((cur () + 1) land 255)) !m in
    List.iter (fun tk ->
      if tk <> "" then begin
        let c = tk.[0] in
        if c = 'n' then begin name := str "renamed"; ensure () end
        else if c = 'x' then ensure ()
        else begin
          let us = (try String.index tk '_' with Not_found -> String.length tk) in
          let k = if us > 1 then ios (String.sub tk 1 (us - 1)) else 0 in
          let arg = if us < String.length tk then ios (String.sub tk (us + 1) (String.length tk - us - 1)) else 0 in
          let pkt = (
            if c = 'z' then begin
              if rev2b then None else begin
                let tracked = tx_lookup universe !m <> None in
                let q = if tracked then cur () else 0 in
                let p = e131_build_opt false cid !name (n_of_int 100) (n_of_int q) universe (n_of_int 64) [] in
                if tracked then advance ();
                (match p with Some p -> Some (p, [], false) | None -> None) end end
            else if k >= Array.length pool then None
            else begin
              let f = pool.(k) in
              ensure ();
              let q, prio, opt, adv = (match c with
                | 's' -> cur (), 100, 0, true
                | 'p' -> cur (), arg, 0, true
                | 'v' -> cur (), 100, (if rev2b then 0 else 128), true
                | 'o' -> (cur () + arg + 2560) land 255, 100, 0, (arg = 0)
                | _ -> -1, 0, 0, false) in
              if q < 0 then None else begin
                let p = e131_build_opt rev2b cid !name (n_of_int prio) (n_of_int q) universe (n_of_int opt) f in
                if adv then advance ();
                (match p with Some p -> Some (p, f, true) | None -> None) end end) in
          match pkt with
          | None -> ()
          | Some (p, f, is_data) ->
            let before = !st in
            let ran = (match e131_rx p universe true !st with
              | SOk (st', ran) -> st := st'; ran
              | SOob -> bad := "OOB"; false
              | SUnmodelled -> bad := "UNMODELLED"; false) in
            (* the rules: what must have happened *)
            let ok = if ran then is_data && (!st).rx_buf = Some f
                     else (ignore before; true) in
            if not ok then all := false;
            fnv_string ((if ran then "1:" else "0:") ^ buf_s (!st).rx_buf);
            List.iter (fun x -> fnv_byte (int_of_n x)) p;
            Buffer.add_char trace (if ok then (if ran then '1' else '.') else '0')
        end
      end) toks;
    if !bad <> "" then "t=" ^ !bad ^ ";class=e1x:" ^ !bad
    else Printf.sprintf "t=%s;h=%08x;spec=%s;class=e1x:rev%s" (Buffer.contents trace) !h (bool01 !all)
           (if rev2b then "2" else "3")
  | ["enc"; cap; fr] ->
    let f = bytes_of_hex fr in
    let cls = frame_class (List.map int_of_n f) in
    (match rle_encode f (nn cap) with
     | EOob -> "ret=OOB;class=enc:oob"
     | EOutOfFuel -> "ret=FUEL;class=enc:fuel"
     | EOk (bytes, ret, size) ->
       let d = rle_decode N0 bytes None in
       let dret, dbuf = match d with
         | DOk (b, r) -> bool01 r, buf_s b | DOob -> "OOB", "?" | DOutOfFuel -> "FUEL", "?" in
       let lossless = (not ret) || (match d with DOk (b, true) -> b = (if f = [] then None else expect_overlay N0 f None) | _ -> false) in
       Printf.sprintf "ret=%s;size=%d;bytes=%s;clean=1;dret=%s;dbuf=%s;lossless=%s;class=enc:%s:%s"
         (bool01 ret) (int_of_n size) (hex_of_bytes bytes) dret dbuf (bool01 lossless)
         (if ret then "complete" else "truncated") cls)
  | ["dec"; start; old; bs] ->
    (match rle_decode (nn start) (bytes_of_hex bs) (buf_of old) with
     | DOk (b, r) -> Printf.sprintf "dret=%s;dbuf=%s;class=dec:%s" (bool01 r) (buf_s b)
                       (if r then "whole" else "truncated")
     | DOob -> "dret=OOB;class=dec:oob"
     | DOutOfFuel -> "dret=FUEL;class=dec:fuel")
  | ["sn"; u; hu; old; seq; name; fr] ->
    let f = bytes_of_hex fr in
    let ip = List.map n_of_int [10; 0; 0; 1] in
    (match shownet_build ip (bytes_of_hex name) (nn seq) (nn u) f with
     | None -> "pkt=none;class=sn:nobuild"
     | Some p ->
       let raw = (match rle_encode f (n_of_int 1310) with EOk (_, _, s) -> int_of_n s = List.length f | _ -> false) in
       rres_s (Some p) (shownet_handle p (nn hu) (buf_of old)) (buf_of old) (expect_overlay N0 f (buf_of old))
       ^ ";class=sn:" ^ (if u = hu then (if raw then "raw" else "rle") else "other-universe")
       ^ ":" ^ frame_class (List.map int_of_n f))
  | ["sa"; g; u; port; hg; hu; old; fr] ->
    let f = bytes_of_hex fr in
    let p = sandnet_build (nn g) (nn u) (nn port) f in
    rres_s (Some p) (sandnet_handle p (nn hg) (nn hu) (buf_of old)) (buf_of old) (expect_full f)
    ^ ";class=sa:" ^ (if g = hg && u = hu then "same" else "other-address")
  | ["es"; u; hu; old; fr] ->
    let f = bytes_of_hex fr in
    let p = espnet_build (nn u) f in
    rres_s (Some p) (espnet_handle p (nn hu) (buf_of old)) (buf_of old) (expect_full f)
    ^ ";class=es:" ^ (if u = hu then "same" else "other-universe")
  | ["pp"; u; hu; old; dev; seq; fr] ->
    let f = bytes_of_hex fr in
    let p = pathport_build (n_of_string dev) (nn seq) (nn u) f in
    rres_s (Some p) (pathport_handle p (n_of_string dev) (nn hu) (buf_of old)) (buf_of old) (expect_overlay N0 f (buf_of old))
    ^ ";class=pp:" ^ (if u = hu then "same" else "other-universe")
  | ["an"; net; sub; uni; port; huni; old; pre; fr] ->
    let f = bytes_of_hex fr in
    let addr = ((ios sub land 15) * 16 + (ios uni land 15)) in
    let haddr = ((ios sub land 15) * 16 + (ios huni land 15)) in
    let netv = ios net land 127 in
    (match artnet_build (nn pre) (nn port) (n_of_int addr) (n_of_int netv) f with
     | None -> "pkt=none;sent=0;class=an:not-sent"
     | Some p ->
       r2_s (Some p) (artnet_handle p (n_of_int netv) (n_of_int haddr) (buf_of old)) (buf_of old) (expect_artnet f)
       ^ ";class=an:" ^ (if addr = haddr then "same" else "other-address")
       ^ (if List.length f land 1 = 1 then ":odd" else ":even"))
  | ["e1"; rev2; u; hu; old; pre; prio; preview; name; fr] ->
    let f = bytes_of_hex fr in
    let cid = List.map n_of_int [1;2;3;4;5;6;7;8;9;10;11;12;13;14;15;16] in
    (match e131_build (rev2 = "1") cid (bytes_of_hex name) (nn prio) (nn pre) (nn u) (preview = "1") f with
     | None -> "pkt=none;sent=0;class=e1:not-sent"
     | Some p ->
       r2_s (Some p) (e131_handle p (nn hu) true (buf_of old)) (buf_of old) (expect_full f)
       ^ ";class=e1:rev" ^ (if rev2 = "1" then "2" else "3") ^ ":"
       ^ (if u <> hu then "other-universe" else if preview = "1" && rev2 <> "1" then "preview"
          else if ios prio > 200 then "bad-priority" else "same"))
  | _ -> "bad-op"
let () = vh_run handle
