// C07 correspondence harness: the real RunLengthEncoder (guarded, exact-size buffers) and real
// protocol node objects; datagrams are captured by a link-time sendto wrapper and delivered by a
// link-time recvfrom wrapper (no network traffic).
#include <errno.h>
#include <netinet/in.h>
#include <sys/socket.h>
#include <sys/types.h>
#include <time.h>
#include <memory>
#include <string>
#include <vector>
#include <map>
#include <set>
#include <sstream>
#include <iostream>
#include <queue>
#include <deque>
#include <list>
#include <algorithm>
#include "vh.h"
#define private public
#define protected public
#include "ola/Callback.h"
#include "ola/Constants.h"
#include "ola/DmxBuffer.h"
#include "ola/Logging.h"
#include "ola/dmx/RunLengthEncoder.h"
#include "ola/network/IPV4Address.h"
#include "ola/network/Socket.h"
#include "ola/timecode/TimeCode.h"
#include "ola/timecode/TimeCodeEnums.h"
#include "ola/Clock.h"
#include "ola/acn/CID.h"
#include "ola/io/SelectServer.h"
#include "libs/acn/E131Node.h"
#include "plugins/artnet/ArtNetNode.h"
#include "plugins/espnet/EspNetNode.h"
#include "plugins/espnet/RunLengthDecoder.h"
#include "plugins/pathport/PathportNode.h"
#include "plugins/sandnet/SandNetNode.h"
#include "plugins/shownet/ShowNetNode.h"
#undef private
#undef protected

using ola::DmxBuffer;
using ola::network::IPV4Address;
using ola::network::IPV4SocketAddress;
using std::string;
using std::vector;

// ---------------------------------------------------------------- interposers
static vector<vector<uint8_t> > g_sent;     // datagrams captured from sendto
static vector<uint8_t> g_rx;                // datagram the next recvfrom returns
static bool g_rx_valid = false;
static uint32_t g_rx_source = 0;            // network order

extern "C" ssize_t __wrap_sendto(int, const void *buf, size_t len, int, const struct sockaddr *, socklen_t) {
  const uint8_t *p = static_cast<const uint8_t*>(buf);
  g_sent.push_back(vector<uint8_t>(p, p + len));
  return static_cast<ssize_t>(len);
}

extern "C" ssize_t __wrap_recvfrom(int, void *buf, size_t len, int, struct sockaddr *src, socklen_t *slen) {
  if (!g_rx_valid) { errno = EAGAIN; return -1; }
  g_rx_valid = false;
  memset(buf, 0xA5, len);                  // stale-byte poison: nothing of it may reach the output
  size_t n = g_rx.size() < len ? g_rx.size() : len;
  if (n) memcpy(buf, g_rx.data(), n);
  if (src && slen && *slen >= sizeof(struct sockaddr_in)) {
    struct sockaddr_in *a = reinterpret_cast<struct sockaddr_in*>(src);
    memset(a, 0, sizeof(*a));
    a->sin_family = AF_INET;
    a->sin_port = htons(4321);
    a->sin_addr.s_addr = g_rx_source;
    *slen = sizeof(*a);
  }
  return static_cast<ssize_t>(n);
}

// virtual time: the real monotonic clock plus an offset the E1.31 multi-sender histories advance
static long long g_clock_offset_ns = 0;
extern "C" int __real_clock_gettime(clockid_t id, struct timespec *ts);
extern "C" int __wrap_clock_gettime(clockid_t id, struct timespec *ts) {
  int r = __real_clock_gettime(id, ts);
  if (r == 0 && g_clock_offset_ns) {
    long long ns = ts->tv_nsec + g_clock_offset_ns % 1000000000LL;
    ts->tv_sec += g_clock_offset_ns / 1000000000LL + ns / 1000000000LL;
    ts->tv_nsec = ns % 1000000000LL;
  }
  return r;
}

// ---------------------------------------------------------------- helpers
static int g_calls = 0;
static void on_data() { g_calls++; }

static string buf_s(const DmxBuffer &b) {
  if (!b.m_data) return "none";
  return vh::hex(b.GetRaw(), b.Size());
}
static void buf_init(DmxBuffer *b, const string &s) {
  if (s == "none") return;
  vector<uint8_t> v = vh::unhex(s);
  uint8_t dummy = 0;
  b->Set(v.empty() ? &dummy : v.data(), v.size());
}
static ola::network::Interface iface() {
  ola::network::Interface i;
  IPV4Address::FromString("10.0.0.1", &i.ip_address);
  IPV4Address::FromString("10.255.255.255", &i.bcast_address);
  IPV4Address::FromString("255.0.0.0", &i.subnet_mask);
  return i;
}
static void set_source() {
  IPV4Address a;
  IPV4Address::FromString("10.0.0.2", &a);
  g_rx_source = a.AsInt();
}
// what the property expects of a partial-universe receiver: frame over old contents from `start`
static string overlay(const string &old, unsigned start, const vector<uint8_t> &f) {
  vector<uint8_t> l = old == "none" ? vector<uint8_t>(512, 0) : vh::unhex(old);
  vector<uint8_t> r(l.begin(), l.begin() + (start < l.size() ? start : l.size()));
  r.insert(r.end(), f.begin(), f.end());
  if (start + f.size() < l.size()) r.insert(r.end(), l.begin() + start + f.size(), l.end());
  return vh::hex(r);
}
static string deliver_result(const vector<uint8_t> *pkt, const DmxBuffer &rx, int calls_before,
                             const string &expect) {
  string r = "pkt=" + (pkt ? vh::hex(*pkt) : string("none"));
  bool handled = g_calls > calls_before;
  r += ";handled=" + vh::str(handled ? 1 : 0);
  r += ";buf=" + buf_s(rx);
  r += ";spec=" + vh::str((handled && buf_s(rx) == expect) ? 1 : 0);
  return r;
}


// A transmit buffer with history: the block first holds `dirty` (a longer, earlier frame), then the
// frame is Set() over it, so the bytes beyond the frame's length in the 512-byte block are stale.
static void tx_fill(DmxBuffer *tx, const vector<uint8_t> &f, const vector<uint8_t> *dirty) {
  uint8_t dummy = 0;
  if (dirty) {
    if (!dirty->empty()) tx->Set(dirty->data(), dirty->size());
  } else {
    // default history: a full frame without three equal neighbours, derived from the frame
    uint8_t pat[512];
    for (unsigned k = 0; k < 512; k++) pat[k] = static_cast<uint8_t>((f.empty() ? 0x5a : f[0]) + 1 + k * 37);
    tx->Set(pat, 512);
  }
  tx->Set(f.empty() ? &dummy : f.data(), f.size());
}

// ---------------------------------------------------------------- RLE
static string do_enc(const vector<string> &a) {
  // enc <cap> <frame>
  unsigned cap = vh::num(a[1]);
  bool has_dirty = a[0] == "encd";
  vector<uint8_t> dirty = has_dirty ? vh::unhex(a[2]) : vector<uint8_t>();
  vector<uint8_t> f = vh::unhex(has_dirty ? a[3] : a[2]);
  DmxBuffer src;
  tx_fill(&src, f, &dirty);
  ola::dmx::RunLengthEncoder enc;
  // exact-size heap block: a write beyond `cap` is an ASan heap-buffer-overflow
  uint8_t *out = new uint8_t[cap];
  memset(out, 0xEE, cap);
  unsigned size = cap;
  bool ret = enc.Encode(src, out, &size);
  string r = "ret=" + vh::str(ret ? 1 : 0) + ";size=" + vh::str(size);
  if (size > cap) { delete[] out; return r + ";bytes=overrun"; }
  r += ";bytes=" + vh::hex(out, size);
  // nothing after `size` may have been touched
  bool clean = true;
  for (unsigned k = size; k < cap; k++) if (out[k] != 0xEE) clean = false;
  r += ";clean=" + vh::str(clean ? 1 : 0);
  // decode what was written, from an exact-size copy, into an unallocated buffer
  vector<uint8_t> wv(out, out + size);
  delete[] out;
  vh::Exact w(wv);
  DmxBuffer dst;
  bool dret = enc.Decode(0, w.p, w.n, &dst);
  r += ";dret=" + vh::str(dret ? 1 : 0) + ";dbuf=" + buf_s(dst);
  // the property: complete => decoding gives the frame back (over the 512 zeros of a new buffer)
  bool lossless = !ret || (dret && buf_s(dst) == (f.empty() ? string("none") : overlay("none", 0, f)));
  r += ";lossless=" + vh::str(lossless ? 1 : 0);
  return r;
}

static string do_dec(const vector<string> &a) {
  // dec <start> <old> <bytes>
  unsigned start = vh::num(a[1]);
  DmxBuffer dst;
  buf_init(&dst, a[2]);
  vh::Exact w(vh::unhex(a[3]));
  ola::dmx::RunLengthEncoder enc;
  bool dret = enc.Decode(start, w.p, w.n, &dst);
  return "dret=" + vh::str(dret ? 1 : 0) + ";dbuf=" + buf_s(dst);
}

// ---------------------------------------------------------------- ShowNet
static string do_sn(const vector<string> &a) {
  // sn <universe> <hu> <old> <seq> <name> <frame>
  using ola::plugin::shownet::ShowNetNode;
  unsigned universe = vh::num(a[1]), hu = vh::num(a[2]);
  bool has_dirty = a[0] == "snd";
  vector<uint8_t> name = vh::unhex(a[5]), f = vh::unhex(has_dirty ? a[7] : a[6]);
  vector<uint8_t> dirty = has_dirty ? vh::unhex(a[6]) : vector<uint8_t>();
  DmxBuffer tx, rx;
  tx_fill(&tx, f, has_dirty ? &dirty : NULL);
  buf_init(&rx, a[3]);
  ShowNetNode node("");
  node.m_interface = iface();
  node.m_socket = new ola::network::UDPSocket();
  node.m_socket->Init();
  node.m_running = true;
  node.m_packet_count = vh::num(a[4]);
  node.SetName(string(name.begin(), name.end()));
  node.SetHandler(hu, &rx, ola::NewCallback(&on_data));
  g_sent.clear();
  bool sent = node.SendDMX(universe, tx);
  if (!sent || g_sent.size() != 1) return "pkt=none;sent=" + vh::str(g_sent.size());
  int before = g_calls;
  g_rx = g_sent[0]; g_rx_valid = true; set_source();
  node.SocketReady();
  return deliver_result(&g_sent[0], rx, before, overlay(a[3], 0, f));
}

// ---------------------------------------------------------------- SandNet
static string do_sa(const vector<string> &a) {
  // sa <group> <universe> <port> <hg> <hu> <old> <frame>
  using ola::plugin::sandnet::SandNetNode;
  vector<uint8_t> f = vh::unhex(a[7]);
  DmxBuffer tx, rx;
  tx_fill(&tx, f, NULL);
  buf_init(&rx, a[6]);
  SandNetNode node("");
  node.m_interface = iface();
  node.m_data_socket.Init();
  node.m_control_socket.Init();
  IPV4Address ip;
  IPV4Address::FromString("237.1.2.1", &ip);
  node.m_data_addr = IPV4SocketAddress(ip, 37900);
  node.m_control_addr = IPV4SocketAddress(ip, 37895);
  node.m_running = true;
  unsigned port = vh::num(a[3]);
  node.SetPortParameters(port, SandNetNode::SANDNET_PORT_MODE_IN, vh::num(a[1]), vh::num(a[2]));
  node.SetHandler(vh::num(a[4]), vh::num(a[5]), &rx, ola::NewCallback(&on_data));
  g_sent.clear();
  bool sent = node.SendDMX(port, tx);
  if (!sent || g_sent.size() != 1) return "pkt=none;sent=" + vh::str(g_sent.size());
  int before = g_calls;
  g_rx = g_sent[0]; g_rx_valid = true; set_source();
  node.SocketReady(&node.m_data_socket);
  return deliver_result(&g_sent[0], rx, before, vh::hex(f));
}

// ---------------------------------------------------------------- ESP Net
static string do_es(const vector<string> &a) {
  // es <universe> <hu> <old> <frame>
  using ola::plugin::espnet::EspNetNode;
  vector<uint8_t> f = vh::unhex(a[4]);
  DmxBuffer tx, rx;
  tx_fill(&tx, f, NULL);
  buf_init(&rx, a[3]);
  EspNetNode node("");
  node.m_interface = iface();
  node.m_socket.Init();
  node.m_running = true;
  node.SetHandler(vh::num(a[2]), &rx, ola::NewCallback(&on_data));
  g_sent.clear();
  bool sent = node.SendDMX(vh::num(a[1]), tx);
  if (!sent || g_sent.size() != 1) return "pkt=none;sent=" + vh::str(g_sent.size());
  int before = g_calls;
  g_rx = g_sent[0]; g_rx_valid = true; set_source();
  node.SocketReady();
  return deliver_result(&g_sent[0], rx, before, vh::hex(f));
}

// ---------------------------------------------------------------- Pathport
static string do_pp(const vector<string> &a) {
  // pp <universe> <hu> <old> <device_id> <seq> <frame>
  using ola::plugin::pathport::PathportNode;
  vector<uint8_t> f = vh::unhex(a[6]);
  DmxBuffer tx, rx;
  tx_fill(&tx, f, NULL);
  buf_init(&rx, a[3]);
  PathportNode node("", vh::num(a[4]), 0);
  node.m_interface = iface();
  node.m_socket.Init();
  IPV4Address ip;
  IPV4Address::FromString("239.255.237.1", &ip);
  node.m_data_addr = ip;
  node.m_running = true;
  node.m_sequence_number = vh::num(a[5]);
  node.SetHandler(vh::num(a[2]), &rx, ola::NewCallback(&on_data));
  g_sent.clear();
  bool sent = node.SendDMX(vh::num(a[1]), tx);
  if (!sent || g_sent.size() != 1) return "pkt=none;sent=" + vh::str(g_sent.size());
  int before = g_calls;
  g_rx = g_sent[0]; g_rx_valid = true; set_source();
  node.SocketReady(&node.m_socket);
  // the padding after the frame is uninitialised stack in SendDMX: compare it as zeros
  vector<uint8_t> shown = g_sent[0];
  for (size_t k = 32 + f.size(); k < shown.size(); k++) shown[k] = 0;
  return deliver_result(&shown, rx, before, overlay(a[3], 0, f));
}

// ---------------------------------------------------------------- Art-Net
// A real UDPSocket that never binds: sendto/recvfrom are interposed anyway.
class CapSocket : public ola::network::UDPSocket {
 public:
  bool Bind(const IPV4SocketAddress &) { return true; }
  bool EnableBroadcast() { return true; }
};

static string do_an(const vector<string> &a) {
  // an <net> <subnet> <uni> <port_id> <huni> <old> <pre> <frame>
  using ola::plugin::artnet::ArtNetNode;
  using ola::plugin::artnet::ArtNetNodeOptions;
  vector<uint8_t> f = vh::unhex(a[8]);
  DmxBuffer tx, rx;
  tx_fill(&tx, f, NULL);
  buf_init(&rx, a[6]);
  ola::io::SelectServer ss;
  ArtNetNodeOptions opts;
  opts.always_broadcast = true;
  ArtNetNode node(iface(), &ss, opts, new CapSocket());
  unsigned port = vh::num(a[4]);
  node.SetNetAddress(vh::num(a[1]));
  node.SetSubnetAddress(vh::num(a[2]));
  node.SetInputPortUniverse(port, vh::num(a[3]));
  node.SetOutputPortUniverse(0, vh::num(a[5]));
  node.SetDMXHandler(0, &rx, ola::NewCallback(&on_data));
  if (!node.Start()) return "pkt=none;start=0";
  const uint8_t two[2] = {1, 2};
  DmxBuffer pre(two, 2);
  for (unsigned k = 0; k < vh::num(a[7]); k++) node.SendDMX(port, pre);
  g_sent.clear();
  bool sent = node.SendDMX(port, tx);
  if (!sent || g_sent.size() != 1) return "pkt=none;sent=" + vh::str(g_sent.size());
  vector<uint8_t> pkt = g_sent[0];
  int before = g_calls;
  g_rx = pkt; g_rx_valid = true; set_source();
  node.m_impl.SocketReady();
  vector<uint8_t> e = f;
  if (e.size() & 1) e.push_back(0);
  return deliver_result(&pkt, rx, before, vh::hex(e));
}

// Art-Net with separate sender and receiver nodes and a varied configuration history
static void an_config(ola::plugin::artnet::ArtNetNode *n, unsigned perm, unsigned net, unsigned sub,
                      int in_port, unsigned in_uni, int out_port, unsigned out_uni) {
  static const int order[6][3] = {{0, 1, 2}, {0, 2, 1}, {1, 0, 2}, {1, 2, 0}, {2, 0, 1}, {2, 1, 0}};
  for (int k = 0; k < 3; k++) {
    switch (order[perm % 6][k]) {
      case 0: n->SetNetAddress(net); break;
      case 1: n->SetSubnetAddress(sub); break;
      default:
        if (in_port >= 0) n->SetInputPortUniverse(in_port, in_uni);
        if (out_port >= 0) n->SetOutputPortUniverse(out_port, out_uni);
    }
  }
}

static string do_an2(const vector<string> &a) {
  // an2 <rx_input_ports> <order> <net> <subnet> <uni> <port_id> <huni> <old> <pre> <frame>
  using ola::plugin::artnet::ArtNetNode;
  using ola::plugin::artnet::ArtNetNodeOptions;
  vector<uint8_t> f = vh::unhex(a[10]);
  DmxBuffer tx, rx;
  tx_fill(&tx, f, NULL);
  buf_init(&rx, a[8]);
  ola::io::SelectServer ss;
  unsigned order = vh::num(a[2]), net = vh::num(a[3]), sub = vh::num(a[4]);
  unsigned port = vh::num(a[6]);
  ArtNetNodeOptions topts, ropts;
  topts.always_broadcast = true;
  ropts.input_port_count = vh::num(a[1]);
  ArtNetNode txn(iface(), &ss, topts, new CapSocket());
  ArtNetNode rxn(iface(), &ss, ropts, new CapSocket());
  bool start_first = (order / 6) % 2;
  unsigned out_port = (order / 12) % 4;
  if (start_first) { if (!txn.Start() || !rxn.Start()) return "pkt=none;start=0"; }
  an_config(&txn, order + 1, net, sub, port, vh::num(a[5]), -1, 0);
  rxn.SetDMXHandler(out_port, &rx, ola::NewCallback(&on_data));
  an_config(&rxn, order, net, sub, -1, 0, out_port, vh::num(a[7]));
  if (!start_first) { if (!txn.Start() || !rxn.Start()) return "pkt=none;start=0"; }
  const uint8_t two[2] = {1, 2};
  DmxBuffer pre(two, 2);
  for (unsigned k = 0; k < vh::num(a[9]); k++) txn.SendDMX(port, pre);
  g_sent.clear();
  bool sent = txn.SendDMX(port, tx);
  if (!sent || g_sent.size() != 1) return "pkt=none;sent=" + vh::str(g_sent.size());
  vector<uint8_t> pkt = g_sent[0];
  int before = g_calls;
  g_rx = pkt; g_rx_valid = true; set_source();
  rxn.m_impl.SocketReady();
  vector<uint8_t> e = f;
  if (e.size() & 1) e.push_back(0);
  return deliver_result(&pkt, rx, before, vh::hex(e));
}

// ---------------------------------------------------------------- E1.31
static string do_e1(const vector<string> &a) {
  // e1 <rev2> <universe> <hu> <old> <pre> <priority> <preview> <name> <frame>
  using ola::acn::E131Node;
  vector<uint8_t> name = vh::unhex(a[8]), f = vh::unhex(a[9]);
  DmxBuffer tx, rx;
  tx_fill(&tx, f, NULL);
  buf_init(&rx, a[4]);
  ola::io::SelectServer ss;
  E131Node::Options opts;
  opts.use_rev2 = vh::num(a[1]) != 0;
  opts.source_name = string(name.begin(), name.end());
  uint8_t cid_bytes[16];
  for (int k = 0; k < 16; k++) cid_bytes[k] = k + 1;
  E131Node node(&ss, "", opts, ola::acn::CID::FromData(cid_bytes));
  node.m_interface = iface();
  node.m_socket.Init();
  uint8_t prio_out = 0;
  node.m_dmp_inflator.SetHandler(vh::num(a[3]), &rx, &prio_out, ola::NewCallback(&on_data));
  unsigned universe = vh::num(a[2]);
  const uint8_t two[2] = {1, 2};
  DmxBuffer pre(two, 2);
  for (unsigned k = 0; k < vh::num(a[5]); k++) node.SendDMX(universe, pre, vh::num(a[6]), false);
  g_sent.clear();
  bool sent = node.SendDMX(universe, tx, vh::num(a[6]), vh::num(a[7]) != 0);
  if (!sent || g_sent.size() != 1) return "pkt=none;sent=" + vh::str(g_sent.size());
  vector<uint8_t> pkt = g_sent[0];
  int before = g_calls;
  g_rx = pkt; g_rx_valid = true; set_source();
  node.m_incoming_udp_transport.Receive();
  return deliver_result(&pkt, rx, before, vh::hex(f));
}

// ---------------------------------------------------------------- E1.31 stream lifecycle
// One sender node and ONE receiver node kept over the whole history:
// n frames, TerminateStream, m frames of a new stream.  Frame i of a stream is the base frame with
// slot 0 replaced by (base[0] + i) mod 256.  Every datagram is delivered as it is sent.
static vector<uint8_t> nth_frame(const vector<uint8_t> &base, unsigned i) {
  vector<uint8_t> f = base;
  f[0] = static_cast<uint8_t>(f[0] + i);
  return f;
}
static string do_e1s(const vector<string> &a) {
  // e1s <universe> <priority> <n> <frameA> <m> <frameB>
  using ola::acn::E131Node;
  unsigned universe = vh::num(a[1]), prio = vh::num(a[2]), n = vh::num(a[3]), m = vh::num(a[5]);
  vector<uint8_t> fa = vh::unhex(a[4]), fb = vh::unhex(a[6]);
  ola::io::SelectServer ss;
  E131Node::Options opts;
  opts.source_name = "stream";
  uint8_t cid_bytes[16];
  for (int k = 0; k < 16; k++) cid_bytes[k] = k + 1;
  E131Node txn(&ss, "", opts, ola::acn::CID::FromData(cid_bytes));
  for (int k = 0; k < 16; k++) cid_bytes[k] = 0x80 + k;
  E131Node rxn(&ss, "", opts, ola::acn::CID::FromData(cid_bytes));
  txn.m_interface = iface(); rxn.m_interface = iface();
  txn.m_socket.Init(); rxn.m_socket.Init();
  DmxBuffer rx;
  uint8_t prio_out = 0;
  rxn.m_dmp_inflator.SetHandler(universe, &rx, &prio_out, ola::NewCallback(&on_data));
  string trace;
  bool all = true;
  unsigned delivered = 0;
  for (unsigned phase = 0; phase < 2; phase++) {
    unsigned cnt = phase == 0 ? n : m;
    for (unsigned i = 0; i < cnt; i++) {
      vector<uint8_t> f = nth_frame(phase == 0 ? fa : fb, i);
      DmxBuffer tx;
      tx_fill(&tx, f, NULL);
      g_sent.clear();
      bool sent = txn.SendDMX(universe, tx, prio, false);
      if (!sent || g_sent.size() != 1) return "t=notsent";
      int before = g_calls;
      g_rx = g_sent[0]; g_rx_valid = true; set_source();
      rxn.m_incoming_udp_transport.Receive();
      bool ok = g_calls > before && buf_s(rx) == vh::hex(f);
      if (ok) delivered++; else all = false;
      trace += (g_calls > before ? "1:" : "0:") + buf_s(rx).substr(0, 8) + ",";
    }
    if (phase == 0) {
      g_sent.clear();
      txn.TerminateStream(universe, prio);
      vector<vector<uint8_t> > pk = g_sent;
      trace += "T" + vh::str(pk.size()) + ":";
      for (size_t k = 0; k < pk.size(); k++) {
        int before = g_calls;
        g_rx = pk[k]; g_rx_valid = true; set_source();
        rxn.m_incoming_udp_transport.Receive();
        trace += (g_calls > before ? "1" : "0");
      }
      trace += ":" + buf_s(rx).substr(0, 8) + ",";
    }
  }
  return "t=" + trace + ";delivered=" + vh::str(delivered) + ";spec=" + vh::str(all ? 1 : 0);
}

// ---------------------------------------------------------------- E1.31, one sender, many universes
static vector<uint8_t> multi_frame(const vector<uint8_t> &base, unsigned i, unsigned r) {
  vector<uint8_t> f = base;
  f[0] = static_cast<uint8_t>(f[0] + 31 * r + i);
  if (f.size() > 1) f[1] = static_cast<uint8_t>(f[1] + r);
  return f;
}
static string do_e1m(const vector<string> &a) {
  // e1m <rev2> <ubase> <N> <rounds> <priority> <sampled indices, comma separated> <base frame>
  using ola::acn::E131Node;
  bool rev2 = vh::num(a[1]) != 0;
  unsigned ubase = vh::num(a[2]), n = vh::num(a[3]), rounds = vh::num(a[4]), prio = vh::num(a[5]);
  vector<string> ss_ = vh::split(a[6], ',');
  vector<unsigned> sampled;
  for (size_t k = 0; k < ss_.size(); k++) sampled.push_back(vh::num(ss_[k]));
  vector<uint8_t> base = vh::unhex(a[7]);
  ola::io::SelectServer ss;
  E131Node::Options opts;
  opts.use_rev2 = rev2;
  opts.source_name = "multi";
  uint8_t cid_bytes[16];
  for (int k = 0; k < 16; k++) cid_bytes[k] = k + 1;
  E131Node txn(&ss, "", opts, ola::acn::CID::FromData(cid_bytes));
  for (int k = 0; k < 16; k++) cid_bytes[k] = 0x80 + k;
  E131Node rxn(&ss, "", opts, ola::acn::CID::FromData(cid_bytes));
  txn.m_interface = iface(); rxn.m_interface = iface();
  txn.m_socket.Init(); rxn.m_socket.Init();
  vector<DmxBuffer*> bufs(n, static_cast<DmxBuffer*>(NULL));
  vector<DmxBuffer> store(sampled.size());
  uint8_t prio_out = 0;
  for (size_t k = 0; k < sampled.size(); k++) {
    bufs[sampled[k]] = &store[k];
    rxn.m_dmp_inflator.SetHandler(ubase + sampled[k], &store[k], &prio_out, ola::NewCallback(&on_data));
  }
  string trace;
  unsigned delivered = 0, stray = 0, expected = 0;
  for (unsigned r = 0; r < rounds; r++) {
    for (unsigned i = 0; i < n; i++) {
      vector<uint8_t> f = multi_frame(base, i, r);
      DmxBuffer tx;
      tx_fill(&tx, f, NULL);
      g_sent.clear();
      bool sent = txn.SendDMX(ubase + i, tx, prio, false);
      if (!sent || g_sent.size() != 1) return "t=notsent";
      int before = g_calls;
      g_rx = g_sent[0]; g_rx_valid = true; set_source();
      rxn.m_incoming_udp_transport.Receive();
      if (bufs[i]) {
        expected++;
        bool ok = g_calls == before + 1 && buf_s(*bufs[i]) == vh::hex(f);
        if (ok) delivered++;
        trace += ok ? "1" : "0";
      } else if (g_calls != before) {
        stray++;
      }
    }
  }
  return "t=" + trace + ";stray=" + vh::str(stray) + ";delivered=" + vh::str(delivered) +
         ";spec=" + vh::str((delivered == expected && stray == 0) ? 1 : 0);
}

// ---------------------------------------------------------------- Art-Net: several output ports
static int g_port_calls[4] = {0, 0, 0, 0};
static void on_port0() { g_port_calls[0]++; }
static void on_port1() { g_port_calls[1]++; }
static void on_port2() { g_port_calls[2]++; }
static void on_port3() { g_port_calls[3]++; }

static string do_an3(const vector<string> &a) {
  // an3 <net> <subnet> <uni> <port_id> <h0,h1,h2,h3 (x = port disabled)> <pre> <frame>
  using ola::plugin::artnet::ArtNetNode;
  using ola::plugin::artnet::ArtNetNodeOptions;
  vector<uint8_t> f = vh::unhex(a[7]);
  DmxBuffer tx;
  tx_fill(&tx, f, NULL);
  ola::io::SelectServer ss;
  unsigned net = vh::num(a[1]), sub = vh::num(a[2]), port = vh::num(a[4]);
  vector<string> hs = vh::split(a[5], ',');
  ArtNetNodeOptions topts, ropts;
  topts.always_broadcast = true;
  ArtNetNode txn(iface(), &ss, topts, new CapSocket());
  ArtNetNode rxn(iface(), &ss, ropts, new CapSocket());
  txn.SetNetAddress(net); txn.SetSubnetAddress(sub); txn.SetInputPortUniverse(port, vh::num(a[3]));
  rxn.SetNetAddress(net); rxn.SetSubnetAddress(sub);
  DmxBuffer rx[4];
  ola::Callback0<void> *cbs[4] = {ola::NewCallback(&on_port0), ola::NewCallback(&on_port1),
                                  ola::NewCallback(&on_port2), ola::NewCallback(&on_port3)};
  for (unsigned k = 0; k < 4; k++) {
    rxn.SetDMXHandler(k, &rx[k], cbs[k]);
    if (k < hs.size() && hs[k] != "x") rxn.SetOutputPortUniverse(k, vh::num(hs[k]));
  }
  if (!txn.Start() || !rxn.Start()) return "pkt=none;start=0";
  const uint8_t two[2] = {1, 2};
  DmxBuffer pre(two, 2);
  for (unsigned k = 0; k < vh::num(a[6]); k++) txn.SendDMX(port, pre);
  g_sent.clear();
  bool sent = txn.SendDMX(port, tx);
  if (!sent || g_sent.size() != 1) return "pkt=none;sent=" + vh::str(g_sent.size());
  vector<uint8_t> pkt = g_sent[0];
  int before[4];
  for (int k = 0; k < 4; k++) before[k] = g_port_calls[k];
  g_rx = pkt; g_rx_valid = true; set_source();
  rxn.m_impl.SocketReady();
  vector<uint8_t> e = f;
  if (e.size() & 1) e.push_back(0);
  string r = "pkt=" + vh::hex(pkt);
  bool all = true;
  for (unsigned k = 0; k < 4; k++) {
    bool ran = g_port_calls[k] == before[k] + 1;
    bool want = k < hs.size() && hs[k] != "x" && (vh::num(hs[k]) & 15) == (vh::num(a[3]) & 15);
    r += ";p" + vh::str(k) + "=" + (ran ? "1:" : "0:") + buf_s(rx[k]);
    if (want ? !(ran && buf_s(rx[k]) == vh::hex(e)) : (g_port_calls[k] != before[k])) all = false;
  }
  return r + ";spec=" + vh::str(all ? 1 : 0);
}

// ---------------------------------------------------------------- Art-Net: long-running unicast history
static string do_anu(const vector<string> &a) {
  // anu <always_broadcast> <net> <subnet> <uni> <step seconds> <steps> <reply every k steps> <frame>
  using ola::plugin::artnet::ArtNetNode;
  using ola::plugin::artnet::ArtNetNodeOptions;
  vector<uint8_t> base = vh::unhex(a[8]);
  ola::MockClock clock;
  ola::io::SelectServer ss(NULL, &clock);
  ss.RunOnce();
  unsigned net = vh::num(a[2]), sub = vh::num(a[3]), uni = vh::num(a[4]);
  unsigned step = vh::num(a[5]), steps = vh::num(a[6]), every = vh::num(a[7]);
  ArtNetNodeOptions topts, ropts;
  topts.always_broadcast = vh::num(a[1]) != 0;
  ArtNetNode txn(iface(), &ss, topts, new CapSocket());
  ola::network::Interface rif = iface();
  IPV4Address::FromString("10.0.0.2", &rif.ip_address);
  ArtNetNode rxn(rif, &ss, ropts, new CapSocket());
  txn.SetNetAddress(net); txn.SetSubnetAddress(sub); txn.SetInputPortUniverse(0, uni);
  rxn.SetNetAddress(net); rxn.SetSubnetAddress(sub); rxn.SetOutputPortUniverse(0, uni);
  DmxBuffer rx;
  rxn.SetDMXHandler(0, &rx, ola::NewCallback(&on_data));
  if (!txn.Start() || !rxn.Start()) return "t=nostart";
  string trace;
  unsigned delivered = 0, sends = 0;
  for (unsigned k = 0; k <= steps; k++) {
    if (k) { clock.AdvanceTime(step, 0); ss.RunOnce(); }
    if (every && k % every == 0) {
      // ArtPoll from the sender, delivered to the receiver; its ArtPollReply goes back to the sender
      g_sent.clear();
      txn.SendPoll();
      vector<vector<uint8_t> > polls = g_sent;
      g_sent.clear();
      for (size_t i = 0; i < polls.size(); i++) {
        g_rx = polls[i]; g_rx_valid = true;
        IPV4Address s1; IPV4Address::FromString("10.0.0.1", &s1); g_rx_source = s1.AsInt();
        rxn.m_impl.SocketReady();
      }
      vector<vector<uint8_t> > replies = g_sent;
      for (size_t i = 0; i < replies.size(); i++) {
        g_rx = replies[i]; g_rx_valid = true; set_source();   // from 10.0.0.2
        txn.m_impl.SocketReady();
      }
      trace += "R";
    }
    if (k == 0) continue;
    vector<uint8_t> f = base;
    f[0] = static_cast<uint8_t>(f[0] + k);
    DmxBuffer tx;
    tx_fill(&tx, f, NULL);
    g_sent.clear();
    bool ok = txn.SendDMX(0, tx);
    sends++;
    vector<vector<uint8_t> > out = g_sent;
    vector<uint8_t> e = f;
    if (e.size() & 1) e.push_back(0);
    bool got = false;
    if (ok && out.size() == 1) {
      int before = g_calls;
      g_rx = out[0]; g_rx_valid = true;
      IPV4Address s1; IPV4Address::FromString("10.0.0.1", &s1); g_rx_source = s1.AsInt();
      rxn.m_impl.SocketReady();
      got = g_calls == before + 1 && buf_s(rx) == vh::hex(e);
    }
    if (got) delivered++;
    trace += got ? "1" : (out.empty() ? "-" : "0");
  }
  return "t=" + trace + ";delivered=" + vh::str(delivered) + ";spec=" + vh::str(delivered == sends ? 1 : 0);
}

// ---------------------------------------------------------------- E1.31: priority changes in a stream
static string do_e1p(const vector<string> &a) {
  // e1p <rev2> <universe> <priorities, comma separated> <base frame>
  using ola::acn::E131Node;
  bool rev2 = vh::num(a[1]) != 0;
  unsigned universe = vh::num(a[2]);
  vector<string> ps = vh::split(a[3], ',');
  vector<uint8_t> base = vh::unhex(a[4]);
  ola::io::SelectServer ss;
  E131Node::Options opts;
  opts.use_rev2 = rev2;
  opts.source_name = "prio";
  uint8_t cid_bytes[16];
  for (int k = 0; k < 16; k++) cid_bytes[k] = k + 1;
  E131Node txn(&ss, "", opts, ola::acn::CID::FromData(cid_bytes));
  for (int k = 0; k < 16; k++) cid_bytes[k] = 0x80 + k;
  E131Node rxn(&ss, "", opts, ola::acn::CID::FromData(cid_bytes));
  txn.m_interface = iface(); rxn.m_interface = iface();
  txn.m_socket.Init(); rxn.m_socket.Init();
  DmxBuffer rx;
  uint8_t prio_out = 0;
  rxn.m_dmp_inflator.SetHandler(universe, &rx, &prio_out, ola::NewCallback(&on_data));
  string trace;
  unsigned delivered = 0;
  for (size_t i = 0; i < ps.size(); i++) {
    vector<uint8_t> f = base;
    f[0] = static_cast<uint8_t>(f[0] + i);
    DmxBuffer tx;
    tx_fill(&tx, f, NULL);
    g_sent.clear();
    bool sent = txn.SendDMX(universe, tx, vh::num(ps[i]), false);
    if (!sent || g_sent.size() != 1) return "t=notsent";
    int before = g_calls;
    g_rx = g_sent[0]; g_rx_valid = true; set_source();
    rxn.m_incoming_udp_transport.Receive();
    bool ok = g_calls == before + 1 && buf_s(rx) == vh::hex(f);
    if (ok) delivered++;
    trace += (ok ? "1:" : "0:") + vh::str(static_cast<int>(prio_out)) + ",";
  }
  return "t=" + trace + ";delivered=" + vh::str(delivered) + ";spec=" + vh::str(delivered == ps.size() ? 1 : 0);
}

// ---------------------------------------------------------------- SandNet compressed DMX (receive only)
static string do_sac(const vector<string> &a) {
  // sac <group> <universe> <hg> <hu> <old> <cut (bytes of the encoding kept, -1 = all)> <frame>
  using ola::plugin::sandnet::SandNetNode;
  vector<uint8_t> f = vh::unhex(a[7]);
  DmxBuffer src, rx;
  tx_fill(&src, f, NULL);
  buf_init(&rx, a[5]);
  ola::dmx::RunLengthEncoder enc;
  vector<uint8_t> out(1026);
  unsigned size = out.size();
  bool complete = enc.Encode(src, out.data(), &size);
  long cut = vh::snum(a[6]);
  if (cut >= 0 && static_cast<unsigned>(cut) < size) size = cut;
  vector<uint8_t> pkt;
  pkt.push_back(0x0a); pkt.push_back(0x00);
  pkt.push_back(vh::num(a[1])); pkt.push_back(vh::num(a[2])); pkt.push_back(1);
  for (int k = 0; k < 4; k++) pkt.push_back(0);
  pkt.push_back(2); pkt.push_back(size >> 8); pkt.push_back(size & 255);
  pkt.insert(pkt.end(), out.begin(), out.begin() + size);
  SandNetNode node("");
  node.m_interface = iface();
  node.m_data_socket.Init();
  node.m_control_socket.Init();
  node.m_running = true;
  node.SetHandler(vh::num(a[3]), vh::num(a[4]), &rx, ola::NewCallback(&on_data));
  int before = g_calls;
  g_rx = pkt; g_rx_valid = true; set_source();
  node.SocketReady(&node.m_data_socket);
  bool handled = g_calls == before + 1;
  string exp = overlay(a[5], 0, f);
  return "complete=" + vh::str(complete ? 1 : 0) + ";pkt=" + vh::hex(pkt) + ";handled=" + vh::str(handled ? 1 : 0) +
         ";buf=" + buf_s(rx) + ";spec=" + vh::str((handled && buf_s(rx) == exp) ? 1 : 0);
}

// ---------------------------------------------------------------- long-lived sender histories
// One sender node and one receiver node per case, both kept for the whole script.  Four universe
// slots; the receiver has a handler (own buffer, own callback) on each.  Script tokens:
//   s<slot><k>  send frame pool[k] to the universe of <slot>
//   n<slot><k>  rename: E1.31 SetSourceName(universe of slot, "nm<k>"); other protocols: the node-wide name setter
//   x<slot>     another public setter that must not disturb the stream (StartStream, SetUniverse, SetLongName ...)
static uint32_t fnv(uint32_t h, const vector<uint8_t> &v) {
  for (size_t i = 0; i < v.size(); i++) { h ^= v[i]; h = (h * 16777619u) & 0xffffffffu; }
  return h;
}
static const unsigned H_SN[4] = {0, 1, 6, 7};
static const unsigned H_B8[4] = {0, 1, 254, 255};
static const unsigned H_PP[4] = {0, 1, 126, 127};
static const unsigned H_E1[4] = {1, 2, 63999, 65534};
static const unsigned H_AN[4] = {0, 1, 14, 15};

static string do_hist(const vector<string> &a) {
  // hist <proto> <frame/frame/...> <token,token,...>
  const string &proto = a[1];
  vector<string> pool_s = vh::split(a[2], '/');
  vector<vector<uint8_t> > pool;
  for (size_t i = 0; i < pool_s.size(); i++) pool.push_back(vh::unhex(pool_s[i]));
  vector<string> script = vh::split(a[3], ',');
  DmxBuffer rx[4];
  ola::Callback0<void> *cbs[4] = {ola::NewCallback(&on_port0), ola::NewCallback(&on_port1),
                                  ola::NewCallback(&on_port2), ola::NewCallback(&on_port3)};
  ola::io::SelectServer ss;
  using ola::plugin::shownet::ShowNetNode;
  using ola::plugin::sandnet::SandNetNode;
  using ola::plugin::espnet::EspNetNode;
  using ola::plugin::pathport::PathportNode;
  using ola::plugin::artnet::ArtNetNode;
  using ola::plugin::artnet::ArtNetNodeOptions;
  using ola::acn::E131Node;
  std::auto_ptr<ShowNetNode> sn_t, sn_r;
  std::auto_ptr<SandNetNode> sa_t, sa_r;
  std::auto_ptr<EspNetNode> es_t, es_r;
  std::auto_ptr<PathportNode> pp_t, pp_r;
  std::auto_ptr<ArtNetNode> an_t, an_r;
  std::auto_ptr<E131Node> e1_t, e1_r;
  uint8_t prio_out = 0;
  IPV4Address mc;
  if (proto == "sn") {
    sn_t.reset(new ShowNetNode("")); sn_r.reset(new ShowNetNode(""));
    ShowNetNode *ns[2] = {sn_t.get(), sn_r.get()};
    for (int k = 0; k < 2; k++) {
      ns[k]->m_interface = iface(); ns[k]->m_socket = new ola::network::UDPSocket();
      ns[k]->m_socket->Init(); ns[k]->m_running = true;
    }
    for (int k = 0; k < 4; k++) sn_r->SetHandler(H_SN[k], &rx[k], cbs[k]);
  } else if (proto == "sa") {
    sa_t.reset(new SandNetNode("")); sa_r.reset(new SandNetNode(""));
    SandNetNode *ns[2] = {sa_t.get(), sa_r.get()};
    IPV4Address::FromString("237.1.2.1", &mc);
    for (int k = 0; k < 2; k++) {
      ns[k]->m_interface = iface(); ns[k]->m_data_socket.Init(); ns[k]->m_control_socket.Init();
      ns[k]->m_data_addr = IPV4SocketAddress(mc, 37900); ns[k]->m_control_addr = IPV4SocketAddress(mc, 37895);
      ns[k]->m_running = true;
    }
    for (int k = 0; k < 4; k++) sa_r->SetHandler(1, H_B8[k], &rx[k], cbs[k]);
  } else if (proto == "es") {
    es_t.reset(new EspNetNode("")); es_r.reset(new EspNetNode(""));
    EspNetNode *ns[2] = {es_t.get(), es_r.get()};
    for (int k = 0; k < 2; k++) { ns[k]->m_interface = iface(); ns[k]->m_socket.Init(); ns[k]->m_running = true; }
    for (int k = 0; k < 4; k++) es_r->SetHandler(H_B8[k], &rx[k], cbs[k]);
  } else if (proto == "pp") {
    pp_t.reset(new PathportNode("", 77, 0)); pp_r.reset(new PathportNode("", 78, 0));
    PathportNode *ns[2] = {pp_t.get(), pp_r.get()};
    IPV4Address::FromString("239.255.237.1", &mc);
    for (int k = 0; k < 2; k++) {
      ns[k]->m_interface = iface(); ns[k]->m_socket.Init(); ns[k]->m_data_addr = mc; ns[k]->m_running = true;
    }
    for (int k = 0; k < 4; k++) pp_r->SetHandler(H_PP[k], &rx[k], cbs[k]);
  } else if (proto == "an") {
    ArtNetNodeOptions topts, ropts;
    topts.always_broadcast = true;
    an_t.reset(new ArtNetNode(iface(), &ss, topts, new CapSocket()));
    an_r.reset(new ArtNetNode(iface(), &ss, ropts, new CapSocket()));
    an_t->SetNetAddress(5); an_t->SetSubnetAddress(3); an_t->SetInputPortUniverse(0, H_AN[0]);
    an_r->SetNetAddress(5); an_r->SetSubnetAddress(3);
    for (int k = 0; k < 4; k++) { an_r->SetDMXHandler(k, &rx[k], cbs[k]); an_r->SetOutputPortUniverse(k, H_AN[k]); }
    if (!an_t->Start() || !an_r->Start()) return "t=nostart";
  } else if (proto == "e1" || proto == "e2") {
    E131Node::Options opts;
    opts.use_rev2 = proto == "e2";
    opts.source_name = "hist";
    uint8_t cid_bytes[16];
    for (int k = 0; k < 16; k++) cid_bytes[k] = k + 1;
    e1_t.reset(new E131Node(&ss, "", opts, ola::acn::CID::FromData(cid_bytes)));
    for (int k = 0; k < 16; k++) cid_bytes[k] = 0x80 + k;
    e1_r.reset(new E131Node(&ss, "", opts, ola::acn::CID::FromData(cid_bytes)));
    e1_t->m_interface = iface(); e1_r->m_interface = iface();
    e1_t->m_socket.Init(); e1_r->m_socket.Init();
    for (int k = 0; k < 4; k++) e1_r->m_dmp_inflator.SetHandler(H_E1[k], &rx[k], &prio_out, cbs[k]);
  } else {
    return "t=bad-proto";
  }
  string trace;
  uint32_t h = 2166136261u;
  unsigned sends = 0, delivered = 0;
  for (size_t i = 0; i < script.size(); i++) {
    const string &tk = script[i];
    if (tk.size() < 2) continue;
    unsigned slot = tk[1] - '0';
    unsigned k = tk.size() > 2 ? vh::num(tk.substr(2)) : 0;
    if (slot > 3) continue;
    if (tk[0] == 'n') {
      string nm = "nm" + vh::str(k);
      if (sn_t.get()) sn_t->SetName(nm);
      if (sa_t.get()) sa_t->SetName(nm);
      if (es_t.get()) es_t->SetName(nm);
      if (an_t.get()) an_t->SetShortName(nm);
      if (e1_t.get()) e1_t->SetSourceName(H_E1[slot], nm);
      continue;
    }
    if (tk[0] == 'x') {
      if (es_t.get()) { es_t->SetUniverse(H_B8[slot]); es_t->SetType(ola::plugin::espnet::ESPNET_NODE_TYPE_IO); }
      if (an_t.get()) {
        an_t->SetLongName("long name " + vh::str(slot));
        an_t->SendTimeCode(ola::timecode::TimeCode(ola::timecode::TIMECODE_FILM, 1, 2, 3, slot));
      }
      if (e1_t.get()) e1_t->StartStream(H_E1[slot]);
      if (sa_t.get()) sa_t->SetPortParameters(1, SandNetNode::SANDNET_PORT_MODE_IN, 2, H_B8[slot]);
      continue;
    }
    if (tk[0] != 's' || k >= pool.size()) continue;
    const vector<uint8_t> &f = pool[k];
    DmxBuffer tx;
    tx_fill(&tx, f, NULL);
    g_sent.clear();
    bool sent = false;
    if (sn_t.get()) sent = sn_t->SendDMX(H_SN[slot], tx);
    if (sa_t.get()) {
      sa_t->SetPortParameters(0, SandNetNode::SANDNET_PORT_MODE_IN, 1, H_B8[slot]);
      sent = sa_t->SendDMX(0, tx);
    }
    if (es_t.get()) sent = es_t->SendDMX(H_B8[slot], tx);
    if (pp_t.get()) sent = pp_t->SendDMX(H_PP[slot], tx);
    if (an_t.get()) { an_t->SetInputPortUniverse(0, H_AN[slot]); g_sent.clear(); sent = an_t->SendDMX(0, tx); }
    if (e1_t.get()) sent = e1_t->SendDMX(H_E1[slot], tx, 100, false);
    sends++;
    if (!sent || g_sent.size() != 1) { trace += "-"; continue; }
    vector<uint8_t> pkt = g_sent[0];
    if (pp_t.get()) for (size_t z = 32 + f.size(); z < pkt.size(); z++) pkt[z] = 0;   // uninitialised padding
    h = fnv(h, pkt);
    int before[4];
    for (int z = 0; z < 4; z++) before[z] = g_port_calls[z];
    g_rx = g_sent[0]; g_rx_valid = true; set_source();
    if (sn_r.get()) sn_r->SocketReady();
    if (sa_r.get()) sa_r->SocketReady(&sa_r->m_data_socket);
    if (es_r.get()) es_r->SocketReady();
    if (pp_r.get()) pp_r->SocketReady(&pp_r->m_socket);
    if (an_r.get()) an_r->m_impl.SocketReady();
    if (e1_r.get()) e1_r->m_incoming_udp_transport.Receive();
    bool ok = true;
    for (unsigned z = 0; z < 4; z++) {
      int d = g_port_calls[z] - before[z];
      if (z == slot ? d != 1 : d != 0) ok = false;
    }
    // the slots of the frame read back with their values (partial-universe protocols keep the rest)
    string got = buf_s(rx[slot]);
    vector<uint8_t> e = f;
    if (an_t.get() && (e.size() & 1)) e.push_back(0);
    string want = vh::hex(e);
    bool partial = sn_t.get() || pp_t.get();
    if (partial ? got.compare(0, want.size(), want) != 0 : got != want) ok = false;
    h = fnv(h, vector<uint8_t>(got.begin(), got.end()));
    if (ok) delivered++;
    trace += ok ? "1" : "0";
  }
  char hb[16];
  snprintf(hb, sizeof(hb), "%08x", h);
  return "t=" + trace + ";h=" + hb + ";delivered=" + vh::str(delivered) + ";spec=" + vh::str(delivered == sends ? 1 : 0);
}

// ---------------------------------------------------------------- Art-Net: several senders, merge timeout
static string do_anm(const vector<string> &a) {
  // anm <ltp> <frame/frame/...> <tokens>   a<k> b<k> c<k>: sender A/B/C sends pool[k];  w<sec>: time passes
  using ola::plugin::artnet::ArtNetNode;
  using ola::plugin::artnet::ArtNetNodeOptions;
  vector<string> pool_s = vh::split(a[2], '/');
  vector<vector<uint8_t> > pool;
  for (size_t i = 0; i < pool_s.size(); i++) pool.push_back(vh::unhex(pool_s[i]));
  vector<string> script = vh::split(a[3], ',');
  ola::MockClock clock;
  ola::io::SelectServer ss(NULL, &clock);
  ss.RunOnce();
  ArtNetNodeOptions topts, ropts;
  topts.always_broadcast = true;
  std::auto_ptr<ArtNetNode> tx[3];
  for (int k = 0; k < 3; k++) {
    tx[k].reset(new ArtNetNode(iface(), &ss, topts, new CapSocket()));
    tx[k]->SetNetAddress(1); tx[k]->SetSubnetAddress(2); tx[k]->SetInputPortUniverse(0, 3);
    if (!tx[k]->Start()) return "t=nostart";
  }
  ola::network::Interface rif = iface();
  IPV4Address::FromString("10.0.0.9", &rif.ip_address);
  ArtNetNode rxn(rif, &ss, ropts, new CapSocket());
  rxn.SetNetAddress(1); rxn.SetSubnetAddress(2); rxn.SetOutputPortUniverse(0, 3);
  DmxBuffer rx;
  rxn.SetDMXHandler(0, &rx, ola::NewCallback(&on_data));
  if (vh::num(a[1])) rxn.SetMergeMode(0, ola::plugin::artnet::ARTNET_MERGE_LTP);
  if (!rxn.Start()) return "t=nostart";
  const char *ips[3] = {"10.0.0.2", "10.0.0.3", "10.0.0.4"};
  long last[3] = {-1, -1, -1};
  long now = 0;
  string trace;
  uint32_t h = 2166136261u;
  unsigned sole = 0, sole_ok = 0;
  for (size_t i = 0; i < script.size(); i++) {
    const string &tk = script[i];
    if (tk.size() < 2) continue;
    unsigned k = vh::num(tk.substr(1));
    if (tk[0] == 'w') { clock.AdvanceTime(k, 0); ss.RunOnce(); now += k; continue; }
    int who = tk[0] - 'a';
    if (who < 0 || who > 2 || k >= pool.size()) continue;
    const vector<uint8_t> &f = pool[k];
    DmxBuffer txb;
    tx_fill(&txb, f, NULL);
    g_sent.clear();
    if (!tx[who]->SendDMX(0, txb) || g_sent.size() != 1) { trace += "-"; continue; }
    int before = g_calls;
    g_rx = g_sent[0]; g_rx_valid = true;
    IPV4Address src; IPV4Address::FromString(ips[who], &src); g_rx_source = src.AsInt();
    rxn.m_impl.SocketReady();
    // is this sender the only one heard within the merge timeout?
    bool alone = true;
    for (int z = 0; z < 3; z++) if (z != who && last[z] >= 0 && !(last[z] + 10 < now)) alone = false;
    last[who] = now;
    vector<uint8_t> e = f;
    if (e.size() & 1) e.push_back(0);
    bool exact = g_calls == before + 1 && buf_s(rx) == vh::hex(e);
    if (alone) { sole++; if (exact) sole_ok++; }
    string got = (g_calls == before + 1 ? "1:" : "0:") + buf_s(rx);
    h = fnv(h, vector<uint8_t>(got.begin(), got.end()));
    trace += exact ? (alone ? "1" : "e") : (alone ? "0" : "m");
  }
  char hb[16];
  snprintf(hb, sizeof(hb), "%08x", h);
  return "t=" + trace + ";h=" + hb + ";sole=" + vh::str(sole_ok) + ";spec=" + vh::str(sole_ok == sole ? 1 : 0);
}

// ---------------------------------------------------------------- E1.31: several sender CIDs over time
static string do_e1c(const vector<string> &a) {
  // e1c <rev2> <frame/frame/...> <tokens>  a<k>|b<k>|c<k> send pool[k]; pa<prio> set priority; ta terminate; w<ms>
  using ola::acn::E131Node;
  bool rev2 = vh::num(a[1]) != 0;
  vector<string> pool_s = vh::split(a[2], '/');
  vector<vector<uint8_t> > pool;
  for (size_t i = 0; i < pool_s.size(); i++) pool.push_back(vh::unhex(pool_s[i]));
  vector<string> script = vh::split(a[3], ',');
  ola::io::SelectServer ss;
  E131Node::Options opts;
  opts.use_rev2 = rev2;
  opts.source_name = "cid";
  std::auto_ptr<E131Node> tx[3];
  for (int k = 0; k < 3; k++) {
    uint8_t cid_bytes[16];
    for (int z = 0; z < 16; z++) cid_bytes[z] = 16 * (k + 1) + z;
    tx[k].reset(new E131Node(&ss, "", opts, ola::acn::CID::FromData(cid_bytes)));
    tx[k]->m_interface = iface(); tx[k]->m_socket.Init();
  }
  uint8_t rc[16];
  for (int z = 0; z < 16; z++) rc[z] = 0x80 + z;
  E131Node rxn(&ss, "", opts, ola::acn::CID::FromData(rc));
  rxn.m_interface = iface(); rxn.m_socket.Init();
  const unsigned universe = 7;
  DmxBuffer rx;
  uint8_t prio_out = 0;
  rxn.m_dmp_inflator.SetHandler(universe, &rx, &prio_out, ola::NewCallback(&on_data));
  long now = 0;
  long last[3] = {-1, -1, -1};
  bool term[3] = {false, false, false};
  unsigned prio[3] = {100, 100, 100};
  vector<uint8_t> lastf[3];
  string trace;
  uint32_t h = 2166136261u;
  unsigned sole = 0, sole_ok = 0;
  for (size_t i = 0; i < script.size(); i++) {
    const string &tk = script[i];
    if (tk.size() < 2) continue;
    if (tk[0] == 'w') { unsigned ms = vh::num(tk.substr(1)); g_clock_offset_ns += 1000000LL * ms; now += ms; continue; }
    if (tk[0] == 'p') { int w = tk[1] - 'a'; if (w >= 0 && w < 3) prio[w] = vh::num(tk.substr(2)); continue; }
    if (tk[0] == 't') {
      int w = tk[1] - 'a';
      if (w < 0 || w > 2 || rev2) continue;
      g_sent.clear();
      tx[w]->TerminateStream(universe, prio[w]);
      vector<vector<uint8_t> > pk = g_sent;
      for (size_t z = 0; z < pk.size(); z++) {
        g_rx = pk[z]; g_rx_valid = true; set_source();
        rxn.m_incoming_udp_transport.Receive();
      }
      term[w] = true;
      string got = "T:" + buf_s(rx);
      h = fnv(h, vector<uint8_t>(got.begin(), got.end()));
      trace += "T";
      continue;
    }
    int who = tk[0] - 'a';
    unsigned k = vh::num(tk.substr(1));
    if (who < 0 || who > 2 || k >= pool.size()) continue;
    const vector<uint8_t> &f = pool[k];
    DmxBuffer txb;
    tx_fill(&txb, f, NULL);
    g_sent.clear();
    if (!tx[who]->SendDMX(universe, txb, prio[who], false) || g_sent.size() != 1) { trace += "-"; continue; }
    int before = g_calls;
    g_rx = g_sent[0]; g_rx_valid = true; set_source();
    rxn.m_incoming_udp_transport.Receive();
    // is every other sender out of the picture (silent beyond the expiry, terminated, or idling at
    // blackout with the same priority and no more slots)?
    bool alone = true;
    for (int z = 0; z < 3; z++) {
      if (z == who || last[z] < 0 || term[z]) continue;
      if (last[z] + 2500 < now) continue;
      bool zero = lastf[z].size() <= f.size() && prio[z] == prio[who];
      for (size_t q = 0; q < lastf[z].size(); q++) if (lastf[z][q]) zero = false;
      if (!zero) alone = false;
    }
    last[who] = now; term[who] = false; lastf[who] = f;
    bool exact = g_calls == before + 1 && buf_s(rx) == vh::hex(f);
    if (alone) { sole++; if (exact) sole_ok++; }
    string got = (g_calls == before + 1 ? "1:" : "0:") + buf_s(rx);
    h = fnv(h, vector<uint8_t>(got.begin(), got.end()));
    trace += exact ? (alone ? "1" : "e") : (alone ? "0" : "m");
  }
  char hb[16];
  snprintf(hb, sizeof(hb), "%08x", h);
  return "t=" + trace + ";h=" + hb + ";sole=" + vh::str(sole_ok) + ";spec=" + vh::str(sole_ok == sole ? 1 : 0);
}

// ---------------------------------------------------------------- ESP Net run-length coded data
// reference encoder of the format (the same algorithm as ModelEsp.esp_encode; the `enc` key ties them)
static void esp_lit(vector<uint8_t> *out, uint8_t v) {
  if (v == 0xFD || v == 0xFE) out->push_back(0xFD);
  out->push_back(v);
}
static vector<uint8_t> esp_ref_encode(const vector<uint8_t> &f) {
  vector<uint8_t> out;
  size_t i = 0;
  while (i < f.size()) {
    size_t j = i;
    while (j < f.size() && f[j] == f[i]) j++;
    size_t n = j - i;
    if (n < 3) {
      for (size_t k = 0; k < n; k++) esp_lit(&out, f[i]);
    } else {
      while (n > 255) { out.push_back(0xFE); out.push_back(255); out.push_back(f[i]); n -= 255; }
      out.push_back(0xFE); out.push_back(n); out.push_back(f[i]);
    }
    i = j;
  }
  return out;
}

static string do_esr(const vector<string> &a) {
  // esr <universe> <hu> <old> <frame>: the frame, encoded, as a DATA_RLE datagram to a real EspNetNode
  using ola::plugin::espnet::EspNetNode;
  vector<uint8_t> f = vh::unhex(a[4]);
  vector<uint8_t> enc = esp_ref_encode(f);
  DmxBuffer rx;
  buf_init(&rx, a[3]);
  vector<uint8_t> pkt;
  pkt.push_back('E'); pkt.push_back('S'); pkt.push_back('D'); pkt.push_back('D');
  pkt.push_back(vh::num(a[1])); pkt.push_back(0); pkt.push_back(4);
  pkt.push_back(enc.size() >> 8); pkt.push_back(enc.size() & 255);
  pkt.insert(pkt.end(), enc.begin(), enc.end());
  EspNetNode node("");
  node.m_interface = iface();
  node.m_socket.Init();
  node.m_running = true;
  node.SetHandler(vh::num(a[2]), &rx, ola::NewCallback(&on_data));
  int before = g_calls;
  g_rx = pkt; g_rx_valid = true; set_source();
  node.SocketReady();
  bool handled = g_calls == before + 1;
  // Decode() resets the buffer first: an allocated buffer ends up as the frame, a new one as frame + blackout
  string exp = a[3] == "none" ? (f.empty() ? string("none") : overlay("none", 0, f)) : vh::hex(f);
  return "enc=" + vh::hex(enc) + ";handled=" + vh::str(handled ? 1 : 0) + ";buf=" + buf_s(rx) +
         ";spec=" + vh::str((handled && buf_s(rx) == exp) ? 1 : 0);
}

static string do_esd(const vector<string> &a) {
  // esd <old> <bytes>: arbitrary bytes through the real RunLengthDecoder (exact-size copy)
  DmxBuffer dst;
  buf_init(&dst, a[1]);
  vh::Exact w(vh::unhex(a[2]));
  ola::plugin::espnet::RunLengthDecoder dec;
  dec.Decode(&dst, w.p, w.n);
  return "dbuf=" + buf_s(dst);
}

// ---------------------------------------------------------------- E1.31: every send entry point on one stream
static string do_e1x(const vector<string> &a) {
  // e1x <rev2> <frame/frame/...> <tokens>
  //   s<k> SendDMX   o<k>_<off> SendDMXWithSequenceOffset   p<k>_<prio> SendDMX with a priority
  //   v<k> SendDMX preview   z SendStreamTerminated   n SetSourceName   x StartStream
  using ola::acn::E131Node;
  bool rev2 = vh::num(a[1]) != 0;
  vector<string> pool_s = vh::split(a[2], '/');
  vector<vector<uint8_t> > pool;
  for (size_t i = 0; i < pool_s.size(); i++) pool.push_back(vh::unhex(pool_s[i]));
  vector<string> script = vh::split(a[3], ',');
  ola::io::SelectServer ss;
  E131Node::Options opts;
  opts.use_rev2 = rev2;
  opts.source_name = "entry";
  uint8_t cb[16];
  for (int z = 0; z < 16; z++) cb[z] = z + 1;
  E131Node txn(&ss, "", opts, ola::acn::CID::FromData(cb));
  for (int z = 0; z < 16; z++) cb[z] = 0x80 + z;
  E131Node rxn(&ss, "", opts, ola::acn::CID::FromData(cb));
  txn.m_interface = iface(); rxn.m_interface = iface();
  txn.m_socket.Init(); rxn.m_socket.Init();
  const unsigned universe = 9;
  DmxBuffer rx;
  uint8_t prio_out = 0;
  rxn.m_dmp_inflator.SetHandler(universe, &rx, &prio_out, ola::NewCallback(&on_data));
  // reference bookkeeping of the E1.31 rules: the stream's sequence advances on regular sends only;
  // the receiver accepts a packet unless its sequence is 0..19 behind the last accepted one
  bool tracked = false; int s = 0; int r = -1;
  string trace;
  uint32_t h = 2166136261u;
  bool all = true;
  for (size_t i = 0; i < script.size(); i++) {
    const string &tk = script[i];
    if (tk.empty()) continue;
    char c = tk[0];
    if (c == 'n') { txn.SetSourceName(universe, "renamed"); if (!tracked) { tracked = true; s = 0; } continue; }
    if (c == 'x') { txn.StartStream(universe); if (!tracked) { tracked = true; s = 0; } continue; }
    unsigned k = 0; long arg = 0;
    size_t us = tk.find('_');
    if (tk.size() > 1) k = vh::num(tk.substr(1, us == string::npos ? string::npos : us - 1));
    if (us != string::npos) arg = vh::snum(tk.substr(us + 1));
    g_sent.clear();
    bool is_data = true, preview = false;
    int q = 0;
    vector<uint8_t> f;
    if (c == 'z') {
      if (rev2) continue;
      is_data = false;
      q = tracked ? s : 0;
      txn.SendStreamTerminated(universe, DmxBuffer(), 100);
      if (tracked) s = (s + 1) & 255;
    } else {
      if (k >= pool.size()) continue;
      f = pool[k];
      DmxBuffer tx;
      tx_fill(&tx, f, NULL);
      if (!tracked) { tracked = true; s = 0; }
      if (c == 's') { q = s; txn.SendDMX(universe, tx, 100, false); s = (s + 1) & 255; }
      else if (c == 'p') { q = s; txn.SendDMX(universe, tx, arg, false); s = (s + 1) & 255; }
      else if (c == 'v') { q = s; preview = true; txn.SendDMX(universe, tx, 100, true); s = (s + 1) & 255; }
      else if (c == 'o') {
        q = (s + arg) & 255;
        txn.SendDMXWithSequenceOffset(universe, tx, arg, 100, false);
        if (arg == 0) s = (s + 1) & 255;
      } else continue;
    }
    if (g_sent.size() != 1) { trace += "-"; all = false; continue; }
    int before = g_calls;
    g_rx = g_sent[0]; g_rx_valid = true; set_source();
    rxn.m_incoming_udp_transport.Receive();
    bool ran = g_calls == before + 1;
    // what the rules demand
    bool expect = false;
    int d = static_cast<int8_t>(q - r);
    bool old = r >= 0 && d <= 0 && d > -20;
    if (is_data) {
      if (!(preview && !rev2) && !old) { expect = true; r = q; }
    } else if (r >= 0 && !old) {
      r = -1;
    }
    bool ok = expect ? (ran && buf_s(rx) == vh::hex(f)) : !ran;
    if (!ok) all = false;
    string got = (ran ? "1:" : "0:") + buf_s(rx);
    h = fnv(h, vector<uint8_t>(got.begin(), got.end()));
    h = fnv(h, g_sent[0]);
    trace += ok ? (expect ? "1" : ".") : "0";
  }
  char hb[16];
  snprintf(hb, sizeof(hb), "%08x", h);
  return "t=" + trace + ";h=" + hb + ";spec=" + vh::str(all ? 1 : 0);
}

static string handle(const string &p) {
  vector<string> a = vh::split(p);
  const string &op = a[0];
  g_clock_offset_ns = 0;
  if (op == "enc" && a.size() == 3) return do_enc(a);
  if (op == "encd" && a.size() == 4) return do_enc(a);
  if (op == "snd" && a.size() == 8) return do_sn(a);
  if (op == "an2" && a.size() == 11) return do_an2(a);
  if (op == "e1s" && a.size() == 7) return do_e1s(a);
  if (op == "e1m" && a.size() == 8) return do_e1m(a);
  if (op == "an3" && a.size() == 8) return do_an3(a);
  if (op == "anu" && a.size() == 9) return do_anu(a);
  if (op == "e1p" && a.size() == 5) return do_e1p(a);
  if (op == "sac" && a.size() == 8) return do_sac(a);
  if (op == "hist" && a.size() == 4) return do_hist(a);
  if (op == "anm" && a.size() == 4) return do_anm(a);
  if (op == "e1c" && a.size() == 4) return do_e1c(a);
  if (op == "esr" && a.size() == 5) return do_esr(a);
  if (op == "e1x" && a.size() == 4) return do_e1x(a);
  if (op == "esd" && a.size() == 3) return do_esd(a);
  if (op == "dec" && a.size() == 4) return do_dec(a);
  if (op == "sn" && a.size() == 7) return do_sn(a);
  if (op == "sa" && a.size() == 8) return do_sa(a);
  if (op == "es" && a.size() == 5) return do_es(a);
  if (op == "pp" && a.size() == 7) return do_pp(a);
  if (op == "an" && a.size() == 9) return do_an(a);
  if (op == "e1" && a.size() == 10) return do_e1(a);
  return "bad-op";
}

int main(int argc, char **argv) {
  ola::InitLogging(ola::OLA_LOG_NONE, ola::OLA_LOG_STDERR);
  return vh::run(argc, argv, handle);
}
