From Coq Require Extraction.
From Coq Require Import ExtrOcamlBasic.
From OlaBase Require Import Bytes.
From C01 Require Import Gen Time Model.
Extraction Language OCaml.
Extraction "model.ml" io_witness N.div_eucl init_world step apply_update live scan changed_source
  port_sources client_sources new_port tv_isset tv_active step2.
