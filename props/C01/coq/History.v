(* C01 — history-level statements: the frame held after ANY sequence of calls is the specification's
   frame for the abstract history of that sequence; every change is delivered exactly once to every
   output port and sink client. *)
From OlaBase Require Import Bytes.
From Coq Require Import Sorting.Sorted.
From C01 Require Import Gen Model Spec Proofs Reach.
Local Open Scope N_scope.

(* the abstraction: what a call means in a given world *)
Definition happening_of (w : world) (o : op) : happening :=
  match apply_update w o with
  | Some (chg, now, w1) =>
    HUpdate (u_ltp (w_u w)) chg now (sources w1) (u_outs (w_u w)) (u_sinks (w_u w))
  | None =>
    match o with
    | SetDMX d => match dmx_set d with
                  | [] => HOther
                  | _ => HOverride (dmx_set d) (u_prio (w_u w)) (u_outs (w_u w)) (u_sinks (w_u w))
                  end
    | _ => HOther
    end
  end.
Fixpoint happenings (w : world) (ops : list op) : list happening :=
  match ops with [] => [] | o :: r => happening_of w o :: happenings (fst (step w o)) r end.
Fixpoint trace (w : world) (ops : list op) : list (list event) :=
  match ops with [] => [] | o :: r => snd (step w o) :: trace (fst (step w o)) r end.

Lemma op_is_setdmx o : (exists d, o = SetDMX d) \/ (forall d, o <> SetDMX d).
Proof. destruct o; try (right; intros; discriminate); left; eauto. Qed.

Lemma step_happening w o :
  u_buf (w_u (fst (step w o))) = frame_after (u_buf (w_u w)) (happening_of w o) /\
  snd (step w o) = calls_of (happening_of w o).
Proof.
  unfold happening_of, frame_after, calls_of.
  destruct (apply_update w o) as [[[chg now] w1]|] eqn:A.
  - destruct (step_spec _ _ _ _ _ A) as (Hb & He & _). cbn [change_of].
    destruct (expected (u_ltp (w_u w)) chg (group now (sources w1))); cbn [result] in Hb; auto.
  - destruct (op_is_setdmx o) as [[d ->]|Hn].
    + destruct (setdmx_lemma w d) as [H0 H1].
      destruct (dmx_set d) as [|x r] eqn:D.
      * rewrite (H0 eq_refl). cbn. auto.
      * destruct H1 as [Hb He]; [discriminate|]. cbn [change_of]. auto.
    + destruct (admin_lemma w o A Hn) as [He Hb].
      assert (match o with
              | SetDMX d => match dmx_set d with
                            | [] => HOther
                            | _ :: _ => HOverride (dmx_set d) (u_prio (w_u w)) (u_outs (w_u w)) (u_sinks (w_u w))
                            end
              | _ => HOther end = HOther) as ->.
      { destruct o; try reflexivity. exfalso. eapply Hn. reflexivity. }
      cbn [change_of]. auto.
Qed.

Lemma run_happenings ops : forall w,
  u_buf (w_u (fold_left (fun w o => fst (step w o)) ops w)) =
    fold_left frame_after (happenings w ops) (u_buf (w_u w)) /\
  trace w ops = map calls_of (happenings w ops).
Proof.
  induction ops as [|o ops IH]; intros w; cbn [fold_left happenings trace map]; [auto|].
  destruct (step_happening w o) as [Hb He]. destruct (IH (fst (step w o))) as [IHb IHe].
  rewrite IHb, Hb, He, IHe. auto.
Qed.

Lemma history_lemma ops :
  u_buf (w_u (run ops)) = spec_frame (happenings init_world ops) /\
  trace init_world ops = map calls_of (happenings init_world ops).
Proof. unfold run, spec_frame. apply (run_happenings ops init_world). Qed.

(* the frame after a history is the frame of its last change (pure specification-level fact) *)
Lemma spec_frame_app hs h : spec_frame (hs ++ [h]) = frame_after (spec_frame hs) h.
Proof. unfold spec_frame. rewrite fold_left_app. reflexivity. Qed.
Lemma last_change_lemma hs :
  ((forall h, In h hs -> change_of h = None) /\ spec_frame hs = []) \/
  (exists pre h post f p outs sinks,
     hs = pre ++ h :: post /\ change_of h = Some (f, p, outs, sinks) /\
     (forall h', In h' post -> change_of h' = None) /\ spec_frame hs = f).
Proof.
  induction hs as [|h hs IH] using rev_ind.
  - left. split; [intros h []|reflexivity].
  - rewrite spec_frame_app. unfold frame_after.
    destruct (change_of h) as [[[[f p] outs] sinks]|] eqn:C.
    + right. exists hs, h, [], f, p, outs, sinks. repeat split; auto. intros h' [].
    + destruct IH as [[Hn Hs]|(pre & h0 & post & f & p & outs & sinks & E & C0 & Hp & Hs)].
      * left. split; [|exact Hs]. intros h' Hin. apply in_app_or in Hin as [Hin|[<-|[]]]; auto.
      * right. exists pre, h0, (post ++ [h]), f, p, outs, sinks. repeat split; auto.
        -- rewrite E, <- app_assoc. reflexivity.
        -- intros h' Hin. apply in_app_or in Hin as [Hin|[<-|[]]]; auto.
Qed.

(* ---- delivery exactly once ---- *)
Lemma filter_map_none {A} (f : A -> event) (t : event -> bool) l :
  (forall x, In x l -> t (f x) = false) -> filter t (map f l) = [].
Proof.
  induction l as [|x l IH]; intros H; cbn [map filter]; [reflexivity|].
  rewrite (H x (or_introl eq_refl)). apply IH. intros y Hy. apply H. now right.
Qed.
Lemma filter_write_once outs f p q :
  NoDup outs -> In q outs ->
  filter (to_port q) (map (fun x => WriteDMX x f p) outs) = [WriteDMX q f p].
Proof.
  induction 1 as [|x l Hx Hl IH]; intros Hin; [destruct Hin|]. cbn [map filter to_port].
  destruct (x =? q) eqn:E.
  - apply N.eqb_eq in E. subst x. f_equal. apply filter_map_none.
    intros y Hy. cbn [to_port]. apply N.eqb_neq. intros ->. contradiction.
  - apply IH. destruct Hin as [->|Hin]; [rewrite N.eqb_refl in E; discriminate|exact Hin].
Qed.
Lemma filter_send_once sinks f p q :
  NoDup sinks -> In q sinks ->
  filter (to_client q) (map (fun x => SendDMX x f p) sinks) = [SendDMX q f p].
Proof.
  induction 1 as [|x l Hx Hl IH]; intros Hin; [destruct Hin|]. cbn [map filter to_client].
  destruct (x =? q) eqn:E.
  - apply N.eqb_eq in E. subst x. f_equal. apply filter_map_none.
    intros y Hy. cbn [to_client]. apply N.eqb_neq. intros ->. contradiction.
  - apply IH. destruct Hin as [->|Hin]; [rewrite N.eqb_refl in E; discriminate|exact Hin].
Qed.
Lemma hand_out_once outs sinks f p :
  NoDup outs -> NoDup sinks ->
  (forall q, In q outs -> filter (to_port q) (hand_out outs sinks f p) = [WriteDMX q f p]) /\
  (forall q, ~ In q outs -> filter (to_port q) (hand_out outs sinks f p) = []) /\
  (forall c, In c sinks -> filter (to_client c) (hand_out outs sinks f p) = [SendDMX c f p]) /\
  (forall c, ~ In c sinks -> filter (to_client c) (hand_out outs sinks f p) = []).
Proof.
  intros Ho Hs. unfold hand_out. repeat split; intros q Hq; rewrite filter_app.
  - rewrite (filter_write_once _ _ _ _ Ho Hq). rewrite filter_map_none; [reflexivity|]. reflexivity.
  - rewrite !filter_map_none; [reflexivity|reflexivity|].
    intros y Hy. cbn [to_port]. apply N.eqb_neq. intros ->. contradiction.
  - rewrite (filter_send_once _ _ _ _ Hs Hq). rewrite filter_map_none; [reflexivity|]. reflexivity.
  - rewrite !filter_map_none; [reflexivity| |reflexivity].
    intros y Hy. cbn [to_client]. apply N.eqb_neq. intros ->. contradiction.
Qed.
Lemma sorted_nodup l : StronglySorted N.lt l -> NoDup l.
Proof.
  induction 1 as [|x l Hl IH Hx]; constructor; [|exact IH].
  intros Hin. rewrite Forall_forall in Hx. specialize (Hx x Hin). lia.
Qed.

Lemma delivery_lemma ops o f p outs sinks :
  change_of (happening_of (run ops) o) = Some (f, p, outs, sinks) ->
  let evs := snd (step (run ops) o) in
  outs = u_outs (w_u (run ops)) /\ sinks = u_sinks (w_u (run ops)) /\
  u_buf (w_u (fst (step (run ops) o))) = f /\
  (forall q, In q outs -> filter (to_port q) evs = [WriteDMX q f p]) /\
  (forall q, ~ In q outs -> filter (to_port q) evs = []) /\
  (forall c, In c sinks -> filter (to_client c) evs = [SendDMX c f p]) /\
  (forall c, ~ In c sinks -> filter (to_client c) evs = []).
Proof.
  intros C. cbv zeta.
  destruct (step_happening (run ops) o) as [Hb He].
  destruct (run_inv ops) as ((_ & Ho & _ & Hk) & _).
  assert (outs = u_outs (w_u (run ops)) /\ sinks = u_sinks (w_u (run ops))) as [-> ->].
  { unfold happening_of in C. destruct (apply_update (run ops) o) as [[[chg now] w1]|].
    - cbn [change_of] in C. destruct (expected _ _ _); inversion C; auto.
    - destruct o; try discriminate. destruct (dmx_set data); [discriminate|]. inversion C; auto. }
  split; [reflexivity|]. split; [reflexivity|].
  split; [rewrite Hb; unfold frame_after; rewrite C; reflexivity|].
  rewrite He. unfold calls_of. rewrite C.
  apply hand_out_once; [exact Ho|apply sorted_nodup; exact Hk].
Qed.

(* ---- where the candidate frames come from ---- *)
Lemma step_sources w o :
  (forall i, p_src (w_ports (fst (step w o)) i) =
     match o with
     | PortData j d ts _ =>
       if (i =? j) && mem j (u_inputs (w_u w))
       then {| s_data := dmx_set d; s_ts := ts; s_prio := port_priority (w_ports w j) |}
       else p_src (w_ports w i)
     | _ => p_src (w_ports w i)
     end) /\
  (forall c, w_csrc (fst (step w o)) c =
     match o with
     | ClientData j d p ts _ =>
       if c =? j then {| s_data := dmx_set d; s_ts := ts; s_prio := p |} else w_csrc w c
     | _ => w_csrc w c
     end).
Proof.
  destruct (apply_update w o) as [[[chg now] w1]|] eqn:A.
  - destruct (step_spec _ _ _ _ _ A) as (_ & _ & _ & _ & _ & _ & _ & _ & Ep & Er). rewrite Ep, Er.
    destruct o; cbn [apply_update] in A; try discriminate.
    + destruct (mem i (u_inputs (w_u w))) eqn:M; [|discriminate]. inversion A; subst. clear A.
      split; intros j; cbn [with_port w_ports w_csrc]; [|reflexivity].
      unfold upd. rewrite andb_true_r. destruct (j =? i); reflexivity.
    + destruct (mem i (u_inputs (w_u w))); [|discriminate]. inversion A; subst. split; reflexivity.
    + inversion A; subst. clear A. split; intros j; cbn [w_ports w_csrc]; [reflexivity|].
      unfold upd. destruct (j =? c); reflexivity.
    + inversion A; subst. split; reflexivity.
  - destruct (op_is_setdmx o) as [[d ->]|Hn].
    + unfold step. cbn [apply_update]. unfold set_dmx.
      destruct (len (dmx_set d) =? 0); split; reflexivity.
    + destruct (step_none _ _ A) as [(d & -> & _)|E]; [exfalso; eapply Hn; reflexivity|]. rewrite E. cbn [fst].
      destruct o; cbn [apply_update] in A; try discriminate; cbn [admin_step with_u with_port w_ports w_csrc];
        try (split; reflexivity).
      * destruct (mem i (u_inputs (w_u w))); [discriminate|]. split; [intros j; rewrite andb_false_r; reflexivity|reflexivity].
      * destruct (SOURCE_PRIORITY_MAX <? p); [split; reflexivity|].
        split; intros j; cbn [with_port w_ports w_csrc]; [|reflexivity].
        unfold upd. destruct (j =? i) eqn:E1; [apply N.eqb_eq in E1; subst|]; reflexivity.
      * split; intros j; cbn [with_port w_ports w_csrc]; [|reflexivity].
        unfold upd. destruct (j =? i) eqn:E1; [apply N.eqb_eq in E1; subst|]; reflexivity.
      * split; intros j; cbn [with_port w_ports w_csrc]; [|reflexivity].
        unfold upd. destruct (j =? i) eqn:E1; [apply N.eqb_eq in E1; subst|]; reflexivity.
      * split; intros j; cbn [with_port w_ports w_csrc]; [|reflexivity].
        unfold upd. destruct (j =? i) eqn:E1; [apply N.eqb_eq in E1; subst|]; reflexivity.
      * split; intros j; cbn [with_port w_ports w_csrc]; [|reflexivity].
        unfold upd. destruct (j =? i) eqn:E1; [apply N.eqb_eq in E1; subst|]; reflexivity.
      * split; intros j; cbn [with_port w_ports w_csrc]; [|reflexivity].
        unfold upd. destruct (j =? i) eqn:E1; [apply N.eqb_eq in E1; subst|]; reflexivity.
Qed.

(* a client's frame for this universe after a history: the last one it sent here, else never set *)
Definition last_client_frame (c : N) (ops : list op) : source :=
  fold_left (fun s o => match o with
                        | ClientData j d p ts _ =>
                          if c =? j then {| s_data := dmx_set d; s_ts := ts; s_prio := p |} else s
                        | _ => s
                        end) ops unset_source.
Lemma client_frames_lemma ops c : w_csrc (run ops) c = last_client_frame c ops.
Proof.
  unfold run, last_client_frame.
  assert (G : forall w s, w_csrc w c = s ->
    w_csrc (fold_left (fun w o => fst (step w o)) ops w) c =
    fold_left (fun s o => match o with
                          | ClientData j d p ts _ =>
                            if c =? j then {| s_data := dmx_set d; s_ts := ts; s_prio := p |} else s
                          | _ => s end) ops s).
  { induction ops as [|o ops IH]; intros w s H; cbn [fold_left]; [exact H|].
    apply IH. destruct (step_sources w o) as [_ Hc]. rewrite Hc, H. reflexivity. }
  apply G. reflexivity.
Qed.

(* ---- priority administration through PortManager ---- *)
Lemma priority_admin_lemma w i v :
  let ws := fst (step w (MgrStatic i v)) in
  let wi := fst (step w (MgrInherit i)) in
  port_priority (w_ports ws i) = N.min v 200 /\
  port_priority (w_ports wi i) =
    (if p_caps (w_ports w i) then p_inherited (w_ports w i) else p_static (w_ports w i)) /\
  (forall j, j <> i -> w_ports ws j = w_ports w j /\ w_ports wi j = w_ports w j) /\
  (forall d ts now, mem i (u_inputs (w_u w)) = true ->
     s_prio (p_src (w_ports (fst (step ws (PortData i d ts now))) i)) = N.min v 200).
Proof.
  cbv zeta.
  assert (E1 : port_priority (w_ports (fst (step w (MgrStatic i v))) i) = N.min v 200).
  { unfold step. cbn [apply_update admin_step fst with_port w_ports]. unfold upd. rewrite N.eqb_refl.
    unfold port_priority. cbn [p_caps p_inherit p_static p_inherited].
    change SOURCE_PRIORITY_MAX with 200.
    assert ((if p_static (w_ports w i) =? (if 200 <? v then 200 else v)
             then p_static (w_ports w i) else (if 200 <? v then 200 else v)) = N.min v 200) as ->.
    { destruct (p_static (w_ports w i) =? (if 200 <? v then 200 else v)) eqn:E;
        [apply N.eqb_eq in E; rewrite E|]; destruct (200 <? v) eqn:C;
        rewrite ?N.ltb_lt, ?N.ltb_ge in C; lia. }
    destruct (p_caps (w_ports w i)), (p_inherit (w_ports w i)); reflexivity. }
  split; [exact E1|]. split; [|split].
  - unfold step. cbn [apply_update admin_step fst with_port w_ports]. unfold upd. rewrite N.eqb_refl.
    unfold port_priority. cbn [p_caps p_inherit p_static p_inherited].
    destruct (p_caps (w_ports w i)), (p_inherit (w_ports w i)); reflexivity.
  - intros j Hj. unfold step. cbn [apply_update admin_step fst with_port w_ports]. unfold upd.
    apply N.eqb_neq in Hj. rewrite Hj. split; reflexivity.
  - intros d ts now Hm.
    destruct (step_sources (fst (step w (MgrStatic i v))) (PortData i d ts now)) as [Hp _].
    rewrite Hp. rewrite N.eqb_refl.
    assert (u_inputs (w_u (fst (step w (MgrStatic i v)))) = u_inputs (w_u w)) as -> by reflexivity.
    rewrite Hm. cbn [andb s_prio]. exact E1.
Qed.

(* ---- an empty frame takes its source out of the merge ---- *)
Lemma empty_frame_lemma w i c prio ts now :
  (mem i (u_inputs (w_u w)) = true ->
   let s := p_src (w_ports (fst (step w (PortData i [] ts now))) i) in
   s_data s = [] /\ s_ts s = ts /\ forall now' l, ~ In (Port i, s) (group now' l)) /\
  (let s := w_csrc (fst (step w (ClientData c [] prio ts now))) c in
   s_data s = [] /\ s_ts s = ts /\ forall now' l, ~ In (Client c, s) (group now' l)).
Proof.
  assert (G : forall (e : sid * source) now' l, s_data (snd e) = [] -> ~ In e (group now' l)).
  { intros e now' l He Hin. unfold group in Hin. apply filter_In in Hin as [_ Hin].
    unfold in_group, liveb in Hin. rewrite He in Hin. rewrite !andb_false_r in Hin. discriminate. }
  split.
  - intros Hm. cbv zeta. destruct (step_sources w (PortData i [] ts now)) as [Hp _].
    rewrite Hp, N.eqb_refl, Hm. cbn [andb s_data s_ts]. repeat split; try reflexivity.
    intros now' l. apply G. reflexivity.
  - cbv zeta. destruct (step_sources w (ClientData c [] prio ts now)) as [_ Hc].
    rewrite Hc, N.eqb_refl. cbn [s_data s_ts]. repeat split; try reflexivity.
    intros now' l. apply G. reflexivity.
Qed.

(* ---- a port's candidate frame after a history ---- *)
(* What one call does to the view "is port i patched, and what does the port object hold" - written
   per call kind, independent of the universe's merge. *)
Definition port_view_step (i : N) (v : bool * port) (o : op) : bool * port :=
  let (patched, q) := v in
  let with_static x := {| p_src := p_src q; p_static := x; p_inherit := p_inherit q;
                          p_inherited := p_inherited q; p_caps := p_caps q |} in
  let with_mode b := {| p_src := p_src q; p_static := p_static q; p_inherit := b;
                        p_inherited := p_inherited q; p_caps := p_caps q |} in
  match o with
  | AddInput j => if j =? i then (true, q) else v
  | RemoveInput j => if j =? i then (false, q) else v
  | PortData j d ts _ =>
    if (j =? i) && patched
    then (patched, {| p_src := {| s_data := dmx_set d; s_ts := ts; s_prio := port_priority q |};
                      p_static := p_static q; p_inherit := p_inherit q;
                      p_inherited := p_inherited q; p_caps := p_caps q |})
    else v
  | SetPortPrio j p => if (j =? i) && negb (SOURCE_PRIORITY_MAX <? p) then (patched, with_static p) else v
  | SetPortMode j b => if j =? i then (patched, with_mode b) else v
  | SetInherited j p =>
    if j =? i then (patched, {| p_src := p_src q; p_static := p_static q; p_inherit := p_inherit q;
                                p_inherited := p; p_caps := p_caps q |}) else v
  | SetCaps j b =>
    if j =? i then (patched, {| p_src := p_src q; p_static := p_static q; p_inherit := p_inherit q;
                                p_inherited := p_inherited q; p_caps := b |}) else v
  | MgrStatic j x =>
    if j =? i
    then (patched, {| p_src := p_src q; p_static := N.min x SOURCE_PRIORITY_MAX;
                      p_inherit := if p_caps q then false else p_inherit q;
                      p_inherited := p_inherited q; p_caps := p_caps q |})
    else v
  | MgrInherit j =>
    if j =? i then (patched, with_mode (if p_caps q then true else p_inherit q)) else v
  | _ => v
  end.
Definition port_view (w : world) (i : N) : bool * port := (mem i (u_inputs (w_u w)), w_ports w i).

Lemma mem_vec_add i j l : mem i (vec_add j l) = (j =? i) || mem i l.
Proof.
  unfold vec_add. destruct (mem j l) eqn:M.
  - destruct (j =? i) eqn:E; [apply N.eqb_eq in E; subst; rewrite M|]; reflexivity.
  - unfold mem. rewrite existsb_app. cbn [existsb]. rewrite orb_false_r, orb_comm.
    rewrite (N.eqb_sym i j). reflexivity.
Qed.
Lemma mem_vec_remove i j l : NoDup l -> mem i (vec_remove j l) = negb (j =? i) && mem i l.
Proof.
  unfold mem.
  induction 1 as [|x l Hx Hl IH]; cbn [vec_remove]; [rewrite andb_false_r; reflexivity|].
  destruct (x =? j) eqn:E.
  - apply N.eqb_eq in E. subst x. cbn [existsb].
    destruct (j =? i) eqn:E2.
    + apply N.eqb_eq in E2. subst i. cbn [negb andb].
      destruct (existsb (N.eqb j) l) eqn:M; [|reflexivity].
      exfalso. apply Hx. apply mem_In. exact M.
    + rewrite (N.eqb_sym i j), E2. reflexivity.
  - cbn [existsb]. rewrite IH.
    destruct (j =? i) eqn:E2; cbn [negb andb]; [|reflexivity].
    apply N.eqb_eq in E2. subst i. rewrite (N.eqb_sym j x), E. reflexivity.
Qed.

Lemma step_inputs w o :
  u_inputs (w_u (fst (step w o))) =
  match o with
  | AddInput j => vec_add j (u_inputs (w_u w))
  | RemoveInput j => vec_remove j (u_inputs (w_u w))
  | _ => u_inputs (w_u w)
  end.
Proof.
  destruct (apply_update w o) as [[[chg now] w1]|] eqn:A.
  - destruct (step_spec _ _ _ _ _ A) as (_ & _ & _ & _ & Ei & _). rewrite Ei.
    destruct o; cbn [apply_update] in A; try discriminate;
      try (destruct (mem i (u_inputs (w_u w))); [|discriminate]);
      inversion A; subst; reflexivity.
  - unfold step. rewrite A.
    destruct o; cbn [apply_update] in A; try discriminate; cbn [fst admin_step]; try reflexivity;
      try (destruct (SOURCE_PRIORITY_MAX <? _); reflexivity);
      try (unfold set_dmx; destruct (len _ =? 0); reflexivity).
Qed.

Lemma step_port_view w o i :
  NoDup (u_inputs (w_u w)) -> port_view (fst (step w o)) i = port_view_step i (port_view w i) o.
Proof.
  intros Hnd. unfold port_view. rewrite step_inputs.
  assert (Hp : w_ports (fst (step w o)) i = snd (port_view_step i (mem i (u_inputs (w_u w)), w_ports w i) o)).
  { destruct (apply_update w o) as [[[chg now] w1]|] eqn:A.
    - destruct (step_spec _ _ _ _ _ A) as (_ & _ & _ & _ & _ & _ & _ & _ & Ep & _). rewrite Ep.
      destruct o; cbn [apply_update] in A; try discriminate.
      + destruct (mem i0 (u_inputs (w_u w))) eqn:M; [|discriminate]. inversion A; subst. clear A.
        cbn [with_port w_ports port_view_step]. unfold upd. rewrite (N.eqb_sym i i0).
        destruct (i0 =? i) eqn:E; cbn [andb snd]; [|reflexivity].
        apply N.eqb_eq in E. subst i0. rewrite M. reflexivity.
      + destruct (mem i0 (u_inputs (w_u w))); [|discriminate]. inversion A; subst. reflexivity.
      + inversion A; subst. reflexivity.
      + inversion A; subst. reflexivity.
    - destruct (op_is_setdmx o) as [[d ->]|Hn].
      + unfold step. cbn [apply_update]. unfold set_dmx. destruct (len (dmx_set d) =? 0); reflexivity.
      + destruct (step_none _ _ A) as [(d & -> & _)|E]; [exfalso; eapply Hn; reflexivity|]. rewrite E. cbn [fst].
        destruct o; cbn [apply_update] in A; try discriminate;
          cbn [admin_step with_u with_port w_ports port_view_step snd]; unfold upd;
          try reflexivity;
          try (destruct (mem _ (u_inputs (w_u w))); [discriminate|]; rewrite ?andb_false_r; reflexivity);
          try (rewrite (N.eqb_sym i _));
          try (destruct (_ =? i) eqn:E1; cbn [snd andb]; [apply N.eqb_eq in E1; subst|]; try reflexivity).
        * destruct (mem i (u_inputs (w_u w))); [discriminate|]. reflexivity.
        * destruct (SOURCE_PRIORITY_MAX <? p); cbn [negb snd with_port w_ports]; [reflexivity|].
          unfold upd. rewrite N.eqb_refl. reflexivity.
        * destruct (SOURCE_PRIORITY_MAX <? p); cbn [with_port w_ports]; [reflexivity|].
          unfold upd. rewrite (N.eqb_sym i i0), E1. reflexivity.
        * f_equal.
          -- change SOURCE_PRIORITY_MAX with 200.
             destruct (p_static (w_ports w i) =? (if 200 <? v then 200 else v)) eqn:E9;
               [apply N.eqb_eq in E9; rewrite E9|]; destruct (200 <? v) eqn:C;
               rewrite ?N.ltb_lt, ?N.ltb_ge in C; lia.
          -- destruct (p_caps (w_ports w i)), (p_inherit (w_ports w i)); reflexivity.
        * destruct (p_caps (w_ports w i)), (p_inherit (w_ports w i)); reflexivity. }
  rewrite Hp.
  destruct o; cbn [port_view_step]; try reflexivity;
    try (destruct (_ =? i); reflexivity);
    try (destruct ((_ =? i) && _); reflexivity).
  - rewrite mem_vec_add. destruct (i0 =? i); reflexivity.
  - rewrite (mem_vec_remove _ _ _ Hnd). destruct (i0 =? i); reflexivity.
Qed.

Lemma port_frames_lemma ops i :
  port_view (run ops) i = fold_left (port_view_step i) ops (false, new_port).
Proof.
  unfold run.
  assert (G : forall w, inv w ->
    port_view (fold_left (fun w o => fst (step w o)) ops w) i =
    fold_left (port_view_step i) ops (port_view w i)).
  { induction ops as [|o ops IH]; intros w Hw; cbn [fold_left]; [reflexivity|].
    rewrite (IH _ (step_inv w o Hw)). f_equal. apply step_port_view. apply Hw. }
  rewrite (G init_world inv_init). reflexivity.
Qed.

(* ---- the HTP frame does not depend on the order in which the group's members are listed ---- *)
From Coq Require Import Sorting.Permutation.
Lemma maxl_perm l l' : Permutation l l' -> maxl l = maxl l'.
Proof.
  induction 1; cbn [maxl fold_right]; try reflexivity.
  - fold (maxl l) (maxl l'). rewrite IHPermutation. reflexivity.
  - fold (maxl l). lia.
  - congruence.
Qed.
Lemma maxlen_perm (fs fs' : list (list N)) : Permutation fs fs' -> maxlen fs = maxlen fs'.
Proof.
  induction 1; try reflexivity.
  - rewrite !maxlen_cons, IHPermutation. reflexivity.
  - rewrite !maxlen_cons. lia.
  - congruence.
Qed.
Lemma slotwise_perm fs fs' : Permutation fs fs' -> slotwise_max fs = slotwise_max fs'.
Proof.
  intros H. apply nth_ext with (d := 0) (d' := 0).
  - rewrite !slotwise_length. apply maxlen_perm. exact H.
  - intros i _. rewrite !slotwise_nth. apply maxl_perm. apply Permutation_map. exact H.
Qed.
