(* C01 — executable model of the universe merge.
   Mirrors olad/plugin_api/Universe.cpp: MergeAll, HTPMergeSources, UpdateDependants,
   PortDataChanged, SourceClientDataChanged, SetMergeMode, Add/Remove port / client;
   DmxSource::IsSet/IsActive; BasicInputPort::DmxChanged; Client::DMXReceived/SourceData.
   DmxBuffer is used through its value semantics (Set, Reset, HTPMerge), which C02 relates to the
   copy-on-write implementation. *)
From OlaBase Require Import Bytes.
From C01 Require Import Gen.
Local Open Scope N_scope.

Record source := { s_data : list N; s_ts : N (* microseconds, 0 = never set *); s_prio : N }.
Definition unset_source := {| s_data := []; s_ts := 0; s_prio := SOURCE_PRIORITY_MIN |}.

(* a source id: input ports and clients live in disjoint id spaces *)
Inductive sid := Port (i : N) | Client (i : N).
Definition sid_eqb (a b : sid) : bool :=
  match a, b with Port x, Port y => x =? y | Client x, Client y => x =? y | _, _ => false end.

Record ust := {
  u_ltp : bool;                       (* merge mode: true = LTP (the constructor's default) *)
  u_buf : list N;                     (* m_buffer *)
  u_prio : N;                         (* m_active_priority *)
  u_srcs : list (sid * source);       (* m_input_ports (vector order) then m_source_clients *)
  u_outs : list N;                    (* m_output_ports, vector order *)
  u_sinks : list N }.                 (* m_sink_clients *)

Definition init_ust : ust :=
  {| u_ltp := true; u_buf := []; u_prio := SOURCE_PRIORITY_MIN; u_srcs := []; u_outs := []; u_sinks := [] |}.

(* DmxBuffer::HTPMerge on values: slot-wise max on the common prefix, the longer tail kept *)
Fixpoint htp (a b : list N) : list N :=
  match a, b with
  | [], _ => b
  | _, [] => a
  | x :: a', y :: b' => N.max x y :: htp a' b'
  end.

(* source.IsSet() && source.IsActive(now) && source.Data().Size() *)
Definition live (now : N) (s : source) : bool :=
  negb (s_ts s =? 0) && (now <? s_ts s + TIMEOUT_US) && negb (len (s_data s) =? 0).

(* the two scanning loops of MergeAll (same body, ports first then clients) *)
Record acc := { a_prio : N; a_act : list source; a_cia : bool }.
Definition scan_one (now : N) (chg : sid) (a : acc) (e : sid * source) : acc :=
  let (i, s) := e in
  if negb (live now s) then a else
  let a1 := if a_prio a <? s_prio s
            then {| a_prio := s_prio s; a_act := []; a_cia := false |} else a in
  if s_prio s =? a_prio a1
  then {| a_prio := a_prio a1; a_act := a_act a1 ++ [s];
          a_cia := if sid_eqb i chg then true else a_cia a1 |}
  else a1.
Definition scan (now : N) (chg : sid) (l : list (sid * source)) : acc :=
  fold_left (scan_one now chg) l {| a_prio := SOURCE_PRIORITY_MIN; a_act := []; a_cia := false |}.

Definition lookup (i : sid) (l : list (sid * source)) : source :=
  match find (fun e => sid_eqb (fst e) i) l with Some e => snd e | None => unset_source end.

(* Universe::MergeAll: returns the new state and whether the data changed *)
Definition merge_all (now : N) (chg : sid) (u : ust) : ust * bool :=
  let a := scan now chg (u_srcs u) in
  let u1 := {| u_ltp := u_ltp u; u_buf := u_buf u; u_prio := a_prio a; u_srcs := u_srcs u;
               u_outs := u_outs u; u_sinks := u_sinks u |} in
  let setbuf b := {| u_ltp := u_ltp u; u_buf := b; u_prio := a_prio a; u_srcs := u_srcs u;
                     u_outs := u_outs u; u_sinks := u_sinks u |} in
  match a_act a with
  | [] => (u1, false)
  | s0 :: rest =>
    if negb (a_cia a) then (u1, false) else
    match rest with
    | [] => (setbuf (s_data s0), true)
    | _ :: _ =>
      if u_ltp u then
        let cs := lookup chg (u_srcs u) in
        if existsb (fun s => s_ts cs <? s_ts s) (a_act a) then (u1, false)
        else (setbuf (s_data cs), true)
      else (setbuf (fold_left htp (map s_data (a_act a)) []), true)
    end
  end.

Inductive event :=
| WriteDMX (port : N) (data : list N) (prio : N)
| SendDMX (client : N) (data : list N) (prio : N).

(* Universe::UpdateDependants *)
Definition fanout (u : ust) : list event :=
  map (fun p => WriteDMX p (u_buf u) (u_prio u)) (u_outs u) ++
  map (fun c => SendDMX c (u_buf u) (u_prio u)) (u_sinks u).

Definition set_src (i : sid) (s : source) (l : list (sid * source)) : list (sid * source) :=
  map (fun e => if sid_eqb (fst e) i then (i, s) else e) l.
Definition has_src (i : sid) (l : list (sid * source)) : bool := existsb (fun e => sid_eqb (fst e) i) l.
Definition with_srcs (u : ust) (l : list (sid * source)) : ust :=
  {| u_ltp := u_ltp u; u_buf := u_buf u; u_prio := u_prio u; u_srcs := l; u_outs := u_outs u; u_sinks := u_sinks u |}.

Inductive op :=
| PortData (i : N) (data : list N) (prio ts now : N)   (* BasicInputPort::DmxChanged on a patched port *)
| ClientData (i : N) (data : list N) (prio ts now : N) (* Client::DMXReceived + SourceClientDataChanged *)
| SetMode (ltp : bool)
| AddInput (i : N) | RemoveInput (i : N)
| RemoveSourceClient (i : N)
| AddOutput (i : N) | RemoveOutput (i : N)
| AddSink (i : N) | RemoveSink (i : N).

Definition remove_n (i : N) (l : list N) := filter (fun x => negb (x =? i)) l.

(* input ports are kept before clients, as the two loops of MergeAll visit them *)
Definition is_port (e : sid * source) := match fst e with Port _ => true | Client _ => false end.
Definition add_input (i : N) (l : list (sid * source)) :=
  filter is_port l ++ [(Port i, unset_source)] ++ filter (fun e => negb (is_port e)) l.

Definition step (u : ust) (o : op) : ust * list event :=
  match o with
  | PortData i data prio ts now =>
    if negb (has_src (Port i) (u_srcs u)) then (u, []) else
    let u1 := with_srcs u (set_src (Port i) {| s_data := data; s_ts := ts; s_prio := prio |} (u_srcs u)) in
    let (u2, changed) := merge_all now (Port i) u1 in
    (u2, if changed then fanout u2 else [])
  | ClientData i data prio ts now =>
    let s := {| s_data := data; s_ts := ts; s_prio := prio |} in
    let l := if has_src (Client i) (u_srcs u) then set_src (Client i) s (u_srcs u)
             else u_srcs u ++ [(Client i, s)] in
    let (u2, changed) := merge_all now (Client i) (with_srcs u l) in
    (u2, if changed then fanout u2 else [])
  | SetMode ltp =>
    ({| u_ltp := ltp; u_buf := u_buf u; u_prio := u_prio u; u_srcs := u_srcs u; u_outs := u_outs u;
        u_sinks := u_sinks u |}, [])
  | AddInput i =>
    if has_src (Port i) (u_srcs u) then (u, []) else (with_srcs u (add_input i (u_srcs u)), [])
  | RemoveInput i => (with_srcs u (filter (fun e => negb (sid_eqb (fst e) (Port i))) (u_srcs u)), [])
  | RemoveSourceClient i =>
    (with_srcs u (filter (fun e => negb (sid_eqb (fst e) (Client i))) (u_srcs u)), [])
  | AddOutput i =>
    if existsb (N.eqb i) (u_outs u) then (u, []) else
    ({| u_ltp := u_ltp u; u_buf := u_buf u; u_prio := u_prio u; u_srcs := u_srcs u;
        u_outs := u_outs u ++ [i]; u_sinks := u_sinks u |}, [])
  | RemoveOutput i =>
    ({| u_ltp := u_ltp u; u_buf := u_buf u; u_prio := u_prio u; u_srcs := u_srcs u;
        u_outs := remove_n i (u_outs u); u_sinks := u_sinks u |}, [])
  | AddSink i =>
    if existsb (N.eqb i) (u_sinks u) then (u, []) else
    ({| u_ltp := u_ltp u; u_buf := u_buf u; u_prio := u_prio u; u_srcs := u_srcs u;
        u_outs := u_outs u; u_sinks := u_sinks u ++ [i] |}, [])
  | RemoveSink i =>
    ({| u_ltp := u_ltp u; u_buf := u_buf u; u_prio := u_prio u; u_srcs := u_srcs u;
        u_outs := u_outs u; u_sinks := remove_n i (u_sinks u) |}, [])
  end.

Definition run (ops : list op) : ust := fold_left (fun u o => fst (step u o)) ops init_ust.
