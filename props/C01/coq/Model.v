(* C01 — executable model of the universe merge.
   Mirrors olad/plugin_api/Universe.cpp: MergeAll, HTPMergeSources, UpdateDependants,
   PortDataChanged, SourceClientDataChanged, SetMergeMode, AddPort/RemovePort (both kinds),
   AddSourceClient/RemoveSourceClient, AddSinkClient/RemoveSinkClient;
   include/olad/DmxSource.h: IsSet/IsActive/UpdateData; olad/plugin_api/Port.cpp:
   BasicInputPort::DmxChanged/SetPriority and the priority selection; olad/plugin_api/Client.cpp:
   DMXReceived/SourceData.
   DmxBuffer is used through its value semantics (Set caps at 512, Reset, HTPMerge), which C02
   relates to the copy-on-write implementation.  RDM, names and the export map are not modelled.
   Time is N microseconds (a TimeStamp with tv_sec*10^6+tv_usec); 0 is the unset TimeStamp. *)
From OlaBase Require Import Bytes.
From C01 Require Import Gen.
Local Open Scope N_scope.

(* DmxSource *)
Record source := { s_data : list N; s_ts : N; s_prio : N }.
Definition unset_source := {| s_data := []; s_ts := 0; s_prio := SOURCE_PRIORITY_MIN |}.

(* a source id: input ports and clients live in disjoint id spaces (they are C++ pointers of
   different classes; the harness maps index <-> object) *)
Inductive sid := Port (i : N) | Client (i : N).
Definition sid_eqb (a b : sid) : bool :=
  match a, b with Port x, Port y => x =? y | Client x, Client y => x =? y | _, _ => false end.

(* BasicInputPort: m_dmx_source, m_priority, m_priority_mode, what InheritedPriority() returns and
   whether SupportsPriorities() *)
Record port := { p_src : source; p_static : N; p_inherit : bool; p_inherited : N; p_caps : bool }.
Definition new_port : port :=
  {| p_src := unset_source; p_static := SOURCE_PRIORITY_DEFAULT; p_inherit := false;
     p_inherited := SOURCE_PRIORITY_DEFAULT; p_caps := false |}.
(* the priority expression of BasicInputPort::DmxChanged *)
Definition port_priority (p : port) : N :=
  if p_caps p && p_inherit p then p_inherited p else p_static p.

Record ust := {
  u_ltp : bool;                (* m_merge_mode == MERGE_LTP (the constructor's default) *)
  u_buf : list N;              (* m_buffer *)
  u_prio : N;                  (* m_active_priority *)
  u_inputs : list N;           (* m_input_ports, vector order *)
  u_clients : list (N * bool); (* m_source_clients: std::map<Client*, bool> keyed by pointer =
                                  ascending id; the bool is the "stale" mark of housekeeping *)
  u_outs : list N;             (* m_output_ports, vector order *)
  u_sinks : list N }.          (* m_sink_clients: std::set of pointers = ascending id *)

Definition init_ust : ust :=
  {| u_ltp := true; u_buf := []; u_prio := SOURCE_PRIORITY_MIN; u_inputs := []; u_clients := [];
     u_outs := []; u_sinks := [] |}.

(* the universe plus the objects it points to *)
Record world := { w_u : ust; w_ports : N -> port; w_csrc : N -> source (* Client::m_data_map[uni] *) }.
Definition init_world : world :=
  {| w_u := init_ust; w_ports := fun _ => new_port; w_csrc := fun _ => unset_source |}.

(* DmxBuffer::Set(data, length): m_length = min(length, DMX_UNIVERSE_SIZE) *)
Definition dmx_set (d : list N) : list N := take DMX_UNIVERSE_SIZE d.

(* DmxBuffer::HTPMerge on values (both operands are DmxBuffers, i.e. at most 512 slots):
   slot-wise max on the common prefix, the longer tail kept *)
Fixpoint htp (a b : list N) : list N :=
  match a, b with
  | [], _ => b
  | _, [] => a
  | x :: a', y :: b' => N.max x y :: htp a' b'
  end.

(* !( !source.IsSet() || !source.IsActive(now) || !source.Data().Size() ) *)
Definition live (now : N) (s : source) : bool :=
  negb (s_ts s =? 0) && (now <? s_ts s + TIMEOUT_US) && negb (len (s_data s) =? 0).

(* the body shared by the two scanning loops of MergeAll *)
Record acc := { a_prio : N; a_act : list source; a_cia : bool }.
Definition scan_one (now : N) (chg : sid) (a : acc) (e : sid * source) : acc :=
  let (i, s) := e in
  if negb (live now s) then a else
  let a1 := if a_prio a <? s_prio s
            then {| a_prio := s_prio s; a_act := []; a_cia := false |} else a in
  if s_prio s =? a_prio a1
  then {| a_prio := a_prio a1; a_act := a_act a1 ++ [s];
          a_cia := if sid_eqb i chg then true else a_cia a1 |}
  else a1.
Definition acc0 := {| a_prio := SOURCE_PRIORITY_MIN; a_act := []; a_cia := false |}.

(* what the two loops iterate over: ports in vector order, then clients in map order *)
Definition port_sources (w : world) : list (sid * source) :=
  map (fun i => (Port i, p_src (w_ports w i))) (u_inputs (w_u w)).
Definition client_sources (w : world) : list (sid * source) :=
  map (fun cb => (Client (fst cb), w_csrc w (fst cb))) (u_clients (w_u w)).
Definition scan (now : N) (chg : sid) (w : world) : acc :=
  fold_left (scan_one now chg) (client_sources w) (fold_left (scan_one now chg) (port_sources w) acc0).

(* port->SourceData() / client->SourceData(UniverseId()) of the changed source *)
Definition changed_source (chg : sid) (w : world) : source :=
  match chg with Port i => p_src (w_ports w i) | Client c => w_csrc w c end.

Definition set_merge (u : ust) (prio : N) (buf : list N) : ust :=
  {| u_ltp := u_ltp u; u_buf := buf; u_prio := prio; u_inputs := u_inputs u;
     u_clients := u_clients u; u_outs := u_outs u; u_sinks := u_sinks u |}.

(* Universe::HTPMergeSources: m_buffer.Reset(); for each source: m_buffer.HTPMerge(data) *)
Definition htp_merge_sources (l : list source) : list N := fold_left htp (map s_data l) [].

(* Universe::MergeAll: the new universe state and the returned "data changed" flag.
   m_active_priority is overwritten on every path, also the ones returning false. *)
Definition merge_all (now : N) (chg : sid) (w : world) : ust * bool :=
  let u := w_u w in
  let a := scan now chg w in
  match a_act a with
  | [] => (set_merge u (a_prio a) (u_buf u), false)
  | s0 :: rest =>
    if negb (a_cia a) then (set_merge u (a_prio a) (u_buf u), false) else
    match rest with
    | [] => (set_merge u (a_prio a) (s_data s0), true)
    | _ :: _ =>
      if u_ltp u then
        let cs := changed_source chg w in
        if existsb (fun s => s_ts cs <? s_ts s) (a_act a)
        then (set_merge u (a_prio a) (u_buf u), false)
        else (set_merge u (a_prio a) (s_data cs), true)
      else (set_merge u (a_prio a) (htp_merge_sources (a_act a)), true)
    end
  end.

Inductive event :=
| WriteDMX (port : N) (data : list N) (prio : N)      (* OutputPort::WriteDMX(buffer, priority) *)
| SendDMX (client : N) (data : list N) (prio : N).    (* Client::SendDMX(universe, priority, buffer) *)

(* Universe::UpdateDependants *)
Definition fanout (u : ust) : list event :=
  map (fun p => WriteDMX p (u_buf u) (u_prio u)) (u_outs u) ++
  map (fun c => SendDMX c (u_buf u) (u_prio u)) (u_sinks u).

Definition with_u (w : world) (u : ust) : world :=
  {| w_u := u; w_ports := w_ports w; w_csrc := w_csrc w |}.

(* "if (MergeAll(port, client)) UpdateDependants();" *)
Definition data_changed (chg : sid) (now : N) (w : world) : world * list event :=
  let (u2, changed) := merge_all now chg w in
  (with_u w u2, if changed then fanout u2 else []).

Inductive op :=
| PortData (i : N) (data : list N) (ts now : N)   (* port buffer := data; BasicInputPort::DmxChanged
                                                     with WakeUpTime()=ts, universe clock = now *)
| PortChanged (i : N) (now : N)                    (* Universe::PortDataChanged(port) alone *)
| ClientData (c : N) (data : list N) (prio ts now : N)
                                                   (* Client::DMXReceived(DmxSource(data,ts,prio));
                                                      Universe::SourceClientDataChanged(client) *)
| ClientChanged (c : N) (now : N)                  (* SourceClientDataChanged(client) alone *)
| SetMode (ltp : bool)
| AddInput (i : N) | RemoveInput (i : N)           (* AddPort/RemovePort + port->SetUniverse *)
| AddSource (c : N) | RemoveSource (c : N)      (* AddSourceClient / RemoveSourceClient *)
| CleanStale                                       (* Universe::CleanStaleSourceClients (housekeeping) *)
| OutResult (i : N) (b : bool)                     (* what output port i's WriteDMX returns from now on *)
| SinkResult (c : N) (b : bool)                    (* what client c's SendDMX returns from now on *)
| SetDMX (data : list N)                           (* Universe::SetDMX(DmxBuffer(data)) *)
| AckClient (c n : N)                              (* n pending UpdateDmxData acks of client c arrive:
                                                      Client::SendDMXCallback frees the RPC objects,
                                                      nothing else (Client::SendDMX issues every request
                                                      at once, whatever is still un-acked) *)
| ClientOther (c : N) (data : list N) (prio ts : N)
                                                   (* Client::DMXReceived for ANOTHER universe id: the
                                                      client's m_data_map entry of this universe, which
                                                      is all SourceData(UniverseId()) reads, is untouched *)
| AddOutput (i : N) | RemoveOutput (i : N)
| AddSink (c : N) | RemoveSink (c : N)
| SetPortPrio (i p : N)                            (* BasicInputPort::SetPriority *)
| SetPortMode (i : N) (inherit : bool)             (* SetPriorityMode *)
| SetInherited (i p : N)                           (* what InheritedPriority() returns *)
| SetCaps (i : N) (b : bool)                       (* SupportsPriorities() *)
| MgrStatic (i v : N)                              (* PortManager::SetPriorityStatic(input port i, v) *)
| MgrInherit (i : N)                               (* PortManager::SetPriorityInherit(input port i) *)
| MgrOutStatic (i v : N) | MgrOutInherit (i : N).  (* the same on output port i: an output port's own
                                                      priority setting is not read by the universe *)

Definition mem (i : N) (l : list N) : bool := existsb (N.eqb i) l.
(* vector: find + push_back / find + erase *)
Definition vec_add (i : N) (l : list N) : list N := if mem i l then l else l ++ [i].
Fixpoint vec_remove (i : N) (l : list N) : list N :=
  match l with [] => [] | x :: r => if x =? i then r else x :: vec_remove i r end.
(* std::set / std::map keyed by object address: insert keeps ascending order, no duplicates *)
Fixpoint ord_add (c : N) (l : list N) : list N :=
  match l with
  | [] => [c]
  | x :: r => if c <? x then c :: l else if c =? x then l else x :: ord_add c r
  end.
Definition ord_remove (c : N) (l : list N) : list N := filter (fun x => negb (x =? c)) l.
(* STLReplace(&m_source_clients, client, v): insert, or overwrite the value of an existing key *)
Fixpoint map_put (c : N) (v : bool) (l : list (N * bool)) : list (N * bool) :=
  match l with
  | [] => [(c, v)]
  | (x, b) :: r => if c <? x then (c, v) :: l else if c =? x then (x, v) :: r else (x, b) :: map_put c v r
  end.
Definition map_remove (c : N) (l : list (N * bool)) : list (N * bool) :=
  filter (fun e => negb (fst e =? c)) l.
(* the loop of CleanStaleSourceClients: an entry whose mark is set is erased, otherwise it is marked *)
Fixpoint clean_stale (l : list (N * bool)) : list (N * bool) :=
  match l with
  | [] => []
  | (c, b) :: r => if b then clean_stale r else (c, true) :: clean_stale r
  end.

Definition upd {A} (f : N -> A) (i : N) (v : A) : N -> A := fun j => if j =? i then v else f j.

Definition set_inputs u l := {| u_ltp := u_ltp u; u_buf := u_buf u; u_prio := u_prio u; u_inputs := l;
  u_clients := u_clients u; u_outs := u_outs u; u_sinks := u_sinks u |}.
Definition set_clients u l := {| u_ltp := u_ltp u; u_buf := u_buf u; u_prio := u_prio u;
  u_inputs := u_inputs u; u_clients := l; u_outs := u_outs u; u_sinks := u_sinks u |}.
Definition set_outs u l := {| u_ltp := u_ltp u; u_buf := u_buf u; u_prio := u_prio u;
  u_inputs := u_inputs u; u_clients := u_clients u; u_outs := l; u_sinks := u_sinks u |}.
Definition set_sinks u l := {| u_ltp := u_ltp u; u_buf := u_buf u; u_prio := u_prio u;
  u_inputs := u_inputs u; u_clients := u_clients u; u_outs := u_outs u; u_sinks := l |}.
Definition set_ltp u b := {| u_ltp := b; u_buf := u_buf u; u_prio := u_prio u;
  u_inputs := u_inputs u; u_clients := u_clients u; u_outs := u_outs u; u_sinks := u_sinks u |}.
Definition with_port (w : world) (i : N) (p : port) : world :=
  {| w_u := w_u w; w_ports := upd (w_ports w) i p; w_csrc := w_csrc w |}.
Definition set_psrc (p : port) (s : source) : port :=
  {| p_src := s; p_static := p_static p; p_inherit := p_inherit p; p_inherited := p_inherited p;
     p_caps := p_caps p |}.

(* The state right before "if (MergeAll(..)) UpdateDependants()" is reached by an update call, with
   the changed source and the universe clock reading; None when that point is not reached. *)
Definition apply_update (w : world) (o : op) : option (sid * N * world) :=
  match o with
  | PortData i data ts now =>
    (* DmxChanged: if (GetUniverse()) {...}; PortDataChanged: if (!ContainsPort(port)) return *)
    if mem i (u_inputs (w_u w)) then
      let p := w_ports w i in
      let s := {| s_data := dmx_set data; s_ts := ts; s_prio := port_priority p |} in
      Some (Port i, now, with_port w i (set_psrc p s))
    else None
  | PortChanged i now =>
    if mem i (u_inputs (w_u w)) then Some (Port i, now, w) else None
  | ClientData c data prio ts now =>
    let s := {| s_data := dmx_set data; s_ts := ts; s_prio := prio |} in
    Some (Client c, now,
          {| w_u := set_clients (w_u w) (map_put c false (u_clients (w_u w)));
             w_ports := w_ports w; w_csrc := upd (w_csrc w) c s |})
  | ClientChanged c now =>
    Some (Client c, now, with_u w (set_clients (w_u w) (map_put c false (u_clients (w_u w)))))
  | _ => None
  end.

(* every other call: no merge, no fan-out.  OutResult/SinkResult change nothing: the universe ignores
   what WriteDMX/SendDMX return (UpdateDependants calls every dependant unconditionally). *)
Definition admin_step (w : world) (o : op) : world :=
  let u := w_u w in
  match o with
  | SetMode b => with_u w (set_ltp u b)
  | AddInput i => with_u w (set_inputs u (vec_add i (u_inputs u)))
  | RemoveInput i => with_u w (set_inputs u (vec_remove i (u_inputs u)))
  | AddSource c => with_u w (set_clients u (map_put c false (u_clients u)))
  | RemoveSource c => with_u w (set_clients u (map_remove c (u_clients u)))
  | CleanStale => with_u w (set_clients u (clean_stale (u_clients u)))
  | AddOutput i => with_u w (set_outs u (vec_add i (u_outs u)))
  | RemoveOutput i => with_u w (set_outs u (vec_remove i (u_outs u)))
  | AddSink c => with_u w (set_sinks u (ord_add c (u_sinks u)))
  | RemoveSink c => with_u w (set_sinks u (ord_remove c (u_sinks u)))
  | SetPortPrio i p =>
    if SOURCE_PRIORITY_MAX <? p then w else
    let q := w_ports w i in
    with_port w i {| p_src := p_src q; p_static := p; p_inherit := p_inherit q;
                     p_inherited := p_inherited q; p_caps := p_caps q |}
  | SetPortMode i b =>
    let q := w_ports w i in
    with_port w i {| p_src := p_src q; p_static := p_static q; p_inherit := b;
                     p_inherited := p_inherited q; p_caps := p_caps q |}
  | SetInherited i p =>
    let q := w_ports w i in
    with_port w i {| p_src := p_src q; p_static := p_static q; p_inherit := p_inherit q;
                     p_inherited := p; p_caps := p_caps q |}
  | SetCaps i b =>
    let q := w_ports w i in
    with_port w i {| p_src := p_src q; p_static := p_static q; p_inherit := p_inherit q;
                     p_inherited := p_inherited q; p_caps := b |}
  | MgrStatic i v =>
    (* capability is FULL or STATIC here, never NONE; "if (FULL && mode != STATIC) mode = STATIC;
       if (value > MAX) value = MAX; if (GetPriority() != value) SetPriority(value);" *)
    let q := w_ports w i in
    let v' := if SOURCE_PRIORITY_MAX <? v then SOURCE_PRIORITY_MAX else v in
    with_port w i {| p_src := p_src q;
                     p_static := if p_static q =? v' then p_static q else v';
                     p_inherit := if p_caps q && p_inherit q then false else p_inherit q;
                     p_inherited := p_inherited q; p_caps := p_caps q |}
  | MgrInherit i =>
    (* "if (capability != FULL) return; if (mode != INHERIT) mode = INHERIT;" *)
    let q := w_ports w i in
    with_port w i {| p_src := p_src q; p_static := p_static q;
                     p_inherit := if p_caps q then (if p_inherit q then p_inherit q else true)
                                  else p_inherit q;
                     p_inherited := p_inherited q; p_caps := p_caps q |}
  | _ => w
  end.

(* Universe::SetDMX: "if (!buffer.Size()) return true; m_buffer.Set(buffer); return UpdateDependants();"
   (no merge: the active priority is whatever the last MergeAll left) *)
Definition set_dmx (w : world) (data : list N) : world * list event :=
  let b := dmx_set data in
  if len b =? 0 then (w, []) else
  let u2 := set_merge (w_u w) (u_prio (w_u w)) b in (with_u w u2, fanout u2).

Definition step (w : world) (o : op) : world * list event :=
  match apply_update w o with
  | Some (chg, now, w1) => data_changed chg now w1
  | None => match o with
            | SetDMX data => set_dmx w data
            | _ => (admin_step w o, [])
            end
  end.

Definition run (ops : list op) : world := fold_left (fun w o => fst (step w o)) ops init_world.

(* Two universes of one daemon sharing the client objects (a client may be source and sink of both);
   ports belong to one universe.  Nothing one universe does is visible to the other: Client keeps its
   source frames per universe id (m_data_map) and SendDMX keeps no state between calls. *)
Inductive uop := On1 (o : op) | On2 (o : op).
Definition step2 (ww : world * world) (o : uop) : (world * world) * list event :=
  match o with
  | On1 o => let (w, evs) := step (fst ww) o in ((w, snd ww), evs)
  | On2 o => let (w, evs) := step (snd ww) o in ((fst ww, w), evs)
  end.
