(* REGENERATED from the repository headers on every run. Do not edit.  *)
From Coq Require Import NArith.
Local Open Scope N_scope.
Definition TIMEOUT_US : N := 2500000.
Definition SOURCE_PRIORITY_MIN : N := 0.
Definition SOURCE_PRIORITY_DEFAULT : N := 100.
Definition SOURCE_PRIORITY_MAX : N := 200.
Definition DMX_UNIVERSE_SIZE : N := 512.
Definition USEC_IN_SECONDS : N := 1000000.
Definition TIMEOUT_SEC : N := 2.
Definition TIMEOUT_USEC : N := 500000.
