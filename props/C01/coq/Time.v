(* C01 — struct timeval arithmetic as common/utils/Clock.cpp does it (BaseTimeVal::TimerAdd,
   timercmp, timerisset, BaseTimeVal::Set(int64)), and the proof that on normalised, non-negative
   time values it coincides with the plain microsecond arithmetic the universe model uses. *)
From OlaBase Require Import Bytes.
From C01 Require Import Gen.
Local Open Scope N_scope.

Definition timeval := (N * N)%type.                      (* tv_sec, tv_usec *)
Definition tv_norm (t : timeval) : bool := snd t <? USEC_IN_SECONDS.
Definition tv_us (t : timeval) : N := fst t * USEC_IN_SECONDS + snd t.      (* BaseTimeVal::AsInt *)
(* BaseTimeVal::Set(int64_t) *)
Definition tv_set (us : N) : timeval := (us / USEC_IN_SECONDS, us mod USEC_IN_SECONDS).
(* BaseTimeVal::TimerAdd *)
Definition tv_add (a b : timeval) : timeval :=
  let s := fst a + fst b in
  let u := snd a + snd b in
  if USEC_IN_SECONDS <=? u then (s + 1, u - USEC_IN_SECONDS) else (s, u).
(* timercmp(a, b, <) *)
Definition tv_lt (a b : timeval) : bool :=
  if negb (fst a =? fst b) then fst a <? fst b else snd a <? snd b.
(* timerisset *)
Definition tv_isset (a : timeval) : bool := negb (fst a =? 0) || negb (snd a =? 0).
(* DmxSource::IsActive(now) for a source stamped ts *)
Definition tv_active (now ts : timeval) : bool := tv_lt now (tv_add ts (TIMEOUT_SEC, TIMEOUT_USEC)).

Lemma timeval_lemma now ts :
  tv_norm now = true -> tv_norm ts = true ->
  tv_isset ts = negb (tv_us ts =? 0) /\
  tv_active now ts = (tv_us now <? tv_us ts + TIMEOUT_US) /\
  tv_norm (tv_add ts (TIMEOUT_SEC, TIMEOUT_USEC)) = true /\
  tv_set (tv_us ts) = ts /\
  tv_set TIMEOUT_US = (TIMEOUT_SEC, TIMEOUT_USEC).
Proof.
  destruct now as [ns nu], ts as [s u].
  unfold tv_norm, tv_isset, tv_active, tv_lt, tv_add, tv_us, tv_set.
  change USEC_IN_SECONDS with 1000000. change TIMEOUT_SEC with 2. change TIMEOUT_USEC with 500000.
  change TIMEOUT_US with 2500000. cbn [fst snd]. intros Hn Hs.
  apply N.ltb_lt in Hn. apply N.ltb_lt in Hs.
  split; [|split; [|split; [|split]]].
  - destruct (s =? 0) eqn:E1, (u =? 0) eqn:E2, (s * 1000000 + u =? 0) eqn:E3; cbn; try reflexivity;
      rewrite ?N.eqb_eq, ?N.eqb_neq in *; lia.
  - destruct (1000000 <=? u + 500000) eqn:C; cbn [fst snd].
    + apply N.leb_le in C.
      destruct (ns =? s + 2 + 1) eqn:E; cbn [negb].
      * apply N.eqb_eq in E. subst ns.
        destruct (nu <? u + 500000 - 1000000) eqn:L, ((s + 2 + 1) * 1000000 + nu <? s * 1000000 + u + 2500000) eqn:R;
          try reflexivity; rewrite ?N.ltb_lt, ?N.ltb_ge in *; lia.
      * apply N.eqb_neq in E.
        destruct (ns <? s + 2 + 1) eqn:L, (ns * 1000000 + nu <? s * 1000000 + u + 2500000) eqn:R;
          try reflexivity; rewrite ?N.ltb_lt, ?N.ltb_ge in *; lia.
    + apply N.leb_gt in C.
      destruct (ns =? s + 2) eqn:E; cbn [negb].
      * apply N.eqb_eq in E. subst ns.
        destruct (nu <? u + 500000) eqn:L, ((s + 2) * 1000000 + nu <? s * 1000000 + u + 2500000) eqn:R;
          try reflexivity; rewrite ?N.ltb_lt, ?N.ltb_ge in *; lia.
      * apply N.eqb_neq in E.
        destruct (ns <? s + 2) eqn:L, (ns * 1000000 + nu <? s * 1000000 + u + 2500000) eqn:R;
          try reflexivity; rewrite ?N.ltb_lt, ?N.ltb_ge in *; lia.
  - destruct (1000000 <=? u + 500000) eqn:C; cbn [snd]; apply N.ltb_lt;
      [apply N.leb_le in C|apply N.leb_gt in C]; lia.
  - f_equal.
    + symmetry. apply (N.div_unique _ _ _ u); lia.
    + symmetry. apply (N.mod_unique _ _ s u); lia.
  - reflexivity.
Qed.
