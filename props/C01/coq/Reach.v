(* C01 — invariants of every world reachable from the initial one by any sequence of operations:
   container discipline (no duplicate ports, client containers strictly ascending), every frame held
   anywhere has at most 512 slots. *)
From OlaBase Require Import Bytes.
From Coq Require Import Sorting.Sorted.
From C01 Require Import Gen Model Spec Proofs.
Local Open Scope N_scope.

Definition frames_ok (w : world) : Prop :=
  (forall i, (length (s_data (p_src (w_ports w i))) <= 512)%nat) /\
  (forall c, (length (s_data (w_csrc w c)) <= 512)%nat).
Definition containers_ok (u : ust) : Prop :=
  NoDup (u_inputs u) /\ NoDup (u_outs u) /\
  StronglySorted N.lt (map fst (u_clients u)) /\ StronglySorted N.lt (u_sinks u).
Definition inv (w : world) : Prop :=
  containers_ok (w_u w) /\ frames_ok w /\ (length (u_buf (w_u w)) <= 512)%nat.

Lemma mem_In i l : mem i l = true <-> In i l.
Proof.
  unfold mem. rewrite existsb_exists. split.
  - intros (x & H & E). apply N.eqb_eq in E. subst. exact H.
  - intros H. exists i. split; [exact H|apply N.eqb_refl].
Qed.
Lemma vec_add_nodup i l : NoDup l -> NoDup (vec_add i l).
Proof.
  intros H. unfold vec_add. destruct (mem i l) eqn:M; [exact H|].
  assert (~ In i l) as Hn by (rewrite <- mem_In, M; discriminate).
  pose proof (Add_app i l []) as A. rewrite app_nil_r in A.
  apply (NoDup_Add A). split; assumption.
Qed.
Lemma vec_remove_In i l x : In x (vec_remove i l) -> In x l.
Proof.
  induction l as [|y l IH]; cbn [vec_remove In]; [tauto|].
  destruct (y =? i); cbn [In]; tauto.
Qed.
Lemma vec_remove_nodup i l : NoDup l -> NoDup (vec_remove i l).
Proof.
  induction 1 as [|y l Hy Hl IH]; cbn [vec_remove]; [constructor|].
  destruct (y =? i); [exact Hl|]. constructor; [|exact IH].
  intros H. apply Hy. eapply vec_remove_In. exact H.
Qed.
Lemma ord_add_In c l y : In y (ord_add c l) -> y = c \/ In y l.
Proof.
  induction l as [|x l IH]; cbn [ord_add In]; [intuition congruence|].
  destruct (c <? x); [cbn [In]; intuition congruence|]. destruct (c =? x); cbn [In]; intuition congruence.
Qed.
Lemma ord_add_sorted c l : StronglySorted N.lt l -> StronglySorted N.lt (ord_add c l).
Proof.
  induction 1 as [|x l Hl IH Hx]; cbn [ord_add].
  - repeat constructor.
  - destruct (c <? x) eqn:C.
    + apply N.ltb_lt in C. constructor; [constructor; assumption|].
      constructor; [exact C|]. rewrite Forall_forall in *. intros y Hy. specialize (Hx y Hy). lia.
    + destruct (c =? x) eqn:E; [constructor; assumption|].
      apply N.ltb_ge in C. apply N.eqb_neq in E.
      constructor; [exact IH|]. rewrite Forall_forall in *. intros y Hy.
      apply ord_add_In in Hy as [->|Hy]; [lia|auto].
Qed.
Lemma ord_remove_sorted c l : StronglySorted N.lt l -> StronglySorted N.lt (ord_remove c l).
Proof.
  unfold ord_remove. induction 1 as [|x l Hl IH Hx]; cbn [filter]; [constructor|].
  destruct (negb (x =? c)); [|exact IH]. constructor; [exact IH|].
  rewrite Forall_forall in *. intros y Hy. apply filter_In in Hy as [Hy _]. auto.
Qed.

Lemma map_put_keys c v l : map fst (map_put c v l) = ord_add c (map fst l).
Proof.
  induction l as [|[x b] l IH]; cbn [map_put map fst ord_add]; [reflexivity|].
  destruct (c <? x); [reflexivity|]. destruct (c =? x); cbn [map fst]; [reflexivity|]. rewrite IH. reflexivity.
Qed.
Lemma map_remove_keys c l : map fst (map_remove c l) = ord_remove c (map fst l).
Proof.
  unfold map_remove, ord_remove. induction l as [|[x b] l IH]; cbn [filter map fst]; [reflexivity|].
  destruct (negb (x =? c)); cbn [map fst]; rewrite IH; reflexivity.
Qed.
Lemma clean_stale_keys_In y l : In y (map fst (clean_stale l)) -> In y (map fst l).
Proof.
  induction l as [|[x b] l IH]; cbn [clean_stale map fst In]; [tauto|].
  destruct b; cbn [map fst In]; tauto.
Qed.
Lemma clean_stale_sorted l :
  StronglySorted N.lt (map fst l) -> StronglySorted N.lt (map fst (clean_stale l)).
Proof.
  induction l as [|[x b] l IH]; cbn [clean_stale map fst]; intros H; [constructor|].
  inversion H as [|? ? Hs Hf]; subst. destruct b; [auto|].
  cbn [map fst]. constructor; [auto|]. rewrite Forall_forall in *. intros y Hy.
  apply Hf. apply clean_stale_keys_In. exact Hy.
Qed.

Lemma dmx_set_len d : (length (dmx_set d) <= 512)%nat.
Proof. unfold dmx_set, take. change (N.to_nat DMX_UNIVERSE_SIZE) with 512%nat. apply firstn_le_length. Qed.

Lemma sources_frames_ok w : frames_ok w ->
  forall e, In e (sources w) -> (length (s_data (snd e)) <= 512)%nat.
Proof.
  intros [Hp Hc] e H. unfold sources, port_sources, client_sources in H.
  apply in_app_or in H as [H|H]; apply in_map_iff in H as (j & <- & _); cbn [snd]; auto.
Qed.
Lemma maxlen_le fs n : (forall f, In f fs -> (length f <= n)%nat) -> (maxlen fs <= n)%nat.
Proof.
  induction fs as [|f fs IH]; intros H; [cbn; lia|]. rewrite maxlen_cons.
  pose proof (H f (or_introl eq_refl)). assert (maxlen fs <= n)%nat by (apply IH; intros; apply H; now right). lia.
Qed.
Lemma expected_len ltp chg g f :
  (forall e, In e g -> (length (s_data (snd e)) <= 512)%nat) ->
  expected ltp chg g = Some f -> (length f <= 512)%nat.
Proof.
  intros Hg. unfold expected.
  destruct (find (fun e => sid_eqb (fst e) chg) g) as [e|] eqn:F; [|discriminate].
  apply find_some in F as [Fin _]. pose proof (Hg e Fin) as He.
  assert (Hs : (length (slotwise_max (map (fun x => s_data (snd x)) g)) <= 512)%nat).
  { rewrite slotwise_length. apply maxlen_le. intros f0 Hf. apply in_map_iff in Hf as (x & <- & Hx). auto. }
  destruct g as [|a [|b r]].
  - destruct Fin.
  - intros E; inversion E; subst; exact He.
  - destruct ltp.
    + destruct (newer_exists _ _); [discriminate|]. intros E; inversion E; subst; exact He.
    + intros E; inversion E; subst; exact Hs.
Qed.

Lemma apply_update_inv w o chg now w1 :
  apply_update w o = Some (chg, now, w1) -> inv w -> inv w1.
Proof.
  intros H ((Hi & Ho & Hc & Hk) & (Hp & Hs) & Hb).
  destruct o; cbn [apply_update] in H; try discriminate.
  - destruct (mem i (u_inputs (w_u w))); [|discriminate]. inversion H; subst. clear H.
    split; [repeat split; assumption|]. split; [|exact Hb]. split; [|exact Hs].
    intros j. cbn [with_port w_ports]. unfold upd. destruct (j =? i); [|apply Hp].
    cbn [set_psrc p_src s_data]. apply dmx_set_len.
  - destruct (mem i (u_inputs (w_u w))); [|discriminate]. inversion H; subst.
    repeat split; assumption.
  - inversion H; subst. clear H. split.
    + cbn [w_u set_clients]. repeat split; cbn; try assumption. rewrite map_put_keys. apply ord_add_sorted. exact Hc.
    + split; [|exact Hb]. split; [exact Hp|]. intros j. cbn [w_csrc]. unfold upd.
      destruct (j =? c); [|apply Hs]. cbn [s_data]. apply dmx_set_len.
  - inversion H; subst. clear H. split.
    + cbn [with_u w_u set_clients]. repeat split; cbn; try assumption. rewrite map_put_keys. apply ord_add_sorted. exact Hc.
    + split; [|exact Hb]. split; assumption.
Qed.

Lemma admin_step_inv w o : inv w -> inv (admin_step w o).
Proof.
  intros ((Hi & Ho & Hc & Hk) & (Hp & Hs) & Hb).
  assert (Hport : forall i q, (length (s_data (p_src q)) <= 512)%nat -> inv (with_port w i q)).
  { intros i q Hq. split; [repeat split; assumption|]. split; [|exact Hb]. split; [|exact Hs].
    intros j. cbn [with_port w_ports]. unfold upd. destruct (j =? i); [exact Hq|apply Hp]. }
  destruct o; cbn [admin_step]; try (repeat split; assumption);
    try (apply Hport; cbn [p_src]; apply Hp);
    try (destruct (SOURCE_PRIORITY_MAX <? _); [repeat split; assumption|]; apply Hport; cbn [p_src]; apply Hp);
    (split; [|split; [split; assumption|exact Hb]]); repeat split; cbn; try assumption;
    rewrite ?map_put_keys, ?map_remove_keys;
    first [apply vec_add_nodup|apply vec_remove_nodup|apply ord_add_sorted|apply ord_remove_sorted
          |apply clean_stale_sorted]; assumption.
Qed.

Lemma step_none w o :
  apply_update w o = None ->
  (exists d, o = SetDMX d /\ step w o = set_dmx w d) \/ step w o = (admin_step w o, []).
Proof. intros A. unfold step. rewrite A. destruct o; auto. left. eauto. Qed.
Lemma set_dmx_inv w d : inv w -> inv (fst (set_dmx w d)).
Proof.
  intros (Hc & Hf & Hb). unfold set_dmx. destruct (len (dmx_set d) =? 0); cbn [fst]; [exact (conj Hc (conj Hf Hb))|].
  split; [exact Hc|]. split; [exact Hf|]. cbn. apply dmx_set_len.
Qed.

Lemma step_inv w o : inv w -> inv (fst (step w o)).
Proof.
  intros Hw. destruct (apply_update w o) as [[[chg now] w1]|] eqn:A.
  - pose proof (apply_update_inv _ _ _ _ _ A Hw) as ((Hi & Ho & Hc & Hk) & Hf & Hb).
    destruct (step_spec _ _ _ _ _ A) as (Eb & _ & _ & El & Ei & Ec & Eo & Es & Ep & Er).
    destruct (apply_update_frame _ _ _ _ _ A) as (_ & Eb1 & _).
    split; [|split].
    + unfold containers_ok. rewrite Ei, Ec, Eo, Es. repeat split; assumption.
    + unfold frames_ok. rewrite Ep, Er. exact Hf.
    + rewrite Eb. destruct (expected (u_ltp (w_u w)) chg (group now (sources w1))) as [f|] eqn:E; cbn [result].
      * eapply expected_len; [|exact E]. intros e He. apply (sources_frames_ok _ Hf).
        eapply group_incl. exact He.
      * rewrite <- Eb1. exact Hb.
  - destruct (step_none _ _ A) as [(d & -> & E)|E]; rewrite E; [apply set_dmx_inv; exact Hw|].
    cbn [fst]. apply admin_step_inv. exact Hw.
Qed.

Lemma inv_init : inv init_world.
Proof.
  split; [|split].
  - repeat split; cbn; constructor.
  - split; intros; cbn; lia.
  - cbn. lia.
Qed.

Lemma run_inv ops : inv (run ops).
Proof.
  unfold run. generalize inv_init. generalize init_world.
  induction ops as [|o ops IH]; intros w Hw; cbn [fold_left]; [exact Hw|].
  apply IH. apply step_inv. exact Hw.
Qed.

(* ---- priorities stay within 0..200 when the priorities supplied do ---- *)
Definition pinv (w : world) : Prop :=
  (forall i, p_static (w_ports w i) <= 200) /\ (forall i, p_inherited (w_ports w i) <= 200) /\
  (forall i, s_prio (p_src (w_ports w i)) <= 200) /\ (forall c, s_prio (w_csrc w c) <= 200) /\
  u_prio (w_u w) <= 200.
Definition op_prio_ok (o : op) : Prop :=
  match o with ClientData _ _ p _ _ => p <= 200 | SetInherited _ p => p <= 200 | _ => True end.
Definition event_prio (e : event) : N := match e with WriteDMX _ _ p => p | SendDMX _ _ p => p end.

Lemma sources_prio_ok w : pinv w -> forall e, In e (sources w) -> s_prio (snd e) <= 200.
Proof.
  intros (_ & _ & Hp & Hc & _) e H. unfold sources, port_sources, client_sources in H.
  apply in_app_or in H as [H|H]; apply in_map_iff in H as (j & <- & _); cbn [snd]; auto.
Qed.
Lemma gprio_ok now w : pinv w -> gprio (group now (sources w)) <= 200.
Proof.
  intros H. destruct (group now (sources w)) as [|e g] eqn:G; cbn [gprio]; [lia|].
  apply (sources_prio_ok _ H). eapply group_incl. rewrite G. now left.
Qed.
Lemma port_priority_ok w i : pinv w -> port_priority (w_ports w i) <= 200.
Proof.
  intros (Hs & Hi & _). unfold port_priority. destruct (p_caps _ && p_inherit _); auto.
Qed.
Lemma apply_update_pinv w o chg now w1 :
  apply_update w o = Some (chg, now, w1) -> op_prio_ok o -> pinv w -> pinv w1.
Proof.
  intros H Hop Hw. pose proof Hw as (Hs & Hi & Hp & Hc & Hu).
  destruct o; cbn [apply_update] in H; try discriminate.
  - destruct (mem i (u_inputs (w_u w))); [|discriminate]. inversion H; subst. clear H.
    pose proof (port_priority_ok w i Hw) as Hpp.
    unfold pinv. cbn [with_port w_ports w_csrc w_u]. unfold upd.
    repeat split; try assumption; intros j; destruct (j =? i); cbn [set_psrc p_static p_inherited p_src s_prio]; auto.
  - destruct (mem i (u_inputs (w_u w))); [|discriminate]. inversion H; subst. exact Hw.
  - inversion H; subst. clear H. cbn [op_prio_ok] in Hop.
    unfold pinv. cbn [w_ports w_csrc w_u set_clients u_prio]. unfold upd.
    repeat split; try assumption. intros j; destruct (j =? c); cbn [s_prio]; auto.
  - inversion H; subst. exact Hw.
Qed.
Lemma admin_step_pinv w o : op_prio_ok o -> pinv w -> pinv (admin_step w o).
Proof.
  intros Hop Hw. pose proof Hw as (Hs & Hi & Hp & Hc & Hu).
  destruct o; cbn [admin_step]; try exact Hw; cbn [op_prio_ok] in Hop.
  - destruct (SOURCE_PRIORITY_MAX <? p) eqn:C; [exact Hw|].
    apply N.ltb_ge in C. change SOURCE_PRIORITY_MAX with 200 in C.
    unfold pinv. cbn [with_port w_ports w_csrc w_u]. unfold upd.
    repeat split; try assumption; intros j; destruct (j =? i); cbn [p_static p_inherited p_src]; auto.
  - unfold pinv. cbn [with_port w_ports w_csrc w_u]. unfold upd.
    repeat split; try assumption; intros j; destruct (j =? i); cbn [p_static p_inherited p_src]; auto.
  - unfold pinv. cbn [with_port w_ports w_csrc w_u]. unfold upd.
    repeat split; try assumption; intros j; destruct (j =? i); cbn [p_static p_inherited p_src]; auto.
  - unfold pinv. cbn [with_port w_ports w_csrc w_u]. unfold upd.
    repeat split; try assumption; intros j; destruct (j =? i); cbn [p_static p_inherited p_src]; auto.
  - (* MgrStatic: the value is clamped to 200 *)
    unfold pinv. cbn [with_port w_ports w_csrc w_u]. unfold upd.
    repeat split; try assumption; intros j; destruct (j =? i); cbn [p_static p_inherited p_src]; auto.
    change SOURCE_PRIORITY_MAX with 200.
    destruct (p_static (w_ports w i) =? (if 200 <? v then 200 else v)); [apply Hs|].
    destruct (200 <? v) eqn:C; [lia|apply N.ltb_ge in C; exact C].
  - unfold pinv. cbn [with_port w_ports w_csrc w_u]. unfold upd.
    repeat split; try assumption; intros j; destruct (j =? i); cbn [p_static p_inherited p_src]; auto.
Qed.
Lemma step_pinv w o :
  op_prio_ok o -> pinv w ->
  pinv (fst (step w o)) /\ Forall (fun e => event_prio e <= 200) (snd (step w o)).
Proof.
  intros Hop Hw. destruct (apply_update w o) as [[[chg now] w1]|] eqn:A.
  - pose proof (apply_update_pinv _ _ _ _ _ A Hop Hw) as Hw1.
    pose proof (gprio_ok now w1 Hw1) as Hg.
    destruct (step_spec _ _ _ _ _ A) as (_ & Ee & Eu & _ & _ & _ & _ & _ & Ep & Er).
    split.
    + destruct Hw1 as (Hs & Hi & Hp & Hc & _). unfold pinv. rewrite Ep, Er, Eu. repeat split; assumption.
    + rewrite Ee. destruct (expected _ _ _); [|constructor].
      unfold hand_out. apply Forall_app. split; apply Forall_forall; intros e He;
        apply in_map_iff in He as (j & <- & _); exact Hg.
  - destruct (step_none _ _ A) as [(d & -> & E)|E]; rewrite E.
    + pose proof Hw as (Hs & Hi & Hp & Hc & Hu). unfold set_dmx.
      destruct (len (dmx_set d) =? 0); cbn [fst snd]; [split; [exact Hw|constructor]|].
      split; [unfold pinv; cbn; repeat split; assumption|].
      unfold fanout. cbn [set_merge u_buf u_prio u_outs u_sinks].
      apply Forall_app. split; apply Forall_forall; intros e He;
        apply in_map_iff in He as (j & <- & _); exact Hu.
    + cbn [fst snd]. split; [apply admin_step_pinv; assumption|constructor].
Qed.
Lemma pinv_init : pinv init_world.
Proof. unfold pinv. cbn. unfold SOURCE_PRIORITY_DEFAULT, SOURCE_PRIORITY_MIN. repeat split; intros; lia. Qed.
Lemma run_pinv ops : Forall op_prio_ok ops -> pinv (run ops).
Proof.
  unfold run. generalize pinv_init. generalize init_world.
  induction ops as [|o ops IH]; intros w Hw Hops; cbn [fold_left]; [exact Hw|].
  inversion Hops; subst. apply IH; [|assumption]. apply step_pinv; assumption.
Qed.
Lemma prio_range_lemma ops o :
  Forall op_prio_ok ops -> op_prio_ok o ->
  u_prio (w_u (run ops)) <= 200 /\ Forall (fun e => event_prio e <= 200) (snd (step (run ops) o)).
Proof.
  intros Hops Ho. pose proof (run_pinv ops Hops) as Hw. split.
  - apply Hw.
  - apply step_pinv; assumption.
Qed.
