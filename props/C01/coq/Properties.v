(* C01 — Universe output is the priority-filtered HTP/LTP merge of its live sources.
   Only theorem statements here (proofs: Proofs.v, Reach.v).

   Reading guide.  [w] is a world: the universe (mode, frame held, port/client containers) and the
   objects it points to (each input port's and each client's last DmxSource).  [step w o] performs one
   call [o] and returns the new world and the WriteDMX/SendDMX calls made.  For the four update calls
   (BasicInputPort::DmxChanged, Universe::PortDataChanged, Client::DMXReceived +
   Universe::SourceClientDataChanged, SourceClientDataChanged alone) [apply_update w o =
   Some (chg, now, w1)] gives the updating source [chg], the clock reading [now] and the world [w1] in
   which the new frame has been stored but no merge has happened yet; [sources w1] are the universe's
   candidate sources at that moment and [group now (sources w1)] its live highest-priority group.
   All theorems hold for EVERY world [w] (reachable or not), every call, every merge mode. *)
From OlaBase Require Import Bytes.
From Coq Require Import Sorting.Sorted Sorting.Permutation.
From C01 Require Import Gen Time Model Spec Proofs Reach History.
Local Open Scope N_scope.

(* Constants of the property (2.5 s, priorities 0/100/200, 512 slots) are the repository's, and the
   model's liveness test is the specification's with the literal 2.5 s. *)
Theorem c01_consts :
  (TIMEOUT_US, SOURCE_PRIORITY_MIN, SOURCE_PRIORITY_DEFAULT, SOURCE_PRIORITY_MAX, DMX_UNIVERSE_SIZE)
  = (2500000, 0, 100, 200, 512) /\
  (forall now s, live now s = liveb now s) /\
  (forall now s, liveb now s = true <-> s_ts s <> 0 /\ now < s_ts s + 2500000 /\ s_data s <> []).
Proof. split; [reflexivity|]. split; [exact live_liveb|exact liveb_is_live]. Qed.
Print Assumptions c01_consts.

(* What [group] is: the sources that are live and whose priority no live source exceeds. *)
Theorem c01_group_spec : forall now (l : srcs) e,
  In e (group now l) <->
  In e l /\ is_live now (snd e) /\
  forall e', In e' l -> is_live now (snd e') -> s_prio (snd e') <= s_prio (snd e).
Proof. exact group_spec. Qed.
Print Assumptions c01_group_spec.

(* What [slotwise_max] is: as long as the longest frame; every slot is an upper bound of that slot
   over the frames (absent slots count 0) and is attained by one of them. *)
Theorem c01_slotwise_max_spec : forall fs : list (list N),
  (forall f, In f fs -> (length f <= length (slotwise_max fs))%nat) /\
  (fs <> [] -> exists f, In f fs /\ length f = length (slotwise_max fs)) /\
  (fs = [] -> slotwise_max fs = []) /\
  forall i,
    (forall f, In f fs -> nth i f 0 <= nth i (slotwise_max fs) 0) /\
    (fs <> [] -> exists f, In f fs /\ nth i f 0 = nth i (slotwise_max fs) 0).
Proof. exact slotwise_spec. Qed.
Print Assumptions c01_slotwise_max_spec.

(* Master statement: after any update call the frame held and the calls made are exactly what
   [Spec.expected] (the property text as a function of mode, updating source and group) prescribes;
   the merge touches nothing but the frame and the active priority, which becomes the group's. *)
Theorem c01_merge : forall w o chg now w1,
  apply_update w o = Some (chg, now, w1) ->
  let g := group now (sources w1) in
  let ex := expected (u_ltp (w_u w)) chg g in
  let w2 := fst (step w o) in
  u_buf (w_u w2) = match ex with Some f => f | None => u_buf (w_u w) end /\
  snd (step w o) = match ex with
                   | Some f => hand_out (u_outs (w_u w)) (u_sinks (w_u w)) f (gprio g)
                   | None => []
                   end /\
  u_prio (w_u w2) = gprio g /\
  u_ltp (w_u w2) = u_ltp (w_u w1) /\ u_inputs (w_u w2) = u_inputs (w_u w1) /\
  u_clients (w_u w2) = u_clients (w_u w1) /\ u_outs (w_u w2) = u_outs (w_u w1) /\
  u_sinks (w_u w2) = u_sinks (w_u w1) /\ w_ports w2 = w_ports w1 /\ w_csrc w2 = w_csrc w1.
Proof. exact step_spec. Qed.
Print Assumptions c01_merge.

(* HTP: a member of a group of two or more updates => the frame is the slot-wise maximum of the
   group's frames, handed out with the group's priority. *)
Theorem c01_htp : forall w o chg now w1,
  apply_update w o = Some (chg, now, w1) ->
  u_ltp (w_u w) = false ->
  (2 <= length (group now (sources w1)))%nat ->
  member chg (group now (sources w1)) = true ->
  let frame := slotwise_max (map (fun e => s_data (snd e)) (group now (sources w1))) in
  u_buf (w_u (fst (step w o))) = frame /\
  snd (step w o) = hand_out (u_outs (w_u w)) (u_sinks (w_u w)) frame (gprio (group now (sources w1))).
Proof. exact htp_lemma. Qed.
Print Assumptions c01_htp.

(* LTP: a member [s] of a group of two or more updates => if another member is strictly newer nothing
   changes and nothing is sent, otherwise the frame is the updating source's, handed out with its
   (= the group's) priority.  Equal time stamps count as "not newer". *)
Theorem c01_ltp : forall w o chg now w1 s,
  apply_update w o = Some (chg, now, w1) ->
  u_ltp (w_u w) = true ->
  (2 <= length (group now (sources w1)))%nat ->
  In (chg, s) (group now (sources w1)) ->
  (newer_exists (s_ts s) (group now (sources w1)) = true ->
   u_buf (w_u (fst (step w o))) = u_buf (w_u w) /\ snd (step w o) = []) /\
  (newer_exists (s_ts s) (group now (sources w1)) = false ->
   u_buf (w_u (fst (step w o))) = s_data s /\
   snd (step w o) = hand_out (u_outs (w_u w)) (u_sinks (w_u w)) (s_data s) (s_prio s)).
Proof. exact ltp_lemma. Qed.
Print Assumptions c01_ltp.

(* Sole member: its frame verbatim, in either mode. *)
Theorem c01_single : forall w o chg now w1 s,
  apply_update w o = Some (chg, now, w1) ->
  group now (sources w1) = [(chg, s)] ->
  u_buf (w_u (fst (step w o))) = s_data s /\
  snd (step w o) = hand_out (u_outs (w_u w)) (u_sinks (w_u w)) (s_data s) (s_prio s).
Proof. exact single_lemma. Qed.
Print Assumptions c01_single.

(* Fan-out: when (and only when) the update changes the frame per the specification, the calls are
   exactly one WriteDMX per patched output port (vector order) followed by one SendDMX per sink
   client, each with the frame now held and the group's priority; otherwise no call is made and the
   frame is the old one. *)
Theorem c01_fanout : forall w o chg now w1,
  apply_update w o = Some (chg, now, w1) ->
  let g := group now (sources w1) in
  let changed := is_some (expected (u_ltp (w_u w)) chg g) in
  snd (step w o) =
    (if changed
     then map (fun p => WriteDMX p (u_buf (w_u (fst (step w o)))) (gprio g)) (u_outs (w_u w)) ++
          map (fun c => SendDMX c (u_buf (w_u (fst (step w o)))) (gprio g)) (u_sinks (w_u w))
     else []) /\
  (changed = false -> u_buf (w_u (fst (step w o))) = u_buf (w_u w)).
Proof. exact fanout_lemma. Qed.
Print Assumptions c01_fanout.

(* An update from a source outside the live highest-priority group (lower priority, timed out, empty
   or never set; also when there is no live source at all) changes nothing and sends nothing. *)
Theorem c01_outside : forall w o chg now w1,
  apply_update w o = Some (chg, now, w1) ->
  member chg (group now (sources w1)) = false ->
  u_buf (w_u (fst (step w o))) = u_buf (w_u w) /\ snd (step w o) = [].
Proof. exact outside_lemma. Qed.
Print Assumptions c01_outside.

(* Every call that is not an update of a patched source and not SetDMX (patching, mode, priorities,
   housekeeping, data arriving on an unpatched port, a dependant changing what its WriteDMX/SendDMX
   returns) leaves the frame alone and sends nothing. *)
Theorem c01_admin : forall w o,
  apply_update w o = None -> (forall d, o <> SetDMX d) ->
  snd (step w o) = [] /\ u_buf (w_u (fst (step w o))) = u_buf (w_u w).
Proof. exact admin_lemma. Qed.
Print Assumptions c01_admin.

(* Universe::SetDMX (an explicit override, outside the merge): a non-empty frame is stored as is
   (first 512 slots) and handed to every output port and sink with the active priority the last
   merge left; an empty frame is ignored. *)
Theorem c01_setdmx : forall w d,
  (dmx_set d = [] -> step w (SetDMX d) = (w, [])) /\
  (dmx_set d <> [] ->
   u_buf (w_u (fst (step w (SetDMX d)))) = dmx_set d /\
   snd (step w (SetDMX d)) =
     hand_out (u_outs (w_u w)) (u_sinks (w_u w)) (dmx_set d) (u_prio (w_u w))).
Proof. exact setdmx_lemma. Qed.
Print Assumptions c01_setdmx.

(* Housekeeping contract (Universe::CleanStaleSourceClients, run periodically by the daemon): once data
   of client [c] has arrived (either client update call), [c] remains a candidate source of the
   universe - so c01_merge/c01_htp/c01_ltp count it in the group whenever it is live and of top
   priority - through any later calls [before] without a housekeeping run, and still after ONE
   housekeeping run followed by any calls [after] without another one, provided nobody removes it
   explicitly.  (A second run without data in between evicts it: Example ex_housekeeping.)  Hence a
   client that keeps sending between consecutive housekeeping runs is never dropped. *)
Theorem c01_housekeeping : forall w o c now w1 before after,
  apply_update w o = Some (Client c, now, w1) ->
  Forall (fun o => ~ (o = CleanStale \/ o = RemoveSource c)) before ->
  Forall (fun o => ~ (o = CleanStale \/ o = RemoveSource c)) after ->
  let w_a := fold_left (fun w o => fst (step w o)) before (fst (step w o)) in
  let w_b := fold_left (fun w o => fst (step w o)) (before ++ CleanStale :: after) (fst (step w o)) in
  In (Client c, w_csrc w_a c) (sources w_a) /\ In (Client c, w_csrc w_b c) (sources w_b).
Proof. exact housekeeping_lemma. Qed.
Print Assumptions c01_housekeeping.

(* "Never merged in": two worlds that agree on mode, frame held, output ports and sinks and whose
   live highest-priority groups coincide produce the same frame and the same calls, whatever their
   lower-priority, timed-out, empty or never-set sources contain. *)
Theorem c01_noninterference : forall wa oa wa1 wb ob wb1 chg now,
  apply_update wa oa = Some (chg, now, wa1) ->
  apply_update wb ob = Some (chg, now, wb1) ->
  u_ltp (w_u wa) = u_ltp (w_u wb) -> u_buf (w_u wa) = u_buf (w_u wb) ->
  u_outs (w_u wa) = u_outs (w_u wb) -> u_sinks (w_u wa) = u_sinks (w_u wb) ->
  group now (sources wa1) = group now (sources wb1) ->
  u_buf (w_u (fst (step wa oa))) = u_buf (w_u (fst (step wb ob))) /\
  snd (step wa oa) = snd (step wb ob).
Proof. exact noninterference_lemma. Qed.
Print Assumptions c01_noninterference.

(* Every world reachable from the initial one by any sequence of calls: no port is listed twice, the
   client containers are strictly ascending in their keys (so a group never counts a source twice), and every
   frame held by a port, a client or the universe has at most 512 slots. *)
Theorem c01_reachable : forall ops,
  let w := run ops in
  NoDup (u_inputs (w_u w)) /\ NoDup (u_outs (w_u w)) /\
  StronglySorted N.lt (map fst (u_clients (w_u w))) /\ StronglySorted N.lt (u_sinks (w_u w)) /\
  (forall i, (length (s_data (p_src (w_ports w i))) <= 512)%nat) /\
  (forall c, (length (s_data (w_csrc w c)) <= 512)%nat) /\
  (length (u_buf (w_u w)) <= 512)%nat.
Proof.
  intros ops. destruct (run_inv ops) as ((H1 & H2 & H3 & H4) & (H5 & H6) & H7).
  cbv zeta. repeat split; assumption.
Qed.
Print Assumptions c01_reachable.

(* Priorities: if every priority supplied by a client and every inherited priority supplied by a
   plugin is at most 200 (BasicInputPort::SetPriority rejects larger static ones itself), then after any
   history the active priority and the priority of every WriteDMX/SendDMX call are at most 200. *)
Theorem c01_prio_range : forall ops o,
  Forall (fun o => match o with
                   | ClientData _ _ p _ _ => p <= 200 | SetInherited _ p => p <= 200 | _ => True
                   end) ops ->
  match o with ClientData _ _ p _ _ => p <= 200 | SetInherited _ p => p <= 200 | _ => True end ->
  u_prio (w_u (run ops)) <= 200 /\
  Forall (fun e => match e with WriteDMX _ _ p => p | SendDMX _ _ p => p end <= 200)
         (snd (step (run ops) o)).
Proof. exact prio_range_lemma. Qed.
Print Assumptions c01_prio_range.

(* ---- history level ----
   [happening_of w o] abstracts a call in world [w] into what it means for the universe (an update of
   a source with the candidate sources of that moment, a SetDMX override, or something else);
   [happenings init_world ops] is the abstract history of a call sequence, [Spec.spec_frame] the frame
   the property text prescribes for an abstract history (fold of "the change replaces the frame,
   anything else keeps it" from the empty frame), [Spec.calls_of] the calls it prescribes per step. *)

(* For EVERY sequence of calls from the initial universe (source updates, clock readings across the
   liveness boundary, patching and unpatching of ports and clients, priority and mode changes,
   housekeeping, overrides) the frame held at the end is the specification's frame for that history,
   and the calls made by each single step are exactly the specification's, nothing more or less. *)
Theorem c01_history : forall ops,
  u_buf (w_u (run ops)) = spec_frame (happenings init_world ops) /\
  trace init_world ops = map calls_of (happenings init_world ops).
Proof. exact history_lemma. Qed.
Print Assumptions c01_history.

(* ... and the specification's frame for a history is the frame of its LAST change (the merge of the
   live highest-priority group at the last qualifying update, or the last override), or empty if the
   history has no change at all. *)
Theorem c01_last_change : forall hs : list happening,
  ((forall h, In h hs -> change_of h = None) /\ spec_frame hs = []) \/
  (exists pre h post f p outs sinks,
     hs = pre ++ h :: post /\ change_of h = Some (f, p, outs, sinks) /\
     (forall h', In h' post -> change_of h' = None) /\ spec_frame hs = f).
Proof. exact last_change_lemma. Qed.
Print Assumptions c01_last_change.

(* Delivery exactly once: in every reachable world, a call that changes the frame (to [f], handed out
   with priority [p]) makes exactly ONE WriteDMX call to each patched output port and exactly ONE
   SendDMX call to each registered sink client, each carrying [f] and [p], and no call to anybody
   else; [f] is the frame then held. *)
Theorem c01_delivery_once : forall ops o f p outs sinks,
  change_of (happening_of (run ops) o) = Some (f, p, outs, sinks) ->
  let evs := snd (step (run ops) o) in
  outs = u_outs (w_u (run ops)) /\ sinks = u_sinks (w_u (run ops)) /\
  u_buf (w_u (fst (step (run ops) o))) = f /\
  (forall q, In q outs -> filter (to_port q) evs = [WriteDMX q f p]) /\
  (forall q, ~ In q outs -> filter (to_port q) evs = []) /\
  (forall c, In c sinks -> filter (to_client c) evs = [SendDMX c f p]) /\
  (forall c, ~ In c sinks -> filter (to_client c) evs = []).
Proof. exact delivery_lemma. Qed.
Print Assumptions c01_delivery_once.

(* Where candidate frames come from.  One call changes an input port's frame only if it is data
   arriving on that port while it is patched (then it is that data, first 512 slots, stamped with the
   wake-up time and the port's current priority), and a client's frame only if it is data from that
   client for this universe; every other call (including data for another universe, patching,
   priority changes, merges, housekeeping) leaves all stored frames as they are. *)
Theorem c01_source_frames : forall w o,
  (forall i, p_src (w_ports (fst (step w o)) i) =
     match o with
     | PortData j d ts _ =>
       if (i =? j) && mem j (u_inputs (w_u w))
       then {| s_data := dmx_set d; s_ts := ts; s_prio := port_priority (w_ports w j) |}
       else p_src (w_ports w i)
     | _ => p_src (w_ports w i)
     end) /\
  (forall c, w_csrc (fst (step w o)) c =
     match o with
     | ClientData j d p ts _ =>
       if c =? j then {| s_data := dmx_set d; s_ts := ts; s_prio := p |} else w_csrc w c
     | _ => w_csrc w c
     end).
Proof. exact step_sources. Qed.
Print Assumptions c01_source_frames.

(* History level: after any sequence of calls a client's candidate frame is the last frame it sent to
   this universe (data, stamp and priority as sent), or the never-set source if it sent none. *)
Theorem c01_client_frames : forall ops c,
  w_csrc (run ops) c =
  fold_left (fun s o => match o with
                        | ClientData j d p ts _ =>
                          if c =? j then {| s_data := dmx_set d; s_ts := ts; s_prio := p |} else s
                        | _ => s
                        end) ops unset_source.
Proof. exact client_frames_lemma. Qed.
Print Assumptions c01_client_frames.

(* The sink side below the universe (real Client::SendDMX / SendDMXCallback, several universes per
   client): the arrival - or not - of UpdateDmxData acks changes nothing, so what a later change hands
   to a sink can not depend on earlier frames being un-acked (c01_fanout holds in every world); and two
   universes sharing their clients do not see each other: a call on one leaves the other world as it
   is and makes exactly the calls the single-universe step makes. *)
Theorem c01_sinks_stateless : forall w1 w2 o c n,
  step w1 (AckClient c n) = (w1, []) /\
  step2 (w1, w2) (On1 o) = ((fst (step w1 o), w2), snd (step w1 o)) /\
  step2 (w1, w2) (On2 o) = ((w1, fst (step w2 o)), snd (step w2 o)).
Proof.
  intros w1 w2 o c n. split; [reflexivity|]. unfold step2. cbn [fst snd].
  destruct (step w1 o), (step w2 o). split; reflexivity.
Qed.
Print Assumptions c01_sinks_stateless.

(* Priority administration through the daemon's PortManager.  SetPriorityStatic(port, v) makes the port's
   effective priority min(v, 200) in EVERY case - whatever mode (inherit or static), capability and
   stored value it had before, in particular when v equals the value already stored while the port was
   in inherit mode - and the next frame arriving on the patched port is stamped with it (so that is the
   priority it is grouped and fanned out with); SetPriorityInherit(port) makes it the inherited priority
   iff the port has the full capability; no other port is touched.  Neither call sends anything or
   changes the frame (c01_admin). *)
Theorem c01_priority_admin : forall w i v,
  let ws := fst (step w (MgrStatic i v)) in
  let wi := fst (step w (MgrInherit i)) in
  port_priority (w_ports ws i) = N.min v 200 /\
  port_priority (w_ports wi i) =
    (if p_caps (w_ports w i) then p_inherited (w_ports w i) else p_static (w_ports w i)) /\
  (forall j, j <> i -> w_ports ws j = w_ports w j /\ w_ports wi j = w_ports w j) /\
  (forall d ts now, mem i (u_inputs (w_u w)) = true ->
     s_prio (p_src (w_ports (fst (step ws (PortData i d ts now))) i)) = N.min v 200).
Proof. exact priority_admin_lemma. Qed.
Print Assumptions c01_priority_admin.

(* The empty frame (there is one empty frame, however the C++ buffer object came to be empty:
   initialised with length 0, never initialised, or Reset()): when a patched port or a client delivers
   it, the stored frame of that source IS empty and carries the new stamp, and the source is in no group
   at any clock reading - its previous frame can not stay in the merge. *)
Theorem c01_empty_frame : forall w i c prio ts now,
  (mem i (u_inputs (w_u w)) = true ->
   let s := p_src (w_ports (fst (step w (PortData i [] ts now))) i) in
   s_data s = [] /\ s_ts s = ts /\ forall now' l, ~ In (Port i, s) (group now' l)) /\
  (let s := w_csrc (fst (step w (ClientData c [] prio ts now))) c in
   s_data s = [] /\ s_ts s = ts /\ forall now' l, ~ In (Client c, s) (group now' l)).
Proof. exact empty_frame_lemma. Qed.
Print Assumptions c01_empty_frame.

(* No wrap-around of liveness, at any magnitude of time (time values are unbounded naturals here; there
   is no 2^31 / 2^32 us, ms or s beyond which an old frame comes back): a stored frame that is not live
   at some clock reading is not live at any later reading either, and is in no later group - a source
   stays out of the merge from its time-out until it sends again, however long it is silent. *)
Theorem c01_timeout_forever : forall now now' (l : srcs) e,
  now <= now' -> liveb now (snd e) = false ->
  liveb now' (snd e) = false /\ ~ In e (group now' l).
Proof.
  intros now now' l e Hle Hd. split; [exact (timeout_monotone _ _ _ Hle Hd)|exact (dead_not_in_group _ _ l e Hle Hd)].
Qed.
Print Assumptions c01_timeout_forever.

(* History level, ports: after any sequence of calls, "is input port i patched" and everything the port
   object holds - in particular its candidate frame - are given by folding History.port_view_step over
   the history from (unpatched, fresh port): the candidate frame is the last data that arrived on the
   port WHILE IT WAS PATCHED (first 512 slots), stamped with that wake-up time and with the priority the
   port had at that moment (static value, or the inherited one when it was in inherit mode with full
   capability - as left by the SetPriority/PortManager calls before it); data arriving while unpatched,
   and every other call, leave it alone; it is the never-set source if no such data arrived. *)
Theorem c01_port_frames : forall ops i,
  (mem i (u_inputs (w_u (run ops))), w_ports (run ops) i) =
  fold_left (port_view_step i) ops (false, new_port).
Proof. exact port_frames_lemma. Qed.
Print Assumptions c01_port_frames.

(* Order freedom of the HTP merge: the slot-wise maximum depends only on the multiset of the group's
   frames, so the frame of c01_htp is the same for every order in which ports and clients are listed
   (patch order, client addresses). *)
Theorem c01_htp_order_free : forall fs fs' : list (list N),
  Permutation fs fs' -> slotwise_max fs = slotwise_max fs'.
Proof. exact slotwise_perm. Qed.
Print Assumptions c01_htp_order_free.

(* struct timeval arithmetic of common/utils/Clock.cpp (TimerAdd with carry, timercmp, timerisset,
   Set(int64)) on normalised non-negative values is the microsecond arithmetic of the model:
   IsSet <-> us <> 0, IsActive(now) <-> us(now) < us(ts) + 2 500 000; constants regenerated. *)
Theorem c01_timeval : forall now ts : timeval,
  (USEC_IN_SECONDS, TIMEOUT_SEC, TIMEOUT_USEC) = (1000000, 2, 500000) /\
  (tv_norm now = true -> tv_norm ts = true ->
   tv_isset ts = negb (tv_us ts =? 0) /\
   tv_active now ts = (tv_us now <? tv_us ts + TIMEOUT_US) /\
   tv_norm (tv_add ts (TIMEOUT_SEC, TIMEOUT_USEC)) = true /\
   tv_set (tv_us ts) = ts /\
   tv_set TIMEOUT_US = (TIMEOUT_SEC, TIMEOUT_USEC)).
Proof. intros now ts. split; [reflexivity|exact (timeval_lemma now ts)]. Qed.
Print Assumptions c01_timeval.

(* ---- the hypotheses are satisfiable (non-vacuity), on concrete histories ---- *)
Definition ex_setup : list op :=
  [AddInput 0; AddInput 1; AddOutput 5; AddSink 2; SetMode false;
   PortData 0 [1; 200] 10 10; PortData 1 [9] 20 20].

(* three-member HTP group (two ports at the default priority 100, one client at 100), frames of
   lengths 2, 1 and 3 *)
Example ex_htp3 :
  match apply_update (run ex_setup) (ClientData 3 [0; 0; 7] 100 30 30) with
  | Some (chg, now, w1) =>
    u_ltp (w_u (run ex_setup)) = false /\ length (group now (sources w1)) = 3%nat /\
    member chg (group now (sources w1)) = true /\
    u_buf (w_u (fst (step (run ex_setup) (ClientData 3 [0; 0; 7] 100 30 30)))) = [9; 200; 7] /\
    snd (step (run ex_setup) (ClientData 3 [0; 0; 7] 100 30 30)) =
      [WriteDMX 5 [9; 200; 7] 100; SendDMX 2 [9; 200; 7] 100]
  | None => False
  end.
Proof. vm_compute. repeat split; reflexivity. Qed.

(* LTP, two members with EQUAL time stamps: the updating one is not older, it wins *)
Example ex_ltp_equal :
  let w := run [AddInput 0; AddInput 1; AddOutput 5; PortData 0 [1; 2] 10 10] in
  let o := PortData 1 [3] 10 10 in
  match apply_update w o with
  | Some (chg, now, w1) =>
    u_ltp (w_u w) = true /\ length (group now (sources w1)) = 2%nat /\
    In (chg, {| s_data := [3]; s_ts := 10; s_prio := 100 |}) (group now (sources w1)) /\
    newer_exists 10 (group now (sources w1)) = false /\
    u_buf (w_u (fst (step w o))) = [3] /\ snd (step w o) = [WriteDMX 5 [3] 100]
  | None => False
  end.
Proof. vm_compute. repeat split; try reflexivity. right. left. reflexivity. Qed.

(* LTP, the updating member carries an older stamp than another member: nothing changes *)
Example ex_ltp_older :
  let w := run [AddInput 0; AddInput 1; AddOutput 5; PortData 0 [1; 2] 10 10] in
  let o := PortData 1 [3] 9 10 in
  match apply_update w o with
  | Some (chg, now, w1) =>
    length (group now (sources w1)) = 2%nat /\ member chg (group now (sources w1)) = true /\
    newer_exists 9 (group now (sources w1)) = true /\
    u_buf (w_u (fst (step w o))) = [1; 2] /\ snd (step w o) = []
  | None => False
  end.
Proof. vm_compute. repeat split; reflexivity. Qed.

(* the 2.5 s boundary: live at ts + 2 499 999, not live at ts + 2 500 000; a higher-priority source
   that has just timed out no longer shields a lower-priority one *)
Example ex_boundary :
  let s := {| s_data := [1]; s_ts := 1000; s_prio := 100 |} in
  liveb 2500999 s = true /\ liveb 2501000 s = false /\
  let w := run [AddInput 0; AddOutput 5; ClientData 4 [8; 8] 200 1000 1000] in
  u_buf (w_u w) = [8; 8] /\
  snd (step w (PortData 0 [1] 2500999 2500999)) = [] /\
  snd (step w (PortData 0 [1] 2501000 2501000)) = [WriteDMX 5 [1] 100].
Proof. vm_compute. repeat split; reflexivity. Qed.

(* sole member / outside the group *)
Example ex_single_outside :
  let w := run [AddInput 0; AddInput 1; AddSink 3; SetPortPrio 1 101; PortData 1 [5; 6] 10 10] in
  group 20 (sources w) = [(Port 1, {| s_data := [5; 6]; s_ts := 10; s_prio := 101 |})] /\
  snd (step w (PortChanged 1 20)) = [SendDMX 3 [5; 6] 101] /\
  match apply_update w (PortData 0 [255; 255; 255] 20 20) with
  | Some (chg, now, w1) => member chg (group now (sources w1)) = false /\
                           snd (step w (PortData 0 [255; 255; 255] 20 20)) = []
  | None => False
  end.
Proof. vm_compute. repeat split; reflexivity. Qed.

(* the premise of c01_prio_range holds for a history that does supply priorities *)
Example ex_prio_premise :
  Forall (fun o => match o with
                   | ClientData _ _ p _ _ => p <= 200 | SetInherited _ p => p <= 200 | _ => True
                   end) (ex_setup ++ [SetInherited 1 200; ClientData 3 [0; 0; 7] 100 30 30]).
Proof. cbn [ex_setup app]. repeat constructor; intro H; discriminate H. Qed.

(* housekeeping: a streaming client survives any number of runs as long as it sends between them and
   is merged (HTP with port 0); without data between two runs it is evicted and only the port remains *)
Example ex_housekeeping :
  let w := run [AddInput 0; AddOutput 5; SetMode false; ClientData 3 [0; 9] 100 10 10; CleanStale;
                ClientData 3 [0; 9] 100 20 20; CleanStale; ClientData 3 [0; 9] 100 30 30; CleanStale] in
  map fst (u_clients (w_u w)) = [3] /\
  snd (step w (PortData 0 [7] 40 40)) = [WriteDMX 5 [7; 9] 100] /\
  map fst (u_clients (w_u (fst (step w CleanStale)))) = [] /\
  snd (step (fst (step w CleanStale)) (PortData 0 [7] 40 40)) = [WriteDMX 5 [7] 100].
Proof. vm_compute. repeat split; reflexivity. Qed.

(* SetDMX and ignored return values *)
Example ex_setdmx :
  let w := run [AddOutput 5; AddSink 1; OutResult 5 false; SinkResult 1 false] in
  step w (SetDMX []) = (w, []) /\
  snd (step w (SetDMX [1; 2])) = [WriteDMX 5 [1; 2] 0; SendDMX 1 [1; 2] 0].
Proof. vm_compute. repeat split; reflexivity. Qed.

(* history level: a concrete history with three changes and rejected updates in between; the premise
   of c01_delivery_once holds for its last call *)
Definition ex_hist : list op :=
  [AddInput 0; AddOutput 5; AddSink 2; ClientData 4 [8; 8] 200 1000 1000;
   PortData 0 [1] 2000 2000; SetMode false; RemoveSink 2; AddSink 3;
   PortData 0 [1; 2; 3] 2501000 2501000; CleanStale; ClientData 4 [9] 100 2501001 2501001].
Example ex_history :
  map change_of (happenings init_world ex_hist) =
    [None; None; None; Some ([8; 8], 200, [5], [2]); None; None; None; None;
     Some ([1; 2; 3], 100, [5], [3]); None; Some ([9; 2; 3], 100, [5], [3])] /\
  u_buf (w_u (run ex_hist)) = [9; 2; 3] /\
  trace init_world ex_hist =
    [[]; []; []; [WriteDMX 5 [8; 8] 200; SendDMX 2 [8; 8] 200]; []; []; []; [];
     [WriteDMX 5 [1; 2; 3] 100; SendDMX 3 [1; 2; 3] 100]; [];
     [WriteDMX 5 [9; 2; 3] 100; SendDMX 3 [9; 2; 3] 100]].
Proof. vm_compute. repeat split; reflexivity. Qed.
Example ex_timeval :
  tv_norm (2, 500999) = true /\ tv_active (2, 500999) (0, 1000) = true /\
  tv_active (2, 501000) (0, 1000) = false /\ tv_active (3, 0) (0, 500000) = false /\
  tv_active (2, 999999) (0, 500000) = true /\ tv_isset (0, 0) = false.
Proof. vm_compute. repeat split; reflexivity. Qed.

(* very long silences: ages of 2^31 ms, 2^32 ms, 2^31 s, 2^32 us (+-), also as raw timevals *)
Example ex_long_silence :
  let s := {| s_data := [1]; s_ts := 1000; s_prio := 100 |} in
  liveb (1000 + 2147483648000) s = false /\ liveb (1000 + 2147483648000 + 1234567890) s = false /\
  liveb (1000 + 4294967296000 - 1) s = false /\ liveb (1000 + 4294967296000 + 2499999) s = false /\
  liveb (1000 + 2147483648000000) s = false /\ liveb (1000 + 4294967296) s = false /\
  tv_active (2147483, 649000) (0, 1000) = false /\ tv_active (4294967, 296999) (0, 1000) = false /\
  tv_active (2147483648, 0) (0, 1000) = false /\
  let w := run [AddInput 0; AddOutput 5; SetMode false; ClientData 4 [0; 9] 100 1000 1000] in
  snd (step w (PortData 0 [7] 2147483649000 2147483649000)) = [WriteDMX 5 [7] 100] /\
  snd (step w (PortData 0 [7] 2000 2000)) = [WriteDMX 5 [7; 9] 100].
Proof. vm_compute. repeat split; reflexivity. Qed.

(* un-acked frames and a second universe sharing the sink: every change still reaches the sink *)
Example ex_two_universes :
  let ww0 := (run [AddInput 0; AddSink 3], run [AddInput 1; AddSink 3]) in
  let (ww1, e1) := step2 ww0 (On1 (PortData 0 [1] 10 10)) in
  let (ww2, e2) := step2 ww1 (On2 (PortData 1 [2] 10 10)) in
  let (ww3, e3) := step2 ww2 (On1 (PortData 0 [3] 11 11)) in
  let (ww4, e4) := step2 ww3 (On1 (AckClient 3 1)) in
  let (ww5, e5) := step2 ww4 (On2 (PortData 1 [4] 12 12)) in
  (e1, e2, e3, e4, e5) =
    ([SendDMX 3 [1] 100], [SendDMX 3 [2] 100], [SendDMX 3 [3] 100], [], [SendDMX 3 [4] 100]) /\
  u_buf (w_u (fst ww5)) = [3] /\ u_buf (w_u (snd ww5)) = [4].
Proof. vm_compute. repeat split; reflexivity. Qed.

(* inherit mode, then pinned back to static with the value the port already stores (100): the port
   leaves inherit mode; its frame is grouped and fanned out at 100, not at the inherited 150 *)
Example ex_priority_admin :
  let w := run [AddInput 0; AddOutput 5; SetCaps 0 true; SetInherited 0 150; MgrInherit 0;
                PortData 0 [1] 10 10] in
  snd (step w (PortChanged 0 11)) = [WriteDMX 5 [1] 150] /\
  let w' := fst (step w (MgrStatic 0 100)) in
  snd (step w' (PortData 0 [2] 12 12)) = [WriteDMX 5 [2] 100] /\
  snd (step (fst (step w' (MgrStatic 0 255))) (PortData 0 [3] 13 13)) = [WriteDMX 5 [3] 200].
Proof. vm_compute. repeat split; reflexivity. Qed.

(* an emptied source leaves the merge; a repeated identical signal (same frame, priority, stamp) inside
   one event-loop pass is an update like any other and is handed out again *)
Example ex_empty_and_duplicate :
  let w := run [AddInput 0; AddInput 1; AddOutput 5; SetMode false; PortData 0 [0; 9] 10 10;
                PortData 1 [7] 11 11; PortData 0 [] 12 12] in
  snd (step w (PortData 1 [8] 13 13)) = [WriteDMX 5 [8] 100] /\
  let v := run [AddInput 0; AddInput 1; AddOutput 5; PortData 0 [10] 10 10; PortData 1 [11] 10 10] in
  snd (step v (PortData 0 [10] 10 10)) = [WriteDMX 5 [10] 100] /\
  snd (step (fst (step v (PortData 0 [10] 10 10))) (PortData 0 [10] 10 10)) = [WriteDMX 5 [10] 100].
Proof. vm_compute. repeat split; reflexivity. Qed.

(* a port's view along a history: data while unpatched is ignored, the priority is the one at arrival *)
Example ex_port_frames :
  let ops := [PortData 0 [9] 5 5; AddInput 0; SetCaps 0 true; SetInherited 0 150; MgrInherit 0;
              PortData 0 [1; 2] 10 10; MgrStatic 0 100; RemoveInput 0; PortData 0 [3] 11 11] in
  fold_left (port_view_step 0) ops (false, new_port) =
    (false, {| p_src := {| s_data := [1; 2]; s_ts := 10; s_prio := 150 |}; p_static := 100;
               p_inherit := false; p_inherited := 150; p_caps := true |}) /\
  p_src (w_ports (run ops) 0) = {| s_data := [1; 2]; s_ts := 10; s_prio := 150 |}.
Proof. vm_compute. split; reflexivity. Qed.
