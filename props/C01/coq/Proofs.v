(* C01 — proofs: the scanning loops compute the live highest-priority group; MergeAll's result is
   the specification's [expected]; invariants of reachable worlds. *)
From OlaBase Require Import Bytes.
From C01 Require Import Gen Model Spec.
Local Open Scope N_scope.

Lemma live_liveb now s : live now s = liveb now s.
Proof.
  unfold live, liveb. change TIMEOUT_US with 2500000. f_equal.
  destruct (s_data s); reflexivity.
Qed.

Lemma liveb_is_live now s : liveb now s = true <-> is_live now s.
Proof.
  unfold liveb, is_live. rewrite !andb_true_iff, negb_true_iff, N.eqb_neq, N.ltb_lt.
  destruct (s_data s); intuition congruence.
Qed.

Lemma sid_eqb_eq a b : sid_eqb a b = true <-> a = b.
Proof.
  destruct a, b; cbn; rewrite ?N.eqb_eq; split; intros H; try congruence; try discriminate.
Qed.
Lemma sid_eqb_refl a : sid_eqb a a = true.
Proof. apply sid_eqb_eq; reflexivity. Qed.

(* ---- the group as a filter with an explicit threshold ---- *)
Definition sel (now t : N) (l : srcs) : srcs :=
  filter (fun e => liveb now (snd e) && (s_prio (snd e) =? t)) l.
Lemma group_sel now l : group now l = sel now (top now l) l.
Proof. reflexivity. Qed.

Lemma top_app now a b : top now (a ++ b) = N.max (top now a) (top now b).
Proof.
  induction a as [|e a IH]; cbn [top app].
  - lia.
  - destruct (liveb now (snd e)); rewrite IH; lia.
Qed.
Lemma top_ge now l e : In e l -> liveb now (snd e) = true -> s_prio (snd e) <= top now l.
Proof.
  induction l as [|x l IH]; cbn [In top]; [tauto|].
  intros [->|H] L.
  - rewrite L. lia.
  - specialize (IH H L). destruct (liveb now (snd x)); lia.
Qed.
Lemma top_attained now l :
  top now l = 0 \/ exists e, In e l /\ liveb now (snd e) = true /\ s_prio (snd e) = top now l.
Proof.
  induction l as [|x l IH]; cbn [top]; [now left|].
  destruct (liveb now (snd x)) eqn:L.
  - right. destruct (N.max_spec (s_prio (snd x)) (top now l)) as [[Hlt ->]|[Hle ->]].
    + destruct IH as [IH|(e & Hin & Hl & Hp)]; [lia|].
      exists e. cbn [In]. auto.
    + exists x. cbn [In]. auto.
  - destruct IH as [IH|(e & Hin & Hl & Hp)]; [now left|].
    right. exists e. cbn [In]. auto.
Qed.
Lemma sel_above now t l : top now l < t -> sel now t l = [].
Proof.
  intros H. unfold sel.
  induction l as [|x l IH]; cbn [filter]; [reflexivity|].
  cbn [top] in H.
  destruct (liveb now (snd x)) eqn:L; cbn [andb].
  - replace (s_prio (snd x) =? t) with false by (symmetry; apply N.eqb_neq; lia).
    apply IH. lia.
  - apply IH. exact H.
Qed.
Lemma sel_app now t a b : sel now t (a ++ b) = sel now t a ++ sel now t b.
Proof. apply filter_app. Qed.
Lemma member_app i a b : member i (a ++ b) = member i a || member i b.
Proof. apply existsb_app. Qed.

(* ---- the scanning loops ---- *)
Definition scanl now chg (l : srcs) : acc := fold_left (scan_one now chg) l acc0.

Lemma scanl_char now chg l :
  a_prio (scanl now chg l) = top now l /\
  a_act (scanl now chg l) = map snd (sel now (top now l) l) /\
  a_cia (scanl now chg l) = member chg (sel now (top now l) l).
Proof.
  induction l as [|e l IH] using rev_ind.
  - cbn. auto.
  - unfold scanl in *. rewrite fold_left_app. cbn [fold_left].
    destruct IH as (IHp & IHa & IHc).
    set (a := fold_left (scan_one now chg) l acc0) in *.
    rewrite top_app, sel_app, map_app, member_app. cbn [top].
    destruct e as [i s]. unfold scan_one. rewrite live_liveb. cbn [snd].
    destruct (liveb now s) eqn:L; cbn [negb].
    + rewrite N.max_0_r.
      destruct (a_prio a <? s_prio s) eqn:C; cbn [a_prio a_act a_cia].
      * rewrite N.eqb_refl. cbn [a_prio a_act a_cia].
        assert (N.max (top now l) (s_prio s) = s_prio s) as -> by lia.
        rewrite sel_above by lia.
        unfold sel. cbn [filter snd]. rewrite L, N.eqb_refl. cbn [andb map app member existsb fst].
        destruct (sid_eqb i chg); auto.
      * assert (N.max (top now l) (s_prio s) = top now l) as -> by lia.
        unfold sel at 2 4. cbn [filter snd]. rewrite L. cbn [andb]. rewrite IHp.
        destruct (s_prio s =? top now l) eqn:E; cbn [a_prio a_act a_cia].
        -- cbn [map snd member existsb fst]. rewrite IHa, IHc.
           repeat split; auto. destruct (sid_eqb i chg); cbn; rewrite ?orb_true_r, ?orb_false_r; reflexivity.
        -- cbn [map member existsb]. rewrite app_nil_r, orb_false_r. auto.
    + rewrite N.max_0_r. unfold sel at 2 4. cbn [filter snd]. rewrite L. cbn [andb map member existsb].
      rewrite app_nil_r, orb_false_r. auto.
Qed.

Lemma scan_char now chg w :
  a_prio (scan now chg w) = top now (sources w) /\
  a_act (scan now chg w) = map snd (group now (sources w)) /\
  a_cia (scan now chg w) = member chg (group now (sources w)).
Proof.
  unfold scan, sources. rewrite <- fold_left_app. rewrite group_sel. apply scanl_char.
Qed.

(* ---- HTP merge = slot-wise maximum ---- *)
Lemma htp_length a : forall b, length (htp a b) = Nat.max (length a) (length b).
Proof.
  induction a as [|x a IH]; intros [|y b]; cbn [htp length]; try lia.
  rewrite IH. lia.
Qed.
Lemma htp_nth a : forall b i, nth i (htp a b) 0 = N.max (nth i a 0) (nth i b 0).
Proof.
  induction a as [|x a IH]; intros [|y b] [|i]; cbn [htp nth]; try lia.
  apply IH.
Qed.
Lemma maxlen_cons f fs : maxlen (f :: fs) = Nat.max (length f) (maxlen fs).
Proof. reflexivity. Qed.
Lemma fold_htp_length fs : forall a, length (fold_left htp fs a) = Nat.max (length a) (maxlen fs).
Proof.
  induction fs as [|f fs IH]; intros a; cbn [fold_left].
  - cbn. lia.
  - rewrite IH, htp_length, maxlen_cons. lia.
Qed.
Lemma fold_htp_nth fs i : forall a,
  nth i (fold_left htp fs a) 0 = N.max (nth i a 0) (maxl (map (fun f => nth i f 0) fs)).
Proof.
  induction fs as [|f fs IH]; intros a; cbn [fold_left map maxl fold_right].
  - lia.
  - rewrite IH, htp_nth. fold (maxl (map (fun f0 => nth i f0 0) fs)). lia.
Qed.
Lemma maxl_beyond fs i : (maxlen fs <= i)%nat -> maxl (map (fun f => nth i f 0) fs) = 0.
Proof.
  induction fs as [|f fs IH]; intros H; cbn [map maxl fold_right]; [reflexivity|].
  rewrite maxlen_cons in H. fold (maxl (map (fun f0 => nth i f0 0) fs)).
  rewrite IH by lia. rewrite nth_overflow by lia. reflexivity.
Qed.
Lemma slotwise_length fs : length (slotwise_max fs) = maxlen fs.
Proof. unfold slotwise_max. rewrite map_length, seq_length. reflexivity. Qed.
Lemma nth_map_seq (f : nat -> N) n i : (i < n)%nat -> nth i (map f (seq 0 n)) 0 = f i.
Proof.
  intros H. rewrite nth_indep with (d' := f 0%nat) by (rewrite map_length, seq_length; exact H).
  rewrite map_nth, seq_nth by exact H. reflexivity.
Qed.
Lemma slotwise_nth fs i : nth i (slotwise_max fs) 0 = maxl (map (fun f => nth i f 0) fs).
Proof.
  destruct (Nat.lt_ge_cases i (maxlen fs)) as [H|H].
  - unfold slotwise_max. rewrite nth_map_seq by exact H. reflexivity.
  - rewrite nth_overflow by (rewrite slotwise_length; exact H).
    symmetry. apply maxl_beyond. exact H.
Qed.
Lemma htp_merge_slotwise l : htp_merge_sources l = slotwise_max (map s_data l).
Proof.
  unfold htp_merge_sources.
  apply nth_ext with (d := 0) (d' := 0).
  - rewrite fold_htp_length, slotwise_length. cbn. lia.
  - intros i _. rewrite fold_htp_nth, slotwise_nth. destruct i; cbn [nth]; lia.
Qed.

(* ---- MergeAll computes [expected] ---- *)
Lemma member_find chg g :
  member chg g = match find (fun e => sid_eqb (fst e) chg) g with Some _ => true | None => false end.
Proof.
  unfold member. induction g as [|e g IH]; cbn [existsb find]; [reflexivity|].
  destruct (sid_eqb (fst e) chg); cbn [orb]; auto.
Qed.
Lemma changed_source_in chg s w : In (chg, s) (sources w) -> changed_source chg w = s.
Proof.
  unfold sources, port_sources, client_sources. intros H.
  apply in_app_or in H as [H|H]; apply in_map_iff in H as (j & E & _); inversion E; subst; reflexivity.
Qed.
Lemma group_incl now l e : In e (group now l) -> In e l.
Proof. unfold group. intros H. apply filter_In in H. tauto. Qed.
Lemma existsb_map_snd (f : source -> bool) (g : srcs) :
  existsb f (map snd g) = existsb (fun e => f (snd e)) g.
Proof. induction g as [|e g IH]; cbn [map existsb]; [reflexivity|]. rewrite IH. reflexivity. Qed.

Definition result (old : list N) (o : option (list N)) : list N :=
  match o with Some f => f | None => old end.
Definition is_some {A} (o : option A) : bool := match o with Some _ => true | None => false end.

Lemma merge_all_char now chg w :
  merge_all now chg w =
  (set_merge (w_u w) (top now (sources w))
     (result (u_buf (w_u w)) (expected (u_ltp (w_u w)) chg (group now (sources w)))),
   is_some (expected (u_ltp (w_u w)) chg (group now (sources w)))).
Proof.
  unfold merge_all. cbv zeta.
  destruct (scan_char now chg w) as (Hp & Ha & Hc). rewrite Hp, Ha, Hc. clear Hp Ha Hc.
  assert (Hin : forall e, In e (group now (sources w)) -> sid_eqb (fst e) chg = true ->
                changed_source chg w = snd e).
  { intros [i s] H E. apply sid_eqb_eq in E. cbn [fst] in E. subst i. cbn [snd].
    apply changed_source_in. eapply group_incl. exact H. }
  unfold expected. rewrite member_find.
  destruct (group now (sources w)) as [|e0 [|e1 r]] eqn:G.
  - reflexivity.
  - cbn [map find]. destruct (sid_eqb (fst e0) chg); reflexivity.
  - set (g := e0 :: e1 :: r) in *.
    destruct (find (fun e => sid_eqb (fst e) chg) g) as [e|] eqn:F.
    + apply find_some in F as [Fin Feq]. rewrite (Hin e Fin Feq).
      subst g. cbn [map negb]. 
      destruct (u_ltp (w_u w)).
      * change (snd e0 :: snd e1 :: map snd r) with (map snd (e0 :: e1 :: r)).
        rewrite existsb_map_snd. unfold newer_exists.
        destruct (existsb _ (e0 :: e1 :: r)); reflexivity.
      * change (snd e0 :: snd e1 :: map snd r) with (map snd (e0 :: e1 :: r)).
        rewrite htp_merge_slotwise, map_map. reflexivity.
    + subst g. reflexivity.
Qed.

(* ---- from MergeAll to a whole update call ---- *)
Lemma top_gprio now l : top now l = gprio (group now l).
Proof.
  destruct (group now l) as [|e g] eqn:G; cbn [gprio].
  - destruct (top_attained now l) as [H|(e & Hin & Hl & Hp)]; [exact H|].
    assert (In e (group now l)) as Hg.
    { unfold group. apply filter_In. split; [exact Hin|]. unfold in_group.
      rewrite Hl, Hp, N.eqb_refl. reflexivity. }
    rewrite G in Hg. destruct Hg.
  - assert (In e (group now l)) as Hg by (rewrite G; now left).
    unfold group in Hg. apply filter_In in Hg as [_ Hg]. unfold in_group in Hg.
    apply andb_prop in Hg as [_ Hg]. apply N.eqb_eq in Hg. symmetry. exact Hg.
Qed.

Lemma step_update w o chg now w1 :
  apply_update w o = Some (chg, now, w1) -> step w o = data_changed chg now w1.
Proof. intros H. unfold step. rewrite H. reflexivity. Qed.

Lemma apply_update_frame w o chg now w1 :
  apply_update w o = Some (chg, now, w1) ->
  u_ltp (w_u w1) = u_ltp (w_u w) /\ u_buf (w_u w1) = u_buf (w_u w) /\
  u_outs (w_u w1) = u_outs (w_u w) /\ u_sinks (w_u w1) = u_sinks (w_u w) /\
  u_prio (w_u w1) = u_prio (w_u w).
Proof.
  destruct o; cbn [apply_update]; try discriminate.
  - destruct (mem i (u_inputs (w_u w))); [|discriminate]. intros H; inversion H; subst. cbn. auto.
  - destruct (mem i (u_inputs (w_u w))); [|discriminate]. intros H; inversion H; subst. auto.
  - intros H; inversion H; subst. cbn. auto.
  - intros H; inversion H; subst. cbn. auto.
Qed.

Theorem step_spec w o chg now w1 :
  apply_update w o = Some (chg, now, w1) ->
  let g := group now (sources w1) in
  let ex := expected (u_ltp (w_u w)) chg g in
  let w2 := fst (step w o) in
  u_buf (w_u w2) = result (u_buf (w_u w)) ex /\
  snd (step w o) = match ex with
                   | Some f => hand_out (u_outs (w_u w)) (u_sinks (w_u w)) f (gprio g)
                   | None => []
                   end /\
  u_prio (w_u w2) = gprio g /\
  u_ltp (w_u w2) = u_ltp (w_u w1) /\ u_inputs (w_u w2) = u_inputs (w_u w1) /\
  u_clients (w_u w2) = u_clients (w_u w1) /\ u_outs (w_u w2) = u_outs (w_u w1) /\
  u_sinks (w_u w2) = u_sinks (w_u w1) /\ w_ports w2 = w_ports w1 /\ w_csrc w2 = w_csrc w1.
Proof.
  intros H. cbv zeta.
  destruct (apply_update_frame _ _ _ _ _ H) as (El & Eb & Eo & Es & _).
  rewrite (step_update _ _ _ _ _ H). unfold data_changed.
  rewrite merge_all_char. rewrite El, Eb, <- top_gprio.
  unfold fanout, hand_out.
  destruct (expected (u_ltp (w_u w)) chg (group now (sources w1))) as [f|];
    cbn [is_some fst snd with_u w_u w_ports w_csrc set_merge u_buf u_prio u_ltp u_inputs u_clients
         u_outs u_sinks result]; rewrite ?Eo, ?Es; repeat split; try reflexivity; assumption.
Qed.

(* ---- the shape of [expected] in the property's cases ---- *)
Lemma expected_outside ltp chg g : member chg g = false -> expected ltp chg g = None.
Proof. unfold expected. rewrite member_find. destruct (find _ g); [discriminate|reflexivity]. Qed.

Lemma find_in_group now w chg s :
  In (chg, s) (group now (sources w)) ->
  exists e, find (fun e => sid_eqb (fst e) chg) (group now (sources w)) = Some e /\ snd e = s.
Proof.
  intros H.
  destruct (find (fun e => sid_eqb (fst e) chg) (group now (sources w))) as [e|] eqn:F.
  - exists e. split; [reflexivity|]. apply find_some in F as [Fin Feq].
    apply sid_eqb_eq in Feq. destruct e as [i s']. cbn [fst snd] in *. subst i.
    apply group_incl in Fin. apply group_incl in H.
    rewrite <- (changed_source_in _ _ _ Fin). apply changed_source_in. exact H.
  - exfalso. eapply find_none in F; [|exact H]. cbn [fst] in F. rewrite sid_eqb_refl in F. discriminate.
Qed.

Lemma maxl_ge l x : In x l -> x <= maxl l.
Proof.
  induction l as [|y l IH]; cbn [In maxl fold_right]; [tauto|].
  fold (maxl l). intros [->|H]; [lia|]. specialize (IH H). lia.
Qed.
Lemma maxl_in l : l <> [] -> In (maxl l) l.
Proof.
  induction l as [|y l IH]; [congruence|]. intros _. cbn [maxl fold_right In]. fold (maxl l).
  destruct l as [|z l].
  - left. cbn. lia.
  - destruct (N.max_spec y (maxl (z :: l))) as [[_ ->]|[_ ->]]; [right; apply IH; congruence|now left].
Qed.

(* ---- the property's clauses ---- *)
Lemma group_prio now l e : In e (group now l) -> s_prio (snd e) = gprio (group now l).
Proof.
  intros H. rewrite <- top_gprio. unfold group in H. apply filter_In in H as [_ H].
  unfold in_group in H. apply andb_prop in H as [_ H]. apply N.eqb_eq. exact H.
Qed.

Lemma group_spec now l e :
  In e (group now l) <->
  In e l /\ is_live now (snd e) /\
  forall e', In e' l -> is_live now (snd e') -> s_prio (snd e') <= s_prio (snd e).
Proof.
  unfold group. rewrite filter_In. unfold in_group. rewrite andb_true_iff, N.eqb_eq, liveb_is_live.
  split.
  - intros (Hin & Hl & Hp). split; [exact Hin|split; [exact Hl|]].
    intros e' Hin' Hl'. rewrite Hp. apply top_ge; [exact Hin'|]. apply liveb_is_live. exact Hl'.
  - intros (Hin & Hl & Hmax). split; [exact Hin|split; [exact Hl|]].
    assert (s_prio (snd e) <= top now l) by (apply top_ge; [exact Hin|apply liveb_is_live; exact Hl]).
    destruct (top_attained now l) as [H0|(e' & Hin' & Hl' & Hp')]; [lia|].
    specialize (Hmax e' Hin' (proj1 (liveb_is_live _ _) Hl')). lia.
Qed.

Lemma outside_lemma w o chg now w1 :
  apply_update w o = Some (chg, now, w1) ->
  member chg (group now (sources w1)) = false ->
  u_buf (w_u (fst (step w o))) = u_buf (w_u w) /\ snd (step w o) = [].
Proof.
  intros H M. destruct (step_spec _ _ _ _ _ H) as (Hb & He & _).
  rewrite (expected_outside _ _ _ M) in Hb, He. auto.
Qed.

Lemma single_lemma w o chg now w1 s :
  apply_update w o = Some (chg, now, w1) ->
  group now (sources w1) = [(chg, s)] ->
  u_buf (w_u (fst (step w o))) = s_data s /\
  snd (step w o) = hand_out (u_outs (w_u w)) (u_sinks (w_u w)) (s_data s) (s_prio s).
Proof.
  intros H G. destruct (step_spec _ _ _ _ _ H) as (Hb & He & _). rewrite G in Hb, He.
  unfold expected in Hb, He. cbn [find fst snd] in Hb, He. rewrite sid_eqb_refl in Hb, He.
  cbn [result gprio snd] in Hb, He. auto.
Qed.

Lemma htp_lemma w o chg now w1 :
  apply_update w o = Some (chg, now, w1) ->
  u_ltp (w_u w) = false ->
  (2 <= length (group now (sources w1)))%nat ->
  member chg (group now (sources w1)) = true ->
  let frame := slotwise_max (map (fun e => s_data (snd e)) (group now (sources w1))) in
  u_buf (w_u (fst (step w o))) = frame /\
  snd (step w o) = hand_out (u_outs (w_u w)) (u_sinks (w_u w)) frame (gprio (group now (sources w1))).
Proof.
  intros H L Hlen M. cbv zeta. destruct (step_spec _ _ _ _ _ H) as (Hb & He & _).
  rewrite L in Hb, He. unfold expected in Hb, He. rewrite member_find in M.
  destruct (find (fun e => sid_eqb (fst e) chg) (group now (sources w1))) as [e|]; [|discriminate].
  destruct (group now (sources w1)) as [|a [|b r]]; cbn [length] in Hlen; try lia.
  cbn [result] in Hb, He. auto.
Qed.

Lemma ltp_lemma w o chg now w1 s :
  apply_update w o = Some (chg, now, w1) ->
  u_ltp (w_u w) = true ->
  (2 <= length (group now (sources w1)))%nat ->
  In (chg, s) (group now (sources w1)) ->
  (newer_exists (s_ts s) (group now (sources w1)) = true ->
   u_buf (w_u (fst (step w o))) = u_buf (w_u w) /\ snd (step w o) = []) /\
  (newer_exists (s_ts s) (group now (sources w1)) = false ->
   u_buf (w_u (fst (step w o))) = s_data s /\
   snd (step w o) = hand_out (u_outs (w_u w)) (u_sinks (w_u w)) (s_data s) (s_prio s)).
Proof.
  intros H L Hlen Hin. destruct (step_spec _ _ _ _ _ H) as (Hb & He & _).
  rewrite L in Hb, He. unfold expected in Hb, He.
  destruct (find_in_group _ _ _ _ Hin) as (e & F & Es). rewrite F, Es in Hb, He.
  rewrite <- (group_prio _ _ _ Hin) in He. cbn [snd] in He.
  destruct (group now (sources w1)) as [|a [|b r]]; cbn [length] in Hlen; try lia.
  split; intros N; rewrite N in Hb, He; cbn [result] in Hb, He; auto.
Qed.

Lemma fanout_lemma w o chg now w1 :
  apply_update w o = Some (chg, now, w1) ->
  let g := group now (sources w1) in
  let changed := is_some (expected (u_ltp (w_u w)) chg g) in
  snd (step w o) =
    (if changed
     then hand_out (u_outs (w_u w)) (u_sinks (w_u w)) (u_buf (w_u (fst (step w o)))) (gprio g)
     else []) /\
  (changed = false -> u_buf (w_u (fst (step w o))) = u_buf (w_u w)).
Proof.
  intros H. cbv zeta. destruct (step_spec _ _ _ _ _ H) as (Hb & He & _).
  destruct (expected (u_ltp (w_u w)) chg (group now (sources w1))); cbn [is_some result] in *.
  - rewrite Hb. split; [exact He|discriminate].
  - auto.
Qed.

Lemma admin_lemma w o :
  apply_update w o = None -> (forall d, o <> SetDMX d) ->
  snd (step w o) = [] /\ u_buf (w_u (fst (step w o))) = u_buf (w_u w).
Proof.
  intros H Hd. unfold step. rewrite H.
  destruct o; try (exfalso; eapply Hd; reflexivity); cbn [fst snd]; (split; [reflexivity|]);
    cbn [admin_step]; try reflexivity.
  destruct (SOURCE_PRIORITY_MAX <? p); reflexivity.
Qed.

(* Universe::SetDMX: a non-empty frame is stored as is (capped at 512 slots) and handed out with the
   active priority left by the last merge; an empty one is ignored *)
Lemma setdmx_lemma w d :
  (dmx_set d = [] -> step w (SetDMX d) = (w, [])) /\
  (dmx_set d <> [] ->
   u_buf (w_u (fst (step w (SetDMX d)))) = dmx_set d /\
   snd (step w (SetDMX d)) =
     hand_out (u_outs (w_u w)) (u_sinks (w_u w)) (dmx_set d) (u_prio (w_u w))).
Proof.
  unfold step. cbn [apply_update]. unfold set_dmx. split.
  - intros ->. reflexivity.
  - intros H. destruct (dmx_set d) as [|x r] eqn:E; [congruence|].
    assert (len (x :: r) =? 0 = false) as -> by (rewrite len_cons; apply N.eqb_neq; lia).
    cbn [fst snd with_u w_u set_merge u_buf]. split; reflexivity.
Qed.

(* ---- housekeeping (CleanStaleSourceClients) ---- *)
Definition registered (c : N) (w : world) : Prop := exists b, In (c, b) (u_clients (w_u w)).
Definition fresh (c : N) (w : world) : Prop := In (c, false) (u_clients (w_u w)).

Lemma map_put_same c v l : In (c, v) (map_put c v l).
Proof.
  induction l as [|[x b] l IH]; cbn [map_put]; [now left|].
  destruct (c <? x); [now left|]. destruct (c =? x) eqn:E.
  - apply N.eqb_eq in E. subst. now left.
  - right. exact IH.
Qed.
Lemma map_put_other c v l c' b' : c' <> c -> In (c', b') l -> In (c', b') (map_put c v l).
Proof.
  intros Hn. induction l as [|[x b] l IH]; cbn [map_put In]; [tauto|].
  destruct (c <? x); [cbn [In]; tauto|]. destruct (c =? x) eqn:E.
  - apply N.eqb_eq in E. subst x. cbn [In]. intros [H|H]; [inversion H; congruence|tauto].
  - cbn [In]. intros [H|H]; [now left|right; auto].
Qed.
Lemma map_remove_other c l c' b' : c' <> c -> In (c', b') l -> In (c', b') (map_remove c l).
Proof.
  intros Hn H. unfold map_remove. apply filter_In. split; [exact H|].
  cbn [fst]. apply negb_true_iff, N.eqb_neq. exact Hn.
Qed.
Lemma clean_stale_fresh c l : In (c, false) l -> In (c, true) (clean_stale l).
Proof.
  induction l as [|[x b] l IH]; cbn [clean_stale In]; [tauto|].
  intros [H|H].
  - inversion H; subst. now left.
  - destruct b; [auto|right; auto].
Qed.

Definition evicts (c : N) (o : op) : Prop := o = CleanStale \/ o = RemoveSource c.

(* a client update registers the client with a cleared mark *)
Lemma client_update_fresh w o c now w1 :
  apply_update w o = Some (Client c, now, w1) -> fresh c (fst (step w o)).
Proof.
  intros H. destruct (step_spec _ _ _ _ _ H) as (_ & _ & _ & _ & _ & Ec & _).
  unfold fresh. rewrite Ec.
  destruct o; cbn [apply_update] in H; try discriminate;
    try (destruct (mem i (u_inputs (w_u w))); discriminate);
    inversion H; subst; cbn [w_u with_u set_clients u_clients]; apply map_put_same.
Qed.

(* the client containers after one call, in terms of the call *)
Lemma step_clients w o :
  u_clients (w_u (fst (step w o))) =
  match o with
  | ClientData c _ _ _ _ | ClientChanged c _ | AddSource c => map_put c false (u_clients (w_u w))
  | RemoveSource c => map_remove c (u_clients (w_u w))
  | CleanStale => clean_stale (u_clients (w_u w))
  | _ => u_clients (w_u w)
  end.
Proof.
  destruct (apply_update w o) as [[[chg now] w1]|] eqn:A.
  - destruct (step_spec _ _ _ _ _ A) as (_ & _ & _ & _ & _ & Ec & _). rewrite Ec.
    destruct o; cbn [apply_update] in A; try discriminate;
      try (destruct (mem i (u_inputs (w_u w))); [|discriminate]);
      inversion A; subst; reflexivity.
  - unfold step. rewrite A.
    destruct o; cbn [apply_update] in A; try discriminate; cbn [fst admin_step]; try reflexivity;
      try (destruct (SOURCE_PRIORITY_MAX <? _); reflexivity);
      try (unfold set_dmx; destruct (len _ =? 0); reflexivity).
Qed.

Lemma step_keeps_fresh w o c : ~ evicts c o -> fresh c w -> fresh c (fst (step w o)).
Proof.
  unfold fresh, evicts. intros Hn H. rewrite step_clients.
  destruct o; try exact H; try (exfalso; apply Hn; auto; fail).
  - destruct (N.eq_dec c c0) as [->|Hc]; [apply map_put_same|apply map_put_other; assumption].
  - destruct (N.eq_dec c c0) as [->|Hc]; [apply map_put_same|apply map_put_other; assumption].
  - destruct (N.eq_dec c c0) as [->|Hc]; [apply map_put_same|apply map_put_other; assumption].
  - apply map_remove_other; [|exact H]. intros ->. apply Hn. auto.
Qed.
Lemma step_keeps_registered w o c : ~ evicts c o -> registered c w -> registered c (fst (step w o)).
Proof.
  unfold registered, evicts. intros Hn [b H]. rewrite step_clients.
  destruct o; try (exists b; exact H); try (exfalso; apply Hn; auto; fail).
  - destruct (N.eq_dec c c0) as [->|Hc]; [exists false; apply map_put_same|exists b; apply map_put_other; assumption].
  - destruct (N.eq_dec c c0) as [->|Hc]; [exists false; apply map_put_same|exists b; apply map_put_other; assumption].
  - destruct (N.eq_dec c c0) as [->|Hc]; [exists false; apply map_put_same|exists b; apply map_put_other; assumption].
  - exists b. apply map_remove_other; [|exact H]. intros ->. apply Hn. auto.
Qed.
Lemma clean_makes_registered w c : fresh c w -> registered c (fst (step w CleanStale)).
Proof.
  unfold fresh, registered. intros H. rewrite step_clients. exists true. apply clean_stale_fresh. exact H.
Qed.

Definition runs (w : world) (ops : list op) : world := fold_left (fun w o => fst (step w o)) ops w.

Lemma runs_keeps_fresh c ops : forall w,
  Forall (fun o => ~ evicts c o) ops -> fresh c w -> fresh c (runs w ops).
Proof.
  induction ops as [|o ops IH]; intros w Hf H; cbn [runs fold_left]; [exact H|].
  inversion Hf; subst. apply IH; [assumption|]. apply step_keeps_fresh; assumption.
Qed.
Lemma runs_keeps_registered c ops : forall w,
  Forall (fun o => ~ evicts c o) ops -> registered c w -> registered c (runs w ops).
Proof.
  induction ops as [|o ops IH]; intros w Hf H; cbn [runs fold_left]; [exact H|].
  inversion Hf; subst. apply IH; [assumption|]. apply step_keeps_registered; assumption.
Qed.
Lemma runs_app w a b : runs w (a ++ b) = runs (runs w a) b.
Proof. unfold runs. apply fold_left_app. Qed.

(* The housekeeping contract: a client whose data arrived stays a candidate source through any later
   calls that contain at most one housekeeping run and no explicit removal of that client. *)
Lemma housekeeping_lemma w o c now w1 before after :
  apply_update w o = Some (Client c, now, w1) ->
  Forall (fun o => ~ evicts c o) before -> Forall (fun o => ~ evicts c o) after ->
  let w_a := runs (fst (step w o)) before in
  let w_b := runs (fst (step w o)) (before ++ CleanStale :: after) in
  (In (Client c, w_csrc w_a c) (sources w_a)) /\ (In (Client c, w_csrc w_b c) (sources w_b)).
Proof.
  intros H Hb Ha. cbv zeta.
  pose proof (client_update_fresh _ _ _ _ _ H) as F0.
  pose proof (runs_keeps_fresh c before _ Hb F0) as F1.
  assert (Hsrc : forall w', registered c w' -> In (Client c, w_csrc w' c) (sources w')).
  { intros w' [b Hin]. unfold sources, client_sources. apply in_or_app. right.
    apply in_map_iff. exists (c, b). split; [reflexivity|exact Hin]. }
  split.
  - apply Hsrc. exists false. exact F1.
  - apply Hsrc. rewrite runs_app. cbn [runs fold_left]. fold (runs (fst (step (runs (fst (step w o)) before) CleanStale)) after).
    apply runs_keeps_registered; [exact Ha|]. apply clean_makes_registered. exact F1.
Qed.


Lemma noninterference_lemma wa oa wa1 wb ob wb1 chg now :
  apply_update wa oa = Some (chg, now, wa1) ->
  apply_update wb ob = Some (chg, now, wb1) ->
  u_ltp (w_u wa) = u_ltp (w_u wb) -> u_buf (w_u wa) = u_buf (w_u wb) ->
  u_outs (w_u wa) = u_outs (w_u wb) -> u_sinks (w_u wa) = u_sinks (w_u wb) ->
  group now (sources wa1) = group now (sources wb1) ->
  u_buf (w_u (fst (step wa oa))) = u_buf (w_u (fst (step wb ob))) /\
  snd (step wa oa) = snd (step wb ob).
Proof.
  intros Ha Hb El Eb Eo Es G.
  destruct (step_spec _ _ _ _ _ Ha) as (Hba & Hea & _).
  destruct (step_spec _ _ _ _ _ Hb) as (Hbb & Heb & _).
  rewrite Hba, Hbb, Hea, Heb, El, Eb, Eo, Es, G. auto.
Qed.

(* ---- the meaning of slotwise_max ---- *)
Lemma maxlen_ge fs f : In f fs -> (length f <= maxlen fs)%nat.
Proof.
  induction fs as [|x fs IH]; cbn [In]; [tauto|]. rewrite maxlen_cons.
  intros [->|H]; [lia|]. specialize (IH H). lia.
Qed.
Lemma maxlen_in fs : fs <> [] -> exists f, In f fs /\ length f = maxlen fs.
Proof.
  induction fs as [|x fs IH]; [congruence|]. intros _. rewrite maxlen_cons.
  destruct fs as [|y fs].
  - exists x. split; [now left|]. cbn. lia.
  - destruct IH as (f & Hin & Hl); [congruence|].
    destruct (Nat.max_spec (length x) (maxlen (y :: fs))) as [[_ ->]|[_ ->]].
    + exists f. split; [now right|exact Hl].
    + exists x. split; [now left|reflexivity].
Qed.
Lemma slotwise_spec fs :
  (forall f, In f fs -> (length f <= length (slotwise_max fs))%nat) /\
  (fs <> [] -> exists f, In f fs /\ length f = length (slotwise_max fs)) /\
  (fs = [] -> slotwise_max fs = []) /\
  forall i,
    (forall f, In f fs -> nth i f 0 <= nth i (slotwise_max fs) 0) /\
    (fs <> [] -> exists f, In f fs /\ nth i f 0 = nth i (slotwise_max fs) 0).
Proof.
  rewrite slotwise_length. split; [apply maxlen_ge|]. split; [apply maxlen_in|].
  split; [intros ->; reflexivity|].
  intros i. rewrite slotwise_nth. split.
  - intros f H. apply maxl_ge. apply in_map_iff. exists f. auto.
  - intros H. assert (H1 : In (maxl (map (fun f => nth i f 0) fs)) (map (fun f => nth i f 0) fs)).
    { apply maxl_in. destruct fs; [congruence|discriminate]. }
    apply in_map_iff in H1 as (f & E & Hin). exists f. auto.
Qed.

(* ---- no wrap-around in liveness: once a source has timed out it stays out, however long ---- *)
Lemma timeout_monotone now now' s : now <= now' -> liveb now s = false -> liveb now' s = false.
Proof.
  unfold liveb. intros Hle H.
  destruct (negb (s_ts s =? 0)); cbn [andb] in *; [|reflexivity].
  destruct (match s_data s with [] => false | _ => true end); rewrite ?andb_true_r, ?andb_false_r in *; [|reflexivity].
  apply N.ltb_ge in H. apply N.ltb_ge. lia.
Qed.
Lemma dead_not_in_group now now' l e :
  now <= now' -> liveb now (snd e) = false -> ~ In e (group now' l).
Proof.
  intros Hle Hd Hin. unfold group in Hin. apply filter_In in Hin as [_ Hin].
  unfold in_group in Hin. apply andb_prop in Hin as [Hl _].
  rewrite (timeout_monotone _ _ _ Hle Hd) in Hl. discriminate.
Qed.
