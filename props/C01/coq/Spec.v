From OlaBase Require Import Bytes.
From C01 Require Import Gen Model.
