(* C01 — specification, written from the property text (not from Universe.cpp).
   Vocabulary shared with the model: a source's last frame {s_data; s_ts; s_prio}, source ids,
   the fan-out calls WriteDMX/SendDMX, and the list of candidate sources of a universe.
   Literal numbers of the property (2.5 s = 2 500 000 us) are used here; Properties.c01_consts ties the
   regenerated constants to them. *)
From OlaBase Require Import Bytes.
From C01 Require Import Model.
Local Open Scope N_scope.

Definition srcs := list (sid * source).

(* "live meaning non-empty data received within the last 2.5 s"; a never-set source has no
   reception time (the unset time stamp 0) *)
Definition is_live (now : N) (s : source) : Prop :=
  s_ts s <> 0 /\ now < s_ts s + 2500000 /\ s_data s <> [].
Definition liveb (now : N) (s : source) : bool :=
  negb (s_ts s =? 0) && (now <? s_ts s + 2500000) && match s_data s with [] => false | _ => true end.

(* the highest priority among the live sources (0 when there is none) *)
Fixpoint top (now : N) (l : srcs) : N :=
  match l with
  | [] => 0
  | e :: r => if liveb now (snd e) then N.max (s_prio (snd e)) (top now r) else top now r
  end.
(* the live highest-priority group *)
Definition in_group (now : N) (l : srcs) (e : sid * source) : bool :=
  liveb now (snd e) && (s_prio (snd e) =? top now l).
Definition group (now : N) (l : srcs) : srcs := filter (in_group now l) l.
Definition member (i : sid) (g : srcs) : bool := existsb (fun e => sid_eqb (fst e) i) g.
(* the group's (common) priority *)
Definition gprio (g : srcs) : N := match g with [] => 0 | e :: _ => s_prio (snd e) end.

(* slot-wise maximum of a set of frames: as long as the longest, slot i = max over the frames that
   have a slot i *)
Definition maxl (l : list N) : N := fold_right N.max 0 l.
Definition maxlen (fs : list (list N)) : nat := fold_right Nat.max 0%nat (map (@length N) fs).
Definition slotwise_max (fs : list (list N)) : list N :=
  map (fun i => maxl (map (fun f => nth i f 0) fs)) (seq 0 (maxlen fs)).

(* "another member is newer" than the updating source *)
Definition newer_exists (ts : N) (g : srcs) : bool := existsb (fun e => ts <? s_ts (snd e)) g.

(* What the universe must hold after source [chg] updated, given the live highest-priority group [g]
   of the moment; None = nothing changes. *)
Definition expected (ltp : bool) (chg : sid) (g : srcs) : option (list N) :=
  match find (fun e => sid_eqb (fst e) chg) g with
  | None => None                                   (* update from outside the group *)
  | Some e =>
    match g with
    | [_] => Some (s_data (snd e))                 (* sole member: verbatim *)
    | _ => if ltp
           then (if newer_exists (s_ts (snd e)) g then None else Some (s_data (snd e)))
           else Some (slotwise_max (map (fun x => s_data (snd x)) g))
    end
  end.

(* every patched output port, then every registered sink client, gets frame and winning priority *)
Definition hand_out (outs sinks : list N) (frame : list N) (prio : N) : list event :=
  map (fun p => WriteDMX p frame prio) outs ++ map (fun c => SendDMX c frame prio) sinks.

(* the candidate sources of the universe in a world: its input ports, then its source clients *)
Definition sources (w : world) : srcs := port_sources w ++ client_sources w.

(* ---- history level ----
   What one call means for the universe, abstracted from how the call is made: an update of source
   [chg] at clock reading [now] with the candidate sources [cands] of that moment (after the new frame
   was stored) in mode [ltp]; an explicit override of the frame (SetDMX); or anything else. [outs]/[sinks]
   are the patched output ports and registered sink clients at that moment. *)
Inductive happening :=
| HUpdate (ltp : bool) (chg : sid) (now : N) (cands : srcs) (outs sinks : list N)
| HOverride (frame : list N) (prio : N) (outs sinks : list N)
| HOther.

(* the change a happening makes, per the property text: new frame, priority it is handed out with,
   and the recipients; None = nothing changes *)
Definition change_of (h : happening) : option (list N * N * list N * list N) :=
  match h with
  | HUpdate ltp chg now cands outs sinks =>
    match expected ltp chg (group now cands) with
    | Some f => Some (f, gprio (group now cands), outs, sinks)
    | None => None
    end
  | HOverride f p outs sinks => Some (f, p, outs, sinks)
  | HOther => None
  end.
Definition frame_after (buf : list N) (h : happening) : list N :=
  match change_of h with Some (f, _, _, _) => f | None => buf end.
Definition calls_of (h : happening) : list event :=
  match change_of h with Some (f, p, outs, sinks) => hand_out outs sinks f p | None => [] end.
(* the frame a universe must hold after a history (it starts empty) *)
Definition spec_frame (hs : list happening) : list N := fold_left frame_after hs [].

(* recipients of a call *)
Definition to_port (p : N) (e : event) : bool :=
  match e with WriteDMX q _ _ => q =? p | SendDMX _ _ _ => false end.
Definition to_client (c : N) (e : event) : bool :=
  match e with SendDMX q _ _ => q =? c | WriteDMX _ _ _ => false end.
