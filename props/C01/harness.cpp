// C01 correspondence harness: the real ola::Universe with real BasicInputPort / BasicOutputPort /
// Client subclasses that record what the universe hands out.  Time is fully controlled: the
// universe's Clock and the select-server wake-up time (which BasicInputPort::DmxChanged stamps
// frames with) are plain variables set from the payload.
#include <sys/time.h>
#include <algorithm>
#include <iterator>
#include <map>
#include <memory>
#include <new>
#include <set>
#include <sstream>
#include <string>
#include <utility>
#include <vector>
// only to print the housekeeping mark of m_source_clients (an internal observable)
#define private public
#include "olad/Universe.h"
#undef private
#include "ola/Clock.h"
#include "ola/DmxBuffer.h"
#include "ola/io/SelectServerInterface.h"
#include "ola/rdm/UID.h"
#include "olad/DmxSource.h"
#include "olad/PluginAdaptor.h"
#include "olad/Port.h"
#include "olad/Universe.h"
#include "olad/plugin_api/Client.h"
#include "olad/plugin_api/UniverseStore.h"
#include "vh.h"

using ola::DmxBuffer;
using ola::TimeStamp;
using std::string;
using std::vector;

static const unsigned int UNI = 7;
static const unsigned int NOBJ = 8;

static TimeStamp ts_of(unsigned long long us) {
  struct timeval tv;
  tv.tv_sec = us / 1000000ULL;
  tv.tv_usec = us % 1000000ULL;
  return TimeStamp(tv);
}

class FixedClock: public ola::Clock {
 public:
  FixedClock() : ola::Clock() {}
  void CurrentMonotonicTime(TimeStamp *t) const { *t = now; }
  void CurrentRealTime(TimeStamp *t) const { *t = now; }
  void CurrentTime(TimeStamp *t) const { *t = now; }
  TimeStamp now;
};

class FixedSS: public ola::io::SelectServerInterface {
 public:
  explicit FixedSS(const TimeStamp *wake) : m_wake(wake) {}
  bool AddReadDescriptor(ola::io::ReadFileDescriptor *) { return true; }
  bool AddReadDescriptor(ola::io::ConnectedDescriptor *, bool = false) { return true; }
  void RemoveReadDescriptor(ola::io::ReadFileDescriptor *) {}
  void RemoveReadDescriptor(ola::io::ConnectedDescriptor *) {}
  bool AddWriteDescriptor(ola::io::WriteFileDescriptor *) { return true; }
  void RemoveWriteDescriptor(ola::io::WriteFileDescriptor *) {}
  ola::thread::timeout_id RegisterRepeatingTimeout(unsigned int, ola::Callback0<bool> *) {
    return ola::thread::INVALID_TIMEOUT;
  }
  ola::thread::timeout_id RegisterRepeatingTimeout(const ola::TimeInterval&, ola::Callback0<bool>*) {
    return ola::thread::INVALID_TIMEOUT;
  }
  ola::thread::timeout_id RegisterSingleTimeout(unsigned int, ola::SingleUseCallback0<void> *) {
    return ola::thread::INVALID_TIMEOUT;
  }
  ola::thread::timeout_id RegisterSingleTimeout(const ola::TimeInterval&,
                                                ola::SingleUseCallback0<void> *) {
    return ola::thread::INVALID_TIMEOUT;
  }
  void RemoveTimeout(ola::thread::timeout_id) {}
  const TimeStamp *WakeUpTime() const { return m_wake; }
  void Execute(ola::BaseCallback0<void> *callback) { callback->Run(); }
  void DrainCallbacks() {}
 private:
  const TimeStamp *m_wake;
};

struct Ev { char kind; unsigned int who; string data; unsigned int prio; bool bad_uni; };
static vector<Ev> g_events;

class HPort: public ola::BasicInputPort {
 public:
  HPort(unsigned int id, const ola::PluginAdaptor *pa)
      : ola::BasicInputPort(NULL, id, pa), caps(false),
        inherited(ola::dmx::SOURCE_PRIORITY_DEFAULT) {}
  string Description() const { return ""; }
  const DmxBuffer &ReadDMX() const { return buf; }
  uint8_t InheritedPriority() const { return inherited; }
  DmxBuffer buf;
  bool caps;
  uint8_t inherited;
 protected:
  bool SupportsPriorities() const { return caps; }
};

class HOut: public ola::BasicOutputPort {
 public:
  explicit HOut(unsigned int id) : ola::BasicOutputPort(NULL, id), ret(true), m_id(id) {}
  bool ret;  // scripted return value of WriteDMX
  string Description() const { return ""; }
  bool WriteDMX(const DmxBuffer &buffer, uint8_t priority) {
    Ev e = {'W', m_id, buffer.Get(), priority, false};
    g_events.push_back(e);
    return ret;
  }
 private:
  unsigned int m_id;
};

class HClient: public ola::Client {
 public:
  explicit HClient(unsigned int id) : ola::Client(NULL, ola::rdm::UID(0, id)), ret(true), m_id(id) {}
  bool ret;  // scripted return value of SendDMX
  bool SendDMX(unsigned int universe, uint8_t priority, const DmxBuffer &buffer) {
    Ev e = {'S', m_id, buffer.Get(), priority, universe != UNI};
    g_events.push_back(e);
    return ret;
  }
 private:
  unsigned int m_id;
};

static uint8_t g_dummy = 0;
static void set_buf(DmxBuffer *b, const vector<uint8_t> &d) {
  // what a plugin does with a received frame; a non-NULL pointer also for an empty frame
  b->Set(d.empty() ? &g_dummy : d.data(), d.size());
}

// "tv nsec nusec tsec tusec": DmxSource::IsSet / IsActive on raw struct timeval values
static string handle_tv(const vector<string> &a) {
  struct timeval n, t;
  n.tv_sec = vh::num(a[1]); n.tv_usec = vh::num(a[2]);
  t.tv_sec = vh::num(a[3]); t.tv_usec = vh::num(a[4]);
  DmxBuffer b;
  ola::DmxSource src(b, TimeStamp(t), 0);
  return string("bset=") + (src.IsSet() ? "1" : "0") + ";bact=" + (src.IsActive(TimeStamp(n)) ? "1" : "0");
}

static string handle(const string &payload) {
  if (payload.compare(0, 3, "tv ") == 0) return handle_tv(vh::split(payload));
  FixedClock clock;
  TimeStamp wake;
  FixedSS ss(&wake);
  ola::PluginAdaptor pa(NULL, &ss, NULL, NULL, NULL, NULL, NULL);
  ola::UniverseStore store(NULL, NULL);
  ola::Universe *u = new ola::Universe(UNI, &store, NULL, &clock);
  vector<HPort*> ports;
  vector<HOut*> outs;
  for (unsigned int i = 0; i < NOBJ; i++) {
    ports.push_back(new HPort(i, &pa));
    outs.push_back(new HOut(i));
  }
  // the universe keeps clients in containers ordered by address: one block, ascending ids
  void *raw = operator new(NOBJ * sizeof(HClient));
  HClient *clients = static_cast<HClient*>(raw);
  for (unsigned int i = 0; i < NOBJ; i++) new (&clients[i]) HClient(i);

  std::ostringstream out;
  // defaults of a fresh universe and a fresh input port
  out << "init=" << (u->MergeMode() == ola::Universe::MERGE_LTP ? 1 : 0) << "/"
      << static_cast<int>(u->ActivePriority()) << "/" << static_cast<int>(ports[0]->GetPriority()) << "/"
      << (ports[0]->GetPriorityMode() == ola::PRIORITY_MODE_INHERIT ? 1 : 0) << "/"
      << static_cast<int>(ports[0]->InheritedPriority()) << "/"
      << (ports[0]->PriorityCapability() == ola::CAPABILITY_FULL ? 1 : 0) << ";";
  vector<string> toks = vh::split(payload);
  unsigned int k = 0;
  for (size_t t = 0; t < toks.size(); t++) {
    if (toks[t].empty()) continue;
    vector<string> f = vh::split(toks[t], ',');
    const string &op = f[0];
    unsigned int id = f.size() > 1 ? vh::num(f[1]) % NOBJ : 0;
    g_events.clear();
    if (op == "pd") {
      wake = ts_of(vh::num(f[3]));
      clock.now = ts_of(vh::num(f[4]));
      set_buf(&ports[id]->buf, vh::unhex(f[2]));
      ports[id]->DmxChanged();
    } else if (op == "pc") {
      clock.now = ts_of(vh::num(f[2]));
      u->PortDataChanged(ports[id]);
    } else if (op == "cd") {
      clock.now = ts_of(vh::num(f[5]));
      DmxBuffer b;
      set_buf(&b, vh::unhex(f[2]));
      ola::DmxSource src(b, ts_of(vh::num(f[4])), static_cast<uint8_t>(vh::num(f[3])));
      clients[id].DMXReceived(UNI, src);
      u->SourceClientDataChanged(&clients[id]);
    } else if (op == "cc") {
      clock.now = ts_of(vh::num(f[2]));
      u->SourceClientDataChanged(&clients[id]);
    } else if (op == "mode") {
      u->SetMergeMode(f[1] == "1" ? ola::Universe::MERGE_LTP : ola::Universe::MERGE_HTP);
    } else if (op == "ai") {
      // what PortManager does when patching
      u->AddPort(static_cast<ola::InputPort*>(ports[id]));
      ports[id]->SetUniverse(u);
    } else if (op == "ri") {
      u->RemovePort(static_cast<ola::InputPort*>(ports[id]));
      ports[id]->SetUniverse(NULL);
    } else if (op == "as") {
      u->AddSourceClient(&clients[id]);
    } else if (op == "rs") {
      u->RemoveSourceClient(&clients[id]);
    } else if (op == "cl") {
      u->CleanStaleSourceClients();
    } else if (op == "wr") {
      outs[id]->ret = f[2] == "1";
    } else if (op == "sr") {
      clients[id].ret = f[2] == "1";
    } else if (op == "co") {
      DmxBuffer b;
      set_buf(&b, vh::unhex(f[2]));
      ola::DmxSource src(b, ts_of(vh::num(f[4])), static_cast<uint8_t>(vh::num(f[3])));
      clients[id].DMXReceived(UNI + 1 + (id % 3), src);
    } else if (op == "sd") {
      DmxBuffer b;
      set_buf(&b, vh::unhex(f[1]));
      u->SetDMX(b);
    } else if (op == "ao") {
      u->AddPort(static_cast<ola::OutputPort*>(outs[id]));
    } else if (op == "ro") {
      u->RemovePort(static_cast<ola::OutputPort*>(outs[id]));
    } else if (op == "ak") {
      u->AddSinkClient(&clients[id]);
    } else if (op == "rk") {
      u->RemoveSinkClient(&clients[id]);
    } else if (op == "pp") {
      ports[id]->SetPriority(static_cast<uint8_t>(vh::num(f[2])));
    } else if (op == "pm") {
      ports[id]->SetPriorityMode(f[2] == "1" ? ola::PRIORITY_MODE_INHERIT : ola::PRIORITY_MODE_STATIC);
    } else if (op == "ph") {
      ports[id]->inherited = static_cast<uint8_t>(vh::num(f[2]));
    } else if (op == "pk") {
      ports[id]->caps = f[2] == "1";
    } else {
      out << "badop" << k << "=" << op << ";";
    }
    string cur = u->GetDMX().Get();
    out << "b" << k << "=" << vh::hex(cur) << ";p" << k << "=" << static_cast<int>(u->ActivePriority())
        << ";e" << k << "=";
    if (g_events.empty()) out << "-";
    for (size_t i = 0; i < g_events.size(); i++) {
      const Ev &e = g_events[i];
      if (i) out << ",";
      out << e.kind << e.who << ":" << (e.data == cur ? string("=") : vh::hex(e.data)) << ":" << e.prio;
      if (e.bad_uni) out << "!uni";
    }
    out << ";m" << k << "=";
    vector<ola::InputPort*> ips;
    u->InputPorts(&ips);
    for (size_t i = 0; i < ips.size(); i++) out << (i ? "." : "") << ips[i]->PortId();
    out << "/";
    bool first = true;
    for (unsigned int i = 0; i < NOBJ; i++)
      if (u->ContainsSourceClient(&clients[i])) {
        out << (first ? "" : ".") << i << (u->m_source_clients[&clients[i]] ? "*" : "");
        first = false;
      }
    out << "/";
    vector<ola::OutputPort*> ops;
    u->OutputPorts(&ops);
    for (size_t i = 0; i < ops.size(); i++) out << (i ? "." : "") << ops[i]->PortId();
    out << "/";
    first = true;
    for (unsigned int i = 0; i < NOBJ; i++)
      if (u->ContainsSinkClient(&clients[i])) { out << (first ? "" : ".") << i; first = false; }
    out << ";";
    k++;
  }
  delete u;
  for (unsigned int i = 0; i < NOBJ; i++) {
    delete ports[i];
    delete outs[i];
    clients[i].~HClient();
  }
  operator delete(raw);
  string r = out.str();
  if (!r.empty() && r[r.size() - 1] == ';') r.erase(r.size() - 1);
  return r;
}

int main(int argc, char **argv) { return vh::run(argc, argv, handle); }
