// C01 correspondence harness: the real ola::Universe with real BasicInputPort / BasicOutputPort /
// Client subclasses that record what the universe hands out.  Time is fully controlled: the
// universe's Clock and the select-server wake-up time (which BasicInputPort::DmxChanged stamps
// frames with) are plain variables set from the payload.
#include <sys/time.h>
#include <algorithm>
#include <deque>
#include <iterator>
#include <map>
#include <memory>
#include <new>
#include <set>
#include <sstream>
#include <string>
#include <utility>
#include <vector>
// only to print the housekeeping mark of m_source_clients (an internal observable)
#define private public
#include "olad/Universe.h"
#undef private
#include "ola/Clock.h"
#include "ola/DmxBuffer.h"
#include "ola/io/SelectServerInterface.h"
#include "ola/rdm/UID.h"
#include "olad/DmxSource.h"
#include "olad/PluginAdaptor.h"
#include "olad/Port.h"
#include "olad/Universe.h"
#include "common/protocol/Ola.pb.h"
#include "common/protocol/OlaService.pb.h"
#include "olad/plugin_api/Client.h"
#include "olad/plugin_api/PortManager.h"
#include "olad/plugin_api/UniverseStore.h"
#include "vh.h"

using ola::DmxBuffer;
using ola::TimeStamp;
using std::string;
using std::vector;

static const unsigned int UNIS[2] = {7, 8};   // two universes sharing the clients
static const unsigned int OTHER_UNI = 20;
static const unsigned int NOBJ = 8;

static TimeStamp ts_of(unsigned long long us) {
  struct timeval tv;
  tv.tv_sec = us / 1000000ULL;
  tv.tv_usec = us % 1000000ULL;
  return TimeStamp(tv);
}

class FixedClock: public ola::Clock {
 public:
  FixedClock() : ola::Clock() {}
  void CurrentMonotonicTime(TimeStamp *t) const { *t = now; }
  void CurrentRealTime(TimeStamp *t) const { *t = now; }
  void CurrentTime(TimeStamp *t) const { *t = now; }
  TimeStamp now;
};

class FixedSS: public ola::io::SelectServerInterface {
 public:
  explicit FixedSS(const TimeStamp *wake) : m_wake(wake) {}
  bool AddReadDescriptor(ola::io::ReadFileDescriptor *) { return true; }
  bool AddReadDescriptor(ola::io::ConnectedDescriptor *, bool = false) { return true; }
  void RemoveReadDescriptor(ola::io::ReadFileDescriptor *) {}
  void RemoveReadDescriptor(ola::io::ConnectedDescriptor *) {}
  bool AddWriteDescriptor(ola::io::WriteFileDescriptor *) { return true; }
  void RemoveWriteDescriptor(ola::io::WriteFileDescriptor *) {}
  ola::thread::timeout_id RegisterRepeatingTimeout(unsigned int, ola::Callback0<bool> *) {
    return ola::thread::INVALID_TIMEOUT;
  }
  ola::thread::timeout_id RegisterRepeatingTimeout(const ola::TimeInterval&, ola::Callback0<bool>*) {
    return ola::thread::INVALID_TIMEOUT;
  }
  ola::thread::timeout_id RegisterSingleTimeout(unsigned int, ola::SingleUseCallback0<void> *) {
    return ola::thread::INVALID_TIMEOUT;
  }
  ola::thread::timeout_id RegisterSingleTimeout(const ola::TimeInterval&,
                                                ola::SingleUseCallback0<void> *) {
    return ola::thread::INVALID_TIMEOUT;
  }
  void RemoveTimeout(ola::thread::timeout_id) {}
  const TimeStamp *WakeUpTime() const { return m_wake; }
  void Execute(ola::BaseCallback0<void> *callback) { callback->Run(); }
  void DrainCallbacks() {}
 private:
  const TimeStamp *m_wake;
};

struct Ev { char kind; unsigned int who; string data; unsigned int prio; unsigned int uni; };
static vector<Ev> g_events;

class HPort: public ola::BasicInputPort {
 public:
  HPort(unsigned int id, const ola::PluginAdaptor *pa)
      : ola::BasicInputPort(NULL, id, pa), caps(false),
        inherited(ola::dmx::SOURCE_PRIORITY_DEFAULT) {}
  string Description() const { return ""; }
  const DmxBuffer &ReadDMX() const { return buf; }
  uint8_t InheritedPriority() const { return inherited; }
  DmxBuffer buf;
  bool caps;
  uint8_t inherited;
 protected:
  bool SupportsPriorities() const { return caps; }
};

class HOut: public ola::BasicOutputPort {
 public:
  HOut(unsigned int id, unsigned int uni)
      : ola::BasicOutputPort(NULL, id), ret(true), caps(id % 2 == 1), m_id(id), m_uni(uni) {}
  bool ret;  // scripted return value of WriteDMX
  bool caps;  // odd output ports support priorities (CAPABILITY_FULL), even ones have CAPABILITY_NONE
  string Description() const { return ""; }
  bool WriteDMX(const DmxBuffer &buffer, uint8_t priority) {
    Ev e = {'W', m_id, buffer.Get(), priority, m_uni};
    g_events.push_back(e);
    return ret;
  }
 protected:
  bool SupportsPriorities() const { return caps; }
 private:
  unsigned int m_id, m_uni;
};

// sink kind 1: a Client whose SendDMX is replaced (scripted return value)
class HClient: public ola::Client {
 public:
  explicit HClient(unsigned int id) : ola::Client(NULL, ola::rdm::UID(0, id)), ret(true), m_id(id) {}
  bool ret;  // scripted return value of SendDMX
  bool SendDMX(unsigned int universe, uint8_t priority, const DmxBuffer &buffer) {
    Ev e = {'S', m_id, buffer.Get(), priority, universe};
    g_events.push_back(e);
    return ret;
  }
 private:
  unsigned int m_id;
};

// sink kind 2 ("rc" cases): the REAL ola::Client::SendDMX / SendDMXCallback on top of a stub that
// behaves like the RPC channel: the request goes out at once, the completion callback runs only
// when the ack arrives (op "ack"), possibly never.
class DeferredStub: public ola::proto::OlaClientService_Stub {
 public:
  explicit DeferredStub(unsigned int id) : ola::proto::OlaClientService_Stub(NULL), m_id(id) {}
  void UpdateDmxData(ola::rpc::RpcController*, const ola::proto::DmxData *request, ola::proto::Ack*,
                     ola::rpc::RpcService::CompletionCallback *done) {
    Ev e = {'S', m_id, request->data(), static_cast<unsigned int>(request->priority()),
            static_cast<unsigned int>(request->universe())};
    g_events.push_back(e);
    pending.push_back(done);
  }
  void Deliver(unsigned int n) {   // n == 0: all
    unsigned int todo = n ? n : pending.size();
    while (todo-- && !pending.empty()) {
      ola::rpc::RpcService::CompletionCallback *cb = pending.front();
      pending.pop_front();
      cb->Run();
    }
  }
  std::deque<ola::rpc::RpcService::CompletionCallback*> pending;
 private:
  unsigned int m_id;
};

static uint8_t g_dummy = 0;
// The frame field of a payload: hex = that frame; there are three kinds of EMPTY frame:
//   "-"  an initialised buffer of length 0 (Set(ptr, 0), what a plugin does with a 0-slot packet)
//   "~"  a NEVER-INITIALISED buffer (default-constructed DmxBuffer, no block allocated)
//   "_"  a buffer that held data and was Reset() (block allocated, length 0)
static void set_buf(DmxBuffer *b, const string &field) {
  if (field == "~") {
    *b = DmxBuffer();
    return;
  }
  if (field == "_") {
    static const uint8_t junk[3] = {0xde, 0xad, 0xbe};
    b->Set(junk, sizeof(junk));
    b->Reset();
    return;
  }
  vector<uint8_t> d = vh::unhex(field);
  b->Set(d.empty() ? &g_dummy : d.data(), d.size());
}

// "tv nsec nusec tsec tusec": DmxSource::IsSet / IsActive on raw struct timeval values
static string handle_tv(const vector<string> &a) {
  struct timeval n, t;
  n.tv_sec = vh::num(a[1]); n.tv_usec = vh::num(a[2]);
  t.tv_sec = vh::num(a[3]); t.tv_usec = vh::num(a[4]);
  DmxBuffer b;
  ola::DmxSource src(b, TimeStamp(t), 0);
  return string("bset=") + (src.IsSet() ? "1" : "0") + ";bact=" + (src.IsActive(TimeStamp(n)) ? "1" : "0");
}

static string handle(const string &payload) {
  if (payload.compare(0, 3, "tv ") == 0) return handle_tv(vh::split(payload));
  vector<string> toks = vh::split(payload);
  const bool real_clients = !toks.empty() && toks[0] == "rc";
  const bool two = payload.find('@') != string::npos;
  FixedClock clock;
  TimeStamp wake;
  FixedSS ss(&wake);
  ola::PluginAdaptor pa(NULL, &ss, NULL, NULL, NULL, NULL, NULL);
  ola::UniverseStore store(NULL, NULL);
  ola::PortManager port_manager(&store, NULL);   // only its priority entry points are used
  ola::Universe *us[2];
  vector<HPort*> ports[2];
  vector<HOut*> outs[2];
  for (unsigned int x = 0; x < 2; x++) {
    us[x] = new ola::Universe(UNIS[x], &store, NULL, &clock);
    for (unsigned int i = 0; i < NOBJ; i++) {
      ports[x].push_back(new HPort(i, &pa));
      outs[x].push_back(new HOut(i, UNIS[x]));
    }
  }
  // the universe keeps clients in containers ordered by address: one block, ascending ids
  size_t stride = std::max(sizeof(HClient), sizeof(ola::Client));
  stride = (stride + 15) / 16 * 16;
  char *raw = static_cast<char*>(operator new(NOBJ * stride));
  ola::Client *clients[NOBJ];
  DeferredStub *stubs[NOBJ];
  for (unsigned int i = 0; i < NOBJ; i++) {
    stubs[i] = NULL;
    if (real_clients) {
      stubs[i] = new DeferredStub(i);   // owned by the client
      clients[i] = new (raw + i * stride) ola::Client(stubs[i], ola::rdm::UID(0, i));
    } else {
      clients[i] = new (raw + i * stride) HClient(i);
    }
  }

  std::ostringstream out;
  // defaults of a fresh universe and a fresh input port
  out << "init=" << (us[0]->MergeMode() == ola::Universe::MERGE_LTP ? 1 : 0) << "/"
      << static_cast<int>(us[0]->ActivePriority()) << "/" << static_cast<int>(ports[0][0]->GetPriority()) << "/"
      << (ports[0][0]->GetPriorityMode() == ola::PRIORITY_MODE_INHERIT ? 1 : 0) << "/"
      << static_cast<int>(ports[0][0]->InheritedPriority()) << "/"
      << (ports[0][0]->PriorityCapability() == ola::CAPABILITY_FULL ? 1 : 0) << ";";
  unsigned int k = 0;
  for (size_t t = 0; t < toks.size(); t++) {
    if (toks[t].empty() || toks[t] == "rc") continue;
    unsigned int x = 0;
    string tok = toks[t];
    if (tok[0] == '@') { x = 1; tok = tok.substr(1); }
    ola::Universe *u = us[x];
    const unsigned int UNI = UNIS[x];
    vector<string> f = vh::split(tok, ',');
    const string &op = f[0];
    unsigned int id = f.size() > 1 ? vh::num(f[1]) % NOBJ : 0;
    HPort *port = ports[x][id];
    HOut *outp = outs[x][id];
    ola::Client *client = clients[id];
    g_events.clear();
    if (op == "pd") {
      wake = ts_of(vh::num(f[3]));
      clock.now = ts_of(vh::num(f[4]));
      set_buf(&port->buf, f[2]);
      port->DmxChanged();
    } else if (op == "pc") {
      clock.now = ts_of(vh::num(f[2]));
      u->PortDataChanged(port);
    } else if (op == "cd") {
      clock.now = ts_of(vh::num(f[5]));
      DmxBuffer b;
      set_buf(&b, f[2]);
      ola::DmxSource src(b, ts_of(vh::num(f[4])), static_cast<uint8_t>(vh::num(f[3])));
      client->DMXReceived(UNI, src);
      u->SourceClientDataChanged(client);
    } else if (op == "cc") {
      clock.now = ts_of(vh::num(f[2]));
      u->SourceClientDataChanged(client);
    } else if (op == "mode") {
      u->SetMergeMode(f[1] == "1" ? ola::Universe::MERGE_LTP : ola::Universe::MERGE_HTP);
    } else if (op == "ai") {
      // what PortManager does when patching
      u->AddPort(static_cast<ola::InputPort*>(port));
      port->SetUniverse(u);
    } else if (op == "ri") {
      u->RemovePort(static_cast<ola::InputPort*>(port));
      port->SetUniverse(NULL);
    } else if (op == "as") {
      u->AddSourceClient(client);
    } else if (op == "rs") {
      u->RemoveSourceClient(client);
    } else if (op == "cl") {
      u->CleanStaleSourceClients();
    } else if (op == "wr") {
      outp->ret = f[2] == "1";
    } else if (op == "sr") {
      if (!real_clients) static_cast<HClient*>(client)->ret = f[2] == "1";
    } else if (op == "ack") {
      if (real_clients) stubs[id]->Deliver(vh::num(f[2]));
    } else if (op == "co") {
      DmxBuffer b;
      set_buf(&b, f[2]);
      ola::DmxSource src(b, ts_of(vh::num(f[4])), static_cast<uint8_t>(vh::num(f[3])));
      client->DMXReceived(OTHER_UNI + (id % 3), src);
    } else if (op == "sd") {
      DmxBuffer b;
      set_buf(&b, f[1]);
      u->SetDMX(b);
    } else if (op == "ao") {
      u->AddPort(static_cast<ola::OutputPort*>(outp));
    } else if (op == "ro") {
      u->RemovePort(static_cast<ola::OutputPort*>(outp));
    } else if (op == "ak") {
      u->AddSinkClient(client);
    } else if (op == "rk") {
      u->RemoveSinkClient(client);
    } else if (op == "pp") {
      port->SetPriority(static_cast<uint8_t>(vh::num(f[2])));
    } else if (op == "pm") {
      port->SetPriorityMode(f[2] == "1" ? ola::PRIORITY_MODE_INHERIT : ola::PRIORITY_MODE_STATIC);
    } else if (op == "ph") {
      port->inherited = static_cast<uint8_t>(vh::num(f[2]));
    } else if (op == "ms") {
      port_manager.SetPriorityStatic(port, static_cast<uint8_t>(vh::num(f[2])));
    } else if (op == "mi") {
      port_manager.SetPriorityInherit(port);
    } else if (op == "os") {
      port_manager.SetPriorityStatic(outp, static_cast<uint8_t>(vh::num(f[2])));
    } else if (op == "oi") {
      port_manager.SetPriorityInherit(outp);
    } else if (op == "pk") {
      port->caps = f[2] == "1";
    } else {
      out << "badop" << k << "=" << op << ";";
    }
    string cur = u->GetDMX().Get();
    out << "b" << k << "=" << vh::hex(cur) << ";";
    if (two) out << "bo" << k << "=" << vh::hex(us[1 - x]->GetDMX().Get()) << ";";
    out << "p" << k << "=" << static_cast<int>(u->ActivePriority()) << ";e" << k << "=";
    if (g_events.empty()) out << "-";
    for (size_t i = 0; i < g_events.size(); i++) {
      const Ev &e = g_events[i];
      if (i) out << ",";
      out << e.kind << e.who << ":" << (e.data == cur ? string("=") : vh::hex(e.data)) << ":" << e.prio;
      if (e.uni != UNI) out << "!uni" << e.uni;
    }
    out << ";m" << k << "=";
    vector<ola::InputPort*> ips;
    u->InputPorts(&ips);
    for (size_t i = 0; i < ips.size(); i++) out << (i ? "." : "") << ips[i]->PortId();
    out << "/";
    bool first = true;
    for (unsigned int i = 0; i < NOBJ; i++)
      if (u->ContainsSourceClient(clients[i])) {
        out << (first ? "" : ".") << i << (u->m_source_clients[clients[i]] ? "*" : "");
        first = false;
      }
    out << "/";
    vector<ola::OutputPort*> ops;
    u->OutputPorts(&ops);
    for (size_t i = 0; i < ops.size(); i++) out << (i ? "." : "") << ops[i]->PortId();
    out << "/";
    first = true;
    for (unsigned int i = 0; i < NOBJ; i++)
      if (u->ContainsSinkClient(clients[i])) { out << (first ? "" : ".") << i; first = false; }
    out << ";";
    k++;
  }
  // acks that never arrived: complete them now so that the RPC objects are released
  for (unsigned int i = 0; i < NOBJ; i++)
    if (stubs[i]) stubs[i]->Deliver(0);
  for (unsigned int x = 0; x < 2; x++) {
    delete us[x];
    for (unsigned int i = 0; i < NOBJ; i++) {
      delete ports[x][i];
      delete outs[x][i];
    }
  }
  for (unsigned int i = 0; i < NOBJ; i++) clients[i]->~Client();
  operator delete(raw);
  string r = out.str();
  if (!r.empty() && r[r.size() - 1] == ';') r.erase(r.size() - 1);
  return r;
}

int main(int argc, char **argv) { return vh::run(argc, argv, handle); }
