(* C01 model driver.  payload: ops separated by spaces, fields by commas (see prop.py).
   After every op prints b<k> (frame held), e<k> (fan-out calls of that op, "=" for a frame equal
   to the one held), p<k> (m_active_priority), m<k> (membership lists). *)
let nl (l : n list) = String.concat "." (List.map (fun x -> string_of_int (int_of_n x)) l)
let parse_op (s : string) : op =
  let n i = n_of_string i in
  (* "-", "~" and "_" are the three C++ forms of the one empty frame *)
  let bytes_of_hex h = if h = "~" || h = "_" then [] else bytes_of_hex h in
  match String.split_on_char ',' s with
  | ["pd"; i; h; ts; now] -> PortData (n i, bytes_of_hex h, n ts, n now)
  | ["pc"; i; now] -> PortChanged (n i, n now)
  | ["cd"; c; h; p; ts; now] -> ClientData (n c, bytes_of_hex h, n p, n ts, n now)
  | ["cc"; c; now] -> ClientChanged (n c, n now)
  | ["mode"; b] -> SetMode (b = "1")
  | ["ai"; i] -> AddInput (n i) | ["ri"; i] -> RemoveInput (n i)
  | ["as"; c] -> AddSource (n c) | ["rs"; c] -> RemoveSource (n c)
  | ["cl"] -> CleanStale
  | ["wr"; i; b] -> OutResult (n i, b = "1")
  | ["sr"; c; b] -> SinkResult (n c, b = "1")
  | ["sd"; h] -> SetDMX (bytes_of_hex h)
  | ["co"; c; h; p; ts] -> ClientOther (n c, bytes_of_hex h, n p, n ts)
  | ["ack"; c; k] -> AckClient (n c, n k)
  | ["ms"; i; v] -> MgrStatic (n i, n v)
  | ["mi"; i] -> MgrInherit (n i)
  | ["os"; i; v] -> MgrOutStatic (n i, n v)
  | ["oi"; i] -> MgrOutInherit (n i)
  | ["ao"; i] -> AddOutput (n i) | ["ro"; i] -> RemoveOutput (n i)
  | ["ak"; c] -> AddSink (n c) | ["rk"; c] -> RemoveSink (n c)
  | ["pp"; i; p] -> SetPortPrio (n i, n p)
  | ["pm"; i; b] -> SetPortMode (n i, b = "1")
  | ["ph"; i; p] -> SetInherited (n i, n p)
  | ["pk"; i; b] -> SetCaps (n i, b = "1")
  | _ -> failwith ("bad op " ^ s)
let ev_s (buf : n list) (e : event) : string =
  let d x = if x = buf then "=" else hex_of_bytes x in
  match e with
  | WriteDMX (p, x, pr) -> Printf.sprintf "W%d:%s:%d" (int_of_n p) (d x) (int_of_n pr)
  | SendDMX (c, x, pr) -> Printf.sprintf "S%d:%s:%d" (int_of_n c) (d x) (int_of_n pr)
module SS = Set.Make (String)
(* "tv nsec nusec tsec tusec": DmxSource::IsSet / IsActive on raw struct timeval values *)
let handle_tv (a : string list) : string =
  match a with
  | [_; ns; nu; ts; tu] ->
    let now = (n_of_string ns, n_of_string nu) and t = (n_of_string ts, n_of_string tu) in
    Printf.sprintf "bset=%s;bact=%s;class=timeval" (bool01 (tv_isset t)) (bool01 (tv_active now t))
  | _ -> "bad-tv"
let handle (p : string) : string =
  if String.length p > 3 && String.sub p 0 3 = "tv " then handle_tv (split p) else
  let b = Buffer.create 256 in
  let np = new_port in
  Buffer.add_string b (Printf.sprintf "init=%s/%d/%d/%s/%d/%s;" (bool01 init_world.w_u.u_ltp)
    (int_of_n init_world.w_u.u_prio) (int_of_n np.p_static) (bool01 np.p_inherit) (int_of_n np.p_inherited)
    (bool01 np.p_caps));
  let ww = ref (init_world, init_world) in      (* the two universes; "@" ops go to the second *)
  let two = String.contains p '@' in
  let kinds = ref SS.empty in
  let k = ref 0 in
  List.iter (fun tok ->
    if tok <> "" && tok <> "rc" then begin
      let second = tok.[0] = '@' in
      let tok = if second then String.sub tok 1 (String.length tok - 1) else tok in
      let o = parse_op tok in
      let w = ref (if second then snd !ww else fst !ww) in
      (match apply_update !w o with
       | Some ((chg, now), w1) ->
         let a = scan now chg w1 in
         let nact = List.length a.a_act in
         let kind =
           if nact = 0 then "nolive"
           else if not a.a_cia then (if live now (changed_source chg w1) then "lowprio" else "dead")
           else if nact = 1 then "single"
           else if w1.w_u.u_ltp then
             (let cs = changed_source chg w1 in
              if List.exists (fun s -> N.ltb cs.s_ts s.s_ts) a.a_act then "ltpolder" else "ltpnewest")
           else (if nact = 2 then "htp2" else "htp3+") in
         kinds := SS.add kind !kinds
       | None -> ());
      let (ww2, evs) = step2 !ww (if second then On2 o else On1 o) in
      ww := ww2;
      let w2 = if second then snd ww2 else fst ww2 in
      let other = if second then fst ww2 else snd ww2 in
      let u = w2.w_u in
      Buffer.add_string b (Printf.sprintf "b%d=%s;" !k (hex_of_bytes u.u_buf));
      if two then Buffer.add_string b (Printf.sprintf "bo%d=%s;" !k (hex_of_bytes other.w_u.u_buf));
      Buffer.add_string b (Printf.sprintf "p%d=%d;e%d=%s;m%d=%s/%s/%s/%s;"
        !k (int_of_n u.u_prio) !k
        (if evs = [] then "-" else String.concat "," (List.map (ev_s u.u_buf) evs))
        !k (nl u.u_inputs)
        (String.concat "." (List.map (fun (c, st) -> string_of_int (int_of_n c) ^ (if st then "*" else "")) u.u_clients))
        (nl u.u_outs) (nl u.u_sinks));
      incr k
    end) (split p);
  (* input class: richest HTP outcome / richest LTP multi-source outcome / whether some update was
     rejected (no live source, dead or low-priority updater) / whether a sole-member update occurred *)
  let has x = SS.mem x !kinds in
  let cls =
    if SS.is_empty !kinds then "admin-only" else
    (if has "htp3+" then "htp3+" else if has "htp2" then "htp2" else "-") ^ "/" ^
    (if has "ltpolder" && has "ltpnewest" then "ltp-both" else if has "ltpolder" then "ltp-older"
     else if has "ltpnewest" then "ltp-newest" else "-") ^ "/" ^
    (if has "nolive" || has "dead" || has "lowprio" then "rejects" else "-") ^ "/" ^
    (if has "single" then "single" else "-") in
  let cls = (if String.length p > 2 && String.sub p 0 3 = "rc " then "real-clients:" else "") ^
            (if two then "2uni:" else "") ^ cls in
  Buffer.add_string b ("class=" ^ cls);
  Buffer.contents b
let () = vh_run handle
