ID = 'C01'
GROUPS = ['common', 'plugin_api']
CXX_SOURCES = []

def gen_consts(v):
    import os
    ents = [('TIMEOUT_US', 'ola::DmxSource::TIMEOUT_INTERVAL.InMilliSeconds() * 1000'),
            ('SOURCE_PRIORITY_MIN', 'ola::dmx::SOURCE_PRIORITY_MIN'),
            ('SOURCE_PRIORITY_DEFAULT', 'ola::dmx::SOURCE_PRIORITY_DEFAULT'),
            ('SOURCE_PRIORITY_MAX', 'ola::dmx::SOURCE_PRIORITY_MAX'),
            ('DMX_UNIVERSE_SIZE', 'ola::DMX_UNIVERSE_SIZE')]
    return v.gen_consts_cpp(ID, ['olad/DmxSource.h', 'ola/dmx/SourcePriorities.h', 'ola/Constants.h'],
                            ents, os.path.join(v.VERIF, 'props', ID, 'coq', 'Gen.v'),
                            extra_sources=['olad/plugin_api/DmxSource.cpp', 'common/utils/Clock.cpp'])
