ID = 'C01'
GROUPS = ['common', 'plugin_api']
CXX_SOURCES = []

def gen_consts(v):
    import os
    ents = [('TIMEOUT_US', 'ola::DmxSource::TIMEOUT_INTERVAL.InMilliSeconds() * 1000'),
            ('SOURCE_PRIORITY_MIN', 'ola::dmx::SOURCE_PRIORITY_MIN'),
            ('SOURCE_PRIORITY_DEFAULT', 'ola::dmx::SOURCE_PRIORITY_DEFAULT'),
            ('SOURCE_PRIORITY_MAX', 'ola::dmx::SOURCE_PRIORITY_MAX'),
            ('DMX_UNIVERSE_SIZE', 'ola::DMX_UNIVERSE_SIZE'),
            ('USEC_IN_SECONDS', 'ola::USEC_IN_SECONDS'),
            ('TIMEOUT_SEC', 'ola::DmxSource::TIMEOUT_INTERVAL.Seconds()'),
            ('TIMEOUT_USEC', 'ola::DmxSource::TIMEOUT_INTERVAL.MicroSeconds()')]
    return v.gen_consts_cpp(ID, ['olad/DmxSource.h', 'ola/dmx/SourcePriorities.h', 'ola/Constants.h', 'ola/Clock.h'],
                            ents, os.path.join(v.VERIF, 'props', ID, 'coq', 'Gen.v'),
                            extra_sources=['olad/plugin_api/DmxSource.cpp', 'common/utils/Clock.cpp'])


class _SpecKeys(object):
    """b<k> = frame held after op k, e<k> = WriteDMX/SendDMX calls made by op k (ids, frames, priority):
    what the property fixes.  p<k> (m_active_priority, also rewritten by merges that report no
    change) and m<k> (membership lists) are internal observables."""
    def __contains__(self, k):
        return k[:1] in ('b', 'e') or k.startswith('crash')
SPEC_KEYS = _SpecKeys()

PRIOS = [0, 1, 99, 100, 101, 199, 200]
TIMEOUT = 2500000


def hx(bs):
    return ''.join('%02x' % b for b in bs) if bs else '-'


def gen_frame(rng, big_ok=True):
    r = rng.random()
    if r < 0.08:
        n = 0
    elif r < 0.72:
        n = rng.choice([1, 2, 3, 4, 5])
    elif r < 0.90 or not big_ok:
        n = rng.choice([6, 8, 16, 24])
    else:
        n = rng.choice([511, 512, 513, 600, rng.randrange(25, 512)])
    style = rng.random()
    if style < 0.5:
        return [rng.randrange(256) for _ in range(n)]
    if style < 0.8:
        return [rng.choice([0, 0, 1, 127, 128, 254, 255]) for _ in range(n)]
    v = rng.randrange(256)
    return [v] * n


def wrap_age(rng):
    """An age (microseconds) at or inside the range where a fixed-width counter of microseconds,
    milliseconds or seconds would wrap or change sign: 2^k units -1/+0/+1 unit, +-1 us, plus the 2.5 s
    boundary beyond it, or anywhere in [2^k, 2^(k+1)) units."""
    unit = rng.choice([1, 1000, 1000, 10 ** 6])
    bits = rng.choice([15, 16, 24, 31, 31, 31, 32, 32, 33])
    base = (1 << bits) * unit
    e = rng.choice([-unit, -1, 0, 1, unit - 1, unit, TIMEOUT - 1, TIMEOUT, TIMEOUT + 1,
                    rng.randrange(base), rng.randrange(base)])
    return max(0, base + e)


def gen_history_core(rng, nops, big_ok=True):
    ops = []
    nports = rng.choice([1, 2, 2, 3, 3, 4])
    nclients = rng.choice([0, 1, 1, 2, 3])
    if rng.random() < 0.1:
        nports, nclients = rng.choice([(0, 2), (0, 3), (1, 0), (4, 3)])
    port_ids = rng.sample(range(8), nports)
    client_ids = rng.sample(range(8), nclients)
    out_ids = rng.sample(range(8), rng.choice([0, 1, 1, 2, 3]))
    sink_ids = rng.sample(range(8), rng.choice([0, 1, 1, 2, 3]))
    setup = [('ai', i) for i in port_ids] + [('ao', i) for i in out_ids] + [('ak', i) for i in sink_ids]
    rng.shuffle(setup)
    ops += ['%s,%d' % s for s in setup]
    # dependants whose WriteDMX / SendDMX report failure (the universe must still serve everybody)
    if rng.random() < 0.4:
        for i in out_ids:
            if rng.random() < 0.5:
                ops.append('wr,%d,0' % i)
        for c in sink_ids:
            if rng.random() < 0.4:
                ops.append('sr,%d,0' % c)
    if rng.random() < 0.5:
        ops.append('mode,%d' % rng.choice([0, 1]))
    # a small palette so that equal priorities (groups of 2 and more) are common
    palette = [rng.choice(PRIOS + [100, 100]) for _ in range(rng.choice([1, 1, 2, 3]))]
    for i in port_ids:
        r = rng.random()
        if r < 0.35:
            ops.append('pp,%d,%d' % (i, rng.choice(palette)))
        elif r < 0.55:
            ops += ['pk,%d,1' % i, 'pm,%d,1' % i, 'ph,%d,%d' % (i, rng.choice(palette))]
    now = rng.choice([1, 2500000, 2500001, rng.randrange(1, 10 ** 7), rng.randrange(1, 10 ** 12)])
    last_ts = {}   # source key -> last timestamp

    def pick_prio():
        r = rng.random()
        if r < 0.7:
            return rng.choice(palette)
        if r < 0.95:
            return rng.choice(PRIOS)
        return rng.choice([201, 255, rng.randrange(256)])

    def advance():
        nonlocal now
        r = rng.random()
        if r < 0.25:
            d = 0
        elif r < 0.55:
            d = rng.choice([1, 2, 1000, 20000, rng.randrange(1, 100000)])
        elif r < 0.75 and last_ts:
            # aim exactly at the liveness boundary of some source
            t = rng.choice(list(last_ts.values()))
            target = t + rng.choice([TIMEOUT - 1, TIMEOUT, TIMEOUT + 1])
            d = max(0, target - now)
        elif r < 0.9:
            d = rng.choice([TIMEOUT - 1, TIMEOUT, TIMEOUT + 1, 1250000, 2000000])
        elif r < 0.96:
            d = rng.choice([5000000, 10 ** 7, rng.randrange(1, 10 ** 7)])
        else:
            # a very long silence: the age of some source lands on a counter-wrap magnitude
            t = rng.choice(list(last_ts.values())) if last_ts else now
            d = max(0, t + wrap_age(rng) - now)
        now += d

    def stamp():
        r = rng.random()
        if r < 0.8:
            return now
        if r < 0.93:
            return max(0, now - rng.choice([1, 1000, 20000, TIMEOUT - 1, TIMEOUT, TIMEOUT + 1]))
        if r < 0.97:
            return now + rng.choice([1, 1000, TIMEOUT])
        return 0

    for _ in range(nops):
        advance()
        r = rng.random()
        anyport = lambda: rng.choice(port_ids) if port_ids and rng.random() < 0.9 else rng.randrange(8)
        anyclient = lambda: rng.choice(client_ids) if client_ids and rng.random() < 0.9 else rng.randrange(8)
        if r < 0.36:
            i = anyport()
            ts = stamp()
            last_ts[('p', i)] = ts
            ops.append('pd,%d,%s,%d,%d' % (i, hx(gen_frame(rng, big_ok)), ts, now))
        elif r < 0.62 and (client_ids or rng.random() < 0.2):
            c = anyclient()
            ts = stamp()
            last_ts[('c', c)] = ts
            ops.append('cd,%d,%s,%d,%d,%d' % (c, hx(gen_frame(rng, big_ok)), pick_prio(), ts, now))
        elif r < 0.67:
            ops.append('pc,%d,%d' % (anyport(), now))
        elif r < 0.71:
            ops.append('cc,%d,%d' % (anyclient(), now))
        elif r < 0.76:
            ops.append('mode,%d' % rng.choice([0, 1]))
        elif r < 0.80:
            ops.append('%s,%d' % (rng.choice(['ai', 'ri', 'ai']), anyport()))
        elif r < 0.83:
            ops.append('%s,%d' % (rng.choice(['as', 'rs']), anyclient()))
        elif r < 0.87:
            ops.append('%s,%d' % (rng.choice(['ao', 'ro', 'ao']), rng.randrange(8)))
        elif r < 0.90:
            ops.append('%s,%d' % (rng.choice(['ak', 'rk', 'ak']), rng.randrange(8)))
        elif r < 0.925:
            ops.append('cl')
        elif r < 0.94:
            ops.append('%s,%d,%d' % (rng.choice(['wr', 'sr']), rng.randrange(8), rng.choice([0, 0, 1])))
        elif r < 0.95:
            ops.append('sd,%s' % hx(gen_frame(rng, big_ok)))
        elif r < 0.96:
            ops.append('co,%d,%s,%d,%d' % (anyclient(), hx(gen_frame(rng, big_ok)), pick_prio(), stamp()))
        else:
            i = anyport()
            k = rng.choice(['pp', 'pp', 'pm', 'ph', 'pk', 'ms', 'ms', 'mi', 'os', 'oi'])
            if k in ('pp', 'ph', 'ms'):
                ops.append('%s,%d,%d' % (k, i, pick_prio()))
            elif k == 'os':
                ops.append('os,%d,%d' % (rng.randrange(8), pick_prio()))
            elif k == 'oi':
                ops.append('oi,%d' % rng.randrange(8))
            elif k == 'mi':
                ops.append('mi,%d' % i)
            else:
                ops.append('%s,%d,%d' % (k, i, rng.choice([0, 1, 1])))
    return ' '.join(ops)


def gen_priority_admin(rng):
    """Priority administration through the real PortManager (SetPriorityStatic / SetPriorityInherit) on
    input ports of FULL and STATIC capability and on output ports: inherit -> static with the SAME value the
    port stores, other values, values > 200, repeated calls; interleaved with frames from two or three
    sources so that the group and the fan-out priority show the effective priority after every call."""
    ops = []
    port_ids = rng.sample(range(8), rng.choice([2, 2, 3]))
    out_ids = rng.sample(range(8), rng.choice([1, 2]))
    sink_ids = rng.sample(range(8), rng.choice([0, 1]))
    setup = [('ai', i) for i in port_ids] + [('ao', i) for i in out_ids] + [('ak', i) for i in sink_ids]
    rng.shuffle(setup)
    ops += ['%s,%d' % x for x in setup]
    ops.append('mode,%d' % rng.choice([0, 0, 1]))
    stored = {i: 100 for i in port_ids}        # the static value each port stores
    for i in port_ids:
        if rng.random() < 0.7:
            ops.append('pk,%d,1' % i)
        ops.append('ph,%d,%d' % (i, rng.choice([99, 100, 101, 150, 200, 0, 255])))
    client = rng.randrange(8)
    now = rng.randrange(1, 10 ** 7)
    for _ in range(rng.choice([6, 10, 16])):
        now += rng.choice([0, 1, 1000, 40000, 500000])
        r = rng.random()
        i = rng.choice(port_ids)
        if r < 0.18:
            ops.append('mi,%d' % i)
        elif r < 0.45:
            v = rng.choice([stored[i], stored[i], stored[i], 100, 99, 101, 200, 201, 255, 0, rng.randrange(256)])
            ops.append('ms,%d,%d' % (i, v))
            stored[i] = min(v, 200)
        elif r < 0.50:
            ops.append('%s,%d,%d' % (rng.choice(['pk', 'pm']), i, rng.choice([0, 1])))
        elif r < 0.55:
            o = rng.choice(out_ids)
            ops.append(rng.choice(['os,%d,%d' % (o, rng.choice([100, 200, 255, 0])), 'oi,%d' % o]))
        elif r < 0.9:
            ops.append('pd,%d,%s,%d,%d' % (i, hx(gen_frame(rng, False) or [1]), now, now))
        else:
            ops.append('cd,%d,%s,%d,%d,%d' % (client, hx(gen_frame(rng, False) or [2]), rng.choice([100, 150, 200]), now, now))
    return ' '.join(ops)


def gen_housekeeping(rng):
    """The daemon's housekeeping (CleanStaleSourceClients every 10 s) while clients and ports stream
    (frames every 0.5-2 s, so every streaming source stays inside the 2.5 s liveness window); after the
    last run another member of the group updates BEFORE the clients' next frames."""
    ops = []
    nports = rng.choice([1, 1, 2])
    nclients = rng.choice([1, 1, 2, 3])
    port_ids = rng.sample(range(8), nports)
    client_ids = rng.sample(range(8), nclients)
    out_ids = rng.sample(range(8), rng.choice([1, 2]))
    sink_ids = rng.sample(range(8), rng.choice([0, 1, 2]))
    setup = [('ai', i) for i in port_ids] + [('ao', i) for i in out_ids] + [('ak', i) for i in sink_ids]
    rng.shuffle(setup)
    ops += ['%s,%d' % s for s in setup]
    ops.append('mode,%d' % rng.choice([0, 0, 0, 1]))
    if rng.random() < 0.3:
        ops.append('wr,%d,0' % out_ids[0])
    cprio = {c: rng.choice([100, 100, 100, 101, 200, 99]) for c in client_ids}
    # a client may go silent for some periods (then eviction is legitimate)
    silent_from = {c: (rng.choice([1, 2, 3]) if rng.random() < 0.25 else 99) for c in client_ids}
    now = rng.randrange(1, 10 ** 7)
    frame = {}
    for period in range(rng.choice([2, 2, 3, 4])):
        end = now + 10 * 10 ** 6
        while True:
            now += rng.choice([500000, 1000000, 1500000, 2000000, 2400000])
            if now >= end:
                break
            for c in client_ids:
                if period < silent_from[c] and rng.random() < 0.9:
                    frame[c] = gen_frame(rng, False) or [1]
                    ops.append('cd,%d,%s,%d,%d,%d' % (c, hx(frame[c]), cprio[c], now, now))
            for i in port_ids:
                if rng.random() < 0.5:
                    ops.append('pd,%d,%s,%d,%d' % (i, hx(gen_frame(rng, False) or [2]), now, now))
        now = end
        # every streaming source sends once more right before the run (stays live across it)
        for c in client_ids:
            if period < silent_from[c]:
                ops.append('cd,%d,%s,%d,%d,%d' % (c, hx(gen_frame(rng, False) or [3]), cprio[c], now, now))
        ops.append('cl')
    # another member updates first, then the clients again
    now += rng.choice([1, 1000, 500000, 2499999, 2500000])
    for i in port_ids:
        ops.append('pd,%d,%s,%d,%d' % (i, hx(gen_frame(rng, False) or [4]), now, now))
    for c in client_ids:
        if rng.random() < 0.5:
            ops.append('cc,%d,%d' % (c, now))
        else:
            ops.append('cd,%d,%s,%d,%d,%d' % (c, hx(gen_frame(rng, False) or [5]), cprio[c], now, now))
    if rng.random() < 0.3:
        ops += ['cl', 'cl', 'pc,%d,%d' % (port_ids[0], now)]
    return ' '.join(ops)


def gen_history(rng, nops, big_ok=True):
    """A random history; in a third of the cases the sinks are REAL ola::Client objects on a stub with
    deferred acks ("rc", with "ack" ops sprinkled in), in a third the daemon has two universes sharing the
    clients ("@" ops go to the second one)."""
    ops = gen_history_core(rng, nops, big_ok).split(' ')
    real = rng.random() < 0.35
    two = rng.random() < 0.3
    out = []
    for o in ops:
        if two and rng.random() < 0.4:
            o = '@' + o
        out.append(o)
        if rng.random() < 0.06:
            out.append('ack,%d,%d' % (rng.randrange(8), rng.choice([0, 1, 1, 2])))
    return ('rc ' if real else '') + ' '.join(out)


def gen_real_sinks(rng):
    """Real Client::SendDMX/SendDMXCallback under the universe: bursts of frame changes in one or two
    universes that share sink clients while acks are outstanding, delivered late, partially, or never."""
    ops = ['rc']
    sinks = rng.sample(range(8), rng.choice([1, 2, 3]))
    both = rng.random() < 0.7
    unis = ['', '@'] if both else [rng.choice(['', '@'])]
    for u in unis:
        ops.append(u + 'mode,%d' % rng.choice([0, 1]))
        for c in sinks:
            if rng.random() < 0.85:
                ops.append(u + 'ak,%d' % c)
        ops.append(u + 'ai,%d' % rng.randrange(2))
        ops.append(u + 'ai,%d' % (2 + rng.randrange(2)))
        if rng.random() < 0.5:
            ops.append(u + 'ao,%d' % rng.randrange(8))
    now = rng.randrange(1, 10 ** 7)
    srcc = rng.sample(range(8), 2)
    for _ in range(rng.choice([4, 8, 12, 20])):
        now += rng.choice([0, 1, 1000, 22000, 40000, 1000000])
        u = rng.choice(unis)
        r = rng.random()
        if r < 0.5:
            ops.append(u + 'pd,%d,%s,%d,%d' % (rng.randrange(4), hx(gen_frame(rng, False) or [7]), now, now))
        elif r < 0.75:
            ops.append(u + 'cd,%d,%s,%d,%d,%d' % (rng.choice(srcc), hx(gen_frame(rng, False) or [8]), rng.choice([100, 100, 101]), now, now))
        elif r < 0.82:
            ops.append(u + 'sd,%s' % hx(gen_frame(rng, False) or [9]))
        elif r < 0.97:
            ops.append('ack,%d,%d' % (rng.choice(sinks), rng.choice([0, 0, 1, 2])))
        else:
            ops.append(u + rng.choice(['rk,%d', 'ak,%d']) % rng.choice(sinks))
    return ' '.join(ops)


def gen_long_silence(rng):
    """Sources that stop for days/weeks (ages around 2^31/2^32 us, ms, s) while another source of the same
    or a lower priority carries on: the silent one must stay out of the merge for ever."""
    ops = []
    port_ids = rng.sample(range(8), rng.choice([1, 2]))
    client_ids = rng.sample(range(8), rng.choice([1, 2]))
    out_ids = rng.sample(range(8), rng.choice([1, 2]))
    sink_ids = rng.sample(range(8), rng.choice([0, 1]))
    setup = [('ai', i) for i in port_ids] + [('ao', i) for i in out_ids] + [('ak', i) for i in sink_ids]
    rng.shuffle(setup)
    ops += ['%s,%d' % x for x in setup]
    ops.append('mode,%d' % rng.choice([0, 0, 1]))
    cprio = {c: rng.choice([100, 100, 100, 200, 101, 99]) for c in client_ids}
    now = rng.choice([1, rng.randrange(1, 10 ** 7), rng.randrange(1, 10 ** 12)])
    srcs = [('p', i) for i in port_ids] + [('c', c) for c in client_ids]

    def send(src, ts):
        k, i = src
        fr = gen_frame(rng, False) or [6]
        if k == 'p':
            ops.append('pd,%d,%s,%d,%d' % (i, hx(fr), ts, now))
        else:
            ops.append('cd,%d,%s,%d,%d,%d' % (i, hx(fr), cprio[i], ts, now))

    def poke(src):
        k, i = src
        ops.append(('pc,%d,%d' if k == 'p' else 'cc,%d,%d') % (i, now))

    for s0 in srcs:
        if rng.random() < 0.8:
            send(s0, now)
        now += rng.choice([0, 1, 1000, 100000])
    for _ in range(rng.choice([1, 2, 3])):
        silent = rng.sample(srcs, rng.choice([1, 1, 2]))
        t0 = now
        now = t0 + wrap_age(rng)
        for s0 in srcs:
            if s0 not in silent:
                send(s0, now)
        for s0 in silent:
            if rng.random() < 0.6:
                poke(s0)
        if rng.random() < 0.5:
            now += rng.choice([1, 1000, TIMEOUT - 1, TIMEOUT])
            for s0 in srcs:
                if s0 not in silent and rng.random() < 0.7:
                    send(s0, now)
        for s0 in silent:
            if rng.random() < 0.5:
                send(s0, now)
    return ' '.join(ops)


def gen_duplicates(rng):
    """Several signals inside one pass of the event loop (identical wake-up stamp): sources signal the SAME
    frame at the same priority and stamp again, with or without other members' updates in between - every
    signal from a group member is an update (LTP: ties are not "newer", so the repeated frame wins again and
    is handed out again)."""
    ops = []
    port_ids = rng.sample(range(8), rng.choice([2, 3]))
    clients = rng.sample(range(8), rng.choice([0, 1, 2]))
    ops += ['ai,%d' % i for i in port_ids]
    ops += ['ao,%d' % rng.randrange(8), 'mode,%d' % rng.choice([1, 1, 0])]
    if rng.random() < 0.5:
        ops.append('ak,%d' % rng.randrange(8))
    srcs = [('p', i) for i in port_ids] + [('c', c) for c in clients]
    now = rng.randrange(1, 10 ** 7)
    held = {}

    def send(src, fr, ts):
        k, i = src
        held[src] = fr
        if k == 'p':
            ops.append('pd,%d,%s,%d,%d' % (i, hx(fr), ts, now))
        else:
            ops.append('cd,%d,%s,100,%d,%d' % (i, hx(fr), ts, now))

    for _ in range(rng.choice([2, 3, 4])):
        wake = now                       # one pass: every stamp below is this one
        for _ in range(rng.choice([3, 4, 6])):
            s0 = rng.choice(srcs)
            if s0 in held and rng.random() < 0.6:
                send(s0, held[s0], wake)                       # the identical frame again
            else:
                send(s0, gen_frame(rng, False) or [1], wake)
            now += rng.choice([0, 0, 1, 100])                  # the universe clock may move inside the pass
        now += rng.choice([1000, 22000, 1000000, TIMEOUT])
    return ' '.join(ops)


def gen_empty_forms(rng):
    """A source sends a real frame and then an EMPTY one in each of its C++ forms (initialised length 0,
    never-initialised DmxBuffer, Reset() buffer) with a fresh stamp, for port and client entry points;
    then the other members of the group update: the emptied source must be out of the merge."""
    ops = []
    port_ids = rng.sample(range(8), 2)
    clients = rng.sample(range(8), 2)
    out_id = rng.randrange(8)
    ops += ['ai,%d' % port_ids[0], 'ai,%d' % port_ids[1], 'ao,%d' % out_id, 'mode,%d' % rng.choice([0, 0, 1])]
    if rng.random() < 0.5:
        ops.append('ak,%d' % rng.randrange(8))
    now = rng.randrange(1, 10 ** 7)
    srcs = [('p', port_ids[0]), ('p', port_ids[1]), ('c', clients[0]), ('c', clients[1])]
    rng.shuffle(srcs)
    srcs = srcs[:rng.choice([2, 3, 4])]

    def send(src, field):
        k, i = src
        if k == 'p':
            ops.append('pd,%d,%s,%d,%d' % (i, field, now, now))
        else:
            ops.append('cd,%d,%s,100,%d,%d' % (i, field, now, now))

    for _ in range(rng.choice([2, 3, 5])):
        for s0 in srcs:
            now += rng.choice([0, 1, 1000, 40000])
            send(s0, hx(gen_frame(rng, False) or [1]))
        victim = rng.choice(srcs)
        now += rng.choice([1, 1000, 40000])
        send(victim, rng.choice(['-', '~', '~', '_']))
        for s0 in srcs:
            if s0 != victim:
                now += rng.choice([0, 1, 1000])
                send(s0, hx(gen_frame(rng, False) or [2]))
        if rng.random() < 0.4:
            ops.append('sd,%s' % rng.choice(['-', '~', '_']))
    return ' '.join(ops)


def _empty_forms(rng, payload):
    """every empty frame field of a payload takes one of its three C++ forms at random"""
    if payload.startswith('tv '):
        return payload
    out = []
    for tok in payload.split(' '):
        f = tok.split(',')
        if len(f) > 2 and f[0].lstrip('@') in ('pd', 'cd', 'co') and f[2] == '-':
            f[2] = rng.choice(['-', '-', '~', '~', '_'])
        elif len(f) == 2 and f[0].lstrip('@') == 'sd' and f[1] == '-':
            f[1] = rng.choice(['-', '~', '_'])
        out.append(','.join(f))
    return ' '.join(out)


def gen_cases(rng, tier):
    for payload in _gen_cases(rng, tier):
        yield _empty_forms(rng, payload)


def _gen_cases(rng, tier):
    quick = tier == 'quick'
    n = 4000 if quick else 200000
    for k in range(n):
        nops = rng.choice([1, 3, 6, 10, 15, 25, 40]) if k % 10 else rng.randrange(1, 41)
        yield gen_history(rng, nops, big_ok=(k % 4 == 0))
    # dense small-state histories: 2-3 sources, one priority, times around the boundary
    for k in range(n // 4):
        yield gen_history(rng, rng.choice([8, 12, 20]), big_ok=False)
    for k in range(n // 8):
        yield gen_housekeeping(rng)
    for k in range(n // 10):
        yield gen_long_silence(rng)
    for k in range(n // 8):
        yield gen_real_sinks(rng)
    for k in range(n // 8):
        yield gen_priority_admin(rng)
    for k in range(n // 10):
        yield gen_empty_forms(rng)
    for k in range(n // 10):
        yield gen_duplicates(rng)
    # raw struct timeval liveness (TimerAdd carry, timercmp, timerisset) around the 2.5 s boundary and at
    # ages where a fixed-width counter of us / ms / s would wrap
    for k in range(n // 8):
        ts = rng.choice([0, 1, 999999, 1000000, rng.randrange(10 ** 12), (1 << 31) * 10 ** 6 - 1, rng.randrange(1 << 52)])
        tsec, tusec = ts // 10 ** 6, rng.choice([ts % 10 ** 6, 0, 499999, 500000, 500001, 999999])
        d = rng.choice([0, 1, 2499999, 2500000, 2500001, 1999999, 2000000, 3000000, rng.randrange(5 * 10 ** 6),
                        wrap_age(rng), wrap_age(rng), wrap_age(rng)])
        now = tsec * 10 ** 6 + tusec + d - rng.choice([0, 0, 0, 2500000])
        now = max(0, now)
        yield 'tv %d %d %d %d' % (now // 10 ** 6, now % 10 ** 6, tsec, tusec)


def nontrivial(payload, md):
    """at least one update that changed the frame and was fanned out (state-changing step) and at least
    one update step at all (every history has one accepting step when it has a non-empty fan-out)"""
    return any(k[:1] == 'e' and v != '-' for k, v in md.items())


RULE = ('random histories (1-40 ops after a random patching prologue) over <=4 input ports, <=3 source clients, '
        '<=3 output ports, <=3 sink clients (each with a scripted WriteDMX/SendDMX return value; in a third of the cases and in a dedicated family the sinks are REAL ola::Client objects over a stub with deferred/partial/never-arriving acks, and in a third there are two universes sharing the clients), SetDMX, both merge modes with switches mid-history; '
        'repeated identical signals (same frame, priority and wake-up stamp) inside one event-loop pass with other members in between; every empty frame in one of its three C++ forms (initialised length 0 / never-initialised DmxBuffer / Reset() buffer) for port data, client data and SetDMX, plus a family where a source empties itself while the others carry on; priority administration through the real PortManager::SetPriorityStatic/SetPriorityInherit (same value re-set, >200, FULL/STATIC capability, input and output ports) interleaved with data; very long silences (ages at and inside 2^15..2^33 us/ms/s, i.e. where a fixed-width time counter wraps) in random histories, a long-silence family and the raw timeval cases; housekeeping histories (CleanStaleSourceClients every 10 s, 2-4 runs, clients streaming every 0.5-2.4 s or going silent, another group member updating right after a run); priorities from '
        '{0,1,99,100,101,199,200}+palette (+201/255 rarely), clock steps {0,1,2499999,2500000,2500001,...} '
        'including steps aimed at ts+2.5s-1/+0/+1 of an existing source, stamps equal/older/newer than the clock '
        'and unset, frame lengths {0,1..5,..,511,512,513}; class = set of merge outcomes reached '
        '(nolive/dead/lowprio/single/ltpnewest/ltpolder/htp2/htp3+); non-trivial = at least one update whose merge '
        'changed the frame and produced fan-out calls; distinct = distinct model output line')
ASSUMPTIONS = ['operator new does not fail',
               'time stamps non-negative, normalised (tv_usec < 10^6) and below 2^62 microseconds (struct timeval arithmetic does not overflow)',
               'acks of UpdateDmxData arrive through the stub in issue order; sink and source clients are ordered by object address; the harness allocates clients in one '
               'block so that address order is id order']
TRUSTED = ['modelled rather than verified: Universe.cpp MergeAll/HTPMergeSources/UpdateDependants/PortDataChanged/'
           'SourceClientDataChanged/CleanStaleSourceClients/SetDMX/SetMergeMode/Add*/Remove*, PortManager::SetPriorityStatic/SetPriorityInherit, DmxSource IsSet/IsActive, BasicInputPort::DmxChanged/'
           'SetPriority, Client::DMXReceived/SourceData',
           'DmxBuffer through its value semantics only (Set caps at 512 slots, HTPMerge = slot-wise max, longer tail '
           'kept); the copy-on-write implementation is the subject of C02',
           'TimeStamp arithmetic: the universe model uses microseconds; Time.v models TimerAdd/timercmp/timerisset/Set(int64) and c01_timeval proves the two agree for normalised non-negative timevals (raw timeval cases are part of the correspondence); constants incl. USEC_IN_SECONDS and the timeval form of TIMEOUT_INTERVAL regenerated into Gen.v',
           'defaults of a fresh Universe / BasicInputPort (LTP, priority 100, static mode) are compared on every case (key init)']
LEVEL_TEXT = ('Coq theorems (21, axiom-free) over an executable model of Universe::MergeAll/HTPMergeSources/UpdateDependants/'
              'SetDMX/CleanStaleSourceClients and the port/client update paths, for every world, every call, both modes and '
              'any mix of ports and clients: after an update the frame held and the WriteDMX/SendDMX calls are exactly what '
              'the property prescribes from the live highest-priority group (HTP slot-wise max, LTP updater-unless-newer, '
              'sole member verbatim, nothing from outside the group; non-interference; dependants\' return values irrelevant), '
              'and at history level, by induction over arbitrary call sequences from the initial universe, the frame equals '
              'the change of the last qualifying update, each change is delivered exactly once to every output port and sink '
              'and to nobody else, a streaming client survives housekeeping, frames stay <= 512 slots and priorities <= 200. '
              'The model is tied to the C++ by a differential correspondence check after every operation (ASan/UBSan build '
              'of the /repo working tree; raw struct timeval liveness cases included) with constants regenerated from the headers. '
              'Not covered: m_active_priority being rewritten by merges that report no change is observed and stated '
              '(c01_merge) but is not a property clause; RDM is not modelled; model = code is tested, not proved.')
LEVEL_NOTE = ('Trusted: Coq 8.16.1 kernel (vm_compute only in Examples), extraction (ExtrOcamlBasic), OCaml/C++ glue, '
              'generator coverage of the correspondence; model = code is validated by differential testing, not proved. '
              'DmxBuffer enters through its value semantics (C02), TimeStamp arithmetic as exact microsecond arithmetic; '
              'the harness controls the universe Clock and the wake-up time stamp directly and allocates clients in one '
              'block so that the address order of the client containers is id order.')
TECHNIQUE = 'Coq proof on hand-written executable model + extracted-model/implementation differential correspondence'
DESIGN_REF = 'DESIGN.md §4 C01'
