(* C02 model driver.  payload: ops separated by ' ', fields by ','.  Output: after EVERY op one
   spec key o<k> (return value, size+contents of all logical positions, == matrix, read probes) and one
   internal key i<k> (sharing pattern, cow flags, refcounts, number of live heap blocks).

   Logical positions 0..3 are the pool objects in raw storage, 4..7 the elements of a
   std::vector<DmxBuffer> (harness) = model slots vbase..vbase+vsize-1; the model pool has 15 slots:
   0..3 pool, 4..7 and 8..11 the vector's storage before/after a reallocation, 12 the temporary of an
   expression, 14 never constructed (stands for "no such element").
   EXPRESSION ops (assignment from a temporary / from a by-value return, std::swap, vector push_back /
   insert / erase / resize / reserve / reverse) are C++ expressions in the harness; here they are the
   sequence of copy constructions, copy assignments and destructions that the expression MEANS for a
   value type (and that it literally is for a class without move members). *)
let nlog = 8
let nmodel = 15
let tmp_slot = 12
let dead_slot = 14
let vcap = 4
let vbase = ref 4
let vsize = ref 0
let phys (l : int) : int =
  if l < 4 then l else if l - 4 < !vsize then !vbase + (l - 4) else dead_slot
let fresh : n list = List.init 512 (fun i -> n_of_int ((0xA5 + 7 * i) land 255))
let nat i = nat_of_int i
let parse_ptr s = if s = "N" then XNull else XExt (bytes_of_hex s)
let num s = n_of_int (ios s)
let pn s = nat (phys (ios s))
let range a b = if b < a then [] else List.init (b - a + 1) (fun x -> a + x)      (* a..b *)
let is_live_slot (s : st) (m : int) : bool = match internals s (nat m) with Some _ -> true | None -> false
let swap_ops (a : int) (b : int) : op list =
  [OCopyNew (nat tmp_slot, nat a); OAssign (nat a, nat b); OAssign (nat b, nat tmp_slot); ODestroy (nat tmp_slot)]

(* Some (ops, single) = run them; None = skipped by model and harness alike (precondition of the
   expression not met).  single: the result is the return value of the one op. *)
let expand (s : st) (t : string) : (op list * bool) option =
  let lv l = is_live_slot s (phys (ios l)) in
  let vb = !vbase and vs = !vsize in
  match String.split_on_char ',' t with
  | ["new"; i] -> if ios i >= 4 then None else Some ([ONew (pn i)], true)
  | ["cpy"; i; j] -> if ios i >= 4 then None else Some ([OCopyNew (pn i, pn j)], true)
  | ["newd"; i; p; n] -> if ios i >= 4 then None else Some ([ONewData (pn i, parse_ptr p, num n)], true)
  | ["news"; i; h] -> if ios i >= 4 then None else Some ([ONewStr (pn i, bytes_of_hex h)], true)
  | ["del"; i] -> if ios i >= 4 then None else Some ([ODestroy (pn i)], true)
  | ["asg"; i; j] -> Some ([OAssign (pn i, pn j)], true)
  | ["setb"; i; j] -> Some ([OSetBuf (pn i, pn j)], true)
  | ["setp"; i; p; n] -> Some ([OSetPtr (pn i, parse_ptr p, num n)], true)
  | ["sets"; i; h] -> Some ([OSetStr (pn i, bytes_of_hex h)], true)
  | ["sft"; i; h] -> Some ([OSetFromString (pn i, bytes_of_hex h)], true)   (* h = the characters of the text *)
  | ["srv"; i; off; v; n] -> Some ([OSetRangeToValue (pn i, num off, num v, num n)], true)
  | ["sr"; i; off; p; n] -> Some ([OSetRange (pn i, num off, parse_ptr p, num n)], true)
  | ["sc"; i; ch; v] -> Some ([OSetChannel (pn i, num ch, num v)], true)
  | ["setraw"; i; j; k; n] -> Some ([OSetRaw (pn i, pn j, num k, num n)], true)
  | ["srraw"; i; off; j; k; n] -> Some ([OSetRangeRaw (pn i, num off, pn j, num k, num n)], true)
  | ["htp"; i; j] -> Some ([OHTPMerge (pn i, pn j)], true)
  | ["bo"; i] -> Some ([OBlackout (pn i)], true)
  | ["rst"; i] -> Some ([OReset (pn i)], true)
  (* x = DmxBuffer(y);   x = Snapshot(y) with  DmxBuffer Snapshot(const DmxBuffer &b) { DmxBuffer c(b); return c; } *)
  | [("asgt" | "asgr"); i; j] ->
    if lv i && lv j then
      Some ([OCopyNew (nat tmp_slot, pn j); OAssign (pn i, nat tmp_slot); ODestroy (nat tmp_slot)], false)
    else None
  (* std::swap(x, y):  T tmp(x); x = y; y = tmp; *)
  | ["swap"; i; j] -> if lv i && lv j then Some (swap_ops (phys (ios i)) (phys (ios j)), false) else None
  (* vec.push_back(y) *)
  | ["vpush"; j] -> if vs < vcap && lv j then (vsize := vs + 1; Some ([OCopyNew (nat (vb + vs), pn j)], false)) else None
  (* vec.push_back(DmxBuffer(y)) *)
  | ["vpusht"; j] ->
    if vs < vcap && lv j then begin
      let pj = pn j in vsize := vs + 1;
      Some ([OCopyNew (nat tmp_slot, pj); OCopyNew (nat (vb + vs), nat tmp_slot); ODestroy (nat tmp_slot)], false) end
    else None
  | ["vpop"] -> if vs > 0 then (vsize := vs - 1; Some ([ODestroy (nat (vb + vs - 1))], false)) else None
  (* vec.erase(begin + k): the elements behind k are assigned one position down, the last one is destroyed *)
  | ["verase"; k] ->
    let k = ios k in
    if k < vs then begin
      vsize := vs - 1;
      Some (List.map (fun m -> OAssign (nat (vb + m), nat (vb + m + 1))) (range k (vs - 2))
            @ [ODestroy (nat (vb + vs - 1))], false) end
    else None
  (* vec.insert(begin + k, y) with spare capacity (libstdc++: copy of y first, new last element from the
     old last, the rest assigned one position up from the back, then the copy assigned into place) *)
  | ["vins"; k; j] ->
    let k = ios k in
    if vs < vcap && k <= vs && lv j then begin
      let pj = pn j in vsize := vs + 1;
      if k = vs then Some ([OCopyNew (nat (vb + vs), pj)], false)
      else Some ([OCopyNew (nat tmp_slot, pj); OCopyNew (nat (vb + vs), nat (vb + vs - 1))]
                 @ List.map (fun m -> OAssign (nat (vb + m), nat (vb + m - 1))) (List.rev (range (k + 1) (vs - 1)))
                 @ [OAssign (nat (vb + k), nat tmp_slot); ODestroy (nat tmp_slot)], false) end
    else None
  (* vec.resize(n) *)
  | ["vresize"; n] ->
    let n = ios n in
    if n <= vcap then begin
      vsize := n;
      Some ((if n >= vs then List.map (fun m -> ONew (nat (vb + m))) (range vs (n - 1))
             else List.map (fun m -> ODestroy (nat (vb + m))) (range n (vs - 1))), false) end
    else None
  (* vec.reserve(capacity + 4): every element is copy/move constructed into new storage, then the old ones die *)
  | ["vrealloc"] ->
    let nb = if vb = 4 then 8 else 4 in
    vbase := nb;
    Some (List.map (fun m -> OCopyNew (nat (nb + m), nat (vb + m))) (range 0 (vs - 1))
          @ List.map (fun m -> ODestroy (nat (vb + m))) (range 0 (vs - 1)), false)
  (* std::reverse(vec.begin(), vec.end()) = iter_swap of the outer pairs *)
  | ["vrev"] -> Some (List.concat (List.map (fun m -> swap_ops (vb + m) (vb + vs - 1 - m)) (range 0 (vs / 2 - 1))), false)
  | _ -> failwith ("bad op " ^ t)
let target_of (t : string) : int =
  match String.split_on_char ',' t with
  | ("vpush" | "vpusht") :: _ -> 4 + !vsize - 1
  | ("vpop" | "vresize" | "vrealloc" | "vrev") :: _ -> 4
  | ("verase" | "vins") :: k :: _ -> 4 + ios k
  | _ :: i :: _ -> ios i
  | _ -> 0

let rle_ints (a : int array) : string =
  let n = Array.length a in
  if n = 0 then "-" else begin
    let b = Buffer.create 64 in
    let i = ref 0 in
    while !i < n do
      let v = a.(!i) in
      let r = ref 1 in
      while !i + !r < n && a.(!i + !r) = v do incr r done;
      if !r >= 4 then Buffer.add_string b (Printf.sprintf "[%02x*%d]" v !r)
      else for _ = 1 to !r do Buffer.add_string b (Printf.sprintf "%02x" v) done;
      i := !i + !r
    done;
    Buffer.contents b end
let rle (l : n list) = rle_ints (Array.of_list (List.map int_of_n l))
let fnv (l : n list) : string =
  let h = ref 2166136261 in
  List.iter (fun x -> h := ((!h lxor (int_of_n x land 255)) * 16777619) land 0xffffffff) l;
  Printf.sprintf "%d:%08x" (List.length l) !h

exception Hazard of string
let hz_name = function
  | UseAfterFree -> "UseAfterFree" | Oob -> "Oob" | NullDeref -> "NullDeref"
  | RcUnderflow -> "RcUnderflow" | Overlap -> "Overlap" | DeadObject -> "DeadObject"
let q (s : st) (qq : query) : ans =
  match cquery s qq with Ok a -> a | Hz h -> raise (Hazard (hz_name h))
let a_str = function
  | ASkip -> "skip" | ANum x -> string_of_int (int_of_n x) | ABytes l -> rle l
  | ABool b -> bool01 b
let ret_str = function RSkip -> "skip" | RUnit -> "u" | RBool b -> bool01 b

(* operator<< on streams that carry format state.  Configuration c (same table in harness.cpp):
   (width relative to the length L of the ToString() text, fill character, left adjusted?).  The other
   state a configuration sets in the harness (hex / oct / showbase / showpos / uppercase / internal /
   scientific / a digit-grouping locale) has no counterpart here: the model has no such input. *)
let stream_cfg (c : int) (len : int) : int * int * int =
  match c with
  | 5 -> (len + 3, Char.code '*', 0)
  | 6 -> (len + 2, Char.code '.', 1)
  | 7 -> (len + 1, Char.code '0', 0)
  | 8 -> (len, Char.code ' ', 0)
  | 10 -> (1, Char.code '#', 1)
  | _ -> (0, Char.code ' ', 0)
let stream_probe (s : st) (i : int) (c : int) : string =
  let len = match q s (QToString (nat i)) with ABytes l -> List.length l | _ -> 0 in
  let (w, fill, adj) = stream_cfg c len in
  match q s (QStream (nat i, n_of_int w, n_of_int fill, n_of_int adj)) with
  | ABytes l -> Printf.sprintf "S%d=%s:w%d:1" c (fnv l) (int_of_n (width_after_insert (n_of_int w)))
  | _ -> Printf.sprintf "S%d=?" c
let stream_probes (s : st) (i : int) (k : int) (l : int) : string =
  String.concat "," (List.map (fun d -> stream_probe s i ((k + l + d) mod 12)) [0; 4; 8])

let probes_k (k : int) (s : st) (l : int) : string =
  let i = phys l in
  match q s (QSize (nat i)) with
  | ANum _ -> "/" ^ stream_probes s i k l
  | _ -> ""
let probes (s : st) (l : int) : string =
  let i = phys l in
  match q s (QSize (nat i)) with
  | ANum sz ->
    let z = int_of_n sz in
    let ni = n_of_int in
    let chs = [0; max 0 (z - 1); z; 511; 512; 4294967295] in
    let gb = [0; max 0 (z - 1); z; z + 1; 513] in
    let gr = [(0, z + 1); (max 0 (z - 1), 2); (z, 1); (1, z); (z / 2, 4294967295); (511, 2); (512, 1)] in
    let ts = match q s (QToString (nat i)) with ABytes l -> fnv l | _ -> "?" in
    Printf.sprintf "%d/%s/%s/%s/%s" l ts
      (String.concat "," (List.map (fun c -> a_str (q s (QGetCh (nat i, ni c)))) chs))
      (String.concat "," (List.map (fun n -> a_str (q s (QGetBuf (nat i, ni n)))) gb))
      (String.concat "," (List.map (fun (sl, n) -> a_str (q s (QGetRange (nat i, ni sl, ni n)))) gr))
  | _ -> Printf.sprintf "%d/raw" l

let slot_str (s : st) (l : int) : string =
  let i = phys l in
  match q s (QSize (nat i)) with
  | ANum sz -> Printf.sprintf "%d:%s" (int_of_n sz) (a_str (q s (QGetStr (nat i))))
  | _ -> "-"
let eq_str (s : st) : string =
  let b = Buffer.create 64 in
  for i = 0 to nlog - 1 do for j = 0 to nlog - 1 do
    Buffer.add_string b (match q s (QEq (nat (phys i), nat (phys j))), q s (QNe (nat (phys i), nat (phys j))) with
      | ABool e, ABool ne -> if e = ne then "?" else if e then "1" else "0"
      | _ -> "x")
  done done; Buffer.contents b
let internal_str (s : st) : string =
  let info = Array.init nlog (fun l -> internals s (nat (phys l))) in
  let cls i = match info.(i) with
    | Some ((Some id, _), _) ->
      let rec first k = match info.(k) with
        | Some ((Some id2, _), _) when id2 = id -> k | _ -> first (k + 1) in
      string_of_int (first 0)
    | _ -> "n" in
  let one i = match info.(i) with
    | None -> "-"
    | Some ((_, cow), rc) -> Printf.sprintf "%s%s%d" (cls i) (if cow then "c" else ".") (int_of_nat rc) in
  String.concat "," (List.init nlog one) ^ "|hb=" ^ string_of_int (int_of_nat (live_blocks s))

let is_mut name = List.mem name ["setb"; "setp"; "sets"; "sft"; "srv"; "sr"; "sc"; "setraw"; "srraw"; "htp"; "bo"; "rst"]
let is_expr name = List.mem name ["asgt"; "asgr"; "swap"; "vpush"; "vpusht"; "vpop"; "verase"; "vins"; "vresize";
                                  "vrealloc"; "vrev"]
let handle (p : string) : string =
  let unfixed = String.length p > 0 && p.[0] = '!' in   (* '!' prefix: run the UNFIXED Set(buffer) model *)
  let p = if unfixed then String.sub p 1 (String.length p - 1) else p in
  let toks = List.filter (fun t -> t <> "") (split p) in
  let s = ref (init_st (nat nmodel)) in
  vbase := 4; vsize := 0;
  let out = Buffer.create 1024 in
  let accepted = ref 0 and refused = ref 0 and shared_mut = ref 0 and selfops = ref 0 and exprs = ref 0 in
  let hazard = ref "" in
  (try
    List.iteri (fun k t ->
      let name = List.hd (String.split_on_char ',' t) in
      let ex = expand !s t in
      let tg = target_of t in          (* after expand: vpush's target is the new last element *)
      let tg = if tg < 0 || tg >= nlog then 0 else tg in
      (* class bookkeeping: mutation of a buffer whose block is shared *)
      (match internals !s (nat (phys tg)) with
       | Some ((Some _, _), rc) when int_of_nat rc > 1 && is_mut name -> incr shared_mut | _ -> ());
      (match String.split_on_char ',' t with
       | [("asg" | "setb" | "htp" | "asgt" | "asgr" | "swap"); i; j] when i = j -> incr selfops | _ -> ());
      let r =
        match ex with
        | None -> RSkip
        | Some (ops, single) ->
          if is_expr name then incr exprs;
          let last = ref RUnit in
          List.iter (fun o ->
            match (if unfixed then cstep_unfixed fresh !s o else cstep fresh !s o) with
            | Hz h ->
              Buffer.add_string out (Printf.sprintf "o%d=HZ:%s;" k (hz_name h));
              raise (Hazard (hz_name h))
            | Ok (s', r) ->
              s := s';
              (* inside an expression every step must be an executed one *)
              if (not single) && r = RSkip then begin
                Buffer.add_string out (Printf.sprintf "o%d=BADEXPANSION;" k); raise (Hazard "BadExpansion") end;
              last := r) ops;
          if single then !last else RUnit in
      (match r with RBool true | RUnit -> incr accepted | RBool false -> incr refused | RSkip -> ());
      let other = k mod nlog in
      Buffer.add_string out (Printf.sprintf "o%d=%s|%s|%s|%s%s;" k (ret_str r)
        (String.concat "|" (List.init nlog (slot_str !s))) (eq_str !s) (probes !s tg ^ probes_k k !s tg)
        (if other <> tg then "|" ^ probes !s other ^ probes_k k !s other else ""));
      Buffer.add_string out (Printf.sprintf "i%d=%s;" k (internal_str !s))) toks
  with Hazard h -> hazard := h);
  let cls =
    if !hazard <> "" then "hazard-" ^ !hazard
    else Printf.sprintf "%s%s%s%s"
      (if !shared_mut > 0 then "sharedmut" else "noshare")
      (if !selfops > 0 then "+self" else "")
      (if !exprs > 0 then "+expr" else "")
      (if !refused > 0 then "+refusal" else "") in
  Buffer.add_string out (Printf.sprintf "hz=%s;acc=%d;ref=%d;class=%s"
    (if !hazard = "" then "-" else !hazard) !accepted !refused cls);
  Buffer.contents out
let () = vh_run handle
