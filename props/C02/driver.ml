(* C02 model driver.  payload: ops separated by ' ', fields by ','.  Output: after EVERY op one
   spec key o<k> (return value, size+contents of all 4 slots, == matrix, read probes) and one
   internal key i<k> (sharing pattern, cow flags, refcounts, number of live heap blocks). *)
let nslots = 4
let fresh : n list = List.init 512 (fun i -> n_of_int ((0xA5 + 7 * i) land 255))
let nat i = nat_of_int i
let parse_ptr s = if s = "N" then XNull else XExt (bytes_of_hex s)
let num s = n_of_int (ios s)
let parse_op (t : string) : op =
  match String.split_on_char ',' t with
  | ["new"; i] -> ONew (nat (ios i))
  | ["cpy"; i; j] -> OCopyNew (nat (ios i), nat (ios j))
  | ["newd"; i; p; n] -> ONewData (nat (ios i), parse_ptr p, num n)
  | ["del"; i] -> ODestroy (nat (ios i))
  | ["asg"; i; j] -> OAssign (nat (ios i), nat (ios j))
  | ["setb"; i; j] -> OSetBuf (nat (ios i), nat (ios j))
  | ["setp"; i; p; n] -> OSetPtr (nat (ios i), parse_ptr p, num n)
  | ["sets"; i; h] -> OSetStr (nat (ios i), bytes_of_hex h)
  | ["sft"; i; h] -> OSetFromString (nat (ios i), bytes_of_hex h)   (* h = the characters of the text *)
  | ["news"; i; h] -> ONewStr (nat (ios i), bytes_of_hex h)
  | ["srv"; i; off; v; n] -> OSetRangeToValue (nat (ios i), num off, num v, num n)
  | ["sr"; i; off; p; n] -> OSetRange (nat (ios i), num off, parse_ptr p, num n)
  | ["sc"; i; ch; v] -> OSetChannel (nat (ios i), num ch, num v)
  | ["setraw"; i; j; k; n] -> OSetRaw (nat (ios i), nat (ios j), num k, num n)
  | ["srraw"; i; off; j; k; n] -> OSetRangeRaw (nat (ios i), num off, nat (ios j), num k, num n)
  | ["htp"; i; j] -> OHTPMerge (nat (ios i), nat (ios j))
  | ["bo"; i] -> OBlackout (nat (ios i))
  | ["rst"; i] -> OReset (nat (ios i))
  | _ -> failwith ("bad op " ^ t)
let target_of (t : string) : int =
  match String.split_on_char ',' t with _ :: i :: _ -> ios i | _ -> 0

let rle_ints (a : int array) : string =
  let n = Array.length a in
  if n = 0 then "-" else begin
    let b = Buffer.create 64 in
    let i = ref 0 in
    while !i < n do
      let v = a.(!i) in
      let r = ref 1 in
      while !i + !r < n && a.(!i + !r) = v do incr r done;
      if !r >= 4 then Buffer.add_string b (Printf.sprintf "[%02x*%d]" v !r)
      else for _ = 1 to !r do Buffer.add_string b (Printf.sprintf "%02x" v) done;
      i := !i + !r
    done;
    Buffer.contents b end
let rle (l : n list) = rle_ints (Array.of_list (List.map int_of_n l))
let fnv (l : n list) : string =
  let h = ref 2166136261 in
  List.iter (fun x -> h := ((!h lxor (int_of_n x land 255)) * 16777619) land 0xffffffff) l;
  Printf.sprintf "%d:%08x" (List.length l) !h

exception Hazard of string
let hz_name = function
  | UseAfterFree -> "UseAfterFree" | Oob -> "Oob" | NullDeref -> "NullDeref"
  | RcUnderflow -> "RcUnderflow" | Overlap -> "Overlap" | DeadObject -> "DeadObject"
let q (s : st) (qq : query) : ans =
  match cquery s qq with Ok a -> a | Hz h -> raise (Hazard (hz_name h))
let a_str = function
  | ASkip -> "skip" | ANum x -> string_of_int (int_of_n x) | ABytes l -> rle l
  | ABool b -> bool01 b
let ret_str = function RSkip -> "skip" | RUnit -> "u" | RBool b -> bool01 b

let probes (s : st) (i : int) : string =
  match q s (QSize (nat i)) with
  | ANum sz ->
    let z = int_of_n sz in
    let ni = n_of_int in
    let chs = [0; max 0 (z - 1); z; 511; 512; 4294967295] in
    let gb = [0; max 0 (z - 1); z; z + 1; 513] in
    let gr = [(0, z + 1); (max 0 (z - 1), 2); (z, 1); (1, z); (z / 2, 4294967295); (511, 2); (512, 1)] in
    let ts = match q s (QToString (nat i)) with ABytes l -> fnv l | _ -> "?" in
    Printf.sprintf "%d/%s/%s/%s/%s" i ts
      (String.concat "," (List.map (fun c -> a_str (q s (QGetCh (nat i, ni c)))) chs))
      (String.concat "," (List.map (fun n -> a_str (q s (QGetBuf (nat i, ni n)))) gb))
      (String.concat "," (List.map (fun (sl, n) -> a_str (q s (QGetRange (nat i, ni sl, ni n)))) gr))
  | _ -> Printf.sprintf "%d/raw" i

let slot_str (s : st) (i : int) : string =
  match q s (QSize (nat i)) with
  | ANum sz -> Printf.sprintf "%d:%s" (int_of_n sz) (a_str (q s (QGetStr (nat i))))
  | _ -> "-"
let eq_str (s : st) : string =
  let b = Buffer.create 16 in
  for i = 0 to nslots - 1 do for j = 0 to nslots - 1 do
    Buffer.add_string b (match q s (QEq (nat i, nat j)), q s (QNe (nat i, nat j)) with
      | ABool e, ABool ne -> if e = ne then "?" else if e then "1" else "0"
      | _ -> "x")
  done done; Buffer.contents b
let internal_str (s : st) : string =
  let info = Array.init nslots (fun i -> internals s (nat i)) in
  let cls i = match info.(i) with
    | Some ((Some id, _), _) ->
      let rec first k = match info.(k) with
        | Some ((Some id2, _), _) when id2 = id -> k | _ -> first (k + 1) in
      string_of_int (first 0)
    | _ -> "n" in
  let one i = match info.(i) with
    | None -> "-"
    | Some ((_, cow), rc) -> Printf.sprintf "%s%s%d" (cls i) (if cow then "c" else ".") (int_of_nat rc) in
  String.concat "," (List.init nslots one) ^ "|hb=" ^ string_of_int (int_of_nat (live_blocks s))

let is_mut name = not (List.mem name ["new"; "cpy"; "del"; "asg"; "news"; "newd"])
let handle (p : string) : string =
  let unfixed = String.length p > 0 && p.[0] = '!' in   (* '!' prefix: run the UNFIXED Set(buffer) model *)
  let p = if unfixed then String.sub p 1 (String.length p - 1) else p in
  let toks = List.filter (fun t -> t <> "") (split p) in
  let s = ref (init_st (nat nslots)) in
  let out = Buffer.create 1024 in
  let accepted = ref 0 and refused = ref 0 and shared_mut = ref 0 and selfops = ref 0 in
  let hazard = ref "" in
  (try
    List.iteri (fun k t ->
      let o = parse_op t in
      let name = List.hd (String.split_on_char ',' t) in
      (* class bookkeeping: mutation of a buffer whose block is shared *)
      (match internals !s (nat (target_of t)) with
       | Some ((Some _, _), rc) when int_of_nat rc > 1 && is_mut name -> incr shared_mut | _ -> ());
      (match String.split_on_char ',' t with
       | [("asg" | "setb" | "htp"); i; j] when i = j -> incr selfops | _ -> ());
      match (if unfixed then cstep_unfixed fresh !s o else cstep fresh !s o) with
      | Hz h ->
        Buffer.add_string out (Printf.sprintf "o%d=HZ:%s;" k (hz_name h));
        raise (Hazard (hz_name h))
      | Ok (s', r) ->
        s := s';
        (match r with RBool true | RUnit -> incr accepted | RBool false -> incr refused | RSkip -> ());
        let tg = target_of t in
        let other = k mod nslots in
        Buffer.add_string out (Printf.sprintf "o%d=%s|%s|%s|%s%s;" k (ret_str r)
          (String.concat "|" (List.init nslots (slot_str !s))) (eq_str !s) (probes !s tg)
          (if other <> tg then "|" ^ probes !s other else ""));
        Buffer.add_string out (Printf.sprintf "i%d=%s;" k (internal_str !s))) toks
  with Hazard h -> hazard := h);
  let cls =
    if !hazard <> "" then "hazard-" ^ !hazard
    else Printf.sprintf "%s%s%s"
      (if !shared_mut > 0 then "sharedmut" else "noshare")
      (if !selfops > 0 then "+self" else "")
      (if !refused > 0 then "+refusal" else "") in
  Buffer.add_string out (Printf.sprintf "hz=%s;acc=%d;ref=%d;class=%s"
    (if !hazard = "" then "-" else !hazard) !accepted !refused cls);
  Buffer.contents out
let () = vh_run handle
