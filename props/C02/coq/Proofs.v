(* C02 — top-level results assembled from Step.v / Htp.v *)
From OlaBase Require Import Bytes.
From C02 Require Import Gen Model Spec Lemmas Text Inv Prims Dup Ops Step Htp Raw.
Local Open Scope N_scope.

Theorem step_correct fresh s o : inv s -> op_ok o -> refines_step fresh s o.
Proof.
  intros Hi Hok. destruct o.
  - apply op_new; auto.
  - apply op_copynew; auto.
  - apply op_newdata; auto.
  - apply op_newstr; auto.
  - apply op_destroy; auto.
  - apply op_assign; auto.
  - apply op_setbuf; auto.
  - apply op_setptr; auto.
  - apply op_setstr; auto.
  - apply op_setfromstring; auto.
  - apply op_setrangetovalue; auto.
  - apply op_setrange; auto.
  - apply op_setchannel; auto.
  - apply op_setraw; auto.
  - apply op_setrangeraw; auto.
  - apply op_htpmerge; auto.
  - apply op_blackout; auto.
  - apply op_reset; auto.
Qed.

Theorem run_correct fresh ops : forall s,
  inv s -> Forall op_ok ops ->
  exists s', crun fresh s ops = Ok s' /\ inv s' /\ abs s' = arun (abs s) ops.
Proof.
  induction ops as [|o r IH]; intros s Hi Hok.
  - exists s. auto.
  - inversion Hok as [|? ? H1 H2]; subst.
    destruct (step_correct fresh s o Hi H1) as (s1 & r1 & E & I1 & A1 & _).
    destruct (IH s1 I1 H2) as (s' & E' & I' & A'). exists s'. cbn [crun arun]. rewrite E. cbn [bind fst].
    rewrite <- A1. auto.
Qed.

(* ---- observations *)
Lemma list_eqb_refl l : list_eqb l l = true.
Proof. induction l as [|x l IH]; cbn; auto. rewrite N.eqb_refl, IH. reflexivity. Qed.
Lemma list_eqb_len a : forall b, list_eqb a b = true -> len a = len b.
Proof.
  induction a as [|x a IH]; intros [|y b] H; cbn in H; try discriminate; auto.
  apply andb_prop in H as (_ & H). rewrite !len_cons, (IH _ H). reflexivity.
Qed.
Lemma hd_take_drop (d : list N) ch L :
  ch < L -> L <= len d -> hd 0 (take 1 (drop ch d)) = nth (N.to_nat ch) (take L d) 0.
Proof.
  intros H1 H2. unfold take, drop, len in *.
  rewrite <- (firstn_skipn (N.to_nat ch) d) at 2.
  assert (Hl : length (firstn (N.to_nat ch) d) = N.to_nat ch) by (rewrite firstn_length; lia).
  rewrite firstn_app, Hl. rewrite firstn_firstn. replace (Nat.min (N.to_nat L) (N.to_nat ch)) with (N.to_nat ch) by lia.
  rewrite app_nth2 by lia. rewrite Hl, Nat.sub_diag.
  destruct (skipn (N.to_nat ch) d) as [|x r] eqn:E.
  - assert (length (skipn (N.to_nat ch) d) = 0%nat) by (rewrite E; reflexivity). rewrite skipn_length in H. lia.
  - replace (N.to_nat L - N.to_nat ch)%nat with (S (N.to_nat L - N.to_nat ch - 1)) by lia. reflexivity.
Qed.

Lemma c_eq_correct s i j : inv s -> c_eq s i j = Ok (aquery (abs s) (QEq i j)).
Proof.
  intros Hi. unfold c_eq, aquery; rewrite ?a_live_abs.
  - destruct (is_live s i) eqn:El; auto. destruct (is_live s j) eqn:Ej; auto. cbn [andb].
    apply is_live_getb in El as (a & Ha). apply is_live_getb in Ej as (b & Hb). rewrite Ha, Hb. cbn [bind].
    rewrite (aget_abs s i a Ha), (aget_abs s j b Hb).
    pose proof (buf_view s i a Hi Ha) as Va. pose proof (buf_view s j b Hi Hb) as Vb.
    assert (La : len (contents (abs_buf (heap s) a)) = m_len a).
    { destruct (m_blk a). - destruct Va as (k & _ & L & Hl & -> & _). cbn. rewrite len_take. lia.
      - destruct Va as (-> & ->). reflexivity. }
    assert (Lb : len (contents (abs_buf (heap s) b)) = m_len b).
    { destruct (m_blk b). - destruct Vb as (k & _ & L & Hl & -> & _). cbn. rewrite len_take. lia.
      - destruct Vb as (-> & ->). reflexivity. }
    destruct (N.eqb_spec (m_len a) (m_len b)) as [E|E].
    2:{ do 2 f_equal. destruct (list_eqb _ _) eqn:X; auto. apply list_eqb_len in X. lia. }
    destruct (m_blk a) as [ia|] eqn:Ema; destruct (m_blk b) as [ib|] eqn:Emb; cbn [same_blk].
    + destruct Va as (ka & Hka & Lka & Hla & -> & _). destruct Vb as (kb & Hkb & Lkb & Hlb & -> & _). cbn [contents].
      destruct (Nat.eqb_spec ia ib) as [->|Hne].
      * rewrite Hka in Hkb. inversion Hkb; subst. rewrite E, list_eqb_refl. reflexivity.
      * destruct (N.eqb_spec (m_len a) 0) as [H0|H0].
        -- rewrite <- E, H0. reflexivity.
        -- rewrite (Htp.pread_blk s ia ka 0 _ Hka Lka) by lia. cbn [bind].
           rewrite (Htp.pread_blk s ib kb 0 _ Hkb Lkb) by lia. cbn [bind]. rewrite !drop_0, E. reflexivity.
    + destruct Vb as (Hb0 & ->). destruct Va as (ka & _ & _ & _ & -> & _). cbn [contents].
      destruct (N.eqb_spec (m_len a) 0) as [H0|H0]; [|lia]. rewrite H0. reflexivity.
    + destruct Va as (Ha0 & ->). destruct Vb as (kb & _ & _ & _ & -> & _). cbn [contents].
      rewrite Ha0. cbn [N.eqb]. rewrite <- E, Ha0. reflexivity.
    + destruct Va as (_ & ->). destruct Vb as (_ & ->). reflexivity.
Qed.

Theorem query_correct s q : inv s -> cquery s q = Ok (aquery (abs s) q).
Proof.
  intros Hi. destruct q as [i|i ch|i n|i slot n|i|i|i j|i j|i w fl adj]; [| | | | | |exact (c_eq_correct s i j Hi)| |];
    unfold cquery, aquery; rewrite ?a_live_abs.
  - destruct (is_live s i) eqn:El; auto. apply is_live_getb in El as (b & Hb). rewrite Hb. cbn [bind].
    rewrite (aget_abs s i b Hb). pose proof (buf_view s i b Hi Hb) as V. destruct (m_blk b).
    + destruct V as (k & _ & L & Hl & -> & _). cbn [contents]. rewrite len_take. do 2 f_equal. lia.
    + destruct V as (-> & ->). reflexivity.
  - destruct (is_live s i) eqn:El; auto. apply is_live_getb in El as (b & Hb). rewrite Hb. cbn [bind].
    rewrite (aget_abs s i b Hb). pose proof (buf_view s i b Hi Hb) as V. destruct (m_blk b) as [id|].
    + destruct V as (k & Hk & L & Hl & -> & _). cbn [contents]. destruct (N.ltb_spec ch (m_len b)).
      * rewrite (Htp.pread_blk s id k ch 1 Hk L) by lia. cbn [bind]. do 2 f_equal. apply hd_take_drop; lia.
      * do 2 f_equal. symmetry. apply nth_overflow. unfold take. rewrite firstn_length. lia.
    + destruct V as (_ & ->). cbn [contents]. destruct (N.to_nat ch); reflexivity.
  - destruct (is_live s i) eqn:El; auto. apply is_live_getb in El as (b & Hb). rewrite Hb. cbn [bind].
    rewrite (aget_abs s i b Hb). pose proof (buf_view s i b Hi Hb) as V. destruct (m_blk b) as [id|].
    + destruct V as (k & Hk & L & Hl & -> & _). cbn [contents].
      rewrite (Htp.pread_blk s id k 0 _ Hk L) by lia. cbn [bind]. rewrite drop_0, take_take. reflexivity.
    + destruct V as (_ & ->). cbn [contents]. unfold take. rewrite firstn_nil. reflexivity.
  - destruct (is_live s i) eqn:El; auto. apply is_live_getb in El as (b & Hb). rewrite Hb. cbn [bind].
    rewrite (aget_abs s i b Hb). pose proof (buf_view s i b Hi Hb) as V. destruct (m_blk b) as [id|].
    + destruct V as (k & Hk & L & Hl & -> & _). cbn [contents]. destruct (N.leb_spec (m_len b) slot).
      * rewrite drop_all by (rewrite len_take; lia). unfold take. rewrite firstn_nil. reflexivity.
      * rewrite (Htp.pread_blk s id k slot _ Hk L) by lia. cbn [bind]. rewrite drop_take, take_take. reflexivity.
    + destruct V as (-> & ->). cbn [contents]. destruct (N.leb_spec 0 slot); [|lia].
      unfold take, drop. rewrite skipn_nil, firstn_nil. reflexivity.
  - destruct (is_live s i) eqn:El; auto. apply is_live_getb in El as (b & Hb). rewrite Hb. cbn [bind].
    rewrite (aget_abs s i b Hb). pose proof (buf_view s i b Hi Hb) as V. destruct (m_blk b) as [id|].
    + destruct V as (k & Hk & L & Hl & -> & _). cbn [contents].
      rewrite (Htp.pread_blk s id k 0 _ Hk L) by lia. cbn [bind]. rewrite drop_0. reflexivity.
    + destruct V as (-> & ->). reflexivity.
  - destruct (is_live s i) eqn:El; auto. apply is_live_getb in El as (b & Hb). rewrite Hb. cbn [bind].
    rewrite (aget_abs s i b Hb). pose proof (buf_view s i b Hi Hb) as V. destruct (m_blk b) as [id|].
    + destruct V as (k & Hk & L & Hl & -> & _). cbn [contents].
      rewrite (Htp.pread_blk s id k 0 _ Hk L) by lia. cbn [bind]. rewrite drop_0. reflexivity.
    + destruct V as (_ & ->). reflexivity.
  - rewrite (c_eq_correct s i j Hi). cbn [bind]. unfold aquery. rewrite !a_live_abs.
    destruct (is_live s i && is_live s j); reflexivity.
  - destruct (is_live s i) eqn:El; auto. apply is_live_getb in El as (b & Hb). rewrite Hb. cbn [bind].
    rewrite (aget_abs s i b Hb). pose proof (buf_view s i b Hi Hb) as V. destruct (m_blk b) as [id|].
    + destruct V as (k & Hk & L & Hl & -> & _). cbn [contents].
      rewrite (Htp.pread_blk s id k 0 _ Hk L) by lia. cbn [bind]. rewrite drop_0. reflexivity.
    + destruct V as (_ & ->). reflexivity.
Qed.

(* ---- facts about the value model *)
Lemma astep_frame A o j : j <> target o -> nth_error (fst (astep A o)) j = nth_error A j.
Proof.
  intros H. destruct o; cbn [target] in H; unfold astep;
    repeat match goal with
           | |- context [if ?c then _ else _] => destruct c
           | |- context [match ?x with XNull => _ | XExt _ => _ end] => destruct x
           | |- context [match aget ?A ?i with Some _ => _ | None => _ end] => destruct (aget A i)
           end; cbn [fst]; rewrite ?nth_upd_neq by auto; auto.
Qed.

Lemma upd_aget_same A i : a_live A i = true -> upd A i (Some (aget A i)) = A.
Proof.
  unfold a_live, aget. intros H. apply upd_same. destruct (nth_error A i) as [[b|]|]; try discriminate. reflexivity.
Qed.

Lemma a_range_fail b off src : snd (a_range b off src) = false -> fst (a_range b off src) = b.
Proof. unfold a_range. destruct (512 <=? off); auto. destruct (_ <? off); auto. discriminate. Qed.

Lemma astep_fail_pure A o : snd (astep A o) = RBool false \/ snd (astep A o) = RSkip -> fst (astep A o) = A.
Proof.
  intros H. destruct o; unfold astep in *;
    repeat match goal with
           | H : context [if ?c then _ else _] |- _ => destruct c eqn:?
           end; cbn [fst snd] in *; auto;
    try (destruct H; discriminate).
  - destruct (aget A j); cbn [fst snd] in *; auto. destruct H; discriminate.
  - destruct p; cbn [a_set_ptr fst snd] in *; [apply upd_aget_same; auto|destruct H; discriminate].
  - destruct H as [H|H]; [|discriminate]. inversion H as [H1]. rewrite (a_range_fail _ _ _ H1).
    apply upd_aget_same; auto.
  - destruct p; cbn [fst snd] in *; auto. destruct H as [H|H]; [|discriminate]. inversion H as [H1].
    rewrite (a_range_fail _ _ _ H1). apply upd_aget_same; auto.
  - destruct (aget A j); cbn [fst snd] in *; auto. destruct H; discriminate.
  - destruct (aget A j); cbn [fst snd] in *; auto. destruct H as [H|H]; [|discriminate]. inversion H as [H1].
    rewrite (a_range_fail _ _ _ H1). apply upd_aget_same.
    repeat match goal with H : _ && _ = true |- _ => apply andb_prop in H as (? & ?) end. assumption.
Qed.

Lemma abs_size_bound s i : inv s -> len (contents (aget (abs s) i)) <= 512.
Proof.
  intros Hi. destruct (is_live s i) eqn:El.
  - apply is_live_getb in El as (b & Hb). rewrite (aget_abs s i b Hb).
    pose proof (buf_view s i b Hi Hb) as V. destruct (m_blk b).
    + destruct V as (k & _ & L & Hl & -> & _). cbn. rewrite len_take. lia.
    + destruct V as (_ & ->). cbn. lia.
  - unfold aget. rewrite abs_nth. unfold is_live in El. destruct (nth_error (pool s) i) as [[b|]|]; try discriminate; cbn; lia.
Qed.

(* no leak: once no object is alive, no block is *)
Lemma no_leak s : inv s -> (forall i, is_live s i = false) -> forall id, hget (heap s) id = None.
Proof.
  intros Hi Hd id. destruct (hget (heap s) id) as [k|] eqn:E; auto. exfalso.
  destruct (inv_blk _ _ _ Hi E) as (_ & R & G).
  rewrite refs_zero in R; [lia|]. intros i b Hb. specialize (Hd i). unfold is_live in Hd. rewrite Hb in Hd. discriminate.
Qed.

(* the code as it was: b.Set(b) after b's last alias died frees the block and then reads it *)
Fixpoint crun_unfixed (fresh : list N) (s : st) (ops : list op) : res st :=
  match ops with
  | [] => Ok s
  | o :: r => x <- cstep_unfixed fresh s o ;; crun_unfixed fresh (fst x) r
  end.
Definition self_set_witness : list op :=
  [ONewData 0 (XExt [10; 11; 12]) 3; OCopyNew 1 0; ODestroy 1; OSetBuf 0 0].
Lemma self_set_uaf : crun_unfixed [] (init_st 2) self_set_witness = Hz UseAfterFree.
Proof. vm_compute. reflexivity. Qed.
Lemma self_set_witness_ok : Forall op_ok self_set_witness.
Proof. repeat constructor. cbn. lia. Qed.

(* ---- forms used by Properties.v *)
Lemma abs_init n : abs (init_st n) = repeat None n.
Proof. unfold abs, init_st. cbn. induction n; cbn; congruence. Qed.

Definition query_slots (q : query) : list nat :=
  match q with
  | QSize i | QGetCh i _ | QGetBuf i _ | QGetRange i _ _ | QGetStr i | QToString i | QStream i _ _ _ => [i]
  | QEq i j | QNe i j => [i; j]
  end.

Lemma aquery_ext A A' q :
  (forall j, In j (query_slots q) -> nth_error A' j = nth_error A j) -> aquery A' q = aquery A q.
Proof.
  intros H. destruct q; cbn [query_slots] in H; unfold aquery, a_live, aget;
    rewrite ?(H i) by (cbn; auto); rewrite ?(H j) by (cbn; auto); reflexivity.
Qed.

Lemma reach fresh slots ops :
  Forall op_ok ops ->
  exists s, crun fresh (init_st slots) ops = Ok s /\ inv s /\ abs s = arun (repeat None slots) ops.
Proof.
  intros H. destruct (run_correct fresh ops (init_st slots) (inv_init slots) H) as (s & E & I & A).
  exists s. rewrite abs_init in A. auto.
Qed.

Lemma step_independent fresh s o s' r q :
  inv s -> op_ok o -> cstep fresh s o = Ok (s', r) ->
  (forall j, In j (query_slots q) -> j <> target o) ->
  cquery s' q = cquery s q.
Proof.
  intros Hi Hok E Hq. destruct (step_correct fresh s o Hi Hok) as (s1 & r1 & E1 & I1 & A1 & _).
  rewrite E in E1. inversion E1; subst s1 r1.
  rewrite (query_correct s' q I1), (query_correct s q Hi). f_equal.
  apply aquery_ext. intros j Hj. rewrite A1. apply astep_frame. auto.
Qed.

Lemma step_fail_pure fresh s o s' r :
  inv s -> op_ok o -> cstep fresh s o = Ok (s', r) -> r = RBool false \/ r = RSkip ->
  abs s' = abs s /\ forall q, cquery s' q = cquery s q.
Proof.
  intros Hi Hok E Hr. destruct (step_correct fresh s o Hi Hok) as (s1 & r1 & E1 & I1 & A1 & R1).
  rewrite E in E1. injection E1 as Hs1 Hr1. rewrite <- Hs1 in *. rewrite <- Hr1 in *.
  assert (A : abs s' = abs s). { rewrite A1. apply astep_fail_pure. rewrite <- R1. auto. }
  split; auto. intros q. rewrite (query_correct s' q I1), (query_correct s q Hi), A. reflexivity.
Qed.

Lemma reads_outside s i :
  inv s -> is_live s i = true ->
  exists n, cquery s (QSize i) = Ok (ANum n) /\ n <= 512 /\
    (forall ch, n <= ch -> cquery s (QGetCh i ch) = Ok (ANum 0)) /\
    (forall slot k, n <= slot -> cquery s (QGetRange i slot k) = Ok (ABytes [])) /\
    (forall k, exists l, cquery s (QGetBuf i k) = Ok (ABytes l) /\ len l = N.min k n) /\
    (exists l, cquery s (QGetStr i) = Ok (ABytes l) /\ len l = n).
Proof.
  intros Hi El. exists (len (contents (aget (abs s) i))).
  rewrite !query_correct by auto. unfold aquery. rewrite a_live_abs, El.
  split; [reflexivity|]. split; [apply abs_size_bound; auto|]. split; [|split; [|split]].
  - intros ch H. rewrite query_correct by auto. unfold aquery. rewrite a_live_abs, El.
    do 2 f_equal. apply nth_overflow. unfold len in H. lia.
  - intros slot k H. rewrite query_correct by auto. unfold aquery. rewrite a_live_abs, El.
    rewrite drop_all by auto. unfold take. rewrite firstn_nil. reflexivity.
  - intros k. eexists. rewrite query_correct by auto. unfold aquery. rewrite a_live_abs, El.
    split; [reflexivity|]. apply len_take.
  - eexists. split; [reflexivity|reflexivity].
Qed.

(* ---- the statements of Properties.v, proved here *)
Lemma inv_run_full : forall fresh slots ops,
  Forall op_ok ops ->
  exists s, crun fresh (init_st slots) ops = Ok s /\
    (forall i b, nth_error (pool s) i = Some (Some b) ->
       match m_blk b with
       | None => m_len b = 0
       | Some id => exists k, hget (heap s) id = Some k /\ m_len b <= 512 /\
                              (m_cow b = false -> b_rc k = 1%nat)
       end) /\
    (forall id k, hget (heap s) id = Some k ->
       len (b_data k) = 512 /\ b_rc k = refs id (pool s) /\ (1 <= b_rc k)%nat).
Proof.
  intros fresh slots ops H. destruct (reach fresh slots ops H) as (s & E & I & _).
  exists s. split; [exact E|exact I].
Qed.

Lemma refines_run_full : forall fresh slots ops q,
  Forall op_ok ops ->
  exists s, crun fresh (init_st slots) ops = Ok s /\
            abs s = arun (repeat None slots) ops /\
            cquery s q = Ok (aquery (arun (repeat None slots) ops) q).
Proof.
  intros fresh slots ops q H. destruct (reach fresh slots ops H) as (s & E & I & A).
  exists s. split; [exact E|]. split; [exact A|]. rewrite <- A. exact (query_correct s q I).
Qed.

Lemma independent_full : forall fresh s o s' r,
  inv s -> op_ok o -> cstep fresh s o = Ok (s', r) ->
  (forall j, j <> target o -> nth_error (abs s') j = nth_error (abs s) j) /\
  (forall q, (forall j, In j (query_slots q) -> j <> target o) -> cquery s' q = cquery s q).
Proof.
  intros fresh s o s' r Hi Hok E. split.
  - intros j Hj. destruct (step_correct fresh s o Hi Hok) as (s1 & r1 & E1 & _ & A1 & _).
    rewrite E in E1. injection E1 as <- <-. rewrite A1. exact (astep_frame (abs s) o j Hj).
  - intros q Hq. exact (step_independent fresh s o s' r q Hi Hok E Hq).
Qed.

Lemma memsafe_full :
  (forall fresh s o h, inv s -> op_ok o -> cstep fresh s o <> Hz h) /\
  (forall s q h, inv s -> cquery s q <> Hz h) /\
  (forall fresh slots ops, Forall op_ok ops ->
     exists s, crun fresh (init_st slots) ops = Ok s /\
               ((forall i, is_live s i = false) -> forall id, hget (heap s) id = None)).
Proof.
  split; [|split].
  - intros fresh s o h Hi Hok E. destruct (step_correct fresh s o Hi Hok) as (s' & r & E' & _). congruence.
  - intros s q h Hi E. rewrite (query_correct s q Hi) in E. discriminate.
  - intros fresh slots ops H. destruct (reach fresh slots ops H) as (s & E & I & _).
    exists s. split; [exact E|]. exact (no_leak s I).
Qed.

Lemma self_set_refuted_full :
  exists ops, Forall op_ok ops /\ crun_unfixed [] (init_st 2) ops = Hz UseAfterFree.
Proof. exists self_set_witness. split; [exact self_set_witness_ok|exact self_set_uaf]. Qed.


(* ---- extension round: traces, text conversion, destroy-all, uninitialised memory *)
Lemma trace_correct fresh ops : forall s,
  inv s -> Forall op_ok ops ->
  exists s', ctrace fresh s ops = Ok (s', atrace (abs s) ops) /\ inv s' /\ abs s' = arun (abs s) ops.
Proof.
  induction ops as [|o r IH]; intros s Hi Hok.
  - exists s. auto.
  - inversion Hok as [|? ? H1 H2]; subst.
    destruct (step_correct fresh s o Hi H1) as (s1 & r1 & E & I1 & A1 & R1).
    destruct (IH s1 I1 H2) as (s' & E' & I' & A'). exists s'. cbn [ctrace atrace arun]. rewrite E. cbn [bind fst snd].
    rewrite E'. cbn [bind fst snd]. rewrite <- A1, R1. auto.
Qed.

Lemma trace_full :
  forall fresh slots ops, Forall op_ok ops ->
  exists s, ctrace fresh (init_st slots) ops = Ok (s, atrace (repeat None slots) ops) /\
            inv s /\ abs s = arun (repeat None slots) ops.
Proof.
  intros fresh slots ops H.
  destruct (trace_correct fresh ops (init_st slots) (inv_init slots) H) as (s & E & I & A).
  rewrite abs_init in *. eauto.
Qed.

(* what cannot be observed: the contents of uninitialised memory *)
Lemma uninit_invisible_full :
  forall fresh1 fresh2 slots ops q, Forall op_ok ops ->
  exists s1 s2 rets a,
    ctrace fresh1 (init_st slots) ops = Ok (s1, rets) /\ ctrace fresh2 (init_st slots) ops = Ok (s2, rets) /\
    cquery s1 q = Ok a /\ cquery s2 q = Ok a.
Proof.
  intros f1 f2 slots ops q H.
  destruct (trace_full f1 slots ops H) as (s1 & E1 & I1 & A1).
  destruct (trace_full f2 slots ops H) as (s2 & E2 & I2 & A2).
  exists s1, s2, (atrace (repeat None slots) ops), (aquery (arun (repeat None slots) ops) q).
  split; [exact E1|]. split; [exact E2|].
  rewrite (query_correct s1 q I1), (query_correct s2 q I2), A1, A2. auto.
Qed.

(* reachable states store bytes *)
Lemma reach_bytes fresh slots ops :
  Forall op_ok ops -> Forall op_bytes ops ->
  exists s, crun fresh (init_st slots) ops = Ok s /\ inv s /\ abytes (abs s).
Proof.
  intros H Hb. destruct (reach fresh slots ops H) as (s & E & I & A). exists s. split; auto. split; auto.
  rewrite A. apply arun_bytes; auto. apply abytes_init.
Qed.

(* SetFromString(ToString()) of any live buffer reproduces its slots, in any live buffer *)
Lemma text_roundtrip_full :
  forall fresh slots ops i j, Forall op_ok ops -> Forall op_bytes ops ->
  exists s, crun fresh (init_st slots) ops = Ok s /\
    (is_live s i = true -> is_live s j = true ->
     exists text s', cquery s (QToString j) = Ok (ABytes text) /\
       cstep fresh s (OSetFromString i text) = Ok (s', RBool true) /\
       aget (abs s') i = Some (contents (aget (abs s) j)) /\
       forall k, cquery s' (QGetStr i) = Ok (ABytes k) -> cquery s (QGetStr j) = Ok (ABytes k)).
Proof.
  intros fresh slots ops i j H Hb. destruct (reach_bytes fresh slots ops H Hb) as (s & E & I & B).
  exists s. split; [exact E|]. intros Li Lj.
  exists (join_dec (contents (aget (abs s) j))).
  destruct (step_correct fresh s (OSetFromString i (join_dec (contents (aget (abs s) j)))) I) as (s' & r & E' & I' & A' & R');
    [exact Logic.I|].
  unfold astep in A', R'. rewrite a_live_abs, Li in A', R'. cbn [fst snd] in A', R'. subst r.
  exists s'. split; [|split; [exact E'|]].
  - rewrite (query_correct s _ I). unfold aquery. rewrite a_live_abs, Lj. reflexivity.
  - assert (Ev : take 512 (sfs_values (join_dec (contents (aget (abs s) j)))) = contents (aget (abs s) j)).
    { rewrite sfs_join_dec by (apply abytes_aget; auto). apply take_all. apply abs_size_bound; auto. }
    rewrite Ev in A'.
    assert (Hlt : (i < length (abs s))%nat).
    { apply is_live_getb in Li as (b & Hb'). eapply live_lt; eauto. }
    assert (Ag : aget (abs s') i = Some (contents (aget (abs s) j))) by (rewrite A'; apply aget_upd_eq; auto).
    split; [exact Ag|]. intros k Hk.
    rewrite (query_correct s' _ I') in Hk. rewrite (query_correct s _ I).
    unfold aquery in *. rewrite a_live_abs in *. rewrite Lj.
    assert (Li' : is_live s' i = true).
    { rewrite <- a_live_abs, A'. unfold a_live. rewrite nth_upd_eq by auto. reflexivity. }
    rewrite Li' in Hk. rewrite Ag in Hk. cbn [contents] in Hk. exact Hk.
Qed.

(* documented-format text: every item denotes its value, a dropped item 0, at most 512 items count *)
Lemma sfs_documented_step :
  forall fresh s i items, inv s -> is_live s i = true ->
  forallb item_ok items = true -> join_items (map item_text items) <> [] ->
  exists s', cstep fresh s (OSetFromString i (join_items (map item_text items))) = Ok (s', RBool true) /\
             inv s' /\ aget (abs s') i = Some (take 512 (map item_val items)).
Proof.
  intros fresh s i items I Li Hok Hne.
  destruct (step_correct fresh s (OSetFromString i (join_items (map item_text items))) I Logic.I)
    as (s' & r & E' & I' & A' & R').
  unfold astep in A', R'. rewrite a_live_abs, Li in A', R'. cbn [fst snd] in A', R'. subst r.
  exists s'. split; [exact E'|]. split; [exact I'|]. rewrite A', sfs_documented by auto.
  apply aget_upd_eq. apply is_live_getb in Li as (b & Hb'). eapply live_lt; eauto.
Qed.

(* ---- destroying every object frees every block *)
Lemma astep_length A o : length (fst (astep A o)) = length A.
Proof.
  destruct o; unfold astep;
    repeat match goal with
           | |- context [if ?c then _ else _] => destruct c
           | |- context [match ?x with XNull => _ | XExt _ => _ end] => destruct x
           | |- context [match aget ?A ?i with Some _ => _ | None => _ end] => destruct (aget A i)
           end; cbn [fst]; rewrite ?upd_length; reflexivity.
Qed.
Lemma arun_length ops : forall A, length (arun A ops) = length A.
Proof. induction ops as [|o r IH]; intros A; cbn [arun]; auto. rewrite IH. apply astep_length. Qed.
Lemma arun_app a : forall A b, arun A (a ++ b) = arun (arun A a) b.
Proof. induction a as [|o r IH]; intros A b; cbn [arun app]; auto. Qed.

Lemma a_live_destroy A k i :
  a_live (fst (astep A (ODestroy k))) i = if Nat.eqb i k then false else a_live A i.
Proof.
  unfold astep. destruct (a_live A k) eqn:Ek; cbn [fst].
  - unfold a_live in *. destruct (Nat.eqb_spec i k) as [->|Hn].
    + destruct (nth_error A k) eqn:E; [|discriminate]. rewrite nth_upd_eq by (eapply nth_some_lt; eauto). reflexivity.
    + rewrite nth_upd_neq by auto. reflexivity.
  - destruct (Nat.eqb_spec i k) as [->|Hn]; auto.
Qed.
Lemma a_live_destroys l : forall A i,
  a_live (arun A (map ODestroy l)) i = a_live A i && negb (existsb (Nat.eqb i) l).
Proof.
  induction l as [|k l IH]; intros A i; cbn [map arun existsb].
  - rewrite andb_true_r. reflexivity.
  - rewrite IH, a_live_destroy. destruct (Nat.eqb i k); cbn; auto. rewrite andb_false_r. reflexivity.
Qed.

Lemma destroy_all_full :
  forall fresh slots ops, Forall op_ok ops ->
  exists s, crun fresh (init_st slots) (ops ++ destroy_all slots) = Ok s /\
            (forall i, is_live s i = false) /\ (forall id, hget (heap s) id = None).
Proof.
  intros fresh slots ops H.
  assert (H' : Forall op_ok (ops ++ destroy_all slots)).
  { apply Forall_app. split; auto. unfold destroy_all. apply Forall_forall. intros o Ho.
    apply in_map_iff in Ho as (k & <- & _). exact Logic.I. }
  destruct (reach fresh slots (ops ++ destroy_all slots) H') as (s & E & I & A).
  exists s. split; [exact E|].
  assert (D : forall i, is_live s i = false).
  { intros i. rewrite <- a_live_abs, A, arun_app. unfold destroy_all. rewrite a_live_destroys.
    destruct (Nat.lt_ge_cases i slots) as [Hlt|Hge].
    - assert (X : existsb (Nat.eqb i) (seq 0 slots) = true).
      { apply existsb_exists. exists i. split; [apply in_seq; lia|apply Nat.eqb_refl]. }
      rewrite X, andb_false_r. reflexivity.
    - unfold a_live. assert (L : length (arun (repeat None slots) ops) = slots) by (rewrite arun_length, repeat_length; auto).
      destruct (nth_error (arun (repeat None slots) ops) i) eqn:En; [|reflexivity].
      apply nth_some_lt in En. lia. }
  split; [exact D|]. exact (no_leak s I D).
Qed.

Lemma slots_are_bytes_full :
  forall fresh slots ops i, Forall op_ok ops -> Forall op_bytes ops ->
  exists s, crun fresh (init_st slots) ops = Ok s /\
    (is_live s i = true -> exists l, cquery s (QGetStr i) = Ok (ABytes l) /\ bytes_ok l = true).
Proof.
  intros fresh slots ops i H Hb. destruct (reach_bytes fresh slots ops H Hb) as (s & E & I & B).
  exists s. split; [exact E|]. intros Li. exists (contents (aget (abs s) i)).
  rewrite (query_correct s _ I). unfold aquery. rewrite a_live_abs, Li. split; [reflexivity|].
  apply abytes_aget; auto.
Qed.

(* the plugins' idiom  a.SetRange(0, b.GetRaw(), b.Size())  from any aliasing state: a (initialised, not
   longer than b) becomes a copy of b, b is untouched *)
Lemma raw_copy_step :
  forall fresh s i j l c, inv s -> i <> j ->
  is_live s i = true -> is_live s j = true -> aget (abs s) j = Some l -> aget (abs s) i = Some c ->
  len c <= len l ->
  exists s', cstep fresh s (OSetRangeRaw i 0 j 0 (len l)) = Ok (s', RBool true) /\ inv s' /\
             aget (abs s') i = Some l /\ aget (abs s') j = Some l.
Proof.
  intros fresh s i j l c I Hn Li Lj Ej Ei Lc.
  destruct (step_correct fresh s (OSetRangeRaw i 0 j 0 (len l)) I Logic.I) as (s' & r & E & I' & A' & R').
  assert (L5 : len l <= 512).
  { pose proof (abs_size_bound s j I) as Bj. rewrite Ej in Bj. exact Bj. }
  assert (Hlt : (i < length (abs s))%nat).
  { apply is_live_getb in Li as (b & Hb'). eapply live_lt; eauto. }
  unfold astep in A', R'. rewrite !a_live_abs, Li, Lj in A', R'.
  destruct (Nat.eqb_spec i j); [contradiction|]. cbn [andb negb] in A', R'.
  rewrite Ej, Ei in A', R'. cbn [contents] in A', R'. rewrite N.add_0_l, N.leb_refl in A', R'.
  unfold a_range in A', R'. change (512 <=? 0) with false in A', R'.
  destruct (N.ltb_spec (len c) 0); [lia|]. cbn [fst snd] in A', R'. subst r.
  exists s'. split; [exact E|]. split; [exact I'|]. rewrite A'. split.
  - rewrite aget_upd_eq by auto. f_equal.
    unfold a_store. rewrite take_0, N.sub_0_r, drop_0. cbn [app].
    replace (N.min (len l) 512) with (len l) by lia. rewrite (take_all (len l) l) by lia.
    rewrite N.add_0_l, drop_all by lia. apply app_nil_r.
  - rewrite aget_upd_neq by auto. exact Ej.
Qed.

(* ---- wave 6: whole-buffer expressions (assignment from a temporary, std::swap, container erase) *)
Lemma a_live_lt A i : a_live A i = true -> (i < length A)%nat.
Proof. unfold a_live. destruct (nth_error A i) eqn:E; [intros _; eapply nth_some_lt; eauto|discriminate]. Qed.
Lemma a_raw_lt A i : a_raw A i = true -> (i < length A)%nat.
Proof. unfold a_raw. destruct (nth_error A i) eqn:E; [intros _; eapply nth_some_lt; eauto|discriminate]. Qed.
Lemma a_live_upd_neq A i j x : i <> j -> a_live (upd A i x) j = a_live A j.
Proof. intros H. unfold a_live. rewrite nth_upd_neq by auto. reflexivity. Qed.
Lemma a_live_upd_some A i x : (i < length A)%nat -> a_live (upd A i (Some x)) i = true.
Proof. intros H. unfold a_live. rewrite nth_upd_eq by auto. reflexivity. Qed.
Lemma a_raw_upd_neq A i j x : i <> j -> a_raw (upd A i x) j = a_raw A j.
Proof. intros H. unfold a_raw. rewrite nth_upd_neq by auto. reflexivity. Qed.
Lemma upd_raw_same (A : astate) t : a_raw A t = true -> upd A t None = A.
Proof.
  unfold a_raw. intros H. apply upd_same. destruct (nth_error A t) as [[x|]|]; try discriminate. reflexivity.
Qed.

Lemma arun_assign_temp A t i j :
  a_raw A t = true -> a_live A i = true -> a_live A j = true -> t <> i -> t <> j ->
  arun A (assign_temp_ops t i j) = upd A i (Some (aget A j)).
Proof.
  intros Rt Li Lj Hti Htj. pose proof (a_raw_lt _ _ Rt) as Lt.
  unfold assign_temp_ops. cbn [arun]. unfold astep at 3. rewrite Rt, Lj. cbn [andb fst].
  unfold astep at 2. rewrite a_live_upd_neq by auto. rewrite Li, a_live_upd_some by auto. cbn [andb fst].
  rewrite aget_upd_eq by auto.
  unfold astep. rewrite a_live_upd_neq by auto. rewrite a_live_upd_some by auto. cbn [fst].
  rewrite (Prims.upd_comm A t i) by auto. rewrite upd_upd.
  apply upd_raw_same. rewrite a_raw_upd_neq by auto. exact Rt.
Qed.

Lemma arun_swap A t a b :
  a_raw A t = true -> a_live A a = true -> a_live A b = true -> t <> a -> t <> b ->
  arun A (swap_ops t a b) = upd (upd A a (Some (aget A b))) b (Some (aget A a)).
Proof.
  intros Rt La Lb Hta Htb. pose proof (a_raw_lt _ _ Rt) as Lt. pose proof (a_live_lt _ _ La) as Lla.
  unfold swap_ops. cbn [arun]. unfold astep at 4. rewrite Rt, La. cbn [andb fst].
  set (A1 := upd A t (Some (aget A a))).
  assert (L1a : a_live A1 a = true) by (unfold A1; rewrite a_live_upd_neq by auto; auto).
  assert (L1b : a_live A1 b = true) by (unfold A1; rewrite a_live_upd_neq by auto; auto).
  unfold astep at 3. rewrite L1a, L1b. cbn [andb fst].
  assert (G1b : aget A1 b = aget A b) by (unfold A1; apply aget_upd_neq; auto). rewrite G1b.
  set (A2 := upd A1 a (Some (aget A b))).
  assert (Len1 : length A1 = length A) by (unfold A1; apply upd_length).
  assert (L2b : a_live A2 b = true).
  { unfold A2. destruct (Nat.eq_dec a b) as [<-|Hn]; [apply a_live_upd_some; lia|rewrite a_live_upd_neq by auto; auto]. }
  assert (L2t : a_live A2 t = true).
  { unfold A2. rewrite a_live_upd_neq by auto. unfold A1. apply a_live_upd_some; auto. }
  unfold astep at 2. rewrite L2b, L2t. cbn [andb fst].
  assert (G2t : aget A2 t = aget A a).
  { unfold A2. rewrite aget_upd_neq by auto. unfold A1. apply aget_upd_eq; auto. }
  rewrite G2t.
  set (A3 := upd A2 b (Some (aget A a))).
  assert (L3t : a_live A3 t = true) by (unfold A3; rewrite a_live_upd_neq by auto; auto).
  unfold astep. rewrite L3t. cbn [fst].
  unfold A3, A2, A1.
  rewrite (Prims.upd_comm A t a) by auto. rewrite (Prims.upd_comm (upd A a _) t b) by auto. rewrite upd_upd.
  apply upd_raw_same. rewrite !a_raw_upd_neq by auto. exact Rt.
Qed.

Lemma expr_run fresh s ops :
  inv s -> Forall op_ok ops ->
  exists s', crun fresh s ops = Ok s' /\ inv s' /\ abs s' = arun (abs s) ops /\
             (forall q, cquery s' q = Ok (aquery (arun (abs s) ops) q)).
Proof.
  intros I H. destruct (run_correct fresh ops s I H) as (s' & E & I' & A').
  exists s'. split; [exact E|]. split; [exact I'|]. split; [exact A'|].
  intros q. rewrite (query_correct s' q I'), A'. reflexivity.
Qed.

Lemma assign_temp_full :
  forall fresh s t i j, inv s -> is_raw s t = true -> is_live s i = true -> is_live s j = true ->
  t <> i -> t <> j ->
  exists s', crun fresh s (assign_temp_ops t i j) = Ok s' /\ inv s' /\
             abs s' = upd (abs s) i (Some (aget (abs s) j)).
Proof.
  intros fresh s t i j I Rt Li Lj Hi Hj.
  destruct (expr_run fresh s (assign_temp_ops t i j) I) as (s' & E & I' & A' & _).
  { repeat constructor. }
  exists s'. split; [exact E|]. split; [exact I'|]. rewrite A'.
  apply arun_assign_temp; rewrite ?a_raw_abs, ?a_live_abs; auto.
Qed.

Lemma swap_full :
  forall fresh s t a b, inv s -> is_raw s t = true -> is_live s a = true -> is_live s b = true ->
  t <> a -> t <> b ->
  exists s', crun fresh s (swap_ops t a b) = Ok s' /\ inv s' /\
             abs s' = upd (upd (abs s) a (Some (aget (abs s) b))) b (Some (aget (abs s) a)).
Proof.
  intros fresh s t a b I Rt La Lb Ha Hb.
  destruct (expr_run fresh s (swap_ops t a b) I) as (s' & E & I' & A' & _).
  { repeat constructor. }
  exists s'. split; [exact E|]. split; [exact I'|]. rewrite A'.
  apply arun_swap; rewrite ?a_raw_abs, ?a_live_abs; auto.
Qed.

(* the write that exposed seeded change C02f-2: after x = T(y) (or swap), writing x in place leaves y alone *)
Lemma assign_temp_then_write_full :
  forall fresh s t i j ch v, inv s -> is_raw s t = true -> is_live s i = true -> is_live s j = true ->
  t <> i -> t <> j -> i <> j ->
  exists s', crun fresh s (assign_temp_ops t i j ++ [OSetChannel i ch v]) = Ok s' /\ inv s' /\
             nth_error (abs s') j = nth_error (abs s) j /\
             (forall q, (forall x, In x (query_slots q) -> x <> i /\ x <> t) -> cquery s' q = cquery s q).
Proof.
  intros fresh s t i j ch v I Rt Li Lj Hi Hj Hij.
  destruct (expr_run fresh s (assign_temp_ops t i j ++ [OSetChannel i ch v]) I) as (s' & E & I' & A' & Q').
  { repeat constructor. }
  exists s'. split; [exact E|]. split; [exact I'|].
  assert (AR : arun (abs s) (assign_temp_ops t i j ++ [OSetChannel i ch v]) =
               fst (astep (upd (abs s) i (Some (aget (abs s) j))) (OSetChannel i ch v))).
  { rewrite arun_app. rewrite arun_assign_temp by (rewrite ?a_raw_abs, ?a_live_abs; auto). reflexivity. }
  assert (FR : forall x, x <> i -> nth_error (arun (abs s) (assign_temp_ops t i j ++ [OSetChannel i ch v])) x =
                                   nth_error (abs s) x).
  { intros x Hx. rewrite AR, astep_frame by (cbn; auto). apply nth_upd_neq. auto. }
  split.
  - rewrite A'. apply FR. auto.
  - intros q Hq. rewrite Q', (query_correct s q I). f_equal. apply aquery_ext.
    intros x Hx. apply FR. apply (Hq x Hx).
Qed.

(* container.erase: shifting by assignment *)
Lemma live_entry A x : a_live A x = true -> nth_error A x = Some (Some (aget A x)).
Proof. unfold a_live, aget. destruct (nth_error A x) as [[b|]|]; try discriminate. reflexivity. Qed.

Lemma arun_shift base : forall c k A,
  (forall m, (k <= m <= k + c)%nat -> a_live A (base + m) = true) ->
  forall x, nth_error (arun A (map (fun m => OAssign (base + m) (base + m + 1)) (seq k c))) x =
            if (Nat.leb (base + k) x && Nat.ltb x (base + k + c))%bool then nth_error A (x + 1) else nth_error A x.
Proof.
  induction c as [|c IH]; intros k A HL x.
  - cbn [seq map arun]. replace (base + k + 0)%nat with (base + k)%nat by lia.
    destruct (Nat.leb_spec (base + k) x); destruct (Nat.ltb_spec x (base + k)); cbn; auto; lia.
  - cbn [seq map arun].
    assert (Lk : a_live A (base + k) = true) by (apply HL; lia).
    assert (Lk1 : a_live A (base + k + 1) = true) by (replace (base + k + 1)%nat with (base + (k + 1))%nat by lia; apply HL; lia).
    unfold astep at 1. rewrite Lk, Lk1. cbn [andb fst].
    set (A1 := upd A (base + k) (Some (aget A (base + k + 1)))).
    rewrite (IH (S k) A1).
    2:{ intros m Hm. unfold A1. rewrite a_live_upd_neq by lia. apply HL. lia. }
    replace (base + S k + c)%nat with (base + k + S c)%nat by lia.
    destruct (Nat.leb_spec (base + S k) x); destruct (Nat.ltb_spec x (base + k + S c));
      destruct (Nat.leb_spec (base + k) x); cbn [andb]; try lia;
      try (unfold A1; rewrite nth_upd_neq by lia; reflexivity).
    assert (x = base + k)%nat by lia. subst x. unfold A1.
    rewrite nth_upd_eq by (apply a_live_lt; auto). symmetry. apply live_entry. exact Lk1.
Qed.

Lemma erase_full :
  forall fresh s base k n, inv s -> (k < n)%nat ->
  (forall m, (m < n)%nat -> is_live s (base + m) = true) ->
  exists s', crun fresh s (erase_ops base k n) = Ok s' /\ inv s' /\
    (forall x, nth_error (abs s') x =
       if Nat.eqb x (base + n - 1) then Some None
       else if (Nat.leb (base + k) x && Nat.ltb x (base + n - 1))%bool then nth_error (abs s) (x + 1)
       else nth_error (abs s) x).
Proof.
  intros fresh s base k n I Hk HL.
  destruct (expr_run fresh s (erase_ops base k n) I) as (s' & E & I' & A' & _).
  { unfold erase_ops. apply Forall_app. split; [|repeat constructor].
    apply Forall_forall. intros o Ho. apply in_map_iff in Ho as (m & <- & _). exact Logic.I. }
  exists s'. split; [exact E|]. split; [exact I'|]. intros x. rewrite A'. unfold erase_ops. rewrite arun_app.
  set (R := arun (abs s) (map (fun m => OAssign (base + m) (base + m + 1)) (seq k (n - 1 - k)))).
  assert (HR : forall y, nth_error R y =
             if (Nat.leb (base + k) y && Nat.ltb y (base + k + (n - 1 - k)))%bool then nth_error (abs s) (y + 1)
             else nth_error (abs s) y).
  { intros y. unfold R. apply arun_shift. intros m Hm. rewrite a_live_abs. apply HL. lia. }
  replace (base + k + (n - 1 - k))%nat with (base + n - 1)%nat in HR by lia.
  assert (Llast : a_live R (base + n - 1) = true).
  { unfold a_live. rewrite HR. destruct (Nat.ltb_spec (base + n - 1) (base + n - 1)); [lia|]. rewrite andb_false_r.
    replace (base + n - 1)%nat with (base + (n - 1))%nat by lia.
    pose proof (HL (n - 1)%nat ltac:(lia)) as L. rewrite <- a_live_abs in L. unfold a_live in L. exact L. }
  cbn [arun]. unfold astep. rewrite Llast. cbn [fst].
  destruct (Nat.eqb_spec x (base + n - 1)) as [->|Hne].
  - apply nth_upd_eq. apply a_live_lt. exact Llast.
  - rewrite nth_upd_neq by auto. apply HR.
Qed.

(* ---- wave 7: the stream operator *)
Lemma pad_text_small w fl adj text : w <= len text -> pad_text w fl adj text = text.
Proof. intros H. unfold pad_text. destruct (N.ltb_spec (len text) w); [lia|reflexivity]. Qed.
Lemma len_pad_text w fl adj text : len (pad_text w fl adj text) = N.max w (len text).
Proof.
  unfold pad_text. destruct (N.ltb_spec (len text) w); [|lia].
  destruct (adj =? 1); rewrite len_app, len_repeat; lia.
Qed.

Lemma stream_text_full :
  forall fresh slots ops i w fl adj, Forall op_ok ops ->
  exists s, crun fresh (init_st slots) ops = Ok s /\
    (is_live s i = true ->
     exists text, cquery s (QToString i) = Ok (ABytes text) /\
       cquery s (QStream i w fl adj) = Ok (ABytes (pad_text w fl adj text)) /\
       (w <= len text -> cquery s (QStream i w fl adj) = Ok (ABytes text)) /\
       len (pad_text w fl adj text) = N.max w (len text) /\
       width_after_insert w = 0).
Proof.
  intros fresh slots ops i w fl adj H. destruct (reach fresh slots ops H) as (s & E & I & _).
  exists s. split; [exact E|]. intros Li. exists (join_dec (contents (aget (abs s) i))).
  rewrite !(query_correct s _ I). unfold aquery. rewrite a_live_abs, Li.
  split; [reflexivity|]. split; [reflexivity|]. split; [|split; [apply len_pad_text|reflexivity]].
  intros Hw. rewrite pad_text_small by exact Hw. reflexivity.
Qed.

(* ---- final round: operator== is exactly "same length and same slots" *)
Lemma list_eqb_eq a : forall b, list_eqb a b = true <-> a = b.
Proof.
  induction a as [|x a IH]; intros [|y b]; cbn; split; intros H; try discriminate; auto.
  - apply andb_prop in H as (H1 & H2). apply N.eqb_eq in H1. apply IH in H2. congruence.
  - inversion H; subst. rewrite N.eqb_refl. cbn. apply IH. reflexivity.
Qed.

Lemma equality_exact_full :
  forall fresh slots ops i j, Forall op_ok ops ->
  exists s, crun fresh (init_st slots) ops = Ok s /\
    (is_live s i = true -> is_live s j = true ->
     exists li lj, cquery s (QGetStr i) = Ok (ABytes li) /\ cquery s (QGetStr j) = Ok (ABytes lj) /\
       (cquery s (QEq i j) = Ok (ABool true) <-> li = lj) /\
       (cquery s (QEq i j) = Ok (ABool false) <-> li <> lj) /\
       (cquery s (QNe i j) = Ok (ABool true) <-> li <> lj)).
Proof.
  intros fresh slots ops i j H. destruct (reach fresh slots ops H) as (s & E & I & _).
  exists s. split; [exact E|]. intros Li Lj.
  exists (contents (aget (abs s) i)), (contents (aget (abs s) j)).
  rewrite !(query_correct s _ I). unfold aquery. rewrite !a_live_abs, Li, Lj. cbn [andb].
  split; [reflexivity|]. split; [reflexivity|].
  destruct (list_eqb (contents (aget (abs s) i)) (contents (aget (abs s) j))) eqn:X.
  - apply list_eqb_eq in X. cbn [negb]. repeat split; intros; try congruence; try discriminate; auto.
  - assert (N : contents (aget (abs s) i) <> contents (aget (abs s) j)).
    { intros Eq. apply list_eqb_eq in Eq. congruence. }
    cbn [negb]. repeat split; intros; try congruence; try discriminate; auto.
Qed.

(* documented-format text, items as atoi reads them *)
Lemma sfs_documented_general_step :
  forall fresh s i items, inv s -> is_live s i = true ->
  forallb gitem_ok items = true -> join_items (map gitem_text items) <> [] ->
  exists s', cstep fresh s (OSetFromString i (join_items (map gitem_text items))) = Ok (s', RBool true) /\
             inv s' /\ aget (abs s') i = Some (take 512 (map gitem_val items)).
Proof.
  intros fresh s i items I Li Hok Hne.
  destruct (step_correct fresh s (OSetFromString i (join_items (map gitem_text items))) I Logic.I)
    as (s' & r & E' & I' & A' & R').
  unfold astep in A', R'. rewrite a_live_abs, Li in A', R'. cbn [fst snd] in A', R'. subst r.
  exists s'. split; [exact E'|]. split; [exact I'|]. rewrite A', sfs_documented_general by auto.
  apply aget_upd_eq. apply is_live_getb in Li as (b & Hb'). eapply live_lt; eauto.
Qed.
