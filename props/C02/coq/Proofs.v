(* C02 — top-level results assembled from Step.v / Htp.v *)
From OlaBase Require Import Bytes.
From C02 Require Import Gen Model Spec Lemmas Inv Prims Dup Ops Step Htp.
Local Open Scope N_scope.

Theorem step_correct fresh s o : inv s -> op_ok o -> refines_step fresh s o.
Proof.
  intros Hi Hok. destruct o.
  - apply op_new; auto.
  - apply op_copynew; auto.
  - apply op_newdata; auto.
  - apply op_destroy; auto.
  - apply op_assign; auto.
  - apply op_setbuf; auto.
  - apply op_setptr; auto.
  - apply op_setstr; auto.
  - apply op_setfromstring; auto.
  - apply op_setrangetovalue; auto.
  - apply op_setrange; auto.
  - apply op_setchannel; auto.
  - apply op_htpmerge; auto.
  - apply op_blackout; auto.
  - apply op_reset; auto.
Qed.

Theorem run_correct fresh ops : forall s,
  inv s -> Forall op_ok ops ->
  exists s', crun fresh s ops = Ok s' /\ inv s' /\ abs s' = arun (abs s) ops.
Proof.
  induction ops as [|o r IH]; intros s Hi Hok.
  - exists s. auto.
  - inversion Hok as [|? ? H1 H2]; subst.
    destruct (step_correct fresh s o Hi H1) as (s1 & r1 & E & I1 & A1 & _).
    destruct (IH s1 I1 H2) as (s' & E' & I' & A'). exists s'. cbn [crun arun]. rewrite E. cbn [bind fst].
    rewrite <- A1. auto.
Qed.

(* ---- observations *)
Lemma list_eqb_refl l : list_eqb l l = true.
Proof. induction l as [|x l IH]; cbn; auto. rewrite N.eqb_refl, IH. reflexivity. Qed.
Lemma list_eqb_len a : forall b, list_eqb a b = true -> len a = len b.
Proof.
  induction a as [|x a IH]; intros [|y b] H; cbn in H; try discriminate; auto.
  apply andb_prop in H as (_ & H). rewrite !len_cons, (IH _ H). reflexivity.
Qed.
Lemma hd_take_drop (d : list N) ch L :
  ch < L -> L <= len d -> hd 0 (take 1 (drop ch d)) = nth (N.to_nat ch) (take L d) 0.
Proof.
  intros H1 H2. unfold take, drop, len in *.
  rewrite <- (firstn_skipn (N.to_nat ch) d) at 2.
  assert (Hl : length (firstn (N.to_nat ch) d) = N.to_nat ch) by (rewrite firstn_length; lia).
  rewrite firstn_app, Hl. rewrite firstn_firstn. replace (Nat.min (N.to_nat L) (N.to_nat ch)) with (N.to_nat ch) by lia.
  rewrite app_nth2 by lia. rewrite Hl, Nat.sub_diag.
  destruct (skipn (N.to_nat ch) d) as [|x r] eqn:E.
  - assert (length (skipn (N.to_nat ch) d) = 0%nat) by (rewrite E; reflexivity). rewrite skipn_length in H. lia.
  - replace (N.to_nat L - N.to_nat ch)%nat with (S (N.to_nat L - N.to_nat ch - 1)) by lia. reflexivity.
Qed.

Theorem query_correct s q : inv s -> cquery s q = Ok (aquery (abs s) q).
Proof.
  intros Hi. destruct q as [i|i ch|i n|i slot n|i|i|i j]; unfold cquery, aquery; rewrite ?a_live_abs.
  - destruct (is_live s i) eqn:El; auto. apply is_live_getb in El as (b & Hb). rewrite Hb. cbn [bind].
    rewrite (aget_abs s i b Hb). pose proof (buf_view s i b Hi Hb) as V. destruct (m_blk b).
    + destruct V as (k & _ & L & Hl & -> & _). cbn [contents]. rewrite len_take. do 2 f_equal. lia.
    + destruct V as (-> & ->). reflexivity.
  - destruct (is_live s i) eqn:El; auto. apply is_live_getb in El as (b & Hb). rewrite Hb. cbn [bind].
    rewrite (aget_abs s i b Hb). pose proof (buf_view s i b Hi Hb) as V. destruct (m_blk b) as [id|].
    + destruct V as (k & Hk & L & Hl & -> & _). cbn [contents]. destruct (N.ltb_spec ch (m_len b)).
      * rewrite (Htp.pread_blk s id k ch 1 Hk L) by lia. cbn [bind]. do 2 f_equal. apply hd_take_drop; lia.
      * do 2 f_equal. symmetry. apply nth_overflow. unfold take. rewrite firstn_length. lia.
    + destruct V as (_ & ->). cbn [contents]. destruct (N.to_nat ch); reflexivity.
  - destruct (is_live s i) eqn:El; auto. apply is_live_getb in El as (b & Hb). rewrite Hb. cbn [bind].
    rewrite (aget_abs s i b Hb). pose proof (buf_view s i b Hi Hb) as V. destruct (m_blk b) as [id|].
    + destruct V as (k & Hk & L & Hl & -> & _). cbn [contents].
      rewrite (Htp.pread_blk s id k 0 _ Hk L) by lia. cbn [bind]. rewrite drop_0, take_take. reflexivity.
    + destruct V as (_ & ->). cbn [contents]. unfold take. rewrite firstn_nil. reflexivity.
  - destruct (is_live s i) eqn:El; auto. apply is_live_getb in El as (b & Hb). rewrite Hb. cbn [bind].
    rewrite (aget_abs s i b Hb). pose proof (buf_view s i b Hi Hb) as V. destruct (m_blk b) as [id|].
    + destruct V as (k & Hk & L & Hl & -> & _). cbn [contents]. destruct (N.leb_spec (m_len b) slot).
      * rewrite drop_all by (rewrite len_take; lia). unfold take. rewrite firstn_nil. reflexivity.
      * rewrite (Htp.pread_blk s id k slot _ Hk L) by lia. cbn [bind]. rewrite drop_take, take_take. reflexivity.
    + destruct V as (-> & ->). cbn [contents]. destruct (N.leb_spec 0 slot); [|lia].
      unfold take, drop. rewrite skipn_nil, firstn_nil. reflexivity.
  - destruct (is_live s i) eqn:El; auto. apply is_live_getb in El as (b & Hb). rewrite Hb. cbn [bind].
    rewrite (aget_abs s i b Hb). pose proof (buf_view s i b Hi Hb) as V. destruct (m_blk b) as [id|].
    + destruct V as (k & Hk & L & Hl & -> & _). cbn [contents].
      rewrite (Htp.pread_blk s id k 0 _ Hk L) by lia. cbn [bind]. rewrite drop_0. reflexivity.
    + destruct V as (-> & ->). reflexivity.
  - destruct (is_live s i) eqn:El; auto. apply is_live_getb in El as (b & Hb). rewrite Hb. cbn [bind].
    rewrite (aget_abs s i b Hb). pose proof (buf_view s i b Hi Hb) as V. destruct (m_blk b) as [id|].
    + destruct V as (k & Hk & L & Hl & -> & _). cbn [contents].
      rewrite (Htp.pread_blk s id k 0 _ Hk L) by lia. cbn [bind]. rewrite drop_0. reflexivity.
    + destruct V as (_ & ->). reflexivity.
  - destruct (is_live s i) eqn:El; auto. destruct (is_live s j) eqn:Ej; auto. cbn [andb].
    apply is_live_getb in El as (a & Ha). apply is_live_getb in Ej as (b & Hb). rewrite Ha, Hb. cbn [bind].
    rewrite (aget_abs s i a Ha), (aget_abs s j b Hb).
    pose proof (buf_view s i a Hi Ha) as Va. pose proof (buf_view s j b Hi Hb) as Vb.
    assert (La : len (contents (abs_buf (heap s) a)) = m_len a).
    { destruct (m_blk a). - destruct Va as (k & _ & L & Hl & -> & _). cbn. rewrite len_take. lia.
      - destruct Va as (-> & ->). reflexivity. }
    assert (Lb : len (contents (abs_buf (heap s) b)) = m_len b).
    { destruct (m_blk b). - destruct Vb as (k & _ & L & Hl & -> & _). cbn. rewrite len_take. lia.
      - destruct Vb as (-> & ->). reflexivity. }
    destruct (N.eqb_spec (m_len a) (m_len b)) as [E|E].
    2:{ do 2 f_equal. destruct (list_eqb _ _) eqn:X; auto. apply list_eqb_len in X. lia. }
    destruct (m_blk a) as [ia|] eqn:Ema; destruct (m_blk b) as [ib|] eqn:Emb; cbn [same_blk].
    + destruct Va as (ka & Hka & Lka & Hla & -> & _). destruct Vb as (kb & Hkb & Lkb & Hlb & -> & _). cbn [contents].
      destruct (Nat.eqb_spec ia ib) as [->|Hne].
      * rewrite Hka in Hkb. inversion Hkb; subst. rewrite E, list_eqb_refl. reflexivity.
      * destruct (N.eqb_spec (m_len a) 0) as [H0|H0].
        -- rewrite <- E, H0. reflexivity.
        -- rewrite (Htp.pread_blk s ia ka 0 _ Hka Lka) by lia. cbn [bind].
           rewrite (Htp.pread_blk s ib kb 0 _ Hkb Lkb) by lia. cbn [bind]. rewrite !drop_0, E. reflexivity.
    + destruct Vb as (Hb0 & ->). destruct Va as (ka & _ & _ & _ & -> & _). cbn [contents].
      destruct (N.eqb_spec (m_len a) 0) as [H0|H0]; [|lia]. rewrite H0. reflexivity.
    + destruct Va as (Ha0 & ->). destruct Vb as (kb & _ & _ & _ & -> & _). cbn [contents].
      rewrite Ha0. cbn [N.eqb]. rewrite <- E, Ha0. reflexivity.
    + destruct Va as (_ & ->). destruct Vb as (_ & ->). reflexivity.
Qed.

(* ---- facts about the value model *)
Lemma astep_frame A o j : j <> target o -> nth_error (fst (astep A o)) j = nth_error A j.
Proof.
  intros H. destruct o; cbn [target] in H; unfold astep;
    repeat match goal with
           | |- context [if ?c then _ else _] => destruct c
           | |- context [match ?x with XNull => _ | XExt _ => _ end] => destruct x
           | |- context [match aget ?A ?i with Some _ => _ | None => _ end] => destruct (aget A i)
           end; cbn [fst]; rewrite ?nth_upd_neq by auto; auto.
Qed.

Lemma upd_aget_same A i : a_live A i = true -> upd A i (Some (aget A i)) = A.
Proof.
  unfold a_live, aget. intros H. apply upd_same. destruct (nth_error A i) as [[b|]|]; try discriminate. reflexivity.
Qed.

Lemma a_range_fail b off src : snd (a_range b off src) = false -> fst (a_range b off src) = b.
Proof. unfold a_range. destruct (512 <=? off); auto. destruct (_ <? off); auto. discriminate. Qed.

Lemma astep_fail_pure A o : snd (astep A o) = RBool false \/ snd (astep A o) = RSkip -> fst (astep A o) = A.
Proof.
  intros H. destruct o; unfold astep in *;
    repeat match goal with
           | H : context [if ?c then _ else _] |- _ => destruct c eqn:?
           end; cbn [fst snd] in *; auto;
    try (destruct H; discriminate).
  - destruct (aget A j); cbn [fst snd] in *; auto. destruct H; discriminate.
  - destruct p; cbn [a_set_ptr fst snd] in *; [apply upd_aget_same; auto|destruct H; discriminate].
  - destruct H as [H|H]; [|discriminate]. inversion H as [H1]. rewrite (a_range_fail _ _ _ H1).
    apply upd_aget_same; auto.
  - destruct p; cbn [fst snd] in *; auto. destruct H as [H|H]; [|discriminate]. inversion H as [H1].
    rewrite (a_range_fail _ _ _ H1). apply upd_aget_same; auto.
Qed.

Lemma abs_size_bound s i : inv s -> len (contents (aget (abs s) i)) <= 512.
Proof.
  intros Hi. destruct (is_live s i) eqn:El.
  - apply is_live_getb in El as (b & Hb). rewrite (aget_abs s i b Hb).
    pose proof (buf_view s i b Hi Hb) as V. destruct (m_blk b).
    + destruct V as (k & _ & L & Hl & -> & _). cbn. rewrite len_take. lia.
    + destruct V as (_ & ->). cbn. lia.
  - unfold aget. rewrite abs_nth. unfold is_live in El. destruct (nth_error (pool s) i) as [[b|]|]; try discriminate; cbn; lia.
Qed.

(* no leak: once no object is alive, no block is *)
Lemma no_leak s : inv s -> (forall i, is_live s i = false) -> forall id, hget (heap s) id = None.
Proof.
  intros Hi Hd id. destruct (hget (heap s) id) as [k|] eqn:E; auto. exfalso.
  destruct (inv_blk _ _ _ Hi E) as (_ & R & G).
  rewrite refs_zero in R; [lia|]. intros i b Hb. specialize (Hd i). unfold is_live in Hd. rewrite Hb in Hd. discriminate.
Qed.

(* the code as it was: b.Set(b) after b's last alias died frees the block and then reads it *)
Fixpoint crun_unfixed (fresh : list N) (s : st) (ops : list op) : res st :=
  match ops with
  | [] => Ok s
  | o :: r => x <- cstep_unfixed fresh s o ;; crun_unfixed fresh (fst x) r
  end.
Definition self_set_witness : list op :=
  [ONewData 0 (XExt [10; 11; 12]) 3; OCopyNew 1 0; ODestroy 1; OSetBuf 0 0].
Lemma self_set_uaf : crun_unfixed [] (init_st 2) self_set_witness = Hz UseAfterFree.
Proof. vm_compute. reflexivity. Qed.
Lemma self_set_witness_ok : Forall op_ok self_set_witness.
Proof. repeat constructor. cbn. lia. Qed.

(* ---- forms used by Properties.v *)
Lemma abs_init n : abs (init_st n) = repeat None n.
Proof. unfold abs, init_st. cbn. induction n; cbn; congruence. Qed.

Definition query_slots (q : query) : list nat :=
  match q with
  | QSize i | QGetCh i _ | QGetBuf i _ | QGetRange i _ _ | QGetStr i | QToString i => [i]
  | QEq i j => [i; j]
  end.

Lemma aquery_ext A A' q :
  (forall j, In j (query_slots q) -> nth_error A' j = nth_error A j) -> aquery A' q = aquery A q.
Proof.
  intros H. destruct q; cbn [query_slots] in H; unfold aquery, a_live, aget;
    rewrite ?(H i) by (cbn; auto); rewrite ?(H j) by (cbn; auto); reflexivity.
Qed.

Lemma reach fresh slots ops :
  Forall op_ok ops ->
  exists s, crun fresh (init_st slots) ops = Ok s /\ inv s /\ abs s = arun (repeat None slots) ops.
Proof.
  intros H. destruct (run_correct fresh ops (init_st slots) (inv_init slots) H) as (s & E & I & A).
  exists s. rewrite abs_init in A. auto.
Qed.

Lemma step_independent fresh s o s' r q :
  inv s -> op_ok o -> cstep fresh s o = Ok (s', r) ->
  (forall j, In j (query_slots q) -> j <> target o) ->
  cquery s' q = cquery s q.
Proof.
  intros Hi Hok E Hq. destruct (step_correct fresh s o Hi Hok) as (s1 & r1 & E1 & I1 & A1 & _).
  rewrite E in E1. inversion E1; subst s1 r1.
  rewrite (query_correct s' q I1), (query_correct s q Hi). f_equal.
  apply aquery_ext. intros j Hj. rewrite A1. apply astep_frame. auto.
Qed.

Lemma step_fail_pure fresh s o s' r :
  inv s -> op_ok o -> cstep fresh s o = Ok (s', r) -> r = RBool false \/ r = RSkip ->
  abs s' = abs s /\ forall q, cquery s' q = cquery s q.
Proof.
  intros Hi Hok E Hr. destruct (step_correct fresh s o Hi Hok) as (s1 & r1 & E1 & I1 & A1 & R1).
  rewrite E in E1. injection E1 as Hs1 Hr1. rewrite <- Hs1 in *. rewrite <- Hr1 in *.
  assert (A : abs s' = abs s). { rewrite A1. apply astep_fail_pure. rewrite <- R1. auto. }
  split; auto. intros q. rewrite (query_correct s' q I1), (query_correct s q Hi), A. reflexivity.
Qed.

Lemma reads_outside s i :
  inv s -> is_live s i = true ->
  exists n, cquery s (QSize i) = Ok (ANum n) /\ n <= 512 /\
    (forall ch, n <= ch -> cquery s (QGetCh i ch) = Ok (ANum 0)) /\
    (forall slot k, n <= slot -> cquery s (QGetRange i slot k) = Ok (ABytes [])) /\
    (forall k, exists l, cquery s (QGetBuf i k) = Ok (ABytes l) /\ len l = N.min k n) /\
    (exists l, cquery s (QGetStr i) = Ok (ABytes l) /\ len l = n).
Proof.
  intros Hi El. exists (len (contents (aget (abs s) i))).
  rewrite !query_correct by auto. unfold aquery. rewrite a_live_abs, El.
  split; [reflexivity|]. split; [apply abs_size_bound; auto|]. split; [|split; [|split]].
  - intros ch H. rewrite query_correct by auto. unfold aquery. rewrite a_live_abs, El.
    do 2 f_equal. apply nth_overflow. unfold len in H. lia.
  - intros slot k H. rewrite query_correct by auto. unfold aquery. rewrite a_live_abs, El.
    rewrite drop_all by auto. unfold take. rewrite firstn_nil. reflexivity.
  - intros k. eexists. rewrite query_correct by auto. unfold aquery. rewrite a_live_abs, El.
    split; [reflexivity|]. apply len_take.
  - eexists. split; [reflexivity|reflexivity].
Qed.

(* ---- the statements of Properties.v, proved here *)
Lemma inv_run_full : forall fresh slots ops,
  Forall op_ok ops ->
  exists s, crun fresh (init_st slots) ops = Ok s /\
    (forall i b, nth_error (pool s) i = Some (Some b) ->
       match m_blk b with
       | None => m_len b = 0
       | Some id => exists k, hget (heap s) id = Some k /\ m_len b <= 512 /\
                              (m_cow b = false -> b_rc k = 1%nat)
       end) /\
    (forall id k, hget (heap s) id = Some k ->
       len (b_data k) = 512 /\ b_rc k = refs id (pool s) /\ (1 <= b_rc k)%nat).
Proof.
  intros fresh slots ops H. destruct (reach fresh slots ops H) as (s & E & I & _).
  exists s. split; [exact E|exact I].
Qed.

Lemma refines_run_full : forall fresh slots ops q,
  Forall op_ok ops ->
  exists s, crun fresh (init_st slots) ops = Ok s /\
            abs s = arun (repeat None slots) ops /\
            cquery s q = Ok (aquery (arun (repeat None slots) ops) q).
Proof.
  intros fresh slots ops q H. destruct (reach fresh slots ops H) as (s & E & I & A).
  exists s. split; [exact E|]. split; [exact A|]. rewrite <- A. exact (query_correct s q I).
Qed.

Lemma independent_full : forall fresh s o s' r,
  inv s -> op_ok o -> cstep fresh s o = Ok (s', r) ->
  (forall j, j <> target o -> nth_error (abs s') j = nth_error (abs s) j) /\
  (forall q, (forall j, In j (query_slots q) -> j <> target o) -> cquery s' q = cquery s q).
Proof.
  intros fresh s o s' r Hi Hok E. split.
  - intros j Hj. destruct (step_correct fresh s o Hi Hok) as (s1 & r1 & E1 & _ & A1 & _).
    rewrite E in E1. injection E1 as <- <-. rewrite A1. exact (astep_frame (abs s) o j Hj).
  - intros q Hq. exact (step_independent fresh s o s' r q Hi Hok E Hq).
Qed.

Lemma memsafe_full :
  (forall fresh s o h, inv s -> op_ok o -> cstep fresh s o <> Hz h) /\
  (forall s q h, inv s -> cquery s q <> Hz h) /\
  (forall fresh slots ops, Forall op_ok ops ->
     exists s, crun fresh (init_st slots) ops = Ok s /\
               ((forall i, is_live s i = false) -> forall id, hget (heap s) id = None)).
Proof.
  split; [|split].
  - intros fresh s o h Hi Hok E. destruct (step_correct fresh s o Hi Hok) as (s' & r & E' & _). congruence.
  - intros s q h Hi E. rewrite (query_correct s q Hi) in E. discriminate.
  - intros fresh slots ops H. destruct (reach fresh slots ops H) as (s & E & I & _).
    exists s. split; [exact E|]. exact (no_leak s I).
Qed.

Lemma self_set_refuted_full :
  exists ops, Forall op_ok ops /\ crun_unfixed [] (init_st 2) ops = Hz UseAfterFree.
Proof. exists self_set_witness. split; [exact self_set_witness_ok|exact self_set_uaf]. Qed.

