(* C02 — public methods and pool operations: each concrete step succeeds (no hazard), keeps the
   invariant and commutes with the abstraction function. *)
From OlaBase Require Import Bytes.
From C02 Require Import Gen Model Spec Lemmas Inv Prims Dup.
Local Open Scope N_scope.

Lemma take_splice0 d bytes : len bytes <= len d -> take (len bytes) (splice d 0 bytes) = bytes.
Proof.
  intros H. unfold splice. rewrite take_0. cbn [app]. rewrite take_app_le by lia. apply take_all. lia.
Qed.

Lemma step_ok_abs s s' i b' X :
  step_ok s s' i b' -> abs_buf (heap s') b' = X -> inv s' /\ abs s' = upd (abs s) i (Some X).
Proof. intros (I & _ & A & _) E. split; auto. rewrite A, E. reflexivity. Qed.

Lemma aget_upd_eq (A : astate) i X : (i < length A)%nat -> aget (upd A i (Some X)) i = X.
Proof. intros H. unfold aget. rewrite nth_upd_eq by auto. reflexivity. Qed.
Lemma aget_upd_neq (A : astate) i j X : i <> j -> aget (upd A i X) j = aget A j.
Proof. intros H. unfold aget. rewrite nth_upd_neq by auto. reflexivity. Qed.
Lemma live_lt s i b : getb s i = Ok b -> (i < length (abs s))%nat.
Proof. intros H. rewrite abs_length. apply getb_nth in H. eapply nth_some_lt; eauto. Qed.
Lemma abs_self s i b : getb s i = Ok b -> upd (abs s) i (Some (abs_buf (heap s) b)) = abs s.
Proof. intros H. apply upd_same. rewrite abs_nth. apply getb_nth in H. rewrite H. reflexivity. Qed.

(* what inv says about a live buffer, in one place *)
Lemma buf_view s i b :
  inv s -> getb s i = Ok b ->
  match m_blk b with
  | None => m_len b = 0 /\ abs_buf (heap s) b = None
  | Some id => exists k, hget (heap s) id = Some k /\ len (b_data k) = 512 /\ m_len b <= 512 /\
                         abs_buf (heap s) b = Some (take (m_len b) (b_data k)) /\
                         (m_cow b = false -> b_rc k = 1%nat)
  end.
Proof.
  intros Hi Hb. pose proof (inv_buf _ _ _ Hi Hb) as Hok. unfold buf_ok, abs_buf in *.
  destruct (m_blk b) as [id|]; auto.
  destruct Hok as (k & Hk & Hl & Hc). exists k. rewrite Hk.
  destruct (inv_blk _ _ _ Hi Hk) as (L & _). auto.
Qed.

Section WithFresh.
Variable fresh : list N.

(* the tail of Set(data, length): m_length = L; memcpy(m_data, data, L) on a solely owned block *)
Lemma store_phase s2 i b2 id k L bytes p :
  inv s2 -> getb s2 i = Ok b2 -> m_blk b2 = Some id -> hget (heap s2) id = Some k -> b_rc k = 1%nat ->
  len bytes = L -> L <= 512 ->
  (forall s3, heap s3 = heap s2 -> pread s3 p L = Ok bytes) ->
  match p with PBlk sid _ => sid <> id | PNull => False | PExt _ => True end ->
  exists s4 b4,
    (s3 <- set_len s2 i L ;; b3 <- getb s3 i ;;
     match m_blk b3 with
     | None => Hz NullDeref
     | Some id => s4 <- memcpy s3 id 0 p L ;; Ok (s4, true)
     end) = Ok (s4, true) /\ step_ok s2 s4 i b4 /\ abs_buf (heap s4) b4 = Some bytes.
Proof.
  intros Hi Hb Em Hk Hrc HL HL5 Hsrc Hp.
  destruct (set_len_spec s2 i b2 L Hi Hb) as (s3 & -> & Hh & S3); [congruence|auto|]. cbn [bind].
  pose proof S3 as (I3 & G3 & _ & _). rewrite G3. cbn [bind m_blk]. rewrite Em.
  assert (Hk3 : hget (heap s3) id = Some k) by (rewrite Hh; auto).
  assert (Hm : memcpy s3 id 0 p L = (bytes <- pread s3 p L ;; bwrite s3 id 0 bytes)).
  { unfold memcpy. destruct p as [|l|sid off]; auto. destruct (Nat.eqb_spec sid id); [contradiction|reflexivity]. }
  rewrite Hm, (Hsrc s3 Hh). cbn [bind].
  destruct (bwrite_spec s3 i _ id k 0 bytes I3 G3 Em Hk3 Hrc) as (s4 & -> & S4 & Hk4); [lia|]. cbn [bind].
  eexists _, _. split; [reflexivity|]. split; [eapply step_ok_trans; eauto|].
  unfold abs_buf. cbn [m_blk m_len]. rewrite Em, Hk4. cbn [b_data]. f_equal. rewrite <- HL.
  apply take_splice0. destruct (inv_blk _ _ _ Hi Hk) as (Lk & _). lia.
Qed.

Lemma set_ptr_ext s i b l n :
  inv s -> getb s i = Ok b -> N.min n 512 <= len l ->
  exists s', Set_ptr fresh s i (PExt l) n = Ok (s', true) /\ inv s' /\
             abs s' = upd (abs s) i (Some (Some (take (N.min n 512) l))).
Proof.
  intros Hi Hb Hn. unfold Set_ptr.
  destruct (own_block_spec fresh s i b Hi Hb) as (s2 & b2 & id & k & -> & S2 & Em & _ & Hk & Hrc). cbn [bind].
  pose proof S2 as (I2 & G2 & _ & _). change DMX_UNIVERSE_SIZE with 512.
  destruct (store_phase s2 i b2 id k (N.min n 512) (take (N.min n 512) l) (PExt l) I2 G2 Em Hk Hrc)
    as (s4 & b4 & -> & S4 & A4); auto.
  - rewrite len_take. lia.
  - lia.
  - intros s3 _. unfold pread. destruct (N.leb_spec (N.min n 512) (len l)); [reflexivity|lia].
  - eexists. split; [reflexivity|]. eapply step_ok_abs; [eapply step_ok_trans; eauto|auto].
Qed.

(* Set(other) for a different live object whose storage exists *)
Lemma set_ptr_blk s i j b o sid :
  inv s -> i <> j -> getb s i = Ok b -> getb s j = Ok o -> m_blk o = Some sid ->
  exists s', Set_ptr fresh s i (PBlk sid 0) (m_len o) = Ok (s', true) /\ inv s' /\
             abs s' = upd (abs s) i (Some (abs_buf (heap s) o)).
Proof.
  intros Hi Hn Hb Ho Eo. unfold Set_ptr.
  pose proof (buf_view s j o Hi Ho) as V. rewrite Eo in V. destruct V as (ko & Hko & Lko & Hlo & Ao & _).
  destruct (own_block_spec fresh s i b Hi Hb) as (s2 & b2 & id & k & -> & S2 & Em & _ & Hk & Hrc). cbn [bind].
  pose proof S2 as (I2 & G2 & _ & F2). change DMX_UNIVERSE_SIZE with 512.
  destruct (F2 j o (not_eq_sym Hn) Ho) as (Ho2 & D2). destruct (D2 sid ko Eo Hko) as (ko2 & Hko2 & Ed).
  destruct (inv_blk _ _ _ I2 Hko2) as (Lko2 & _).
  replace (N.min (m_len o) 512) with (m_len o) by lia.
  destruct (store_phase s2 i b2 id k (m_len o) (take (m_len o) (b_data ko)) (PBlk sid 0) I2 G2 Em Hk Hrc)
    as (s4 & b4 & -> & S4 & A4); auto.
  - rewrite len_take. lia.
  - intros s3 Hh. unfold pread, rd_blk. rewrite Hh, Hko2. cbn [bind]. rewrite Lko2.
    destruct (N.leb_spec (0 + m_len o) 512); [|lia]. rewrite drop_0, Ed. reflexivity.
  - intros ->. apply getb_nth in Ho2, G2.
    eapply (sole_owner s2 i b2 id k j o); eauto.
  - eexists. split; [reflexivity|]. rewrite Ao. eapply step_ok_abs; [eapply step_ok_trans; eauto|auto].
Qed.

Lemma blackout_spec s i b :
  inv s -> getb s i = Ok b ->
  exists s' b' id k, Blackout fresh s i = Ok (s', true) /\ step_ok s s' i b' /\
    m_blk b' = Some id /\ m_len b' = 512 /\ hget (heap s') id = Some k /\ b_rc k = 1%nat /\
    abs_buf (heap s') b' = Some (repeat 0 512).
Proof.
  intros Hi Hb. unfold Blackout.
  destruct (own_block_spec fresh s i b Hi Hb) as (s2 & b2 & id & k & -> & S2 & Em & _ & Hk & Hrc). cbn [bind].
  pose proof S2 as (I2 & G2 & _ & _). rewrite G2. cbn [bind]. rewrite Em.
  change DMX_UNIVERSE_SIZE with 512. change DMX_MIN_SLOT_VALUE with 0.
  set (z := repeat 0 (N.to_nat 512)).
  assert (Lz : len z = 512) by (unfold z; rewrite len_repeat; lia).
  destruct (bwrite_spec s2 i b2 id k 0 z I2 G2 Em Hk Hrc) as (s3 & -> & S3 & Hk3); [lia|]. cbn [bind].
  pose proof S3 as (I3 & G3 & _ & _).
  destruct (set_len_spec s3 i b2 512 I3 G3) as (s4 & -> & Hh & S4); [congruence|lia|]. cbn [bind].
  eexists _, _, id, _. split; [reflexivity|].
  split; [eapply step_ok_trans; [eauto|eapply step_ok_trans; eauto]|].
  cbn [m_blk m_len]. rewrite Hh. repeat split; eauto.
  unfold abs_buf. cbn [m_blk m_len]. rewrite Em, Hk3. cbn [b_data]. f_equal.
Qed.

(* the value a range write works on: an uninitialised buffer is blacked out first *)
Definition cur_of (a : abuf) : list N := match a with None => repeat 0 512 | Some l => l end.

Lemma range_head s i b :
  inv s -> getb s i = Ok b ->
  exists s1 b1 id1, blackout_if_null fresh s i = Ok s1 /\ step_ok s s1 i b1 /\ m_blk b1 = Some id1 /\
    abs_buf (heap s1) b1 = Some (cur_of (abs_buf (heap s) b)) /\ m_len b1 = len (cur_of (abs_buf (heap s) b)).
Proof.
  intros Hi Hb. unfold blackout_if_null. rewrite Hb. cbn [bind].
  pose proof (buf_view s i b Hi Hb) as V. destruct (m_blk b) as [id|] eqn:Em.
  - destruct V as (k & Hk & Lk & Hl & A & _). exists s, b, id. split; [reflexivity|].
    split; [apply step_ok_refl; auto|]. rewrite A. cbn [cur_of]. repeat split; auto.
    rewrite len_take. lia.
  - destruct V as (_ & A). rewrite A. cbn [cur_of].
    destruct (blackout_spec s i b Hi Hb) as (s1 & b1 & id1 & k1 & -> & S1 & Em1 & L1 & _ & _ & A1). cbn [bind fst].
    exists s1, b1, id1. split; [reflexivity|]. split; [exact S1|]. split; [exact Em1|]. split; [exact A1|].
    rewrite L1, len_repeat. reflexivity.
Qed.

(* DuplicateIfNeeded(); write bytes at offset; m_length = max(m_length, offset + |bytes|) *)
Lemma range_tail s1 i b1 id1 cur off bytes :
  inv s1 -> getb s1 i = Ok b1 -> m_blk b1 = Some id1 -> abs_buf (heap s1) b1 = Some cur -> m_len b1 = len cur ->
  off <= len cur -> off + len bytes <= 512 ->
  exists s2 b2 id2 s3, DuplicateIfNeeded fresh s1 i = Ok s2 /\ getb s2 i = Ok b2 /\ m_blk b2 = Some id2 /\
             store_at s2 i off bytes = Ok s3 /\ inv s3 /\
             abs s3 = upd (abs s1) i (Some (Some (a_store cur off bytes))).
Proof.
  intros I1 G1 Em1 A1 L1 Hoff Hfit.
  destruct (dup_spec fresh s1 i b1 id1 I1 G1 Em1) as (s2 & b2 & id & k & HD & S2 & Em & Ec & El & A2 & Hk & Hrc).
  pose proof S2 as (I2 & G2 & _ & _).
  exists s2, b2, id. 
  unfold store_at. rewrite G2. cbn [bind]. rewrite Em.
  destruct (bwrite_spec s2 i b2 id k off bytes I2 G2 Em Hk Hrc) as (s3 & -> & S3 & Hk3); [lia|]. cbn [bind].
  pose proof S3 as (I3 & G3 & _ & _).
  pose proof (buf_view s2 i b2 I2 G2) as V. rewrite Em in V. destruct V as (k' & Hk' & Lk & Hl & Ab & _).
  rewrite Hk in Hk'. inversion Hk'; subst k'. clear Hk'.
  assert (Ecur : cur = take (m_len b2) (b_data k)) by congruence.
  destruct (set_len_spec s3 i b2 (N.max (m_len b2) (off + len bytes)) I3 G3) as (s4 & -> & Hh & S4);
    [congruence|lia|].
  eexists. split; [exact HD|]. split; [reflexivity|]. split; [reflexivity|]. split; [reflexivity|].
  eapply step_ok_abs; [eapply step_ok_trans; [eauto|eapply step_ok_trans; eauto]|].
  unfold abs_buf. cbn [m_blk m_len]. rewrite Em, Hh, Hk3. cbn [b_data]. f_equal. rewrite Ecur.
  apply take_splice; try lia.
Qed.

(* head + bound check + tail: the three offset writes share this *)
Lemma range_core s i b off bytes :
  inv s -> getb s i = Ok b -> off < 512 -> off + len bytes <= 512 ->
  let r := a_range (abs_buf (heap s) b) off (fun _ => bytes) in
  exists s1 b1, blackout_if_null fresh s i = Ok s1 /\ getb s1 i = Ok b1 /\
    if m_len b1 <? off
    then snd r = false /\ inv s1 /\ abs s1 = upd (abs s) i (Some (fst r))
    else snd r = true /\
         exists s2 b2 id2 s3, DuplicateIfNeeded fresh s1 i = Ok s2 /\ getb s2 i = Ok b2 /\
           m_blk b2 = Some id2 /\ store_at s2 i off bytes = Ok s3 /\ inv s3 /\
           abs s3 = upd (abs s) i (Some (fst r)).
Proof.
  intros Hi Hb Hoff Hfit. cbn zeta.
  destruct (range_head s i b Hi Hb) as (s1 & b1 & id1 & -> & S1 & Em1 & A1 & L1).
  pose proof S1 as (I1 & G1 & AA & _).
  exists s1, b1. split; [reflexivity|]. split; [exact G1|].
  unfold a_range. destruct (N.leb_spec 512 off); [lia|].
  fold (cur_of (abs_buf (heap s) b)). rewrite L1.
  destruct (N.ltb_spec (len (cur_of (abs_buf (heap s) b))) off) as [Hlt|Hge]; cbn [fst snd].
  - split; auto. split; auto. rewrite AA, A1. do 2 f_equal.
    destruct (abs_buf (heap s) b) as [l|]; cbn [cur_of] in *; auto.
    rewrite len_repeat in Hlt. lia.
  - split; auto.
    destruct (range_tail s1 i b1 id1 _ off bytes I1 G1 Em1 A1 L1 Hge Hfit)
      as (s2 & b2 & id2 & s3 & HD & G2 & Em2 & HS & I3 & A3).
    exists s2, b2, id2, s3. split; [exact HD|]. split; [exact G2|]. split; [exact Em2|]. split; [exact HS|].
    split; [exact I3|]. rewrite A3, AA, upd_upd. reflexivity.
Qed.

End WithFresh.
