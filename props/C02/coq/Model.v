(* C02 — concrete executable model of ola::DmxBuffer (common/utils/DmxBuffer.cpp), method by method,
   over an explicit heap of reference-counted 512-byte blocks and a pool of buffer objects.

   * heap cell  = the pair of allocations made by Init(): `new uint8_t[512]` + `new unsigned int`
     (they are always allocated and freed together).  Ids are never reused, a freed cell stays
     `None`, so touching a freed block is the outcome `Hz UseAfterFree` (what ASan reports).
   * buffer     = { m_blk (m_data/m_ref_count, both null or both set), m_cow, m_len }.
   * pool slot  = `None` (raw storage, no object) or `Some buffer`; `other` arguments are pool
     indices, so self-assignment / self-Set / self-merge are ordinary cases.
   * `fresh`    = contents of a newly allocated block (uninitialised memory): a parameter of every
     function; the refinement theorem holds for every `fresh`, i.e. it is never observable.
   * Set(const DmxBuffer&) is modelled WITH the proposed fix fixes/01-self-set-guard.diff
     (`Set_buf`); the code as it was is kept as `Set_buf_unfixed` for the refutation witness.
   Constants come from Gen.v (regenerated from ola/Constants.h). *)
From OlaBase Require Import Bytes.
From C02 Require Import Gen.
Local Open Scope N_scope.

Inductive hazard :=
| UseAfterFree   (* read/write/free of a block that was already freed *)
| Oob            (* access outside a 512-byte block or outside the caller's array *)
| NullDeref      (* dereference of a null m_data / m_ref_count / null argument *)
| RcUnderflow    (* [*m_ref_count]-- at 0 *)
| Overlap        (* memcpy whose source lies in the destination block *)
| DeadObject.    (* member call on a pool slot that holds no object *)

Inductive res (A : Type) := Ok (a : A) | Hz (h : hazard).
Arguments Ok {A} a.
Arguments Hz {A} h.

Definition bind {A B} (r : res A) (f : A -> res B) : res B :=
  match r with Ok a => f a | Hz h => Hz h end.
Notation "x <- e ;; f" := (bind e (fun x => f)) (at level 61, e at next level, right associativity).

Record blk := { b_data : list N; b_rc : nat }.
Record buf := { m_blk : option nat; m_cow : bool; m_len : N }.
Record st := { heap : list (option blk); pool : list (option buf) }.

(* pointers passed to Set / SetRange / memcpy *)
Inductive ptr := PNull | PExt (l : list N) | PBlk (id : nat) (off : N).

Fixpoint upd {A} (l : list A) (i : nat) (x : A) : list A :=
  match l, i with
  | [], _ => []
  | _ :: r, O => x :: r
  | y :: r, S k => y :: upd r k x
  end.

Definition hget (h : list (option blk)) (id : nat) : option blk :=
  match nth_error h id with Some (Some b) => Some b | _ => None end.

Definition getb (s : st) (i : nat) : res buf :=
  match nth_error (pool s) i with Some (Some b) => Ok b | _ => Hz DeadObject end.
Definition setb (s : st) (i : nat) (b : buf) : st :=
  {| heap := heap s; pool := upd (pool s) i (Some b) |}.
Definition rd_blk (s : st) (id : nat) : res blk :=
  match hget (heap s) id with Some b => Ok b | None => Hz UseAfterFree end.
Definition wr_blk (s : st) (id : nat) (b : option blk) : st :=
  {| heap := upd (heap s) id b; pool := pool s |}.

Definition set_cow (s : st) (i : nat) (c : bool) : res st :=
  b <- getb s i ;; Ok (setb s i {| m_blk := m_blk b; m_cow := c; m_len := m_len b |}).
Definition set_len (s : st) (i : nat) (n : N) : res st :=
  b <- getb s i ;; Ok (setb s i {| m_blk := m_blk b; m_cow := m_cow b; m_len := n |}).

Section WithFresh.
Variable fresh : list N.   (* contents of uninitialised memory; only its first 512 entries matter *)

Definition fresh_block : list N := take DMX_UNIVERSE_SIZE (fresh ++ repeat 0 (N.to_nat DMX_UNIVERSE_SIZE)).

(* bool DmxBuffer::Init(): m_data = new uint8_t[512]; m_ref_count = new unsigned int;
   m_length = 0; *m_ref_count = 1 *)
Definition Init (s : st) (i : nat) : res st :=
  b <- getb s i ;;
  let id := length (heap s) in
  Ok {| heap := heap s ++ [Some {| b_data := fresh_block; b_rc := 1 |}];
        pool := upd (pool s) i (Some {| m_blk := Some id; m_cow := m_cow b; m_len := 0 |}) |}.

(* void DmxBuffer::CleanupMemory() *)
Definition CleanupMemory (s : st) (i : nat) : res st :=
  b <- getb s i ;;
  match m_blk b with
  | None => Ok s
  | Some id =>
    k <- rd_blk s id ;;                                   (* [*m_ref_count]-- *)
    match b_rc k with
    | O => Hz RcUnderflow
    | S rc' =>
      let s1 := match rc' with
                | O => wr_blk s id None                   (* delete[] m_data; delete m_ref_count *)
                | S _ => wr_blk s id (Some {| b_data := b_data k; b_rc := rc' |})
                end in
      Ok (setb s1 i {| m_blk := None; m_cow := m_cow b; m_len := 0 |})
    end
  end.

(* void DmxBuffer::CopyFromOther(const DmxBuffer &other) *)
Definition CopyFromOther (s : st) (i j : nat) : res st :=
  s1 <- set_cow s i true ;;                               (* m_copy_on_write = true *)
  s2 <- set_cow s1 j true ;;                              (* other.m_copy_on_write = true *)
  o <- getb s2 j ;;
  match m_blk o with
  | None => Hz NullDeref                                  (* [*m_ref_count]++ on null *)
  | Some id =>
    k <- rd_blk s2 id ;;
    let s3 := wr_blk s2 id (Some {| b_data := b_data k; b_rc := S (b_rc k) |}) in
    b <- getb s3 i ;;
    Ok (setb s3 i {| m_blk := Some id; m_cow := m_cow b; m_len := m_len o |})
  end.

(* the common head of Set(data,len) / SetFromString / Blackout:
     if (m_copy_on_write) CleanupMemory();   if (!m_data) { if (!Init()) return false; } *)
Definition own_block (s : st) (i : nat) : res st :=
  b <- getb s i ;;
  s1 <- (if m_cow b then CleanupMemory s i else Ok s) ;;
  b1 <- getb s1 i ;;
  match m_blk b1 with None => Init s1 i | Some _ => Ok s1 end.

(* reading n bytes through a pointer *)
Definition pread (s : st) (p : ptr) (n : N) : res (list N) :=
  match p with
  | PNull => Hz NullDeref
  | PExt l => if n <=? len l then Ok (take n l) else Hz Oob
  | PBlk id off =>
    k <- rd_blk s id ;;
    if off + n <=? len (b_data k) then Ok (take n (drop off (b_data k))) else Hz Oob
  end.

Definition splice (d : list N) (off : N) (bytes : list N) : list N :=
  take off d ++ bytes ++ drop (off + len bytes) d.

(* writing bytes into block id at offset off *)
Definition bwrite (s : st) (id : nat) (off : N) (bytes : list N) : res st :=
  k <- rd_blk s id ;;
  if off + len bytes <=? len (b_data k)
  then Ok (wr_blk s id (Some {| b_data := splice (b_data k) off bytes; b_rc := b_rc k |}))
  else Hz Oob.

(* memcpy(m_data + off, src, n) *)
Definition memcpy (s : st) (id : nat) (off : N) (src : ptr) (n : N) : res st :=
  match src with
  | PBlk sid _ => if Nat.eqb sid id then Hz Overlap else bytes <- pread s src n ;; bwrite s id off bytes
  | _ => bytes <- pread s src n ;; bwrite s id off bytes
  end.

(* bool DmxBuffer::Set(const uint8_t *data, unsigned int length) *)
Definition Set_ptr (s : st) (i : nat) (data : ptr) (length : N) : res (st * bool) :=
  match data with
  | PNull => Ok (s, false)                                (* if (!data) return false *)
  | _ =>
    s2 <- own_block s i ;;
    let l := N.min length DMX_UNIVERSE_SIZE in
    s3 <- set_len s2 i l ;;
    b3 <- getb s3 i ;;
    match m_blk b3 with
    | None => Hz NullDeref
    | Some id => s4 <- memcpy s3 id 0 data l ;; Ok (s4, true)
    end
  end.

Definition ptr_of_buf (o : buf) : ptr :=
  match m_blk o with None => PNull | Some id => PBlk id 0 end.

(* bool DmxBuffer::Set(const DmxBuffer &other) as it is in the unfixed tree *)
Definition Set_buf_unfixed (s : st) (i j : nat) : res (st * bool) :=
  o <- getb s j ;; Set_ptr s i (ptr_of_buf o) (m_len o).

(* ... and with fixes/01-self-set-guard.diff:  if (this == &other) return m_data != NULL; *)
Definition Set_buf (s : st) (i j : nat) : res (st * bool) :=
  if Nat.eqb i j
  then b <- getb s i ;; Ok (s, match m_blk b with Some _ => true | None => false end)
  else Set_buf_unfixed s i j.

(* bool DmxBuffer::DuplicateIfNeeded() *)
Definition DuplicateIfNeeded (s : st) (i : nat) : res st :=
  b <- getb s i ;;
  s1 <- (if m_cow b then
           match m_blk b with
           | None => Hz NullDeref
           | Some id => k <- rd_blk s id ;;
                        if Nat.eqb (b_rc k) 1 then set_cow s i false else Ok s
           end
         else Ok s) ;;
  b1 <- getb s1 i ;;
  if m_cow b1 then
    match m_blk b1 with
    | None => Hz NullDeref
    | Some old =>
      k <- rd_blk s1 old ;;
      if Nat.ltb 1 (b_rc k) then
        let length := m_len b1 in
        s2 <- set_cow s1 i false ;;
        s3 <- Init s2 i ;;
        r <- Set_ptr s3 i (PBlk old 0) length ;;
        let s4 := fst r in
        k' <- rd_blk s4 old ;;                            (* [*old_ref_count]-- *)
        match b_rc k' with
        | O => Hz RcUnderflow
        | S rc' => Ok (wr_blk s4 old (Some {| b_data := b_data k'; b_rc := rc' |}))
        end
      else Ok s1
    end
  else Ok s1.

(* bool DmxBuffer::Blackout() *)
Definition Blackout (s : st) (i : nat) : res (st * bool) :=
  s2 <- own_block s i ;;
  b2 <- getb s2 i ;;
  match m_blk b2 with
  | None => Hz NullDeref
  | Some id =>
    s3 <- bwrite s2 id 0 (repeat DMX_MIN_SLOT_VALUE (N.to_nat DMX_UNIVERSE_SIZE)) ;;
    s4 <- set_len s3 i DMX_UNIVERSE_SIZE ;;
    Ok (s4, true)
  end.

(* void DmxBuffer::Reset() *)
Definition Reset (s : st) (i : nat) : res st :=
  b <- getb s i ;;
  match m_blk b with Some _ => set_len s i 0 | None => Ok s end.

(* common head of SetRangeToValue / SetRange / SetChannel:  if (!m_data) Blackout(); *)
Definition blackout_if_null (s : st) (i : nat) : res st :=
  b <- getb s i ;;
  match m_blk b with None => r <- Blackout s i ;; Ok (fst r) | Some _ => Ok s end.

(* common tail: write `bytes` at `offset`, m_length = max(m_length, offset + |bytes|) *)
Definition store_at (s : st) (i : nat) (offset : N) (bytes : list N) : res st :=
  b <- getb s i ;;
  match m_blk b with
  | None => Hz NullDeref
  | Some id =>
    s1 <- bwrite s id offset bytes ;;
    set_len s1 i (N.max (m_len b) (offset + len bytes))
  end.

(* bool DmxBuffer::SetRangeToValue(unsigned offset, uint8_t value, unsigned length) *)
Definition SetRangeToValue (s : st) (i : nat) (offset value length : N) : res (st * bool) :=
  if DMX_UNIVERSE_SIZE <=? offset then Ok (s, false) else
  s1 <- blackout_if_null s i ;;
  b1 <- getb s1 i ;;
  if m_len b1 <? offset then Ok (s1, false) else
  s2 <- DuplicateIfNeeded s1 i ;;
  let copy_length := N.min length (DMX_UNIVERSE_SIZE - offset) in
  s3 <- store_at s2 i offset (repeat value (N.to_nat copy_length)) ;;   (* memset *)
  Ok (s3, true).

(* bool DmxBuffer::SetRange(unsigned offset, const uint8_t *data, unsigned length) *)
Definition SetRange (s : st) (i : nat) (offset : N) (data : ptr) (length : N) : res (st * bool) :=
  match data with
  | PNull => Ok (s, false)
  | _ =>
    if DMX_UNIVERSE_SIZE <=? offset then Ok (s, false) else
    s1 <- blackout_if_null s i ;;
    b1 <- getb s1 i ;;
    if m_len b1 <? offset then Ok (s1, false) else
    s2 <- DuplicateIfNeeded s1 i ;;
    let copy_length := N.min length (DMX_UNIVERSE_SIZE - offset) in
    b2 <- getb s2 i ;;
    match m_blk b2, data with
    | None, _ => Hz NullDeref
    | Some id, PBlk sid _ =>
      if Nat.eqb sid id then Hz Overlap else
      bytes <- pread s2 data copy_length ;; s3 <- store_at s2 i offset bytes ;; Ok (s3, true)
    | Some id, _ =>
      bytes <- pread s2 data copy_length ;; s3 <- store_at s2 i offset bytes ;; Ok (s3, true)
    end
  end.

(* void DmxBuffer::SetChannel(unsigned channel, uint8_t data) *)
Definition SetChannel (s : st) (i : nat) (channel data : N) : res st :=
  if DMX_UNIVERSE_SIZE <=? channel then Ok s else
  s1 <- blackout_if_null s i ;;
  b1 <- getb s1 i ;;
  if m_len b1 <? channel then Ok s1 else
  s2 <- DuplicateIfNeeded s1 i ;;
  store_at s2 i channel [data].      (* m_data[channel] = data; m_length = max(channel+1, m_length) *)

Fixpoint zipmax (a b : list N) : list N :=
  match a, b with
  | x :: a', y :: b' => N.max x y :: zipmax a' b'
  | _, _ => []
  end.

(* bool DmxBuffer::HTPMerge(const DmxBuffer &other) *)
Definition HTPMerge (s : st) (i j : nat) : res (st * bool) :=
  b <- getb s i ;;
  s1 <- (match m_blk b with None => Init s i | Some _ => Ok s end) ;;
  s2 <- DuplicateIfNeeded s1 i ;;
  t <- getb s2 i ;;
  o <- getb s2 j ;;
  let other_length := N.min DMX_UNIVERSE_SIZE (m_len o) in
  let merge_length := N.min (m_len t) (m_len o) in
  (* for (i < merge_length) m_data[i] = max(m_data[i], other.m_data[i]) *)
  s3 <- (if merge_length =? 0 then Ok s2 else
         match m_blk t, m_blk o with
         | Some idt, Some ido =>
           dt <- pread s2 (PBlk idt 0) merge_length ;;
           do <- pread s2 (PBlk ido 0) merge_length ;;
           bwrite s2 idt 0 (zipmax dt do)
         | _, _ => Hz NullDeref
         end) ;;
  if m_len t <? other_length then
    match m_blk t with
    | None => Hz NullDeref
    | Some idt =>
      s4 <- memcpy s3 idt merge_length
                   (match m_blk o with None => PNull | Some ido => PBlk ido merge_length end)
                   (other_length - merge_length) ;;
      s5 <- set_len s4 i other_length ;;
      Ok (s5, true)
    end
  else Ok (s3, true).

(* ---- text -> slot values, as SetFromString does it: StringSplit(input, &tokens, ",") and, per token,
   m_data[i] = atoi(token) (an int stored into a uint8_t).
   StringSplit cuts at every ',' and always pushes the last (possibly empty) token.
   atoi = (int) strtol(s, NULL, 10) (glibc): skips isspace characters, takes one optional sign, reads
   decimal digits up to the first other character, saturates at LONG_MIN / LONG_MAX; the int is then
   truncated to its low 8 bits by the store.  Characters are byte values (list N). *)
Fixpoint split_acc (cur : list N) (l : list N) : list (list N) :=
  match l with
  | [] => [rev cur]
  | c :: r => if c =? 44 then rev cur :: split_acc [] r else split_acc (c :: cur) r
  end.
Definition split_commas (l : list N) : list (list N) := split_acc [] l.

Definition is_space (c : N) : bool := ((9 <=? c) && (c <=? 13)) || (c =? 32).
Definition is_digit (c : N) : bool := (48 <=? c) && (c <=? 57).
Fixpoint skip_ws (l : list N) : list N :=
  match l with
  | c :: r => if is_space c then skip_ws r else l
  | [] => []
  end.
Fixpoint digits_val (acc : N) (l : list N) : N :=
  match l with
  | c :: r => if is_digit c then digits_val (acc * 10 + (c - 48)) r else acc
  | [] => acc
  end.
Definition LONG_MAX : N := 9223372036854775807.
Definition atoi8 (tok : list N) : N :=
  match skip_ws tok with
  | 45 :: r => (256 - (N.min (digits_val 0 r) (LONG_MAX + 1)) mod 256) mod 256     (* '-' *)
  | 43 :: r => (N.min (digits_val 0 r) LONG_MAX) mod 256                             (* '+' *)
  | l => (N.min (digits_val 0 l) LONG_MAX) mod 256
  end.
(* the values SetFromString stores (before the cut at 512): the empty text gives no slot at all *)
Definition sfs_values (text : list N) : list N :=
  match text with [] => [] | _ => map atoi8 (split_commas text) end.

(* bool DmxBuffer::SetFromString(const string &input); input = the characters of the text *)
Definition SetFromString (s : st) (i : nat) (text : list N) : res (st * bool) :=
  s2 <- own_block s i ;;
  match text with
  | [] => s3 <- set_len s2 i 0 ;; Ok (s3, true)              (* if (input.empty()) *)
  | _ =>
    (* the loop stops at DMX_UNIVERSE_SIZE tokens *)
    let w := take DMX_UNIVERSE_SIZE (sfs_values text) in
    b2 <- getb s2 i ;;
    match m_blk b2 with
    | None => Hz NullDeref
    | Some id => s3 <- bwrite s2 id 0 w ;; s4 <- set_len s3 i (len w) ;; Ok (s4, true)
    end
  end.

(* DmxBuffer& DmxBuffer::operator=(const DmxBuffer &other) *)
Definition Assign (s : st) (i j : nat) : res st :=
  if Nat.eqb i j then Ok s else
  s1 <- CleanupMemory s i ;;
  o <- getb s1 j ;;
  match m_blk o with Some _ => CopyFromOther s1 i j | None => Ok s1 end.

Definition default_buf : buf := {| m_blk := None; m_cow := false; m_len := 0 |}.

(* ---- operations on the pool (constructors and the destructor are operations too) *)
Inductive xptr := XNull | XExt (l : list N).     (* pointers a caller can pass: null or its own array *)
Definition ptr_of_x (x : xptr) : ptr := match x with XNull => PNull | XExt l => PExt l end.

Inductive op :=
| ONew (i : nat)                                  (* new (slot i) DmxBuffer() *)
| OCopyNew (i j : nat)                            (* new (slot i) DmxBuffer(pool[j]) *)
| ONewData (i : nat) (p : xptr) (n : N)           (* new (slot i) DmxBuffer(data, length) *)
| ONewStr (i : nat) (l : list N)                  (* new (slot i) DmxBuffer(std::string) *)
| ODestroy (i : nat)                              (* pool[i].~DmxBuffer() *)
| OAssign (i j : nat)                             (* pool[i] = pool[j] *)
| OSetBuf (i j : nat)                             (* pool[i].Set(pool[j]) *)
| OSetPtr (i : nat) (p : xptr) (n : N)            (* pool[i].Set(data, length) *)
| OSetStr (i : nat) (l : list N)                  (* pool[i].Set(std::string) *)
| OSetFromString (i : nat) (text : list N)        (* pool[i].SetFromString(text) *)
| OSetRangeToValue (i : nat) (off v n : N)
| OSetRange (i : nat) (off : N) (p : xptr) (n : N)
| OSetChannel (i : nat) (ch v : N)
| OSetRaw (i j : nat) (k n : N)                   (* pool[i].Set(pool[j].GetRaw() + k, n) *)
| OSetRangeRaw (i : nat) (off : N) (j : nat) (k n : N)  (* pool[i].SetRange(off, pool[j].GetRaw() + k, n) *)
| OHTPMerge (i j : nat)
| OBlackout (i : nat)
| OReset (i : nat).

Inductive ret := RSkip | RUnit | RBool (b : bool).

Definition is_live (s : st) (i : nat) : bool :=
  match nth_error (pool s) i with Some (Some _) => true | _ => false end.
Definition is_raw (s : st) (i : nat) : bool :=
  match nth_error (pool s) i with Some None => true | _ => false end.

(* GetRaw() + k  (k = 0 when the buffer has no storage: GetRaw() is NULL) *)
Definition raw_ptr (o : buf) (k : N) : ptr :=
  match m_blk o with None => PNull | Some id => PBlk id k end.

Definition rb (r : res (st * bool)) : res (st * ret) := x <- r ;; Ok (fst x, RBool (snd x)).
Definition ru (r : res st) : res (st * ret) := x <- r ;; Ok (x, RUnit).

(* One operation.  An operation whose object-lifetime precondition fails (member call on raw storage,
   construction over a live object, `other` not alive) is skipped by model and harness alike. *)
Definition cstep (s : st) (o : op) : res (st * ret) :=
  match o with
  | ONew i => if is_raw s i then Ok (setb s i default_buf, RUnit) else Ok (s, RSkip)
  | OCopyNew i j =>
    if is_raw s i && is_live s j then
      let s0 := setb s i default_buf in
      o <- getb s0 j ;;
      match m_blk o with                  (* if (other.m_data && other.m_ref_count) *)
      | Some _ => ru (CopyFromOther s0 i j)
      | None => Ok (s0, RUnit)
      end
    else Ok (s, RSkip)
  | ONewData i p n =>
    if is_raw s i then r <- Set_ptr (setb s i default_buf) i (ptr_of_x p) n ;; Ok (fst r, RUnit)
    else Ok (s, RSkip)
  | ONewStr i l =>
    if is_raw s i then r <- Set_ptr (setb s i default_buf) i (PExt l) (len l) ;; Ok (fst r, RUnit)
    else Ok (s, RSkip)
  | ODestroy i =>
    if is_live s i then
      s1 <- CleanupMemory s i ;; Ok ({| heap := heap s1; pool := upd (pool s1) i None |}, RUnit)
    else Ok (s, RSkip)
  | OAssign i j => if is_live s i && is_live s j then ru (Assign s i j) else Ok (s, RSkip)
  | OSetBuf i j => if is_live s i && is_live s j then rb (Set_buf s i j) else Ok (s, RSkip)
  | OSetPtr i p n => if is_live s i then rb (Set_ptr s i (ptr_of_x p) n) else Ok (s, RSkip)
  | OSetStr i l => if is_live s i then rb (Set_ptr s i (PExt l) (len l)) else Ok (s, RSkip)
  | OSetFromString i v => if is_live s i then rb (SetFromString s i v) else Ok (s, RSkip)
  | OSetRangeToValue i off v n =>
    if is_live s i then rb (SetRangeToValue s i off v n) else Ok (s, RSkip)
  | OSetRange i off p n =>
    if is_live s i then rb (SetRange s i off (ptr_of_x p) n) else Ok (s, RSkip)
  | OSetChannel i ch v => if is_live s i then ru (SetChannel s i ch v) else Ok (s, RSkip)
  (* a pointer into ANOTHER buffer's storage (plugins do m_tx_buffer.SetRange(0, b.GetRaw(), b.Size())).
     Caller contract, checked like the lifetime preconditions: a different object, and the n bytes at
     GetRaw() + k are valid data of pool[j], i.e. k + n <= pool[j].Size(). *)
  | OSetRaw i j k n =>
    if is_live s i && is_live s j && negb (Nat.eqb i j) then
      o <- getb s j ;;
      if k + n <=? m_len o then rb (Set_ptr s i (raw_ptr o k) n) else Ok (s, RSkip)
    else Ok (s, RSkip)
  | OSetRangeRaw i off j k n =>
    if is_live s i && is_live s j && negb (Nat.eqb i j) then
      o <- getb s j ;;
      if k + n <=? m_len o then rb (SetRange s i off (raw_ptr o k) n) else Ok (s, RSkip)
    else Ok (s, RSkip)
  | OHTPMerge i j => if is_live s i && is_live s j then rb (HTPMerge s i j) else Ok (s, RSkip)
  | OBlackout i => if is_live s i then rb (Blackout s i) else Ok (s, RSkip)
  | OReset i => if is_live s i then ru (Reset s i) else Ok (s, RSkip)
  end.

(* the same with the unfixed Set(const DmxBuffer&) *)
Definition cstep_unfixed (s : st) (o : op) : res (st * ret) :=
  match o with
  | OSetBuf i j => if is_live s i && is_live s j then rb (Set_buf_unfixed s i j) else Ok (s, RSkip)
  | _ => cstep s o
  end.

Fixpoint crun (s : st) (ops : list op) : res st :=
  match ops with
  | [] => Ok s
  | o :: r => x <- cstep s o ;; crun (fst x) r
  end.

End WithFresh.

Definition init_st (slots : nat) : st := {| heap := []; pool := repeat None slots |}.

(* a history with its return values *)
Fixpoint ctrace (fresh : list N) (s : st) (ops : list op) : res (st * list ret) :=
  match ops with
  | [] => Ok (s, [])
  | o :: r => x <- cstep fresh s o ;; y <- ctrace fresh (fst x) r ;; Ok (fst y, snd x :: snd y)
  end.

(* run every destructor of the pool *)
Definition destroy_all (slots : nat) : list op := map ODestroy (seq 0 slots).

(* ---- const member functions (observations) *)
Inductive query :=
| QSize (i : nat)
| QGetCh (i : nat) (ch : N)                 (* uint8_t Get(unsigned channel) *)
| QGetBuf (i : nat) (n : N)                 (* void Get(uint8_t *data, unsigned *length), *length = n *)
| QGetRange (i : nat) (slot n : N)          (* void GetRange(slot, data, length), *length = n *)
| QGetStr (i : nat)                         (* std::string Get() *)
| QToString (i : nat)
| QEq (i j : nat)                           (* operator== *)
| QNe (i j : nat)                           (* operator!= : the negation of operator== *)
| QStream (i : nat) (w fill adj : N).       (* os << buffer; os.width() = w, os.fill() = fill, adjustfield left iff adj = 1 *)

Inductive ans := ASkip | ANum (n : N) | ABytes (l : list N) | ABool (b : bool).

(* decimal text of a slot value, as ostream << static_cast<int>(v) prints it (v < 1000 suffices) *)
Definition dec (x : N) : list N :=
  if x <? 10 then [48 + x]
  else if x <? 100 then [48 + x / 10; 48 + x mod 10]
  else [48 + x / 100; 48 + (x / 10) mod 10; 48 + x mod 10].
Fixpoint join_dec (l : list N) : list N :=
  match l with
  | [] => []
  | [x] => dec x
  | x :: r => dec x ++ 44 :: join_dec r
  end.

(* std::ostream& operator<<(std::ostream &out, const DmxBuffer &data) { return out << data.ToString(); }
   i.e. the insertion of a std::string: the characters of ToString(), padded ONCE as a whole to the
   stream's width with its fill character (on the right iff adjustfield is left), after which the width is
   0 again.  Nothing else of the stream's state takes part: not the base, showbase, showpos, uppercase,
   precision or the numeric locale -- the model has no such inputs. *)
Definition pad_text (w fill adj : N) (text : list N) : list N :=
  if len text <? w then
    let p := repeat fill (N.to_nat (w - len text)) in
    if adj =? 1 then text ++ p else p ++ text
  else text.
Definition width_after_insert (w : N) : N := 0.

Definition same_blk (a b : option nat) : bool :=
  match a, b with
  | None, None => true
  | Some x, Some y => Nat.eqb x y
  | _, _ => false
  end.

Fixpoint list_eqb (a b : list N) : bool :=
  match a, b with
  | [], [] => true
  | x :: a', y :: b' => (x =? y) && list_eqb a' b'
  | _, _ => false
  end.

(* bool DmxBuffer::operator==(const DmxBuffer &other) const *)
Definition c_eq (s : st) (i j : nat) : res ans :=
    if is_live s i && is_live s j then
      a <- getb s i ;; b <- getb s j ;;
      if m_len a =? m_len b then
        if same_blk (m_blk a) (m_blk b) then Ok (ABool true)
        else if m_len a =? 0 then Ok (ABool true)               (* memcmp(.., .., 0) *)
        else match m_blk a, m_blk b with
             | Some ia, Some ib =>
               da <- pread s (PBlk ia 0) (m_len a) ;;
               db <- pread s (PBlk ib 0) (m_len a) ;;
               Ok (ABool (list_eqb da db))
             | _, _ => Hz NullDeref
             end
      else Ok (ABool false)
    else Ok ASkip.

Definition cquery (s : st) (q : query) : res ans :=
  match q with
  | QSize i => if is_live s i then b <- getb s i ;; Ok (ANum (m_len b)) else Ok ASkip
  | QGetCh i ch =>
    if is_live s i then
      b <- getb s i ;;
      match m_blk b with
      | Some id => if ch <? m_len b
                   then d <- pread s (PBlk id ch) 1 ;; Ok (ANum (hd 0 d))
                   else Ok (ANum 0)
      | None => Ok (ANum 0)
      end
    else Ok ASkip
  | QGetBuf i n =>
    if is_live s i then
      b <- getb s i ;;
      match m_blk b with
      | Some id => d <- pread s (PBlk id 0) (N.min n (m_len b)) ;; Ok (ABytes d)
      | None => Ok (ABytes [])
      end
    else Ok ASkip
  | QGetRange i slot n =>
    if is_live s i then
      b <- getb s i ;;
      if m_len b <=? slot then Ok (ABytes []) else
      match m_blk b with
      | Some id => d <- pread s (PBlk id slot) (N.min n (m_len b - slot)) ;; Ok (ABytes d)
      | None => Ok (ABytes [])
      end
    else Ok ASkip
  | QGetStr i =>
    if is_live s i then
      b <- getb s i ;;
      match m_blk b with
      | Some id => d <- pread s (PBlk id 0) (m_len b) ;; Ok (ABytes d)
      | None => if m_len b =? 0 then Ok (ABytes []) else Hz NullDeref   (* append(NULL, n) *)
      end
    else Ok ASkip
  | QToString i =>
    if is_live s i then
      b <- getb s i ;;
      match m_blk b with
      | Some id => d <- pread s (PBlk id 0) (m_len b) ;; Ok (ABytes (join_dec d))
      | None => Ok (ABytes [])
      end
    else Ok ASkip
  | QEq i j => c_eq s i j
  | QNe i j => a <- c_eq s i j ;; Ok (match a with ABool b => ABool (negb b) | x => x end)
  | QStream i w fill adj =>
    if is_live s i then
      b <- getb s i ;;
      match m_blk b with
      | Some id => d <- pread s (PBlk id 0) (m_len b) ;; Ok (ABytes (pad_text w fill adj (join_dec d)))
      | None => Ok (ABytes (pad_text w fill adj []))
      end
    else Ok ASkip
  end.

(* internal observables for the correspondence: (block id, cow flag, refcount) of a live buffer *)
Definition internals (s : st) (i : nat) : option (option nat * bool * nat) :=
  match nth_error (pool s) i with
  | Some (Some b) =>
    Some (m_blk b, m_cow b,
          match m_blk b with
          | Some id => match hget (heap s) id with Some k => b_rc k | None => 0%nat end
          | None => 0%nat
          end)
  | _ => None
  end.

Definition live_blocks (s : st) : nat :=
  length (filter (fun c => match c with Some _ => true | None => false end) (heap s)).
