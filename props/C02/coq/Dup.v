(* C02 — DuplicateIfNeeded: the intermediate states (flag cleared while still shared; pointers
   overwritten by Init before the old count is decremented) violate the invariant, so the shared
   case is computed as one transition. *)
From OlaBase Require Import Bytes.
From C02 Require Import Gen Model Spec Lemmas Inv Prims.
Local Open Scope N_scope.

Lemma getb_upd_eq h p i x : (i < length p)%nat -> getb {| heap := h; pool := upd p i (Some x) |} i = Ok x.
Proof. intros H. apply getb_nth. cbn. apply nth_upd_eq. auto. Qed.

Section WithFresh.
Variable fresh : list N.

Lemma dup_spec s i b id0 :
  inv s -> getb s i = Ok b -> m_blk b = Some id0 ->
  exists s' b' id k, DuplicateIfNeeded fresh s i = Ok s' /\ step_ok s s' i b' /\
    m_blk b' = Some id /\ m_cow b' = false /\ m_len b' = m_len b /\
    abs_buf (heap s') b' = abs_buf (heap s) b /\ hget (heap s') id = Some k /\ b_rc k = 1%nat.
Proof.
  intros Hi Hb Em.
  pose proof (inv_buf _ _ _ Hi Hb) as Hok. unfold buf_ok in Hok. rewrite Em in Hok.
  destruct Hok as (k0 & Hk0 & Hl & Hc).
  destruct (inv_blk _ _ _ Hi Hk0) as (L0 & R0 & G0).
  pose proof (proj1 (getb_nth _ _ _) Hb) as Hnth. pose proof (nth_some_lt _ _ _ Hnth) as Hlt.
  unfold DuplicateIfNeeded. rewrite Hb. cbn [bind].
  destruct (m_cow b) eqn:Ec.
  2:{ (* flag clear: nothing to do *)
    cbn [bind]. rewrite Hb. cbn [bind]. rewrite Ec.
    exists s, b, id0, k0. split; [reflexivity|]. split; [apply step_ok_refl; auto|]. repeat split; auto. }
  rewrite Em. unfold rd_blk at 1. rewrite Hk0. cbn [bind].
  destruct (Nat.eqb_spec (b_rc k0) 1) as [E1|E1].
  - (* flag set but sole owner: just clear the flag *)
    unfold set_cow. rewrite Hb. cbn [bind].
    set (b1 := {| m_blk := m_blk b; m_cow := false; m_len := m_len b |}).
    assert (S1 : step_ok s (setb s i b1) i b1).
    { apply (setb_ok s i b); auto. unfold buf_ok. cbn. rewrite Em. exists k0. auto. }
    pose proof S1 as (I1 & G1 & A1 & F1). rewrite G1. cbn [bind m_cow b1].
    exists (setb s i b1), b1, id0, k0. split; [reflexivity|]. split; [exact S1|].
    split; [exact Em|]. split; [reflexivity|]. split; [reflexivity|]. split; [reflexivity|].
    split; [exact Hk0|exact E1].
  - (* shared: allocate, copy, drop one reference of the old block *)
    cbn [bind]. rewrite Hb. cbn [bind]. rewrite Ec, Em. unfold rd_blk at 1. rewrite Hk0. cbn [bind].
    destruct (Nat.ltb_spec 1 (b_rc k0)) as [Hrc|Hrc]; [|lia].
    unfold set_cow. rewrite Hb. cbn [bind]. unfold setb at 1.
    unfold Init. rewrite getb_upd_eq by auto. cbn [bind heap pool m_cow]. rewrite upd_upd.
    set (N0 := length (heap s)).
    set (fb := {| b_data := fresh_block fresh; b_rc := 1 |}).
    assert (HN : id0 <> N0) by (apply hget_lt in Hk0; unfold N0; lia).
    unfold Set_ptr, own_block. rewrite !getb_upd_eq by auto. cbn [bind m_cow m_blk].
    rewrite !getb_upd_eq by auto. cbn [bind m_cow m_blk].
    unfold set_len. rewrite getb_upd_eq by auto. cbn [bind m_cow m_blk]. unfold setb. cbn [heap pool].
    rewrite upd_upd. rewrite getb_upd_eq by auto. cbn [bind m_cow m_blk].
    change DMX_UNIVERSE_SIZE with 512. replace (N.min (m_len b) 512) with (m_len b) by lia.
    unfold memcpy. destruct (Nat.eqb_spec id0 N0) as [|_]; [congruence|].
    unfold pread, rd_blk. cbn [heap]. rewrite (hget_app_some _ _ _ _ Hk0). cbn [bind].
    rewrite L0. destruct (N.leb_spec (0 + m_len b) 512) as [_|]; [|lia]. cbn [bind].
    rewrite drop_0.
    set (bytes := take (m_len b) (b_data k0)).
    assert (Lb : len bytes = m_len b) by (unfold bytes; rewrite len_take; lia).
    unfold bwrite, rd_blk. cbn [heap]. unfold N0 at 1. rewrite hget_app_new. cbn [bind b_data fb].
    rewrite (len_fresh_block fresh). destruct (N.leb_spec (0 + len bytes) 512) as [_|]; [|lia]. cbn [bind].
    unfold wr_blk. cbn [heap pool fst]. fold N0.
    rewrite hget_upd_neq by auto. rewrite (hget_app_some _ _ _ _ Hk0). cbn [bind].
    destruct (b_rc k0) as [|rc'] eqn:Erc; [lia|].
    set (nb := {| b_data := splice (fresh_block fresh) 0 bytes; b_rc := b_rc fb |}).
    set (b4 := {| m_blk := Some N0; m_cow := false; m_len := m_len b |}).
    set (h' := upd (upd (heap s ++ [Some fb]) N0 (Some nb)) id0 (Some {| b_data := b_data k0; b_rc := rc' |})).
    assert (HgN : hget h' N0 = Some nb).
    { unfold h'. rewrite hget_upd_neq by auto. apply hget_upd_eq. rewrite app_length. cbn. unfold N0. lia. }
    assert (Hg0 : hget h' id0 = Some {| b_data := b_data k0; b_rc := rc' |}).
    { unfold h'. apply hget_upd_eq. rewrite upd_length, app_length. apply hget_lt in Hk0. lia. }
    assert (Hgo : forall id, id <> id0 -> id <> N0 -> hget h' id = hget (heap s) id).
    { intros id H1 H2. unfold h'. rewrite !hget_upd_neq by auto.
      destruct (Nat.lt_ge_cases id (length (heap s))) as [Hlt'|Hge].
      - apply hget_app_old; auto.
      - unfold hget. rewrite nth_error_app2 by lia.
        destruct (id - length (heap s))%nat as [|[|m]] eqn:Ed; [unfold N0 in H2; lia| |]; cbn.
        + destruct (nth_error (heap s) id) eqn:En; auto. apply nth_some_lt in En. lia.
        + destruct (nth_error (heap s) id) eqn:En; auto. apply nth_some_lt in En. lia. }
    assert (Lnb : len (b_data nb) = 512).
    { cbn [b_data nb]. rewrite len_splice; rewrite (len_fresh_block fresh); lia. }
    assert (S4 : step_ok s {| heap := h'; pool := upd (pool s) i (Some b4) |} i b4).
    { apply (trans_ok s i b b4 h'); auto.
      - intros id k' Hk'. destruct (Nat.eq_dec id id0) as [->|Hn0].
        + rewrite Hg0 in Hk'. inversion Hk'; subst. cbn [b_data b_rc].
          rewrite (refs_one_blk _ _ Em), (refs_one_other id0 b4 N0) by (auto; congruence).
          unfold rcold. rewrite Hk0, Erc. repeat split; auto; lia.
        + destruct (Nat.eq_dec id N0) as [->|HnN].
          * rewrite HgN in Hk'. inversion Hk'; subst.
            rewrite (refs_one_other N0 b id0) by auto. rewrite (refs_one_blk N0 b4) by reflexivity.
            unfold rcold. destruct (hget (heap s) N0) eqn:E; [apply hget_lt in E; unfold N0 in E; lia|].
            cbn [b_rc nb fb]. repeat split; auto.
          * rewrite Hgo in Hk' by auto. destruct (inv_blk _ _ _ Hi Hk') as (L & _ & G).
            rewrite (refs_one_other id b id0), (refs_one_other id b4 N0) by (auto; congruence).
            unfold rcold. rewrite Hk'. repeat split; auto.
      - intros j bj idj Hnj Hj Hm. pose proof (proj1 Hi _ _ Hj) as Hbj. unfold buf_ok in Hbj. rewrite Hm in Hbj.
        destruct Hbj as (kj & Hkj & _ & Hcj).
        destruct (Nat.eq_dec idj id0) as [->|Hn0].
        + rewrite Hk0 in Hkj. inversion Hkj; subst kj. eexists _, _. split; [eauto|]. split; [exact Hg0|].
          cbn. split; auto. intros Hcow. specialize (Hcj Hcow). lia.
        + exists kj, kj. rewrite Hgo; auto. apply hget_lt in Hkj. unfold N0. lia.
      - unfold buf_ok. cbn [m_blk b4]. exists nb. rewrite HgN. cbn. repeat split; auto. }
    exists {| heap := h'; pool := upd (pool s) i (Some b4) |}, b4, N0, nb.
    split; [reflexivity|]. split; [exact S4|]. repeat split; auto.
    unfold abs_buf. cbn [m_blk m_len b4 heap]. rewrite HgN, Em, Hk0. f_equal. cbn [b_data nb].
    unfold splice. rewrite take_0. cbn [app]. rewrite take_app_le by lia. rewrite take_all by lia.
    reflexivity.
Qed.

End WithFresh.
