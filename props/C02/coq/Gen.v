(* REGENERATED from the repository headers on every run. Do not edit.  *)
From Coq Require Import NArith.
Local Open Scope N_scope.
Definition DMX_UNIVERSE_SIZE : N := 512.
Definition DMX_MIN_SLOT_VALUE : N := 0.
