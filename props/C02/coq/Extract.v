From Coq Require Extraction.
From Coq Require Import ExtrOcamlBasic.
From OlaBase Require Import Bytes.
From C02 Require Import Gen Model.
Extraction Language OCaml.
Extraction "model.ml" io_witness N.div_eucl cstep cstep_unfixed cquery internals live_blocks init_st pad_text width_after_insert.
