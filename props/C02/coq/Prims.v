(* C02 — specifications of the private helpers (CleanupMemory, Init, CopyFromOther, block writes,
   DuplicateIfNeeded, own_block) as transitions that keep the invariant and rewrite one abstract value *)
From OlaBase Require Import Bytes.
From C02 Require Import Gen Model Spec Lemmas Inv.
Local Open Scope N_scope.

(* other buffers keep their pool entry and the bytes of their block *)
Definition frame (s s' : st) (i : nat) : Prop :=
  forall j b, j <> i -> getb s j = Ok b ->
    getb s' j = Ok b /\
    (forall id k, m_blk b = Some id -> hget (heap s) id = Some k ->
       exists k', hget (heap s') id = Some k' /\ b_data k' = b_data k).

Definition step_ok (s s' : st) (i : nat) (b' : buf) : Prop :=
  inv s' /\ getb s' i = Ok b' /\ abs s' = upd (abs s) i (Some (abs_buf (heap s') b')) /\ frame s s' i.

Lemma frame_refl s i : frame s s i.
Proof. intros j b _ H. split; auto. intros id k _ Hk. eauto. Qed.
Lemma frame_trans s1 s2 s3 i : frame s1 s2 i -> frame s2 s3 i -> frame s1 s3 i.
Proof.
  intros F1 F2 j b Hn Hj. destruct (F1 j b Hn Hj) as (Hj2 & D1). destruct (F2 j b Hn Hj2) as (Hj3 & D2).
  split; auto. intros id k Hm Hk. destruct (D1 id k Hm Hk) as (k2 & Hk2 & E2).
  destruct (D2 id k2 Hm Hk2) as (k3 & Hk3 & E3). exists k3. split; auto. congruence.
Qed.

Lemma step_ok_refl s i b : inv s -> getb s i = Ok b -> step_ok s s i b.
Proof.
  intros Hi Hb. split; [|split; [|split]]; auto using frame_refl.
  symmetry. apply upd_same. rewrite abs_nth. apply getb_nth in Hb. rewrite Hb. reflexivity.
Qed.

Lemma step_ok_trans s1 s2 s3 i b2 b3 :
  step_ok s1 s2 i b2 -> step_ok s2 s3 i b3 -> step_ok s1 s3 i b3.
Proof.
  intros (I2 & G2 & A2 & F2) (I3 & G3 & A3 & F3). split; [|split; [|split]]; auto.
  - rewrite A3, A2, upd_upd. reflexivity.
  - eapply frame_trans; eauto.
Qed.

Lemma frame_of_pres s i bo b' h' :
  getb s i = Ok bo -> others_pres s i h' -> frame s {| heap := h'; pool := upd (pool s) i (Some b') |} i.
Proof.
  intros Hb H2 j b Hn Hj. split.
  - apply getb_nth. cbn. rewrite nth_upd_neq by auto. apply getb_nth. auto.
  - intros id k Hm Hk. apply getb_nth in Hj. destruct (H2 j b id Hn Hj Hm) as (k0 & k' & E0 & E1 & E2 & _).
    cbn. exists k'. split; auto. congruence.
Qed.

Lemma trans_ok s i bo b' h' :
  inv s -> getb s i = Ok bo ->
  (forall id k', hget h' id = Some k' ->
     len (b_data k') = 512 /\ (1 <= b_rc k')%nat /\
     (b_rc k' + refs_one id (Some bo) = rcold s id + refs_one id (Some b'))%nat) ->
  others_pres s i h' -> buf_ok h' b' ->
  step_ok s {| heap := h'; pool := upd (pool s) i (Some b') |} i b'.
Proof.
  intros Hi Hb H1 H2 H3. pose proof Hb as Hn. apply getb_nth in Hn.
  split; [|split; [|split]].
  - eapply inv_change; eauto. intros b E. inversion E; subst. auto.
  - apply getb_nth. cbn. apply nth_upd_eq. eapply nth_some_lt; eauto.
  - rewrite (abs_change s i (Some bo) (Some b') h') by auto. reflexivity.
  - eapply frame_of_pres; eauto.
Qed.

(* T1: only fields of buffer i change, its block pointer stays *)
Lemma setb_ok s i bo b' :
  inv s -> getb s i = Ok bo -> m_blk b' = m_blk bo -> buf_ok (heap s) b' -> step_ok s (setb s i b') i b'.
Proof.
  intros Hi Hb Hm Hok. unfold setb. apply (trans_ok s i bo b'); auto.
  - intros id k' Hk. destruct (inv_blk _ _ _ Hi Hk) as (L & _ & G). repeat split; auto.
    unfold rcold. rewrite Hk. cbn. rewrite Hm. reflexivity.
  - apply others_pres_refl; auto.
Qed.

(* heap cell id rewritten (rc change, data change or free), buffer i points at id or nothing *)
Lemma trans_upd s i bo b' id k v :
  inv s -> getb s i = Ok bo -> hget (heap s) id = Some k ->
  (m_blk bo = None \/ m_blk bo = Some id) -> (m_blk b' = None \/ m_blk b' = Some id) ->
  (forall k2, v = Some k2 -> len (b_data k2) = 512 /\ (1 <= b_rc k2)%nat /\
     (b_rc k2 + refs_one id (Some bo) = b_rc k + refs_one id (Some b'))%nat) ->
  (forall j b, j <> i -> nth_error (pool s) j = Some (Some b) -> m_blk b = Some id ->
     exists k2, v = Some k2 /\ b_data k2 = b_data k /\ (m_cow b = false -> b_rc k2 = 1%nat)) ->
  buf_ok (upd (heap s) id v) b' ->
  step_ok s {| heap := upd (heap s) id v; pool := upd (pool s) i (Some b') |} i b'.
Proof.
  intros Hi Hb Hk Ho Hn Hv Hoth Hok. apply (trans_ok s i bo b'); auto.
  - intros id2 k' Hk'. destruct (Nat.eq_dec id id2) as [<-|Hne].
    + rewrite hget_upd_eq in Hk' by (eapply hget_lt; eauto). subst v.
      destruct (Hv _ eq_refl) as (L & G & R). repeat split; auto. unfold rcold. rewrite Hk. auto.
    + rewrite hget_upd_neq in Hk' by auto. destruct (inv_blk _ _ _ Hi Hk') as (L & _ & G).
      repeat split; auto. unfold rcold. rewrite Hk'.
      assert (refs_one id2 (Some bo) = 0%nat) as ->.
      { destruct Ho as [E|E]; [apply refs_one_null|eapply refs_one_other]; eauto. }
      assert (refs_one id2 (Some b') = 0%nat) as ->.
      { destruct Hn as [E|E]; [apply refs_one_null|eapply refs_one_other]; eauto. }
      reflexivity.
  - intros j b idj Hnj Hj Hm. pose proof (proj1 Hi _ _ Hj) as Hbj. unfold buf_ok in Hbj. rewrite Hm in Hbj.
    destruct Hbj as (kj & Hkj & _ & Hc).
    destruct (Nat.eq_dec id idj) as [<-|Hne].
    + destruct (Hoth j b Hnj Hj Hm) as (k2 & -> & E & C). exists k, k2.
      rewrite hget_upd_eq by (eapply hget_lt; eauto). auto.
    + exists kj, kj. rewrite hget_upd_neq by auto. auto.
Qed.

Lemma buf_ok_null h c : buf_ok h {| m_blk := None; m_cow := c; m_len := 0 |}.
Proof. reflexivity. Qed.

Lemma cleanup_spec s i b :
  inv s -> getb s i = Ok b ->
  exists s', CleanupMemory s i = Ok s' /\
             step_ok s s' i {| m_blk := None; m_cow := m_cow b; m_len := 0 |}.
Proof.
  intros Hi Hb. unfold CleanupMemory. rewrite Hb. cbn [bind].
  pose proof (inv_buf _ _ _ Hi Hb) as Hok. unfold buf_ok in Hok.
  destruct (m_blk b) as [id|] eqn:Em.
  - destruct Hok as (k & Hk & Hl & Hc). unfold rd_blk. rewrite Hk. cbn [bind].
    destruct (inv_blk _ _ _ Hi Hk) as (L & R & G).
    destruct (b_rc k) as [|rc'] eqn:Erc; [lia|].
    eexists. split; [reflexivity|].
    destruct rc' as [|r].
    + (* last reference: the block is freed *)
      unfold setb, wr_blk. cbn [heap pool].
      apply (trans_upd s i b _ id k None); auto using buf_ok_null.
      * intros k2 E; discriminate.
      * intros j bj Hn Hj Hm. exfalso.
        eapply (sole_owner s i b id k j bj); eauto. apply getb_nth; auto.
    + unfold setb, wr_blk. cbn [heap pool].
      apply (trans_upd s i b _ id k (Some {| b_data := b_data k; b_rc := S r |})); auto using buf_ok_null.
      * intros k2 E. inversion E; subst. rewrite (refs_one_blk _ _ Em). cbn. repeat split; auto; lia.
      * intros j bj Hn Hj Hm. eexists. split; [reflexivity|]. cbn. split; auto.
        intros Hcow. pose proof (proj1 Hi _ _ Hj) as Hbj. unfold buf_ok in Hbj. rewrite Hm in Hbj.
        destruct Hbj as (kj & Hkj & _ & Hcj). rewrite Hk in Hkj. inversion Hkj; subst.
        specialize (Hcj Hcow). lia.
  - eexists. split; [reflexivity|].
    assert (b = {| m_blk := None; m_cow := m_cow b; m_len := 0 |}) as <-.
    { destruct b; cbn in *; subst; reflexivity. }
    apply step_ok_refl; auto.
Qed.

Lemma step_ok_abs_same s s' i b b' :
  step_ok s s' i b' -> getb s i = Ok b -> abs_buf (heap s') b' = abs_buf (heap s) b -> abs s' = abs s.
Proof.
  intros (_ & _ & A & _) Hb E. rewrite A, E. apply upd_same.
  rewrite abs_nth. apply getb_nth in Hb. rewrite Hb. reflexivity.
Qed.

Lemma set_len_spec s i b n :
  inv s -> getb s i = Ok b -> (m_blk b = None -> n = 0) -> n <= 512 ->
  exists s', set_len s i n = Ok s' /\ heap s' = heap s /\
             step_ok s s' i {| m_blk := m_blk b; m_cow := m_cow b; m_len := n |}.
Proof.
  intros Hi Hb H0 Hn. unfold set_len. rewrite Hb. cbn [bind]. eexists. split; [reflexivity|].
  split; [reflexivity|].
  apply (setb_ok s i b); auto.
  pose proof (inv_buf _ _ _ Hi Hb) as Hok. unfold buf_ok in *. cbn.
  destruct (m_blk b) as [id|]; auto.
  destruct Hok as (k & Hk & _ & Hc). exists k. auto.
Qed.

Lemma set_cow_spec s i b c :
  inv s -> getb s i = Ok b ->
  (c = false -> forall id k, m_blk b = Some id -> hget (heap s) id = Some k -> b_rc k = 1%nat) ->
  exists s', set_cow s i c = Ok s' /\
             step_ok s s' i {| m_blk := m_blk b; m_cow := c; m_len := m_len b |}.
Proof.
  intros Hi Hb Hc. unfold set_cow. rewrite Hb. cbn [bind]. eexists. split; [reflexivity|].
  apply (setb_ok s i b); auto.
  pose proof (inv_buf _ _ _ Hi Hb) as Hok. unfold buf_ok in *. cbn.
  destruct (m_blk b) as [id|]; auto.
  destruct Hok as (k & Hk & Hl & _). exists k. repeat split; auto. intros E. eapply Hc; eauto.
Qed.

(* writing into the block of its sole owner *)
Lemma bwrite_spec s i b id k off bytes :
  inv s -> getb s i = Ok b -> m_blk b = Some id -> hget (heap s) id = Some k -> b_rc k = 1%nat ->
  off + len bytes <= 512 ->
  exists s', bwrite s id off bytes = Ok s' /\ step_ok s s' i b /\
             hget (heap s') id = Some {| b_data := splice (b_data k) off bytes; b_rc := 1 |}.
Proof.
  intros Hi Hb Em Hk Hrc Hle. unfold bwrite, rd_blk. rewrite Hk. cbn [bind].
  destruct (inv_blk _ _ _ Hi Hk) as (L & _ & _).
  rewrite L. destruct (N.leb_spec (off + len bytes) 512); [|lia].
  eexists. split; [reflexivity|]. unfold wr_blk. rewrite Hrc.
  assert (E : pool s = upd (pool s) i (Some b)).
  { symmetry. apply upd_same. apply getb_nth. auto. }
  split.
  - rewrite E at 1.
    apply (trans_upd s i b b id k); auto.
    + intros k2 E2. inversion E2; subst. cbn. rewrite len_splice by lia. repeat split; auto; lia.
    + intros j bj Hn Hj Hm. exfalso. eapply (sole_owner s i b id k j bj); eauto. apply getb_nth; auto.
    + pose proof (inv_buf _ _ _ Hi Hb) as Hok. unfold buf_ok in *. rewrite Em in *.
      destruct Hok as (k0 & _ & Hl & _). eexists. rewrite hget_upd_eq by (eapply hget_lt; eauto).
      split; [reflexivity|]. cbn. auto.
  - cbn. apply hget_upd_eq. eapply hget_lt; eauto.
Qed.

Lemma upd_comm {A} (l : list A) i j x y : i <> j -> upd (upd l i x) j y = upd (upd l j y) i x.
Proof.
  revert i j; induction l as [|z l IH]; intros [|i] [|j] H; cbn; auto; try congruence.
  f_equal. apply IH. congruence.
Qed.

Lemma copy_spec s i j b o id :
  inv s -> i <> j -> getb s i = Ok b -> m_blk b = None -> getb s j = Ok o -> m_blk o = Some id ->
  exists s', CopyFromOther s i j = Ok s' /\ inv s' /\ abs s' = upd (abs s) i (Some (abs_buf (heap s) o)).
Proof.
  intros Hi Hn Hb Em Ho Eo.
  pose proof (inv_buf _ _ _ Hi Ho) as Hok. unfold buf_ok in Hok. rewrite Eo in Hok.
  destruct Hok as (k & Hk & Hlo & Hco).
  destruct (inv_blk _ _ _ Hi Hk) as (L & _ & G).
  set (b1 := {| m_blk := m_blk b; m_cow := true; m_len := m_len b |}).
  set (o1 := {| m_blk := m_blk o; m_cow := true; m_len := m_len o |}).
  set (bf := {| m_blk := Some id; m_cow := true; m_len := m_len o |}).
  assert (Eo1 : m_blk o1 = Some id) by exact Eo.
  assert (SA : step_ok s (setb s j o1) j o1).
  { apply (setb_ok s j o); auto. unfold buf_ok. rewrite Eo1. exists k. cbn. repeat split; auto. discriminate. }
  pose proof SA as (IA & GA & _ & FA).
  destruct (FA i b Hn Hb) as (GiA & _).
  assert (AA : abs (setb s j o1) = abs s).
  { eapply step_ok_abs_same; eauto. }
  set (h' := upd (heap s) id (Some {| b_data := b_data k; b_rc := S (b_rc k) |})).
  assert (SB : step_ok (setb s j o1) {| heap := h'; pool := upd (pool (setb s j o1)) i (Some bf) |} i bf).
  { apply (trans_upd (setb s j o1) i b bf id k); auto.
    - intros k2 E. inversion E; subst. cbn [b_data b_rc].
      rewrite (refs_one_null _ _ Em), (refs_one_blk id bf eq_refl). repeat split; auto; lia.
    - intros j' bj Hnj Hj Hm. eexists. split; [reflexivity|]. cbn [b_data b_rc]. split; auto. intros Hcow.
      destruct (Nat.eq_dec j' j) as [->|Hjj].
      + apply getb_nth in GA. rewrite GA in Hj. inversion Hj; subst. discriminate.
      + exfalso. apply getb_nth in GA.
        pose proof (refs_two_le id _ _ _ _ _ Hjj Hj GA) as R.
        rewrite (refs_one_blk _ _ Hm), (refs_one_blk id o1 Eo1) in R.
        pose proof (proj1 IA _ _ Hj) as Hbj. unfold buf_ok in Hbj. rewrite Hm in Hbj.
        destruct Hbj as (kj & Hkj & _ & Hcj). specialize (Hcj Hcow).
        destruct (inv_blk _ _ _ IA Hkj) as (_ & Rr & _). lia.
    - unfold buf_ok. cbn [m_blk m_cow m_len bf]. eexists.
      change (heap (setb s j o1)) with (heap s). rewrite hget_upd_eq by (eapply hget_lt; eauto).
      split; [reflexivity|]. split; auto. discriminate. }
  destruct SB as (IB & _ & AB & _).
  unfold CopyFromOther, set_cow. rewrite Hb. cbn [bind]. fold b1.
  assert (G1 : getb (setb s i b1) j = Ok o).
  { apply getb_nth. cbn. rewrite nth_upd_neq by auto. apply getb_nth. auto. }
  rewrite G1. cbn [bind]. fold o1.
  assert (G2 : getb (setb (setb s i b1) j o1) j = Ok o1).
  { apply getb_nth. cbn. apply nth_upd_eq. rewrite upd_length. eapply nth_some_lt. apply getb_nth. eauto. }
  rewrite G2. cbn [bind]. rewrite Eo1. unfold rd_blk. cbn [heap setb]. rewrite Hk. cbn [bind].
  assert (G3 : forall hh, getb {| heap := hh; pool := upd (upd (pool s) i (Some b1)) j (Some o1) |} i = Ok b1).
  { intros hh. apply getb_nth. cbn. rewrite nth_upd_neq by auto. apply nth_upd_eq.
    eapply nth_some_lt. apply getb_nth. eauto. }
  unfold wr_blk. cbn [heap pool]. rewrite G3. cbn [bind]. eexists. split; [reflexivity|].
  unfold setb. cbn [heap pool m_cow m_len b1 o1]. fold bf. fold h'.
  assert (EP : upd (upd (upd (pool s) i (Some b1)) j (Some o1)) i (Some bf) =
               upd (pool (setb s j o1)) i (Some bf)).
  { cbn. rewrite (upd_comm (pool s) i j) by auto. apply upd_upd. }
  rewrite EP. split; auto.
  rewrite AB, AA. do 2 f_equal. unfold abs_buf. cbn [m_blk m_len bf heap]. rewrite Eo, Hk.
  unfold h'. rewrite hget_upd_eq by (eapply hget_lt; eauto). reflexivity.
Qed.

Section WithFresh.
Variable fresh : list N.

Lemma len_fresh_block : len (fresh_block fresh) = 512.
Proof.
  unfold fresh_block. rewrite len_take, len_app, len_repeat. change DMX_UNIVERSE_SIZE with 512. lia.
Qed.

(* Init on a buffer without a block: a new exclusively owned block, size 0 *)
Lemma init_spec s i b :
  inv s -> getb s i = Ok b -> m_blk b = None ->
  exists s', Init fresh s i = Ok s' /\
    let b' := {| m_blk := Some (length (heap s)); m_cow := m_cow b; m_len := 0 |} in
    step_ok s s' i b' /\
    hget (heap s') (length (heap s)) = Some {| b_data := fresh_block fresh; b_rc := 1 |}.
Proof.
  intros Hi Hb Em. unfold Init. rewrite Hb. cbn [bind]. eexists. split; [reflexivity|]. cbn zeta.
  split; [|apply hget_app_new].
  apply (trans_ok s i b); auto.
  - intros id k' Hk'. apply hget_app_inv in Hk' as [[-> ->]|[Hlt Hk']].
    + cbn [b_data b_rc]. rewrite (refs_one_null _ _ Em).
      rewrite (refs_one_blk (length (heap s))
                 {| m_blk := Some (length (heap s)); m_cow := m_cow b; m_len := 0 |}) by reflexivity.
      split; [apply len_fresh_block|]. split; [lia|].
      unfold rcold. destruct (hget (heap s) (length (heap s))) eqn:E; [apply hget_lt in E; lia|reflexivity].
    + destruct (inv_blk _ _ _ Hi Hk') as (L & _ & G). repeat split; auto.
      unfold rcold. rewrite Hk'. rewrite (refs_one_null _ _ Em).
      rewrite (refs_one_other id _ (length (heap s))); auto. cbn. lia.
  - intros j bj id Hn Hj Hm. pose proof (proj1 Hi _ _ Hj) as Hbj. unfold buf_ok in Hbj. rewrite Hm in Hbj.
    destruct Hbj as (kj & Hkj & _ & Hc). exists kj, kj. rewrite (hget_app_some _ _ _ _ Hkj). auto.
  - unfold buf_ok. cbn. eexists. rewrite hget_app_new. split; [reflexivity|]. cbn. split; [lia|auto].
Qed.

End WithFresh.

Section WithFresh2.
Variable fresh : list N.

(* the head of Set / SetFromString / Blackout leaves buffer i as the sole owner of a block *)
Lemma own_block_spec s i b :
  inv s -> getb s i = Ok b ->
  exists s2 b2 id k, own_block fresh s i = Ok s2 /\ step_ok s s2 i b2 /\
    m_blk b2 = Some id /\ m_cow b2 = m_cow b /\ hget (heap s2) id = Some k /\ b_rc k = 1%nat.
Proof.
  intros Hi Hb. unfold own_block. rewrite Hb. cbn [bind].
  destruct (m_cow b) eqn:Ec.
  - destruct (cleanup_spec s i b Hi Hb) as (s1 & -> & S1). cbn [bind].
    pose proof S1 as (I1 & G1 & _ & _). rewrite G1. cbn [bind m_blk].
    destruct (init_spec fresh s1 i _ I1 G1 eq_refl) as (s2 & -> & S2 & Hh). cbn zeta in *.
    eexists _, _, _, _. split; [reflexivity|]. split; [eapply step_ok_trans; eauto|].
    cbn. rewrite Ec. repeat split; eauto.
  - cbn [bind]. rewrite Hb. cbn [bind]. destruct (m_blk b) as [id|] eqn:Em.
    + pose proof (inv_buf _ _ _ Hi Hb) as Hok. unfold buf_ok in Hok. rewrite Em in Hok.
      destruct Hok as (k & Hk & _ & Hc). eexists s, b, id, k. split; [reflexivity|].
      split; [apply step_ok_refl; auto|]. repeat split; auto.
    + destruct (init_spec fresh s i b Hi Hb Em) as (s2 & -> & S2 & Hh). cbn zeta in *.
      eexists _, _, _, _. split; [reflexivity|]. split; [eauto|]. cbn. repeat split; eauto.
Qed.

End WithFresh2.
