(* C02 — HTPMerge refines the slot-wise maximum *)
From OlaBase Require Import Bytes.
From C02 Require Import Gen Model Spec Lemmas Inv Prims Dup Ops Step.
Local Open Scope N_scope.

Lemma pread_blk s id k off n :
  hget (heap s) id = Some k -> len (b_data k) = 512 -> off + n <= 512 ->
  pread s (PBlk id off) n = Ok (take n (drop off (b_data k))).
Proof.
  intros Hk L H. unfold pread, rd_blk. rewrite Hk. cbn [bind]. rewrite L.
  destruct (N.leb_spec (off + n) 512); [reflexivity|lia].
Qed.
Lemma memcpy_neq s id off sid o n :
  sid <> id -> memcpy s id off (PBlk sid o) n = (bytes <- pread s (PBlk sid o) n ;; bwrite s id off bytes).
Proof. intros H. unfold memcpy. destruct (Nat.eqb_spec sid id); [contradiction|reflexivity]. Qed.

(* this shorter than other: merged prefix, then other's tail *)
Lemma htp_case_lt d dk L Lo :
  len d = 512 -> len dk = 512 -> L < Lo -> Lo <= 512 ->
  let z := zipmax (take L d) (take L dk) in
  take Lo (splice (splice d 0 z) L (take (Lo - L) (drop L dk))) = htp (take L d) (take Lo dk).
Proof.
  intros Ld Lk H1 H2 z.
  assert (Lz : len z = L) by (unfold z; rewrite len_zipmax, !len_take; lia).
  set (b2 := take (Lo - L) (drop L dk)).
  assert (Lb2 : len b2 = Lo - L) by (unfold b2; rewrite len_take, drop_len; lia).
  rewrite htp_short by (rewrite !len_take; lia).
  rewrite (len_take L d), Ld. replace (N.min L 512) with L by lia.
  rewrite take_take. replace (N.min L Lo) with L by lia. fold z.
  rewrite drop_take. fold b2.
  unfold splice at 1. 
  assert (Ex : take L (splice d 0 z) = z).
  { unfold splice. rewrite take_0. cbn [app]. rewrite take_app_le by lia. apply take_all. lia. }
  rewrite Ex. rewrite take_app_ge by lia. f_equal. rewrite Lz.
  rewrite take_app_le by lia. apply take_all. lia.
Qed.

(* this at least as long as other: merged prefix, then this's tail *)
Lemma htp_case_ge d dk L Lo :
  len d = 512 -> len dk = 512 -> Lo <= L -> L <= 512 ->
  let z := zipmax (take Lo d) (take Lo dk) in
  take L (splice d 0 z) = htp (take L d) (take Lo dk).
Proof.
  intros Ld Lk H1 H2 z.
  assert (Lz : len z = Lo) by (unfold z; rewrite len_zipmax, !len_take; lia).
  rewrite htp_long by (rewrite !len_take; lia).
  rewrite (len_take Lo dk), Lk. replace (N.min Lo 512) with Lo by lia.
  rewrite take_take. replace (N.min Lo L) with Lo by lia. fold z.
  unfold splice. rewrite take_0. cbn [app]. rewrite N.add_0_l, Lz.
  rewrite take_app_ge by lia. rewrite Lz, drop_take. reflexivity.
Qed.

Lemma len0_nil {A} (l : list A) : len l = 0 -> l = [].
Proof. destruct l; auto. rewrite len_cons. lia. Qed.

Section WithFresh.
Variable fresh : list N.

Lemma op_htpmerge s i j : inv s -> refines_step fresh s (OHTPMerge i j).
Proof.
  intros Hi. unfold refines_step, cstep, astep. rewrite !a_live_abs.
  destruct (is_live s i) eqn:Eli; [|eexists _, _; split; [reflexivity|]; split; [assumption|]; split; reflexivity].
  destruct (is_live s j) eqn:Elj; [|eexists _, _; split; [reflexivity|]; split; [assumption|]; split; reflexivity].
  cbn [andb]. apply is_live_getb in Eli as (b & Hb). apply is_live_getb in Elj as (o0 & Ho0).
  unfold HTPMerge. rewrite Hb. cbn [bind].
  set (ct := contents (abs_buf (heap s) b)).
  assert (SA : exists s1 b1 id1,
             (match m_blk b with None => Init fresh s i | Some _ => Ok s end) = Ok s1 /\
             step_ok s s1 i b1 /\ m_blk b1 = Some id1 /\ abs_buf (heap s1) b1 = Some ct).
  { pose proof (buf_view s i b Hi Hb) as V. unfold ct. destruct (m_blk b) as [id|] eqn:Em.
    - destruct V as (k & _ & _ & _ & A & _). exists s, b, id. split; [reflexivity|].
      split; [apply step_ok_refl; auto|]. split; auto. rewrite A. reflexivity.
    - destruct V as (_ & A). destruct (init_spec fresh s i b Hi Hb Em) as (s1 & -> & S1 & Hh). cbn zeta in *.
      eexists _, _, _. split; [reflexivity|]. split; [exact S1|]. split; [reflexivity|].
      rewrite A. unfold abs_buf. cbn [m_blk m_len]. rewrite Hh. reflexivity. }
  destruct SA as (s1 & b1 & id1 & -> & S1 & Em1 & A1). cbn [bind].
  pose proof S1 as (I1 & G1 & _ & _).
  destruct (dup_spec fresh s1 i b1 id1 I1 G1 Em1) as (s2 & t & id & k & -> & S2 & Em & Ec & Elen & A2 & Hk & Hrc).
  cbn [bind].
  assert (S : step_ok s s2 i t) by (eapply step_ok_trans; eauto).
  pose proof S as (I2 & G2 & AA & F).
  rewrite G2. cbn [bind].
  assert (At : abs_buf (heap s2) t = Some ct) by congruence.
  pose proof (buf_view s2 i t I2 G2) as Vt. rewrite Em in Vt. destruct Vt as (k' & Hk' & Lk & Hlt & Abt & _).
  rewrite Hk in Hk'. inversion Hk'; subst k'. clear Hk'.
  assert (Ect : ct = take (m_len t) (b_data k)) by congruence.
  assert (Lct : len ct = m_len t) by (rewrite Ect, len_take; lia).
  change DMX_UNIVERSE_SIZE with 512.
  pose proof (live_lt s i b Hb) as Hlen.
  rewrite (aget_abs s i b Hb). fold ct. cbn zeta. rewrite aget_upd_eq by auto. cbn [contents fst snd].
  rewrite upd_upd.
  assert (AA' : abs s2 = upd (abs s) i (Some (Some ct))) by (rewrite AA, At; reflexivity).
  destruct (Nat.eq_dec j i) as [->|Hn].
  - (* self-merge *)
    rewrite G2. cbn [bind]. rewrite aget_upd_eq by auto. cbn [contents]. rewrite htp_self.
    rewrite N.min_id. replace (N.min 512 (m_len t)) with (m_len t) by lia. rewrite N.ltb_irrefl.
    destruct (N.eqb_spec (m_len t) 0) as [H0|H0].
    + cbn [bind rb fst snd]. eexists _, _. split; [reflexivity|]. auto.
    + rewrite Em. rewrite (pread_blk s2 id k 0 (m_len t) Hk Lk) by lia. cbn [bind]. rewrite drop_0, <- Ect.
      rewrite zipmax_self.
      destruct (bwrite_spec s2 i t id k 0 ct I2 G2 Em Hk Hrc) as (s3 & -> & S3 & Hk3); [lia|].
      cbn [bind rb fst snd]. eexists _, _. split; [reflexivity|].
      assert (S' : step_ok s s3 i t) by (eapply step_ok_trans; eauto).
      eapply step_ok_abs in S' as (I' & A'); [split; [exact I'|split; [exact A'|reflexivity]]|].
      unfold abs_buf. rewrite Em, Hk3. cbn [b_data]. f_equal. rewrite <- Lct. apply take_splice0. lia.
  - destruct (frame_abs_buf s s2 i j o0 Hi F Hn Ho0) as (Ho2 & Eo).
    rewrite Ho2. cbn [bind]. rewrite aget_upd_neq by auto. rewrite (aget_abs s j o0 Ho0), <- Eo.
    pose proof (buf_view s2 j o0 I2 Ho2) as V0.
    destruct (m_blk o0) as [ido|] eqn:Eo0.
    2:{ destruct V0 as (L0 & ->). rewrite L0. cbn [contents]. rewrite htp_nil_r.
        replace (N.min (m_len t) 0) with 0 by lia. change (N.min 512 0) with 0. cbn [N.eqb bind].
        destruct (N.ltb_spec (m_len t) 0); [lia|]. cbn [rb bind fst snd].
        eexists _, _. split; [reflexivity|]. auto. }
    destruct V0 as (ko & Hko & Lko & Hlo & -> & _). cbn [contents].
    assert (Hne : ido <> id).
    { intros ->. apply getb_nth in Ho2. apply getb_nth in G2. eapply (sole_owner s2 i t id k j o0); eauto. }
    replace (N.min 512 (m_len o0)) with (m_len o0) by lia.
    destruct (N.ltb_spec (m_len t) (m_len o0)) as [Hlt'|Hge'].
    + replace (N.min (m_len t) (m_len o0)) with (m_len t) by lia.
      destruct (N.eqb_spec (m_len t) 0) as [H0|H0].
      * (* this empty: take other's slots *)
        cbn [bind]. rewrite Em, H0. rewrite memcpy_neq by auto. rewrite N.sub_0_r.
        rewrite (pread_blk s2 ido ko 0 (m_len o0) Hko Lko) by lia. cbn [bind]. rewrite drop_0.
        set (co := take (m_len o0) (b_data ko)).
        assert (Lco : len co = m_len o0) by (unfold co; rewrite len_take; lia).
        destruct (bwrite_spec s2 i t id k 0 co I2 G2 Em Hk Hrc) as (s3 & -> & S3 & Hk3); [lia|]. cbn [bind].
        pose proof S3 as (I3 & G3 & _ & _).
        destruct (set_len_spec s3 i t (m_len o0) I3 G3) as (s4 & -> & Hh & S4); [congruence|lia|].
        cbn [bind rb fst snd]. eexists _, _. split; [reflexivity|].
        assert (S' : step_ok s s4 i _) by (eapply step_ok_trans; [eauto|eapply step_ok_trans; eauto]).
        eapply step_ok_abs in S' as (I' & A'); [split; [exact I'|split; [exact A'|reflexivity]]|].
        unfold abs_buf. cbn [m_blk m_len]. rewrite Em, Hh, Hk3. cbn [b_data]. f_equal.
        rewrite (len0_nil ct) by lia. rewrite htp_nil_l. rewrite <- Lco. apply take_splice0. lia.
      * (* merge the common prefix, then append other's tail *)
        rewrite Em. rewrite (pread_blk s2 id k 0 (m_len t) Hk Lk) by lia. cbn [bind].
        rewrite (pread_blk s2 ido ko 0 (m_len t) Hko Lko) by lia. cbn [bind]. rewrite !drop_0.
        set (z := zipmax (take (m_len t) (b_data k)) (take (m_len t) (b_data ko))).
        assert (Lz : len z = m_len t) by (unfold z; rewrite len_zipmax, !len_take; lia).
        destruct (bwrite_spec s2 i t id k 0 z I2 G2 Em Hk Hrc) as (s3 & -> & S3 & Hk3); [lia|]. cbn [bind].
        pose proof S3 as (I3 & G3 & _ & F3).
        destruct (F3 j o0 Hn Ho2) as (Ho3 & D3). destruct (D3 ido ko Eo0 Hko) as (ko3 & Hko3 & Ed3).
        destruct (inv_blk _ _ _ I3 Hko3) as (Lko3 & _).
        rewrite memcpy_neq by auto.
        rewrite (pread_blk s3 ido ko3 (m_len t) (m_len o0 - m_len t) Hko3 Lko3) by lia. cbn [bind]. rewrite Ed3.
        set (b2 := take (m_len o0 - m_len t) (drop (m_len t) (b_data ko))).
        assert (Lb2 : len b2 = m_len o0 - m_len t) by (unfold b2; rewrite len_take, drop_len; lia).
        destruct (bwrite_spec s3 i t id _ (m_len t) b2 I3 G3 Em Hk3 eq_refl) as (s4 & -> & S4 & Hk4); [lia|].
        cbn [bind]. pose proof S4 as (I4 & G4 & _ & _).
        destruct (set_len_spec s4 i t (m_len o0) I4 G4) as (s5 & -> & Hh & S5); [congruence|lia|].
        cbn [bind rb fst snd]. eexists _, _. split; [reflexivity|].
        assert (S' : step_ok s s5 i {| m_blk := m_blk t; m_cow := m_cow t; m_len := m_len o0 |}).
        { eapply step_ok_trans; [exact S|]. eapply step_ok_trans; [exact S3|]. eapply step_ok_trans; eauto. }
        eapply step_ok_abs in S' as (I' & A'); [split; [exact I'|split; [exact A'|reflexivity]]|].
        unfold abs_buf. cbn [m_blk m_len]. rewrite Em, Hh, Hk4. cbn [b_data]. f_equal. rewrite Ect.
        apply htp_case_lt; auto.
    + replace (N.min (m_len t) (m_len o0)) with (m_len o0) by lia.
      destruct (N.eqb_spec (m_len o0) 0) as [H0|H0].
      * cbn [bind rb fst snd]. eexists _, _. split; [reflexivity|]. split; auto. split; auto.
        rewrite H0. rewrite take_0, htp_nil_r. auto.
      * rewrite Em. rewrite (pread_blk s2 id k 0 (m_len o0) Hk Lk) by lia. cbn [bind].
        rewrite (pread_blk s2 ido ko 0 (m_len o0) Hko Lko) by lia. cbn [bind]. rewrite !drop_0.
        set (z := zipmax (take (m_len o0) (b_data k)) (take (m_len o0) (b_data ko))).
        assert (Lz : len z = m_len o0) by (unfold z; rewrite len_zipmax, !len_take; lia).
        destruct (bwrite_spec s2 i t id k 0 z I2 G2 Em Hk Hrc) as (s3 & -> & S3 & Hk3); [lia|].
        cbn [bind rb fst snd]. eexists _, _. split; [reflexivity|].
        assert (S' : step_ok s s3 i t) by (eapply step_ok_trans; eauto).
        eapply step_ok_abs in S' as (I' & A'); [split; [exact I'|split; [exact A'|reflexivity]]|].
        unfold abs_buf. rewrite Em, Hk3. cbn [b_data]. f_equal. rewrite Ect.
        apply htp_case_ge; auto.
Qed.

End WithFresh.
