(* C02 — abstract specification written from the property text and include/ola/DmxBuffer.h:
   a DMX buffer is an independent VALUE: `None` (never initialised: no storage yet; only observable
   through Set(other) / copy refusing an uninitialised source) or `Some slots` with 0..512 slots.
   A pool is a list of slots, each raw storage (`None`) or an object holding such a value.
   Every operation rewrites exactly the target's value; there is no heap, no sharing. *)
From OlaBase Require Import Bytes.
From C02 Require Import Gen Model.
Local Open Scope N_scope.

Definition abuf := option (list N).
Definition astate := list (option abuf).

Definition contents (b : abuf) : list N := match b with Some l => l | None => [] end.
Definition a_live (A : astate) (i : nat) : bool :=
  match nth_error A i with Some (Some _) => true | _ => false end.
Definition a_raw (A : astate) (i : nat) : bool :=
  match nth_error A i with Some None => true | _ => false end.
Definition aget (A : astate) (i : nat) : abuf :=
  match nth_error A i with Some (Some b) => b | _ => None end.

(* highest-takes-precedence merge: slot-wise maximum, the longer buffer supplies the rest *)
Fixpoint htp (a b : list N) : list N :=
  match a, b with
  | [], _ => b
  | _, [] => a
  | x :: a', y :: b' => N.max x y :: htp a' b'
  end.

(* overwrite `bytes` at `off` (off <= |cur|): the result has max(|cur|, off+|bytes|) slots *)
Definition a_store (cur : list N) (off : N) (bytes : list N) : list N :=
  take off cur ++ bytes ++ drop (off + len bytes) cur.

(* Set(data, length): fails on null, else the first min(length,512) bytes *)
Definition a_set_ptr (b : abuf) (p : xptr) (n : N) : abuf * bool :=
  match p with
  | XNull => (b, false)
  | XExt l => (Some (take (N.min n 512) l), true)
  end.

(* the writes at an offset: an uninitialised buffer is blacked out (512 zeros) first; offset must be
   < 512 and <= Size(); at most 512 - offset slots are written *)
Definition a_range (b : abuf) (off : N) (src : N -> list N) : abuf * bool :=
  if 512 <=? off then (b, false) else
  let cur := match b with None => repeat 0 512 | Some l => l end in
  if len cur <? off then (b, false) else
  (Some (a_store cur off (src (512 - off))), true).

Definition astep (A : astate) (o : op) : astate * ret :=
  match o with
  | ONew i => if a_raw A i then (upd A i (Some None), RUnit) else (A, RSkip)
  | OCopyNew i j => if a_raw A i && a_live A j then (upd A i (Some (aget A j)), RUnit) else (A, RSkip)
  | ONewData i p n =>
    if a_raw A i then (upd A i (Some (fst (a_set_ptr None p n))), RUnit) else (A, RSkip)
  | ONewStr i l => if a_raw A i then (upd A i (Some (Some (take 512 l))), RUnit) else (A, RSkip)
  | ODestroy i => if a_live A i then (upd A i None, RUnit) else (A, RSkip)
  | OAssign i j => if a_live A i && a_live A j then (upd A i (Some (aget A j)), RUnit) else (A, RSkip)
  | OSetBuf i j =>
    if a_live A i && a_live A j then
      match aget A j with
      | None => (A, RBool false)                        (* nothing to copy from *)
      | Some l => (upd A i (Some (Some l)), RBool true)
      end
    else (A, RSkip)
  | OSetPtr i p n =>
    if a_live A i then let r := a_set_ptr (aget A i) p n in (upd A i (Some (fst r)), RBool (snd r))
    else (A, RSkip)
  | OSetStr i l =>
    if a_live A i then (upd A i (Some (Some (take 512 l))), RBool true) else (A, RSkip)
  | OSetFromString i text =>
    (* one slot per comma separated item (its leading decimal number, stored as a byte), at most 512 *)
    if a_live A i then (upd A i (Some (Some (take 512 (sfs_values text)))), RBool true) else (A, RSkip)
  | OSetRangeToValue i off v n =>
    if a_live A i then
      let r := a_range (aget A i) off (fun room => repeat v (N.to_nat (N.min n room))) in
      (upd A i (Some (fst r)), RBool (snd r))
    else (A, RSkip)
  | OSetRange i off p n =>
    if a_live A i then
      match p with
      | XNull => (A, RBool false)
      | XExt l =>
        let r := a_range (aget A i) off (fun room => take (N.min n room) l) in
        (upd A i (Some (fst r)), RBool (snd r))
      end
    else (A, RSkip)
  | OSetChannel i ch v =>
    if a_live A i then
      (upd A i (Some (fst (a_range (aget A i) ch (fun _ => [v])))), RUnit)
    else (A, RSkip)
  | OSetRaw i j k n =>
    if a_live A i && a_live A j && negb (Nat.eqb i j) then
      if k + n <=? len (contents (aget A j)) then
        match aget A j with
        | None => (A, RBool false)                       (* null pointer *)
        | Some l => (upd A i (Some (Some (take n (drop k l)))), RBool true)
        end
      else (A, RSkip)
    else (A, RSkip)
  | OSetRangeRaw i off j k n =>
    if a_live A i && a_live A j && negb (Nat.eqb i j) then
      if k + n <=? len (contents (aget A j)) then
        match aget A j with
        | None => (A, RBool false)
        | Some l =>
          let r := a_range (aget A i) off (fun room => take (N.min n room) (drop k l)) in
          (upd A i (Some (fst r)), RBool (snd r))
        end
      else (A, RSkip)
    else (A, RSkip)
  | OHTPMerge i j =>
    if a_live A i && a_live A j then
      (* an uninitialised target becomes an empty initialised buffer first; `other` is read after that *)
      let A1 := upd A i (Some (Some (contents (aget A i)))) in
      (upd A1 i (Some (Some (htp (contents (aget A1 i)) (contents (aget A1 j))))), RBool true)
    else (A, RSkip)
  | OBlackout i => if a_live A i then (upd A i (Some (Some (repeat 0 512))), RBool true) else (A, RSkip)
  | OReset i =>
    if a_live A i then
      (upd A i (Some (match aget A i with None => None | Some _ => Some [] end)), RUnit)
    else (A, RSkip)
  end.

Fixpoint arun (A : astate) (ops : list op) : astate :=
  match ops with
  | [] => A
  | o :: r => arun (fst (astep A o)) r
  end.

Fixpoint atrace (A : astate) (ops : list op) : list ret :=
  match ops with
  | [] => []
  | o :: r => snd (astep A o) :: atrace (fst (astep A o)) r
  end.

Definition aquery (A : astate) (q : query) : ans :=
  match q with
  | QSize i => if a_live A i then ANum (len (contents (aget A i))) else ASkip
  | QGetCh i ch => if a_live A i then ANum (nth (N.to_nat ch) (contents (aget A i)) 0) else ASkip
  | QGetBuf i n => if a_live A i then ABytes (take n (contents (aget A i))) else ASkip
  | QGetRange i slot n => if a_live A i then ABytes (take n (drop slot (contents (aget A i)))) else ASkip
  | QGetStr i => if a_live A i then ABytes (contents (aget A i)) else ASkip
  | QToString i => if a_live A i then ABytes (join_dec (contents (aget A i))) else ASkip
  | QEq i j =>
    if a_live A i && a_live A j
    then ABool (list_eqb (contents (aget A i)) (contents (aget A j))) else ASkip
  | QNe i j =>
    if a_live A i && a_live A j
    then ABool (negb (list_eqb (contents (aget A i)) (contents (aget A j)))) else ASkip
  | QStream i w fill adj =>
    (* the ToString() text as one padded field, whatever else the stream carries *)
    if a_live A i then ABytes (pad_text w fill adj (join_dec (contents (aget A i)))) else ASkip
  end.

(* ---- whole-buffer expressions of C++ as the copy operations they mean for a value type.
   t is the slot of the expression's temporary (raw before and after). *)
(* x = T(y)   and   x = f(y) with  T f(const T &b) { T c(b); return c; } *)
Definition assign_temp_ops (t i j : nat) : list op := [OCopyNew t j; OAssign i t; ODestroy t].
(* std::swap(x, y):  T tmp(x); x = y; y = tmp; *)
Definition swap_ops (t a b : nat) : list op := [OCopyNew t a; OAssign a b; OAssign b t; ODestroy t].
(* container.erase(position k) over n contiguous elements starting at slot base: the elements behind k
   are assigned one position down, then the last one is destroyed *)
Definition erase_ops (base k n : nat) : list op :=
  map (fun m => OAssign (base + m) (base + m + 1)) (seq k (n - 1 - k)) ++ [ODestroy (base + n - 1)].

(* target of an operation: the only slot whose value it may change *)
Definition target (o : op) : nat :=
  match o with
  | ONew i | OCopyNew i _ | ONewData i _ _ | ONewStr i _ | ODestroy i | OAssign i _ | OSetBuf i _ | OSetPtr i _ _
  | OSetStr i _ | OSetFromString i _ | OSetRangeToValue i _ _ _ | OSetRange i _ _ _
  | OSetChannel i _ _ | OSetRaw i _ _ _ | OSetRangeRaw i _ _ _ _ | OHTPMerge i _ | OBlackout i | OReset i => i
  end.

(* the caller's side of the contract: an array passed with a length holds at least the bytes the
   call may read (min(length, 512) for Set, min(length, 512 - offset) for SetRange) *)
Definition op_ok (o : op) : Prop :=
  match o with
  | ONewData _ (XExt l) n | OSetPtr _ (XExt l) n => N.min n 512 <= len l
  | OSetRange _ off (XExt l) n => off < 512 -> N.min n (512 - off) <= len l
  | _ => True
  end.
