(* C02 — pointer arguments that point into ANOTHER buffer's block:
   a.Set(b.GetRaw() + k, n) and a.SetRange(off, b.GetRaw() + k, n) with k + n <= b.Size(), a <> b *)
From OlaBase Require Import Bytes.
From C02 Require Import Gen Model Spec Lemmas Inv Prims Dup Ops Step Htp.
Local Open Scope N_scope.

Ltac skip_case := eexists _, _; split; [reflexivity|]; split; [assumption|]; split; reflexivity.

Lemma take_drop_take {A} n k L (d : list A) : k + n <= L -> take n (drop k (take L d)) = take n (drop k d).
Proof. intros H. rewrite drop_take, take_take. f_equal. lia. Qed.

Lemma len_contents_view s j o : inv s -> getb s j = Ok o -> len (contents (abs_buf (heap s) o)) = m_len o.
Proof.
  intros Hi Ho. pose proof (buf_view s j o Hi Ho) as V. destruct (m_blk o).
  - destruct V as (k & _ & L & Hl & -> & _). cbn. rewrite len_take. lia.
  - destruct V as (-> & ->). reflexivity.
Qed.

Section WithFresh.
Variable fresh : list N.

Lemma set_ptr_blk_off s i j b o sid k n :
  inv s -> i <> j -> getb s i = Ok b -> getb s j = Ok o -> m_blk o = Some sid -> k + n <= m_len o ->
  exists s', Set_ptr fresh s i (PBlk sid k) n = Ok (s', true) /\ inv s' /\
             abs s' = upd (abs s) i (Some (Some (take n (drop k (contents (abs_buf (heap s) o)))))).
Proof.
  intros Hi Hn Hb Ho Eo Hkn. unfold Set_ptr.
  pose proof (buf_view s j o Hi Ho) as V. rewrite Eo in V. destruct V as (ko & Hko & Lko & Hlo & Ao & _).
  destruct (own_block_spec fresh s i b Hi Hb) as (s2 & b2 & id & kk & -> & S2 & Em & _ & Hk & Hrc). cbn [bind].
  pose proof S2 as (I2 & G2 & _ & F2). change DMX_UNIVERSE_SIZE with 512.
  destruct (F2 j o (not_eq_sym Hn) Ho) as (Ho2 & D2). destruct (D2 sid ko Eo Hko) as (ko2 & Hko2 & Ed).
  destruct (inv_blk _ _ _ I2 Hko2) as (Lko2 & _).
  assert (Hn5 : n <= 512) by lia.
  replace (N.min n 512) with n by lia.
  assert (Hne : sid <> id).
  { intros ->. apply getb_nth in Ho2. apply getb_nth in G2. eapply (sole_owner s2 i b2 id kk j o); eauto. }
  destruct (store_phase s2 i b2 id kk n (take n (drop k (b_data ko))) (PBlk sid k) I2 G2 Em Hk Hrc)
    as (s4 & b4 & -> & S4 & A4); auto.
  - rewrite len_take, drop_len. lia.
  - intros s3 Hh. rewrite (pread_blk s3 sid ko2 k n); [rewrite Ed; reflexivity|rewrite Hh; auto|auto|lia].
  - eexists. split; [reflexivity|]. rewrite Ao. cbn [contents]. rewrite take_drop_take by lia.
    eapply step_ok_abs; [eapply step_ok_trans; eauto|auto].
Qed.

Lemma op_setraw s i j k n : inv s -> refines_step fresh s (OSetRaw i j k n).
Proof.
  intros Hi. unfold refines_step, cstep, astep. rewrite !a_live_abs.
  destruct (is_live s i) eqn:El; [|skip_case].
  destruct (is_live s j) eqn:Ej; [|skip_case].
  destruct (Nat.eqb_spec i j) as [->|Hn]; cbn [andb negb]; [skip_case|].
  apply is_live_getb in El as (b & Hb). apply is_live_getb in Ej as (o & Ho).
  rewrite Ho. cbn [bind]. rewrite (aget_abs s j o Ho), (len_contents_view s j o Hi Ho).
  destruct (N.leb_spec (k + n) (m_len o)) as [Hkn|]; [|skip_case].
  pose proof (buf_view s j o Hi Ho) as V. unfold raw_ptr. destruct (m_blk o) as [sid|] eqn:Eo.
  - destruct (set_ptr_blk_off s i j b o sid k n Hi Hn Hb Ho Eo Hkn) as (s' & -> & I' & A').
    destruct V as (ko & _ & _ & _ & Ao & _). rewrite Ao in *. cbn [rb bind fst snd contents] in *.
    eexists _, _. split; [reflexivity|]. auto.
  - destruct V as (_ & ->). cbn [Set_ptr rb bind fst snd]. eexists _, _. split; [reflexivity|]. auto.
Qed.

Lemma store_at_spec s2 i b2 id kk cur off bytes :
  inv s2 -> getb s2 i = Ok b2 -> m_blk b2 = Some id -> hget (heap s2) id = Some kk -> b_rc kk = 1%nat ->
  abs_buf (heap s2) b2 = Some cur -> off <= len cur -> off + len bytes <= 512 ->
  exists s3, store_at s2 i off bytes = Ok s3 /\ inv s3 /\
             abs s3 = upd (abs s2) i (Some (Some (a_store cur off bytes))).
Proof.
  intros I2 G2 Em Hk Hrc A2 Hoff Hfit.
  pose proof (buf_view s2 i b2 I2 G2) as V. rewrite Em in V. destruct V as (k' & Hk' & Lk & Hl & Ab & _).
  rewrite Hk in Hk'. inversion Hk'; subst k'. clear Hk'.
  assert (Ecur : cur = take (m_len b2) (b_data kk)) by congruence.
  assert (Lc : len cur = m_len b2) by (rewrite Ecur, len_take; lia).
  unfold store_at. rewrite G2. cbn [bind]. rewrite Em.
  destruct (bwrite_spec s2 i b2 id kk off bytes I2 G2 Em Hk Hrc) as (s3 & -> & S3 & Hk3); [lia|]. cbn [bind].
  pose proof S3 as (I3 & G3 & _ & _).
  destruct (set_len_spec s3 i b2 (N.max (m_len b2) (off + len bytes)) I3 G3) as (s4 & -> & Hh & S4);
    [congruence|lia|].
  eexists. split; [reflexivity|].
  eapply step_ok_abs; [eapply step_ok_trans; eauto|].
  unfold abs_buf. cbn [m_blk m_len]. rewrite Em, Hh, Hk3. cbn [b_data]. f_equal. rewrite Ecur.
  apply take_splice; lia.
Qed.

Lemma op_setrangeraw s i off j k n : inv s -> refines_step fresh s (OSetRangeRaw i off j k n).
Proof.
  intros Hi. unfold refines_step, cstep, astep. rewrite !a_live_abs.
  destruct (is_live s i) eqn:El; [|skip_case].
  destruct (is_live s j) eqn:Ej; [|skip_case].
  destruct (Nat.eqb_spec i j) as [->|Hn]; cbn [andb negb]; [skip_case|].
  apply is_live_getb in El as (b & Hb). apply is_live_getb in Ej as (o & Ho).
  rewrite Ho. cbn [bind]. rewrite (aget_abs s j o Ho), (len_contents_view s j o Hi Ho), (aget_abs s i b Hb).
  destruct (N.leb_spec (k + n) (m_len o)) as [Hkn|]; [|skip_case].
  pose proof (buf_view s j o Hi Ho) as V. unfold raw_ptr. destruct (m_blk o) as [sid|] eqn:Eo.
  2:{ destruct V as (_ & ->). cbn [SetRange rb bind fst snd]. eexists _, _. split; [reflexivity|]. auto. }
  destruct V as (ko & Hko & Lko & Hlo & Ao & _). rewrite Ao.
  unfold SetRange. change DMX_UNIVERSE_SIZE with 512.
  destruct (N.leb_spec 512 off) as [Hge|Hlt].
  { unfold a_range. destruct (N.leb_spec 512 off); [|lia]. cbn [rb bind fst snd].
    eexists _, _. split; [reflexivity|]. split; auto. split; auto. symmetry. apply abs_self. auto. }
  destruct (range_head fresh s i b Hi Hb) as (s1 & b1 & id1 & -> & S1 & Em1 & A1 & L1). cbn [bind].
  pose proof S1 as (I1 & G1 & AA1 & F1). rewrite G1. cbn [bind].
  unfold a_range. destruct (N.leb_spec 512 off); [lia|].
  fold (cur_of (abs_buf (heap s) b)). rewrite L1.
  set (cur := cur_of (abs_buf (heap s) b)) in *.
  destruct (N.ltb_spec (len cur) off) as [Hlt'|Hge']; cbn [fst snd].
  { cbn [rb bind fst snd]. eexists _, _. split; [reflexivity|]. split; auto. split; auto.
    rewrite AA1, A1. do 2 f_equal. unfold cur in *. destruct (abs_buf (heap s) b) as [l|]; cbn [cur_of] in *; auto.
    rewrite len_repeat in Hlt'. lia. }
  destruct (dup_spec fresh s1 i b1 id1 I1 G1 Em1) as (s2 & b2 & id2 & k2 & -> & S2 & Em2 & Ec & Elen & A2 & Hk2 & Hrc2).
  cbn [bind]. pose proof S2 as (I2 & G2 & AA2 & F2). rewrite G2. cbn [bind]. rewrite Em2.
  destruct (F1 j o (not_eq_sym Hn) Ho) as (Ho1 & D1). destruct (D1 sid ko Eo Hko) as (ko1 & Hko1 & Ed1).
  destruct (F2 j o (not_eq_sym Hn) Ho1) as (Ho2 & D2). destruct (D2 sid ko1 Eo Hko1) as (ko2 & Hko2 & Ed2).
  destruct (inv_blk _ _ _ I2 Hko2) as (Lko2 & _).
  assert (Hne : sid <> id2).
  { intros ->. apply getb_nth in Ho2. apply getb_nth in G2. eapply (sole_owner s2 i b2 id2 k2 j o); eauto. }
  destruct (Nat.eqb_spec sid id2) as [|_]; [contradiction|].
  set (cl := N.min n (512 - off)).
  rewrite (pread_blk s2 sid ko2 k cl Hko2 Lko2) by (unfold cl; lia). cbn [bind]. rewrite Ed2, Ed1.
  set (bytes := take cl (drop k (b_data ko))).
  assert (Lb : len bytes = cl) by (unfold bytes; rewrite len_take, drop_len; unfold cl; lia).
  destruct (store_at_spec s2 i b2 id2 k2 cur off bytes I2 G2 Em2 Hk2 Hrc2) as (s3 & -> & I3 & A3).
  - congruence.
  - exact Hge'.
  - rewrite Lb. unfold cl. lia.
  - cbn [rb bind fst snd contents]. eexists _, _. split; [reflexivity|]. split; auto. split; auto.
    rewrite A3, AA2, AA1, !upd_upd. do 4 f_equal. unfold bytes, cl.
    symmetry. apply take_drop_take. lia.
Qed.

End WithFresh.
