(* C02 — DMX buffers are independent values of 0..512 slots; copy-on-write is invisible.
   Only theorem statements; proofs are in Lemmas/Inv/Prims/Dup/Ops/Step/Htp/Proofs.v.

   Concrete model (Model.v): heap of reference-counted 512-byte blocks + pool of DmxBuffer objects
   {m_blk, m_cow, m_len}, every method of common/utils/DmxBuffer.cpp (with fixes/01-self-set-guard.diff).
   `cstep fresh s o` runs one operation `o` (constructors and the destructor included; `other`
   arguments are pool indices, so self-operations are ordinary cases) and returns `Ok (s', ret)` or a
   hazard `Hz UseAfterFree | Oob | NullDeref | RcUnderflow | Overlap | DeadObject`.  `fresh` is the
   content of newly allocated (uninitialised) memory; every theorem holds for every `fresh`.
   Value model (Spec.v): a pool is a list of slots, raw (`None`) or holding a value
   `None | Some slots` (never-initialised | list of 0..512 slots); `astep` rewrites only the target.
   `op_ok o` is the caller's side of the C++ contract: an array passed with a length really holds the
   bytes the call reads (min(length,512), resp. min(length,512-offset)). *)
From OlaBase Require Import Bytes.
From C02 Require Import Gen Model Spec Lemmas Text Inv Proofs.
Local Open Scope N_scope.

(* the regenerated constants are the property's numbers *)
Theorem c02_consts : DMX_UNIVERSE_SIZE = 512 /\ DMX_MIN_SLOT_VALUE = 0.
Proof. split; reflexivity. Qed.
Print Assumptions c02_consts.

(* Heap invariant after EVERY history on EVERY pool size: the run never reaches a hazard, and in the
   reached state every non-null block pointer is live, sizes are <= 512, a buffer whose copy-on-write
   flag is clear is the only referrer of its block, every live block has 512 bytes and a reference
   count equal to the number of buffers pointing at it, which is at least 1. *)
Theorem c02_inv : forall fresh slots ops,
  Forall op_ok ops ->
  exists s, crun fresh (init_st slots) ops = Ok s /\
    (forall i b, nth_error (pool s) i = Some (Some b) ->
       match m_blk b with
       | None => m_len b = 0
       | Some id => exists k, hget (heap s) id = Some k /\ m_len b <= 512 /\
                              (m_cow b = false -> b_rc k = 1%nat)
       end) /\
    (forall id k, hget (heap s) id = Some k ->
       len (b_data k) = 512 /\ b_rc k = refs id (pool s) /\ (1 <= b_rc k)%nat).
Proof. exact inv_run_full. Qed.
Print Assumptions c02_inv.

(* Refinement, one step from any state satisfying the invariant: the implementation model does not
   fail, re-establishes the invariant, returns what the value model returns, and its abstraction is
   the value model's next state. *)
Theorem c02_refines : forall fresh s o,
  inv s -> op_ok o ->
  exists s' r, cstep fresh s o = Ok (s', r) /\ inv s' /\
               abs s' = fst (astep (abs s) o) /\ r = snd (astep (abs s) o).
Proof. exact step_correct. Qed.
Print Assumptions c02_refines.

(* Refinement, whole histories and every read: after any sequence of operations on a fresh pool,
   every const member function (Size, Get(i), Get(buf,&n), GetRange, Get(), ToString, ==) of the
   implementation model answers exactly what the value model answers -- in particular the answer
   does not depend on sharing, reference counts or the contents of uninitialised memory. *)
Theorem c02_refines_run : forall fresh slots ops q,
  Forall op_ok ops ->
  exists s, crun fresh (init_st slots) ops = Ok s /\
            abs s = arun (repeat None slots) ops /\
            cquery s q = Ok (aquery (arun (repeat None slots) ops) q).
Proof. exact refines_run_full. Qed.
Print Assumptions c02_refines_run.

(* Independence: an operation aimed at buffer `target o` (any mutator, assignment, copy
   construction, destruction; `other` may be any buffer including the target itself) leaves the
   value of every other slot, and the answer to every read that does not involve the target,
   unchanged -- whatever the aliasing pattern of the state it is applied to. *)
Theorem c02_independent : forall fresh s o s' r,
  inv s -> op_ok o -> cstep fresh s o = Ok (s', r) ->
  (forall j, j <> target o -> nth_error (abs s') j = nth_error (abs s) j) /\
  (forall q, (forall j, In j (query_slots q) -> j <> target o) -> cquery s' q = cquery s q).
Proof. exact independent_full. Qed.
Print Assumptions c02_independent.

(* Memory safety: from a state satisfying the invariant no operation and no read reaches a
   use-after-free, an access outside a block or outside the caller's array, a null dereference, a
   reference-count underflow or an overlapping memcpy; and nothing leaks: after any history, if no
   buffer object is alive then no block is. *)
Theorem c02_memsafe :
  (forall fresh s o h, inv s -> op_ok o -> cstep fresh s o <> Hz h) /\
  (forall s q h, inv s -> cquery s q <> Hz h) /\
  (forall fresh slots ops, Forall op_ok ops ->
     exists s, crun fresh (init_st slots) ops = Ok s /\
               ((forall i, is_live s i = false) -> forall id, hget (heap s) id = None)).
Proof. exact memsafe_full. Qed.
Print Assumptions c02_memsafe.

(* Bounds: in every state satisfying the invariant (hence after every history) Size() <= 512,
   Get(channel) with channel >= Size() is 0, GetRange from a slot >= Size() yields no data, the
   array Get copies min(asked, Size()) bytes and the string Get has Size() bytes. *)
Theorem c02_bounds : forall s i,
  inv s -> is_live s i = true ->
  exists n, cquery s (QSize i) = Ok (ANum n) /\ n <= 512 /\
    (forall ch, n <= ch -> cquery s (QGetCh i ch) = Ok (ANum 0)) /\
    (forall slot k, n <= slot -> cquery s (QGetRange i slot k) = Ok (ABytes [])) /\
    (forall k, exists l, cquery s (QGetBuf i k) = Ok (ABytes l) /\ len l = N.min k n) /\
    (exists l, cquery s (QGetStr i) = Ok (ABytes l) /\ len l = n).
Proof. exact reads_outside. Qed.
Print Assumptions c02_bounds.

(* Failure is pure: an operation that reports failure (returns false), or is skipped because an
   object-lifetime precondition does not hold, leaves every value and every observation unchanged. *)
Theorem c02_fail_pure : forall fresh s o s' r,
  inv s -> op_ok o -> cstep fresh s o = Ok (s', r) -> r = RBool false \/ r = RSkip ->
  abs s' = abs s /\ forall q, cquery s' q = cquery s q.
Proof. exact step_fail_pure. Qed.
Print Assumptions c02_fail_pure.

(* The unfixed tree: with Set(const DmxBuffer&) as it was (no self guard), a contract-respecting
   history reaches a use-after-free: construct b, copy it, destroy the copy, b.Set(b).
   (ASan reports the same on /repo without fixes/01-self-set-guard.diff.) *)
Theorem c02_self_set_refuted :
  exists ops, Forall op_ok ops /\ crun_unfixed [] (init_st 2) ops = Hz UseAfterFree.
Proof. exact self_set_refuted_full. Qed.
Print Assumptions c02_self_set_refuted.

(* ======== extension round ========
   The model now also contains DmxBuffer(const std::string&) (ONewStr), operator!= (QNe), SetFromString on
   ARBITRARY text (OSetFromString text: StringSplit at ',' + atoi per item + store as a byte, with glibc's
   white-space / sign / stop-character / LONG_MIN..LONG_MAX saturation behaviour) and pointer arguments
   that point into another buffer's storage (OSetRaw: a.Set(b.GetRaw()+k, n); OSetRangeRaw:
   a.SetRange(off, b.GetRaw()+k, n); a <> b and k+n <= b.Size() are the caller's contract and are
   checked like the lifetime preconditions).  c02_inv, c02_refines, c02_refines_run, c02_independent,
   c02_memsafe, c02_bounds, c02_fail_pure above quantify over these as well. *)

(* Histories with their return values: every operation of every history returns exactly what the value
   model returns (true / false / void / skipped), and the final states correspond. *)
Theorem c02_refines_trace : forall fresh slots ops,
  Forall op_ok ops ->
  exists s, ctrace fresh (init_st slots) ops = Ok (s, atrace (repeat None slots) ops) /\
            inv s /\ abs s = arun (repeat None slots) ops.
Proof. exact trace_full. Qed.
Print Assumptions c02_refines_trace.

(* The contents of freshly allocated (uninitialised) memory never show: two runs of the same history
   over different memory contents return the same values and answer every read identically. *)
Theorem c02_uninit_invisible : forall fresh1 fresh2 slots ops q,
  Forall op_ok ops ->
  exists s1 s2 rets a,
    ctrace fresh1 (init_st slots) ops = Ok (s1, rets) /\ ctrace fresh2 (init_st slots) ops = Ok (s2, rets) /\
    cquery s1 q = Ok a /\ cquery s2 q = Ok a.
Proof. exact uninit_invisible_full. Qed.
Print Assumptions c02_uninit_invisible.

(* Every slot ever readable is a byte, provided callers pass bytes (uint8_t arrays, std::string
   characters, uint8_t values): an invariant of reachable states, proved from the initial state. *)
Theorem c02_slots_are_bytes : forall fresh slots ops i,
  Forall op_ok ops -> Forall op_bytes ops ->
  exists s, crun fresh (init_st slots) ops = Ok s /\
    (is_live s i = true -> exists l, cquery s (QGetStr i) = Ok (ABytes l) /\ bytes_ok l = true).
Proof. exact slots_are_bytes_full. Qed.
Print Assumptions c02_slots_are_bytes.

(* Text conversion round trip, after every history: feeding ToString() of any live buffer j to
   SetFromString of any live buffer i (i = j included, shared or not) succeeds and makes i hold
   exactly j's slots; j's own slots are what they were. *)
Theorem c02_text_roundtrip : forall fresh slots ops i j,
  Forall op_ok ops -> Forall op_bytes ops ->
  exists s, crun fresh (init_st slots) ops = Ok s /\
    (is_live s i = true -> is_live s j = true ->
     exists text s', cquery s (QToString j) = Ok (ABytes text) /\
       cstep fresh s (OSetFromString i text) = Ok (s', RBool true) /\
       aget (abs s') i = Some (contents (aget (abs s) j)) /\
       forall k, cquery s' (QGetStr i) = Ok (ABytes k) -> cquery s (QGetStr j) = Ok (ABytes k)).
Proof. exact text_roundtrip_full. Qed.
Print Assumptions c02_text_roundtrip.

(* SetFromString on text in the documented format ("0,1,2", ",,,,,255,255,128", "1,2,"): items are
   separated by commas, an item is a value 0..255 in decimal or empty (a dropped zero); the buffer then
   holds one slot per item with that value (0 for a dropped one), at most the first 512. *)
Theorem c02_text_documented : forall fresh s i items,
  inv s -> is_live s i = true ->
  forallb item_ok items = true -> join_items (map item_text items) <> [] ->
  exists s', cstep fresh s (OSetFromString i (join_items (map item_text items))) = Ok (s', RBool true) /\
             inv s' /\ aget (abs s') i = Some (take 512 (map item_val items)).
Proof. exact sfs_documented_step. Qed.
Print Assumptions c02_text_documented.

(* No leak, constructively: after ANY history, running the destructor of every slot leaves no live
   object and no live heap block. *)
Theorem c02_destroy_all : forall fresh slots ops,
  Forall op_ok ops ->
  exists s, crun fresh (init_st slots) (ops ++ destroy_all slots) = Ok s /\
            (forall i, is_live s i = false) /\ (forall id, hget (heap s) id = None).
Proof. exact destroy_all_full. Qed.
Print Assumptions c02_destroy_all.

(* The plugins' idiom a.SetRange(0, b.GetRaw(), b.Size()) (a pointer INTO b's block) from any aliasing
   state, a and b possibly sharing that very block: a (initialised, not longer than b) becomes a copy
   of b and b keeps its value.  (The general effect of raw-pointer arguments is part of c02_refines.) *)
Theorem c02_raw_pointer_copy : forall fresh s i j l c,
  inv s -> i <> j ->
  is_live s i = true -> is_live s j = true -> aget (abs s) j = Some l -> aget (abs s) i = Some c ->
  len c <= len l ->
  exists s', cstep fresh s (OSetRangeRaw i 0 j 0 (len l)) = Ok (s', RBool true) /\ inv s' /\
             aget (abs s') i = Some l /\ aget (abs s') j = Some l.
Proof. exact raw_copy_step. Qed.
Print Assumptions c02_raw_pointer_copy.

(* ======== wave 6: every way C++ copies, assigns or moves a whole buffer ========
   A DmxBuffer is a value, so an expression that assigns from a temporary or a by-value return, swaps two
   buffers, or shuffles buffers inside a container MEANS the corresponding copy constructions, copy
   assignments and destructions (Spec.assign_temp_ops / swap_ops / erase_ops; for the class as it is --
   no move members -- that is also literally what the compiler emits).  The harness executes the C++
   expressions themselves (x = DmxBuffer(y), x = Snapshot(y), std::swap, std::vector push_back / insert /
   erase / resize / reserve / std::reverse), the model these sequences; should move members be added,
   the same observations are demanded of them.  t is the slot of the expression's temporary. *)

(* x = T(y) / x = f(y) from ANY aliasing state (x, y sharing or not, x == y included): x gets y's value,
   everything else -- y, every other buffer, the temporary's slot -- is as before. *)
Theorem c02_assign_from_temporary : forall fresh s t i j,
  inv s -> is_raw s t = true -> is_live s i = true -> is_live s j = true -> t <> i -> t <> j ->
  exists s', crun fresh s (assign_temp_ops t i j) = Ok s' /\ inv s' /\
             abs s' = upd (abs s) i (Some (aget (abs s) j)).
Proof. exact assign_temp_full. Qed.
Print Assumptions c02_assign_from_temporary.

(* ... and an in-place write into x afterwards does not reach y (nor anybody else): the case that a move
   assignment which forgets the copy-on-write flag gets wrong. *)
Theorem c02_assign_from_temporary_then_write : forall fresh s t i j ch v,
  inv s -> is_raw s t = true -> is_live s i = true -> is_live s j = true -> t <> i -> t <> j -> i <> j ->
  exists s', crun fresh s (assign_temp_ops t i j ++ [OSetChannel i ch v]) = Ok s' /\ inv s' /\
             nth_error (abs s') j = nth_error (abs s) j /\
             (forall q, (forall x, In x (query_slots q) -> x <> i /\ x <> t) -> cquery s' q = cquery s q).
Proof. exact assign_temp_then_write_full. Qed.
Print Assumptions c02_assign_from_temporary_then_write.

(* std::swap(a, b) from any aliasing state (a == b included): the two values are exchanged, nothing else
   changes. *)
Theorem c02_swap : forall fresh s t a b,
  inv s -> is_raw s t = true -> is_live s a = true -> is_live s b = true -> t <> a -> t <> b ->
  exists s', crun fresh s (swap_ops t a b) = Ok s' /\ inv s' /\
             abs s' = upd (upd (abs s) a (Some (aget (abs s) b))) b (Some (aget (abs s) a)).
Proof. exact swap_full. Qed.
Print Assumptions c02_swap.

(* container.erase(k) over n live elements at slots base..base+n-1, whatever they share with each other
   or with buffers outside: the elements behind k move one position down with their values, the last
   slot becomes raw storage, every other slot keeps its value. *)
Theorem c02_container_erase : forall fresh s base k n,
  inv s -> (k < n)%nat -> (forall m, (m < n)%nat -> is_live s (base + m) = true) ->
  exists s', crun fresh s (erase_ops base k n) = Ok s' /\ inv s' /\
    (forall x, nth_error (abs s') x =
       if Nat.eqb x (base + n - 1) then Some None
       else if (Nat.leb (base + k) x && Nat.ltb x (base + n - 1))%bool then nth_error (abs s) (x + 1)
       else nth_error (abs s) x).
Proof. exact erase_full. Qed.
Print Assumptions c02_container_erase.

(* ======== wave 7: operator<< on a stream that carries format state ========
   The stream operator is the insertion of the ToString() text as ONE string.  After every history, for
   every stream width / fill / adjustment: the characters written are exactly ToString()'s, padded once
   as a whole up to the width (so: exactly ToString() whenever the width does not exceed its length,
   in particular for width 0), and the width is 0 afterwards.  No other stream state (base, showbase,
   showpos, uppercase, precision, numeric locale) is an input of the model at all: the harness runs the
   real operator on streams carrying such state and compares text and stream state after the call. *)
Theorem c02_stream_text : forall fresh slots ops i w fl adj,
  Forall op_ok ops ->
  exists s, crun fresh (init_st slots) ops = Ok s /\
    (is_live s i = true ->
     exists text, cquery s (QToString i) = Ok (ABytes text) /\
       cquery s (QStream i w fl adj) = Ok (ABytes (pad_text w fl adj text)) /\
       (w <= len text -> cquery s (QStream i w fl adj) = Ok (ABytes text)) /\
       len (pad_text w fl adj text) = N.max w (len text) /\
       width_after_insert w = 0).
Proof. exact stream_text_full. Qed.
Print Assumptions c02_stream_text.

(* ======== final round ========
   operator== / operator!= are exactly "same Size() and same slots", after every history and whatever the
   two buffers share: the same block with different lengths (one alias Reset()), different blocks with the
   same bytes, the same block, no block at all. *)
Theorem c02_equality_exact : forall fresh slots ops i j,
  Forall op_ok ops ->
  exists s, crun fresh (init_st slots) ops = Ok s /\
    (is_live s i = true -> is_live s j = true ->
     exists li lj, cquery s (QGetStr i) = Ok (ABytes li) /\ cquery s (QGetStr j) = Ok (ABytes lj) /\
       (cquery s (QEq i j) = Ok (ABool true) <-> li = lj) /\
       (cquery s (QEq i j) = Ok (ABool false) <-> li <> lj) /\
       (cquery s (QNe i j) = Ok (ABool true) <-> li <> lj)).
Proof. exact equality_exact_full. Qed.
Print Assumptions c02_equality_exact.

(* The documented text format with items as atoi reads them (extends c02_text_documented): an item is
   either blank (nothing or white space only: a dropped zero) or optional white space, any number of
   leading zeros, a value 0..255 in decimal, then anything that does not start with a digit and holds
   no comma (trailing blanks, a stop character).  One slot per item with that value, the first 512.
   Covers every item of the header's examples and of DmxBufferTest::testStringToDmx except the
   out-of-range "266" (finding C20-dmx-atoi-truncation). *)
Theorem c02_text_documented_general : forall fresh s i items,
  inv s -> is_live s i = true ->
  forallb gitem_ok items = true -> join_items (map gitem_text items) <> [] ->
  exists s', cstep fresh s (OSetFromString i (join_items (map gitem_text items))) = Ok (s', RBool true) /\
             inv s' /\ aget (abs s') i = Some (take 512 (map gitem_val items)).
Proof. exact sfs_documented_general_step. Qed.
Print Assumptions c02_text_documented_general.

(* ---- the hypotheses are satisfiable, the model computes *)
Example c02_ex_inv : inv (init_st 4).
Proof. exact (inv_init 4). Qed.

Example c02_ex_ops_ok :
  Forall op_ok [ONewData 0 (XExt [1; 2; 3]) 3; OCopyNew 1 0; OSetChannel 1 1 9; OHTPMerge 0 1;
                ODestroy 1; OSetBuf 0 0; OSetRange 0 3 (XExt [7; 8]) 2].
Proof. repeat constructor; cbn; lia. Qed.

(* copy, write through the copy, merge back, destroy the copy, self-Set, append: value model and
   implementation model agree, the original was not disturbed by the write through the copy *)
Example c02_ex_run :
  arun (repeat None 2)
       [ONewData 0 (XExt [1; 2; 3]) 3; OCopyNew 1 0; OSetChannel 1 1 9]
  = [Some (Some [1; 2; 3]); Some (Some [1; 9; 3])] /\
  (exists s, crun [] (init_st 2)
       [ONewData 0 (XExt [1; 2; 3]) 3; OCopyNew 1 0; OSetChannel 1 1 9; OHTPMerge 0 1;
        ODestroy 1; OSetBuf 0 0; OSetRange 0 3 (XExt [7; 8]) 2] = Ok s /\
     abs s = [Some (Some [1; 9; 3; 7; 8]); None] /\ live_blocks s = 1%nat).
Proof. split; [reflexivity|]. eexists. split; [vm_compute; reflexivity|]. split; vm_compute; reflexivity. Qed.

(* the header's own example ",,,,,255,255,128", DmxBufferTest's " 266 ,,,10  ", an out-of-range item
   (finding C20-dmx-atoi-truncation: 300 is stored as 44), a sign and a stop character, as the model
   computes them *)
Example c02_ex_text :
  join_items (map item_text [None; None; None; None; None; Some 255; Some 255; Some 128])
    = [44; 44; 44; 44; 44; 50; 53; 53; 44; 50; 53; 53; 44; 49; 50; 56] /\
  sfs_values [44; 44; 44; 44; 44; 50; 53; 53; 44; 50; 53; 53; 44; 49; 50; 56] = [0; 0; 0; 0; 0; 255; 255; 128] /\
  sfs_values [32; 50; 54; 54; 32; 44; 44; 44; 49; 48; 32; 32] = [10; 0; 0; 10] /\
  sfs_values [51; 48; 48; 44; 45; 49; 44; 49; 120] = [44; 255; 1].
Proof. repeat split; vm_compute; reflexivity. Qed.

Example c02_ex_ops_bytes :
  Forall op_bytes [ONewStr 0 [1; 2; 255]; OCopyNew 1 0; OSetChannel 1 1 9; OSetFromString 0 [49; 44; 50]].
Proof. repeat constructor; cbn; lia. Qed.

(* a shared pair, the raw-pointer copy between them, and the destructors: a concrete non-trivial state
   meeting the hypotheses of c02_raw_pointer_copy / c02_destroy_all *)
Example c02_ex_raw :
  exists s, crun [] (init_st 3)
       [ONewStr 0 [1; 2; 3]; OCopyNew 1 0; OSetChannel 1 3 9; OCopyNew 2 1; OSetRangeRaw 0 0 2 0 4] = Ok s /\
     abs s = [Some (Some [1; 2; 3; 9]); Some (Some [1; 2; 3; 9]); Some (Some [1; 2; 3; 9])] /\
     live_blocks s = 2%nat.
Proof. eexists. split; [vm_compute; reflexivity|]. split; vm_compute; reflexivity. Qed.

(* the demo of seeded change C02f-2 in the model: master shared with an alias, work = T(master), write
   into work, swap the alias with a private buffer and write into that, erase from a "vector" (slots 4..6) *)
Example c02_ex_expressions :
  exists s, crun [] (init_st 8)
      ([ONewStr 0 [1; 2; 3; 4]; OCopyNew 1 0; ONewStr 2 [9; 9]] ++ assign_temp_ops 7 2 0 ++ [OSetChannel 2 0 77]
       ++ swap_ops 7 1 2 ++ [OSetChannel 2 3 200]
       ++ [OCopyNew 4 2; OCopyNew 5 0; OCopyNew 6 0] ++ erase_ops 4 0 3 ++ [OSetChannel 4 0 5]) = Ok s /\
    abs s = [Some (Some [1; 2; 3; 4]); Some (Some [77; 2; 3; 4]); Some (Some [1; 2; 3; 200]); None;
             Some (Some [5; 2; 3; 4]); Some (Some [1; 2; 3; 4]); None; None].
Proof. eexists. split; vm_compute; reflexivity. Qed.

(* "0,9,10,255" through a stream with width 14, fill '*': right adjusted, left adjusted, and width 3 *)
Example c02_ex_stream :
  pad_text 14 42 0 (join_dec [0; 9; 10; 255]) = [42; 42; 42; 42; 48; 44; 57; 44; 49; 48; 44; 50; 53; 53] /\
  pad_text 14 42 1 (join_dec [0; 9; 10; 255]) = [48; 44; 57; 44; 49; 48; 44; 50; 53; 53; 42; 42; 42; 42] /\
  pad_text 3 42 0 (join_dec [0; 9; 10; 255]) = join_dec [0; 9; 10; 255] /\ pad_text 2 46 1 [] = [46; 46].
Proof. repeat split; vm_compute; reflexivity. Qed.

(* copy, Reset() one alias (same block, lengths 3 and 0): unequal; Reset() the other too (same block, both
   empty): equal; a longer buffer with the same prefix: unequal; an emptied buffer equals a never initialised one *)
Example c02_ex_equality :
  (exists s, crun [] (init_st 4) [ONewStr 0 [1; 2; 3]; OCopyNew 1 0; OReset 1] = Ok s /\
     cquery s (QEq 0 1) = Ok (ABool false) /\ cquery s (QNe 0 1) = Ok (ABool true) /\
     internals s 0 = Some (Some 0%nat, true, 2%nat) /\ internals s 1 = Some (Some 0%nat, true, 2%nat)) /\
  (exists s, crun [] (init_st 4) [ONewStr 0 [1; 2; 3]; OCopyNew 1 0; OReset 1; OReset 0;
                                  ONewStr 2 [1; 2; 3]; ONewStr 3 [1; 2; 3]; OSetChannel 3 3 0] = Ok s /\
     cquery s (QEq 0 1) = Ok (ABool true) /\ cquery s (QEq 2 3) = Ok (ABool false) /\
     cquery s (QEq 1 2) = Ok (ABool false)) /\
  (exists s, crun [] (init_st 4) [ONewStr 0 [1; 2; 3]; ONewStr 1 [1; 2; 3]; ONew 2; ONew 3; OReset 0] = Ok s /\
     cquery s (QEq 0 1) = Ok (ABool false) /\ cquery s (QEq 2 3) = Ok (ABool true) /\
     cquery s (QEq 0 2) = Ok (ABool true) /\
     internals s 0 = Some (Some 0%nat, false, 1%nat) /\ internals s 2 = Some (None, false, 0%nat)).
Proof. split; [|split]; eexists; repeat split; vm_compute; reflexivity. Qed.

(* " 007 ,,\t10x,255  " : blanks, leading zeros, a stop character, trailing blanks *)
Example c02_ex_text_general :
  let items := [GNum [32] 2 7 [32]; GBlank []; GNum [9] 0 10 [120]; GNum [] 0 255 [32; 32]] in
  forallb gitem_ok items = true /\
  join_items (map gitem_text items) = [32; 48; 48; 55; 32; 44; 44; 9; 49; 48; 120; 44; 50; 53; 53; 32; 32] /\
  sfs_values (join_items (map gitem_text items)) = [7; 0; 10; 255].
Proof. repeat split; vm_compute; reflexivity. Qed.
