(* C02 — DMX buffers are independent values of 0..512 slots; copy-on-write is invisible.
   Only theorem statements; proofs are in Lemmas/Inv/Prims/Dup/Ops/Step/Htp/Proofs.v.

   Concrete model (Model.v): heap of reference-counted 512-byte blocks + pool of DmxBuffer objects
   {m_blk, m_cow, m_len}, every method of common/utils/DmxBuffer.cpp (with fixes/01-self-set-guard.diff).
   `cstep fresh s o` runs one operation `o` (constructors and the destructor included; `other`
   arguments are pool indices, so self-operations are ordinary cases) and returns `Ok (s', ret)` or a
   hazard `Hz UseAfterFree | Oob | NullDeref | RcUnderflow | Overlap | DeadObject`.  `fresh` is the
   content of newly allocated (uninitialised) memory; every theorem holds for every `fresh`.
   Value model (Spec.v): a pool is a list of slots, raw (`None`) or holding a value
   `None | Some slots` (never-initialised | list of 0..512 slots); `astep` rewrites only the target.
   `op_ok o` is the caller's side of the C++ contract: an array passed with a length really holds the
   bytes the call reads (min(length,512), resp. min(length,512-offset)). *)
From OlaBase Require Import Bytes.
From C02 Require Import Gen Model Spec Lemmas Inv Proofs.
Local Open Scope N_scope.

(* the regenerated constants are the property's numbers *)
Theorem c02_consts : DMX_UNIVERSE_SIZE = 512 /\ DMX_MIN_SLOT_VALUE = 0.
Proof. split; reflexivity. Qed.
Print Assumptions c02_consts.

(* Heap invariant after EVERY history on EVERY pool size: the run never reaches a hazard, and in the
   reached state every non-null block pointer is live, sizes are <= 512, a buffer whose copy-on-write
   flag is clear is the only referrer of its block, every live block has 512 bytes and a reference
   count equal to the number of buffers pointing at it, which is at least 1. *)
Theorem c02_inv : forall fresh slots ops,
  Forall op_ok ops ->
  exists s, crun fresh (init_st slots) ops = Ok s /\
    (forall i b, nth_error (pool s) i = Some (Some b) ->
       match m_blk b with
       | None => m_len b = 0
       | Some id => exists k, hget (heap s) id = Some k /\ m_len b <= 512 /\
                              (m_cow b = false -> b_rc k = 1%nat)
       end) /\
    (forall id k, hget (heap s) id = Some k ->
       len (b_data k) = 512 /\ b_rc k = refs id (pool s) /\ (1 <= b_rc k)%nat).
Proof. exact inv_run_full. Qed.
Print Assumptions c02_inv.

(* Refinement, one step from any state satisfying the invariant: the implementation model does not
   fail, re-establishes the invariant, returns what the value model returns, and its abstraction is
   the value model's next state. *)
Theorem c02_refines : forall fresh s o,
  inv s -> op_ok o ->
  exists s' r, cstep fresh s o = Ok (s', r) /\ inv s' /\
               abs s' = fst (astep (abs s) o) /\ r = snd (astep (abs s) o).
Proof. exact step_correct. Qed.
Print Assumptions c02_refines.

(* Refinement, whole histories and every read: after any sequence of operations on a fresh pool,
   every const member function (Size, Get(i), Get(buf,&n), GetRange, Get(), ToString, ==) of the
   implementation model answers exactly what the value model answers -- in particular the answer
   does not depend on sharing, reference counts or the contents of uninitialised memory. *)
Theorem c02_refines_run : forall fresh slots ops q,
  Forall op_ok ops ->
  exists s, crun fresh (init_st slots) ops = Ok s /\
            abs s = arun (repeat None slots) ops /\
            cquery s q = Ok (aquery (arun (repeat None slots) ops) q).
Proof. exact refines_run_full. Qed.
Print Assumptions c02_refines_run.

(* Independence: an operation aimed at buffer `target o` (any mutator, assignment, copy
   construction, destruction; `other` may be any buffer including the target itself) leaves the
   value of every other slot, and the answer to every read that does not involve the target,
   unchanged -- whatever the aliasing pattern of the state it is applied to. *)
Theorem c02_independent : forall fresh s o s' r,
  inv s -> op_ok o -> cstep fresh s o = Ok (s', r) ->
  (forall j, j <> target o -> nth_error (abs s') j = nth_error (abs s) j) /\
  (forall q, (forall j, In j (query_slots q) -> j <> target o) -> cquery s' q = cquery s q).
Proof. exact independent_full. Qed.
Print Assumptions c02_independent.

(* Memory safety: from a state satisfying the invariant no operation and no read reaches a
   use-after-free, an access outside a block or outside the caller's array, a null dereference, a
   reference-count underflow or an overlapping memcpy; and nothing leaks: after any history, if no
   buffer object is alive then no block is. *)
Theorem c02_memsafe :
  (forall fresh s o h, inv s -> op_ok o -> cstep fresh s o <> Hz h) /\
  (forall s q h, inv s -> cquery s q <> Hz h) /\
  (forall fresh slots ops, Forall op_ok ops ->
     exists s, crun fresh (init_st slots) ops = Ok s /\
               ((forall i, is_live s i = false) -> forall id, hget (heap s) id = None)).
Proof. exact memsafe_full. Qed.
Print Assumptions c02_memsafe.

(* Bounds: in every state satisfying the invariant (hence after every history) Size() <= 512,
   Get(channel) with channel >= Size() is 0, GetRange from a slot >= Size() yields no data, the
   array Get copies min(asked, Size()) bytes and the string Get has Size() bytes. *)
Theorem c02_bounds : forall s i,
  inv s -> is_live s i = true ->
  exists n, cquery s (QSize i) = Ok (ANum n) /\ n <= 512 /\
    (forall ch, n <= ch -> cquery s (QGetCh i ch) = Ok (ANum 0)) /\
    (forall slot k, n <= slot -> cquery s (QGetRange i slot k) = Ok (ABytes [])) /\
    (forall k, exists l, cquery s (QGetBuf i k) = Ok (ABytes l) /\ len l = N.min k n) /\
    (exists l, cquery s (QGetStr i) = Ok (ABytes l) /\ len l = n).
Proof. exact reads_outside. Qed.
Print Assumptions c02_bounds.

(* Failure is pure: an operation that reports failure (returns false), or is skipped because an
   object-lifetime precondition does not hold, leaves every value and every observation unchanged. *)
Theorem c02_fail_pure : forall fresh s o s' r,
  inv s -> op_ok o -> cstep fresh s o = Ok (s', r) -> r = RBool false \/ r = RSkip ->
  abs s' = abs s /\ forall q, cquery s' q = cquery s q.
Proof. exact step_fail_pure. Qed.
Print Assumptions c02_fail_pure.

(* The unfixed tree: with Set(const DmxBuffer&) as it was (no self guard), a contract-respecting
   history reaches a use-after-free: construct b, copy it, destroy the copy, b.Set(b).
   (ASan reports the same on /repo without fixes/01-self-set-guard.diff.) *)
Theorem c02_self_set_refuted :
  exists ops, Forall op_ok ops /\ crun_unfixed [] (init_st 2) ops = Hz UseAfterFree.
Proof. exact self_set_refuted_full. Qed.
Print Assumptions c02_self_set_refuted.

(* ---- the hypotheses are satisfiable, the model computes *)
Example c02_ex_inv : inv (init_st 4).
Proof. exact (inv_init 4). Qed.

Example c02_ex_ops_ok :
  Forall op_ok [ONewData 0 (XExt [1; 2; 3]) 3; OCopyNew 1 0; OSetChannel 1 1 9; OHTPMerge 0 1;
                ODestroy 1; OSetBuf 0 0; OSetRange 0 3 (XExt [7; 8]) 2].
Proof. repeat constructor; cbn; lia. Qed.

(* copy, write through the copy, merge back, destroy the copy, self-Set, append: value model and
   implementation model agree, the original was not disturbed by the write through the copy *)
Example c02_ex_run :
  arun (repeat None 2)
       [ONewData 0 (XExt [1; 2; 3]) 3; OCopyNew 1 0; OSetChannel 1 1 9]
  = [Some (Some [1; 2; 3]); Some (Some [1; 9; 3])] /\
  (exists s, crun [] (init_st 2)
       [ONewData 0 (XExt [1; 2; 3]) 3; OCopyNew 1 0; OSetChannel 1 1 9; OHTPMerge 0 1;
        ODestroy 1; OSetBuf 0 0; OSetRange 0 3 (XExt [7; 8]) 2] = Ok s /\
     abs s = [Some (Some [1; 9; 3; 7; 8]); None] /\ live_blocks s = 1%nat).
Proof. split; [reflexivity|]. eexists. split; [vm_compute; reflexivity|]. split; vm_compute; reflexivity. Qed.
