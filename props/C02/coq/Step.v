(* C02 — every pool operation: no hazard, invariant kept, commutes with the abstraction *)
From OlaBase Require Import Bytes.
From C02 Require Import Gen Model Spec Lemmas Inv Prims Dup Ops.
Local Open Scope N_scope.

Definition refines_step (fresh : list N) (s : st) (o : op) : Prop :=
  exists s' r, cstep fresh s o = Ok (s', r) /\ inv s' /\
               abs s' = fst (astep (abs s) o) /\ r = snd (astep (abs s) o).

Lemma is_raw_nth s i : is_raw s i = true <-> nth_error (pool s) i = Some None.
Proof. unfold is_raw. destruct (nth_error (pool s) i) as [[b|]|]; split; intros H; try discriminate; auto. Qed.
Lemma not_live_getb s i : is_live s i = false -> forall b, getb s i <> Ok b.
Proof. intros H b Hb. assert (is_live s i = true) by (apply is_live_getb; eauto). congruence. Qed.

Lemma construct_default s i :
  inv s -> is_raw s i = true ->
  let s0 := setb s i default_buf in
  inv s0 /\ abs s0 = upd (abs s) i (Some None) /\ getb s0 i = Ok default_buf /\
  (forall j b, getb s j = Ok b -> getb s0 j = Ok b /\ j <> i) /\ heap s0 = heap s.
Proof.
  intros Hi Hr. apply is_raw_nth in Hr. cbn zeta. unfold setb.
  split; [|split; [|split; [|split]]].
  - apply (inv_change s i None (Some default_buf) (heap s)); auto.
    + intros id k' Hk. destruct (inv_blk _ _ _ Hi Hk) as (L & _ & G). repeat split; auto.
      unfold rcold. rewrite Hk. reflexivity.
    + apply others_pres_refl; auto.
    + intros b E. inversion E; subst. reflexivity.
  - rewrite (abs_change s i None (Some default_buf) (heap s)); auto. apply others_pres_refl; auto.
  - apply getb_upd_eq. eapply nth_some_lt; eauto.
  - intros j b Hj. assert (j <> i). { intros ->. apply getb_nth in Hj. congruence. }
    split; auto. apply getb_nth. cbn. rewrite nth_upd_neq by auto. apply getb_nth. auto.
  - reflexivity.
Qed.

Lemma frame_abs_buf s s1 i j o :
  inv s -> frame s s1 i -> j <> i -> getb s j = Ok o ->
  getb s1 j = Ok o /\ abs_buf (heap s1) o = abs_buf (heap s) o.
Proof.
  intros Hi F Hn Ho. destruct (F j o Hn Ho) as (Ho1 & D). split; auto.
  pose proof (buf_view s j o Hi Ho) as V. unfold abs_buf. destruct (m_blk o) as [id|]; auto.
  destruct V as (k & Hk & _). destruct (D id k eq_refl Hk) as (k' & Hk' & E). rewrite Hk, Hk', E. reflexivity.
Qed.

Lemma take_min_len {A} n (l : list A) : take (N.min (len l) n) l = take n l.
Proof.
  destruct (N.le_gt_cases (len l) n).
  - rewrite !take_all by lia. reflexivity.
  - f_equal. lia.
Qed.

Section WithFresh.
Variable fresh : list N.
Notation RS := (refines_step fresh).

Ltac skip_case := eexists _, _; split; [reflexivity|]; split; [assumption|]; split; reflexivity.

Lemma op_new s i : inv s -> RS s (ONew i).
Proof.
  intros Hi. unfold refines_step, cstep, astep. rewrite a_raw_abs.
  destruct (is_raw s i) eqn:Er; [|skip_case].
  destruct (construct_default s i Hi Er) as (I0 & A0 & _).
  eexists _, _. split; [reflexivity|]. cbn [fst snd]. auto.
Qed.

Lemma op_copynew s i j : inv s -> RS s (OCopyNew i j).
Proof.
  intros Hi. unfold refines_step, cstep, astep. rewrite a_raw_abs, a_live_abs.
  destruct (is_raw s i) eqn:Er; [|skip_case].
  destruct (is_live s j) eqn:Ej; [|skip_case]. cbn [andb].
  apply is_live_getb in Ej as (o & Ho).
  destruct (construct_default s i Hi Er) as (I0 & A0 & G0 & F0 & H0). cbn zeta in *.
  destruct (F0 j o Ho) as (Ho0 & Hn). rewrite Ho0. cbn [bind].
  rewrite (aget_abs s j o Ho). cbn [fst snd].
  pose proof (buf_view s j o Hi Ho) as V. destruct (m_blk o) as [id|] eqn:Eo.
  - destruct (copy_spec _ i j _ o id I0 (not_eq_sym Hn) G0 eq_refl Ho0 Eo) as (s' & -> & I' & A').
    cbn [ru bind]. eexists _, _. split; [reflexivity|]. split; auto. split; auto.
    rewrite A', A0, upd_upd, H0. reflexivity.
  - destruct V as (_ & ->). eexists _, _. split; [reflexivity|]. auto.
Qed.

Lemma op_newdata s i p n : inv s -> op_ok (ONewData i p n) -> RS s (ONewData i p n).
Proof.
  intros Hi Hok. unfold refines_step, cstep, astep. rewrite a_raw_abs.
  destruct (is_raw s i) eqn:Er; [|skip_case].
  destruct (construct_default s i Hi Er) as (I0 & A0 & G0 & _ & _). cbn zeta in *.
  destruct p as [|l]; cbn [ptr_of_x a_set_ptr fst snd].
  - cbn [Set_ptr bind fst]. eexists _, _. split; [reflexivity|]. auto.
  - cbn in Hok. destruct (set_ptr_ext fresh _ i _ l n I0 G0 Hok) as (s' & -> & I' & A'). cbn [bind fst].
    eexists _, _. split; [reflexivity|]. split; auto. split; auto. rewrite A', A0, upd_upd. reflexivity.
Qed.

Lemma op_destroy s i : inv s -> RS s (ODestroy i).
Proof.
  intros Hi. unfold refines_step, cstep, astep. rewrite a_live_abs.
  destruct (is_live s i) eqn:El; [|skip_case].
  apply is_live_getb in El as (b & Hb).
  destruct (cleanup_spec s i b Hi Hb) as (s1 & -> & S1). cbn [bind].
  destruct S1 as (I1 & G1 & A1 & _). apply getb_nth in G1.
  eexists _, _. split; [reflexivity|]. cbn [fst snd]. split; [|split; auto].
  - apply (inv_change s1 i _ None (heap s1) I1 G1).
    + intros id k' Hk. destruct (inv_blk _ _ _ I1 Hk) as (L & _ & G). repeat split; auto.
      unfold rcold. rewrite Hk. reflexivity.
    + apply others_pres_refl; auto.
    + intros b0 E; discriminate.
  - rewrite (abs_change s1 i _ None (heap s1) G1) by (apply others_pres_refl; auto).
    cbn [option_map]. rewrite A1, upd_upd. reflexivity.
Qed.

Lemma op_assign s i j : inv s -> RS s (OAssign i j).
Proof.
  intros Hi. unfold refines_step, cstep, astep. rewrite !a_live_abs.
  destruct (is_live s i) eqn:El; [|skip_case].
  destruct (is_live s j) eqn:Ej; [|skip_case]. cbn [andb].
  apply is_live_getb in El as (b & Hb). apply is_live_getb in Ej as (o & Ho).
  rewrite (aget_abs s j o Ho). cbn [fst snd]. unfold Assign.
  destruct (Nat.eqb_spec i j) as [<-|Hn].
  - cbn [ru bind]. eexists _, _. split; [reflexivity|]. split; auto. split; auto.
    assert (o = b) by congruence. subst o. symmetry. apply abs_self. auto.
  - destruct (cleanup_spec s i b Hi Hb) as (s1 & -> & S1). cbn [bind].
    pose proof S1 as (I1 & G1 & A1 & F1).
    destruct (frame_abs_buf s s1 i j o Hi F1 (not_eq_sym Hn) Ho) as (Ho1 & E1).
    rewrite Ho1. cbn [bind].
    pose proof (buf_view s j o Hi Ho) as V. destruct (m_blk o) as [id|] eqn:Eo.
    + destruct (copy_spec s1 i j _ o id I1 Hn G1 eq_refl Ho1 Eo) as (s' & -> & I' & A').
      cbn [ru bind]. eexists _, _. split; [reflexivity|]. split; auto. split; auto.
      rewrite A', A1, upd_upd, E1. reflexivity.
    + destruct V as (_ & ->). cbn [ru bind]. eexists _, _. split; [reflexivity|]. split; auto.
Qed.

Lemma op_setbuf s i j : inv s -> RS s (OSetBuf i j).
Proof.
  intros Hi. unfold refines_step, cstep, astep. rewrite !a_live_abs.
  destruct (is_live s i) eqn:El; [|skip_case].
  destruct (is_live s j) eqn:Ej; [|skip_case]. cbn [andb].
  apply is_live_getb in El as (b & Hb). apply is_live_getb in Ej as (o & Ho).
  rewrite (aget_abs s j o Ho). unfold Set_buf, Set_buf_unfixed.
  pose proof (buf_view s j o Hi Ho) as V.
  destruct (Nat.eqb_spec i j) as [<-|Hn].
  - rewrite Hb. cbn [rb bind fst snd]. assert (o = b) by congruence. subst o.
    destruct (m_blk b) as [id|] eqn:Em.
    + destruct V as (k & _ & _ & _ & A & _). rewrite A. eexists _, _. split; [reflexivity|]. split; auto.
      split; auto. cbn [fst]. rewrite <- A. symmetry. apply abs_self. auto.
    + destruct V as (_ & ->). eexists _, _. split; [reflexivity|]. auto.
  - rewrite Ho. cbn [bind]. unfold ptr_of_buf. destruct (m_blk o) as [sid|] eqn:Eo.
    + destruct (set_ptr_blk fresh s i j b o sid Hi Hn Hb Ho Eo) as (s' & -> & I' & A').
      destruct V as (k & _ & _ & _ & A & _). rewrite A in *. cbn [rb bind fst snd].
      eexists _, _. split; [reflexivity|]. auto.
    + destruct V as (_ & ->). cbn [Set_ptr rb bind fst snd]. eexists _, _. split; [reflexivity|]. auto.
Qed.

Lemma op_setptr s i p n : inv s -> op_ok (OSetPtr i p n) -> RS s (OSetPtr i p n).
Proof.
  intros Hi Hok. unfold refines_step, cstep, astep. rewrite a_live_abs.
  destruct (is_live s i) eqn:El; [|skip_case].
  apply is_live_getb in El as (b & Hb). rewrite (aget_abs s i b Hb).
  destruct p as [|l]; cbn [ptr_of_x a_set_ptr fst snd].
  - cbn [Set_ptr rb bind fst snd]. eexists _, _. split; [reflexivity|]. split; auto. split; auto.
    symmetry. apply abs_self. auto.
  - cbn in Hok. destruct (set_ptr_ext fresh s i b l n Hi Hb Hok) as (s' & -> & I' & A').
    cbn [rb bind fst snd]. eexists _, _. split; [reflexivity|]. auto.
Qed.

Lemma op_setstr s i l : inv s -> RS s (OSetStr i l).
Proof.
  intros Hi. unfold refines_step, cstep, astep. rewrite a_live_abs.
  destruct (is_live s i) eqn:El; [|skip_case].
  apply is_live_getb in El as (b & Hb).
  destruct (set_ptr_ext fresh s i b l (len l) Hi Hb) as (s' & -> & I' & A'); [lia|].
  cbn [rb bind fst snd]. eexists _, _. split; [reflexivity|]. split; auto. split; auto.
  rewrite A', take_min_len. reflexivity.
Qed.

Lemma op_blackout s i : inv s -> RS s (OBlackout i).
Proof.
  intros Hi. unfold refines_step, cstep, astep. rewrite a_live_abs.
  destruct (is_live s i) eqn:El; [|skip_case].
  apply is_live_getb in El as (b & Hb).
  destruct (blackout_spec fresh s i b Hi Hb) as (s' & b' & id & k & -> & S' & _ & _ & _ & _ & A').
  cbn [rb bind fst snd]. eexists _, _. split; [reflexivity|].
  destruct (step_ok_abs _ _ _ _ _ S' A'). auto.
Qed.

Lemma op_reset s i : inv s -> RS s (OReset i).
Proof.
  intros Hi. unfold refines_step, cstep, astep. rewrite a_live_abs.
  destruct (is_live s i) eqn:El; [|skip_case].
  apply is_live_getb in El as (b & Hb). rewrite (aget_abs s i b Hb). unfold Reset. rewrite Hb. cbn [bind].
  pose proof (buf_view s i b Hi Hb) as V. destruct (m_blk b) as [id|] eqn:Em.
  - destruct V as (k & Hk & _ & _ & A & _). rewrite A.
    destruct (set_len_spec s i b 0 Hi Hb) as (s' & -> & Hh & S'); [congruence|lia|].
    cbn [ru bind fst snd]. eexists _, _. split; [reflexivity|].
    eapply step_ok_abs in S' as (I' & A'); [split; [exact I'|split; [exact A'|reflexivity]]|].
    unfold abs_buf. cbn [m_blk m_len]. rewrite Em, Hh, Hk. reflexivity.
  - destruct V as (_ & A). rewrite A. cbn [ru bind fst snd]. eexists _, _. split; [reflexivity|].
    split; auto. split; auto. rewrite <- A. symmetry. apply abs_self. auto.
Qed.

Lemma op_setrangetovalue s i off v n : inv s -> RS s (OSetRangeToValue i off v n).
Proof.
  intros Hi. unfold refines_step, cstep, astep. rewrite a_live_abs.
  destruct (is_live s i) eqn:El; [|skip_case].
  apply is_live_getb in El as (b & Hb). rewrite (aget_abs s i b Hb).
  unfold SetRangeToValue. change DMX_UNIVERSE_SIZE with 512.
  destruct (N.leb_spec 512 off) as [Hge|Hlt].
  - unfold a_range. destruct (N.leb_spec 512 off); [|lia]. cbn [rb bind fst snd].
    eexists _, _. split; [reflexivity|]. split; auto. split; auto. symmetry. apply abs_self. auto.
  - set (bytes := repeat v (N.to_nat (N.min n (512 - off)))).
    assert (Lb : len bytes = N.min n (512 - off)) by (unfold bytes; rewrite len_repeat; lia).
    destruct (range_core fresh s i b off bytes Hi Hb Hlt) as (s1 & b1 & -> & G1 & H); [lia|]. cbn [bind].
    rewrite G1. cbn [bind].
    assert (Er : a_range (abs_buf (heap s) b) off (fun room => repeat v (N.to_nat (N.min n room))) =
                 a_range (abs_buf (heap s) b) off (fun _ => bytes)).
    { unfold a_range. destruct (512 <=? off); auto. }
    rewrite Er. cbn zeta in H. destruct (m_len b1 <? off).
    + destruct H as (R & I1 & A1). cbn [rb bind fst snd]. eexists _, _. split; [reflexivity|]. rewrite R. auto.
    + destruct H as (R & s2 & b2 & id2 & s3 & -> & G2 & Em2 & HS & I3 & A3). subst bytes. cbn zeta.
      cbn [bind]. rewrite HS. cbn [rb bind fst snd].
      eexists _, _. split; [reflexivity|]. rewrite R. auto.
Qed.

Lemma op_setrange s i off p n : inv s -> op_ok (OSetRange i off p n) -> RS s (OSetRange i off p n).
Proof.
  intros Hi Hok. unfold refines_step, cstep, astep. rewrite a_live_abs.
  destruct (is_live s i) eqn:El; [|skip_case].
  apply is_live_getb in El as (b & Hb). rewrite (aget_abs s i b Hb).
  unfold SetRange. change DMX_UNIVERSE_SIZE with 512.
  destruct p as [|l]; cbn [ptr_of_x].
  { cbn [rb bind fst snd]. eexists _, _. split; [reflexivity|]. auto. }
  destruct (N.leb_spec 512 off) as [Hge|Hlt].
  - unfold a_range. destruct (N.leb_spec 512 off); [|lia]. cbn [rb bind fst snd].
    eexists _, _. split; [reflexivity|]. split; auto. split; auto. symmetry. apply abs_self. auto.
  - unfold op_ok in Hok. specialize (Hok Hlt).
    set (bytes := take (N.min n (512 - off)) l).
    assert (Lb : len bytes = N.min n (512 - off)) by (unfold bytes; rewrite len_take; lia).
    destruct (range_core fresh s i b off bytes Hi Hb Hlt) as (s1 & b1 & -> & G1 & H); [lia|]. cbn [bind].
    rewrite G1. cbn [bind].
    assert (Er : a_range (abs_buf (heap s) b) off (fun room => take (N.min n room) l) =
                 a_range (abs_buf (heap s) b) off (fun _ => bytes)).
    { unfold a_range. destruct (512 <=? off); auto. }
    rewrite Er. cbn zeta in H. destruct (m_len b1 <? off).
    + destruct H as (R & I1 & A1). cbn [rb bind fst snd]. eexists _, _. split; [reflexivity|]. rewrite R. auto.
    + destruct H as (R & s2 & b2 & id2 & s3 & -> & G2 & Em2 & HS & I3 & A3). cbn [bind].
      rewrite G2. cbn [bind]. rewrite Em2. unfold pread.
      destruct (N.leb_spec (N.min n (512 - off)) (len l)); [|lia]. subst bytes. cbn zeta. cbn [bind]. rewrite HS.
      cbn [rb bind fst snd]. eexists _, _. split; [reflexivity|]. rewrite R. auto.
Qed.

Lemma op_setchannel s i ch v : inv s -> RS s (OSetChannel i ch v).
Proof.
  intros Hi. unfold refines_step, cstep, astep. rewrite a_live_abs.
  destruct (is_live s i) eqn:El; [|skip_case].
  apply is_live_getb in El as (b & Hb). rewrite (aget_abs s i b Hb).
  unfold SetChannel. change DMX_UNIVERSE_SIZE with 512.
  destruct (N.leb_spec 512 ch) as [Hge|Hlt].
  - unfold a_range. destruct (N.leb_spec 512 ch); [|lia]. cbn [ru bind fst snd].
    eexists _, _. split; [reflexivity|]. split; auto. split; auto. symmetry. apply abs_self. auto.
  - destruct (range_core fresh s i b ch [v] Hi Hb Hlt) as (s1 & b1 & -> & G1 & H).
    { rewrite len_cons, len_nil. lia. }
    cbn [bind]. rewrite G1. cbn [bind]. cbn zeta in H. destruct (m_len b1 <? ch).
    + destruct H as (R & I1 & A1). cbn [ru bind fst snd]. eexists _, _. split; [reflexivity|]. auto.
    + destruct H as (R & s2 & b2 & id2 & s3 & -> & G2 & Em2 & HS & I3 & A3). cbn [bind]. rewrite HS.
      cbn [ru bind fst snd]. eexists _, _. split; [reflexivity|]. auto.
Qed.

Lemma op_setfromstring s i text : inv s -> RS s (OSetFromString i text).
Proof.
  intros Hi. unfold refines_step, cstep, astep. rewrite a_live_abs.
  destruct (is_live s i) eqn:El; [|skip_case].
  apply is_live_getb in El as (b & Hb). unfold SetFromString.
  destruct (own_block_spec fresh s i b Hi Hb) as (s2 & b2 & id & k & -> & S2 & Em & _ & Hk & Hrc). cbn [bind].
  pose proof S2 as (I2 & G2 & _ & _). change DMX_UNIVERSE_SIZE with 512.
  destruct (inv_blk _ _ _ I2 Hk) as (Lk & _).
  destruct text as [|x r].
  - destruct (set_len_spec s2 i b2 0 I2 G2) as (s3 & -> & Hh & S3); [congruence|lia|].
    cbn [rb bind fst snd]. eexists _, _. split; [reflexivity|].
    assert (S : step_ok s s3 i _) by (eapply step_ok_trans; eauto).
    eapply step_ok_abs in S as (I' & A'); [split; [exact I'|split; [exact A'|reflexivity]]|].
    unfold abs_buf. cbn [m_blk m_len]. rewrite Em, Hh, Hk. reflexivity.
  - set (w := take 512 (sfs_values (x :: r))).
    assert (Lw : len w <= 512) by (unfold w; rewrite len_take; lia).
    rewrite G2. cbn [bind]. rewrite Em.
    destruct (bwrite_spec s2 i b2 id k 0 w I2 G2 Em Hk Hrc) as (s3 & -> & S3 & Hk3); [lia|]. cbn [bind].
    pose proof S3 as (I3 & G3 & _ & _).
    destruct (set_len_spec s3 i b2 (len w) I3 G3) as (s4 & -> & Hh & S4); [congruence|lia|].
    cbn [rb bind fst snd]. eexists _, _. split; [reflexivity|].
    assert (S : step_ok s s4 i _) by (eapply step_ok_trans; [eauto|eapply step_ok_trans; eauto]).
    eapply step_ok_abs in S as (I' & A'); [split; [exact I'|split; [exact A'|reflexivity]]|].
    unfold abs_buf. cbn [m_blk m_len]. rewrite Em, Hh, Hk3. cbn [b_data]. f_equal.
    apply take_splice0. lia.
Qed.

Lemma op_newstr s i l : inv s -> RS s (ONewStr i l).
Proof.
  intros Hi. unfold refines_step, cstep, astep. rewrite a_raw_abs.
  destruct (is_raw s i) eqn:Er; [|skip_case].
  destruct (construct_default s i Hi Er) as (I0 & A0 & G0 & _ & _). cbn zeta in *.
  destruct (set_ptr_ext fresh _ i _ l (len l) I0 G0) as (s' & -> & I' & A'); [lia|]. cbn [bind fst snd].
  eexists _, _. split; [reflexivity|]. split; auto. split; auto.
  rewrite A', A0, upd_upd, take_min_len. reflexivity.
Qed.

End WithFresh.
