(* C02 — text conversion: what SetFromString makes of documented-format text, and ToString/SetFromString
   round trip.  Also: every stored slot is a byte (an invariant of the value model). *)
From OlaBase Require Import Bytes.
From C02 Require Import Gen Model Spec Lemmas.
Local Open Scope N_scope.

Definition nocomma (t : list N) : bool := forallb (fun c => negb (c =? 44)) t.

(* items joined with ',' ; mirrors join_dec *)
Fixpoint join_items (l : list (list N)) : list N :=
  match l with
  | [] => []
  | [x] => x
  | x :: r => x ++ 44 :: join_items r
  end.

Lemma join_dec_items l : join_dec l = join_items (map dec l).
Proof.
  induction l as [|x l IH]; [reflexivity|]. destruct l as [|y r]; [reflexivity|].
  change (join_dec (x :: y :: r)) with (dec x ++ 44 :: join_dec (y :: r)). rewrite IH. reflexivity.
Qed.

Lemma split_acc_comma t : forall cur rest,
  nocomma t = true -> split_acc cur (t ++ 44 :: rest) = (rev cur ++ t) :: split_acc [] rest.
Proof.
  induction t as [|c t IH]; intros cur rest H.
  - cbn. rewrite app_nil_r. reflexivity.
  - cbn in H. apply andb_prop in H as (Hc & Ht). cbn [app split_acc].
    destruct (c =? 44); [discriminate|]. rewrite IH by auto. cbn [rev]. rewrite <- app_assoc. reflexivity.
Qed.
Lemma split_acc_last t : forall cur, nocomma t = true -> split_acc cur t = [rev cur ++ t].
Proof.
  induction t as [|c t IH]; intros cur H.
  - cbn. rewrite app_nil_r. reflexivity.
  - cbn in H. apply andb_prop in H as (Hc & Ht). cbn [split_acc].
    destruct (c =? 44); [discriminate|]. rewrite IH by auto. cbn [rev]. rewrite <- app_assoc. reflexivity.
Qed.

Lemma split_join toks :
  toks <> [] -> forallb nocomma toks = true -> split_commas (join_items toks) = toks.
Proof.
  unfold split_commas. induction toks as [|t [|t2 r] IH]; intros Hne H; [congruence| |].
  - cbn in H. apply andb_prop in H as (Ht & _). cbn [join_items]. rewrite split_acc_last by auto. reflexivity.
  - cbn [forallb] in H. apply andb_prop in H as (Ht & Hr).
    change (join_items (t :: t2 :: r)) with (t ++ 44 :: join_items (t2 :: r)).
    rewrite split_acc_comma by auto. cbn [rev app]. f_equal. apply IH; [discriminate|exact Hr].
Qed.

(* ---- decimal items *)
Definition all_bytes : list N := map N.of_nat (seq 0 256).
Lemma in_all_bytes x : x < 256 -> In x all_bytes.
Proof.
  intros H. unfold all_bytes. apply in_map_iff. exists (N.to_nat x). split; [lia|]. apply in_seq. lia.
Qed.
Lemma dec_facts_all :
  forallb (fun x => (atoi8 (dec x) =? x) && nocomma (dec x) && negb (len (dec x) =? 0)) all_bytes = true.
Proof. vm_compute. reflexivity. Qed.
Lemma dec_facts x : x < 256 -> atoi8 (dec x) = x /\ nocomma (dec x) = true /\ dec x <> [].
Proof.
  intros H. pose proof dec_facts_all as A. rewrite forallb_forall in A. specialize (A x (in_all_bytes x H)).
  apply andb_prop in A as (A & A3). apply andb_prop in A as (A1 & A2). apply N.eqb_eq in A1.
  repeat split; auto. intros E. rewrite E in A3. discriminate.
Qed.

(* an item of documented-format text: a dropped zero, or a value 0..255 in decimal *)
Definition item_text (it : option N) : list N := match it with None => [] | Some v => dec v end.
Definition item_val (it : option N) : N := match it with None => 0 | Some v => v end.
Definition item_ok (it : option N) : bool := match it with None => true | Some v => v <? 256 end.

Lemma item_facts it : item_ok it = true -> atoi8 (item_text it) = item_val it /\ nocomma (item_text it) = true.
Proof.
  destruct it as [v|]; cbn [item_ok item_text item_val]; intros H.
  - apply N.ltb_lt in H. destruct (dec_facts v H) as (A & B & _). auto.
  - split; reflexivity.
Qed.

(* "0,1,2", ",,,,,255,255,128", "1,2," ... : each item denotes its value, a dropped item 0 *)
Lemma sfs_documented items :
  forallb item_ok items = true -> join_items (map item_text items) <> [] ->
  sfs_values (join_items (map item_text items)) = map item_val items.
Proof.
  intros Hok Hne. unfold sfs_values.
  destruct (join_items (map item_text items)) as [|c r] eqn:E; [congruence|]. rewrite <- E.
  assert (Hnn : map item_text items <> []). { destruct items; [cbn in E; discriminate|discriminate]. }
  rewrite split_join; auto.
  - rewrite map_map. apply map_ext_in. intros it Hin. rewrite forallb_forall in Hok.
    apply (item_facts it (Hok it Hin)).
  - rewrite forallb_forall. intros t Ht. apply in_map_iff in Ht as (it & <- & Hin).
    rewrite forallb_forall in Hok. apply (item_facts it (Hok it Hin)).
Qed.

(* SetFromString (ToString slots) = slots *)
Lemma sfs_join_dec l : bytes_ok l = true -> sfs_values (join_dec l) = l.
Proof.
  intros Hb. destruct l as [|x r]; [reflexivity|].
  rewrite join_dec_items.
  replace (map dec (x :: r)) with (map item_text (map Some (x :: r))) by (rewrite map_map; reflexivity).
  rewrite sfs_documented.
  - rewrite map_map. cbn [item_val]. apply map_id.
  - rewrite forallb_forall. intros it Hin. apply in_map_iff in Hin as (v & <- & Hv).
    unfold bytes_ok in Hb. rewrite forallb_forall in Hb. exact (Hb v Hv).
  - cbn [map]. cbn in Hb. apply andb_prop in Hb as (Hx & _). unfold byte_ok in Hx. apply N.ltb_lt in Hx.
    destruct (dec_facts x Hx) as (_ & _ & Hn). cbn [item_text].
    destruct (dec x) as [|c d] eqn:E; [congruence|]. destruct (map item_text (map Some r)); cbn; discriminate.
Qed.

(* ---- every slot a byte *)
Lemma atoi8_lt tok : atoi8 tok < 256.
Proof. unfold atoi8. destruct (skip_ws tok) as [|c r]; [cbn; lia|]. destruct c as [|p]; try lia.
  repeat (destruct p as [p|p|]; try lia). Qed.

Lemma bytes_ok_forall l : bytes_ok l = true <-> forall x, In x l -> x < 256.
Proof.
  unfold bytes_ok, byte_ok. rewrite forallb_forall. split; intros H x Hx; specialize (H x Hx); lia.
Qed.
Lemma bytes_ok_take n l : bytes_ok l = true -> bytes_ok (take n l) = true.
Proof. intros H. exact (proj1 (bytes_ok_take_drop n l H)). Qed.
Lemma bytes_ok_drop n l : bytes_ok l = true -> bytes_ok (drop n l) = true.
Proof. intros H. exact (proj2 (bytes_ok_take_drop n l H)). Qed.
Lemma bytes_ok_repeat v n : v < 256 -> bytes_ok (repeat v n) = true.
Proof. intros H. apply bytes_ok_forall. intros x Hx. apply repeat_spec in Hx. lia. Qed.
Lemma bytes_ok_sfs text : bytes_ok (sfs_values text) = true.
Proof.
  apply bytes_ok_forall. intros x Hx. unfold sfs_values in Hx. destruct text; [contradiction|].
  apply in_map_iff in Hx as (t & <- & _). apply atoi8_lt.
Qed.
Lemma bytes_ok_htp a : forall b, bytes_ok a = true -> bytes_ok b = true -> bytes_ok (htp a b) = true.
Proof.
  induction a as [|x a IH]; intros [|y b] Ha Hb; cbn [htp]; auto.
  cbn in Ha, Hb. apply andb_prop in Ha as (Hx & Ha). apply andb_prop in Hb as (Hy & Hb).
  cbn. rewrite IH by auto. unfold byte_ok in *. rewrite andb_true_r. lia.
Qed.
Lemma bytes_ok_store cur off bytes :
  bytes_ok cur = true -> bytes_ok bytes = true -> bytes_ok (a_store cur off bytes) = true.
Proof.
  intros H1 H2. unfold a_store. rewrite !bytes_ok_app, bytes_ok_take, H2, bytes_ok_drop by auto. reflexivity.
Qed.

(* the caller passes bytes (uint8_t arrays, std::string characters, uint8_t values) *)
Definition op_bytes (o : op) : Prop :=
  match o with
  | ONewData _ (XExt l) _ | OSetPtr _ (XExt l) _ | OSetRange _ _ (XExt l) _ | ONewStr _ l | OSetStr _ l =>
    bytes_ok l = true
  | OSetRangeToValue _ _ v _ | OSetChannel _ _ v => v < 256
  | _ => True
  end.

Definition abytes (A : astate) : Prop :=
  forall i l, nth_error A i = Some (Some (Some l)) -> bytes_ok l = true.

Lemma abytes_aget A i : abytes A -> bytes_ok (contents (aget A i)) = true.
Proof.
  intros H. unfold aget. destruct (nth_error A i) as [[[l|]|]|] eqn:E; cbn; auto. eapply H; eauto.
Qed.
Lemma abytes_upd A i x :
  abytes A -> (forall l, x = Some (Some l) -> bytes_ok l = true) -> abytes (upd A i x).
Proof.
  intros H Hx j l Hj. destruct (Nat.eq_dec i j) as [<-|Hn].
  - destruct (nth_error A i) eqn:E.
    + rewrite nth_upd_eq in Hj by (eapply nth_some_lt; eauto). inversion Hj; subst. auto.
    + assert (length (upd A i x) <= i)%nat by (rewrite upd_length; apply nth_error_None; auto).
      apply nth_error_None in H0. congruence.
  - rewrite nth_upd_neq in Hj by auto. eauto.
Qed.

Lemma a_range_bytes b off src :
  bytes_ok (contents b) = true -> (forall room, bytes_ok (src room) = true) ->
  bytes_ok (contents (fst (a_range b off src))) = true.
Proof.
  intros Hb Hs. unfold a_range. destruct (512 <=? off); auto. destruct (_ <? off); auto. cbn [fst contents].
  apply bytes_ok_store; auto. destruct b; auto.
Qed.

Lemma abytes_set A i (X : abuf) : abytes A -> bytes_ok (contents X) = true -> abytes (upd A i (Some X)).
Proof.
  intros H HX. apply abytes_upd; auto. intros l E. inversion E; subst. exact HX.
Qed.
Lemma abytes_clear A i : abytes A -> abytes (upd A i None).
Proof. intros H. apply abytes_upd; auto. intros l E. discriminate. Qed.

Lemma astep_bytes A o : abytes A -> op_bytes o -> abytes (fst (astep A o)).
Proof.
  intros HA Ho.
  assert (G : forall i, bytes_ok (contents (aget A i)) = true) by (intros; apply abytes_aget; auto).
  destruct o; unfold astep; cbn [op_bytes] in Ho;
    match goal with |- context [if ?c then _ else _] => destruct c eqn:Ec; cbn [fst]; [|assumption] end.
  - apply abytes_set; auto.
  - apply abytes_set; auto.
  - apply abytes_set; auto. destruct p; cbn [a_set_ptr fst contents]; auto. apply bytes_ok_take; auto.
  - apply abytes_set; auto. cbn [contents]. apply bytes_ok_take; auto.
  - apply abytes_clear; auto.
  - apply abytes_set; auto.
  - destruct (aget A j) eqn:E; cbn [fst]; auto. apply abytes_set; auto. specialize (G j). rewrite E in G. exact G.
  - apply abytes_set; auto. destruct p; cbn [a_set_ptr fst contents]; auto. apply bytes_ok_take; auto.
  - apply abytes_set; auto. cbn [contents]. apply bytes_ok_take; auto.
  - apply abytes_set; auto. cbn [contents]. apply bytes_ok_take. apply bytes_ok_sfs.
  - apply abytes_set; auto. apply a_range_bytes; auto. intros. apply bytes_ok_repeat; auto.
  - destruct p; cbn [fst]; auto. apply abytes_set; auto. apply a_range_bytes; auto.
    intros. apply bytes_ok_take; auto.
  - apply abytes_set; auto. apply a_range_bytes; auto. intros. cbn. unfold byte_ok.
    rewrite andb_true_r. lia.
  - destruct (k + n <=? _); cbn [fst]; auto. destruct (aget A j) eqn:E; cbn [fst]; auto.
    apply abytes_set; auto. cbn [contents]. apply bytes_ok_take, bytes_ok_drop.
    specialize (G j). rewrite E in G. exact G.
  - destruct (k + n <=? _); cbn [fst]; auto. destruct (aget A j) eqn:E; cbn [fst]; auto.
    apply abytes_set; auto. apply a_range_bytes; auto. intros. apply bytes_ok_take, bytes_ok_drop.
    specialize (G j). rewrite E in G. exact G.
  - assert (HA1 : abytes (upd A i (Some (Some (contents (aget A i))))))
      by (apply abytes_set; [auto|cbn [contents]; auto]).
    apply abytes_set; [exact HA1|]. cbn [contents].
    apply bytes_ok_htp; apply abytes_aget; auto.
  - apply abytes_set; auto.
  - apply abytes_set; auto. destruct (aget A i); reflexivity.
Qed.

Lemma arun_bytes ops : forall A, abytes A -> Forall op_bytes ops -> abytes (arun A ops).
Proof.
  induction ops as [|o r IH]; intros A HA H; cbn [arun]; auto.
  inversion H; subst. apply IH; auto. apply astep_bytes; auto.
Qed.
Lemma abytes_init n : abytes (repeat None n).
Proof.
  intros i l H. exfalso. revert i H. induction n; intros [|i] H; cbn in H; try discriminate. eauto.
Qed.

(* ---- final round: items as atoi reads them: white space, leading zeros, a value, then anything that
   does not start with a digit (trailing blanks, a stop character) *)
Inductive gitem :=
| GBlank (lead : list N)                                   (* only white space (or nothing): a dropped zero *)
| GNum (lead : list N) (zeros : nat) (v : N) (trail : list N).   (* "  007x" *)

Definition starts_nondigit (t : list N) : bool := match t with [] => true | c :: _ => negb (is_digit c) end.
Definition gitem_ok (it : gitem) : bool :=
  match it with
  | GBlank lead => forallb is_space lead
  | GNum lead zeros v trail => forallb is_space lead && (v <? 256) && starts_nondigit trail && nocomma trail
  end.
Definition gitem_text (it : gitem) : list N :=
  match it with
  | GBlank lead => lead
  | GNum lead zeros v trail => lead ++ repeat 48 zeros ++ dec v ++ trail
  end.
Definition gitem_val (it : gitem) : N := match it with GBlank _ => 0 | GNum _ _ v _ => v end.

Lemma skip_ws_app lead r : forallb is_space lead = true -> skip_ws (lead ++ r) = skip_ws r.
Proof.
  induction lead as [|c l IH]; intros H; auto. cbn in H. apply andb_prop in H as (Hc & Hl).
  cbn [app skip_ws]. rewrite Hc. auto.
Qed.
Lemma space_nocomma lead : forallb is_space lead = true -> nocomma lead = true.
Proof.
  unfold nocomma. induction lead as [|c l IH]; intros H; auto. cbn [forallb] in *.
  apply andb_prop in H as (Hc & Hl). rewrite IH by auto. rewrite andb_true_r. unfold is_space in Hc.
  destruct (N.eqb_spec c 44) as [->|]; [discriminate|reflexivity].
Qed.
Lemma nocomma_app a b : nocomma (a ++ b) = nocomma a && nocomma b.
Proof. apply forallb_app. Qed.
Lemma nocomma_zeros z : nocomma (repeat 48 z) = true.
Proof. induction z; cbn; auto. Qed.

Lemma digits_val_app ds : forall acc t,
  forallb is_digit ds = true -> digits_val acc (ds ++ t) = digits_val (digits_val acc ds) t.
Proof.
  induction ds as [|c ds IH]; intros acc t H; auto. cbn in H. apply andb_prop in H as (Hc & Hd).
  cbn [app digits_val]. rewrite Hc. auto.
Qed.
Lemma digits_val_stop acc t : starts_nondigit t = true -> digits_val acc t = acc.
Proof. destruct t as [|c r]; auto. cbn. destruct (is_digit c); [discriminate|reflexivity]. Qed.
Lemma digits_val_zeros z : forall r, digits_val 0 (repeat 48 z ++ r) = digits_val 0 r.
Proof. induction z; intros r; auto. cbn [repeat app digits_val]. change (is_digit 48) with true. cbn. auto. Qed.

Lemma dec_digits_all :
  forallb (fun x => forallb is_digit (dec x) && (digits_val 0 (dec x) =? x)) all_bytes = true.
Proof. vm_compute. reflexivity. Qed.
Lemma dec_digits x : x < 256 -> forallb is_digit (dec x) = true /\ digits_val 0 (dec x) = x.
Proof.
  intros H. pose proof dec_digits_all as A. rewrite forallb_forall in A. specialize (A x (in_all_bytes x H)).
  apply andb_prop in A as (A1 & A2). apply N.eqb_eq in A2. auto.
Qed.

(* a token whose first non-blank character is a digit is read as an unsigned number *)
Lemma atoi8_unsigned d r :
  is_digit d = true -> atoi8 (d :: r) = (N.min (digits_val 0 (d :: r)) LONG_MAX) mod 256.
Proof.
  intros Hd. unfold atoi8. assert (Hs : is_space d = false).
  { unfold is_digit, is_space in *. lia. }
  cbn [skip_ws]. rewrite Hs.
  assert (d <> 45 /\ d <> 43) as (H1 & H2) by (unfold is_digit in Hd; lia).
  destruct d as [|p]; [reflexivity|].
  do 6 (destruct p as [p|p|]; try reflexivity; try congruence).
Qed.

Lemma gitem_facts it :
  gitem_ok it = true -> atoi8 (gitem_text it) = gitem_val it /\ nocomma (gitem_text it) = true.
Proof.
  destruct it as [lead|lead zeros v trail]; cbn [gitem_ok gitem_text gitem_val]; intros H.
  - split; [|apply space_nocomma; auto].
    unfold atoi8. rewrite <- (app_nil_r lead), skip_ws_app by auto. reflexivity.
  - apply andb_prop in H as (H & Hnc). apply andb_prop in H as (H & Hst). apply andb_prop in H as (Hl & Hv).
    apply N.ltb_lt in Hv. destruct (dec_digits v Hv) as (Dd & Dv). destruct (dec_facts v Hv) as (_ & Dnc & Dne).
    split.
    + assert (Ev : digits_val 0 (repeat 48 zeros ++ dec v ++ trail) = v).
      { rewrite digits_val_zeros, digits_val_app by auto. rewrite Dv. apply digits_val_stop. auto. }
      unfold atoi8 at 1. rewrite skip_ws_app by auto. fold (atoi8 (repeat 48 zeros ++ dec v ++ trail)).
      destruct (repeat 48 zeros ++ dec v ++ trail) as [|d r] eqn:E.
      { destruct zeros; cbn in E; [|discriminate]. destruct (dec v); [congruence|discriminate]. }
      assert (Hd : is_digit d = true).
      { destruct zeros as [|z]; cbn in E.
        - destruct (dec v) as [|c ds] eqn:Ed; [congruence|]. cbn in E. inversion E; subst.
          cbn in Dd. apply andb_prop in Dd as (Dc & _). exact Dc.
        - inversion E; subst. reflexivity. }
      assert (Hs : is_space d = false) by (unfold is_digit, is_space in *; lia).
      change (match skip_ws (d :: r) with
              | 45 :: r0 => (256 - N.min (digits_val 0 r0) (LONG_MAX + 1) mod 256) mod 256
              | 43 :: r0 => N.min (digits_val 0 r0) LONG_MAX mod 256
              | l => N.min (digits_val 0 l) LONG_MAX mod 256 end) with (atoi8 (d :: r)).
      rewrite atoi8_unsigned by auto. rewrite Ev. unfold LONG_MAX.
      rewrite N.min_l by lia. apply N.mod_small. lia.
    + rewrite !nocomma_app, space_nocomma, nocomma_zeros, Dnc, Hnc by auto. reflexivity.
Qed.

Lemma sfs_documented_general items :
  forallb gitem_ok items = true -> join_items (map gitem_text items) <> [] ->
  sfs_values (join_items (map gitem_text items)) = map gitem_val items.
Proof.
  intros Hok Hne. unfold sfs_values.
  destruct (join_items (map gitem_text items)) as [|c r] eqn:E; [congruence|]. rewrite <- E.
  assert (Hnn : map gitem_text items <> []). { destruct items; [cbn in E; discriminate|discriminate]. }
  rewrite split_join; auto.
  - rewrite map_map. apply map_ext_in. intros it Hin. rewrite forallb_forall in Hok.
    apply (gitem_facts it (Hok it Hin)).
  - rewrite forallb_forall. intros t Ht. apply in_map_iff in Ht as (it & <- & Hin).
    rewrite forallb_forall in Hok. apply (gitem_facts it (Hok it Hin)).
Qed.
