(* C02 — list / heap / reference-count lemmas used by Proofs.v *)
From OlaBase Require Import Bytes.
From C02 Require Import Gen Model Spec.
Local Open Scope N_scope.

Lemma upd_length {A} (l : list A) i x : length (upd l i x) = length l.
Proof. revert i; induction l as [|y l IH]; intros [|i]; cbn; auto. Qed.

Lemma nth_upd_eq {A} (l : list A) i x : (i < length l)%nat -> nth_error (upd l i x) i = Some x.
Proof. revert i; induction l as [|y l IH]; intros [|i] H; cbn in *; try lia; auto. apply IH; lia. Qed.

Lemma nth_upd_neq {A} (l : list A) i j x : i <> j -> nth_error (upd l i x) j = nth_error l j.
Proof.
  revert i j; induction l as [|y l IH]; intros [|i] [|j] H; cbn; auto; try congruence.
Qed.

Lemma upd_upd {A} (l : list A) i x y : upd (upd l i x) i y = upd l i y.
Proof. revert i; induction l as [|z l IH]; intros [|i]; cbn; auto. f_equal; auto. Qed.

Lemma upd_same {A} (l : list A) i x : nth_error l i = Some x -> upd l i x = l.
Proof.
  revert i; induction l as [|z l IH]; intros [|i] H; cbn in *; try congruence.
  f_equal; auto.
Qed.

Lemma map_upd {A B} (f : A -> B) l i x : map f (upd l i x) = upd (map f l) i (f x).
Proof. revert i; induction l as [|z l IH]; intros [|i]; cbn; auto. f_equal; auto. Qed.

Lemma nth_some_lt {A} (l : list A) i x : nth_error l i = Some x -> (i < length l)%nat.
Proof. intros H. apply nth_error_Some. congruence. Qed.

Lemma list_ext {A} (a b : list A) : (forall j, nth_error a j = nth_error b j) -> a = b.
Proof.
  revert b; induction a as [|x a IH]; intros [|y b] H; auto.
  - specialize (H O); discriminate.
  - specialize (H O); discriminate.
  - f_equal. { specialize (H O); cbn in H; congruence. }
    apply IH. intros j. exact (H (S j)).
Qed.

Lemma upd_char {A} (l l' : list A) i x :
  (i < length l)%nat -> nth_error l' i = Some x -> length l' = length l ->
  (forall j, j <> i -> nth_error l' j = nth_error l j) -> l' = upd l i x.
Proof.
  intros Hi Hx Hl Ho. apply list_ext. intros j.
  destruct (Nat.eq_dec j i) as [->|Hn].
  - rewrite nth_upd_eq by auto. auto.
  - rewrite nth_upd_neq by auto. auto.
Qed.

(* ---- heap *)
Lemma hget_lt h id k : hget h id = Some k -> (id < length h)%nat.
Proof.
  unfold hget. destruct (nth_error h id) eqn:E; try discriminate. intros _.
  eapply nth_some_lt; eauto.
Qed.
Lemma hget_upd_eq h id v : (id < length h)%nat -> hget (upd h id v) id = v.
Proof. intros H. unfold hget. rewrite nth_upd_eq by auto. destruct v; auto. Qed.
Lemma hget_upd_neq h id id' v : id <> id' -> hget (upd h id v) id' = hget h id'.
Proof. intros H. unfold hget. rewrite nth_upd_neq by auto. auto. Qed.
Lemma hget_app_old h c id : (id < length h)%nat -> hget (h ++ [c]) id = hget h id.
Proof. intros H. unfold hget. rewrite nth_error_app1 by auto. auto. Qed.
Lemma hget_app_new h k : hget (h ++ [Some k]) (length h) = Some k.
Proof. unfold hget. rewrite nth_error_app2 by lia. rewrite Nat.sub_diag. reflexivity. Qed.
Lemma hget_app_some h c id k : hget h id = Some k -> hget (h ++ [c]) id = Some k.
Proof. intros H. rewrite hget_app_old; auto. eapply hget_lt; eauto. Qed.
Lemma hget_app_inv h k id k' :
  hget (h ++ [Some k]) id = Some k' -> (id = length h /\ k' = k) \/ ((id < length h)%nat /\ hget h id = Some k').
Proof.
  intros H. pose proof (hget_lt _ _ _ H) as Hl. rewrite app_length in Hl. cbn in Hl.
  destruct (Nat.eq_dec id (length h)) as [->|Hn].
  - rewrite hget_app_new in H. left. split; congruence.
  - right. assert (id < length h)%nat by lia. rewrite hget_app_old in H by auto. auto.
Qed.

(* ---- reference counting *)
Definition refs_one (id : nat) (x : option buf) : nat :=
  match x with
  | Some b => match m_blk b with Some k => if Nat.eqb k id then 1%nat else 0%nat | None => 0%nat end
  | None => 0%nat
  end.
Fixpoint refs (id : nat) (p : list (option buf)) : nat :=
  match p with [] => 0%nat | x :: r => (refs_one id x + refs id r)%nat end.

Lemma refs_upd id p i x y :
  nth_error p i = Some x -> (refs id (upd p i y) + refs_one id x = refs id p + refs_one id y)%nat.
Proof.
  revert i; induction p as [|z p IH]; intros [|i] H; cbn in *; try discriminate.
  - inversion H; subst. lia.
  - specialize (IH _ H). lia.
Qed.
Lemma refs_one_le id p i x : nth_error p i = Some x -> (refs_one id x <= refs id p)%nat.
Proof.
  revert i; induction p as [|z p IH]; intros [|i] H; cbn in *; try discriminate.
  - inversion H; subst. lia.
  - specialize (IH _ H). lia.
Qed.
Lemma refs_two_le id p i j x y :
  i <> j -> nth_error p i = Some x -> nth_error p j = Some y ->
  (refs_one id x + refs_one id y <= refs id p)%nat.
Proof.
  revert i j; induction p as [|z p IH]; intros [|i] [|j] Hn Hx Hy; cbn in *; try discriminate; try congruence.
  - inversion Hx; subst. pose proof (refs_one_le id _ _ _ Hy). lia.
  - inversion Hy; subst. pose proof (refs_one_le id _ _ _ Hx). lia.
  - assert (i <> j) by congruence. specialize (IH _ _ H Hx Hy). lia.
Qed.
Lemma refs_repeat_none id n : refs id (repeat None n) = 0%nat.
Proof. induction n; cbn; auto. Qed.
Lemma refs_one_blk id b : m_blk b = Some id -> refs_one id (Some b) = 1%nat.
Proof. intros H. cbn. rewrite H, Nat.eqb_refl. reflexivity. Qed.
Lemma refs_one_other id b id' : m_blk b = Some id' -> id' <> id -> refs_one id (Some b) = 0%nat.
Proof. intros H Hn. cbn. rewrite H. destruct (Nat.eqb_spec id' id); congruence. Qed.
Lemma refs_one_null id b : m_blk b = None -> refs_one id (Some b) = 0%nat.
Proof. intros H. cbn. rewrite H. reflexivity. Qed.

(* ---- take / drop / splice on N-indexed lists *)
Lemma take_all {A} n (l : list A) : len l <= n -> take n l = l.
Proof. unfold take, len. intros. apply firstn_all2. lia. Qed.
Lemma take_take {A} n m (l : list A) : take n (take m l) = take (N.min n m) l.
Proof. unfold take. rewrite firstn_firstn. f_equal. lia. Qed.
Lemma len_take {A} n (l : list A) : len (take n l) = N.min n (len l).
Proof. unfold take, len. rewrite firstn_length. lia. Qed.
Lemma len_repeat {A} (x : A) n : len (repeat x n) = N.of_nat n.
Proof. unfold len. rewrite repeat_length. reflexivity. Qed.
Lemma take_app_le {A} n (a b : list A) : n <= len a -> take n (a ++ b) = take n a.
Proof.
  unfold take, len. intros. rewrite firstn_app.
  replace (N.to_nat n - length a)%nat with 0%nat by lia. cbn. apply app_nil_r.
Qed.
Lemma take_app_ge {A} n (a b : list A) : len a <= n -> take n (a ++ b) = a ++ take (n - len a) b.
Proof.
  unfold take, len. intros. rewrite firstn_app. rewrite firstn_all2 by lia.
  f_equal. f_equal. lia.
Qed.
Lemma drop_take {A} n m (l : list A) : drop n (take m l) = take (m - n) (drop n l).
Proof.
  unfold take, drop. rewrite skipn_firstn_comm. f_equal. lia.
Qed.
Lemma drop_all {A} n (l : list A) : len l <= n -> drop n l = [].
Proof. unfold drop, len. intros. apply skipn_all2. lia. Qed.
Lemma take_0 {A} (l : list A) : take 0 l = [].
Proof. reflexivity. Qed.
Lemma drop_0 {A} (l : list A) : drop 0 l = l.
Proof. reflexivity. Qed.

Lemma len_splice d off bytes :
  off + len bytes <= len d -> len (splice d off bytes) = len d.
Proof.
  intros H. unfold splice. rewrite !len_app, len_take, drop_len. lia.
Qed.

(* the stored prefix after writing `bytes` at `off` into a block whose first L slots are valid *)
Lemma take_splice d L off bytes :
  off <= L -> L <= len d -> off + len bytes <= len d ->
  take (N.max L (off + len bytes)) (splice d off bytes) = a_store (take L d) off bytes.
Proof.
  intros H1 H2 H3. unfold splice, a_store.
  assert (Ht : len (take off d) = off) by (rewrite len_take; lia).
  rewrite take_take. replace (N.min off L) with off by lia.
  rewrite take_app_ge by lia. f_equal. rewrite Ht.
  rewrite take_app_ge by lia. f_equal.
  rewrite drop_take.
  destruct (N.le_gt_cases L (off + len bytes)) as [Hle|Hgt].
  - replace (N.max L (off + len bytes) - off - len bytes) with 0 by lia.
    replace (L - (off + len bytes)) with 0 by lia. reflexivity.
  - f_equal. lia.
Qed.

Lemma zipmax_self l : zipmax l l = l.
Proof. induction l as [|x l IH]; cbn; auto. rewrite N.max_id, IH. reflexivity. Qed.
Lemma len_zipmax a b : len (zipmax a b) = N.min (len a) (len b).
Proof.
  revert b; induction a as [|x a IH]; intros [|y b]; cbn [zipmax]; rewrite ?len_nil, ?len_cons; try lia.
  rewrite IH. lia.
Qed.
(* htp in prefix/suffix form *)
Lemma htp_short a b : len a <= len b -> htp a b = zipmax a (take (len a) b) ++ drop (len a) b.
Proof.
  revert b; induction a as [|x a IH]; intros b H.
  - cbn. destruct b; reflexivity.
  - destruct b as [|y b]. { rewrite len_nil, len_cons in H. lia. }
    rewrite !len_cons in H. cbn [htp].
    rewrite IH by lia. unfold take, drop. rewrite len_cons.
    replace (N.to_nat (1 + len a)) with (S (N.to_nat (len a))) by lia. cbn. reflexivity.
Qed.
Lemma htp_long a b : len b <= len a -> htp a b = zipmax (take (len b) a) b ++ drop (len b) a.
Proof.
  revert a; induction b as [|y b IH]; intros a H.
  - cbn. destruct a; reflexivity.
  - destruct a as [|x a]. { rewrite len_nil, len_cons in H. lia. }
    rewrite !len_cons in H. cbn [htp].
    rewrite IH by lia. unfold take, drop. rewrite len_cons.
    replace (N.to_nat (1 + len b)) with (S (N.to_nat (len b))) by lia. cbn. reflexivity.
Qed.
Lemma htp_self l : htp l l = l.
Proof. induction l as [|x l IH]; cbn; auto. rewrite N.max_id, IH. reflexivity. Qed.
Lemma htp_nil_l b : htp [] b = b. Proof. reflexivity. Qed.
Lemma htp_nil_r a : htp a [] = a. Proof. destruct a; reflexivity. Qed.
