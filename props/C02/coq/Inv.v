(* C02 — heap invariant, abstraction function and the generic one-slot transition lemmas *)
From OlaBase Require Import Bytes.
From C02 Require Import Gen Model Spec Lemmas.
Local Open Scope N_scope.

Definition buf_ok (h : list (option blk)) (b : buf) : Prop :=
  match m_blk b with
  | None => m_len b = 0
  | Some id => exists k, hget h id = Some k /\ m_len b <= 512 /\ (m_cow b = false -> b_rc k = 1%nat)
  end.

(* every non-null block pointer is live; every live block has 512 bytes, a reference count equal to
   the number of buffers pointing at it, and at least one referrer (no leak); a buffer whose
   copy-on-write flag is clear is the only referrer of its block; sizes are at most 512 *)
Definition inv (s : st) : Prop :=
  (forall i b, nth_error (pool s) i = Some (Some b) -> buf_ok (heap s) b) /\
  (forall id k, hget (heap s) id = Some k ->
     len (b_data k) = 512 /\ b_rc k = refs id (pool s) /\ (1 <= b_rc k)%nat).

Definition abs_buf (h : list (option blk)) (b : buf) : abuf :=
  match m_blk b with
  | None => None
  | Some id => match hget h id with Some k => Some (take (m_len b) (b_data k)) | None => Some [] end
  end.
Definition abs (s : st) : astate := map (option_map (abs_buf (heap s))) (pool s).

Lemma abs_nth s j : nth_error (abs s) j = option_map (option_map (abs_buf (heap s))) (nth_error (pool s) j).
Proof. unfold abs. apply nth_error_map. Qed.
Lemma abs_length s : length (abs s) = length (pool s).
Proof. unfold abs. apply map_length. Qed.

Lemma getb_nth s i b : getb s i = Ok b <-> nth_error (pool s) i = Some (Some b).
Proof.
  unfold getb. destruct (nth_error (pool s) i) as [[x|]|]; split; intros H; try discriminate; congruence.
Qed.
Lemma is_live_getb s i : is_live s i = true <-> exists b, getb s i = Ok b.
Proof.
  unfold is_live, getb. destruct (nth_error (pool s) i) as [[x|]|]; split; intros H; try discriminate;
    eauto; destruct H; discriminate.
Qed.
Lemma a_live_abs s i : a_live (abs s) i = is_live s i.
Proof. unfold a_live, is_live. rewrite abs_nth. destruct (nth_error (pool s) i) as [[x|]|]; reflexivity. Qed.
Lemma a_raw_abs s i : a_raw (abs s) i = is_raw s i.
Proof. unfold a_raw, is_raw. rewrite abs_nth. destruct (nth_error (pool s) i) as [[x|]|]; reflexivity. Qed.
Lemma aget_abs s i b : getb s i = Ok b -> aget (abs s) i = abs_buf (heap s) b.
Proof. intros H. apply getb_nth in H. unfold aget. rewrite abs_nth, H. reflexivity. Qed.

Lemma refs_zero id p :
  (forall i b, nth_error p i = Some (Some b) -> m_blk b <> Some id) -> refs id p = 0%nat.
Proof.
  induction p as [|x p IH]; intros H; cbn; auto.
  rewrite IH. 2:{ intros i b Hb. exact (H (S i) b Hb). }
  destruct x as [b|]; cbn; auto.
  specialize (H O b eq_refl). destruct (m_blk b) as [k|]; auto.
  destruct (Nat.eqb_spec k id); [congruence | reflexivity].
Qed.

Definition rcold (s : st) (id : nat) : nat :=
  match hget (heap s) id with Some k => b_rc k | None => 0%nat end.

Lemma rcold_refs s id : inv s -> rcold s id = refs id (pool s).
Proof.
  intros [Hb Hk]. unfold rcold. destruct (hget (heap s) id) as [k|] eqn:E.
  - apply Hk in E. tauto.
  - symmetry. apply refs_zero. intros i b Hi Hm. apply Hb in Hi. unfold buf_ok in Hi.
    rewrite Hm in Hi. destruct Hi as (k & Hk' & _). congruence.
Qed.

(* what a transition on slot i must leave alone: the blocks the OTHER buffers point at keep their
   bytes, stay live, and stay exclusively owned where the owner's flag is clear *)
Definition others_pres (s : st) (i : nat) (h' : list (option blk)) : Prop :=
  forall j b id, j <> i -> nth_error (pool s) j = Some (Some b) -> m_blk b = Some id ->
    exists k k', hget (heap s) id = Some k /\ hget h' id = Some k' /\ b_data k' = b_data k /\
                 (m_cow b = false -> b_rc k' = 1%nat).

Lemma inv_change s i x y h' :
  inv s -> nth_error (pool s) i = Some x ->
  (forall id k', hget h' id = Some k' ->
     len (b_data k') = 512 /\ (1 <= b_rc k')%nat /\
     (b_rc k' + refs_one id x = rcold s id + refs_one id y)%nat) ->
  others_pres s i h' ->
  (forall b, y = Some b -> buf_ok h' b) ->
  inv {| heap := h'; pool := upd (pool s) i y |}.
Proof.
  intros Hinv Hx H1 H2 H3. pose proof Hinv as [Hb Hk]. split; cbn [heap pool].
  - intros j b Hj. destruct (Nat.eq_dec j i) as [->|Hn].
    + rewrite nth_upd_eq in Hj by (eapply nth_some_lt; eauto). inversion Hj; subst. auto.
    + rewrite nth_upd_neq in Hj by auto. pose proof (Hb _ _ Hj) as Hok. unfold buf_ok in *.
      destruct (m_blk b) as [id|] eqn:Em; auto.
      destruct (H2 j b id Hn Hj Em) as (k & k' & Hk1 & Hk2 & _ & Hc).
      destruct Hok as (k0 & Hk0 & Hl & _). exists k'. auto.
  - intros id k' Hk'. destruct (H1 _ _ Hk') as (Hl & Hge & Hrc). repeat split; auto.
    pose proof (refs_upd id _ _ _ y Hx). rewrite (rcold_refs s id Hinv) in Hrc. lia.
Qed.

Lemma abs_buf_ext h h' b :
  (forall id, m_blk b = Some id -> exists k k', hget h id = Some k /\ hget h' id = Some k' /\ b_data k' = b_data k) ->
  abs_buf h' b = abs_buf h b.
Proof.
  intros H. unfold abs_buf. destruct (m_blk b) as [id|]; auto.
  destruct (H id eq_refl) as (k & k' & -> & -> & ->). reflexivity.
Qed.

Lemma abs_change s i x y h' :
  nth_error (pool s) i = Some x -> others_pres s i h' ->
  abs {| heap := h'; pool := upd (pool s) i y |} = upd (abs s) i (option_map (abs_buf h') y).
Proof.
  intros Hx H2. unfold abs at 1. cbn [heap pool]. rewrite map_upd.
  apply upd_char.
  - rewrite abs_length. eapply nth_some_lt; eauto.
  - apply nth_upd_eq. rewrite map_length. eapply nth_some_lt; eauto.
  - rewrite upd_length, abs_length, map_length. reflexivity.
  - intros j Hn. rewrite nth_upd_neq by auto. rewrite abs_nth, nth_error_map.
    destruct (nth_error (pool s) j) as [[b|]|] eqn:Ej; cbn; auto.
    do 2 f_equal. apply abs_buf_ext. intros id Hm.
    destruct (H2 j b id Hn Ej Hm) as (k & k' & ? & ? & ? & _). eauto.
Qed.

(* heap untouched: every other buffer is trivially preserved *)
Lemma others_pres_refl s i : inv s -> others_pres s i (heap s).
Proof.
  intros [Hb _] j b id Hn Hj Hm. apply Hb in Hj. unfold buf_ok in Hj. rewrite Hm in Hj.
  destruct Hj as (k & Hk & _ & Hc). exists k, k. auto.
Qed.

(* a sole owner: nobody else points at its block *)
Lemma sole_owner s i b id k j b' :
  inv s -> nth_error (pool s) i = Some (Some b) -> m_blk b = Some id ->
  hget (heap s) id = Some k -> b_rc k = 1%nat ->
  j <> i -> nth_error (pool s) j = Some (Some b') -> m_blk b' <> Some id.
Proof.
  intros [_ Hk] Hi Hm Hg Hrc Hn Hj Hm'.
  destruct (Hk _ _ Hg) as (_ & Hr & _).
  pose proof (refs_two_le id _ _ _ _ _ Hn Hj Hi) as H.
  rewrite (refs_one_blk _ _ Hm), (refs_one_blk _ _ Hm') in H. lia.
Qed.

Lemma inv_buf s i b : inv s -> getb s i = Ok b -> buf_ok (heap s) b.
Proof. intros [Hb _] H. apply getb_nth in H. eauto. Qed.
Lemma inv_blk s id k : inv s -> hget (heap s) id = Some k ->
  len (b_data k) = 512 /\ b_rc k = refs id (pool s) /\ (1 <= b_rc k)%nat.
Proof. intros [_ Hk] H. eauto. Qed.

Lemma inv_init n : inv (init_st n).
Proof.
  split; cbn.
  - intros i b H. exfalso. revert i H. induction n; intros [|i] H; cbn in H; try discriminate. eauto.
  - intros id k H. unfold hget in H. destruct id; discriminate.
Qed.
