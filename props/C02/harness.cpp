// C02 correspondence harness: four real ola::DmxBuffer objects in raw storage (placement new /
// explicit destructor calls, so construction and destruction are operations), ASan+UBSan build.
// After EVERY operation: return value, Size()/Get() of all slots, the 4x4 == matrix, read probes
// (Get(i), Get(data,&n), GetRange, ToString) and, as internal observables, the sharing pattern,
// copy-on-write flags, reference counts and the number of live heap blocks.
#include <stddef.h>
extern "C" size_t __sanitizer_get_current_allocated_bytes(void);  // ASan allocator statistics
#include <stdint.h>
#include <stdio.h>
#include <string.h>
#include <algorithm>
#include <iomanip>
#include <locale>
#include <new>
#include <sstream>
#include <string>
#include <utility>
#include <vector>
#define private public
#include "ola/DmxBuffer.h"
#undef private
#include "ola/Logging.h"
#include "vh.h"

using ola::DmxBuffer;
using std::string;
using std::vector;

static const int NSLOTS = 4;      // pool objects in raw storage: logical positions 0..3
static const int NVEC = 4;        // at most 4 elements of a std::vector<DmxBuffer>: logical positions 4..7
static const int NLOG = NSLOTS + NVEC;
static const size_t BLOCK_BYTES = 512 + sizeof(unsigned int);

struct Pool {
  // raw storage, heap allocated per slot so that ASan sees accesses to a destroyed object's block
  alignas(DmxBuffer) unsigned char raw[NSLOTS][sizeof(DmxBuffer)];
  bool live_[NSLOTS];
  std::vector<DmxBuffer> vec;     // never grows beyond NVEC elements; capacity changes only by "vrealloc"
  Pool() { for (int i = 0; i < NSLOTS; i++) live_[i] = false; vec.reserve(NVEC); }
  bool live(int i) const {
    return i < NSLOTS ? live_[i] : static_cast<size_t>(i - NSLOTS) < vec.size();
  }
  DmxBuffer *at(int i) {
    if (i < NSLOTS) return reinterpret_cast<DmxBuffer*>(raw[i]);
    return live(i) ? &vec[i - NSLOTS] : NULL;
  }
  ~Pool() { for (int i = 0; i < NSLOTS; i++) if (live_[i]) at(i)->~DmxBuffer(); }
};

// a by-value return: the compiler may construct the result in place, copy it or move it
static DmxBuffer __attribute__((noinline)) Snapshot(const DmxBuffer &b) {
  DmxBuffer copy(b);
  return copy;
}

static string rle(const uint8_t *a, size_t n) {
  if (n == 0) return "-";
  string out;
  char tmp[32];
  size_t i = 0;
  while (i < n) {
    size_t r = 1;
    while (i + r < n && a[i + r] == a[i]) r++;
    if (r >= 4) {
      snprintf(tmp, sizeof(tmp), "[%02x*%zu]", a[i], r);
      out += tmp;
    } else {
      snprintf(tmp, sizeof(tmp), "%02x", a[i]);
      for (size_t k = 0; k < r; k++) out += tmp;
    }
    i += r;
  }
  return out;
}
static string rle(const string &s) { return rle(reinterpret_cast<const uint8_t*>(s.data()), s.size()); }

static string fnv(const string &s) {
  uint32_t h = 2166136261u;
  for (size_t i = 0; i < s.size(); i++) { h ^= static_cast<uint8_t>(s[i]); h *= 16777619u; }
  char tmp[40];
  snprintf(tmp, sizeof(tmp), "%zu:%08x", s.size(), h);
  return tmp;
}

struct Ptr {   // a caller's array: null, or an exact-size heap copy
  uint8_t *p;
  explicit Ptr(const string &s) : p(NULL) {
    if (s == "N") return;
    vector<uint8_t> v = vh::unhex(s);
    p = new uint8_t[v.size()];
    if (!v.empty()) memcpy(p, v.data(), v.size());
  }
  ~Ptr() { delete[] p; }
 private:
  Ptr(const Ptr&);
};

// operator<< on streams that carry format state (the table of widths / fills is mirrored in driver.ml).
// The text must be the ToString() text as ONE field and the stream must come back with width 0 and
// everything else as it was.
struct GroupEveryDigit : std::numpunct<char> {
  std::string do_grouping() const { return "\1"; }
  char do_thousands_sep() const { return '.'; }
};
static string stream_probe(const DmxBuffer &b, int c) {
  std::ostringstream os;
  const std::streamsize L = static_cast<std::streamsize>(b.ToString().size());
  switch (c) {
    case 1: os << std::hex; break;
    case 2: os << std::oct << std::showbase; break;
    case 3: os << std::hex << std::showbase << std::uppercase; break;
    case 4: os << std::showpos; break;
    case 5: os << std::dec << std::right << std::setw(L + 3) << std::setfill('*'); break;
    case 6: os << std::left << std::setw(L + 2) << std::setfill('.'); break;
    case 7: os << std::internal << std::hex << std::showpos << std::setw(L + 1) << std::setfill('0'); break;
    case 8: os << std::showpos << std::showbase << std::oct << std::setw(L); break;
    case 9: os.imbue(std::locale(std::locale::classic(), new GroupEveryDigit)); break;
    case 10: os << std::hex << std::left << std::setw(1) << std::setfill('#'); break;
    case 11: os << std::scientific << std::showpoint << std::boolalpha << std::setprecision(2); break;
    default: break;
  }
  const std::ios_base::fmtflags flags = os.flags();
  const char fill = os.fill();
  const std::streamsize prec = os.precision();
  const std::locale loc = os.getloc();
  std::ostream &ret = (os << b);
  const bool same = os.flags() == flags && os.fill() == fill && os.precision() == prec && os.getloc() == loc &&
                    os.good() && &ret == &os;
  return "S" + vh::str(c) + "=" + fnv(os.str()) + ":w" + vh::str(os.width()) + ":" + (same ? "1" : "0");
}
static string stream_probes(Pool *pool, int i, int k) {
  if (!pool->live(i)) return "";
  string out = "/";
  const int d[3] = {0, 4, 8};
  for (int n = 0; n < 3; n++) out += (n ? "," : "") + stream_probe(*pool->at(i), (k + i + d[n]) % 12);
  return out;
}

static string probes(Pool *pool, int i) {
  if (!pool->live(i)) return vh::str(i) + "/raw";
  const DmxBuffer &b = *pool->at(i);
  unsigned int z = b.Size();
  unsigned int zm1 = z ? z - 1 : 0;
  std::ostringstream os;
  os << b;                                   // operator<< is documented as ToString()
  string out = vh::str(i) + "/" + (os.str() == b.ToString() ? fnv(b.ToString()) : string("OSTREAM!")) + "/";
  unsigned int chs[] = {0, zm1, z, 511, 512, 4294967295u};
  for (int k = 0; k < 6; k++) out += (k ? "," : "") + vh::str(static_cast<int>(b.Get(chs[k])));
  out += "/";
  unsigned int gb[] = {0, zm1, z, z + 1, 513};
  for (int k = 0; k < 5; k++) {
    uint8_t *d = new uint8_t[gb[k]];          // exact size: ASan sees any over-write
    unsigned int n = gb[k];
    b.Get(d, &n);
    out += (k ? "," : "") + (n <= gb[k] ? rle(d, n) : string("LEN>") + vh::str(n));
    delete[] d;
  }
  out += "/";
  unsigned int gr[][2] = {{0, z + 1}, {zm1, 2}, {z, 1}, {1, z}, {z / 2, 4294967295u}, {511, 2}, {512, 1}};
  for (int k = 0; k < 7; k++) {
    unsigned int cap = gr[k][1] > 512 ? 512 : gr[k][1];
    uint8_t *d = new uint8_t[cap];
    unsigned int n = gr[k][1];
    b.GetRange(gr[k][0], d, &n);
    out += (k ? "," : "") + (n <= cap ? rle(d, n) : string("LEN>") + vh::str(n));
    delete[] d;
  }
  return out;
}

static string slot_str(Pool *pool, int i) {
  if (!pool->live(i)) return "-";
  const DmxBuffer &b = *pool->at(i);
  return vh::str(b.Size()) + ":" + rle(b.Get());
}

static int fi(const vector<string> &f, size_t k) {
  return k < f.size() ? static_cast<int>(vh::num(f[k])) : 0;
}

static string handle(const string &payload_in) {
  string payload = payload_in;
  if (!payload.empty() && payload[0] == '!') payload = payload.substr(1);
  vector<string> toks = vh::split(payload);
  Pool *pool = new Pool();
  string out;
  int accepted = 0, refused = 0;
  long blocks = 0;
  int k = 0;
  for (size_t ti = 0; ti < toks.size(); ti++) {
    if (toks[ti].empty()) continue;
    vector<string> f = vh::split(toks[ti], ',');
    const string &name = f[0];
    const bool lifetime = (name == "new" || name == "cpy" || name == "newd" || name == "news" || name == "del");
    const bool vecop = (name.size() > 1 && name[0] == 'v');
    int i = fi(f, 1);
    int j = (name == "cpy" || name == "asg" || name == "setb" || name == "htp" || name == "setraw" ||
             name == "asgt" || name == "asgr" || name == "swap" || name == "vins") ? fi(f, 2)
            : (name == "srraw" ? fi(f, 3) : ((name == "vpush" || name == "vpusht") ? fi(f, 1) : 0));
    if (i < 0 || i >= NLOG) i = 0;
    if (j < 0 || j >= NLOG) j = 0;
    string ret = "skip";
    // arguments are prepared before, and released after, the two heap measurements
    Ptr *ptr = NULL;
    string sarg;
    if (name == "newd" || name == "setp") ptr = new Ptr(f[2]);
    if (name == "sr") ptr = new Ptr(f[3]);
    if (name == "sets") { vector<uint8_t> v = vh::unhex(f[2]); sarg.assign(v.begin(), v.end()); }
    if (name == "sft" || name == "news") { vector<uint8_t> v = vh::unhex(f[2]); sarg.assign(v.begin(), v.end()); }
    ret.reserve(8);
    std::vector<DmxBuffer> &vec = pool->vec;
    const size_t vs = vec.size();
    const size_t cap_before = vec.capacity();
    size_t before = __sanitizer_get_current_allocated_bytes();
    bool li = vecop ? false : pool->live(i), lj = pool->live(j);
    DmxBuffer *bi = vecop ? NULL : pool->at(i), *bj = pool->at(j);
    int rv = -1;   // -1 skip, 2 unit, 0/1 bool
    if (lifetime && i >= NSLOTS) { /* the vector manages the lifetime of its elements: skipped */ }
    else if (name == "new") { if (!li) { new (bi) DmxBuffer(); pool->live_[i] = true; rv = 2; } }
    else if (name == "cpy") { if (!li && lj) { new (bi) DmxBuffer(*bj); pool->live_[i] = true; rv = 2; } }
    else if (name == "newd") { if (!li) { new (bi) DmxBuffer(ptr->p, vh::num(f[3])); pool->live_[i] = true; rv = 2; } }
    else if (name == "del") { if (li) { bi->~DmxBuffer(); pool->live_[i] = false; rv = 2; } }
    else if (name == "asg") { if (li && lj) { *bi = *bj; rv = 2; } }
    else if (name == "setb") { if (li && lj) rv = bi->Set(*bj); }
    else if (name == "setp") { if (li) rv = bi->Set(ptr->p, vh::num(f[3])); }
    else if (name == "sets") { if (li) rv = bi->Set(sarg); }
    else if (name == "sft") { if (li) rv = bi->SetFromString(sarg); }
    else if (name == "news") { if (!li) { new (bi) DmxBuffer(sarg); pool->live_[i] = true; rv = 2; } }
    // a pointer into ANOTHER live buffer's storage; contract: different object, k + n <= Size()
    else if (name == "setraw") {
      unsigned long long kk = vh::num(f[3]), n = vh::num(f[4]);
      if (li && lj && i != j && kk + n <= bj->Size())
        rv = bi->Set(bj->GetRaw() ? bj->GetRaw() + kk : NULL, n);
    } else if (name == "srraw") {
      unsigned long long kk = vh::num(f[4]), n = vh::num(f[5]);
      if (li && lj && i != j && kk + n <= bj->Size())
        rv = bi->SetRange(vh::num(f[2]), bj->GetRaw() ? bj->GetRaw() + kk : NULL, n);
    }
    else if (name == "srv") { if (li) rv = bi->SetRangeToValue(vh::num(f[2]), vh::num(f[3]), vh::num(f[4])); }
    else if (name == "sr") { if (li) rv = bi->SetRange(vh::num(f[2]), ptr->p, vh::num(f[4])); }
    else if (name == "sc") { if (li) { bi->SetChannel(vh::num(f[2]), vh::num(f[3])); rv = 2; } }
    else if (name == "htp") { if (li && lj) rv = bi->HTPMerge(*bj); }
    else if (name == "bo") { if (li) rv = bi->Blackout(); }
    else if (name == "rst") { if (li) { bi->Reset(); rv = 2; } }
    // ---- expressions that copy, assign or move whole buffers.  Whatever members DmxBuffer has (copy
    // only, or copy and move), a buffer is a value: the meaning is that of the copy operations.
    else if (name == "asgt") { if (li && lj) { *bi = DmxBuffer(*bj); rv = 2; } }       // from a temporary
    else if (name == "asgr") { if (li && lj) { *bi = Snapshot(*bj); rv = 2; } }        // from a by-value return
    else if (name == "swap") { if (li && lj) { std::swap(*bi, *bj); rv = 2; } }
    else if (name == "vpush") { if (vs < NVEC && lj) { vec.push_back(*bj); rv = 2; } }
    else if (name == "vpusht") { if (vs < NVEC && lj) { vec.push_back(DmxBuffer(*bj)); rv = 2; } }
    else if (name == "vpop") { if (vs > 0) { vec.pop_back(); rv = 2; } }
    else if (name == "verase") {
      size_t pos = fi(f, 1);
      if (pos < vs) { vec.erase(vec.begin() + pos); rv = 2; }
    } else if (name == "vins") {
      size_t pos = fi(f, 1);
      if (vs < NVEC && pos <= vs && lj) { vec.insert(vec.begin() + pos, *bj); rv = 2; }
    } else if (name == "vresize") {
      size_t n = fi(f, 1);
      if (n <= NVEC) { vec.resize(n); rv = 2; }
    } else if (name == "vrealloc") { vec.reserve(vec.capacity() + NVEC); rv = 2; }
    else if (name == "vrev") { std::reverse(vec.begin(), vec.end()); rv = 2; }
    else { delete ptr; delete pool; return "bad-op"; }
    size_t after = __sanitizer_get_current_allocated_bytes();
    delete ptr;
    long delta = static_cast<long>(after) - static_cast<long>(before);
    // the vector's own storage is not a DMX block
    delta -= (static_cast<long>(vec.capacity()) - static_cast<long>(cap_before)) * static_cast<long>(sizeof(DmxBuffer));
    string hb;
    if (delta % static_cast<long>(BLOCK_BYTES) == 0) {
      blocks += delta / static_cast<long>(BLOCK_BYTES);
      hb = vh::str(blocks);
    } else {
      hb = "odd-delta" + vh::str(delta);
    }
    if (vec.size() > static_cast<size_t>(NVEC)) { delete pool; return "harness-vector-overflow"; }
    // the position the probes look at
    int tg = i;
    if (name == "vpush" || name == "vpusht") tg = NSLOTS + static_cast<int>(vec.size()) - 1;
    else if (name == "vpop" || name == "vresize" || name == "vrealloc" || name == "vrev") tg = NSLOTS;
    else if (name == "verase" || name == "vins") tg = NSLOTS + fi(f, 1);
    if (tg < 0 || tg >= NLOG) tg = 0;
    if (rv == 2) { ret = "u"; accepted++; }
    else if (rv == 1) { ret = "1"; accepted++; }
    else if (rv == 0) { ret = "0"; refused++; }
    out += "o" + vh::str(k) + "=" + ret;
    for (int s = 0; s < NLOG; s++) out += "|" + slot_str(pool, s);
    out += "|";
    for (int a = 0; a < NLOG; a++)
      for (int b = 0; b < NLOG; b++) {
        if (!pool->live(a) || !pool->live(b)) { out += "x"; continue; }
        bool e = *pool->at(a) == *pool->at(b);
        bool ne = *pool->at(a) != *pool->at(b);
        out += (e == ne) ? "?" : (e ? "1" : "0");
      }
    out += "|" + probes(pool, tg) + stream_probes(pool, tg, k);
    int other = k % NLOG;
    if (other != tg) out += "|" + probes(pool, other) + stream_probes(pool, other, k);
    out += ";i" + vh::str(k) + "=";
    for (int s = 0; s < NLOG; s++) {
      if (s) out += ",";
      if (!pool->live(s)) { out += "-"; continue; }
      const DmxBuffer *b = pool->at(s);
      if ((b->m_data == NULL) != (b->m_ref_count == NULL)) { out += "HALFNULL"; continue; }
      if (b->GetRaw() != b->m_data) { out += "GETRAW!"; continue; }
      string cls = "n";
      if (b->m_data) {
        for (int t = 0; t < NLOG; t++)
          if (pool->live(t) && pool->at(t)->m_data == b->m_data) {
            cls = vh::str(t);
            if (pool->at(t)->m_ref_count != b->m_ref_count) cls += "RCPTR!";
            break;
          }
      }
      out += cls + (b->m_copy_on_write ? "c" : ".") + vh::str(b->m_ref_count ? *b->m_ref_count : 0u);
    }
    out += "|hb=" + hb + ";";
    k++;
  }
  delete pool;
  out += "hz=-;acc=" + vh::str(accepted) + ";ref=" + vh::str(refused);
  return out;
}

int main(int argc, char **argv) {
  ola::InitLogging(ola::OLA_LOG_NONE, ola::OLA_LOG_NULL);
  return vh::run(argc, argv, handle);
}
