ID = 'C02'
GROUPS = ['common']
CXX_SOURCES = []


def gen_consts(v):
    import os
    return v.gen_consts_cpp(ID, ['ola/Constants.h', 'ola/DmxBuffer.h'],
                            [('DMX_UNIVERSE_SIZE', 'ola::DMX_UNIVERSE_SIZE'),
                             ('DMX_MIN_SLOT_VALUE', 'ola::DMX_MIN_SLOT_VALUE')],
                            os.path.join(v.VERIF, 'props', ID, 'coq', 'Gen.v'))


class _SpecKeys(object):
    """o<k> = API-level observables after op k (return value, Size/Get of every slot, == matrix,
    Get(i)/Get(buf)/GetRange/ToString probes); hz = hazard outcome of the model.  i<k> (sharing pattern,
    cow flags, refcounts, live heap blocks) are internal: compared, but reported separately."""
    def __contains__(self, k):
        return k.startswith('o') or k in ('hz', 'acc', 'ref')


SPEC_KEYS = _SpecKeys()
INTERNAL_KEYS = []

RULE = ('sequences of <=30 operations on 4 DmxBuffers in raw storage plus the <=4 elements of a std::vector<DmxBuffer> '
        '(every operation may target either; whole-buffer C++ expressions: x = DmxBuffer(y), x = by-value-return(y), std::swap, '
        'vector push_back(copy / temporary) / insert / erase / resize / reserve-reallocation / pop_back / std::reverse); '
        '(construct / copy-construct / '
        'construct-from-data / construct-from-string / destroy / assign / Set(buffer) / Set(ptr,len) / Set(string) / '
        'SetFromString(arbitrary text: empty items, leading zeros, white space, signs, stop characters, values beyond '
        'byte / int / long) / Set and SetRange with a pointer into another buffer (GetRaw()+k) / '
        'SetRangeToValue / SetRange / SetChannel / HTPMerge / Blackout / Reset), copy-assign-destroy-recreate and '
        'self-operations weighted heavily, offsets and lengths from {0,1,size-1,size,size+1,511,512,513,2^32-1} '
        'relative to the tracked size of the target; all observables compared after every operation, among them operator<< on '
        'streams carrying format state (hex, oct, showbase, showpos, uppercase, internal, scientific, setw+setfill left/right '
        'with widths around the text length, a digit-grouping locale): text and stream state after the call; '
        'non-trivial = at least one accepted operation and at least one mutation of a buffer whose block was '
        'shared at that moment; distinct = distinct model output trace')
ASSUMPTIONS = ['operator new does not fail',
               'fewer than 2^32 DmxBuffer objects share one block (the unsigned reference count does not wrap)',
               'a caller passing (data, length) owns at least the bytes the call reads (min(length,512) resp. '
               'min(length,512-offset)); the harness passes exact-size heap arrays so ASan sees any over-read',
               'single-threaded use (the class is documented as not thread safe)']
TRUSTED = ['std::operator<<(ostream&, const std::string&) (libstdc++) is modelled, not verified: pads the whole text once to '
           'width()/fill()/adjustfield, resets width to 0, ignores every other format flag and the numeric locale (Model.pad_text)',
           'whole-buffer C++ expressions (assignment from temporaries and by-value returns, std::swap, std::vector element '
           'shuffles) are executed as written by the harness and as the sequence of copy constructions / copy assignments / '
           'destructions they mean for a value type by the model driver (props/C02/driver.ml `expand`, mirroring libstdc++ 12); '
           'on a class without move members the two coincide down to reference counts, with move members only the '
           'API-level observables are required to agree (internal keys then differ and are reported as internal-only)',
           'modelled rather than verified: every method of common/utils/DmxBuffer.cpp except operator<< ; '
           'SetFromString for every text, with glibc atoi/strtol semantics (isspace skip, one sign, digits to the first other '
           'character, LONG_MIN/LONG_MAX saturation, then int->uint8_t truncation); whether out-of-range items SHOULD be '
           'accepted is finding C20-dmx-atoi-truncation, not judged here; raw-pointer arguments only into a DIFFERENT buffer '
           'and inside its valid data (self-aliasing pointers are a memcpy-overlap contract breach); '
           'Set(const DmxBuffer&) is modelled with fixes/01-self-set-guard.diff applied',
           'harness reads private members (#define private public) and ASan allocator statistics '
           '(__sanitizer_get_current_allocated_bytes) for the internal observables only',
           'DMX_UNIVERSE_SIZE / DMX_MIN_SLOT_VALUE regenerated into Gen.v; theorem c02_consts pins them to 512 / 0']

BIG = 4294967295


def hx(bs):
    return ''.join('%02x' % b for b in bs) if bs else '-'


def rbytes(rng, n):
    k = rng.random()
    if k < 0.15:
        return [rng.choice([0, 255, 1, 128])] * n
    if k < 0.3:
        return [rng.choice([0, 0, 0, 255, rng.randrange(256)]) for _ in range(n)]
    return [rng.randrange(256) for _ in range(n)]


def gen_token(rng):
    """one comma separated item, aimed at every branch of atoi: white space, sign, digits, stop character,
    byte / int / long range"""
    k = rng.random()
    if k < 0.15:
        return b''
    if k < 0.5:
        v = rng.choice([0, 1, 9, 10, 99, 100, 254, 255, rng.randrange(256)])
        return (b'0' * rng.choice([0, 0, 0, 1, 3])) + str(v).encode()
    if k < 0.62:
        return str(rng.choice([256, 257, 266, 300, 511, 512, 1000, 65535, 65536, 2147483647, 2147483648,
                               4294967295, 4294967296, 4294967297, rng.randrange(1 << 40)])).encode()
    if k < 0.72:
        return str(rng.choice([9223372036854775806, 9223372036854775807, 9223372036854775808,
                               18446744073709551615, 18446744073709551616, 10 ** 25 + rng.randrange(1000)])).encode()
    if k < 0.82:
        return b'-' + str(rng.choice([0, 1, 2, 255, 256, 257, 2147483648, 9223372036854775807,
                                      9223372036854775808, 9223372036854775809, 10 ** 22])).encode()
    if k < 0.9:
        ws = bytes(rng.choice([9, 10, 11, 12, 13, 32]) for _ in range(rng.choice([1, 1, 2, 3])))
        return ws + rng.choice([b'', b'+', b'-']) + str(rng.randrange(300)).encode() + rng.choice([b'', b' ', b'x', b'.5'])
    return rng.choice([b'+', b'-', b'+-5', b'--5', b'x', b'12x3', b'1 2', b' ', b'\x00', b'7\x009', b'\x8012',
                       b'\x085', b'\x0e5', b'\x1f5', b'/5', b':5', b'+ 5', b'0x10', b'1e3', b'\xff'])


def gen_text(rng, ntok):
    """text for SetFromString with ntok items (0 = the empty string)"""
    if ntok == 0:
        return []
    toks = [gen_token(rng) for _ in range(ntok)]
    if ntok > 40:      # long texts: mostly plain numbers, keeps the payload small
        toks = [str(rng.randrange(256)).encode() if rng.random() < 0.9 else t for t in toks]
    return list(b','.join(toks))


class Sim(object):
    """sizes only (None = uninitialised), to aim offsets/lengths at the boundaries of the target"""
    def __init__(self):
        # positions 0..3: pool objects; 4..7: elements of the std::vector<DmxBuffer> (live iff index-4 < vsize)
        self.live = [False] * 8
        self.val = [None] * 8
        self.vsize = 0

    def vset(self, vals):
        """the vector now holds these values"""
        self.vsize = len(vals)
        for k in range(4):
            self.live[4 + k] = k < len(vals)
            self.val[4 + k] = vals[k] if k < len(vals) else None

    def vvals(self):
        return [self.val[4 + k] for k in range(self.vsize)]

    def size(self, i):
        return self.val[i] or 0

    def rng_store(self, i, off, k):
        """effect of a_range on the size; k = number of bytes offered before clamping"""
        if off >= 512:
            return
        cur = 512 if self.val[i] is None else self.val[i]
        if cur < off:
            return
        self.val[i] = max(cur, off + min(k, 512 - off))


def gen_case(rng, big, nops):
    sim = Sim()
    ops = []
    small = [0, 1, 2, 3, 5, 8, 16, rng.randrange(1, 30)]
    large = [509, 510, 511, 512, 513, 514, 600]

    def pick_len():
        if big and rng.random() < 0.35:
            return rng.choice(large)
        return rng.choice(small)

    def offs(i):
        z = sim.size(i)
        c = [0, 1, max(0, z - 1), z, z + 1, 511, 512, 513, BIG]
        w = [3, 2, 4, 5, 4, 2, 2, 1, 1]
        return rng.choices(c, w)[0]

    def live_idx():
        return [i for i in range(8) if sim.live[i]]

    def dead_idx():
        return [i for i in range(4) if not sim.live[i]]

    def any_idx(prefer_live=True):
        l = live_idx() if prefer_live else dead_idx()
        if l and rng.random() < 0.97:
            return rng.choice(l)
        return rng.randrange(8 if prefer_live else 4)

    for step in range(nops):
        lv, dd = live_idx(), dead_idx()
        r = rng.random()
        # keep the pool populated; construction / copy / destruction are frequent
        if not lv or (dd and r < 0.16):
            i = rng.choice(dd) if dd else rng.randrange(4)
            k = rng.random()
            if lv and k < 0.55:
                j = rng.choice(lv)
                ops.append('cpy,%d,%d' % (i, j))
                if not sim.live[i]:
                    sim.live[i], sim.val[i] = True, sim.val[j]
            elif k < 0.62:
                n = pick_len()
                ops.append('news,%d,%s' % (i, hx(rbytes(rng, n))))
                if not sim.live[i]:
                    sim.live[i], sim.val[i] = True, min(n, 512)
            elif k < 0.8:
                n = pick_len()
                d = rbytes(rng, n)
                null = rng.random() < 0.08
                ops.append('newd,%d,%s,%d' % (i, 'N' if null else hx(d), n))
                if not sim.live[i]:
                    sim.live[i], sim.val[i] = True, (None if null else min(n, 512))
            else:
                ops.append('new,%d' % i)
                if not sim.live[i]:
                    sim.live[i], sim.val[i] = True, None
            continue
        if r < 0.22:
            pl = [x for x in range(4) if sim.live[x]]
            i = rng.choice(pl) if pl and rng.random() < 0.97 else rng.randrange(4)
            ops.append('del,%d' % i)
            if sim.live[i]:
                sim.live[i], sim.val[i] = False, None
            continue
        kind = rng.choices(['asg', 'setb', 'htp', 'setp', 'sets', 'sft', 'srv', 'sr', 'sc', 'bo', 'rst', 'cpy', 'new', 'setraw', 'srraw',
                            'asgt', 'asgr', 'swap', 'vpush', 'vpusht', 'vpop', 'verase', 'vins', 'vresize', 'vrealloc', 'vrev'],
                           [12, 10, 10, 7, 3, 5, 8, 9, 12, 3, 4, 1, 1, 5, 7,
                            7, 5, 8, 5, 3, 1, 4, 4, 1, 2, 2])[0]
        i = any_idx()
        # ---- expressions that copy / assign / move whole buffers, and the vector of buffers
        if kind in ('asgt', 'asgr', 'swap'):
            j = i if rng.random() < 0.12 else any_idx()
            ops.append('%s,%d,%d' % (kind, i, j))
            if sim.live[i] and sim.live[j]:
                if kind == 'swap':
                    sim.val[i], sim.val[j] = sim.val[j], sim.val[i]
                else:
                    sim.val[i] = sim.val[j]
            continue
        if kind in ('vpush', 'vpusht'):
            j = any_idx()
            ops.append('%s,%d' % (kind, j))
            if sim.vsize < 4 and sim.live[j]:
                sim.vset(sim.vvals() + [sim.val[j]])
            continue
        if kind == 'vpop':
            ops.append('vpop')
            if sim.vsize > 0:
                sim.vset(sim.vvals()[:-1])
            continue
        if kind == 'verase':
            k = rng.randrange(sim.vsize) if sim.vsize and rng.random() < 0.95 else rng.randrange(5)
            ops.append('verase,%d' % k)
            if k < sim.vsize:
                v = sim.vvals()
                del v[k]
                sim.vset(v)
            continue
        if kind == 'vins':
            k = rng.randrange(sim.vsize + 1) if rng.random() < 0.95 else rng.randrange(6)
            j = any_idx()
            ops.append('vins,%d,%d' % (k, j))
            if sim.vsize < 4 and k <= sim.vsize and sim.live[j]:
                v = sim.vvals()
                v.insert(k, sim.val[j])
                sim.vset(v)
            continue
        if kind == 'vresize':
            n = rng.choice([0, 1, 2, 3, 4, 4, 5])
            ops.append('vresize,%d' % n)
            if n <= 4:
                v = sim.vvals()
                sim.vset(v[:n] + [None] * (n - len(v)))
            continue
        if kind == 'vrealloc':
            ops.append('vrealloc')
            continue
        if kind == 'vrev':
            ops.append('vrev')
            sim.vset(sim.vvals()[::-1])
            continue
        if kind in ('asg', 'setb', 'htp'):
            j = i if rng.random() < 0.22 else any_idx()
            ops.append('%s,%d,%d' % (kind, i, j))
            if sim.live[i] and sim.live[j]:
                if kind == 'asg':
                    sim.val[i] = sim.val[j]
                elif kind == 'setb':
                    if sim.val[j] is not None:
                        sim.val[i] = sim.val[j]
                else:
                    sim.val[i] = max(sim.size(i), sim.size(j))
        elif kind == 'cpy':
            ops.append('cpy,%d,%d' % (i, any_idx()))     # construction over a live object: skipped
        elif kind == 'new':
            ops.append('new,%d' % i)
        elif kind == 'setp':
            L = pick_len()
            d = rbytes(rng, L)
            if rng.random() < 0.1:
                ops.append('setp,%d,N,%d' % (i, rng.choice([0, 1, L])))
            else:
                ns = [L, L, max(0, L - 1), 0, L // 2]
                if L >= 512:
                    ns += [512, 513, BIG, L]
                n = rng.choice(ns)
                ops.append('setp,%d,%s,%d' % (i, hx(d), n))
                if sim.live[i]:
                    sim.val[i] = min(n, 512)
        elif kind == 'sets':
            L = pick_len()
            ops.append('sets,%d,%s' % (i, hx(rbytes(rng, L))))
            if sim.live[i]:
                sim.val[i] = min(L, 512)
        elif kind == 'sft':
            text = gen_text(rng, pick_len())
            ops.append('sft,%d,%s' % (i, hx(text)))
            if sim.live[i]:
                sim.val[i] = 0 if not text else min(bytes(text).count(b',') + 1, 512)
        elif kind in ('setraw', 'srraw'):
            # pointer into another buffer's storage: mostly inside its valid data, sometimes just outside
            others = [x for x in live_idx() if x != i]
            j = rng.choice(others) if others and rng.random() < 0.93 else rng.randrange(4)
            zj = sim.size(j)
            k = min(zj, rng.choice([0, 0, 0, 1, max(0, zj - 1), zj, zj // 2]))
            room = zj - k
            n = rng.choice([room, room, room, max(0, room - 1), 0, min(1, room)])
            if rng.random() < 0.06:
                n = room + 1           # one byte past the other's valid data: outside the contract, skipped
            ok = sim.live[i] and sim.live[j] and i != j and k + n <= zj
            if kind == 'setraw':
                ops.append('setraw,%d,%d,%d,%d' % (i, j, k, n))
                if ok and sim.val[j] is not None:
                    sim.val[i] = min(n, 512)
            else:
                off = offs(i)
                ops.append('srraw,%d,%d,%d,%d,%d' % (i, off, j, k, n))
                if ok and sim.val[j] is not None:
                    sim.rng_store(i, off, n)
        elif kind == 'srv':
            off = offs(i)
            room = max(0, 512 - off)
            n = rng.choice([0, 1, 2, 3, max(0, room - 1), room, room + 1, 512, 513, BIG,
                            max(0, sim.size(i) - off), max(0, sim.size(i) - off + 1)])
            if not big:
                n = rng.choice([0, 1, 2, 3, 7, max(0, sim.size(i) - off), max(0, sim.size(i) - off + 1)])
            ops.append('srv,%d,%d,%d,%d' % (i, off, rng.choice([0, 1, 255, rng.randrange(256)]), n))
            if sim.live[i]:
                sim.rng_store(i, off, n)
        elif kind == 'sr':
            off = offs(i)
            room = max(0, 512 - off)
            if rng.random() < 0.08:
                ops.append('sr,%d,%d,N,%d' % (i, off, rng.choice([0, 1, 5])))
            else:
                L = rng.choice([0, 1, 2, 3, 5, max(0, sim.size(i) - off), max(0, sim.size(i) - off + 1)] +
                               ([room, room + 1, max(0, room - 1)] if big else []))
                L = min(L, 600)
                d = rbytes(rng, L)
                ns = [L, L, max(0, L - 1), 0]
                if L >= room:          # the clamp 512-offset protects the caller's array
                    ns += [L + 1, 513, BIG]
                n = rng.choice(ns)
                ops.append('sr,%d,%d,%s,%d' % (i, off, hx(d), n))
                if sim.live[i]:
                    sim.rng_store(i, off, n)
        elif kind == 'sc':
            ch = offs(i)
            ops.append('sc,%d,%d,%d' % (i, ch, rng.choice([0, 255, rng.randrange(256)])))
            if sim.live[i]:
                sim.rng_store(i, ch, 1)
        elif kind == 'bo':
            ops.append('bo,%d' % i)
            if sim.live[i]:
                sim.val[i] = 512
        elif kind == 'rst':
            ops.append('rst,%d' % i)
            if sim.live[i] and sim.val[i] is not None:
                sim.val[i] = 0
    return ' '.join(ops)


def gen_cases(rng, tier):
    quick = tier == 'quick'
    # directed: every ordered pair of {fresh, private, shared, shared-then-orphaned(cow flag left set)}
    # target states x every binary operation, incl. self
    prep = {
        'uninit': ['new,0'],
        'private': ['newd,0,0a0b0c,3'],
        'shared': ['newd,0,0a0b0c,3', 'cpy,1,0'],
        'orphan': ['newd,0,0a0b0c,3', 'cpy,1,0', 'del,1'],
        'reset-shared': ['newd,0,0a0b0c,3', 'cpy,1,0', 'rst,0'],
        'assigned-null': ['newd,0,0a0b0c,3', 'cpy,1,0', 'new,3', 'asg,0,3'],
    }
    second = {
        'uninit': ['new,2'],
        'private': ['newd,2,ff0001fe,4'],
        'shared': ['newd,2,ff0001fe,4', 'cpy,3,2'],
        'orphan': ['newd,2,ff0001fe,4', 'cpy,3,2', 'del,3'],
        'same': [],
    }
    mut = ['setb,0,0', 'htp,0,0', 'asg,0,0', 'setb,0,2', 'htp,0,2', 'asg,0,2', 'setb,2,0', 'htp,2,0', 'asg,2,0',
           'setp,0,0102,2', 'setp,0,N,0', 'sets,0,-', 'sft,0,-', 'sft,0,31302c3230', 'sft,0,2c2c35', 'setraw,0,2,1,2', 'srraw,0,1,2,0,3',
           'srraw,2,0,0,0,3', 'setraw,0,1,0,3', 'srraw,0,3,1,1,2', 'srraw,1,0,0,0,3', 'srv,0,1,9,2', 'srv,0,4,9,1',
           'sr,0,3,0708,2', 'sr,0,4,07,1', 'sc,0,3,9', 'sc,0,4,9', 'sc,0,511,1', 'bo,0', 'rst,0', 'del,0', 'del,2',
           'setb,0,1', 'htp,0,1', 'asg,0,1', 'setb,1,0', 'htp,1,0', 'asg,1,0',
           'asgt,0,2', 'asgt,2,0', 'asgr,0,2', 'asgr,2,0', 'asgt,0,0', 'asgt,0,1', 'asgr,1,0', 'swap,0,2', 'swap,0,1', 'swap,0,0',
           'swap,2,0']
    for pn, p in prep.items():
        for sn, s in second.items():
            if sn == 'same' and 'new,3' in p:
                continue
            if 'new,3' in p and any(x.split(',')[1] == '3' and x.startswith('cpy') for x in s):
                continue
            for m in mut:
                for m2 in ('setb,0,0', 'sc,0,0,7', 'htp,2,0', 'del,0'):
                    if quick and rng.random() < 0.5:
                        continue
                    yield ' '.join(p + s + [m, m2, 'sc,1,1,200', 'sc,2,0,1'])
    # directed: the vector of buffers.  Every element shuffle (erase / insert / reverse / reallocation / resize)
    # between elements that are private, shared with a pool object or shared with each other, then an
    # in-place write into each position that received a value and a look at everybody else
    vprep = ['newd,0,0a0b0c0d,4', 'newd,1,0909,2']
    fills = [['vpush,1', 'vpush,0', 'vpush,0'], ['vpusht,0', 'vpush,1', 'vpusht,0'], ['vpush,0', 'vpush,0', 'vpush,1', 'vpush,1'],
             ['vpush,1', 'vresize,3', 'vpush,0'], ['vpush,0', 'sc,4,0,1', 'vpush,4', 'vpush,1']]
    shuffles = [['verase,0'], ['verase,1'], ['vins,0,1'], ['vins,1,0'], ['vins,1,4'], ['vrev'], ['vrealloc'], ['vpop', 'vins,0,0'],
                ['swap,4,5'], ['swap,4,1'], ['asgt,4,5'], ['asgr,5,0'], ['verase,0', 'verase,0'], ['vrealloc', 'verase,0'],
                ['vresize,1', 'vresize,4'], ['asgt,1,4'], ['swap,0,5']]
    writes = [['sc,4,0,77', 'sc,5,1,78'], ['htp,4,1', 'srv,5,1,50,2'], ['sr,4,0,c8c9,2', 'sc,6,0,5'], ['sc,0,0,200', 'sc,1,0,201'],
              ['sfs4'], ['bo,5', 'rst,4']]
    for fl in fills:
        for sh in shuffles:
            for wr in writes:
                if quick and rng.random() < 0.5:
                    continue
                wr = ['sft,4,372c38'] if wr == ['sfs4'] else wr
                yield ' '.join(vprep + fl + sh + wr + ['sc,0,3,9', 'verase,0', 'vresize,0'])
    n = 2600 if quick else 100000
    for c in range(n):
        big = rng.random() < (0.12 if quick else 0.2)
        nops = rng.choice([6, 10, 16, 24, 30])
        yield gen_case(rng, big, nops)


def nontrivial(payload, md):
    try:
        return int(md.get('acc', '0')) >= 1 and md.get('class', '').startswith('sharedmut')
    except ValueError:
        return False


LEVEL_TEXT = ('Coq theorems, for every pool size and every finite sequence of DmxBuffer operations (constructors, '
              'destructor, assignment, the Set family, range/slot writes, HTP merge, blackout, reset) including all '
              'self-operations: the reference-counted copy-on-write implementation model keeps its heap invariant, never '
              'reaches a use-after-free / out-of-block / null / overlapping-memcpy outcome, leaks no block, and refines '
              'the value model in which each buffer is an independent list of 0..512 slots (same return values, same '
              'answers to every read: Size, Get, GetRange, ToString, ==), so no operation on or destruction of one buffer '
              'changes what any other buffer shows, and refused operations change nothing.  The model is the code WITH '
              'fixes/01-self-set-guard.diff; the unfixed Set(const DmxBuffer&) is refuted inside Coq '
              '(c02_self_set_refuted).  Extension round: every constructor and every method of DmxBuffer.h is in the model '
              '(string constructor, operator!=, SetFromString on arbitrary text, pointers into another buffer obtained from '
              'GetRaw()); proved in addition: per-operation return values along whole histories, invisibility of '
              'uninitialised memory, every stored slot is a byte, ToString->SetFromString round trip after every history, '
              'the documented text format, and that destroying every buffer after any history frees every block.  Wave 6: '
              'assignment from a temporary / by-value return, std::swap and container erase are proved to have value semantics '
              'from every aliasing state (c02_assign_from_temporary(_then_write), c02_swap, c02_container_erase) and the harness '
              'exercises these C++ expressions and a std::vector<DmxBuffer> directly.  Wave 7: the stream operator yields exactly the '
              'ToString() text as one padded field whatever state the stream carries (c02_stream_text), checked on streams with '
              'non-default state including the state left behind.')
LEVEL_NOTE = ('Trusted: Coq kernel, extraction (ExtrOcamlBasic), OCaml/C++ glue, and that the hand-written model equals '
              'common/utils/DmxBuffer.cpp: validated by differential testing after every operation (API observables '
              'and refcount/cow/sharing/heap-block internals, ASan+UBSan build of the working tree), not proved.  '
              'Assumes new does not fail, < 2^32 sharers, caller arrays as long as the bytes read, single thread.')
TECHNIQUE = 'Coq refinement proof (concrete heap/refcount model -> value model) + extracted-model/implementation differential correspondence'
DESIGN_REF = 'DESIGN.md §4 C02'
