(* C13 — executable model of the built-in RDM responder machinery.
   Layer 1: ResponderOps<T>::HandleRDMRequest / HandleSupportedParams
            (include/ola/rdm/ResponderOpsPrivate.h), per-PID handlers are parameters.
   Layer 2: GetResponseWithPid / GetResponseFromData / NackWithReason (common/rdm/RDMCommand.cpp).
   Layer 3: the generic ResponderHelper parsers (common/rdm/ResponderHelper.cpp), the
            PersonalityManager / SlotDataCollection / Sensor / SettingManager lookups they use.
   Fan-out: SubDeviceDispatcher (common/rdm/SubDeviceDispatcher.cpp, with fixes 01 and 02 applied) and
            DimmerResponder::SendRDMRequest.
   Constants come from Gen.v (regenerated from the repository headers on every run). *)
From OlaBase Require Import Bytes.
From C13 Require Import Gen.
Local Open Scope N_scope.

Record request := mkReq {
  q_src : N; q_dst : N;          (* 48-bit UIDs: esta_id * 2^32 + device_id *)
  q_tn : N; q_port : N; q_sub : N; q_cc : N; q_pid : N; q_data : list N }.

Record response := mkResp {
  r_src : N; r_dst : N; r_tn : N; r_type : N; r_mc : N; r_sub : N; r_cc : N; r_pid : N;
  r_data : list N }.

(* what the completion callback receives: status code + response object (None = NULL) *)
Definition reply := (N * option response)%type.

(* ---- UID.h *)
Definition uid_manu (u : N) : N := u / 4294967296.
Definition uid_dev (u : N) : N := u mod 4294967296.
Definition is_broadcast (u : N) : bool := uid_dev u =? ALL_DEVICES.
Definition directed_to (dst uid : N) : bool :=
  (dst =? uid) ||
  (is_broadcast dst && ((uid_manu dst =? ALL_MANUFACTURERS) || (uid_manu dst =? uid_manu uid))).

(* ---- big endian (HostToNetwork + memcpy) *)
Fixpoint be_bytes (k : nat) (x : N) : list N :=
  match k with O => [] | S k' => be_bytes k' (x / 256) ++ [x mod 256] end.
Fixpoint read_be (l : list N) (i : N) (k : nat) (acc : N) : option N :=
  match k with
  | O => Some acc
  | S k' => match rd l i with
            | Some b => read_be l (i + 1) k' (acc * 256 + b)
            | None => None
            end
  end.

(* ---- layer 2: RDMCommand.cpp builders *)
Definition get_response_with_pid (q : request) (pid : N) (data : list N) (type mc : N)
  : option response :=
  if q_cc q =? GET_COMMAND then
    Some (mkResp (q_dst q) (q_src q) (q_tn q) type mc (q_sub q) GET_COMMAND_RESPONSE pid data)
  else if q_cc q =? SET_COMMAND then
    Some (mkResp (q_dst q) (q_src q) (q_tn q) type mc (q_sub q) SET_COMMAND_RESPONSE pid data)
  else if q_cc q =? DISCOVER_COMMAND then
    Some (mkResp (q_dst q) (q_src q) (q_tn q) type mc (q_sub q) DISCOVER_COMMAND_RESPONSE pid data)
  else None.
Definition get_response_from_data (q : request) (data : list N) (type mc : N) :=
  get_response_with_pid q (q_pid q) data type mc.
Definition nack_with_reason (q : request) (reason mc : N) :=
  get_response_from_data q (be_bytes 2 (u16 reason)) RDM_NACK_REASON mc.
Definition ack (q : request) (data : list N) (mc : N) := get_response_from_data q data RDM_ACK mc.

(* ---- layer 1: ResponderOps<Target> *)
Section Dispatch.
  Variable State : Type.
  Definition handler := request -> State -> option response * State.
  Record entry := mkEntry { e_get : option handler; e_set : option handler }.
  (* m_handlers: std::map<uint16_t, InternalParamHandler>, in key order *)
  Definition table := list (N * entry).

  Fixpoint lookup (t : table) (pid : N) : option entry :=
    match t with
    | [] => None
    | (p, e) :: r => if p =? pid then Some e else lookup r pid
    end.

  Definition hidden_pid (pid : N) : bool :=
    (pid =? PID_SUPPORTED_PARAMETERS) || (pid =? PID_PARAMETER_DESCRIPTION) ||
    (pid =? PID_DEVICE_INFO) || (pid =? PID_SOFTWARE_VERSION_LABEL) ||
    (pid =? PID_DMX_START_ADDRESS) || (pid =? PID_IDENTIFY_DEVICE).

  (* HandleSupportedParams; the std::sort is the identity on the keys of a std::map *)
  Definition supported_params (include_required : bool) (t : table) (q : request)
    : option response :=
    if negb (len (q_data q) =? 0) then nack_with_reason q NR_FORMAT_ERROR 0 else
    let pids := filter (fun p => include_required || negb (hidden_pid p)) (map fst t) in
    get_response_from_data q (flat_map (be_bytes 2) pids) RDM_ACK 0.

  Definition dispatch (include_required : bool) (t : table) (uid sub_device : N)
             (q : request) (st : State) : list reply * State :=
    let bcast := is_broadcast (q_dst q) in
    if negb (directed_to (q_dst q) uid) then
      ([(if bcast then RDM_WAS_BROADCAST else RDM_TIMEOUT, None)], st)
    else if q_cc q =? DISCOVER_COMMAND then
      ([(RDM_PLUGIN_DISCOVERY_NOT_SUPPORTED, None)], st)
    else if (q_cc q =? GET_COMMAND) && bcast then
      ([(RDM_WAS_BROADCAST, None)], st)
    else
      let for_our := (q_sub q =? sub_device) || (q_sub q =? ALL_RDM_SUBDEVICES) in
      if negb for_our then
        (if bcast then [(RDM_WAS_BROADCAST, None)]
         else [(RDM_COMPLETED_OK, nack_with_reason q NR_SUB_DEVICE_OUT_OF_RANGE 0)], st)
      else if (q_sub q =? ALL_RDM_SUBDEVICES) && (q_cc q =? GET_COMMAND) then
        ([(RDM_COMPLETED_OK, nack_with_reason q NR_SUB_DEVICE_OUT_OF_RANGE 0)], st)
      else
        match lookup t (q_pid q) with
        | None =>
          (if bcast then [(RDM_WAS_BROADCAST, None)]
           else [(RDM_COMPLETED_OK, nack_with_reason q NR_UNKNOWN_PID 0)], st)
        | Some e =>
          let '(status, resp, st') :=
            if q_cc q =? GET_COMMAND then
              if bcast then (RDM_WAS_BROADCAST, None, st)
              else match e_get e with
                   | Some h => let (r, s') := h q st in (RDM_COMPLETED_OK, r, s')
                   | None =>
                     if q_pid q =? PID_SUPPORTED_PARAMETERS
                     then (RDM_COMPLETED_OK, supported_params include_required t q, st)
                     else (RDM_COMPLETED_OK,
                           nack_with_reason q NR_UNSUPPORTED_COMMAND_CLASS 0, st)
                   end
            else if q_cc q =? SET_COMMAND then
              match e_set e with
              | Some h => let (r, s') := h q st in (RDM_COMPLETED_OK, r, s')
              | None => (RDM_COMPLETED_OK, nack_with_reason q NR_UNSUPPORTED_COMMAND_CLASS 0, st)
              end
            else (RDM_COMPLETED_OK, None, st) in
          if bcast then ([(RDM_WAS_BROADCAST, None)], st') else ([(status, resp)], st')
        end.

  (* ---- SubDeviceDispatcher; a device is any RDMControllerInterface: it may run the
     callback it is given any number of times *)
  Definition device := request -> State -> list reply * State.

  Inductive fres :=
  | FUseAfterFree                     (* a sub-device callback ran after the tracker was deleted *)
  | FOk (out : list reply) (st : State).

  Definition nack_if_not_broadcast (q : request) (reason : N) : list reply :=
    if is_broadcast (q_dst q) then [(RDM_WAS_BROADCAST, None)]
    else [(RDM_COMPLETED_OK, nack_with_reason q reason 0)].

  (* FanOutTracker: number of sub-devices, responses so far (both uint16_t), saved reply,
     alive = not yet deleted.  HandleSubDeviceResponse for one callback invocation. *)
  Record tracker := mkTr { t_n : N; t_sofar : N; t_saved : reply; t_alive : bool }.

  Definition handle_sub_response (tr : tracker) (r : reply) : option (tracker * list reply) :=
    if negb (t_alive tr) then None else
    (* fix 01: the response is copied only when there is one *)
    let saved := if t_sofar tr =? 0 then r else t_saved tr in
    let sofar := u16 (t_sofar tr + 1) in
    if sofar =? t_n tr then Some (mkTr (t_n tr) sofar saved false, [saved])
    else Some (mkTr (t_n tr) sofar saved true, []).

  Fixpoint feed (tr : tracker) (rs : list reply) (out : list reply)
    : option (tracker * list reply) :=
    match rs with
    | [] => Some (tr, out)
    | r :: rest => match handle_sub_response tr r with
                   | None => None
                   | Some (tr', o) => feed tr' rest (out ++ o)
                   end
    end.

  Fixpoint fan_loop (devs : list (N * device)) (q : request) (tr : tracker) (out : list reply)
           (st : State) : fres :=
    match devs with
    | [] => FOk out st
    | (_, d) :: rest =>
      let (rs, st') := d q st in
      match feed tr rs out with
      | None => FUseAfterFree
      | Some (tr', out') => fan_loop rest q tr' out' st'
      end
    end.

  Definition fan_out (devs : list (N * device)) (q : request) (st : State) : fres :=
    if q_cc q =? GET_COMMAND then FOk (nack_if_not_broadcast q NR_SUB_DEVICE_OUT_OF_RANGE) st
    else match devs with
         | [] => FOk (nack_if_not_broadcast q NR_SUB_DEVICE_OUT_OF_RANGE) st     (* fix 02 *)
         | _ => fan_loop devs q (mkTr (u16 (len devs)) 0 (RDM_COMPLETED_OK, None) true) [] st
         end.

  Fixpoint find_dev (devs : list (N * device)) (n : N) : option device :=
    match devs with
    | [] => None
    | (k, d) :: r => if k =? n then Some d else find_dev r n
    end.

  Definition subdev_send (devs : list (N * device)) (q : request) (st : State) : fres :=
    if q_sub q =? ALL_RDM_SUBDEVICES then fan_out devs q st
    else match find_dev devs (q_sub q) with
         | Some d => let (rs, st') := d q st in FOk rs st'
         | None => FOk (nack_if_not_broadcast q NR_SUB_DEVICE_OUT_OF_RANGE) st
         end.

  (* DimmerResponder::SendRDMRequest *)
  Definition dimmer_send (root : device) (devs : list (N * device)) (q : request) (st : State)
    : fres :=
    if q_sub q =? ROOT_RDM_DEVICE then let (rs, st') := root q st in FOk rs st'
    else subdev_send devs q st.
End Dispatch.

Arguments mkEntry {State}.
Arguments e_get {State}.
Arguments e_set {State}.
Arguments FUseAfterFree {State}.
Arguments FOk {State}.

(* ======================= layer 3: ResponderHelper ======================= *)
Inductive ext := EOob | EBad | EVal (v : N).
(* GenericExtractValue<T>, sizeof(T) = k *)
Definition extract (k : nat) (q : request) : ext :=
  if negb (len (q_data q) =? N.of_nat k) then EBad else
  match read_be (q_data q) 0 k 0 with Some v => EVal v | None => EOob end.

(* outcome of a helper: Oob = a read outside the parameter data / a container *)
Inductive hres (S : Type) :=
| HOob
| HR (r : option response) (s : S).
Arguments HOob {S}.
Arguments HR {S}.

Definition str_trunc (s : list N) (n : N) : list N := take (N.min (len s) n) s.

(* GetUInt8/16/32Value, SetUInt8/16/32Value *)
Definition get_uint (k : nat) (q : request) (v mc : N) : option response :=
  if negb (len (q_data q) =? 0) then nack_with_reason q NR_FORMAT_ERROR mc
  else ack q (be_bytes k v) mc.
Definition set_uint (k : nat) (q : request) (old mc : N) : hres N :=
  match extract k q with
  | EOob => HOob
  | EBad => HR (nack_with_reason q NR_FORMAT_ERROR mc) old
  | EVal v => HR (ack q [] mc) v
  end.
Definition get_bool (q : request) (v : bool) (mc : N) : option response :=
  if negb (len (q_data q) =? 0) then nack_with_reason q NR_FORMAT_ERROR mc
  else ack q [if v then 1 else 0] mc.
Definition set_bool (q : request) (old : bool) (mc : N) : hres bool :=
  match extract 1 q with
  | EOob => HOob
  | EBad => HR (nack_with_reason q NR_FORMAT_ERROR mc) old
  | EVal v => if (v =? 0) || (v =? 1) then HR (ack q [] mc) (v =? 1)
              else HR (nack_with_reason q NR_DATA_OUT_OF_RANGE mc) old
  end.
(* GetString: min(static_cast<uint8_t>(value.length()), max_length) *)
Definition get_string (q : request) (v : list N) (mc maxlen : N) : option response :=
  if negb (len (q_data q) =? 0) then nack_with_reason q NR_FORMAT_ERROR mc
  else ack q (take (N.min (u8 (len v)) maxlen) v) mc.
Definition set_string (q : request) (old : list N) (mc maxlen : N) : hres (list N) :=
  if maxlen <? len (q_data q) then HR (nack_with_reason q NR_FORMAT_ERROR mc) old
  else HR (ack q [] mc) (q_data q).

(* ---- personalities and slot data *)
Record slot := mkSlot { s_type : N; s_id : N; s_def : N; s_hasdesc : bool; s_desc : list N }.
Record pers := mkPers { p_fp : N; p_desc : list N; p_slots : list slot }.

(* PersonalityCollection::Lookup; None = NULL *)
Definition pers_lookup (ps : list pers) (n : N) : option pers :=
  if (n =? 0) || (len ps <? n) then None else nth_error ps (N.to_nat (n - 1)).
(* PersonalityManager::ActivePersonalityFootprint *)
Definition active_fp (ps : list pers) (active : N) : N :=
  match pers_lookup ps active with Some p => p_fp p | None => 0 end.

Definition get_personality (q : request) (ps : list pers) (active mc : N) : option response :=
  if negb (len (q_data q) =? 0) then nack_with_reason q NR_FORMAT_ERROR mc
  else ack q [active; u8 (len ps)] mc.

(* SetPersonality: start_address + Footprint() - 1 > DMX_UNIVERSE_SIZE in (signed) int *)
Definition set_personality (q : request) (ps : list pers) (active start mc : N) : hres N :=
  match extract 1 q with
  | EOob => HOob
  | EBad => HR (nack_with_reason q NR_FORMAT_ERROR mc) active
  | EVal n =>
    match pers_lookup ps n with
    | None => HR (nack_with_reason q NR_DATA_OUT_OF_RANGE mc) active
    | Some p =>
      if (Z.of_N DMX_UNIVERSE_SIZE <? Z.of_N start + Z.of_N (p_fp p) - 1)%Z
      then HR (nack_with_reason q NR_DATA_OUT_OF_RANGE mc) active
      else HR (ack q [] mc) n
    end
  end.

Definition get_personality_description (q : request) (ps : list pers) (mc : N)
  : hres unit :=
  match extract 1 q with
  | EOob => HOob
  | EBad => HR (nack_with_reason q NR_FORMAT_ERROR mc) tt
  | EVal n =>
    match pers_lookup ps n with
    | None => HR (nack_with_reason q NR_DATA_OUT_OF_RANGE mc) tt
    | Some p => HR (ack q ([n] ++ be_bytes 2 (p_fp p) ++
                           str_trunc (p_desc p) MAX_RDM_STRING_LENGTH) mc) tt
    end
  end.

Definition get_dmx_address (q : request) (ps : list pers) (active start mc : N) :=
  get_uint 2 q (if active_fp ps active =? 0 then ZERO_FOOTPRINT_DMX_ADDRESS else start) mc.

(* SetDmxAddress: note the FORMAT_ERROR nack does not carry the queued message count;
   uint16_t end_address = 1 + DMX_UNIVERSE_SIZE - footprint *)
Definition set_dmx_address (q : request) (ps : list pers) (active old mc : N) : hres N :=
  match extract 2 q with
  | EOob => HOob
  | EBad => HR (nack_with_reason q NR_FORMAT_ERROR 0) old
  | EVal a =>
    let fp := active_fp ps active in
    let end_address := u16 (1 + DMX_UNIVERSE_SIZE + 65536 - fp) in
    if (a =? 0) || (end_address <? a) then HR (nack_with_reason q NR_DATA_OUT_OF_RANGE mc) old
    else if fp =? 0 then HR (nack_with_reason q NR_DATA_OUT_OF_RANGE mc) old
    else HR (ack q [] mc) a
  end.

(* the active personality always exists in the real managers; None = NULL dereference *)
Definition active_slots (ps : list pers) (active : N) : option (list slot) :=
  match pers_lookup ps active with Some p => Some (p_slots p) | None => None end.

Fixpoint slot_info_bytes (i : N) (sl : list slot) : list N :=
  match sl with
  | [] => []
  | s :: r => be_bytes 2 (u16 i) ++ [u8 (s_type s)] ++ be_bytes 2 (s_id s) ++ slot_info_bytes (i + 1) r
  end.
Fixpoint slot_default_bytes (i : N) (sl : list slot) : list N :=
  match sl with
  | [] => []
  | s :: r => be_bytes 2 (u16 i) ++ [u8 (s_def s)] ++ slot_default_bytes (i + 1) r
  end.

Definition get_slot_info (q : request) (ps : list pers) (active mc : N) : hres unit :=
  if negb (len (q_data q) =? 0) then HR (nack_with_reason q NR_FORMAT_ERROR mc) tt else
  match active_slots ps active with
  | None => HOob
  | Some sl => HR (ack q (slot_info_bytes 0 sl) mc) tt
  end.
Definition get_slot_defaults (q : request) (ps : list pers) (active mc : N) : hres unit :=
  if negb (len (q_data q) =? 0) then HR (nack_with_reason q NR_FORMAT_ERROR mc) tt else
  match active_slots ps active with
  | None => HOob
  | Some sl => HR (ack q (slot_default_bytes 0 sl) mc) tt
  end.
Definition get_slot_description (q : request) (ps : list pers) (active mc : N) : hres unit :=
  match extract 2 q with
  | EOob => HOob
  | EBad => HR (nack_with_reason q NR_FORMAT_ERROR mc) tt
  | EVal n =>
    match active_slots ps active with
    | None => HOob
    | Some sl =>
      match (if len sl <=? n then None else nth_error sl (N.to_nat n)) with
      | None => HR (nack_with_reason q NR_DATA_OUT_OF_RANGE mc) tt
      | Some s =>
        if negb (s_hasdesc s) then HR (nack_with_reason q NR_DATA_OUT_OF_RANGE mc) tt
        else HR (ack q (be_bytes 2 n ++ str_trunc (s_desc s) MAX_RDM_STRING_LENGTH) mc) tt
      end
    end
  end.

(* GetDeviceInfo (the 11 argument form): a = model, category, version, footprint, personality,
   count, start, subdevices, sensors *)
Definition get_device_info (q : request) (model cat ver fp cur cnt start subs sens mc : N)
  : option response :=
  if negb (len (q_data q) =? 0) then nack_with_reason q NR_FORMAT_ERROR mc
  else ack q (be_bytes 2 RDM_VERSION_1_0 ++ be_bytes 2 model ++ be_bytes 2 cat ++ be_bytes 4 ver ++
              be_bytes 2 fp ++ [u8 cur; u8 cnt] ++ be_bytes 2 start ++ be_bytes 2 subs ++ [u8 sens]) mc.

(* ---- sensors (ResponderSensor.h); int16_t values are kept as their 16-bit patterns *)
Record sensor := mkSensor {
  sn_type : N; sn_unit : N; sn_prefix : N; sn_rmin : N; sn_rmax : N; sn_nmin : N; sn_nmax : N;
  sn_recv : bool; sn_recr : bool; sn_desc : list N;
  sn_poll : N;                      (* what PollSensor() returns *)
  sn_low : N; sn_high : N; sn_rec : N }.

Definition s16 (x : N) : N := (x + 32768) mod 65536.       (* order-preserving bias *)
Definition min16 (a b : N) : N := if s16 b <? s16 a then b else a.   (* std::min(a, b) *)
Definition max16 (a b : N) : N := if s16 a <? s16 b then b else a.   (* std::max(a, b) *)

Definition sn_set (s : sensor) (lo hi rc : N) : sensor :=
  mkSensor (sn_type s) (sn_unit s) (sn_prefix s) (sn_rmin s) (sn_rmax s) (sn_nmin s) (sn_nmax s)
           (sn_recv s) (sn_recr s) (sn_desc s) (sn_poll s) lo hi rc.
Definition sn_fetch (s : sensor) : N * sensor :=
  let v := sn_poll s in (v, sn_set s (min16 v (sn_low s)) (max16 v (sn_high s)) (sn_rec s)).
Definition sn_record (s : sensor) : sensor :=
  let (v, s') := sn_fetch s in sn_set s' (sn_low s') (sn_high s') v.
Definition sn_reset (s : sensor) : N * sensor :=
  let v := sn_poll s in (v, sn_set s v v v).
Definition sn_lowest (s : sensor) := if sn_recr s then sn_low s else SENSOR_RECORDED_RANGE_UNSUPPORTED.
Definition sn_highest (s : sensor) := if sn_recr s then sn_high s else SENSOR_RECORDED_RANGE_UNSUPPORTED.
Definition sn_recorded (s : sensor) := if sn_recv s then sn_rec s else SENSOR_RECORDED_UNSUPPORTED.
Definition sn_mask (s : sensor) : N :=
  (if sn_recv s then SENSOR_RECORDED_VALUE else 0) + (if sn_recr s then SENSOR_RECORDED_RANGE_VALUES else 0).

(* strncpy(buffer, s, n): n bytes, NUL padded *)
Definition pad_to (s : list N) (n : N) : list N :=
  take n s ++ repeat 0 (N.to_nat (n - N.min (len s) n)).

Fixpoint set_nth {A} (l : list A) (i : nat) (x : A) : list A :=
  match l, i with
  | [], _ => []
  | _ :: r, O => x :: r
  | a :: r, S i' => a :: set_nth r i' x
  end.

(* sensor_list.at(n) after the n >= size() check; None would be std::out_of_range *)
Definition get_sensor_definition (q : request) (ss : list sensor) : hres unit :=
  match extract 1 q with
  | EOob => HOob
  | EBad => HR (nack_with_reason q NR_FORMAT_ERROR 0) tt
  | EVal n =>
    if len ss <=? n then HR (nack_with_reason q NR_DATA_OUT_OF_RANGE 0) tt else
    match nth_error ss (N.to_nat n) with
    | None => HOob
    | Some s =>
      HR (ack q ([n; u8 (sn_type s); u8 (sn_unit s); u8 (sn_prefix s)] ++ be_bytes 2 (sn_rmin s) ++
                 be_bytes 2 (sn_rmax s) ++ be_bytes 2 (sn_nmin s) ++ be_bytes 2 (sn_nmax s) ++
                 [sn_mask s] ++ pad_to (sn_desc s) MAX_RDM_STRING_LENGTH) 0) tt
    end
  end.

Definition sensor_value_bytes (n v lo hi rc : N) : list N :=
  [n] ++ be_bytes 2 v ++ be_bytes 2 lo ++ be_bytes 2 hi ++ be_bytes 2 rc.

Definition get_sensor_value (q : request) (ss : list sensor) : hres (list sensor) :=
  match extract 1 q with
  | EOob => HOob
  | EBad => HR (nack_with_reason q NR_FORMAT_ERROR 0) ss
  | EVal n =>
    if len ss <=? n then HR (nack_with_reason q NR_DATA_OUT_OF_RANGE 0) ss else
    match nth_error ss (N.to_nat n) with
    | None => HOob
    | Some s =>
      let (v, s') := sn_fetch s in
      HR (ack q (sensor_value_bytes n v (sn_lowest s') (sn_highest s') (sn_recorded s')) 0)
         (set_nth ss (N.to_nat n) s')
    end
  end.

(* value = the last Reset() result (0 for an empty list) *)
Fixpoint reset_all (ss : list sensor) (v : N) : N * list sensor :=
  match ss with
  | [] => (v, [])
  | s :: r => let (v1, s') := sn_reset s in let (v2, r') := reset_all r v1 in (v2, s' :: r')
  end.

Definition set_sensor_value (q : request) (ss : list sensor) : hres (list sensor) :=
  match extract 1 q with
  | EOob => HOob
  | EBad => HR (nack_with_reason q NR_FORMAT_ERROR 0) ss
  | EVal n =>
    if n =? ALL_SENSORS then
      let (v, ss') := reset_all ss 0 in HR (ack q (sensor_value_bytes n v v v v) 0) ss'
    else if n <? len ss then
      match nth_error ss (N.to_nat n) with
      | None => HOob
      | Some s => let (v, s') := sn_reset s in
                  HR (ack q (sensor_value_bytes n v v v v) 0) (set_nth ss (N.to_nat n) s')
      end
    else HR (nack_with_reason q NR_DATA_OUT_OF_RANGE 0) ss
  end.

Definition record_sensor (q : request) (ss : list sensor) : hres (list sensor) :=
  match extract 1 q with
  | EOob => HOob
  | EBad => HR (nack_with_reason q NR_FORMAT_ERROR 0) ss
  | EVal n =>
    if (n =? ALL_SENSORS) && (0 <? len ss) then HR (ack q [] 0) (map sn_record ss)
    else if n <? len ss then
      match nth_error ss (N.to_nat n) with
      | None => HOob
      | Some s => HR (ack q [] 0) (set_nth ss (N.to_nat n) (sn_record s))
      end
    else HR (nack_with_reason q NR_DATA_OUT_OF_RANGE 0) ss
  end.

(* ---- SettingManager<BasicSetting> (ResponderSettings.h): descs = the collection,
   off = Offset() (0 or 1), cur = m_current_setting; Count() is uint8_t *)
Definition setting_get (q : request) (descs : list (list N)) (off cur : N) : option response :=
  let cnt := u8 (len descs) in
  let data := (cur + off) * 256 + cnt in          (* (cur + off) << 8 | count, count < 256 *)
  let data := if off =? 0 then u16 (data + 65535) else u16 data in
  get_uint 2 q data 0.
Definition setting_set (q : request) (descs : list (list N)) (off cur : N) : hres N :=
  match extract 1 q with
  | EOob => HOob
  | EBad => HR (nack_with_reason q NR_FORMAT_ERROR 0) cur
  | EVal a =>
    if (a <? off) || (u8 (len descs) + off <=? a) then HR (nack_with_reason q NR_DATA_OUT_OF_RANGE 0) cur
    else HR (ack q [] 0) (a - off)
  end.
(* Lookup(index): index > size -> NULL (then dereferenced), else &m_settings[index] *)
Definition setting_get_description (q : request) (descs : list (list N)) (off : N) : hres unit :=
  match extract 1 q with
  | EOob => HOob
  | EBad => HR (nack_with_reason q NR_FORMAT_ERROR 0) tt
  | EVal a =>
    if (a =? 0) || (u8 (len descs) + off <=? a) then HR (nack_with_reason q NR_DATA_OUT_OF_RANGE 0) tt
    else match nth_error descs (N.to_nat (a - off)) with
         | None => HOob
         | Some d => HR (ack q ([a] ++ str_trunc d MAX_RDM_STRING_LENGTH) 0) tt
         end
  end.

(* ---- TEST_DATA *)
Fixpoint pattern (n : nat) (i : N) : list N :=
  match n with O => [] | S n' => (i mod 256) :: pattern n' (i + 1) end.
Definition get_test_data (q : request) (mc : N) : hres unit :=
  match extract 2 q with
  | EOob => HOob
  | EBad => HR (nack_with_reason q NR_FORMAT_ERROR mc) tt
  | EVal n => if MAX_RDM_TEST_DATA_PATTERN_LENGTH <? n
              then HR (nack_with_reason q NR_DATA_OUT_OF_RANGE mc) tt
              else HR (ack q (pattern (N.to_nat n) 0) mc) tt
  end.
Definition set_test_data (q : request) (mc : N) : option response := ack q (q_data q) mc.

(* ---- DimmerRootDevice::SetDmxBlockAddress over its sub-devices; a sub-device is seen through
   Footprint() and its start address *)
Definition dsub := (N * N)%type.                       (* footprint, start address *)
(* bool DimmerSubDevice::SetDmxStartAddress(uint16_t): refused addresses change nothing *)
Definition dsub_set_start (s : dsub) (a : N) : dsub :=
  if (a <? 1) || (Z.of_N DMX_UNIVERSE_SIZE <? Z.of_N a + Z.of_N (fst s) - 1)%Z then s else (fst s, a).
Fixpoint sum_fp (l : list dsub) (acc : N) : N :=          (* uint16_t total_footprint += ... *)
  match l with [] => acc | s :: r => sum_fp r (u16 (acc + fst s)) end.
Fixpoint block_apply (l : list dsub) (base : N) : list dsub :=
  match l with
  | [] => []
  | s :: r => dsub_set_start s base :: block_apply r (u16 (base + fst s))
  end.
Definition set_dmx_block_address (q : request) (l : list dsub) : hres (list dsub) :=
  match extract 2 q with
  | EOob => HOob
  | EBad => HR (nack_with_reason q NR_FORMAT_ERROR 0) l
  | EVal b =>
    let total := sum_fp l 0 in
    if (b <? 1) || (Z.of_N DMX_MAX_SLOT_VALUE <? Z.of_N b + Z.of_N total - 1)%Z
    then HR (nack_with_reason q NR_DATA_OUT_OF_RANGE 0) l
    else HR (get_response_from_data q [] RDM_ACK 0) (block_apply l b)
  end.
