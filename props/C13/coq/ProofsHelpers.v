(* C13 — proofs about the generic ResponderHelper parsers (layer 3) *)
From OlaBase Require Import Bytes.
From C13 Require Import Gen Model Chk Proofs.
Local Open Scope N_scope.

(* what the property asks of one helper call: no out-of-range read, a conformant ACK/NACK,
   and an untouched state whenever the answer is a NACK *)
Definition good {S} (q : request) (st : S) (x : hres S) : Prop :=
  match x with
  | HOob => False
  | HR None _ => False
  | HR (Some r) st' => resp_ok q r /\ (r_type r = RDM_NACK_REASON -> st' = st)
  end.
Definition good_r (q : request) (x : option response) : Prop :=
  match x with None => False | Some r => resp_ok q r end.

Lemma good_nack {S} q (st : S) reason mc :
  wf_cc q -> reason <= NR_INVALID_PORT -> good q st (HR (nack_with_reason q reason mc) st).
Proof.
  intros W H. destruct (nack_spec q reason mc W H) as (r & E & O & _). rewrite E. cbn. auto.
Qed.
Lemma good_ack {S} q (st st' : S) data mc :
  wf_cc q -> len data <= MAX_PDL -> good q st (HR (ack q data mc) st').
Proof.
  intros W H. destruct (ack_spec q data mc W H) as (r & E & O & T & _). rewrite E. cbn.
  split; [exact O|]. rewrite T. discriminate.
Qed.
Lemma good_r_nack q reason mc :
  wf_cc q -> reason <= NR_INVALID_PORT -> good_r q (nack_with_reason q reason mc).
Proof. intros W H. destruct (nack_spec q reason mc W H) as (r & E & O & _). rewrite E. exact O. Qed.
Lemma good_r_ack q data mc : wf_cc q -> len data <= MAX_PDL -> good_r q (ack q data mc).
Proof. intros W H. destruct (ack_spec q data mc W H) as (r & E & O & _). rewrite E. exact O. Qed.

(* GenericExtractValue never reads outside the parameter data *)
Lemma read_be_some l : forall k i acc, i + N.of_nat k <= len l -> exists v, read_be l i k acc = Some v.
Proof.
  induction k as [|k IH]; intros i acc H; cbn [read_be]; [eauto|].
  destruct (rd_lt_some l i) as (b & Eb); [lia|]. rewrite Eb. apply IH. lia.
Qed.
Lemma extract_not_oob k q : extract k q <> EOob.
Proof.
  unfold extract. destruct (len (q_data q) =? N.of_nat k) eqn:E; cbn [negb]; [|discriminate].
  apply N.eqb_eq in E. destruct (read_be_some (q_data q) k 0 0) as (v & Ev); [lia|].
  rewrite Ev. discriminate.
Qed.

Ltac nk := first [apply good_nack | apply good_r_nack]; [assumption | vm_compute; discriminate].
Ltac ak := first [apply good_ack | apply good_r_ack]; [assumption | try (unfold len; cbn; unfold MAX_PDL; lia)].
Ltac ext k q := let E := fresh "E" in
  pose proof (extract_not_oob k q); destruct (extract k q) eqn:E; [congruence| |].

Lemma len_be_bytes k x : len (be_bytes k x) = N.of_nat k.
Proof.
  induction k as [|k IH] in x |- *; [reflexivity|].
  cbn [be_bytes]. rewrite len_app, IH. unfold len; cbn [length]. lia.
Qed.

Lemma get_uint_ok k q v mc : wf_cc q -> (k <= 4)%nat -> good_r q (get_uint k q v mc).
Proof.
  intros W K. unfold get_uint. destruct (negb (len (q_data q) =? 0)); [nk|].
  apply good_r_ack; [assumption|]. rewrite len_be_bytes. unfold MAX_PDL. lia.
Qed.
Lemma set_uint_ok k q old mc : wf_cc q -> good q old (set_uint k q old mc).
Proof. intros W. unfold set_uint. ext k q; [nk|ak]. Qed.
Lemma get_bool_ok q v mc : wf_cc q -> good_r q (get_bool q v mc).
Proof. intros W. unfold get_bool. destruct (negb (len (q_data q) =? 0)); [nk|ak]. Qed.
Lemma set_bool_ok q old mc : wf_cc q -> good q old (set_bool q old mc).
Proof.
  intros W. unfold set_bool. ext 1%nat q; [nk|].
  destruct ((v =? 0) || (v =? 1)); [ak|nk].
Qed.
Lemma len_take_le {A} n (l : list A) : len (take n l) <= n.
Proof. unfold take, len. rewrite firstn_length. lia. Qed.
Lemma get_string_ok q v mc maxlen :
  wf_cc q -> (maxlen <= MAX_PDL \/ len v <= MAX_PDL) -> good_r q (get_string q v mc maxlen).
Proof.
  intros W H. unfold get_string. destruct (negb (len (q_data q) =? 0)); [nk|].
  apply good_r_ack; [assumption|].
  pose proof (len_take_le (N.min (u8 (len v)) maxlen) v) as L1.
  assert (L2 : len (take (N.min (u8 (len v)) maxlen) v) <= len v).
  { unfold take, len. rewrite firstn_length. lia. }
  destruct H; lia.
Qed.
Lemma set_string_ok q old mc maxlen : wf_cc q -> good q old (set_string q old mc maxlen).
Proof. intros W. unfold set_string. destruct (maxlen <? len (q_data q)); [nk|ak]. Qed.

Lemma get_personality_ok q ps active mc : wf_cc q -> good_r q (get_personality q ps active mc).
Proof. intros W. unfold get_personality. destruct (negb (len (q_data q) =? 0)); [nk|ak]. Qed.
Lemma set_personality_ok q ps active start mc :
  wf_cc q -> good q active (set_personality q ps active start mc).
Proof.
  intros W. unfold set_personality. ext 1%nat q; [nk|].
  destruct (pers_lookup ps v); [|nk].
  destruct (Z.of_N DMX_UNIVERSE_SIZE <? Z.of_N start + Z.of_N (p_fp p) - 1)%Z; [nk|ak].
Qed.
Lemma len_str_trunc s n : len (str_trunc s n) <= n.
Proof. unfold str_trunc. pose proof (len_take_le (N.min (len s) n) s). lia. Qed.
Lemma get_personality_description_ok q ps mc :
  wf_cc q -> good q tt (get_personality_description q ps mc).
Proof.
  intros W. unfold get_personality_description. ext 1%nat q; [nk|].
  destruct (pers_lookup ps v); [|nk].
  apply good_ack; [assumption|]. rewrite !len_app, len_be_bytes.
  pose proof (len_str_trunc (p_desc p) MAX_RDM_STRING_LENGTH).
  unfold len at 1; cbn [length]. unfold MAX_RDM_STRING_LENGTH, MAX_PDL in *. lia.
Qed.
Lemma get_dmx_address_ok q ps active start mc :
  wf_cc q -> good_r q (get_dmx_address q ps active start mc).
Proof. intros W. unfold get_dmx_address. apply get_uint_ok; [assumption|lia]. Qed.
Lemma set_dmx_address_ok q ps active old mc :
  wf_cc q -> good q old (set_dmx_address q ps active old mc).
Proof.
  intros W. unfold set_dmx_address. ext 2%nat q; [nk|].
  destruct ((v =? 0) || (u16 (1 + DMX_UNIVERSE_SIZE + 65536 - active_fp ps active) <? v)); [nk|].
  destruct (active_fp ps active =? 0); [nk|ak].
Qed.
(* an accepted start address keeps the footprint inside the universe (footprint <= 512) *)
Lemma set_dmx_address_range q ps active old mc r a :
  active_fp ps active <= DMX_UNIVERSE_SIZE ->
  set_dmx_address q ps active old mc = HR (Some r) a -> r_type r = RDM_ACK -> wf_cc q ->
  1 <= a /\ a + active_fp ps active <= DMX_UNIVERSE_SIZE + 1.
Proof.
  intros FP. unfold set_dmx_address. intros H T W. ext 2%nat q.
  - destruct (nack_spec q NR_FORMAT_ERROR 0 W) as (r' & E' & _ & T' & _); [vm_compute; discriminate|].
    rewrite E' in H. inversion H; subst. rewrite T' in T. discriminate.
  - destruct ((v =? 0) || (u16 (1 + DMX_UNIVERSE_SIZE + 65536 - active_fp ps active) <? v)) eqn:C.
    { destruct (nack_spec q NR_DATA_OUT_OF_RANGE mc W) as (r' & E' & _ & T' & _); [vm_compute; discriminate|].
      rewrite E' in H. inversion H; subst. rewrite T' in T. discriminate. }
    destruct (active_fp ps active =? 0) eqn:Z.
    { destruct (nack_spec q NR_DATA_OUT_OF_RANGE mc W) as (r' & E' & _ & T' & _); [vm_compute; discriminate|].
      rewrite E' in H. inversion H; subst. rewrite T' in T. discriminate. }
    inversion H; subst. apply Bool.orb_false_iff in C as [C1 C2].
    apply N.eqb_neq in C1, Z. apply N.ltb_ge in C2.
    unfold u16, DMX_UNIVERSE_SIZE in *. lia.
Qed.

Lemma setting_get_ok q descs off cur : wf_cc q -> good_r q (setting_get q descs off cur).
Proof. intros W. unfold setting_get. apply get_uint_ok; [assumption|lia]. Qed.
Lemma setting_set_ok q descs off cur : wf_cc q -> good q cur (setting_set q descs off cur).
Proof.
  intros W. unfold setting_set. ext 1%nat q; [nk|].
  destruct ((v <? off) || (u8 (len descs) + off <=? v)); [nk|ak].
Qed.
Lemma setting_get_description_ok q descs off :
  wf_cc q -> len descs < 256 -> off <= 1 -> good q tt (setting_get_description q descs off).
Proof.
  intros W L O. unfold setting_get_description. ext 1%nat q; [nk|].
  destruct ((v =? 0) || (u8 (len descs) + off <=? v)) eqn:C; [nk|].
  apply Bool.orb_false_iff in C as [C1 C2]. apply N.eqb_neq in C1. apply N.leb_gt in C2.
  rewrite u8_id in C2 by exact L.
  destruct (nth_error descs (N.to_nat (v - off))) eqn:EN.
  - apply good_ack; [assumption|]. rewrite len_app.
    pose proof (len_str_trunc l MAX_RDM_STRING_LENGTH).
    unfold len at 1; cbn [length]. unfold MAX_RDM_STRING_LENGTH, MAX_PDL in *. lia.
  - apply nth_error_None in EN. unfold len in *. lia.
Qed.

Lemma nth_error_lt {A} (l : list A) n : n < len l -> exists x, nth_error l (N.to_nat n) = Some x.
Proof.
  intros H. destruct (nth_error l (N.to_nat n)) eqn:E; [eauto|].
  apply nth_error_None in E. unfold len in H. lia.
Qed.
Lemma len_sensor_value_bytes n v lo hi rc : len (sensor_value_bytes n v lo hi rc) = 9.
Proof. reflexivity. Qed.

Lemma get_sensor_value_ok q ss : wf_cc q -> good q ss (get_sensor_value q ss).
Proof.
  intros W. unfold get_sensor_value. ext 1%nat q; [nk|].
  destruct (len ss <=? v) eqn:C; [nk|]. apply N.leb_gt in C.
  destruct (nth_error_lt ss v C) as (s & Es). rewrite Es.
  destruct (sn_fetch s). apply good_ack; [assumption|]. rewrite len_sensor_value_bytes. vm_compute; discriminate.
Qed.
Lemma set_sensor_value_ok q ss : wf_cc q -> good q ss (set_sensor_value q ss).
Proof.
  intros W. unfold set_sensor_value. ext 1%nat q; [nk|].
  destruct (v =? ALL_SENSORS).
  - destruct (reset_all ss 0). apply good_ack; [assumption|]. rewrite len_sensor_value_bytes. vm_compute; discriminate.
  - destruct (v <? len ss) eqn:C; [|nk]. apply N.ltb_lt in C.
    destruct (nth_error_lt ss v C) as (s & Es). rewrite Es.
    destruct (sn_reset s). apply good_ack; [assumption|]. rewrite len_sensor_value_bytes. vm_compute; discriminate.
Qed.
Lemma record_sensor_ok q ss : wf_cc q -> good q ss (record_sensor q ss).
Proof.
  intros W. unfold record_sensor. ext 1%nat q; [nk|].
  destruct ((v =? ALL_SENSORS) && (0 <? len ss)); [ak|].
  destruct (v <? len ss) eqn:C; [|nk]. apply N.ltb_lt in C.
  destruct (nth_error_lt ss v C) as (s & Es). rewrite Es. ak.
Qed.
Lemma len_pad_to s n : len (pad_to s n) = n.
Proof.
  unfold pad_to. rewrite len_app. unfold len at 2. rewrite repeat_length.
  unfold take, len. rewrite firstn_length. lia.
Qed.
Lemma get_sensor_definition_ok q ss : wf_cc q -> good q tt (get_sensor_definition q ss).
Proof.
  intros W. unfold get_sensor_definition. ext 1%nat q; [nk|].
  destruct (len ss <=? v) eqn:C; [nk|]. apply N.leb_gt in C.
  destruct (nth_error_lt ss v C) as (s & Es). rewrite Es.
  apply good_ack; [assumption|]. rewrite !len_app, !len_be_bytes, len_pad_to.
  unfold len; cbn [length]. vm_compute; discriminate.
Qed.

(* TEST_DATA: the known finding and the guarded statement *)
Lemma len_pattern n i : len (pattern n i) = N.of_nat n.
Proof. induction n as [|n IH] in i |- *; [reflexivity|]. cbn [pattern]. rewrite len_cons, IH. lia. Qed.
Lemma get_test_data_partial q mc :
  wf_cc q ->
  (forall hi lo, q_data q = [hi; lo] -> hi < 256 -> lo < 256 ->
                 hi * 256 + lo <= MAX_PDL \/ MAX_RDM_TEST_DATA_PATTERN_LENGTH < hi * 256 + lo) ->
  bytes_ok (q_data q) = true ->
  good q tt (get_test_data q mc).
Proof.
  intros W G BO. unfold get_test_data, extract.
  destruct (len (q_data q) =? N.of_nat 2) eqn:L; cbn [negb]; [|nk].
  destruct (q_data q) as [|hi [|lo [|x l]]] eqn:D; try discriminate L;
    try (exfalso; apply N.eqb_eq in L; unfold len in L; cbn [length] in L; lia).
  cbn [read_be]. unfold rd; cbn [nth_error N.to_nat Pos.to_nat Pos.iter_op Nat.add].
  change (N.to_nat 0) with 0%nat. cbn [nth_error].
  change (N.to_nat (0 + 1)) with 1%nat. cbn [nth_error].
  cbn [bytes_ok forallb] in BO. apply andb_prop in BO as [B1 B2]. apply andb_prop in B2 as [B2 _].
  unfold byte_ok in *. apply N.ltb_lt in B1, B2.
  replace ((0 * 256 + hi) * 256 + lo) with (hi * 256 + lo) by lia.
  destruct (MAX_RDM_TEST_DATA_PATTERN_LENGTH <? hi * 256 + lo) eqn:C; [nk|].
  apply N.ltb_ge in C. apply good_ack; [assumption|]. rewrite len_pattern, N2Nat.id.
  destruct (G hi lo eq_refl B1 B2); lia.
Qed.
Definition testdata_witness : request := mkReq 1 2 0 1 0 GET_COMMAND PID_TEST_DATA [0; 232].
Lemma get_test_data_refuted :
  exists r, get_test_data testdata_witness 0 = HR (Some r) tt /\ r_type r = RDM_ACK /\
            len (r_data r) = 232.
Proof. eexists. split; [vm_compute; reflexivity|]. split; reflexivity. Qed.
Lemma set_test_data_ok q mc : wf_cc q -> len (q_data q) <= MAX_PDL -> good_r q (set_test_data q mc).
Proof. intros W L. unfold set_test_data. apply good_r_ack; assumption. Qed.

(* ---- device info and slot data ---- *)
Lemma get_device_info_ok q model cat ver fp cur cnt start subs sens mc :
  wf_cc q -> good_r q (get_device_info q model cat ver fp cur cnt start subs sens mc).
Proof.
  intros W. unfold get_device_info. destruct (negb (len (q_data q) =? 0)); [nk|].
  apply good_r_ack; [assumption|]. rewrite !len_app, !len_be_bytes. unfold len; cbn [length].
  vm_compute. discriminate.
Qed.

Lemma len_slot_info_bytes sl : forall i, len (slot_info_bytes i sl) = 5 * len sl.
Proof.
  induction sl as [|s r IH]; intros i; [reflexivity|].
  cbn [slot_info_bytes]. rewrite !len_app, !len_be_bytes, IH, !len_cons, len_nil. lia.
Qed.
Lemma len_slot_default_bytes sl : forall i, len (slot_default_bytes i sl) = 3 * len sl.
Proof.
  induction sl as [|s r IH]; intros i; [reflexivity|].
  cbn [slot_default_bytes]. rewrite !len_app, !len_be_bytes, IH, !len_cons, len_nil. lia.
Qed.

(* the active personality exists (true of every PersonalityManager: SetActivePersonality validates) and
   its slot table fits one response: 5 bytes per slot, i.e. at most 46 slots *)
Lemma get_slot_info_ok q ps active mc sl :
  wf_cc q -> active_slots ps active = Some sl -> 5 * len sl <= MAX_PDL ->
  good q tt (get_slot_info q ps active mc).
Proof.
  intros W A L. unfold get_slot_info. destruct (negb (len (q_data q) =? 0)); [nk|].
  rewrite A. apply good_ack; [assumption|]. rewrite len_slot_info_bytes. exact L.
Qed.
Lemma get_slot_defaults_ok q ps active mc sl :
  wf_cc q -> active_slots ps active = Some sl -> 3 * len sl <= MAX_PDL ->
  good q tt (get_slot_defaults q ps active mc).
Proof.
  intros W A L. unfold get_slot_defaults. destruct (negb (len (q_data q) =? 0)); [nk|].
  rewrite A. apply good_ack; [assumption|]. rewrite len_slot_default_bytes. exact L.
Qed.
Lemma get_slot_description_ok q ps active mc sl :
  wf_cc q -> active_slots ps active = Some sl -> good q tt (get_slot_description q ps active mc).
Proof.
  intros W A. unfold get_slot_description. ext 2%nat q; [nk|].
  rewrite A. destruct (len sl <=? v); [nk|].
  destruct (nth_error sl (N.to_nat v)) as [s|]; [|nk].
  destruct (negb (s_hasdesc s)); [nk|].
  apply good_ack; [assumption|]. rewrite len_app, len_be_bytes.
  pose proof (len_str_trunc (s_desc s) MAX_RDM_STRING_LENGTH).
  unfold MAX_RDM_STRING_LENGTH, MAX_PDL in *. lia.
Qed.

(* DimmerRootDevice::SetDmxBlockAddress is all-or-nothing: a NACK leaves every sub-device alone *)
Lemma set_dmx_block_address_ok q l : wf_cc q -> good q l (set_dmx_block_address q l).
Proof.
  intros W. unfold set_dmx_block_address. ext 2%nat q; [nk|].
  destruct ((v <? 1) || (Z.of_N DMX_MAX_SLOT_VALUE <? Z.of_N v + Z.of_N (sum_fp l 0) - 1)%Z); [nk|].
  change (get_response_from_data q [] RDM_ACK 0) with (ack q [] 0). ak.
Qed.
