(* C13 — executable model of AdvancedDimmerResponder (common/rdm/AdvancedDimmerResponder.cpp), handler by handler:
   lock state / PIN, presets, fail and start-up modes, the four SettingManagers, levels. *)
From OlaBase Require Import Bytes.
From C13 Require Import Gen GenTables Model AckTimer Responders MovingLight.
Local Open Scope N_scope.

(* class Preset: fade up, fade down, wait, programmed *)
Definition preset := (N * N * N * N)%type.
Definition PRESET_NOT_PROGRAMMED : N := 0.
Definition PRESET_PROGRAMMED : N := 1.
Definition PRESET_PROGRAMMED_READ_ONLY : N := 2.
Definition p_prog (p : preset) : N := snd p.

Record ad_state := mkAD {
  ad_ident : bool;
  ad_start : N;
  ad_pin : N;
  ad_max_level : N;
  ad_mode : N;
  ad_burn : N;
  ad_post : bool;
  ad_active : N;
  ad_curve : N;
  ad_resp : N;
  ad_lock : N;
  ad_freq : N;
  ad_presets : list preset;
  ad_scene : N;
  ad_level : N;
  ad_merge : N;
  ad_min : N * N * N;
  ad_fail : N * N * N * N;
  ad_startup : N * N * N * N }.

Definition ad_set_ident (st : ad_state) (v : bool) : ad_state :=
  mkAD v (ad_start st) (ad_pin st) (ad_max_level st) (ad_mode st) (ad_burn st) (ad_post st) (ad_active st) (ad_curve st) (ad_resp st) (ad_lock st) (ad_freq st) (ad_presets st) (ad_scene st) (ad_level st) (ad_merge st) (ad_min st) (ad_fail st) (ad_startup st).
Definition ad_set_start (st : ad_state) (v : N) : ad_state :=
  mkAD (ad_ident st) v (ad_pin st) (ad_max_level st) (ad_mode st) (ad_burn st) (ad_post st) (ad_active st) (ad_curve st) (ad_resp st) (ad_lock st) (ad_freq st) (ad_presets st) (ad_scene st) (ad_level st) (ad_merge st) (ad_min st) (ad_fail st) (ad_startup st).
Definition ad_set_pin (st : ad_state) (v : N) : ad_state :=
  mkAD (ad_ident st) (ad_start st) v (ad_max_level st) (ad_mode st) (ad_burn st) (ad_post st) (ad_active st) (ad_curve st) (ad_resp st) (ad_lock st) (ad_freq st) (ad_presets st) (ad_scene st) (ad_level st) (ad_merge st) (ad_min st) (ad_fail st) (ad_startup st).
Definition ad_set_max_level (st : ad_state) (v : N) : ad_state :=
  mkAD (ad_ident st) (ad_start st) (ad_pin st) v (ad_mode st) (ad_burn st) (ad_post st) (ad_active st) (ad_curve st) (ad_resp st) (ad_lock st) (ad_freq st) (ad_presets st) (ad_scene st) (ad_level st) (ad_merge st) (ad_min st) (ad_fail st) (ad_startup st).
Definition ad_set_mode (st : ad_state) (v : N) : ad_state :=
  mkAD (ad_ident st) (ad_start st) (ad_pin st) (ad_max_level st) v (ad_burn st) (ad_post st) (ad_active st) (ad_curve st) (ad_resp st) (ad_lock st) (ad_freq st) (ad_presets st) (ad_scene st) (ad_level st) (ad_merge st) (ad_min st) (ad_fail st) (ad_startup st).
Definition ad_set_burn (st : ad_state) (v : N) : ad_state :=
  mkAD (ad_ident st) (ad_start st) (ad_pin st) (ad_max_level st) (ad_mode st) v (ad_post st) (ad_active st) (ad_curve st) (ad_resp st) (ad_lock st) (ad_freq st) (ad_presets st) (ad_scene st) (ad_level st) (ad_merge st) (ad_min st) (ad_fail st) (ad_startup st).
Definition ad_set_post (st : ad_state) (v : bool) : ad_state :=
  mkAD (ad_ident st) (ad_start st) (ad_pin st) (ad_max_level st) (ad_mode st) (ad_burn st) v (ad_active st) (ad_curve st) (ad_resp st) (ad_lock st) (ad_freq st) (ad_presets st) (ad_scene st) (ad_level st) (ad_merge st) (ad_min st) (ad_fail st) (ad_startup st).
Definition ad_set_active (st : ad_state) (v : N) : ad_state :=
  mkAD (ad_ident st) (ad_start st) (ad_pin st) (ad_max_level st) (ad_mode st) (ad_burn st) (ad_post st) v (ad_curve st) (ad_resp st) (ad_lock st) (ad_freq st) (ad_presets st) (ad_scene st) (ad_level st) (ad_merge st) (ad_min st) (ad_fail st) (ad_startup st).
Definition ad_set_curve (st : ad_state) (v : N) : ad_state :=
  mkAD (ad_ident st) (ad_start st) (ad_pin st) (ad_max_level st) (ad_mode st) (ad_burn st) (ad_post st) (ad_active st) v (ad_resp st) (ad_lock st) (ad_freq st) (ad_presets st) (ad_scene st) (ad_level st) (ad_merge st) (ad_min st) (ad_fail st) (ad_startup st).
Definition ad_set_resp (st : ad_state) (v : N) : ad_state :=
  mkAD (ad_ident st) (ad_start st) (ad_pin st) (ad_max_level st) (ad_mode st) (ad_burn st) (ad_post st) (ad_active st) (ad_curve st) v (ad_lock st) (ad_freq st) (ad_presets st) (ad_scene st) (ad_level st) (ad_merge st) (ad_min st) (ad_fail st) (ad_startup st).
Definition ad_set_lock (st : ad_state) (v : N) : ad_state :=
  mkAD (ad_ident st) (ad_start st) (ad_pin st) (ad_max_level st) (ad_mode st) (ad_burn st) (ad_post st) (ad_active st) (ad_curve st) (ad_resp st) v (ad_freq st) (ad_presets st) (ad_scene st) (ad_level st) (ad_merge st) (ad_min st) (ad_fail st) (ad_startup st).
Definition ad_set_freq (st : ad_state) (v : N) : ad_state :=
  mkAD (ad_ident st) (ad_start st) (ad_pin st) (ad_max_level st) (ad_mode st) (ad_burn st) (ad_post st) (ad_active st) (ad_curve st) (ad_resp st) (ad_lock st) v (ad_presets st) (ad_scene st) (ad_level st) (ad_merge st) (ad_min st) (ad_fail st) (ad_startup st).
Definition ad_set_presets (st : ad_state) (v : list preset) : ad_state :=
  mkAD (ad_ident st) (ad_start st) (ad_pin st) (ad_max_level st) (ad_mode st) (ad_burn st) (ad_post st) (ad_active st) (ad_curve st) (ad_resp st) (ad_lock st) (ad_freq st) v (ad_scene st) (ad_level st) (ad_merge st) (ad_min st) (ad_fail st) (ad_startup st).
Definition ad_set_scene (st : ad_state) (v : N) : ad_state :=
  mkAD (ad_ident st) (ad_start st) (ad_pin st) (ad_max_level st) (ad_mode st) (ad_burn st) (ad_post st) (ad_active st) (ad_curve st) (ad_resp st) (ad_lock st) (ad_freq st) (ad_presets st) v (ad_level st) (ad_merge st) (ad_min st) (ad_fail st) (ad_startup st).
Definition ad_set_level (st : ad_state) (v : N) : ad_state :=
  mkAD (ad_ident st) (ad_start st) (ad_pin st) (ad_max_level st) (ad_mode st) (ad_burn st) (ad_post st) (ad_active st) (ad_curve st) (ad_resp st) (ad_lock st) (ad_freq st) (ad_presets st) (ad_scene st) v (ad_merge st) (ad_min st) (ad_fail st) (ad_startup st).
Definition ad_set_merge (st : ad_state) (v : N) : ad_state :=
  mkAD (ad_ident st) (ad_start st) (ad_pin st) (ad_max_level st) (ad_mode st) (ad_burn st) (ad_post st) (ad_active st) (ad_curve st) (ad_resp st) (ad_lock st) (ad_freq st) (ad_presets st) (ad_scene st) (ad_level st) v (ad_min st) (ad_fail st) (ad_startup st).
Definition ad_set_min (st : ad_state) (v : N * N * N) : ad_state :=
  mkAD (ad_ident st) (ad_start st) (ad_pin st) (ad_max_level st) (ad_mode st) (ad_burn st) (ad_post st) (ad_active st) (ad_curve st) (ad_resp st) (ad_lock st) (ad_freq st) (ad_presets st) (ad_scene st) (ad_level st) (ad_merge st) v (ad_fail st) (ad_startup st).
Definition ad_set_fail (st : ad_state) (v : N * N * N * N) : ad_state :=
  mkAD (ad_ident st) (ad_start st) (ad_pin st) (ad_max_level st) (ad_mode st) (ad_burn st) (ad_post st) (ad_active st) (ad_curve st) (ad_resp st) (ad_lock st) (ad_freq st) (ad_presets st) (ad_scene st) (ad_level st) (ad_merge st) (ad_min st) v (ad_startup st).
Definition ad_set_startup (st : ad_state) (v : N * N * N * N) : ad_state :=
  mkAD (ad_ident st) (ad_start st) (ad_pin st) (ad_max_level st) (ad_mode st) (ad_burn st) (ad_post st) (ad_active st) (ad_curve st) (ad_resp st) (ad_lock st) (ad_freq st) (ad_presets st) (ad_scene st) (ad_level st) (ad_merge st) (ad_min st) (ad_fail st) v.

Definition ad_pers : list pers := map (fun p => mkPers (fst p) (snd p) []) ADV_PERSONALITIES.
Definition CURVES : list (list N) := ADV_CURVES.
Definition RESPONSE_TIMES : list (list N) := ADV_RESPONSE_TIMES.
Definition LOCK_STATES : list (list N) := ADV_LOCK_STATES.
Definition PWM_FREQUENCIES : list (N * list N) := ADV_PWM_FREQUENCIES.

Definition ad_init : ad_state :=
  mkAD false 1 0 ADV_UPPER_MAX_LEVEL IDENTIFY_MODE_QUIET 0 true 1 1 1 0 1
       [(0, 0, 0, PRESET_PROGRAMMED_READ_ONLY); (0, 0, 0, 0); (0, 0, 0, 0); (0, 0, 0, 0); (0, 0, 0, 0); (0, 0, 0, 0)]
       0 0 0 (10, 20, 1) (0, ADV_MIN_FAIL_DELAY_TIME, ADV_MIN_FAIL_HOLD_TIME, 0)
       (0, ADV_MIN_STARTUP_DELAY_TIME, ADV_MIN_STARTUP_HOLD_TIME, 255).
Definition ad_fp (st : ad_state) : N := active_fp ad_pers (ad_active st).

(* a SET of a fixed-size structure: length check, then the handler's own validation on the bytes *)
Definition with_len (k : N) (q : request) (st : ad_state) (f : list N -> option response * ad_state)
  : option response * ad_state :=
  if negb (len (q_data q) =? k) then (nack_with_reason q NR_FORMAT_ERROR 0, st) else f (q_data q).
Definition w16 (hi lo : N) : N := hi * 256 + lo.
Definition nackd (q : request) (st : ad_state) := (nack_with_reason q NR_DATA_OUT_OF_RANGE 0, st).
Definition nackw (q : request) (st : ad_state) := (nack_with_reason q NR_WRITE_PROTECT 0, st).

Definition ad_device_info : handler ad_state := fun q st =>
  (get_device_info q OLA_E137_DIMMER_MODEL PRODUCT_CATEGORY_DIMMER 1 (ad_fp st) (ad_active st) (u8 (len ad_pers))
                   (if ad_fp st =? 0 then ZERO_FOOTPRINT_DMX_ADDRESS else ad_start st) 0 0 0, st).
Definition ad_product_detail : handler ad_state := fun q st =>
  (get_product_detail_list q [PRODUCT_DETAIL_TEST] 0, st).
Definition ad_get_personality : handler ad_state := fun q st => (get_personality q ad_pers (ad_active st) 0, st).
(* lock settings: zero offset, CurrentSetting() = m_current_setting *)
Definition ad_set_personality_h : handler ad_state := fun q st =>
  if 1 <? ad_lock st then nackw q st
  else lift_set (set_personality q ad_pers (ad_active st) (ad_start st) 0) st (ad_set_active st).
Definition ad_personality_description : handler ad_state := fun q st =>
  lift_set (get_personality_description q ad_pers 0) st (fun _ => st).
Definition ad_get_start : handler ad_state := fun q st =>
  (get_dmx_address q ad_pers (ad_active st) (ad_start st) 0, st).
Definition ad_set_start_h : handler ad_state := fun q st =>
  if 0 <? ad_lock st then nackw q st
  else lift_set (set_dmx_address q ad_pers (ad_active st) (ad_start st) 0) st (ad_set_start st).

Definition fm_bytes (m : N * N * N * N) : list N :=
  match m with (sc, dl, hd, lv) => be_bytes 2 sc ++ be_bytes 2 dl ++ be_bytes 2 hd ++ [u8 lv] end.
(* delay == INFINITE_TIME ? INFINITE_TIME : max(lo, min(hi, delay)) *)
Definition clamp_time (lo hi v : N) : N := if v =? ADV_INFINITE_TIME then ADV_INFINITE_TIME else N.max lo (N.min hi v).
Definition set_mode_struct (q : request) (st : ad_state) (dlo dhi hlo hhi : N)
           (upd : ad_state -> N * N * N * N -> ad_state) : option response * ad_state :=
  with_len 7 q st (fun d =>
    match d with
    | [s1; s0; d1; d0; h1; h0; lv] =>
      if len (ad_presets st) <=? w16 s1 s0 then nackd q st
      else (ack q [] 0, upd st (w16 s1 s0, clamp_time dlo dhi (w16 d1 d0), clamp_time hlo hhi (w16 h1 h0), lv))
    | _ => (None, st)
    end).
Definition ad_get_fail : handler ad_state := fun q st => (get_noarg q (fm_bytes (ad_fail st)), st).
Definition ad_set_fail_h : handler ad_state := fun q st => set_mode_struct q st ADV_MIN_FAIL_DELAY_TIME ADV_MAX_FAIL_DELAY_TIME ADV_MIN_FAIL_HOLD_TIME ADV_MAX_FAIL_HOLD_TIME ad_set_fail.
Definition ad_get_startup : handler ad_state := fun q st => (get_noarg q (fm_bytes (ad_startup st)), st).
Definition ad_set_startup_h : handler ad_state := fun q st => set_mode_struct q st ADV_MIN_STARTUP_DELAY_TIME ADV_MAX_STARTUP_DELAY_TIME ADV_MIN_STARTUP_HOLD_TIME ADV_MAX_STARTUP_HOLD_TIME ad_set_startup.

Definition ad_dimmer_info : handler ad_state := fun q st =>
  (get_noarg q (be_bytes 2 ADV_LOWER_MIN_LEVEL ++ be_bytes 2 ADV_UPPER_MIN_LEVEL ++ be_bytes 2 ADV_LOWER_MAX_LEVEL ++
                be_bytes 2 ADV_UPPER_MAX_LEVEL ++ [u8 (len CURVES); ADV_DIMMER_RESOLUTION; 1]), st).
Definition ad_get_min : handler ad_state := fun q st =>
  (get_noarg q (match ad_min st with (i, d, o) => be_bytes 2 i ++ be_bytes 2 d ++ [u8 o] end), st).
Definition ad_set_min_h : handler ad_state := fun q st =>
  with_len 5 q st (fun d =>
    match d with
    | [i1; i0; d1; d0; o] =>
      if (ADV_UPPER_MIN_LEVEL <? w16 d1 d0) || (ADV_UPPER_MIN_LEVEL <? w16 i1 i0) || (1 <? o) then nackd q st
      else (ack q [] 0, ad_set_min st (w16 i1 i0, w16 d1 d0, o))
    | _ => (None, st)
    end).
Definition ad_get_max : handler ad_state := fun q st => (get_uint 2 q (ad_max_level st) 0, st).
Definition set_u16_range (q : request) (old lo hi : N) : hres N :=
  match extract 2 q with
  | EOob => HOob
  | EBad => HR (nack_with_reason q NR_FORMAT_ERROR 0) old
  | EVal v => if (v <? lo) || (hi <? v) then HR (nack_with_reason q NR_DATA_OUT_OF_RANGE 0) old
              else HR (ack q [] 0) v
  end.
Definition ad_set_max_h : handler ad_state := fun q st =>
  lift_set (set_u16_range q (ad_max_level st) ADV_LOWER_MAX_LEVEL ADV_UPPER_MAX_LEVEL) st (ad_set_max_level st).

(* the four SettingManagers; frequency descriptions carry the frequency and are not truncated *)
Definition ad_get_curve : handler ad_state := fun q st => (setting_get q CURVES 1 (ad_curve st), st).
Definition ad_set_curve_h : handler ad_state := fun q st =>
  lift_set (setting_set q CURVES 1 (ad_curve st)) st (ad_set_curve st).
Definition ad_curve_description : handler ad_state := fun q st =>
  lift_set (setting_get_description q CURVES 1) st (fun _ => st).
Definition ad_get_resp : handler ad_state := fun q st => (setting_get q RESPONSE_TIMES 1 (ad_resp st), st).
Definition ad_set_resp_h : handler ad_state := fun q st =>
  lift_set (setting_set q RESPONSE_TIMES 1 (ad_resp st)) st (ad_set_resp st).
Definition ad_resp_description : handler ad_state := fun q st =>
  lift_set (setting_get_description q RESPONSE_TIMES 1) st (fun _ => st).
Definition ad_get_freq : handler ad_state := fun q st => (setting_get q (map snd PWM_FREQUENCIES) 1 (ad_freq st), st).
Definition ad_set_freq_h : handler ad_state := fun q st =>
  lift_set (setting_set q (map snd PWM_FREQUENCIES) 1 (ad_freq st)) st (ad_set_freq st).
(* FrequencyModulationSetting::GenerateDescriptionResponse returns 5 + description.size() bytes of a 37 byte
   buffer: a description longer than 32 bytes would be read past the buffer *)
Definition freq_get_description (q : request) (fs : list (N * list N)) (off : N) : hres unit :=
  match extract 1 q with
  | EOob => HOob
  | EBad => HR (nack_with_reason q NR_FORMAT_ERROR 0) tt
  | EVal a =>
    if (a =? 0) || (u8 (len fs) + off <=? a) then HR (nack_with_reason q NR_DATA_OUT_OF_RANGE 0) tt
    else match nth_error fs (N.to_nat (a - off)) with
         | None => HOob
         | Some (f, d) => if MAX_RDM_STRING_LENGTH <? len d then HOob
                          else HR (ack q ([a] ++ be_bytes 4 f ++ d) 0) tt
         end
  end.
Definition ad_freq_description : handler ad_state := fun q st =>
  lift_set (freq_get_description q PWM_FREQUENCIES 1) st (fun _ => st).
Definition ad_get_lock : handler ad_state := fun q st => (setting_get q LOCK_STATES 0 (ad_lock st), st).
(* LockManager::SetWithPin *)
Definition ad_set_lock_h : handler ad_state := fun q st =>
  with_len 3 q st (fun d =>
    match d with
    | [p1; p0; s] =>
      if negb (w16 p1 p0 =? ad_pin st) then nackd q st
      else if u8 (len LOCK_STATES) <=? s then nackd q st       (* ChangeSetting, offset 0 *)
      else (ack q [] 0, ad_set_lock st s)
    | _ => (None, st)
    end).
Definition ad_lock_description : handler ad_state := fun q st =>
  lift_set (setting_get_description q LOCK_STATES 0) st (fun _ => st).
Definition ad_get_pin : handler ad_state := fun q st => (get_uint 2 q (ad_pin st) 0, st).
Definition ad_set_pin_h : handler ad_state := fun q st =>
  with_len 4 q st (fun d =>
    match d with
    | [n1; n0; c1; c0] =>
      if negb (w16 c1 c0 =? ad_pin st) then nackd q st
      else if MAX_LOCK_PIN_V <? w16 n1 n0 then (nack_with_reason q NR_FORMAT_ERROR 0, st)
      else (ack q [] 0, ad_set_pin st (w16 n1 n0))
    | _ => (None, st)
    end).

Definition ad_get_burn : handler ad_state := fun q st => (get_uint 1 q (ad_burn st) 0, st).
Definition set_burn_in (q : request) (old : N) : hres N :=
  match extract 1 q with
  | EOob => HOob
  | EBad => HR (nack_with_reason q NR_FORMAT_ERROR 0) old
  | EVal v => HR (ack q [] 0) (if v =? 0 then 0 else v - 1)
  end.
Definition ad_set_burn_h : handler ad_state := fun q st =>
  lift_set (set_burn_in q (ad_burn st)) st (ad_set_burn st).
Definition ad_get_identify : handler ad_state := fun q st => (get_bool q (ad_ident st) 0, st).
Definition ad_set_identify_h : handler ad_state := fun q st =>
  lift_set (set_bool q (ad_ident st) 0) st (ad_set_ident st).
Definition ad_get_mode : handler ad_state := fun q st => (get_uint 1 q (ad_mode st) 0, st).
Definition ad_set_mode_h : handler ad_state := fun q st =>
  lift_set (set_identify_mode q (ad_mode st)) st (ad_set_mode st).
Definition ad_get_post : handler ad_state := fun q st => (get_bool q (ad_post st) 0, st).
Definition ad_set_post_h : handler ad_state := fun q st =>
  lift_set (set_bool q (ad_post st) 0) st (ad_set_post st).

(* presets; m_presets[i] after the range checks, None = outside the vector *)
Definition preset_at (st : ad_state) (i : N) : option preset := nth_error (ad_presets st) (N.to_nat i).
Definition put_preset (st : ad_state) (i : N) (p : preset) : ad_state :=
  ad_set_presets st (set_nth (ad_presets st) (N.to_nat i) p).
Definition ad_capture_preset : handler ad_state := fun q st =>
  with_len 8 q st (fun d =>
    match d with
    | [s1; s0; u1; u0; f1; f0; w1; w0] =>
      let sc := w16 s1 s0 in
      if (sc =? 0) || (len (ad_presets st) <=? sc) then nackd q st else
      match preset_at st (sc - 1) with
      | None => (None, st)
      | Some p => if p_prog p =? PRESET_PROGRAMMED_READ_ONLY then nackw q st
                  else (ack q [] 0, put_preset st (sc - 1) (w16 u1 u0, w16 f1 f0, w16 w1 w0, PRESET_PROGRAMMED))
      end
    | _ => (None, st)
    end).
Definition ad_get_playback : handler ad_state := fun q st =>
  (get_noarg q (be_bytes 2 (ad_scene st) ++ [u8 (ad_level st)]), st).
Definition ad_set_playback_h : handler ad_state := fun q st =>
  with_len 3 q st (fun d =>
    match d with
    | [m1; m0; lv] =>
      if (len (ad_presets st) <=? w16 m1 m0) && negb (w16 m1 m0 =? 65535) then nackd q st
      else (ack q [] 0, ad_set_level (ad_set_scene st (w16 m1 m0)) lv)
    | _ => (None, st)
    end).
Definition ad_get_preset_status : handler ad_state := fun q st =>
  match extract 2 q with
  | EOob => (None, st)
  | EBad => (nack_with_reason q NR_FORMAT_ERROR 0, st)
  | EVal a =>
    if (a =? 0) || (len (ad_presets st) <? a) then nackd q st else
    match preset_at st (a - 1) with
    | None => (None, st)
    | Some (u, f, w, pr) => (ack q (be_bytes 2 a ++ be_bytes 2 u ++ be_bytes 2 f ++ be_bytes 2 w ++ [u8 pr]) 0, st)
    end
  end.
Definition ad_set_preset_status_h : handler ad_state := fun q st =>
  with_len 9 q st (fun d =>
    match d with
    | [s1; s0; u1; u0; f1; f0; w1; w0; cl] =>
      let sc := w16 s1 s0 in
      if (sc =? 0) || (len (ad_presets st) <? sc) then nackd q st else
      match preset_at st (sc - 1) with
      | None => (None, st)
      | Some p =>
        if p_prog p =? PRESET_PROGRAMMED_READ_ONLY then nackw q st
        else if 1 <? cl then nackd q st
        else if cl =? 1 then (ack q [] 0, put_preset st (sc - 1) (0, 0, 0, PRESET_NOT_PROGRAMMED))
        else (ack q [] 0, put_preset st (sc - 1) (w16 u1 u0, w16 f1 f0, w16 w1 w0, PRESET_PROGRAMMED))
      end
    | _ => (None, st)
    end).
(* min/max fade and wait times are stored without HostToNetwork (little endian on the wire) *)
Definition ad_preset_info : handler ad_state := fun q st =>
  (get_noarg q ([1; 1; 1; 1; 1; 1] ++ be_bytes 2 (u16 (len (ad_presets st))) ++ [0; 0; 254; 255; 0; 0; 254; 255] ++
                be_bytes 2 ADV_MIN_FAIL_DELAY_TIME ++ be_bytes 2 ADV_MAX_FAIL_DELAY_TIME ++ be_bytes 2 ADV_MIN_FAIL_HOLD_TIME ++
                be_bytes 2 ADV_MAX_FAIL_HOLD_TIME ++ be_bytes 2 ADV_MIN_STARTUP_DELAY_TIME ++
                be_bytes 2 ADV_MAX_STARTUP_DELAY_TIME ++ be_bytes 2 ADV_MIN_STARTUP_HOLD_TIME ++
                be_bytes 2 ADV_MAX_STARTUP_HOLD_TIME), st).
Definition ad_get_merge : handler ad_state := fun q st => (get_noarg q [u8 (ad_merge st)], st).
Definition ad_set_merge_h : handler ad_state := fun q st =>
  lift_set (set_uint8_pred q (ad_merge st) (fun v => v <=? MERGEMODE_DMX_ONLY_V)) st (ad_set_merge st).

Definition ad_table (c : at_cfg) : table ad_state :=
  [ (PID_SUPPORTED_PARAMETERS, mkEntry None None);
    (PID_DEVICE_INFO, mkEntry (Some ad_device_info) None);
    (PID_PRODUCT_DETAIL_ID_LIST, mkEntry (Some ad_product_detail) None);
    (PID_DEVICE_MODEL_DESCRIPTION, mkEntry (Some (str_handler c_model c)) None);
    (PID_MANUFACTURER_LABEL, mkEntry (Some (str_handler c_manu c)) None);
    (PID_DEVICE_LABEL, mkEntry (Some (str_handler c_label c)) None);
    (PID_SOFTWARE_VERSION_LABEL, mkEntry (Some (str_handler c_version c)) None);
    (PID_DMX_PERSONALITY, mkEntry (Some ad_get_personality) (Some ad_set_personality_h));
    (PID_DMX_PERSONALITY_DESCRIPTION, mkEntry (Some ad_personality_description) None);
    (PID_DMX_START_ADDRESS, mkEntry (Some ad_get_start) (Some ad_set_start_h));
    (321, mkEntry (Some ad_get_fail) (Some ad_set_fail_h));
    (322, mkEntry (Some ad_get_startup) (Some ad_set_startup_h));
    (832, mkEntry (Some ad_dimmer_info) None);
    (833, mkEntry (Some ad_get_min) (Some ad_set_min_h));
    (834, mkEntry (Some ad_get_max) (Some ad_set_max_h));
    (835, mkEntry (Some ad_get_curve) (Some ad_set_curve_h));
    (836, mkEntry (Some ad_curve_description) None);
    (837, mkEntry (Some ad_get_resp) (Some ad_set_resp_h));
    (838, mkEntry (Some ad_resp_description) None);
    (839, mkEntry (Some ad_get_freq) (Some ad_set_freq_h));
    (840, mkEntry (Some ad_freq_description) None);
    (1088, mkEntry (Some ad_get_burn) (Some ad_set_burn_h));
    (1600, mkEntry (Some ad_get_pin) (Some ad_set_pin_h));
    (1601, mkEntry (Some ad_get_lock) (Some ad_set_lock_h));
    (1602, mkEntry (Some ad_lock_description) None);
    (PID_IDENTIFY_DEVICE, mkEntry (Some ad_get_identify) (Some ad_set_identify_h));
    (4144, mkEntry None (Some ad_capture_preset));
    (4145, mkEntry (Some ad_get_playback) (Some ad_set_playback_h));
    (PID_IDENTIFY_MODE, mkEntry (Some ad_get_mode) (Some ad_set_mode_h));
    (4161, mkEntry (Some ad_preset_info) None);
    (4162, mkEntry (Some ad_get_preset_status) (Some ad_set_preset_status_h));
    (4163, mkEntry (Some ad_get_merge) (Some ad_set_merge_h));
    (4164, mkEntry (Some ad_get_post) (Some ad_set_post_h)) ].

Definition ad_send (c : at_cfg) (uid : N) (q : request) (st : ad_state) : list reply * ad_state :=
  dispatch ad_state false (ad_table c) uid ROOT_RDM_DEVICE q st.
Fixpoint ad_run (c : at_cfg) (uid : N) (h : list request) (st : ad_state)
  : list (list reply) * ad_state :=
  match h with
  | [] => ([], st)
  | q :: rest => let (out, st1) := ad_send c uid q st in
                 let (outs, st2) := ad_run c uid rest st1 in (out :: outs, st2)
  end.
