(* C13 — executable model of MovingLightResponder (common/rdm/MovingLightResponder.cpp): every handler as
   the ResponderHelper call it is, on the ResponderOps dispatch.  The personalities and their slot data are
   regenerated from the source (GenTables.PERS_MovingLightResponder). *)
From OlaBase Require Import Bytes.
From C13 Require Import Gen GenTables Model AckTimer Responders.
Local Open Scope N_scope.

Definition mk_pers (raw : list (N * list N * list (N * N * N * bool * list N))) : list pers :=
  map (fun p => match p with (fp, d, sl) =>
         mkPers fp d (map (fun s => match s with (t, i, dv, hd, ds) => mkSlot t i dv hd ds end) sl) end) raw.
Definition ml_pers : list pers := mk_pers PERS_MovingLightResponder.

(* label strings, VERSION, and what time()/localtime_r() give during the request *)
Record ml_cfg := mkMC { mc_strs : at_cfg; mc_codever : list N;
                        mc_year : N; mc_mon : N; mc_day : N; mc_hour : N; mc_min : N; mc_sec : N }.

Record ml_state := mkML {
  ml_start : N;
  ml_lang : list N;
  ml_ident : bool;
  ml_pan_inv : bool;
  ml_tilt_inv : bool;
  ml_dev_hours : N;
  ml_lamp_hours : N;
  ml_lamp_strikes : N;
  ml_lamp_state : N;
  ml_lamp_on_mode : N;
  ml_power_cycles : N;
  ml_disp_inv : N;
  ml_disp_level : N;
  ml_swap : bool;
  ml_power : N;
  ml_label : list N;
  ml_active : N }.

Definition ml_set_start (st : ml_state) (v : N) : ml_state :=
  mkML v (ml_lang st) (ml_ident st) (ml_pan_inv st) (ml_tilt_inv st) (ml_dev_hours st) (ml_lamp_hours st) (ml_lamp_strikes st) (ml_lamp_state st) (ml_lamp_on_mode st) (ml_power_cycles st) (ml_disp_inv st) (ml_disp_level st) (ml_swap st) (ml_power st) (ml_label st) (ml_active st).
Definition ml_set_lang (st : ml_state) (v : list N) : ml_state :=
  mkML (ml_start st) v (ml_ident st) (ml_pan_inv st) (ml_tilt_inv st) (ml_dev_hours st) (ml_lamp_hours st) (ml_lamp_strikes st) (ml_lamp_state st) (ml_lamp_on_mode st) (ml_power_cycles st) (ml_disp_inv st) (ml_disp_level st) (ml_swap st) (ml_power st) (ml_label st) (ml_active st).
Definition ml_set_ident (st : ml_state) (v : bool) : ml_state :=
  mkML (ml_start st) (ml_lang st) v (ml_pan_inv st) (ml_tilt_inv st) (ml_dev_hours st) (ml_lamp_hours st) (ml_lamp_strikes st) (ml_lamp_state st) (ml_lamp_on_mode st) (ml_power_cycles st) (ml_disp_inv st) (ml_disp_level st) (ml_swap st) (ml_power st) (ml_label st) (ml_active st).
Definition ml_set_pan_inv (st : ml_state) (v : bool) : ml_state :=
  mkML (ml_start st) (ml_lang st) (ml_ident st) v (ml_tilt_inv st) (ml_dev_hours st) (ml_lamp_hours st) (ml_lamp_strikes st) (ml_lamp_state st) (ml_lamp_on_mode st) (ml_power_cycles st) (ml_disp_inv st) (ml_disp_level st) (ml_swap st) (ml_power st) (ml_label st) (ml_active st).
Definition ml_set_tilt_inv (st : ml_state) (v : bool) : ml_state :=
  mkML (ml_start st) (ml_lang st) (ml_ident st) (ml_pan_inv st) v (ml_dev_hours st) (ml_lamp_hours st) (ml_lamp_strikes st) (ml_lamp_state st) (ml_lamp_on_mode st) (ml_power_cycles st) (ml_disp_inv st) (ml_disp_level st) (ml_swap st) (ml_power st) (ml_label st) (ml_active st).
Definition ml_set_dev_hours (st : ml_state) (v : N) : ml_state :=
  mkML (ml_start st) (ml_lang st) (ml_ident st) (ml_pan_inv st) (ml_tilt_inv st) v (ml_lamp_hours st) (ml_lamp_strikes st) (ml_lamp_state st) (ml_lamp_on_mode st) (ml_power_cycles st) (ml_disp_inv st) (ml_disp_level st) (ml_swap st) (ml_power st) (ml_label st) (ml_active st).
Definition ml_set_lamp_hours (st : ml_state) (v : N) : ml_state :=
  mkML (ml_start st) (ml_lang st) (ml_ident st) (ml_pan_inv st) (ml_tilt_inv st) (ml_dev_hours st) v (ml_lamp_strikes st) (ml_lamp_state st) (ml_lamp_on_mode st) (ml_power_cycles st) (ml_disp_inv st) (ml_disp_level st) (ml_swap st) (ml_power st) (ml_label st) (ml_active st).
Definition ml_set_lamp_strikes (st : ml_state) (v : N) : ml_state :=
  mkML (ml_start st) (ml_lang st) (ml_ident st) (ml_pan_inv st) (ml_tilt_inv st) (ml_dev_hours st) (ml_lamp_hours st) v (ml_lamp_state st) (ml_lamp_on_mode st) (ml_power_cycles st) (ml_disp_inv st) (ml_disp_level st) (ml_swap st) (ml_power st) (ml_label st) (ml_active st).
Definition ml_set_lamp_state (st : ml_state) (v : N) : ml_state :=
  mkML (ml_start st) (ml_lang st) (ml_ident st) (ml_pan_inv st) (ml_tilt_inv st) (ml_dev_hours st) (ml_lamp_hours st) (ml_lamp_strikes st) v (ml_lamp_on_mode st) (ml_power_cycles st) (ml_disp_inv st) (ml_disp_level st) (ml_swap st) (ml_power st) (ml_label st) (ml_active st).
Definition ml_set_lamp_on_mode (st : ml_state) (v : N) : ml_state :=
  mkML (ml_start st) (ml_lang st) (ml_ident st) (ml_pan_inv st) (ml_tilt_inv st) (ml_dev_hours st) (ml_lamp_hours st) (ml_lamp_strikes st) (ml_lamp_state st) v (ml_power_cycles st) (ml_disp_inv st) (ml_disp_level st) (ml_swap st) (ml_power st) (ml_label st) (ml_active st).
Definition ml_set_power_cycles (st : ml_state) (v : N) : ml_state :=
  mkML (ml_start st) (ml_lang st) (ml_ident st) (ml_pan_inv st) (ml_tilt_inv st) (ml_dev_hours st) (ml_lamp_hours st) (ml_lamp_strikes st) (ml_lamp_state st) (ml_lamp_on_mode st) v (ml_disp_inv st) (ml_disp_level st) (ml_swap st) (ml_power st) (ml_label st) (ml_active st).
Definition ml_set_disp_inv (st : ml_state) (v : N) : ml_state :=
  mkML (ml_start st) (ml_lang st) (ml_ident st) (ml_pan_inv st) (ml_tilt_inv st) (ml_dev_hours st) (ml_lamp_hours st) (ml_lamp_strikes st) (ml_lamp_state st) (ml_lamp_on_mode st) (ml_power_cycles st) v (ml_disp_level st) (ml_swap st) (ml_power st) (ml_label st) (ml_active st).
Definition ml_set_disp_level (st : ml_state) (v : N) : ml_state :=
  mkML (ml_start st) (ml_lang st) (ml_ident st) (ml_pan_inv st) (ml_tilt_inv st) (ml_dev_hours st) (ml_lamp_hours st) (ml_lamp_strikes st) (ml_lamp_state st) (ml_lamp_on_mode st) (ml_power_cycles st) (ml_disp_inv st) v (ml_swap st) (ml_power st) (ml_label st) (ml_active st).
Definition ml_set_swap (st : ml_state) (v : bool) : ml_state :=
  mkML (ml_start st) (ml_lang st) (ml_ident st) (ml_pan_inv st) (ml_tilt_inv st) (ml_dev_hours st) (ml_lamp_hours st) (ml_lamp_strikes st) (ml_lamp_state st) (ml_lamp_on_mode st) (ml_power_cycles st) (ml_disp_inv st) (ml_disp_level st) v (ml_power st) (ml_label st) (ml_active st).
Definition ml_set_power (st : ml_state) (v : N) : ml_state :=
  mkML (ml_start st) (ml_lang st) (ml_ident st) (ml_pan_inv st) (ml_tilt_inv st) (ml_dev_hours st) (ml_lamp_hours st) (ml_lamp_strikes st) (ml_lamp_state st) (ml_lamp_on_mode st) (ml_power_cycles st) (ml_disp_inv st) (ml_disp_level st) (ml_swap st) v (ml_label st) (ml_active st).
Definition ml_set_label (st : ml_state) (v : list N) : ml_state :=
  mkML (ml_start st) (ml_lang st) (ml_ident st) (ml_pan_inv st) (ml_tilt_inv st) (ml_dev_hours st) (ml_lamp_hours st) (ml_lamp_strikes st) (ml_lamp_state st) (ml_lamp_on_mode st) (ml_power_cycles st) (ml_disp_inv st) (ml_disp_level st) (ml_swap st) (ml_power st) v (ml_active st).
Definition ml_set_active (st : ml_state) (v : N) : ml_state :=
  mkML (ml_start st) (ml_lang st) (ml_ident st) (ml_pan_inv st) (ml_tilt_inv st) (ml_dev_hours st) (ml_lamp_hours st) (ml_lamp_strikes st) (ml_lamp_state st) (ml_lamp_on_mode st) (ml_power_cycles st) (ml_disp_inv st) (ml_disp_level st) (ml_swap st) (ml_power st) (ml_label st) v.

Definition ml_init : ml_state :=
  mkML 1 (* "en" *) [101; 110] false false false 0 0 0 LAMP_ON_V LAMP_ON_MODE_DMX_V 0 DISPLAY_INVERT_AUTO_V 255 false POWER_STATE_NORMAL_V
       (* "Dummy Moving Light" *) [68; 117; 109; 109; 121; 32; 77; 111; 118; 105; 110; 103; 32; 76; 105; 103; 104; 116] 1.

Definition ml_fp (st : ml_state) : N := active_fp ml_pers (ml_active st).

(* SET of a uint8 enum: Extract, range / membership check, store *)
Definition set_uint8_pred (q : request) (old : N) (ok : N -> bool) : hres N :=
  match extract 1 q with
  | EOob => HOob
  | EBad => HR (nack_with_reason q NR_FORMAT_ERROR 0) old
  | EVal v => if ok v then HR (ack q [] 0) v else HR (nack_with_reason q NR_DATA_OUT_OF_RANGE 0) old
  end.

(* GetASCIIParamDescription -> GetParamDescription (min/default/max are 0) *)
Definition get_ascii_param_description (q : request) (pid cc : N) (desc : list N) : option response :=
  ack q (be_bytes 2 pid ++ [u8 MAX_RDM_STRING_LENGTH; DS_ASCII_V; u8 cc; 0; 0; 0] ++
         be_bytes 4 0 ++ be_bytes 4 0 ++ be_bytes 4 0 ++ str_trunc desc MAX_RDM_STRING_LENGTH) 0.
Definition ml_param_description : handler ml_state := fun q st =>
  match extract 2 q with
  | EOob => (None, st)
  | EBad => (nack_with_reason q NR_FORMAT_ERROR 0, st)
  | EVal v => if negb (v =? OLA_MANUFACTURER_PID_CODE_VERSION)
              then (nack_with_reason q NR_DATA_OUT_OF_RANGE 0, st)
              else (get_ascii_param_description q OLA_MANUFACTURER_PID_CODE_VERSION CC_GET_V (* "Code Version" *) [67; 111; 100; 101; 32; 86; 101; 114; 115; 105; 111; 110], st)
  end.

Definition get_noarg (q : request) (data : list N) : option response :=
  if negb (len (q_data q) =? 0) then nack_with_reason q NR_FORMAT_ERROR 0 else ack q data 0.

Definition ml_device_info : handler ml_state := fun q st =>
  (get_device_info q OLA_DUMMY_MOVING_LIGHT_MODEL PRODUCT_CATEGORY_FIXTURE_MOVING_YOKE 2 (ml_fp st)
                   (ml_active st) (u8 (len ml_pers))
                   (if ml_fp st =? 0 then ZERO_FOOTPRINT_DMX_ADDRESS else ml_start st) 0 0 0, st).
Definition ml_product_detail : handler ml_state := fun q st =>
  (get_product_detail_list q [PRODUCT_DETAIL_TEST] 0, st).
Definition ml_get_label : handler ml_state := fun q st =>
  (get_string q (ml_label st) 0 MAX_RDM_STRING_LENGTH, st).
Definition ml_set_label_h : handler ml_state := fun q st =>
  lift_set (set_string q (ml_label st) 0 MAX_RDM_STRING_LENGTH) st (ml_set_label st).
Definition ml_get_factory : handler ml_state := fun q st =>
  (get_noarg q [if (ml_start st =? 1) && (ml_active st =? 1) && negb (ml_ident st) then 1 else 0], st).
Definition ml_set_factory : handler ml_state := fun q st =>
  if negb (len (q_data q) =? 0) then (nack_with_reason q NR_FORMAT_ERROR 0, st)
  else (ack q [] 0, ml_set_ident (ml_set_active (ml_set_start st 1) 1) false).
Definition ml_language_caps : handler ml_state := fun q st => (get_noarg q (* "enfrde" *) [101; 110; 102; 114; 100; 101], st).
Definition ml_get_language : handler ml_state := fun q st => (get_noarg q (ml_lang st), st).
Definition is_lang (l : list N) : bool :=
  (if list_eq_dec N.eq_dec l (* "en" *) [101; 110] then true else false) ||
  (if list_eq_dec N.eq_dec l (* "fr" *) [102; 114] then true else false) ||
  (if list_eq_dec N.eq_dec l (* "de" *) [100; 101] then true else false).
Definition ml_set_language : handler ml_state := fun q st =>
  if negb (len (q_data q) =? 2) then (nack_with_reason q NR_FORMAT_ERROR 0, st)
  else if negb (is_lang (q_data q)) then (nack_with_reason q NR_DATA_OUT_OF_RANGE 0, st)
  else (ack q [] 0, ml_set_lang st (q_data q)).
Definition ml_get_personality : handler ml_state := fun q st =>
  (get_personality q ml_pers (ml_active st) 0, st).
Definition ml_set_personality : handler ml_state := fun q st =>
  lift_set (set_personality q ml_pers (ml_active st) (ml_start st) 0) st (ml_set_active st).
Definition ml_personality_description : handler ml_state := fun q st =>
  lift_set (get_personality_description q ml_pers 0) st (fun _ => st).
Definition ml_slot_info : handler ml_state := fun q st =>
  lift_set (get_slot_info q ml_pers (ml_active st) 0) st (fun _ => st).
Definition ml_slot_description : handler ml_state := fun q st =>
  lift_set (get_slot_description q ml_pers (ml_active st) 0) st (fun _ => st).
Definition ml_slot_defaults : handler ml_state := fun q st =>
  lift_set (get_slot_defaults q ml_pers (ml_active st) 0) st (fun _ => st).
Definition ml_get_start : handler ml_state := fun q st =>
  (get_dmx_address q ml_pers (ml_active st) (ml_start st) 0, st).
Definition ml_set_start_h : handler ml_state := fun q st =>
  lift_set (set_dmx_address q ml_pers (ml_active st) (ml_start st) 0) st (ml_set_start st).
(* GetUInt32Value(request, m_device_hours++): the counter moves even when the GET is NACKed *)
Definition ml_get_dev_hours : handler ml_state := fun q st =>
  (get_uint 4 q (ml_dev_hours st) 0, ml_set_dev_hours st (u32 (ml_dev_hours st + 1))).
Definition ml_set_dev_hours_h : handler ml_state := fun q st =>
  lift_set (set_uint 4 q (ml_dev_hours st) 0) st (ml_set_dev_hours st).
Definition ml_get_lamp_hours : handler ml_state := fun q st =>
  (get_uint 4 q (ml_lamp_hours st) 0, ml_set_lamp_hours st (u32 (ml_lamp_hours st + 1))).
Definition ml_set_lamp_hours_h : handler ml_state := fun q st =>
  lift_set (set_uint 4 q (ml_lamp_hours st) 0) st (ml_set_lamp_hours st).
Definition ml_get_lamp_strikes : handler ml_state := fun q st => (get_uint 4 q (ml_lamp_strikes st) 0, st).
Definition ml_set_lamp_strikes_h : handler ml_state := fun q st =>
  lift_set (set_uint 4 q (ml_lamp_strikes st) 0) st (ml_set_lamp_strikes st).
Definition ml_get_lamp_state : handler ml_state := fun q st => (get_uint 1 q (ml_lamp_state st) 0, st).
Definition ml_set_lamp_state_h : handler ml_state := fun q st =>
  lift_set (set_uint8_pred q (ml_lamp_state st) (fun v => v <=? LAMP_STANDBY_V)) st (ml_set_lamp_state st).
Definition ml_get_lamp_on_mode : handler ml_state := fun q st => (get_uint 1 q (ml_lamp_on_mode st) 0, st).
Definition ml_set_lamp_on_mode_h : handler ml_state := fun q st =>
  lift_set (set_uint8_pred q (ml_lamp_on_mode st) (fun v => v <=? LAMP_ON_MODE_ON_AFTER_CAL_V)) st
           (ml_set_lamp_on_mode st).
Definition ml_get_power_cycles : handler ml_state := fun q st =>
  (get_uint 4 q (ml_power_cycles st) 0, ml_set_power_cycles st (u32 (ml_power_cycles st + 1))).
Definition ml_set_power_cycles_h : handler ml_state := fun q st =>
  lift_set (set_uint 4 q (ml_power_cycles st) 0) st (ml_set_power_cycles st).
Definition ml_get_identify : handler ml_state := fun q st => (get_bool q (ml_ident st) 0, st).
Definition ml_set_identify_h : handler ml_state := fun q st =>
  lift_set (set_bool q (ml_ident st) 0) st (ml_set_ident st).
Definition ml_get_disp_inv : handler ml_state := fun q st => (get_uint 1 q (ml_disp_inv st) 0, st).
Definition ml_set_disp_inv_h : handler ml_state := fun q st =>
  lift_set (set_uint8_pred q (ml_disp_inv st) (fun v => v <=? DISPLAY_INVERT_AUTO_V)) st (ml_set_disp_inv st).
Definition ml_get_disp_level : handler ml_state := fun q st => (get_uint 1 q (ml_disp_level st) 0, st).
Definition ml_set_disp_level_h : handler ml_state := fun q st =>
  lift_set (set_uint 1 q (ml_disp_level st) 0) st (ml_set_disp_level st).
Definition ml_get_pan_inv : handler ml_state := fun q st => (get_bool q (ml_pan_inv st) 0, st).
Definition ml_set_pan_inv_h : handler ml_state := fun q st =>
  lift_set (set_bool q (ml_pan_inv st) 0) st (ml_set_pan_inv st).
Definition ml_get_tilt_inv : handler ml_state := fun q st => (get_bool q (ml_tilt_inv st) 0, st).
Definition ml_set_tilt_inv_h : handler ml_state := fun q st =>
  lift_set (set_bool q (ml_tilt_inv st) 0) st (ml_set_tilt_inv st).
Definition ml_get_swap : handler ml_state := fun q st => (get_bool q (ml_swap st) 0, st).
Definition ml_set_swap_h : handler ml_state := fun q st =>
  lift_set (set_bool q (ml_swap st) 0) st (ml_set_swap st).
(* ResponderHelper::GetRealTimeClock *)
Definition ml_clock (c : ml_cfg) : handler ml_state := fun q st =>
  (get_noarg q (be_bytes 2 (mc_year c) ++ [u8 (mc_mon c); u8 (mc_day c); u8 (mc_hour c); u8 (mc_min c);
                                           u8 (mc_sec c)]), st).
Definition ml_reset_device : handler ml_state := fun q st =>
  lift_set (set_uint8_pred q 0 (fun v => (v =? RESET_WARM_V) || (v =? RESET_COLD_V))) st (fun _ => st).
Definition ml_get_power : handler ml_state := fun q st => (get_uint 1 q (ml_power st) 0, st).
Definition ml_set_power_h : handler ml_state := fun q st =>
  lift_set (set_uint8_pred q (ml_power st)
              (fun v => (v =? 0) || (v =? 1) || (v =? 2) || (v =? POWER_STATE_NORMAL_V))) st (ml_set_power st).
Definition ml_code_version (c : ml_cfg) : handler ml_state := fun q st =>
  (get_string q (mc_codever c) 0 MAX_RDM_STRING_LENGTH, st).

Definition ml_table (c : ml_cfg) : table ml_state :=
  [ (PID_SUPPORTED_PARAMETERS, mkEntry None None);
    (PID_PARAMETER_DESCRIPTION, mkEntry (Some ml_param_description) None);
    (PID_DEVICE_INFO, mkEntry (Some ml_device_info) None);
    (PID_PRODUCT_DETAIL_ID_LIST, mkEntry (Some ml_product_detail) None);
    (PID_DEVICE_MODEL_DESCRIPTION, mkEntry (Some (str_handler c_model (mc_strs c))) None);
    (PID_MANUFACTURER_LABEL, mkEntry (Some (str_handler c_manu (mc_strs c))) None);
    (PID_DEVICE_LABEL, mkEntry (Some ml_get_label) (Some ml_set_label_h));
    (144, mkEntry (Some ml_get_factory) (Some ml_set_factory));
    (160, mkEntry (Some ml_language_caps) None);
    (176, mkEntry (Some ml_get_language) (Some ml_set_language));
    (PID_SOFTWARE_VERSION_LABEL, mkEntry (Some (str_handler c_version (mc_strs c))) None);
    (PID_DMX_PERSONALITY, mkEntry (Some ml_get_personality) (Some ml_set_personality));
    (PID_DMX_PERSONALITY_DESCRIPTION, mkEntry (Some ml_personality_description) None);
    (PID_DMX_START_ADDRESS, mkEntry (Some ml_get_start) (Some ml_set_start_h));
    (288, mkEntry (Some ml_slot_info) None);
    (289, mkEntry (Some ml_slot_description) None);
    (290, mkEntry (Some ml_slot_defaults) None);
    (1024, mkEntry (Some ml_get_dev_hours) (Some ml_set_dev_hours_h));
    (1025, mkEntry (Some ml_get_lamp_hours) (Some ml_set_lamp_hours_h));
    (1026, mkEntry (Some ml_get_lamp_strikes) (Some ml_set_lamp_strikes_h));
    (1027, mkEntry (Some ml_get_lamp_state) (Some ml_set_lamp_state_h));
    (1028, mkEntry (Some ml_get_lamp_on_mode) (Some ml_set_lamp_on_mode_h));
    (1029, mkEntry (Some ml_get_power_cycles) (Some ml_set_power_cycles_h));
    (1280, mkEntry (Some ml_get_disp_inv) (Some ml_set_disp_inv_h));
    (1281, mkEntry (Some ml_get_disp_level) (Some ml_set_disp_level_h));
    (1536, mkEntry (Some ml_get_pan_inv) (Some ml_set_pan_inv_h));
    (1537, mkEntry (Some ml_get_tilt_inv) (Some ml_set_tilt_inv_h));
    (1538, mkEntry (Some ml_get_swap) (Some ml_set_swap_h));
    (1539, mkEntry (Some (ml_clock c)) None);
    (PID_IDENTIFY_DEVICE, mkEntry (Some ml_get_identify) (Some ml_set_identify_h));
    (4097, mkEntry None (Some ml_reset_device));
    (4112, mkEntry (Some ml_get_power) (Some ml_set_power_h));
    (OLA_MANUFACTURER_PID_CODE_VERSION, mkEntry (Some (ml_code_version c)) None) ].

Definition ml_send (c : ml_cfg) (uid : N) (q : request) (st : ml_state) : list reply * ml_state :=
  dispatch ml_state false (ml_table c) uid ROOT_RDM_DEVICE q st.
Fixpoint ml_run (c : ml_cfg) (uid : N) (h : list request) (st : ml_state)
  : list (list reply) * ml_state :=
  match h with
  | [] => ([], st)
  | q :: rest => let (out, st1) := ml_send c uid q st in
                 let (outs, st2) := ml_run c uid rest st1 in (out :: outs, st2)
  end.
