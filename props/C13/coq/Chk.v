(* C13 — the property as an executable instance checker (chk_13), the dispatch-class
   predictor used by the sweep, and the uniform entry point for helper correspondence. *)
From OlaBase Require Import Bytes.
From C13 Require Import Gen Model.
Local Open Scope N_scope.

(* ---------------- the property on one observed exchange ---------------- *)
Definition legal_type (t : N) : bool :=
  (t =? RDM_ACK) || (t =? RDM_ACK_TIMER) || (t =? RDM_NACK_REASON) || (t =? ACK_OVERFLOW).
Definition is_nack (r : response) : bool := r_type r =? RDM_NACK_REASON.
Definition legal_reason (d : list N) : bool :=
  match d with [hi; lo] => hi * 256 + lo <=? NR_INVALID_PORT | _ => false end.
(* E1.20 10.3.1: the answer to GET QUEUED_MESSAGE carries the class (and PID) of the queued message *)
Definition cc_matches (q : request) (r : response) : bool :=
  (r_cc r =? q_cc q + 1) ||
  ((q_pid q =? PID_QUEUED_MESSAGE) && (q_cc q =? GET_COMMAND) && (r_cc r =? SET_COMMAND_RESPONSE)).

(* 0 = conformant, otherwise the number of the first violated clause *)
Definition chk_resp (q : request) (r : response) : N :=
  if negb (r_src r =? q_dst q) then 6 else
  if negb (r_dst r =? q_src q) then 7 else
  if negb (r_tn r =? q_tn q) then 8 else
  if negb (cc_matches q r) then 9 else
  if negb (legal_type (r_type r)) then 10 else
  if MAX_PDL <? len (r_data r) then 11 else
  if is_nack r && negb (legal_reason (r_data r)) then 12 else 0.

Definition chk_13 (uid : N) (q : request) (obs : list reply) (sb sa : N) : N :=
  match obs with
  | [(st, ro)] =>
    if is_broadcast (q_dst q) then
      match ro with None => 0 | Some _ => 2 end
    else if negb (q_dst q =? uid) || (q_cc q =? DISCOVER_COMMAND) then
      (* not addressed to this responder, or discovery class: the property only asks for
         one completion; a response, if any, must still be well formed *)
      match ro with None => 0 | Some r => chk_resp q r end
    else
      if negb (st =? RDM_COMPLETED_OK) then 4 else
      match ro with
      | None => 5
      | Some r =>
        let c := chk_resp q r in
        if negb (c =? 0) then c else
        if (q_cc q =? SET_COMMAND) && is_nack r && negb (sb =? sa) then 13 else 0
      end
  | _ => 1
  end.

(* ---------------- declarative reading of the property text ---------------- *)
Definition resp_ok (q : request) (r : response) : Prop :=
  r_src r = q_dst q /\ r_dst r = q_src q /\ r_tn r = q_tn q /\
  (r_cc r = q_cc q + 1 \/
   (q_pid q = PID_QUEUED_MESSAGE /\ q_cc q = GET_COMMAND /\ r_cc r = SET_COMMAND_RESPONSE)) /\
  (r_type r = RDM_ACK \/ r_type r = RDM_ACK_TIMER \/ r_type r = RDM_NACK_REASON \/
   r_type r = ACK_OVERFLOW) /\
  len (r_data r) <= MAX_PDL /\
  (r_type r = RDM_NACK_REASON ->
   exists hi lo, r_data r = [hi; lo] /\ hi * 256 + lo <= NR_INVALID_PORT).

Definition conforms (uid : N) (q : request) (obs : list reply) (sb sa : N) : Prop :=
  exists st ro, obs = [(st, ro)] /\                               (* completed exactly once *)
  (is_broadcast (q_dst q) = true -> ro = None) /\
  (is_broadcast (q_dst q) = false -> q_dst q <> uid \/ q_cc q = DISCOVER_COMMAND ->
   forall r, ro = Some r -> resp_ok q r) /\
  (is_broadcast (q_dst q) = false -> q_dst q = uid -> q_cc q <> DISCOVER_COMMAND ->
   st = RDM_COMPLETED_OK /\
   exists r, ro = Some r /\ resp_ok q r /\
             (q_cc q = SET_COMMAND -> r_type r = RDM_NACK_REASON -> sb = sa)).

(* ---------------- sweep: dispatch class predicted by the proved model ---------------- *)
Definition resp_eqb (a b : response) : bool :=
  (r_src a =? r_src b) && (r_dst a =? r_dst b) && (r_tn a =? r_tn b) && (r_type a =? r_type b) &&
  (r_mc a =? r_mc b) && (r_sub a =? r_sub b) && (r_cc a =? r_cc b) && (r_pid a =? r_pid b) &&
  (if list_eq_dec N.eq_dec (r_data a) (r_data b) then true else false).
Definition reply_eqb (a b : reply) : bool :=
  (fst a =? fst b) &&
  match snd a, snd b with
  | None, None => true
  | Some x, Some y => resp_eqb x y
  | _, _ => false
  end.
Fixpoint replies_eqb (a b : list reply) : bool :=
  match a, b with
  | [], [] => true
  | x :: a', y :: b' => reply_eqb x y && replies_eqb a' b'
  | _, _ => false
  end.

(* a PID table as the harness reads it out of ResponderOps::m_handlers *)
Definition ptable := list (N * (bool * bool)).
Definition oracle_h (o : option response) : handler unit := fun _ s => (o, s).
Definition oracle_table (o : option response) (t : ptable) : table unit :=
  map (fun e : N * (bool * bool) =>
         (fst e, @mkEntry unit (if fst (snd e) then Some (oracle_h o) else None)
                               (if snd (snd e) then Some (oracle_h o) else None))) t.

Inductive kind :=
| KSimple (incl : bool) (t : ptable)
| KDimmer (incl_root : bool) (root : ptable) (incl_sub : bool) (sub : ptable) (nsub : N).

Fixpoint sub_devices (o : option response) (incl : bool) (t : ptable) (uid : N) (i : N) (n : nat)
  : list (N * device unit) :=
  match n with
  | O => []
  | S n' => (i, dispatch unit incl (oracle_table o t) uid i) :: sub_devices o incl t uid (i + 1) n'
  end.

Definition predict (k : kind) (uid : N) (q : request) (o : option response) : option (list reply) :=
  match k with
  | KSimple incl t => Some (fst (dispatch unit incl (oracle_table o t) uid ROOT_RDM_DEVICE q tt))
  | KDimmer ir rt isub stt n =>
    match dimmer_send unit (dispatch unit ir (oracle_table o rt) uid ROOT_RDM_DEVICE)
                      (sub_devices o isub stt uid 1 (N.to_nat n)) q tt with
    | FOk out _ => Some out
    | FUseAfterFree => None
    end
  end.

Definition chk_sweep (k : kind) (uid : N) (q : request) (obs : list reply) (sb sa : N) : N :=
  let c := chk_13 uid q obs sb sa in
  if negb (c =? 0) then c else
  let o := match obs with [(_, ro)] => ro | _ => None end in
  match predict k uid q o with
  | Some p => if replies_eqb p obs then 0 else 20
  | None => 21
  end.

(* ---------------- layer 1 correspondence: a fixed scripted target ---------------- *)
(* state = one uint32 counter *)
Definition h_echo : handler N := fun q st => (ack q (q_data q) 0, st).
Definition h_store : handler N := fun q st => (ack q [] 0, u32 (st + len (q_data q) + 1)).
Definition h_null : handler N := fun q st => (None, u32 (st + 1)).
Definition h_nack : handler N := fun q st => (nack_with_reason q NR_DATA_OUT_OF_RANGE 7, st).
Definition test_table : table N :=
  [ (PID_SUPPORTED_PARAMETERS, mkEntry None None);
    (PID_DEVICE_INFO, mkEntry (Some h_echo) None);
    (32769, mkEntry (Some h_echo) (Some h_store));
    (32770, mkEntry (Some h_echo) None);
    (32771, mkEntry None (Some h_store));
    (32772, mkEntry (Some h_null) (Some h_null));
    (32773, mkEntry (Some h_nack) (Some h_nack)) ].
Definition test_dispatch (incl : bool) := dispatch N incl test_table.

(* fan-out correspondence: scripted sub-devices 1..k; script entry = (status, kind):
   kind 0 = no response, 1 = ACK echoing the data, 2 = NACK *)
Definition scripted (e : N * N) : device N :=
  fun q st =>
    let r := if snd e =? 0 then None
             else if snd e =? 1 then ack q (q_data q) 0
             else nack_with_reason q NR_DATA_OUT_OF_RANGE 0 in
    ([(fst e, r)], u32 (st + 1)).
Fixpoint scripted_devs (i : N) (es : list (N * N)) : list (N * device N) :=
  match es with [] => [] | e :: r => (i, scripted e) :: scripted_devs (i + 1) r end.
Definition test_fan (es : list (N * N)) (q : request) (st : N) : fres N :=
  subdev_send N (scripted_devs 1 es) q st.

(* ---------------- layer 3 correspondence: fixed configurations ---------------- *)
Definition cfg_pers : list pers :=
  [ mkPers 0 (* "Zero" *) [90; 101; 114; 111] [];
    mkPers 5 (* "Personality 2" *) [80; 101; 114; 115; 111; 110; 97; 108; 105; 116; 121; 32; 50]
      [ mkSlot 0 1 0 false []; mkSlot 1 0 0 false []; mkSlot 0 257 127 false [];
        mkSlot 0 258 127 false []; mkSlot 0 65535 0 true (* "Foo" *) [70; 111; 111] ];
    mkPers 512 (* "A description that is much longer than thirty-two bytes" *) [65; 32; 100; 101; 115; 99; 114; 105; 112; 116; 105; 111; 110; 32; 116; 104; 97; 116; 32; 105; 115; 32; 109; 117; 99; 104; 32; 108; 111; 110; 103; 101; 114; 32; 116; 104; 97; 110; 32; 116; 104; 105; 114; 116; 121; 45; 116; 119; 111; 32; 98; 121; 116; 101; 115] [];
    mkPers 513 (* "Too big" *) [84; 111; 111; 32; 98; 105; 103] [];
    mkPers 65535 [] [];
    mkPers 1 (* "One" *) [79; 110; 101]
      [ mkSlot 0 1 255 true (* "Slot description which exceeds the thirty two byte limit" *) [83; 108; 111; 116; 32; 100; 101; 115; 99; 114; 105; 112; 116; 105; 111; 110; 32; 119; 104; 105; 99; 104; 32; 101; 120; 99; 101; 101; 100; 115; 32; 116; 104; 101; 32; 116; 104; 105; 114; 116; 121; 32; 116; 119; 111; 32; 98; 121; 116; 101; 32; 108; 105; 109; 105; 116] ] ].
Definition cfg_settings (i : N) : list (list N) * N :=
  if i =? 0 then ([(* "Linear Curve" *) [76; 105; 110; 101; 97; 114; 32; 67; 117; 114; 118; 101]; (* "Square Law Curve" *) [83; 113; 117; 97; 114; 101; 32; 76; 97; 119; 32; 67; 117; 114; 118; 101];
                   (* "S Curve" *) [83; 32; 67; 117; 114; 118; 101]], 1)
  else ([(* "Unlocked" *) [85; 110; 108; 111; 99; 107; 101; 100]; (* "Start Address Locked" *) [83; 116; 97; 114; 116; 32; 65; 100; 100; 114; 101; 115; 115; 32; 76; 111; 99; 107; 101; 100];
         (* "Address and Personalities Locked, a long description" *) [65; 100; 100; 114; 101; 115; 115; 32; 97; 110; 100; 32; 80; 101; 114; 115; 111; 110; 97; 108; 105; 116; 105; 101; 115; 32; 76; 111; 99; 107; 101; 100; 44; 32; 97; 32; 108; 111; 110; 103; 32; 100; 101; 115; 99; 114; 105; 112; 116; 105; 111; 110]], 0).
Definition cfg_sensor (i poll lo hi rc : N) : sensor :=
  if i =? 0 then mkSensor 0 1 0 0 100 10 20 true true (* "Fake Temperature" *) [70; 97; 107; 101; 32; 84; 101; 109; 112; 101; 114; 97; 116; 117; 114; 101] poll lo hi rc
  else if i =? 1 then mkSensor 1 2 3 65436 100 65526 10 false true (* "No recorded value" *) [78; 111; 32; 114; 101; 99; 111; 114; 100; 101; 100; 32; 118; 97; 108; 117; 101] poll lo hi rc
  else mkSensor 4 0 9 0 65535 0 1 true false
         (* "A sensor whose description is longer than the field" *) [65; 32; 115; 101; 110; 115; 111; 114; 32; 119; 104; 111; 115; 101; 32; 100; 101; 115; 99; 114; 105; 112; 116; 105; 111; 110; 32; 105; 115; 32; 108; 111; 110; 103; 101; 114; 32; 116; 104; 97; 110; 32; 116; 104; 101; 32; 102; 105; 101; 108; 100] poll lo hi rc.

Fixpoint cfg_sensors (i : N) (a : list N) : list sensor :=
  match a with
  | poll :: lo :: hi :: rc :: r => cfg_sensor i poll lo hi rc :: cfg_sensors (i + 1) r
  | _ => []
  end.
Fixpoint sensors_dyn (ss : list sensor) : list N :=
  match ss with [] => [] | s :: r => sn_poll s :: sn_low s :: sn_high s :: sn_rec s :: sensors_dyn r end.

Definition unit_res {S} (x : hres unit) (st : S) : hres S :=
  match x with HOob => HOob | HR r _ => HR r st end.
Definition map_res {A B} (f : A -> B) (x : hres A) : hres B :=
  match x with HOob => HOob | HR r s => HR r (f s) end.

(* DimmerSubDevice personalities 1 / 2 have footprints 1 / 2: a = personality, start, ... *)
Fixpoint dsubs_of (a : list N) : list dsub :=
  match a with p :: st :: r => (p, st) :: dsubs_of r | _ => [] end.
Fixpoint dsubs_flat (l : list dsub) : list N :=
  match l with [] => [] | s :: r => fst s :: snd s :: dsubs_flat r end.

(* uniform entry: function number, request, numeric arguments/state, string argument/state *)
Definition help_run (f : N) (q : request) (a : list N) (s : list N) : hres (list N * list N) :=
  let bad := HR None (a, s) in
  match f, a with
  | 0, [k; v; mc] => HR (get_uint (N.to_nat k) q v mc) (a, s)
  | 1, [k; old; mc] => map_res (fun v => ([k; v; mc], s)) (set_uint (N.to_nat k) q old mc)
  | 2, [v; mc] => HR (get_bool q (negb (v =? 0)) mc) (a, s)
  | 3, [old; mc] => map_res (fun (b : bool) => ([if b then 1 else 0; mc], s))
                            (set_bool q (negb (old =? 0)) mc)
  | 4, [mc; maxlen] => HR (get_string q s mc maxlen) (a, s)
  | 5, [mc; maxlen] => map_res (fun v => (a, v)) (set_string q s mc maxlen)
  | 6, [active; mc] => HR (get_personality q cfg_pers active mc) (a, s)
  | 7, [active; start; mc] =>
    map_res (fun v => ([v; start; mc], s)) (set_personality q cfg_pers active start mc)
  | 8, [mc] => unit_res (get_personality_description q cfg_pers mc) (a, s)
  | 9, [active; start; mc] => HR (get_dmx_address q cfg_pers active start mc) (a, s)
  | 10, [active; old; mc] =>
    map_res (fun v => ([active; v; mc], s)) (set_dmx_address q cfg_pers active old mc)
  | 11, [active; mc] => unit_res (get_slot_info q cfg_pers active mc) (a, s)
  | 12, [active; mc] => unit_res (get_slot_description q cfg_pers active mc) (a, s)
  | 13, [active; mc] => unit_res (get_slot_defaults q cfg_pers active mc) (a, s)
  | 14, [model; cat; ver; fp; cur; cnt; start; subs; sens; mc] =>
    HR (get_device_info q model cat ver fp cur cnt start subs sens mc) (a, s)
  | 15, _ => unit_res (get_sensor_definition q (cfg_sensors 0 a)) (a, s)
  | 16, _ => map_res (fun ss => (sensors_dyn ss, s)) (get_sensor_value q (cfg_sensors 0 a))
  | 17, _ => map_res (fun ss => (sensors_dyn ss, s)) (set_sensor_value q (cfg_sensors 0 a))
  | 18, _ => map_res (fun ss => (sensors_dyn ss, s)) (record_sensor q (cfg_sensors 0 a))
  | 19, [c; cur] => let (d, off) := cfg_settings c in HR (setting_get q d off cur) (a, s)
  | 20, [c; cur] => let (d, off) := cfg_settings c in
                    map_res (fun v => ([c; v], s)) (setting_set q d off cur)
  | 21, [c] => let (d, off) := cfg_settings c in unit_res (setting_get_description q d off) (a, s)
  | 24, _ => map_res (fun l => (dsubs_flat l, s)) (set_dmx_block_address q (dsubs_of a))
  | 22, [mc] => unit_res (get_test_data q mc) (a, s)
  | 23, [mc] => HR (set_test_data q mc) (a, s)
  | _, _ => bad
  end.

(* the known finding: GET TEST_DATA may answer with more than 231 bytes *)
Definition known_testdata (q : request) : bool :=
  (q_cc q =? GET_COMMAND) && (q_pid q =? PID_TEST_DATA) &&
  match q_data q with
  | [hi; lo] => (MAX_PDL <? hi * 256 + lo) && (hi * 256 + lo <=? MAX_RDM_TEST_DATA_PATTERN_LENGTH)
  | _ => false
  end.
