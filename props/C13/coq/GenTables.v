(* REGENERATED from common/rdm/*Responder*.cpp (PARAM_HANDLERS) and the RDM enums on every run. Do not edit. *)
From Coq Require Import NArith List.
Import ListNotations.
Local Open Scope N_scope.
Definition TBL_SensorResponder : list (N * (bool * bool)) :=
  [(80, (false, false)); (96, (true, false)); (112, (true, false)); (128, (true, false)); (129, (true, false)); (130, (true, false)); (192, (true, false)); (512, (true, false)); (513, (true, true)); (514, (false, true)); (4096, (true, true))].
Definition TBL_DimmerRootDevice : list (N * (bool * bool)) :=
  [(80, (false, false)); (96, (true, false)); (112, (true, false)); (128, (true, false)); (129, (true, false)); (130, (true, false)); (192, (true, false)); (320, (true, true)); (4096, (true, true)); (4160, (true, true))].
Definition TBL_DimmerSubDevice : list (N * (bool * bool)) :=
  [(80, (false, false)); (96, (true, false)); (112, (true, false)); (128, (true, false)); (129, (true, false)); (130, (true, false)); (192, (true, false)); (224, (true, true)); (225, (true, false)); (240, (true, true)); (4096, (true, true)); (4160, (true, true))].
Definition TBL_AckTimerResponder : list (N * (bool * bool)) :=
  [(32, (true, false)); (80, (false, false)); (96, (true, false)); (128, (true, false)); (129, (true, false)); (130, (true, false)); (192, (true, false)); (224, (true, true)); (225, (true, false)); (240, (true, true)); (4096, (true, true))].
Definition TBL_DummyResponder : list (N * (bool * bool)) :=
  [(22, (true, true)); (80, (false, false)); (81, (true, false)); (96, (true, false)); (112, (true, false)); (128, (true, false)); (129, (true, false)); (130, (true, false)); (144, (true, true)); (192, (true, false)); (208, (true, false)); (209, (true, false)); (210, (true, false)); (224, (true, true)); (225, (true, false)); (240, (true, true)); (288, (true, false)); (289, (true, false)); (290, (true, false)); (512, (true, false)); (513, (true, true)); (514, (false, true)); (1026, (true, true)); (1539, (true, false)); (1792, (true, false)); (1793, (true, false)); (1794, (true, false)); (1797, (true, false)); (1802, (true, false)); (1803, (true, false)); (1804, (true, false)); (1805, (true, false)); (4096, (true, true)); (32769, (true, false))].
Definition TBL_MovingLightResponder : list (N * (bool * bool)) :=
  [(80, (false, false)); (81, (true, false)); (96, (true, false)); (112, (true, false)); (128, (true, false)); (129, (true, false)); (130, (true, true)); (144, (true, true)); (160, (true, false)); (176, (true, true)); (192, (true, false)); (224, (true, true)); (225, (true, false)); (240, (true, true)); (288, (true, false)); (289, (true, false)); (290, (true, false)); (1024, (true, true)); (1025, (true, true)); (1026, (true, true)); (1027, (true, true)); (1028, (true, true)); (1029, (true, true)); (1280, (true, true)); (1281, (true, true)); (1536, (true, true)); (1537, (true, true)); (1538, (true, true)); (1539, (true, false)); (4096, (true, true)); (4097, (false, true)); (4112, (true, true)); (32769, (true, false))].
Definition TBL_AdvancedDimmerResponder : list (N * (bool * bool)) :=
  [(80, (false, false)); (96, (true, false)); (112, (true, false)); (128, (true, false)); (129, (true, false)); (130, (true, false)); (192, (true, false)); (224, (true, true)); (225, (true, false)); (240, (true, true)); (321, (true, true)); (322, (true, true)); (832, (true, false)); (833, (true, true)); (834, (true, true)); (835, (true, true)); (836, (true, false)); (837, (true, true)); (838, (true, false)); (839, (true, true)); (840, (true, false)); (1088, (true, true)); (1600, (true, true)); (1601, (true, true)); (1602, (true, false)); (4096, (true, true)); (4144, (false, true)); (4145, (true, true)); (4160, (true, true)); (4161, (true, false)); (4162, (true, true)); (4163, (true, true)); (4164, (true, true))].
Definition TBL_NetworkResponder : list (N * (bool * bool)) :=
  [(80, (false, false)); (96, (true, false)); (112, (true, false)); (128, (true, false)); (129, (true, false)); (130, (true, false)); (192, (true, false)); (1792, (true, false)); (1793, (true, false)); (1794, (true, false)); (1797, (true, false)); (1802, (true, false)); (1803, (true, false)); (1804, (true, false)); (1805, (true, false)); (4096, (true, true))].
(* footprint, description, slots (type, id, default, has description, description) *)
Definition PERS_DummyResponder : list (N * list N * list (N * N * N * bool * list N)) :=
  [(0, [80; 101; 114; 115; 111; 110; 97; 108; 105; 116; 121; 32; 49], []);
   (5, [80; 101; 114; 115; 111; 110; 97; 108; 105; 116; 121; 32; 50], [(0, 1, 0, false, []); (1, 0, 0, false, []); (0, 257, 127, false, []); (0, 258, 127, false, []); (0, 65535, 0, true, [70; 111; 111])]);
   (10, [80; 101; 114; 115; 111; 110; 97; 108; 105; 116; 121; 32; 51], []);
   (20, [80; 101; 114; 115; 111; 110; 97; 108; 105; 116; 121; 32; 52], [])].
(* footprint, description, slots (type, id, default, has description, description) *)
Definition PERS_MovingLightResponder : list (N * list N * list (N * N * N * bool * list N)) :=
  [(17, [70; 117; 108; 108], [(0, 1, 0, true, [73; 110; 116; 101; 110; 115; 105; 116; 121; 32; 67; 111; 97; 114; 115; 101]); (1, 0, 0, true, [73; 110; 116; 101; 110; 115; 105; 116; 121; 32; 70; 105; 110; 101]); (4, 0, 0, true, [83; 104; 117; 116; 116; 101; 114]); (0, 257, 127, false, []); (3, 3, 0, true, [80; 97; 110; 32; 83; 112; 101; 101; 100]); (0, 258, 127, false, []); (2, 5, 0, true, [84; 105; 108; 116; 32; 84; 105; 109; 105; 110; 103]); (0, 770, 0, false, []); (5, 7, 0, false, []); (0, 771, 0, false, []); (6, 8, 0, false, []); (0, 772, 0, false, []); (7, 8, 0, false, []); (0, 1283, 0, true, [83; 112; 101; 101; 100]); (3, 13, 0, true, [83; 112; 101; 101; 100; 32; 94; 32; 50]); (0, 65535, 0, true, [79; 112; 101; 110; 32; 83; 111; 117; 114; 99; 101; 105; 110; 101; 115; 115; 32; 70; 111; 111]); (255, 15, 0, true, [79; 112; 101; 110; 32; 83; 111; 117; 114; 99; 101; 105; 110; 101; 115; 115; 32; 66; 97; 114])]);
   (5, [66; 97; 115; 105; 99], [(0, 1, 0, false, []); (0, 257, 127, false, []); (0, 258, 127, false, []); (0, 513, 0, false, []); (0, 769, 0, false, [])]);
   (0, [78; 111; 32; 67; 104; 97; 110; 110; 101; 108; 115], []);
   (3, [81; 117; 105; 114; 107; 115; 32; 77; 111; 100; 101], [(0, 1, 0, true, []); (1, 0, 0, true, [])])].
(* AdvancedDimmerResponder.cpp: private constants, setting descriptions, personality *)
Definition ADV_DIMMER_RESOLUTION : N := 14.
Definition ADV_LOWER_MAX_LEVEL : N := 32767.
Definition ADV_UPPER_MAX_LEVEL : N := 65535.
Definition ADV_LOWER_MIN_LEVEL : N := 0.
Definition ADV_UPPER_MIN_LEVEL : N := 32767.
Definition ADV_PRESET_COUNT : N := 6.
Definition ADV_MIN_FAIL_DELAY_TIME : N := 10.
Definition ADV_MIN_FAIL_HOLD_TIME : N := 0.
Definition ADV_MAX_FAIL_DELAY_TIME : N := 255.
Definition ADV_MAX_FAIL_HOLD_TIME : N := 65280.
Definition ADV_MIN_STARTUP_DELAY_TIME : N := 0.
Definition ADV_MIN_STARTUP_HOLD_TIME : N := 0.
Definition ADV_MAX_STARTUP_DELAY_TIME : N := 1200.
Definition ADV_MAX_STARTUP_HOLD_TIME : N := 36000.
Definition ADV_INFINITE_TIME : N := 65535.
Definition ADV_CURVES : list (list N) :=
  [[76; 105; 110; 101; 97; 114; 32; 67; 117; 114; 118; 101]; [83; 113; 117; 97; 114; 101; 32; 76; 97; 119; 32; 67; 117; 114; 118; 101]; [83; 32; 67; 117; 114; 118; 101]].
Definition ADV_RESPONSE_TIMES : list (list N) :=
  [[83; 117; 112; 101; 114; 32; 102; 97; 115; 116]; [70; 97; 115; 116]; [83; 108; 111; 119]; [86; 101; 114; 121; 32; 115; 108; 111; 119]].
Definition ADV_LOCK_STATES : list (list N) :=
  [[85; 110; 108; 111; 99; 107; 101; 100]; [83; 116; 97; 114; 116; 32; 65; 100; 100; 114; 101; 115; 115; 32; 76; 111; 99; 107; 101; 100]; [65; 100; 100; 114; 101; 115; 115; 32; 97; 110; 100; 32; 80; 101; 114; 115; 111; 110; 97; 108; 105; 116; 105; 101; 115; 32; 76; 111; 99; 107; 101; 100]].
Definition ADV_PWM_FREQUENCIES : list (N * list N) :=
  [(120, [49; 50; 48; 72; 122]); (500, [53; 48; 48; 72; 122]); (1000, [49; 107; 72; 122]); (5000, [53; 107; 72; 122]); (10000, [49; 48; 107; 72; 122])].
Definition ADV_PERSONALITIES : list (N * list N) :=
  [(12, [54; 45; 67; 104; 97; 110; 110; 101; 108; 32; 49; 54; 45; 98; 105; 116])].
