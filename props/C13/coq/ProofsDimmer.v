(* C13 — the composite DimmerResponder: root device, SubDeviceDispatcher and N sub-devices *)
From OlaBase Require Import Bytes.
From C13 Require Import Gen GenTables Model AckTimer Responders Chk Proofs ProofsHelpers ProofsResp.
Local Open Scope N_scope.

Lemma dm_sub_once c uid i q st : exists r, fst (dm_sub_device c uid i q st) = [r].
Proof.
  unfold dm_sub_device. destruct (nth_error (dm_subs st) (N.to_nat (i - 1))) as [s|]; [|cbn; eauto].
  unfold ds_send. destruct (dispatch_once ds_state true (ds_table c (len (dm_subs st))) uid i q s) as (x & ro & E).
  destruct (dispatch ds_state true (ds_table c (len (dm_subs st))) uid i q s) as [out s']. cbn in *. subst. eauto.
Qed.

Lemma dm_devices_in c uid n : forall i k d,
  In (k, d) (dm_devices c uid i n) -> d = dm_sub_device c uid k /\ i <= k < i + N.of_nat n.
Proof.
  induction n as [|n IH]; intros i k d; cbn [dm_devices]; [intros []|].
  intros [E|I]; [inversion E; subst; split; [reflexivity|lia]|].
  destruct (IH (i + 1) k d I) as (A & B). split; [exact A|lia].
Qed.
Lemma dm_devices_find c uid n : forall i k,
  find_dev dm_state (dm_devices c uid i n) k =
  if (i <=? k) && (k <? i + N.of_nat n) then Some (dm_sub_device c uid k) else None.
Proof.
  induction n as [|n IH]; intros i k; cbn [dm_devices find_dev].
  - destruct (i <=? k) eqn:A; destruct (k <? i + N.of_nat 0) eqn:B; try reflexivity.
    apply N.leb_le in A. apply N.ltb_lt in B. lia.
  - destruct (i =? k) eqn:E.
    + apply N.eqb_eq in E. subst k.
      replace (i <=? i) with true by (symmetry; apply N.leb_le; lia).
      replace (i <? i + N.of_nat (S n)) with true by (symmetry; apply N.ltb_lt; lia). reflexivity.
    + apply N.eqb_neq in E. rewrite IH.
      destruct (i + 1 <=? k) eqn:A; destruct (k <? i + 1 + N.of_nat n) eqn:B;
        destruct (i <=? k) eqn:A'; destruct (k <? i + N.of_nat (S n)) eqn:B'; try reflexivity;
        repeat match goal with
               | H : (_ <=? _) = true |- _ => apply N.leb_le in H
               | H : (_ <=? _) = false |- _ => apply N.leb_gt in H
               | H : (_ <? _) = true |- _ => apply N.ltb_lt in H
               | H : (_ <? _) = false |- _ => apply N.ltb_ge in H
               end; lia.
Qed.
Lemma len_dm_devices c uid n : forall i, len (dm_devices c uid i n) = N.of_nat n.
Proof. induction n as [|n IH]; intros i; [reflexivity|]. cbn [dm_devices]. rewrite len_cons, IH. lia. Qed.

Lemma dm_subs_once c uid i n : subs_once dm_state (dm_devices c uid i n).
Proof.
  intros k d I q st. destruct (dm_devices_in c uid n i k d I) as (E & _). subst d. apply dm_sub_once.
Qed.

(* the composite DimmerResponder completes every request exactly once and never touches a deleted
   fan-out tracker, whatever the request and the state (up to 65535 sub-devices; the code caps at 512) *)
Lemma dimmer_once c uid q st :
  len (dm_subs st) < 65536 -> exists r st', dm_send c uid q st = FOk [r] st'.
Proof.
  intros LT. unfold dm_send, dimmer_send.
  destruct (q_sub q =? ROOT_RDM_DEVICE).
  - unfold dm_root_send.
    destruct (dispatch_once dm_state false (dm_table c) uid ROOT_RDM_DEVICE q st) as (s & ro & E).
    destruct (dispatch dm_state false (dm_table c) uid ROOT_RDM_DEVICE q st) as [out st1]. cbn in E. subst. eauto.
  - apply subdev_send_once.
    + apply dm_subs_once.
    + rewrite len_dm_devices. unfold len in LT. exact LT.
Qed.
