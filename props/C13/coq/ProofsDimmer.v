(* C13 — the composite DimmerResponder: root device, SubDeviceDispatcher and N sub-devices *)
From OlaBase Require Import Bytes.
From C13 Require Import Gen GenTables Model AckTimer Responders Chk Proofs ProofsHelpers ProofsResp.
Local Open Scope N_scope.

Lemma dm_sub_once c uid i q st : exists r, fst (dm_sub_device c uid i q st) = [r].
Proof.
  unfold dm_sub_device. destruct (nth_error (dm_subs st) (N.to_nat (i - 1))) as [s|]; [|cbn; eauto].
  unfold ds_send. destruct (dispatch_once ds_state true (ds_table c (len (dm_subs st))) uid i q s) as (x & ro & E).
  destruct (dispatch ds_state true (ds_table c (len (dm_subs st))) uid i q s) as [out s']. cbn in *. subst. eauto.
Qed.

Lemma dm_devices_in c uid n : forall i k d,
  In (k, d) (dm_devices c uid i n) -> d = dm_sub_device c uid k /\ i <= k < i + N.of_nat n.
Proof.
  induction n as [|n IH]; intros i k d; cbn [dm_devices]; [intros []|].
  intros [E|I]; [inversion E; subst; split; [reflexivity|lia]|].
  destruct (IH (i + 1) k d I) as (A & B). split; [exact A|lia].
Qed.
Lemma dm_devices_find c uid n : forall i k,
  find_dev dm_state (dm_devices c uid i n) k =
  if (i <=? k) && (k <? i + N.of_nat n) then Some (dm_sub_device c uid k) else None.
Proof.
  induction n as [|n IH]; intros i k; cbn [dm_devices find_dev].
  - destruct (i <=? k) eqn:A; destruct (k <? i + N.of_nat 0) eqn:B; try reflexivity.
    apply N.leb_le in A. apply N.ltb_lt in B. lia.
  - destruct (i =? k) eqn:E.
    + apply N.eqb_eq in E. subst k.
      replace (i <=? i) with true by (symmetry; apply N.leb_le; lia).
      replace (i <? i + N.of_nat (S n)) with true by (symmetry; apply N.ltb_lt; lia). reflexivity.
    + apply N.eqb_neq in E. rewrite IH.
      destruct (i + 1 <=? k) eqn:A; destruct (k <? i + 1 + N.of_nat n) eqn:B;
        destruct (i <=? k) eqn:A'; destruct (k <? i + N.of_nat (S n)) eqn:B'; try reflexivity;
        repeat match goal with
               | H : (_ <=? _) = true |- _ => apply N.leb_le in H
               | H : (_ <=? _) = false |- _ => apply N.leb_gt in H
               | H : (_ <? _) = true |- _ => apply N.ltb_lt in H
               | H : (_ <? _) = false |- _ => apply N.ltb_ge in H
               end; lia.
Qed.
Lemma len_dm_devices c uid n : forall i, len (dm_devices c uid i n) = N.of_nat n.
Proof. induction n as [|n IH]; intros i; [reflexivity|]. cbn [dm_devices]. rewrite len_cons, IH. lia. Qed.

Lemma dm_subs_once c uid i n : subs_once dm_state (dm_devices c uid i n).
Proof.
  intros k d I q st. destruct (dm_devices_in c uid n i k d I) as (E & _). subst d. apply dm_sub_once.
Qed.

(* the composite DimmerResponder completes every request exactly once and never touches a deleted
   fan-out tracker, whatever the request and the state (up to 65535 sub-devices; the code caps at 512) *)
Lemma dimmer_once c uid q st :
  len (dm_subs st) < 65536 -> exists r st', dm_send c uid q st = FOk [r] st'.
Proof.
  intros LT. unfold dm_send, dimmer_send.
  destruct (q_sub q =? ROOT_RDM_DEVICE).
  - unfold dm_root_send.
    destruct (dispatch_once dm_state false (dm_table c) uid ROOT_RDM_DEVICE q st) as (s & ro & E).
    destruct (dispatch dm_state false (dm_table c) uid ROOT_RDM_DEVICE q st) as [out st1]. cbn in E. subst. eauto.
  - apply subdev_send_once.
    + apply dm_subs_once.
    + rewrite len_dm_devices. unfold len in LT. exact LT.
Qed.

(* ---- conformance of the composite ---- *)
Definition okreply (uid : N) (q : request) (out : list reply) (same : Prop) : Prop :=
  exists r, out = [r] /\
    (is_broadcast (q_dst q) = true -> snd r = None) /\
    (is_broadcast (q_dst q) = false -> directed_to (q_dst q) uid = true ->
     q_cc q = GET_COMMAND \/ q_cc q = SET_COMMAND ->
     exists rr, r = (RDM_COMPLETED_OK, Some rr) /\ resp_ok q rr /\ (r_type rr = RDM_NACK_REASON -> same)).

Lemma okreply_weaken uid q out (P Q : Prop) : (P -> Q) -> okreply uid q out P -> okreply uid q out Q.
Proof.
  intros PQ (r & E & B & U). exists r. split; [exact E|]. split; [exact B|].
  intros X Y Z. destruct (U X Y Z) as (rr & A & O & K). exists rr. auto.
Qed.

Lemma nack_if_ok uid q reason :
  reason <= NR_INVALID_PORT -> okreply uid q (nack_if_not_broadcast q reason) True.
Proof.
  intros Hr. unfold nack_if_not_broadcast. destruct (is_broadcast (q_dst q)) eqn:B.
  - eexists. split; [reflexivity|]. split; [reflexivity|intros X; congruence].
  - eexists. split; [reflexivity|]. split; [intros X; congruence|].
    intros _ _ CC. destruct (nack_spec q reason 0) as (rr & E & O & _); [unfold wf_cc; tauto|exact Hr|].
    rewrite E. exists rr. auto.
Qed.

Lemma dispatch_okreply {S} (out : list reply) (st st' : S) uid q :
  (exists s ro, out = [(s, ro)]) ->
  (is_broadcast (q_dst q) = true -> exists s, out = [(s, None)]) ->
  (is_broadcast (q_dst q) = false -> directed_to (q_dst q) uid = true ->
   q_cc q = GET_COMMAND \/ q_cc q = SET_COMMAND ->
   exists r, out = [(RDM_COMPLETED_OK, Some r)] /\ resp_ok q r /\ (r_type r = RDM_NACK_REASON -> st' = st)) ->
  okreply uid q out (st' = st).
Proof.
  intros (s & ro & E) BC UC. subst out. exists (s, ro). split; [reflexivity|]. split.
  - intros B. destruct (BC B) as (s' & E). inversion E. reflexivity.
  - intros B D CC. destruct (UC B D CC) as (rr & E & O & K). inversion E; subst. exists rr. auto.
Qed.

Lemma set_nth_same {A} (l : list A) : forall i x, nth_error l i = Some x -> set_nth l i x = l.
Proof.
  induction l as [|a r IH]; intros [|i] x E; cbn in *; try discriminate.
  - inversion E. reflexivity.
  - f_equal. apply IH. exact E.
Qed.

(* an existing sub-device: its reply is DimmerSubDevice's, and a NACK leaves the whole dimmer unchanged *)
Lemma dm_sub_ok c uid k q st s :
  nth_error (dm_subs st) (N.to_nat (k - 1)) = Some s ->
  okreply uid q (fst (dm_sub_device c uid k q st)) (snd (dm_sub_device c uid k q st) = st).
Proof.
  intros E. unfold dm_sub_device. rewrite E.
  pose proof (dimmer_sub_conforms c (len (dm_subs st)) uid k q s) as (ON & BC & UC). cbn zeta in *.
  destruct (ds_send c (len (dm_subs st)) uid k q s) as [out s'] eqn:D. cbn [fst snd] in *.
  eapply okreply_weaken; [|apply (dispatch_okreply out s s' uid q ON BC UC)].
  intros ->. rewrite (set_nth_same _ _ _ E). destruct st; reflexivity.
Qed.

Lemma nth_error_some_lt {A} (l : list A) i : (i < length l)%nat -> exists x, nth_error l i = Some x.
Proof.
  intros H. destruct (nth_error l i) eqn:E; [eauto|]. apply nth_error_None in E. lia.
Qed.

Lemma dimmer_conforms c uid q st :
  len (dm_subs st) < 65536 ->
  exists r st', dm_send c uid q st = FOk [r] st' /\
    (is_broadcast (q_dst q) = true -> snd r = None) /\
    (is_broadcast (q_dst q) = false -> directed_to (q_dst q) uid = true ->
     q_cc q = GET_COMMAND \/ q_cc q = SET_COMMAND ->
     exists rr, r = (RDM_COMPLETED_OK, Some rr) /\ resp_ok q rr /\
                (q_sub q <> ALL_RDM_SUBDEVICES -> r_type rr = RDM_NACK_REASON -> st' = st)).
Proof.
  intros LT.
  (* it is enough to exhibit the replies and an okreply for them *)
  assert (FIN : forall out st' (P : Prop), dm_send c uid q st = FOk out st' -> okreply uid q out P ->
                (P -> q_sub q <> ALL_RDM_SUBDEVICES -> st' = st) ->
                exists r st'', dm_send c uid q st = FOk [r] st'' /\
                  (is_broadcast (q_dst q) = true -> snd r = None) /\
                  (is_broadcast (q_dst q) = false -> directed_to (q_dst q) uid = true ->
                   q_cc q = GET_COMMAND \/ q_cc q = SET_COMMAND ->
                   exists rr, r = (RDM_COMPLETED_OK, Some rr) /\ resp_ok q rr /\
                              (q_sub q <> ALL_RDM_SUBDEVICES -> r_type rr = RDM_NACK_REASON -> st'' = st))).
  { intros out st' P E (r & Eo & B & U) K. subst out. exists r, st'. split; [exact E|]. split; [exact B|].
    intros X Y Z. destruct (U X Y Z) as (rr & A & O & KK). exists rr. split; [exact A|]. split; [exact O|].
    intros NS T. apply K; auto. }
  remember (length (dm_subs st)) as n eqn:EN0.
  destruct (q_sub q =? ROOT_RDM_DEVICE) eqn:R0.
  { pose proof (dimmer_root_conforms c uid q st) as (ON & BC & UC). cbn zeta in *.
    assert (E : dm_send c uid q st = FOk (fst (dm_root_send c uid q st)) (snd (dm_root_send c uid q st))).
    { unfold dm_send, dimmer_send. rewrite R0. destruct (dm_root_send c uid q st); reflexivity. }
    apply (FIN _ _ (snd (dm_root_send c uid q st) = st) E (dispatch_okreply _ st _ uid q ON BC UC)). auto. }
  assert (ES : dm_send c uid q st = subdev_send dm_state (dm_devices c uid 1 n) q st).
  { unfold dm_send, dimmer_send. rewrite R0, <- EN0. reflexivity. }
  destruct (q_sub q =? ALL_RDM_SUBDEVICES) eqn:RA.
  { destruct (q_cc q =? GET_COMMAND) eqn:G.
    - assert (E : dm_send c uid q st = FOk (nack_if_not_broadcast q NR_SUB_DEVICE_OUT_OF_RANGE) st).
      { rewrite ES. unfold subdev_send, fan_out. rewrite RA, G. reflexivity. }
      apply (FIN _ st True E); [apply nack_if_ok; vm_compute; discriminate|].
      intros _ X. apply N.eqb_eq in RA. contradiction.
    - destruct n as [|n'].
      + assert (E : dm_send c uid q st = FOk (nack_if_not_broadcast q NR_SUB_DEVICE_OUT_OF_RANGE) st).
        { rewrite ES. unfold subdev_send, fan_out. rewrite RA, G. reflexivity. }
        apply (FIN _ st True E); [apply nack_if_ok; vm_compute; discriminate|].
        intros _ X. apply N.eqb_eq in RA. contradiction.
      + cbn [dm_devices] in ES. apply N.eqb_eq in RA. apply N.eqb_neq in G.
        rewrite (fan_out_state dm_state 1 (dm_sub_device c uid 1) (dm_devices c uid (1 + 1) n') q st) in ES.
        * destruct (nth_error_some_lt (dm_subs st) 0) as (s & Es); [lia|].
          apply (FIN _ _ _ ES (dm_sub_ok c uid 1 q st s Es)). intros _ X; contradiction.
        * apply (dm_subs_once c uid 1 (S n')).
        * change ((1, dm_sub_device c uid 1) :: dm_devices c uid (1 + 1) n') with (dm_devices c uid 1 (S n')).
          rewrite len_dm_devices. unfold len in LT. rewrite <- EN0 in LT. exact LT.
        * exact RA.
        * exact G. }
  unfold subdev_send in ES. rewrite RA, dm_devices_find in ES.
  destruct ((1 <=? q_sub q) && (q_sub q <? 1 + N.of_nat n)) eqn:IN.
  - apply andb_prop in IN as [A B]. apply N.leb_le in A. apply N.ltb_lt in B.
    destruct (nth_error_some_lt (dm_subs st) (N.to_nat (q_sub q - 1))) as (s & Es); [lia|].
    pose proof (dm_sub_ok c uid (q_sub q) q st s Es) as OK.
    destruct (dm_sub_device c uid (q_sub q) q st) as [out st1] eqn:D. cbn [fst snd] in OK.
    apply (FIN out st1 _ ES OK). auto.
  - apply (FIN _ st True ES); [apply nack_if_ok; vm_compute; discriminate|auto].
Qed.
