(* C13 — AckTimerResponder: every reply conforms, for every history *)
From OlaBase Require Import Bytes.
From C13 Require Import Gen Model AckTimer Chk Proofs ProofsHelpers.
Local Open Scope N_scope.

Definition qok (m : qmsg) : Prop :=
  (qm_cc m = GET_COMMAND_RESPONSE \/ qm_cc m = SET_COMMAND_RESPONSE) /\ len (qm_data m) <= MAX_PDL.
Definition at_inv (st : at_state) : Prop :=
  Forall qok (at_upcoming st) /\ Forall qok (at_queued st) /\
  (forall l, at_last st = Some l -> qok l).

(* what every handler owes: the invariant is kept, and a NACK leaves the readable parameters alone *)
Definition hkeeps (st : at_state) (x : option response * at_state) : Prop :=
  at_inv (snd x) /\
  (forall r, fst x = Some r -> r_type r = RDM_NACK_REASON -> at_params (snd x) = at_params st).
Definition hresp (q : request) (x : option response * at_state) : Prop :=
  exists r, fst x = Some r /\ resp_ok q r.

Lemma good_r_resp q x (st : at_state) : good_r q x -> hresp q (x, st).
Proof. destruct x as [r|]; cbn; [|tauto]. intros H. exists r. auto. Qed.
Lemma keeps_same st x : at_inv st -> hkeeps st (x, st).
Proof. intros I. split; [exact I|reflexivity]. Qed.

Lemma nack_resp q reason mc (st : at_state) :
  wf_cc q -> reason <= NR_INVALID_PORT -> hresp q (nack_with_reason q reason mc, st).
Proof. intros W H. apply good_r_resp. apply good_r_nack; assumption. Qed.

Lemma ack_timer_spec q st :
  wf_cc q -> exists r, ack_timer_response q st = Some r /\ resp_ok q r /\ r_type r = RDM_ACK_TIMER.
Proof.
  intros W. unfold ack_timer_response, get_response_from_data.
  destruct (grwp_spec q (q_pid q) (be_bytes 2 ACK_TIME_FIELD) RDM_ACK_TIMER (qcount st) W)
    as (r & E & A & B & C & D & F & G & H & I & J).
  exists r. split; [exact E|]. split; [|exact D].
  eapply resp_ok_of; eauto.
  - vm_compute. discriminate.
  - intros X. discriminate X.
Qed.

Lemma empty_status_resp q st : wf_cc q -> hresp q (empty_status q st, st).
Proof.
  intros W. unfold empty_status.
  destruct (grwp_spec q PID_STATUS_MESSAGES [] RDM_ACK (qcount st) W)
    as (r & E & A & B & C & D & F & G & H & I & J).
  exists r. split; [exact E|].
  eapply resp_ok_of; eauto.
  - vm_compute. discriminate.
  - intros X. discriminate X.
Qed.

Lemma rfq_resp q st st' m :
  q_cc q = GET_COMMAND -> q_pid q = PID_QUEUED_MESSAGE -> qok m ->
  hresp q (response_from_queued q st m, st').
Proof.
  intros CC P [[C|C] L]; unfold response_from_queued, hresp; rewrite C; cbn [fst].
  - change (GET_COMMAND_RESPONSE =? GET_COMMAND_RESPONSE) with true. cbv iota.
    eexists. split; [reflexivity|].
    unfold resp_ok. cbn. rewrite CC. repeat split; auto. intros X. discriminate X.
  - change (SET_COMMAND_RESPONSE =? GET_COMMAND_RESPONSE) with false.
    change (SET_COMMAND_RESPONSE =? SET_COMMAND_RESPONSE) with true. cbv iota.
    eexists. split; [reflexivity|].
    unfold resp_ok. cbn. repeat split; auto. intros X. discriminate X.
Qed.

(* ---- GET QUEUED_MESSAGE ---- *)
Lemma at_get_queued_resp q st :
  at_inv st -> q_cc q = GET_COMMAND -> q_pid q = PID_QUEUED_MESSAGE -> hresp q (at_get_queued q st).
Proof.
  intros (IU & IQ & IL) CC P. assert (W : wf_cc q) by (left; exact CC).
  unfold at_get_queued. pose proof (extract_not_oob 1 q) as NO.
  destruct (extract 1 q) as [| |s]; [congruence| |].
  - apply nack_resp; [exact W|vm_compute; discriminate].
  - destruct (at_queued st) as [|m rest] eqn:Q; [apply empty_status_resp; exact W|].
    destruct (s =? STATUS_GET_LAST_MESSAGE).
    + destruct (at_last st) as [l|] eqn:LA; [|apply empty_status_resp; exact W].
      apply rfq_resp; auto.
    + apply rfq_resp; auto. inversion IQ; assumption.
Qed.
Lemma at_get_queued_keeps q st : at_inv st -> hkeeps st (at_get_queued q st).
Proof.
  intros I. pose proof I as (IU & IQ & IL). unfold at_get_queued.
  destruct (extract 1 q) as [| |s]; try (apply keeps_same; exact I).
  destruct (at_queued st) as [|m rest] eqn:Q; [apply keeps_same; exact I|].
  destruct (s =? STATUS_GET_LAST_MESSAGE).
  - destruct (at_last st); apply keeps_same; exact I.
  - split; [|reflexivity]. cbn. inversion IQ; subst.
    split; [exact IU|]. split; [assumption|]. cbn. intros l0 E. inversion E; subst. assumption.
Qed.

(* ---- SET DMX_START_ADDRESS / IDENTIFY_DEVICE: ACK_TIMER and a message for later ---- *)
Lemma push_inv st pid : at_inv st -> Forall qok (push_upcoming st pid).
Proof.
  intros (IU & _). unfold push_upcoming. apply Forall_app. split; [exact IU|].
  constructor; [|constructor]. split; [right; reflexivity|]. cbn. vm_compute. discriminate.
Qed.
Lemma at_set_start_resp q st : wf_cc q -> hresp q (at_set_start q st).
Proof.
  intros W. unfold at_set_start. pose proof (extract_not_oob 2 q) as NO.
  destruct (extract 2 q) as [| |a]; [congruence| |].
  - apply nack_resp; [exact W|vm_compute; discriminate].
  - destruct ((a =? 0) || (u16 (1 + DMX_UNIVERSE_SIZE + 65536 - at_fp st) <? a));
      [apply nack_resp; [exact W|vm_compute; discriminate]|].
    destruct (at_fp st =? 0); [apply nack_resp; [exact W|vm_compute; discriminate]|].
    match goal with |- hresp q (ack_timer_response q ?s, _) =>
      destruct (ack_timer_spec q s W) as (r & E & O & _) end.
    exists r. split; [exact E|exact O].
Qed.
Lemma at_set_start_keeps q st : wf_cc q -> at_inv st -> hkeeps st (at_set_start q st).
Proof.
  intros W I. unfold at_set_start.
  destruct (extract 2 q) as [| |a]; try (apply keeps_same; exact I).
  destruct ((a =? 0) || (u16 (1 + DMX_UNIVERSE_SIZE + 65536 - at_fp st) <? a));
    [apply keeps_same; exact I|].
  destruct (at_fp st =? 0); [apply keeps_same; exact I|].
  split.
  - cbn. pose proof I as (IU & IQ & IL). split; [apply push_inv; exact I|]. split; assumption.
  - cbn [fst snd]. intros r E T.
    match type of E with ack_timer_response q ?s = _ =>
      destruct (ack_timer_spec q s W) as (r' & E' & _ & T') end.
    rewrite E' in E. inversion E; subst. rewrite T' in T. discriminate T.
Qed.
Lemma at_set_identify_resp q st : wf_cc q -> hresp q (at_set_identify q st).
Proof.
  intros W. unfold at_set_identify. pose proof (extract_not_oob 1 q) as NO.
  destruct (extract 1 q) as [| |a]; [congruence| |].
  - apply nack_resp; [exact W|vm_compute; discriminate].
  - destruct (negb (a =? 0) && negb (a =? 1)); [apply nack_resp; [exact W|vm_compute; discriminate]|].
    match goal with |- hresp q (ack_timer_response q ?s, _) =>
      destruct (ack_timer_spec q s W) as (r & E & O & _) end.
    exists r. split; [exact E|exact O].
Qed.
Lemma at_set_identify_keeps q st : wf_cc q -> at_inv st -> hkeeps st (at_set_identify q st).
Proof.
  intros W I. unfold at_set_identify.
  destruct (extract 1 q) as [| |a]; try (apply keeps_same; exact I).
  destruct (negb (a =? 0) && negb (a =? 1)); [apply keeps_same; exact I|].
  split.
  - cbn. pose proof I as (IU & IQ & IL). split; [apply push_inv; exact I|]. split; assumption.
  - cbn [fst snd]. intros r E T.
    match type of E with ack_timer_response q ?s = _ =>
      destruct (ack_timer_spec q s W) as (r' & E' & _ & T') end.
    rewrite E' in E. inversion E; subst. rewrite T' in T. discriminate T.
Qed.

(* ---- SET DMX_PERSONALITY ---- *)
Lemma at_set_personality_resp q st : wf_cc q -> hresp q (at_set_personality q st).
Proof.
  intros W. unfold at_set_personality.
  pose proof (set_personality_ok q at_pers (at_active st) (at_start st) (qcount st) W) as G.
  destruct (set_personality q at_pers (at_active st) (at_start st) (qcount st)) as [|[r|] a];
    cbn in G; try contradiction.
  exists r. split; [reflexivity|tauto].
Qed.
Lemma at_set_personality_keeps q st : wf_cc q -> at_inv st -> hkeeps st (at_set_personality q st).
Proof.
  intros W I. unfold at_set_personality.
  pose proof (set_personality_ok q at_pers (at_active st) (at_start st) (qcount st) W) as G.
  destruct (set_personality q at_pers (at_active st) (at_start st) (qcount st)) as [|[r|] a];
    cbn in G; try contradiction.
  split; [exact I|]. cbn [fst snd]. intros r0 E T. inversion E; subst.
  destruct G as (_ & G). rewrite (G T). reflexivity.
Qed.
Lemma at_get_pd_resp q st : wf_cc q -> hresp q (at_get_personality_description q st).
Proof.
  intros W. unfold at_get_personality_description.
  pose proof (get_personality_description_ok q at_pers (qcount st) W) as G.
  destruct (get_personality_description q at_pers (qcount st)) as [|[r|] u]; cbn in G; try contradiction.
  exists r. split; [reflexivity|tauto].
Qed.
Lemma at_get_pd_keeps q st : at_inv st -> hkeeps st (at_get_personality_description q st).
Proof.
  intros I. unfold at_get_personality_description.
  destruct (get_personality_description q at_pers (qcount st)); apply keeps_same; exact I.
Qed.

(* ---- the whole table ---- *)
Ltac pick_entry L :=
  unfold at_table in L; cbn [lookup] in L;
  repeat match type of L with
         | (if ?c then _ else _) = _ => destruct c eqn:?
         end;
  try discriminate L; inversion L; subst; clear L.

Lemma at_handlers_resp c q st :
  at_inv st ->
  forall e h, lookup at_state (at_table c) (q_pid q) = Some e ->
    ((q_cc q = GET_COMMAND /\ e_get e = Some h) \/ (q_cc q = SET_COMMAND /\ e_set e = Some h)) ->
    hresp q (h q st).
Proof.
  intros I e h L H.
  assert (W : wf_cc q) by (destruct H as [[H _]|[H _]]; [left|right; left]; exact H).
  pick_entry L; destruct H as [[CC G]|[CC G]]; cbn in G; try discriminate G; inversion G; subst; clear G.
  - apply at_get_queued_resp; auto. apply N.eqb_eq in Heqb. symmetry. exact Heqb.
  - apply good_r_resp. apply get_device_info_ok. exact W.
  - apply good_r_resp. apply get_string_ok; [exact W|left; vm_compute; discriminate].
  - apply good_r_resp. apply get_string_ok; [exact W|left; vm_compute; discriminate].
  - apply good_r_resp. apply get_string_ok; [exact W|left; vm_compute; discriminate].
  - apply good_r_resp. apply get_string_ok; [exact W|left; vm_compute; discriminate].
  - apply good_r_resp. apply get_personality_ok. exact W.
  - apply at_set_personality_resp. exact W.
  - apply at_get_pd_resp. exact W.
  - apply good_r_resp. apply get_dmx_address_ok. exact W.
  - apply at_set_start_resp. exact W.
  - apply good_r_resp. apply get_bool_ok. exact W.
  - apply at_set_identify_resp. exact W.
Qed.

Lemma at_handlers_keep c q st :
  at_inv st ->
  forall e h, lookup at_state (at_table c) (q_pid q) = Some e ->
    ((q_cc q = GET_COMMAND /\ e_get e = Some h) \/ (q_cc q = SET_COMMAND /\ e_set e = Some h)) ->
    hkeeps st (h q st).
Proof.
  intros I e h L H.
  assert (W : wf_cc q) by (destruct H as [[H _]|[H _]]; [left|right; left]; exact H).
  pick_entry L; destruct H as [[CC G]|[CC G]]; cbn in G; try discriminate G; inversion G; subst; clear G;
    try (apply keeps_same; exact I).
  - apply at_get_queued_keeps. exact I.
  - apply at_set_personality_keeps; assumption.
  - apply at_get_pd_keeps. exact I.
  - apply at_set_start_keeps; assumption.
  - apply at_set_identify_keeps; assumption.
Qed.

Lemma queue_new_inv st : at_inv st -> at_inv (queue_new st).
Proof.
  intros (IU & IQ & IL). unfold queue_new. split; [|split]; cbn.
  - apply Forall_forall. intros m Hm. apply filter_In in Hm as [Hm _].
    rewrite Forall_forall in IU. auto.
  - apply Forall_app. split; [exact IQ|].
    apply Forall_forall. intros m Hm. apply filter_In in Hm as [Hm _].
    rewrite Forall_forall in IU. auto.
  - exact IL.
Qed.

Definition with_now (now : N) (st : at_state) : at_state :=
  mkAT now (at_start st) (at_ident st) (at_active st) (at_upcoming st) (at_queued st) (at_last st).

(* one call of SendRDMRequest in a state satisfying the invariant *)
Lemma at_send_ok c uid now q st :
  at_inv st ->
  let out := fst (at_send c uid now q st) in
  let st' := snd (at_send c uid now q st) in
  at_inv st' /\
  (exists s ro, out = [(s, ro)]) /\
  (is_broadcast (q_dst q) = true -> exists s, out = [(s, None)]) /\
  (is_broadcast (q_dst q) = false -> directed_to (q_dst q) uid = true ->
   q_cc q = GET_COMMAND \/ q_cc q = SET_COMMAND ->
   exists r, out = [(RDM_COMPLETED_OK, Some r)] /\ resp_ok q r /\
             (r_type r = RDM_NACK_REASON -> at_params st' = at_params st)).
Proof.
  intros I. cbn zeta. unfold at_send.
  set (st1 := queue_new _).
  assert (I1 : at_inv st1).
  { apply queue_new_inv. destruct I as (A & B & C). split; [|split]; cbn; assumption. }
  assert (P1 : at_params st1 = at_params st) by reflexivity.
  pose proof (dispatch_state at_state false (at_table c) uid ROOT_RDM_DEVICE q st1) as DS.
  split; [|split; [|split]].
  - destruct DS as [E|(e & h & L & H & E & _)]; rewrite E; [exact I1|].
    apply (at_handlers_keep c q st1 I1 e h L H).
  - apply dispatch_once.
  - intros B. destruct (dispatch_broadcast at_state false (at_table c) uid ROOT_RDM_DEVICE q st1 B)
      as (s & E & _). eauto.
  - intros B D CC.
    destruct (dispatch_unicast_at at_state false (at_table c) uid ROOT_RDM_DEVICE q st1) as (r & E & O); auto.
    + intros e h L H. apply (at_handlers_resp c q st1 I1 e h L H).
    + vm_compute. discriminate.
    + exists r. split; [exact E|]. split; [exact O|]. intros T. rewrite <- P1.
      destruct DS as [E2|(e & h & L & H & E2 & E3)]; [rewrite E2; reflexivity|].
      rewrite E2. specialize (E3 B). rewrite E3 in E. inversion E as [E4].
      destruct (at_handlers_keep c q st1 I1 e h L H) as (_ & K). apply (K r); auto.
Qed.

Lemma at_init_inv : at_inv at_init.
Proof. repeat split; try constructor. discriminate. discriminate. Qed.

Lemma at_run_inv c uid h : forall st, at_inv st -> at_inv (snd (at_run c uid h st)).
Proof.
  induction h as [|[now q] rest IH]; intros st I; [exact I|].
  cbn [at_run]. destruct (at_send c uid now q st) as [out st1] eqn:E.
  specialize (IH st1). destruct (at_run c uid rest st1) as [outs st2]. cbn in *.
  apply IH. pose proof (at_send_ok c uid now q st I) as (I1 & _). rewrite E in I1. exact I1.
Qed.

(* every request after every history *)
Lemma acktimer_conforms c uid h now q :
  let st := snd (at_run c uid h at_init) in
  let out := fst (at_send c uid now q st) in
  let st' := snd (at_send c uid now q st) in
  (exists s ro, out = [(s, ro)]) /\
  (is_broadcast (q_dst q) = true -> exists s, out = [(s, None)]) /\
  (is_broadcast (q_dst q) = false -> directed_to (q_dst q) uid = true ->
   q_cc q = GET_COMMAND \/ q_cc q = SET_COMMAND ->
   exists r, out = [(RDM_COMPLETED_OK, Some r)] /\ resp_ok q r /\
             (r_type r = RDM_NACK_REASON -> at_params st' = at_params st)).
Proof.
  cbn zeta. pose proof (at_run_inv c uid h at_init at_init_inv) as I.
  pose proof (at_send_ok c uid now q _ I) as (_ & A & B & C). auto.
Qed.
