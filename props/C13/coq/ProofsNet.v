(* C13 — network helpers, NetworkResponder and DummyResponder *)
From OlaBase Require Import Bytes.
From C13 Require Import Gen GenTables Model AckTimer Responders MovingLight Network Dummy Chk Proofs ProofsHelpers
  ProofsResp ProofsMoving.
Local Open Scope N_scope.

(* ---- the eight network helpers ---- *)
Lemma len_insert_if x l : len (insert_if x l) = 1 + len l.
Proof.
  induction l as [|y r IH]; cbn [insert_if]; [reflexivity|].
  destruct (s32 (if_index y) <=? s32 (if_index x)); rewrite ?len_cons, ?IH; lia.
Qed.
Lemma len_sort_ifs l : len (sort_ifs l) = len l.
Proof. induction l as [|x r IH]; [reflexivity|]. cbn [sort_ifs]. rewrite len_insert_if, IH, len_cons. reflexivity. Qed.
Lemma len_flat6 (l : list iface) :
  len (flat_map (fun x => be_bytes 4 (if_index x) ++ be_bytes 2 (if_type x)) l) = 6 * len l.
Proof.
  induction l as [|x r IH]; [reflexivity|]. cbn [flat_map].
  rewrite !len_app, !len_be_bytes, IH, len_cons. lia.
Qed.

(* more than 38 interfaces would not fit one response (the code has no ACK_OVERFLOW) *)
Definition net_ok (n : netcfg) : Prop := 6 * len (n_ifs n) <= MAX_PDL.

Lemma get_list_interfaces_ok q n mc : wf_cc q -> net_ok n -> good_r q (get_list_interfaces q n mc).
Proof.
  intros W NO. unfold get_list_interfaces. destruct (negb (len (q_data q) =? 0)).
  - apply good_r_nack; [exact W|vm_compute; discriminate].
  - destruct (n_ifs n) as [|i0 r] eqn:E.
    + apply good_r_ack; [exact W|vm_compute; discriminate].
    + apply good_r_ack; [exact W|]. rewrite len_flat6.
      pose proof (len_filter_le (fun x => index_valid (if_index x)) (sort_ifs (i0 :: r))) as F.
      rewrite len_sort_ifs in F. unfold net_ok in NO. rewrite E in NO. lia.
Qed.
Lemma get_interface_label_ok q n mc : wf_cc q -> good q tt (get_interface_label q n mc).
Proof.
  intros W. unfold get_interface_label. pose proof (extract_not_oob 4 q).
  destruct (extract 4 q) as [| |i]; [congruence| |].
  - apply good_nack; [exact W|vm_compute; discriminate].
  - destruct (find_interface n i) as [x|]; [|apply good_nack; [exact W|vm_compute; discriminate]].
    apply good_ack; [exact W|]. rewrite len_app, len_be_bytes.
    pose proof (len_str_trunc (if_name x) MAX_RDM_STRING_LENGTH).
    unfold MAX_RDM_STRING_LENGTH, MAX_PDL in *. lia.
Qed.
Lemma get_interface_hw_ok q n mc : wf_cc q -> good q tt (get_interface_hw q n mc).
Proof.
  intros W. unfold get_interface_hw. pose proof (extract_not_oob 4 q).
  destruct (extract 4 q) as [| |i]; [congruence| |].
  - apply good_nack; [exact W|vm_compute; discriminate].
  - destruct (find_interface n i) as [x|]; [|apply good_nack; [exact W|vm_compute; discriminate]].
    destruct (negb (if_type x =? ARP_ETHERNET_TYPE)); [apply good_nack; [exact W|vm_compute; discriminate]|].
    apply good_ack; [exact W|]. rewrite len_app, len_be_bytes.
    pose proof (len_take_le 6 (if_hw x ++ repeat 0 6)). unfold MAX_PDL. lia.
Qed.
Lemma get_ipv4_current_address_ok q n mc : wf_cc q -> good q tt (get_ipv4_current_address q n mc).
Proof.
  intros W. unfold get_ipv4_current_address. pose proof (extract_not_oob 4 q).
  destruct (extract 4 q) as [| |i]; [congruence| |].
  - apply good_nack; [exact W|vm_compute; discriminate].
  - destruct (find_interface n i) as [x|]; [|apply good_nack; [exact W|vm_compute; discriminate]].
    apply good_ack; [exact W|]. rewrite !len_app, !len_be_bytes. vm_compute. discriminate.
Qed.
Lemma get_ipv4_default_route_ok q n mc : wf_cc q -> good_r q (get_ipv4_default_route q n mc).
Proof.
  intros W. unfold get_ipv4_default_route. destruct (negb (len (q_data q) =? 0)).
  - apply good_r_nack; [exact W|vm_compute; discriminate].
  - destruct (n_route n) as [[idx gw]|]; [|apply good_r_nack; [exact W|vm_compute; discriminate]].
    apply good_r_ack; [exact W|]. rewrite len_app, !len_be_bytes. vm_compute. discriminate.
Qed.
Lemma get_dns_hostname_ok q n mc : wf_cc q -> good_r q (get_dns_hostname q n mc).
Proof.
  intros W. unfold get_dns_hostname. destruct (negb (len (q_data q) =? 0)).
  - apply good_r_nack; [exact W|vm_compute; discriminate].
  - destruct ((len (n_host n) =? 0) || (MAX_RDM_HOSTNAME_LENGTH <? len (n_host n))).
    + apply good_r_nack; [exact W|vm_compute; discriminate].
    + apply get_string_ok; [exact W|left; vm_compute; discriminate].
Qed.
Lemma get_dns_domain_name_ok q n mc : wf_cc q -> good_r q (get_dns_domain_name q n mc).
Proof.
  intros W. unfold get_dns_domain_name. destruct (negb (len (q_data q) =? 0)).
  - apply good_r_nack; [exact W|vm_compute; discriminate].
  - destruct (MAX_RDM_DOMAIN_NAME_LENGTH <? len (n_domain n)).
    + apply good_r_nack; [exact W|vm_compute; discriminate].
    + apply get_string_ok; [exact W|left; vm_compute; discriminate].
Qed.
Lemma get_dns_name_server_ok q n mc : wf_cc q -> good q tt (get_dns_name_server q n mc).
Proof.
  intros W. unfold get_dns_name_server. pose proof (extract_not_oob 1 q).
  destruct (extract 1 q) as [| |i]; [congruence| |].
  - apply good_nack; [exact W|vm_compute; discriminate].
  - destruct (n_dns n) as [servers|]; [|apply good_nack; [exact W|vm_compute; discriminate]].
    destruct ((len servers <=? i) || (DNS_NAME_SERVER_MAX_INDEX <? i)) eqn:C;
      [apply good_nack; [exact W|vm_compute; discriminate]|].
    apply Bool.orb_false_iff in C as [C _]. apply N.leb_gt in C.
    destruct (nth_error_lt servers i C) as (a & Ea). rewrite Ea.
    apply good_ack; [exact W|]. rewrite len_app, len_be_bytes. vm_compute. discriminate.
Qed.

Ltac net_unfold :=
  unfold h_list_interfaces, h_interface_label, h_interface_hw, h_ipv4_current, h_ipv4_route, h_dns_hostname,
         h_dns_domain, h_dns_server.
Ltac goodlem3 W NO :=
  first [ goodlem2 W
        | apply get_list_interfaces_ok; [exact W|exact NO]
        | apply get_interface_label_ok; exact W | apply get_interface_hw_ok; exact W
        | apply get_ipv4_current_address_ok; exact W | apply get_ipv4_default_route_ok; exact W
        | apply get_dns_hostname_ok; exact W | apply get_dns_domain_name_ok; exact W
        | apply get_dns_name_server_ok; exact W ].

(* ======================= NetworkResponder ======================= *)
Lemma nr_HR c q st e h :
  net_ok (nc_net c) -> lookup nr_state (nr_table c) (q_pid q) = Some e ->
  ((q_cc q = GET_COMMAND /\ e_get e = Some h) \/ (q_cc q = SET_COMMAND /\ e_set e = Some h)) ->
  hresp_g q (h q st).
Proof.
  intros NO L H. assert (W : wf_cc q) by (destruct H as [[H _]|[H _]]; [left|right; left]; exact H).
  unfold nr_table in L. pick L;
    destruct H as [[CC G]|[CC G]]; cbn in G; try discriminate G; inversion G; subst; clear G;
    net_unfold; unfold nr_device_info, nr_product_detail, str_handler, nr_get_identify, nr_set_identify;
    first [ apply good_r_resp_g; goodlem3 W NO | eapply lift_resp; goodlem3 W NO ].
Qed.
Lemma nr_HK c q st e h :
  lookup nr_state (nr_table c) (q_pid q) = Some e ->
  ((q_cc q = GET_COMMAND /\ e_get e = Some h) \/ (q_cc q = SET_COMMAND /\ e_set e = Some h)) ->
  hkeeps_g st (h q st).
Proof.
  intros L H. assert (W : wf_cc q) by (destruct H as [[H _]|[H _]]; [left|right; left]; exact H).
  unfold nr_table in L. pick L;
    destruct H as [[CC G]|[CC G]]; cbn in G; try discriminate G; inversion G; subst; clear G;
    net_unfold; unfold nr_device_info, nr_product_detail, str_handler, nr_get_identify, nr_set_identify;
    first [ apply keeps_same_g
          | eapply lift_keeps;
            [first [ goodlem2 W | apply get_interface_label_ok; exact W | apply get_interface_hw_ok; exact W
                   | apply get_ipv4_current_address_ok; exact W | apply get_dns_name_server_ok; exact W ]
            | reflexivity] ].
Qed.

Lemma network_conforms c uid q st :
  net_ok (nc_net c) ->
  let out := fst (nr_send c uid q st) in
  let st' := snd (nr_send c uid q st) in
  (exists s ro, out = [(s, ro)]) /\
  (is_broadcast (q_dst q) = true -> exists s, out = [(s, None)]) /\
  (is_broadcast (q_dst q) = false -> directed_to (q_dst q) uid = true ->
   q_cc q = GET_COMMAND \/ q_cc q = SET_COMMAND ->
   exists r, out = [(RDM_COMPLETED_OK, Some r)] /\ resp_ok q r /\
             (r_type r = RDM_NACK_REASON -> st' = st)).
Proof.
  intros NO. apply resp_send_ok.
  - vm_compute. discriminate.
  - intros q0 st0 e h. apply nr_HR. exact NO.
  - intros q0 st0 e h. apply nr_HK.
Qed.

(* ---- one request in one state: the handler obligations only where they are used ---- *)
Section GenericAt.
  Variable S : Type.
  Variable inv : S -> Prop.
  Variables (incl : bool) (t : table S) (uid sd : N) (q : request) (st : S).
  Hypothesis small : 2 * len t <= MAX_PDL.
  Hypothesis HR : forall e h, lookup S t (q_pid q) = Some e ->
    ((q_cc q = GET_COMMAND /\ e_get e = Some h) \/ (q_cc q = SET_COMMAND /\ e_set e = Some h)) ->
    hresp_g q (h q st).
  Hypothesis HI : forall e h, lookup S t (q_pid q) = Some e ->
    ((q_cc q = GET_COMMAND /\ e_get e = Some h) \/ (q_cc q = SET_COMMAND /\ e_set e = Some h)) ->
    inv (snd (h q st)).
  Hypothesis HK : forall e h, lookup S t (q_pid q) = Some e ->
    q_cc q = SET_COMMAND -> e_set e = Some h -> hkeeps_g st (h q st).

  Lemma resp_send_at_ok :
    inv st ->
    let out := fst (dispatch S incl t uid sd q st) in
    let st' := snd (dispatch S incl t uid sd q st) in
    inv st' /\
    (exists s ro, out = [(s, ro)]) /\
    (is_broadcast (q_dst q) = true -> exists s, out = [(s, None)]) /\
    (is_broadcast (q_dst q) = false -> directed_to (q_dst q) uid = true ->
     q_cc q = GET_COMMAND \/ q_cc q = SET_COMMAND ->
     exists r, out = [(RDM_COMPLETED_OK, Some r)] /\ resp_ok q r /\
               (q_cc q = SET_COMMAND -> r_type r = RDM_NACK_REASON -> st' = st)).
  Proof.
    intros I. cbn zeta. pose proof (dispatch_state S incl t uid sd q st) as DS.
    split; [|split; [apply dispatch_once|split]].
    - destruct DS as [E|(e & h & L & H & E & _)]; rewrite E; [exact I|]. apply (HI e h L H).
    - intros B. destruct (dispatch_broadcast S incl t uid sd q st B) as (s & E & _). eauto.
    - intros B D CC.
      destruct (dispatch_unicast_at S incl t uid sd q st) as (r & E & O); auto.
      exists r. split; [exact E|]. split; [exact O|]. intros CS T.
      destruct DS as [E2|(e & h & L & H & E2 & E3)]; [exact E2|].
      rewrite E2. specialize (E3 B). rewrite E3 in E. inversion E as [E4].
      destruct H as [[CG _]|[_ G]]; [rewrite CS in CG; discriminate CG|].
      apply (HK e h L CS G r); auto.
  Qed.
End GenericAt.

(* ======================= DummyResponder ======================= *)
Definition dr_inv (st : dr_state) : Prop := pers_lookup dr_pers (dr_active st) <> None.
(* configuration: at most 38 interfaces, URLs that fit one response *)
Definition dr_cfg_ok (c : dr_cfg) : Prop :=
  net_ok (dc_net c) /\ len (dc_url_manu c) <= MAX_PDL /\ len (dc_url_product c) <= MAX_PDL /\
  len (dc_url_firmware c) <= MAX_PDL.
(* a well-formed request outside the known finding C13-testdata-over-231 *)
Definition dr_req_ok (q : request) : Prop :=
  bytes_ok (q_data q) = true /\ len (q_data q) <= MAX_PDL /\ known_testdata q = false.

Lemma dr_slots_small : Forall (fun p => 5 * len (p_slots p) <= MAX_PDL) dr_pers.
Proof. repeat constructor; vm_compute; discriminate. Qed.
Lemma dr_slots st :
  dr_inv st -> exists sl, active_slots dr_pers (dr_active st) = Some sl /\ 5 * len sl <= MAX_PDL.
Proof.
  intros A. unfold active_slots. destruct (pers_lookup dr_pers (dr_active st)) as [p|] eqn:E; [|congruence].
  exists (p_slots p). split; [reflexivity|].
  pose proof dr_slots_small as F. rewrite Forall_forall in F. apply F. apply (pers_lookup_in _ _ _ E).
Qed.

Lemma dr_param_description_resp q st : wf_cc q -> hresp_g q (dr_param_description q st).
Proof.
  intros W. unfold dr_param_description. pose proof (extract_not_oob 2 q).
  destruct (extract 2 q) as [| |v]; [congruence| |].
  - apply resp_nack; [exact W|vm_compute; discriminate].
  - destruct (negb (v =? OLA_MANUFACTURER_PID_CODE_VERSION)).
    + apply resp_nack; [exact W|vm_compute; discriminate].
    + unfold get_ascii_param_description. apply resp_ack; [exact W|]. vm_compute. discriminate.
Qed.

Lemma dr_test_data_resp q st :
  q_cc q = GET_COMMAND -> q_pid q = PID_TEST_DATA -> dr_req_ok q -> hresp_g q (dr_get_test_data q st).
Proof.
  intros CC P (BO & _ & K). assert (W : wf_cc q) by (left; exact CC).
  unfold dr_get_test_data. eapply lift_resp. apply get_test_data_partial; [exact W| |exact BO].
  intros hi lo E Hh Hl. unfold known_testdata in K. rewrite CC, P, E, !N.eqb_refl in K. cbn [andb] in K.
  apply Bool.andb_false_iff in K as [K|K]; [left; apply N.ltb_ge in K; exact K|right; apply N.leb_gt in K; exact K].
Qed.

Ltac dr_unfold :=
  net_unfold;
  unfold dr_device_info, dr_product_detail, str_handler, dr_get_factory, dr_set_factory, dr_get_personality,
    dr_set_personality, dr_personality_description, dr_slot_info, dr_slot_description, dr_slot_defaults,
    dr_get_start, dr_set_start, dr_get_strikes, dr_set_strikes, dr_get_identify, dr_set_identify, dr_clock,
    dr_sensor_definition, dr_get_sensor_value, dr_set_sensor_value, dr_record_sensor, dr_url, dr_set_test_data,
    dr_code_version.

Ltac pick_eq L :=
  cbn [lookup] in L;
  repeat match type of L with
         | (if ?c then _ else _) = _ => destruct c eqn:?
         end;
  try discriminate L; inversion L; subst; clear L.

Lemma dr_HR c q st e h :
  dr_cfg_ok c -> dr_req_ok q -> dr_inv st -> lookup dr_state (dr_table c) (q_pid q) = Some e ->
  ((q_cc q = GET_COMMAND /\ e_get e = Some h) \/ (q_cc q = SET_COMMAND /\ e_set e = Some h)) ->
  hresp_g q (h q st).
Proof.
  intros (NO & U1 & U2 & U3) RQ I L H.
  assert (W : wf_cc q) by (destruct H as [[H _]|[H _]]; [left|right; left]; exact H).
  destruct (dr_slots st I) as (sl & SL & S5). assert (S3 : 3 * len sl <= MAX_PDL) by lia.
  pose proof RQ as (_ & QL & _).
  unfold dr_table in L. pick_eq L;
    destruct H as [[CC G]|[CC G]]; cbn in G; try discriminate G; inversion G; subst; clear G;
    try (apply dr_param_description_resp; exact W);
    try (apply dr_test_data_resp; [exact CC|symmetry; apply N.eqb_eq; assumption|exact RQ]);
    dr_unfold;
    try (first [ apply good_r_resp_g; goodlem3 W NO | eapply lift_resp; goodlem3 W NO ]).
  - apply good_r_resp_g. apply set_test_data_ok; assumption.
  - destruct (negb (len (q_data q) =? 0));
      [apply resp_nack; [exact W|vm_compute; discriminate]|apply resp_ack; [exact W|vm_compute; discriminate]].
  - apply good_r_resp_g. apply get_string_ok; [exact W|right; exact U1].
  - apply good_r_resp_g. apply get_string_ok; [exact W|right; exact U2].
  - apply good_r_resp_g. apply get_string_ok; [exact W|right; exact U3].
  - eapply lift_resp. eapply get_slot_info_ok; eauto.
  - eapply lift_resp. eapply get_slot_description_ok; eauto.
  - eapply lift_resp. eapply get_slot_defaults_ok; eauto.
Qed.

Lemma dr_set_personality_inv q st : dr_inv st -> dr_inv (snd (dr_set_personality q st)).
Proof.
  intros I. unfold dr_set_personality, lift_set.
  destruct (set_personality q dr_pers (dr_active st) (dr_start st) 0) as [|r a] eqn:E; cbn [snd]; [exact I|].
  unfold dr_inv. cbn. apply (set_personality_valid _ _ _ _ _ _ _ I E).
Qed.

Lemma dr_HI c q st e h :
  dr_inv st -> lookup dr_state (dr_table c) (q_pid q) = Some e ->
  ((q_cc q = GET_COMMAND /\ e_get e = Some h) \/ (q_cc q = SET_COMMAND /\ e_set e = Some h)) ->
  dr_inv (snd (h q st)).
Proof.
  intros I L H.
  unfold dr_table in L. pick L;
    destruct H as [[CC G]|[CC G]]; cbn in G; try discriminate G; inversion G; subst; clear G;
    try (apply dr_set_personality_inv; exact I);
    dr_unfold; unfold dr_get_test_data, dr_param_description, lift_set;
    try (match goal with |- dr_inv (snd (match ?x with _ => _ end)) => destruct x end);
    try (match goal with |- dr_inv (snd (if ?x then _ else _)) => destruct x end);
    cbn [snd]; try exact I; try (unfold dr_inv in *; cbn; first [exact I | vm_compute; discriminate]).
Qed.

Lemma dr_HK c q st e h :
  dr_req_ok q -> lookup dr_state (dr_table c) (q_pid q) = Some e ->
  q_cc q = SET_COMMAND -> e_set e = Some h -> hkeeps_g st (h q st).
Proof.
  intros (_ & QL & _) L CC G. assert (W : wf_cc q) by (right; left; exact CC).
  unfold dr_table in L. pick L; cbn in G; try discriminate G; inversion G; subst; clear G;
    dr_unfold; unfold dr_with_sensors;
    try (eapply lift_keeps; [goodlem2 W | try (match goal with |- _ = ?s => destruct s; reflexivity end)]).
  - apply keeps_same_g.
  - destruct (negb (len (q_data q) =? 0)); [apply keeps_same_g|apply keeps_ack; [exact W|vm_compute; discriminate]].
Qed.

Lemma dummy_conforms c uid q st :
  dr_cfg_ok c -> dr_req_ok q -> dr_inv st ->
  let out := fst (dr_send c uid q st) in
  let st' := snd (dr_send c uid q st) in
  dr_inv st' /\
  (exists s ro, out = [(s, ro)]) /\
  (is_broadcast (q_dst q) = true -> exists s, out = [(s, None)]) /\
  (is_broadcast (q_dst q) = false -> directed_to (q_dst q) uid = true ->
   q_cc q = GET_COMMAND \/ q_cc q = SET_COMMAND ->
   exists r, out = [(RDM_COMPLETED_OK, Some r)] /\ resp_ok q r /\
             (q_cc q = SET_COMMAND -> r_type r = RDM_NACK_REASON -> st' = st)).
Proof.
  intros CO RQ I. apply (resp_send_at_ok dr_state dr_inv); auto.
  - vm_compute. discriminate.
  - intros e h. apply dr_HR; assumption.
  - intros e h. apply dr_HI; assumption.
  - intros e h. apply dr_HK; assumption.
Qed.

(* invariant preservation needs no assumption on the request *)
Lemma dr_send_inv c uid q st : dr_inv st -> dr_inv (snd (dr_send c uid q st)).
Proof.
  intros I. unfold dr_send.
  destruct (dispatch_state dr_state false (dr_table c) uid ROOT_RDM_DEVICE q st) as [E|(e & h & L & H & E & _)];
    rewrite E; [exact I|]. apply (dr_HI c q st e h I L H).
Qed.
Lemma dr_run_inv c uid h : forall st, dr_inv st -> dr_inv (snd (dr_run c uid h st)).
Proof.
  induction h as [|q rest IH]; intros st I; [exact I|].
  cbn [dr_run]. pose proof (dr_send_inv c uid q st I) as I1.
  destruct (dr_send c uid q st) as [out st1]. specialize (IH st1).
  destruct (dr_run c uid rest st1) as [outs st2]. cbn in *. apply IH. exact I1.
Qed.
Lemma dr_init_inv ss : dr_inv (dr_init ss).
Proof. unfold dr_inv. vm_compute. discriminate. Qed.
