(* C13 — MovingLightResponder: every reply conforms, from every state satisfying the invariant
   (the active personality exists, the language string fits a response), which every request keeps. *)
From OlaBase Require Import Bytes.
From C13 Require Import Gen GenTables Model AckTimer Responders MovingLight Chk Proofs ProofsHelpers ProofsResp.
Local Open Scope N_scope.

Section GenericInv.
  Variable S : Type.
  Variable inv : S -> Prop.
  Variables (incl : bool) (t : table S) (uid sd : N).
  Hypothesis small : 2 * len t <= MAX_PDL.
  Hypothesis HR : forall q st e h, inv st -> lookup S t (q_pid q) = Some e ->
    ((q_cc q = GET_COMMAND /\ e_get e = Some h) \/ (q_cc q = SET_COMMAND /\ e_set e = Some h)) ->
    hresp_g q (h q st).
  Hypothesis HI : forall q st e h, inv st -> lookup S t (q_pid q) = Some e ->
    ((q_cc q = GET_COMMAND /\ e_get e = Some h) \/ (q_cc q = SET_COMMAND /\ e_set e = Some h)) ->
    inv (snd (h q st)).
  Hypothesis HK : forall q st e h, inv st -> lookup S t (q_pid q) = Some e ->
    q_cc q = SET_COMMAND -> e_set e = Some h -> hkeeps_g st (h q st).

  Lemma resp_send_inv_ok q st :
    inv st ->
    let out := fst (dispatch S incl t uid sd q st) in
    let st' := snd (dispatch S incl t uid sd q st) in
    inv st' /\
    (exists s ro, out = [(s, ro)]) /\
    (is_broadcast (q_dst q) = true -> exists s, out = [(s, None)]) /\
    (is_broadcast (q_dst q) = false -> directed_to (q_dst q) uid = true ->
     q_cc q = GET_COMMAND \/ q_cc q = SET_COMMAND ->
     exists r, out = [(RDM_COMPLETED_OK, Some r)] /\ resp_ok q r /\
               (q_cc q = SET_COMMAND -> r_type r = RDM_NACK_REASON -> st' = st)).
  Proof.
    intros I. cbn zeta. pose proof (dispatch_state S incl t uid sd q st) as DS.
    split; [|split; [apply dispatch_once|split]].
    - destruct DS as [E|(e & h & L & H & E & _)]; rewrite E; [exact I|]. apply (HI q st e h I L H).
    - intros B. destruct (dispatch_broadcast S incl t uid sd q st B) as (s & E & _). eauto.
    - intros B D CC.
      destruct (dispatch_unicast_at S incl t uid sd q st) as (r & E & O); auto.
      + intros e h L H. apply (HR q st e h I L H).
      + exists r. split; [exact E|]. split; [exact O|]. intros CS T.
        destruct DS as [E2|(e & h & L & H & E2 & E3)]; [exact E2|].
        rewrite E2. specialize (E3 B). rewrite E3 in E. inversion E as [E4].
        destruct H as [[CG _]|[_ G]]; [rewrite CS in CG; discriminate CG|].
        apply (HK q st e h I L CS G r); auto.
  Qed.
End GenericInv.

(* ---- small helpers ---- *)
Lemma get_noarg_ok q data : wf_cc q -> len data <= MAX_PDL -> good_r q (get_noarg q data).
Proof.
  intros W L. unfold get_noarg. destruct (negb (len (q_data q) =? 0)).
  - apply good_r_nack; [exact W|vm_compute; discriminate].
  - apply good_r_ack; assumption.
Qed.
Lemma set_uint8_pred_ok q old ok : wf_cc q -> good q old (set_uint8_pred q old ok).
Proof.
  intros W. unfold set_uint8_pred. pose proof (extract_not_oob 1 q).
  destruct (extract 1 q) as [| |v]; [congruence| |].
  - apply good_nack; [exact W|vm_compute; discriminate].
  - destruct (ok v).
    + apply good_ack; [exact W|vm_compute; discriminate].
    + apply good_nack; [exact W|vm_compute; discriminate].
Qed.
Lemma keeps_ack {S} q d mc (st st' : S) : wf_cc q -> len d <= MAX_PDL -> hkeeps_g st (ack q d mc, st').
Proof.
  intros W L r E T. cbn in E. destruct (ack_spec q d mc W L) as (r' & E' & _ & T' & _).
  rewrite E' in E. inversion E; subst. rewrite T' in T. discriminate T.
Qed.
Lemma resp_ack {S} q d mc (st : S) : wf_cc q -> len d <= MAX_PDL -> hresp_g q (ack q d mc, st).
Proof. intros W L. apply good_r_resp_g. apply good_r_ack; assumption. Qed.
Lemma resp_nack {S} q reason mc (st : S) : wf_cc q -> reason <= NR_INVALID_PORT -> hresp_g q (nack_with_reason q reason mc, st).
Proof. intros W L. apply good_r_resp_g. apply good_r_nack; assumption. Qed.

(* ---- the invariant ---- *)
Definition ml_inv (st : ml_state) : Prop :=
  pers_lookup ml_pers (ml_active st) <> None /\ len (ml_lang st) <= MAX_PDL.

Lemma ml_init_inv : ml_inv ml_init.
Proof. split; [vm_compute; discriminate|vm_compute; discriminate]. Qed.

Lemma pers_lookup_in ps n p : pers_lookup ps n = Some p -> In p ps.
Proof.
  unfold pers_lookup. destruct ((n =? 0) || (len ps <? n)); [discriminate|]. apply nth_error_In.
Qed.
Lemma ml_slots_small : Forall (fun p => 5 * len (p_slots p) <= MAX_PDL) ml_pers.
Proof. repeat constructor; vm_compute; discriminate. Qed.
Lemma ml_slots st :
  ml_inv st -> exists sl, active_slots ml_pers (ml_active st) = Some sl /\ 5 * len sl <= MAX_PDL.
Proof.
  intros (A & _). unfold active_slots. destruct (pers_lookup ml_pers (ml_active st)) as [p|] eqn:E; [|congruence].
  exists (p_slots p). split; [reflexivity|].
  pose proof ml_slots_small as F. rewrite Forall_forall in F. apply F. apply (pers_lookup_in _ _ _ E).
Qed.
Lemma set_personality_valid q ps active start mc r a :
  pers_lookup ps active <> None -> set_personality q ps active start mc = HR r a ->
  pers_lookup ps a <> None.
Proof.
  intros V. unfold set_personality. destruct (extract 1 q) as [| |n].
  - intros H; discriminate H.
  - intros H; inversion H; subst; exact V.
  - destruct (pers_lookup ps n) eqn:E; [|intros H; inversion H; subst; exact V].
    destruct (Z.of_N DMX_UNIVERSE_SIZE <? Z.of_N start + Z.of_N (p_fp p) - 1)%Z;
      intros H; inversion H; subst; [exact V|congruence].
Qed.

Lemma param_description_resp q st : wf_cc q -> hresp_g q (ml_param_description q st).
Proof.
  intros W. unfold ml_param_description. pose proof (extract_not_oob 2 q).
  destruct (extract 2 q) as [| |v]; [congruence| |].
  - apply resp_nack; [exact W|vm_compute; discriminate].
  - destruct (negb (v =? OLA_MANUFACTURER_PID_CODE_VERSION)).
    + apply resp_nack; [exact W|vm_compute; discriminate].
    + unfold get_ascii_param_description. apply resp_ack; [exact W|]. vm_compute. discriminate.
Qed.

Ltac ml_unfold :=
  unfold ml_param_description, ml_device_info, ml_product_detail, str_handler, ml_get_label, ml_set_label_h,
    ml_get_factory, ml_set_factory, ml_language_caps, ml_get_language, ml_set_language, ml_get_personality,
    ml_set_personality, ml_personality_description, ml_slot_info, ml_slot_description, ml_slot_defaults,
    ml_get_start, ml_set_start_h, ml_get_dev_hours, ml_set_dev_hours_h, ml_get_lamp_hours, ml_set_lamp_hours_h,
    ml_get_lamp_strikes, ml_set_lamp_strikes_h, ml_get_lamp_state, ml_set_lamp_state_h, ml_get_lamp_on_mode,
    ml_set_lamp_on_mode_h, ml_get_power_cycles, ml_set_power_cycles_h, ml_get_identify, ml_set_identify_h,
    ml_get_disp_inv, ml_set_disp_inv_h, ml_get_disp_level, ml_set_disp_level_h, ml_get_pan_inv, ml_set_pan_inv_h,
    ml_get_tilt_inv, ml_set_tilt_inv_h, ml_get_swap, ml_set_swap_h, ml_clock, ml_reset_device, ml_get_power,
    ml_set_power_h, ml_code_version.

Ltac goodlem2 W :=
  first [ goodlem W
        | apply set_uint8_pred_ok; exact W
        | apply set_uint_ok; exact W
        | apply set_string_ok; exact W
        | apply get_noarg_ok; [exact W | first [vm_compute; discriminate | assumption]] ].

Lemma ml_HR c q st e h :
  ml_inv st -> lookup ml_state (ml_table c) (q_pid q) = Some e ->
  ((q_cc q = GET_COMMAND /\ e_get e = Some h) \/ (q_cc q = SET_COMMAND /\ e_set e = Some h)) ->
  hresp_g q (h q st).
Proof.
  intros I L H. assert (W : wf_cc q) by (destruct H as [[H _]|[H _]]; [left|right; left]; exact H).
  destruct (ml_slots st I) as (sl & SL & S5). pose proof I as (_ & LL).
  assert (S3 : 3 * len sl <= MAX_PDL) by lia.
  unfold ml_table in L. pick L;
    destruct H as [[CC G]|[CC G]]; cbn in G; try discriminate G; inversion G; subst; clear G;
    try (apply param_description_resp; exact W);
    ml_unfold;
    try (first [ apply good_r_resp_g; goodlem2 W | eapply lift_resp; goodlem2 W ]).
  - (* set factory defaults *)
    destruct (negb (len (q_data q) =? 0));
      [apply resp_nack; [exact W|vm_compute; discriminate]|apply resp_ack; [exact W|vm_compute; discriminate]].
  - (* set language *)
    destruct (negb (len (q_data q) =? 2)); [apply resp_nack; [exact W|vm_compute; discriminate]|].
    destruct (negb (is_lang (q_data q)));
      [apply resp_nack; [exact W|vm_compute; discriminate]|apply resp_ack; [exact W|vm_compute; discriminate]].
  - eapply lift_resp. eapply get_slot_info_ok; eauto.
  - eapply lift_resp. eapply get_slot_description_ok; eauto.
  - eapply lift_resp. eapply get_slot_defaults_ok; eauto.
Qed.

Lemma ml_set_language_inv q st : ml_inv st -> ml_inv (snd (ml_set_language q st)).
Proof.
  intros I. unfold ml_set_language.
  destruct (len (q_data q) =? 2) eqn:E; cbn [negb]; [|exact I].
  destruct (negb (is_lang (q_data q))); [exact I|].
  destruct I as (A & B). split; cbn; [exact A|].
  apply N.eqb_eq in E. rewrite E. vm_compute. discriminate.
Qed.
Lemma ml_set_personality_inv q st : ml_inv st -> ml_inv (snd (ml_set_personality q st)).
Proof.
  intros I. unfold ml_set_personality, lift_set.
  destruct (set_personality q ml_pers (ml_active st) (ml_start st) 0) as [|r a] eqn:E; cbn [snd]; [exact I|].
  destruct I as (A & B). split; cbn; [|exact B].
  apply (set_personality_valid _ _ _ _ _ _ _ A E).
Qed.

Lemma ml_HI c q st e h :
  ml_inv st -> lookup ml_state (ml_table c) (q_pid q) = Some e ->
  ((q_cc q = GET_COMMAND /\ e_get e = Some h) \/ (q_cc q = SET_COMMAND /\ e_set e = Some h)) ->
  ml_inv (snd (h q st)).
Proof.
  intros I L H.
  unfold ml_table in L. pick L;
    destruct H as [[CC G]|[CC G]]; cbn in G; try discriminate G; inversion G; subst; clear G;
    try (apply ml_set_language_inv; exact I); try (apply ml_set_personality_inv; exact I);
    ml_unfold; unfold lift_set;
    try (match goal with |- ml_inv (snd (match ?x with _ => _ end)) => destruct x end);
    try (match goal with |- ml_inv (snd (if ?x then _ else _)) => destruct x end);
    try (match goal with |- ml_inv (snd (if ?x then _ else _)) => destruct x end);
    cbn [snd]; try exact I; try (destruct I as (A & B); split; cbn; assumption).
  - (* factory defaults: personality 1 *)
    destruct I as (A & B). split; cbn; [vm_compute; discriminate|exact B].
Qed.

Lemma keeps_nack_same {S} x (st : S) : hkeeps_g st (x, st).
Proof. apply keeps_same_g. Qed.

Lemma ml_HK c q st e h :
  ml_inv st -> lookup ml_state (ml_table c) (q_pid q) = Some e ->
  q_cc q = SET_COMMAND -> e_set e = Some h -> hkeeps_g st (h q st).
Proof.
  intros I L CC G. assert (W : wf_cc q) by (right; left; exact CC).
  unfold ml_table in L. pick L; cbn in G; try discriminate G; inversion G; subst; clear G;
    ml_unfold;
    try (eapply lift_keeps; [goodlem2 W | try (match goal with |- _ = ?s => destruct s; reflexivity end)]).
  - (* factory defaults *)
    destruct (negb (len (q_data q) =? 0)); [apply keeps_same_g|apply keeps_ack; [exact W|vm_compute; discriminate]].
  - (* language *)
    destruct (negb (len (q_data q) =? 2)); [apply keeps_same_g|].
    destruct (negb (is_lang (q_data q))); [apply keeps_same_g|apply keeps_ack; [exact W|vm_compute; discriminate]].
Qed.

Lemma moving_light_conforms c uid q st :
  ml_inv st ->
  let out := fst (ml_send c uid q st) in
  let st' := snd (ml_send c uid q st) in
  ml_inv st' /\
  (exists s ro, out = [(s, ro)]) /\
  (is_broadcast (q_dst q) = true -> exists s, out = [(s, None)]) /\
  (is_broadcast (q_dst q) = false -> directed_to (q_dst q) uid = true ->
   q_cc q = GET_COMMAND \/ q_cc q = SET_COMMAND ->
   exists r, out = [(RDM_COMPLETED_OK, Some r)] /\ resp_ok q r /\
             (q_cc q = SET_COMMAND -> r_type r = RDM_NACK_REASON -> st' = st)).
Proof.
  apply resp_send_inv_ok.
  - vm_compute. discriminate.
  - intros q0 st0 e h. apply ml_HR.
  - intros q0 st0 e h. apply ml_HI.
  - intros q0 st0 e h. apply ml_HK.
Qed.

Lemma ml_run_inv c uid h : forall st, ml_inv st -> ml_inv (snd (ml_run c uid h st)).
Proof.
  induction h as [|q rest IH]; intros st I; [exact I|].
  cbn [ml_run]. destruct (ml_send c uid q st) as [out st1] eqn:E.
  specialize (IH st1). destruct (ml_run c uid rest st1) as [outs st2]. cbn in *.
  apply IH. pose proof (moving_light_conforms c uid q st I) as (I1 & _). rewrite E in I1. exact I1.
Qed.

Lemma ml_table_shape c : shape (ml_table c) = TBL_MovingLightResponder.
Proof. reflexivity. Qed.
