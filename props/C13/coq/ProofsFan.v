(* C13 — the mixed-verdict fan-out (known finding C13-fanout-mixed-nack) on a model of two
   DimmerSubDevice instances: each owns (active personality, start address). *)
From OlaBase Require Import Bytes.
From C13 Require Import Gen Model Chk Proofs ProofsHelpers.
Local Open Scope N_scope.

Definition dim_pers : list pers :=
  [ mkPers 1 (* "8 bit dimming" *) [56; 32; 98; 105; 116; 32; 100; 105; 109; 109; 105; 110; 103] [];
    mkPers 2 (* "16 bit dimming" *) [49; 54; 32; 98; 105; 116; 32; 100; 105; 109; 109; 105; 110; 103] [] ].

Definition sub_state := (N * N)%type.                 (* active personality, start address *)
Definition dim_state := (sub_state * sub_state)%type.

Definition on_sub (i : N) (f : sub_state -> option response * sub_state) (st : dim_state)
  : option response * dim_state :=
  if i =? 1 then let (r, s) := f (fst st) in (r, (s, snd st))
  else let (r, s) := f (snd st) in (r, (fst st, s)).

(* DimmerSubDevice::SetDmxStartAddress / SetPersonality / GetDmxStartAddress *)
Definition sub_set_start (i : N) : handler dim_state := fun q =>
  on_sub i (fun s => match set_dmx_address q dim_pers (fst s) (snd s) 0 with
                     | HOob => (None, s) | HR r a => (r, (fst s, a)) end).
Definition sub_set_pers (i : N) : handler dim_state := fun q =>
  on_sub i (fun s => match set_personality q dim_pers (fst s) (snd s) 0 with
                     | HOob => (None, s) | HR r a => (r, (a, snd s)) end).
Definition sub_get_start (i : N) : handler dim_state := fun q =>
  on_sub i (fun s => (get_uint 2 q (snd s) 0, s)).
Definition sub_table (i : N) : table dim_state :=
  [ (PID_DMX_PERSONALITY, mkEntry None (Some (sub_set_pers i)));
    (PID_DMX_START_ADDRESS, mkEntry (Some (sub_get_start i)) (Some (sub_set_start i))) ].
Definition sub_dev (uid i : N) : device dim_state := dispatch dim_state false (sub_table i) uid i.
Definition dim2 (uid : N) : list (N * device dim_state) := [(1, sub_dev uid 1); (2, sub_dev uid 2)].

(* sub-device 1 in the 16-bit personality at address 1, sub-device 2 in the 8-bit one at address 2;
   SET DMX_START_ADDRESS 512 to ALL_RDM_SUBDEVICES *)
Definition mixed_q : request := mkReq 9 5 7 1 ALL_RDM_SUBDEVICES SET_COMMAND PID_DMX_START_ADDRESS [2; 0].
Definition mixed_st : dim_state := ((2, 1), (1, 2)).

Lemma fanout_mixed_refuted :
  exists r st', subdev_send dim_state (dim2 5) mixed_q mixed_st = FOk [(RDM_COMPLETED_OK, Some r)] st' /\
                r_type r = RDM_NACK_REASON /\ st' = ((2, 1), (1, 512)) /\ st' <> mixed_st.
Proof.
  eexists. eexists. split; [vm_compute; reflexivity|].
  split; [reflexivity|]. split; [reflexivity|]. discriminate.
Qed.

(* the guard is satisfiable: both sub-devices in the 16-bit personality reject address 512 *)
Lemma fanout_all_nack_example : all_nack dim_state (dim2 5) mixed_q ((2, 1), (2, 2)).
Proof.
  cbn [all_nack dim2]. split; [|split; [|exact I]].
  - eexists. eexists. split; [vm_compute; reflexivity|reflexivity].
  - eexists. eexists. split; [vm_compute; reflexivity|reflexivity].
Qed.

(* the modelled sub-devices satisfy the hypotheses of the fan-out theorems *)
Lemma on_sub_keeps i f st r :
  (forall s r', fst (f s) = Some r' -> r_type r' = RDM_NACK_REASON -> snd (f s) = s) ->
  fst (on_sub i f st) = Some r -> r_type r = RDM_NACK_REASON -> snd (on_sub i f st) = st.
Proof.
  intros K. unfold on_sub. destruct st as [a b]. cbn [fst snd].
  destruct (i =? 1).
  - specialize (K a). destruct (f a) as [r0 s0]. cbn in *. intros E T. rewrite (K r E T). reflexivity.
  - specialize (K b). destruct (f b) as [r0 s0]. cbn in *. intros E T. rewrite (K r E T). reflexivity.
Qed.

Lemma sub_dev_nack_keeps uid i : nack_keeps dim_state (sub_dev uid i).
Proof.
  intros q st s r E T. unfold sub_dev in *.
  destruct (dispatch_state dim_state false (sub_table i) uid i q st) as [S|(e & h & L & H & S & F)];
    [exact S|].
  destruct (is_broadcast (q_dst q)) eqn:B.
  { destruct (dispatch_broadcast dim_state false (sub_table i) uid i q st B) as (s' & E' & _).
    rewrite E' in E. inversion E. }
  specialize (F eq_refl). rewrite F in E. inversion E as [[E1 E2]]. rewrite S.
  assert (W : wf_cc q) by (destruct H as [[H _]|[H _]]; [left|right; left]; exact H).
  unfold sub_table in L. cbn [lookup] in L.
  destruct (PID_DMX_PERSONALITY =? q_pid q).
  - inversion L; subst e. destruct H as [[_ G]|[_ G]]; cbn in G; [discriminate G|]. inversion G; subst h.
    unfold sub_set_pers in *. apply (on_sub_keeps i _ st r); auto.
    intros s0 r' Er Tr.
    pose proof (set_personality_ok q dim_pers (fst s0) (snd s0) 0 W) as G0.
    destruct (set_personality q dim_pers (fst s0) (snd s0) 0) as [|[r1|] a]; cbn in *; try contradiction.
    inversion Er; subst. destruct G0 as (_ & G0). rewrite (G0 Tr). destruct s0; reflexivity.
  - destruct (PID_DMX_START_ADDRESS =? q_pid q); [|discriminate L].
    inversion L; subst e. destruct H as [[_ G]|[_ G]]; cbn in G; inversion G; subst h.
    + unfold sub_get_start in *. apply (on_sub_keeps i _ st r); auto.
    + unfold sub_set_start in *. apply (on_sub_keeps i _ st r); auto.
      intros s0 r' Er Tr.
      pose proof (set_dmx_address_ok q dim_pers (fst s0) (snd s0) 0 W) as G0.
      destruct (set_dmx_address q dim_pers (fst s0) (snd s0) 0) as [|[r1|] a]; cbn in *; try contradiction.
      inversion Er; subst. destruct G0 as (_ & G0). rewrite (G0 Tr). destruct s0; reflexivity.
Qed.

Lemma dim2_hyps uid :
  (forall k d, In (k, d) (dim2 uid) -> forall q st, exists r, fst (d q st) = [r]) /\
  (forall k d, In (k, d) (dim2 uid) -> nack_keeps dim_state d).
Proof.
  split; intros k d [E|[E|[]]]; inversion E; subst.
  - intros q st. destruct (dispatch_once dim_state false (sub_table 1) uid 1 q st) as (s & ro & X). eauto.
  - intros q st. destruct (dispatch_once dim_state false (sub_table 2) uid 2 q st) as (s & ro & X). eauto.
  - apply sub_dev_nack_keeps.
  - apply sub_dev_nack_keeps.
Qed.
