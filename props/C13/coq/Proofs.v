(* C13 — proofs: builders, dispatch, fan-out, soundness of the instance checker *)
From OlaBase Require Import Bytes.
From C13 Require Import Gen Model Chk.
Local Open Scope N_scope.

Definition wf_cc (q : request) : Prop :=
  q_cc q = GET_COMMAND \/ q_cc q = SET_COMMAND \/ q_cc q = DISCOVER_COMMAND.

(* ---------------- layer 2 ---------------- *)
Lemma grwp_spec q pid data ty mc :
  wf_cc q ->
  exists r, get_response_with_pid q pid data ty mc = Some r /\
    r_src r = q_dst q /\ r_dst r = q_src q /\ r_tn r = q_tn q /\ r_type r = ty /\ r_mc r = mc /\
    r_sub r = q_sub q /\ r_cc r = q_cc q + 1 /\ r_pid r = pid /\ r_data r = data.
Proof.
  unfold get_response_with_pid.
  intros [H|[H|H]]; rewrite H; eexists; (split; [reflexivity|]); cbn; repeat split; reflexivity.
Qed.

Lemma be2 x : be_bytes 2 x = [(x / 256) mod 256; x mod 256].
Proof. reflexivity. Qed.

Lemma resp_ok_of q r ty data :
  r_src r = q_dst q -> r_dst r = q_src q -> r_tn r = q_tn q -> r_cc r = q_cc q + 1 ->
  r_type r = ty -> r_data r = data ->
  (ty = RDM_ACK \/ ty = RDM_ACK_TIMER \/ ty = RDM_NACK_REASON \/ ty = ACK_OVERFLOW) ->
  len data <= MAX_PDL ->
  (ty = RDM_NACK_REASON -> exists hi lo, data = [hi; lo] /\ hi * 256 + lo <= NR_INVALID_PORT) ->
  resp_ok q r.
Proof.
  intros. unfold resp_ok. rewrite H3, H4. repeat split; auto.
Qed.

Lemma nack_spec q reason mc :
  wf_cc q -> reason <= NR_INVALID_PORT ->
  exists r, nack_with_reason q reason mc = Some r /\ resp_ok q r /\
            r_type r = RDM_NACK_REASON /\ r_sub r = q_sub q /\ r_pid r = q_pid q /\ r_mc r = mc.
Proof.
  intros W Hr. unfold nack_with_reason, get_response_from_data.
  destruct (grwp_spec q (q_pid q) (be_bytes 2 (u16 reason)) RDM_NACK_REASON mc W)
    as (r & E & A & B & C & D & F & G & H & I & J).
  exists r. split; [exact E|]. split; [|auto].
  eapply resp_ok_of; eauto.
  - rewrite be2. vm_compute. discriminate.
  - intros _. rewrite be2. do 2 eexists. split; [reflexivity|].
    unfold u16, NR_INVALID_PORT in *. lia.
Qed.

Lemma ack_spec q data mc :
  wf_cc q -> len data <= MAX_PDL ->
  exists r, ack q data mc = Some r /\ resp_ok q r /\ r_type r = RDM_ACK /\ r_data r = data /\
            r_sub r = q_sub q /\ r_pid r = q_pid q /\ r_mc r = mc.
Proof.
  intros W Hl. unfold ack, get_response_from_data.
  destruct (grwp_spec q (q_pid q) data RDM_ACK mc W) as (r & E & A & B & C & D & F & G & H & I & J).
  exists r. split; [exact E|]. split; [|auto].
  eapply resp_ok_of; eauto. intros X; discriminate X.
Qed.

(* ---------------- layer 1 ---------------- *)
Section DispatchProofs.
  Variable State : Type.
  Variables (incl : bool) (t : table State) (uid sd : N).

  Ltac split_ifs :=
    repeat match goal with
           | |- context [if ?c then _ else _] => destruct c eqn:?
           | |- context [match ?x with Some _ => _ | None => _ end] => destruct x eqn:?
           | |- context [let (_, _) := ?x in _] => destruct x eqn:?
           end.

  (* completion exactly once, whatever the handlers do *)
  Lemma dispatch_once q st :
    exists s ro, fst (dispatch State incl t uid sd q st) = [(s, ro)].
  Proof.
    unfold dispatch. split_ifs; cbn; eauto.
  Qed.

  (* broadcast / vendorcast: status only, never a response *)
  Lemma dispatch_broadcast q st :
    is_broadcast (q_dst q) = true ->
    exists s, fst (dispatch State incl t uid sd q st) = [(s, None)] /\
              (s = RDM_WAS_BROADCAST \/
               (q_cc q = DISCOVER_COMMAND /\ s = RDM_PLUGIN_DISCOVERY_NOT_SUPPORTED)).
  Proof.
    intros B. unfold dispatch. rewrite B.
    destruct (negb (directed_to (q_dst q) uid)); [cbn; eauto|].
    destruct (q_cc q =? DISCOVER_COMMAND) eqn:E1; [apply N.eqb_eq in E1; cbn; eauto|].
    rewrite Bool.andb_true_r.
    destruct (q_cc q =? GET_COMMAND) eqn:E2; [cbn; eauto|].
    rewrite Bool.andb_false_r.
    split_ifs; cbn; eauto.
  Qed.

  (* unicast to another responder: no response, state untouched *)
  Lemma dispatch_other q st :
    is_broadcast (q_dst q) = false -> directed_to (q_dst q) uid = false ->
    dispatch State incl t uid sd q st = ([(RDM_TIMEOUT, None)], st).
  Proof. intros B D. unfold dispatch. rewrite D, B. reflexivity. Qed.

  Definition handlers_conform : Prop :=
    forall pid e h, lookup State t pid = Some e -> (e_get e = Some h \/ e_set e = Some h) ->
    forall q st, wf_cc q -> exists r, fst (h q st) = Some r /\ resp_ok q r.

  Lemma len_flat_be2 l : len (flat_map (be_bytes 2) l) = 2 * len l.
  Proof.
    induction l as [|x l IH]; [reflexivity|].
    cbn [flat_map]. rewrite len_app, IH, len_cons. rewrite be2. unfold len; cbn [length]. lia.
  Qed.
  Lemma len_filter_le {A} (f : A -> bool) l : len (filter f l) <= len l.
  Proof.
    induction l as [|x l IH]; cbn [filter]; [unfold len; cbn; lia|].
    destruct (f x); rewrite ?len_cons; lia.
  Qed.
  Lemma len_map {A B} (f : A -> B) l : len (map f l) = len l.
  Proof. unfold len; rewrite map_length; reflexivity. Qed.

  Lemma supported_ok q :
    wf_cc q -> 2 * len t <= MAX_PDL ->
    exists r, supported_params State incl t q = Some r /\ resp_ok q r.
  Proof.
    intros W Hb. unfold supported_params.
    destruct (negb (len (q_data q) =? 0)).
    - destruct (nack_spec q NR_FORMAT_ERROR 0 W) as (r & E & O & _); [vm_compute; discriminate|eauto].
    - edestruct (ack_spec q) as (r & E & O & _); [exact W| |unfold ack in E; eauto].
      rewrite len_flat_be2.
      pose proof (len_filter_le (fun p => incl || negb (hidden_pid p)) (map fst t)) as F.
      rewrite len_map in F. lia.
  Qed.

  (* unicast GET / SET addressed to this responder: one COMPLETED_OK reply with a conformant response *)
  Lemma dispatch_unicast q st :
    handlers_conform -> 2 * len t <= MAX_PDL ->
    is_broadcast (q_dst q) = false -> directed_to (q_dst q) uid = true ->
    q_cc q = GET_COMMAND \/ q_cc q = SET_COMMAND ->
    exists r, fst (dispatch State incl t uid sd q st) = [(RDM_COMPLETED_OK, Some r)] /\ resp_ok q r.
  Proof.
    intros HC Hb B D CC.
    assert (W : wf_cc q) by (unfold wf_cc; tauto).
    assert (NK : forall reason, reason <= NR_INVALID_PORT ->
                 exists r, nack_with_reason q reason 0 = Some r /\ resp_ok q r).
    { intros reason Hr. destruct (nack_spec q reason 0 W Hr) as (r & E & O & _). eauto. }
    unfold dispatch. rewrite D, B. cbn [negb andb].
    assert (ND : (q_cc q =? DISCOVER_COMMAND) = false).
    { destruct CC as [E|E]; rewrite E; reflexivity. }
    rewrite ND. rewrite Bool.andb_false_r.
    destruct (negb ((q_sub q =? sd) || (q_sub q =? ALL_RDM_SUBDEVICES))).
    { destruct (NK NR_SUB_DEVICE_OUT_OF_RANGE) as (r & E & O); [vm_compute; discriminate|].
      rewrite E. cbn. eauto. }
    destruct ((q_sub q =? ALL_RDM_SUBDEVICES) && (q_cc q =? GET_COMMAND)).
    { destruct (NK NR_SUB_DEVICE_OUT_OF_RANGE) as (r & E & O); [vm_compute; discriminate|].
      rewrite E. cbn. eauto. }
    destruct (lookup State t (q_pid q)) as [e|] eqn:L.
    2:{ destruct (NK NR_UNKNOWN_PID) as (r & E & O); [vm_compute; discriminate|].
        rewrite E. cbn. eauto. }
    destruct CC as [E|E]; rewrite E; cbn [N.eqb Pos.eqb GET_COMMAND SET_COMMAND].
    - change (GET_COMMAND =? GET_COMMAND) with true. cbv iota.
      destruct (e_get e) as [h|] eqn:G.
      + destruct (HC _ _ h L (or_introl G) q st W) as (r & Hr & O).
        destruct (h q st) as [r0 s0]. cbn in Hr. subst r0. cbn. eauto.
      + destruct (q_pid q =? PID_SUPPORTED_PARAMETERS).
        * destruct (supported_ok q W Hb) as (r & Er & O). rewrite Er. cbn. eauto.
        * destruct (NK NR_UNSUPPORTED_COMMAND_CLASS) as (r & Er & O); [vm_compute; discriminate|].
          rewrite Er. cbn. eauto.
    - change (SET_COMMAND =? GET_COMMAND) with false. change (SET_COMMAND =? SET_COMMAND) with true.
      cbv iota.
      destruct (e_set e) as [h|] eqn:G.
      + destruct (HC _ _ h L (or_intror G) q st W) as (r & Hr & O).
        destruct (h q st) as [r0 s0]. cbn in Hr. subst r0. cbn. eauto.
      + destruct (NK NR_UNSUPPORTED_COMMAND_CLASS) as (r & Er & O); [vm_compute; discriminate|].
        rewrite Er. cbn. eauto.
  Qed.

  (* the same with the handler hypothesis only where it is used: at this request and state *)
  Lemma dispatch_unicast_at q st :
    (forall e h, lookup State t (q_pid q) = Some e ->
       ((q_cc q = GET_COMMAND /\ e_get e = Some h) \/ (q_cc q = SET_COMMAND /\ e_set e = Some h)) ->
       exists r, fst (h q st) = Some r /\ resp_ok q r) ->
    2 * len t <= MAX_PDL ->
    is_broadcast (q_dst q) = false -> directed_to (q_dst q) uid = true ->
    q_cc q = GET_COMMAND \/ q_cc q = SET_COMMAND ->
    exists r, fst (dispatch State incl t uid sd q st) = [(RDM_COMPLETED_OK, Some r)] /\ resp_ok q r.
  Proof.
    intros HC Hb B D CC.
    assert (W : wf_cc q) by (unfold wf_cc; tauto).
    assert (NK : forall reason, reason <= NR_INVALID_PORT ->
                 exists r, nack_with_reason q reason 0 = Some r /\ resp_ok q r).
    { intros reason Hr. destruct (nack_spec q reason 0 W Hr) as (r & E & O & _). eauto. }
    unfold dispatch. rewrite D, B. cbn [negb andb].
    assert (ND : (q_cc q =? DISCOVER_COMMAND) = false).
    { destruct CC as [E|E]; rewrite E; reflexivity. }
    rewrite ND. rewrite Bool.andb_false_r.
    destruct (negb ((q_sub q =? sd) || (q_sub q =? ALL_RDM_SUBDEVICES))).
    { destruct (NK NR_SUB_DEVICE_OUT_OF_RANGE) as (r & E & O); [vm_compute; discriminate|].
      rewrite E. cbn. eauto. }
    destruct ((q_sub q =? ALL_RDM_SUBDEVICES) && (q_cc q =? GET_COMMAND)).
    { destruct (NK NR_SUB_DEVICE_OUT_OF_RANGE) as (r & E & O); [vm_compute; discriminate|].
      rewrite E. cbn. eauto. }
    destruct (lookup State t (q_pid q)) as [e|] eqn:L.
    2:{ destruct (NK NR_UNKNOWN_PID) as (r & E & O); [vm_compute; discriminate|].
        rewrite E. cbn. eauto. }
    destruct CC as [E|E]; rewrite E; cbn [N.eqb Pos.eqb GET_COMMAND SET_COMMAND].
    - change (GET_COMMAND =? GET_COMMAND) with true. cbv iota.
      destruct (e_get e) as [h|] eqn:G.
      + destruct (HC e h eq_refl (or_introl (conj E G))) as (r & Hr & O).
        destruct (h q st) as [r0 s0]. cbn in Hr. subst r0. cbn. eauto.
      + destruct (q_pid q =? PID_SUPPORTED_PARAMETERS).
        * destruct (supported_ok q W Hb) as (r & Er & O). rewrite Er. cbn. eauto.
        * destruct (NK NR_UNSUPPORTED_COMMAND_CLASS) as (r & Er & O); [vm_compute; discriminate|].
          rewrite Er. cbn. eauto.
    - change (SET_COMMAND =? GET_COMMAND) with false. change (SET_COMMAND =? SET_COMMAND) with true.
      cbv iota.
      destruct (e_set e) as [h|] eqn:G.
      + destruct (HC e h eq_refl (or_intror (conj E G))) as (r & Hr & O).
        destruct (h q st) as [r0 s0]. cbn in Hr. subst r0. cbn. eauto.
      + destruct (NK NR_UNSUPPORTED_COMMAND_CLASS) as (r & Er & O); [vm_compute; discriminate|].
        rewrite Er. cbn. eauto.
  Qed.

  (* where the new state and the reply come from: either no handler ran, or exactly the handler
     installed for this PID and command class ran, once *)
  Lemma dispatch_state q st :
    snd (dispatch State incl t uid sd q st) = st \/
    exists e h, lookup State t (q_pid q) = Some e /\
      ((q_cc q = GET_COMMAND /\ e_get e = Some h) \/ (q_cc q = SET_COMMAND /\ e_set e = Some h)) /\
      snd (dispatch State incl t uid sd q st) = snd (h q st) /\
      (is_broadcast (q_dst q) = false ->
       fst (dispatch State incl t uid sd q st) = [(RDM_COMPLETED_OK, fst (h q st))]).
  Proof.
    unfold dispatch.
    destruct (negb (directed_to (q_dst q) uid)); [left; reflexivity|].
    destruct (q_cc q =? DISCOVER_COMMAND); [left; reflexivity|].
    destruct ((q_cc q =? GET_COMMAND) && is_broadcast (q_dst q)) eqn:GB; [left; reflexivity|].
    destruct (negb ((q_sub q =? sd) || (q_sub q =? ALL_RDM_SUBDEVICES)));
      [left; destruct (is_broadcast (q_dst q)); reflexivity|].
    destruct ((q_sub q =? ALL_RDM_SUBDEVICES) && (q_cc q =? GET_COMMAND)); [left; reflexivity|].
    destruct (lookup State t (q_pid q)) as [e|] eqn:L;
      [|left; destruct (is_broadcast (q_dst q)); reflexivity].
    destruct (q_cc q =? GET_COMMAND) eqn:G.
    - cbn [andb] in GB. rewrite GB. apply N.eqb_eq in G.
      destruct (e_get e) as [h|] eqn:EG.
      + right. exists e, h. destruct (h q st) as [r s'] eqn:Eh. cbn. auto 6.
      + left. destruct (q_pid q =? PID_SUPPORTED_PARAMETERS); reflexivity.
    - destruct (q_cc q =? SET_COMMAND) eqn:S.
      + apply N.eqb_eq in S. destruct (e_set e) as [h|] eqn:ES.
        * right. exists e, h. destruct (h q st) as [r s'] eqn:Eh.
          destruct (is_broadcast (q_dst q)); cbn; split; auto; split; auto; split; auto; discriminate.
        * left. destruct (is_broadcast (q_dst q)); reflexivity.
      + left. destruct (is_broadcast (q_dst q)); reflexivity.
  Qed.

  (* requests that never reach a handler leave the state alone *)
  Lemma dispatch_state_unknown_pid q st :
    lookup State t (q_pid q) = None -> snd (dispatch State incl t uid sd q st) = st.
  Proof.
    intros L. unfold dispatch. rewrite L. split_ifs; reflexivity.
  Qed.
End DispatchProofs.

(* ---------------- SubDeviceDispatcher fan-out ---------------- *)
Section FanProofs.
  Variable State : Type.

  Definition subs_once (devs : list (N * device State)) : Prop :=
    forall k d, In (k, d) devs -> forall q st, exists r, fst (d q st) = [r].

  Definition final_saved (tr : tracker) (first : reply) : reply :=
    if t_sofar tr =? 0 then first else t_saved tr.

  (* the state after every sub-device has handled its copy of the request, in map order *)
  Fixpoint run_states (devs : list (N * device State)) (q : request) (st : State) : State :=
    match devs with
    | [] => st
    | (_, d) :: rest => run_states rest q (snd (d q st))
    end.

  Lemma fan_loop_once q :
    forall devs tr st,
      subs_once devs -> devs <> [] -> t_alive tr = true ->
      t_sofar tr + len devs = t_n tr -> t_n tr < 65536 ->
      exists st' first,
        (forall k d rest, devs = (k, d) :: rest -> fst (d q st) = [first]) /\
        st' = run_states devs q st /\
        fan_loop State devs q tr [] st = FOk [final_saved tr first] st'.
  Proof.
    induction devs as [|[k d] rest IH]; intros tr st HO NE AL SUM LT; [congruence|].
    destruct (HO k d (or_introl eq_refl) q st) as (r & Hr).
    cbn [fan_loop]. destruct (d q st) as [rs st1] eqn:Ed. cbn in Hr. subst rs.
    cbn [feed]. unfold handle_sub_response. rewrite AL. cbn [negb].
    rewrite len_cons in SUM.
    assert (U : u16 (t_sofar tr + 1) = t_sofar tr + 1) by (apply u16_id; lia).
    rewrite U.
    destruct (t_sofar tr + 1 =? t_n tr) eqn:EQ.
    - apply N.eqb_eq in EQ.
      assert (rest = []) as ->.
      { destruct rest; [reflexivity|]. rewrite len_cons in SUM. lia. }
      cbn [app fan_loop]. exists st1, r. split; [|split].
      + intros k' d' rest' E. inversion E; subst. rewrite Ed. reflexivity.
      + cbn [run_states]. rewrite Ed. reflexivity.
      + reflexivity.
    - apply N.eqb_neq in EQ. cbn [app].
      assert (NE' : rest <> []).
      { intros ->. unfold len in SUM; cbn in SUM. lia. }
      set (tr' := mkTr (t_n tr) (t_sofar tr + 1) (if t_sofar tr =? 0 then r else t_saved tr) true).
      destruct (IH tr' st1) as (st' & first' & _ & ES & E'); auto.
      + intros k' d' I. apply (HO k' d' (or_intror I)).
      + cbn. lia.
      + exists st', r. split; [|split].
        * intros k' d' rest' E. inversion E; subst. rewrite Ed. reflexivity.
        * cbn [run_states]. rewrite Ed. exact ES.
        * rewrite E'. unfold final_saved. cbn [t_sofar t_saved tr'].
          replace (t_sofar tr + 1 =? 0) with false by (symmetry; apply N.eqb_neq; lia).
          reflexivity.
  Qed.

  Lemma find_dev_in devs n d : find_dev State devs n = Some d -> exists k, In (k, d) devs.
  Proof.
    induction devs as [|[k x] r IH]; cbn [find_dev]; [discriminate|].
    destruct (k =? n).
    - intros E; inversion E; subst. exists k. left; reflexivity.
    - intros E. destruct (IH E) as (k' & I). exists k'. right; exact I.
  Qed.

  (* the dispatcher completes exactly once, and never touches a deleted tracker *)
  Lemma subdev_send_once devs q st :
    subs_once devs -> len devs < 65536 ->
    exists r st', subdev_send State devs q st = FOk [r] st'.
  Proof.
    intros HO LT. unfold subdev_send.
    destruct (q_sub q =? ALL_RDM_SUBDEVICES).
    - unfold fan_out, nack_if_not_broadcast.
      destruct (q_cc q =? GET_COMMAND).
      + destruct (is_broadcast (q_dst q)); eauto.
      + destruct devs as [|p rest] eqn:Ed; [unfold nack_if_not_broadcast; destruct (is_broadcast (q_dst q)); eauto|]. rewrite <- Ed in *.
        destruct (fan_loop_once q devs (mkTr (u16 (len devs)) 0 (RDM_COMPLETED_OK, None) true) st)
          as (st' & first & _ & _ & E); auto.
        * rewrite Ed; discriminate.
        * cbn. rewrite u16_id by lia. lia.
        * cbn. rewrite u16_id by lia. lia.
        * rewrite E. eauto.
    - destruct (find_dev State devs (q_sub q)) as [d|] eqn:F.
      + destruct (find_dev_in _ _ _ F) as (k & I).
        destruct (HO k d I q st) as (r & Hr). destruct (d q st) as [rs s1]. cbn in Hr. subst. eauto.
      + unfold nack_if_not_broadcast. destruct (is_broadcast (q_dst q)); eauto.
  Qed.

  (* a long-lived dispatcher: any sequence of requests, each handled to completion before the next
     starts.  A request sent from inside a completion callback is such a next request: the callback is
     the dispatcher's last action on a request and every fan-out owns a fresh tracker, so nested use
     and sequential use coincide (the harness checks exactly that on the real code). *)
  Fixpoint sub_run (devs : list (N * device State)) (h : list request) (st : State)
    : option (list (list reply) * State) :=
    match h with
    | [] => Some ([], st)
    | q :: rest =>
      match subdev_send State devs q st with
      | FUseAfterFree => None
      | FOk out st1 => match sub_run devs rest st1 with
                       | Some (outs, st2) => Some (out :: outs, st2)
                       | None => None
                       end
      end
    end.
  Lemma sub_run_once devs h :
    subs_once devs -> len devs < 65536 ->
    forall st, exists outs st', sub_run devs h st = Some (outs, st') /\
                                length outs = length h /\ Forall (fun o => exists r, o = [r]) outs.
  Proof.
    intros HO LT. induction h as [|q rest IH]; intros st.
    - exists [], st. repeat split; constructor.
    - cbn [sub_run]. destruct (subdev_send_once devs q st HO LT) as (r & st1 & E). rewrite E.
      destruct (IH st1) as (outs & st2 & E2 & L & F). rewrite E2.
      exists ([r] :: outs), st2. repeat split; [cbn; rewrite L; reflexivity|].
      constructor; [eauto|exact F].
  Qed.

  (* a fanned-out SET returns the first sub-device's reply, status and (possibly absent) response *)
  Lemma fan_out_first k d rest q st :
    subs_once ((k, d) :: rest) -> len ((k, d) :: rest) < 65536 ->
    q_sub q = ALL_RDM_SUBDEVICES -> q_cc q <> GET_COMMAND ->
    exists st', subdev_send State ((k, d) :: rest) q st = FOk (fst (d q st)) st'.
  Proof.
    intros HO LT SUB CC. unfold subdev_send. rewrite SUB. rewrite N.eqb_refl.
    unfold fan_out. replace (q_cc q =? GET_COMMAND) with false by (symmetry; apply N.eqb_neq; exact CC).
    destruct (fan_loop_once q ((k, d) :: rest)
                (mkTr (u16 (len ((k, d) :: rest))) 0 (RDM_COMPLETED_OK, None) true) st)
      as (st' & first & F & _ & E); auto.
    - discriminate.
    - cbn [t_sofar t_n]. rewrite u16_id by lia. lia.
    - cbn [t_n]. rewrite u16_id by lia. lia.
    - rewrite E. rewrite (F k d rest eq_refl). unfold final_saved. cbn. eauto.
  Qed.

  (* ... and the state is the one left by all sub-devices, each having run once *)
  Lemma fan_out_state k d rest q st :
    subs_once ((k, d) :: rest) -> len ((k, d) :: rest) < 65536 ->
    q_sub q = ALL_RDM_SUBDEVICES -> q_cc q <> GET_COMMAND ->
    subdev_send State ((k, d) :: rest) q st =
    FOk (fst (d q st)) (run_states ((k, d) :: rest) q st).
  Proof.
    intros HO LT SUB CC. unfold subdev_send. rewrite SUB. rewrite N.eqb_refl.
    unfold fan_out. replace (q_cc q =? GET_COMMAND) with false by (symmetry; apply N.eqb_neq; exact CC).
    destruct (fan_loop_once q ((k, d) :: rest)
                (mkTr (u16 (len ((k, d) :: rest))) 0 (RDM_COMPLETED_OK, None) true) st)
      as (st' & first & F & ES & E); auto.
    - discriminate.
    - cbn [t_sofar t_n]. rewrite u16_id by lia. lia.
    - cbn [t_n]. rewrite u16_id by lia. lia.
    - rewrite E, ES. rewrite (F k d rest eq_refl). unfold final_saved. cbn [t_sofar N.eqb]. reflexivity.
  Qed.

  (* when does a fanned-out SET that reports a NACK leave the state alone?  When every sub-device
     NACKed (each sub-device keeps its state on a NACK).  So the known finding C13-fanout-mixed-nack
     needs a sub-device after the first one that did NOT answer with a NACK. *)
  Definition nack_keeps (d : device State) : Prop :=
    forall q st s r, fst (d q st) = [(s, Some r)] -> r_type r = RDM_NACK_REASON -> snd (d q st) = st.
  Fixpoint all_nack (devs : list (N * device State)) (q : request) (st : State) : Prop :=
    match devs with
    | [] => True
    | (_, d) :: rest =>
      (exists s r, fst (d q st) = [(s, Some r)] /\ r_type r = RDM_NACK_REASON) /\
      all_nack rest q (snd (d q st))
    end.
  Lemma all_nack_state devs q :
    forall st, (forall k d, In (k, d) devs -> nack_keeps d) -> all_nack devs q st ->
               run_states devs q st = st.
  Proof.
    induction devs as [|[k d] rest IH]; intros st NK AN; [reflexivity|].
    cbn [all_nack] in AN. destruct AN as ((s & r & E & T) & AN). cbn [run_states].
    assert (S1 : snd (d q st) = st) by (apply (NK k d (or_introl eq_refl) q st s r E T)).
    rewrite S1 in *. apply IH; [|exact AN].
    intros k' d' I. apply (NK k' d' (or_intror I)).
  Qed.
End FanProofs.

(* ---------------- the instance checker decides the property text ---------------- *)
Lemma chk_resp_sound q r : chk_resp q r = 0 -> resp_ok q r.
Proof.
  unfold chk_resp, resp_ok.
  destruct (r_src r =? q_dst q) eqn:E1; cbn [negb]; [|discriminate].
  destruct (r_dst r =? q_src q) eqn:E2; cbn [negb]; [|discriminate].
  destruct (r_tn r =? q_tn q) eqn:E3; cbn [negb]; [|discriminate].
  destruct (cc_matches q r) eqn:E4; cbn [negb]; [|discriminate].
  destruct (legal_type (r_type r)) eqn:E5; cbn [negb]; [|discriminate].
  destruct (MAX_PDL <? len (r_data r)) eqn:E6; [discriminate|].
  destruct (is_nack r && negb (legal_reason (r_data r))) eqn:E7; [discriminate|]. intros _.
  apply N.eqb_eq in E1, E2, E3. apply N.ltb_ge in E6.
  repeat split; auto.
  - unfold cc_matches in E4. apply Bool.orb_true_iff in E4 as [E4|E4].
    + left. apply N.eqb_eq in E4. exact E4.
    + right. apply andb_prop in E4 as [E4 C]. apply andb_prop in E4 as [A B].
      apply N.eqb_eq in A, B, C. auto.
  - unfold legal_type in E5. repeat (apply Bool.orb_true_iff in E5 as [E5|E5]);
      apply N.eqb_eq in E5; auto.
  - intros T. unfold is_nack in E7. rewrite T in E7. cbn in E7.
    apply Bool.negb_false_iff in E7. unfold legal_reason in E7.
    destruct (r_data r) as [|hi [|lo [|x l]]]; try discriminate.
    exists hi, lo. split; [reflexivity|]. apply N.leb_le in E7. exact E7.
Qed.

Lemma chk_resp_complete q r : resp_ok q r -> chk_resp q r = 0.
Proof.
  intros (A & B & C & D & E & F & G). unfold chk_resp.
  rewrite A, B, C, !N.eqb_refl. cbn [negb].
  assert (cc_matches q r = true) as ->.
  { unfold cc_matches. destruct D as [D|(D1 & D2 & D3)].
    - rewrite D, N.eqb_refl. reflexivity.
    - rewrite D1, D2, D3, !N.eqb_refl. reflexivity. }
  assert (legal_type (r_type r) = true) as ->.
  { unfold legal_type. destruct E as [E|[E|[E|E]]]; rewrite E; reflexivity. }
  cbn [negb]. replace (MAX_PDL <? len (r_data r)) with false by (symmetry; apply N.ltb_ge; exact F).
  unfold is_nack. destruct (r_type r =? RDM_NACK_REASON) eqn:T; [|reflexivity].
  apply N.eqb_eq in T. destruct (G T) as (hi & lo & Ed & Hl). rewrite Ed. unfold legal_reason.
  replace (hi * 256 + lo <=? NR_INVALID_PORT) with true by (symmetry; apply N.leb_le; exact Hl).
  reflexivity.
Qed.

Lemma chk_13_sound uid q obs sb sa : chk_13 uid q obs sb sa = 0 -> conforms uid q obs sb sa.
Proof.
  unfold chk_13, conforms.
  destruct obs as [|[st ro] [|x l]]; try discriminate.
  intros H. exists st, ro. split; [reflexivity|].
  destruct (is_broadcast (q_dst q)) eqn:B.
  { destruct ro; [discriminate|].
    split; [reflexivity|]. split; intros X; discriminate X. }
  split; [intros X; discriminate X|].
  destruct (negb (q_dst q =? uid) || (q_cc q =? DISCOVER_COMMAND)) eqn:O.
  { apply Bool.orb_true_iff in O. split.
    - intros _ _ r0 E. subst ro. apply chk_resp_sound. exact H.
    - intros _ U C. exfalso. destruct O as [O|O].
      + apply Bool.negb_true_iff, N.eqb_neq in O. contradiction.
      + apply N.eqb_eq in O. contradiction. }
  apply Bool.orb_false_iff in O as [O1 O2].
  apply Bool.negb_false_iff, N.eqb_eq in O1. apply N.eqb_neq in O2.
  split; [intros _ [U|U]; contradiction|].
  intros _ _ _.
  destruct (st =? RDM_COMPLETED_OK) eqn:S; cbn [negb] in H; [|discriminate].
  apply N.eqb_eq in S. split; [exact S|].
  destruct ro as [r|]; [|discriminate].
  destruct (chk_resp q r =? 0) eqn:C; cbn [negb] in H; [|apply N.eqb_neq in C; contradiction].
  apply N.eqb_eq in C.
  exists r. split; [reflexivity|]. split; [apply chk_resp_sound; exact C|].
  intros CS T.
  destruct ((q_cc q =? SET_COMMAND) && is_nack r && negb (sb =? sa)) eqn:X; [discriminate|].
  unfold is_nack in X. rewrite CS, T, !N.eqb_refl in X. cbn in X.
  apply Bool.negb_false_iff, N.eqb_eq in X. exact X.
Qed.
