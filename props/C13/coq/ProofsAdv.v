(* C13 — AdvancedDimmerResponder: every handler answers conformantly and keeps the state on a NACK *)
From OlaBase Require Import Bytes.
From C13 Require Import Gen GenTables Model AckTimer Responders MovingLight AdvDimmer Chk Proofs ProofsHelpers
  ProofsResp ProofsMoving.
Local Open Scope N_scope.

Definition hboth {S} (q : request) (st : S) (x : option response * S) : Prop :=
  hresp_g q x /\ hkeeps_g st x.

Lemma both_nack {S} q (st : S) reason mc :
  wf_cc q -> reason <= NR_INVALID_PORT -> hboth q st (nack_with_reason q reason mc, st).
Proof. intros W H. split; [apply resp_nack; assumption|apply keeps_same_g]. Qed.
Lemma both_ack {S} q (st st' : S) d mc : wf_cc q -> len d <= MAX_PDL -> hboth q st (ack q d mc, st').
Proof. intros W H. split; [apply resp_ack; assumption|apply keeps_ack; assumption]. Qed.
Lemma both_r {S} q (st : S) x : good_r q x -> hboth q st (x, st).
Proof. intros G. split; [apply good_r_resp_g; exact G|apply keeps_same_g]. Qed.
Lemma both_lift {S A} q (x : hres A) a (st : S) upd : good q a x -> upd a = st -> hboth q st (lift_set x st upd).
Proof. intros G U. split; [eapply lift_resp; exact G|eapply lift_keeps; [exact G|exact U]]. Qed.

Ltac bn W := apply both_nack; [exact W|vm_compute; discriminate].
Ltac ba W := apply both_ack; [exact W|try (vm_compute; discriminate)].
(* the data has exactly k bytes: the pattern match on its shape cannot fall through *)
Ltac shape_of E d :=
  repeat (destruct d as [|? d]; try (exfalso; apply N.eqb_eq in E; unfold len in E; cbn [length] in E; lia)).

Lemma set_u16_range_ok q old lo hi : wf_cc q -> good q old (set_u16_range q old lo hi).
Proof.
  intros W. unfold set_u16_range. pose proof (extract_not_oob 2 q).
  destruct (extract 2 q) as [| |v]; [congruence| |].
  - apply good_nack; [exact W|vm_compute; discriminate].
  - destruct ((v <? lo) || (hi <? v)).
    + apply good_nack; [exact W|vm_compute; discriminate].
    + apply good_ack; [exact W|vm_compute; discriminate].
Qed.
Lemma set_burn_in_ok q old : wf_cc q -> good q old (set_burn_in q old).
Proof.
  intros W. unfold set_burn_in. pose proof (extract_not_oob 1 q).
  destruct (extract 1 q) as [| |v]; [congruence| |].
  - apply good_nack; [exact W|vm_compute; discriminate].
  - apply good_ack; [exact W|vm_compute; discriminate].
Qed.
Lemma freq_get_description_ok q fs off :
  wf_cc q -> len fs < 256 -> off <= 1 -> Forall (fun fd => len (snd fd) <= MAX_RDM_STRING_LENGTH) fs ->
  good q tt (freq_get_description q fs off).
Proof.
  intros W L O F. unfold freq_get_description. pose proof (extract_not_oob 1 q).
  destruct (extract 1 q) as [| |v]; [congruence| |].
  - apply good_nack; [exact W|vm_compute; discriminate].
  - destruct ((v =? 0) || (u8 (len fs) + off <=? v)) eqn:C; [apply good_nack; [exact W|vm_compute; discriminate]|].
    apply Bool.orb_false_iff in C as [C1 C2]. apply N.eqb_neq in C1. apply N.leb_gt in C2.
    rewrite u8_id in C2 by exact L.
    destruct (nth_error fs (N.to_nat (v - off))) as [[f d]|] eqn:EN.
    + rewrite Forall_forall in F. pose proof (F _ (nth_error_In _ _ EN)) as B. cbn in B.
      replace (MAX_RDM_STRING_LENGTH <? len d) with false by (symmetry; apply N.ltb_ge; exact B).
      apply good_ack; [exact W|]. rewrite !len_app, len_be_bytes.
      unfold len at 1; cbn [length]. unfold MAX_RDM_STRING_LENGTH, MAX_PDL in *. lia.
    + apply nth_error_None in EN. unfold len in *. lia.
Qed.
Lemma pwm_descs_short : Forall (fun fd : N * list N => len (snd fd) <= MAX_RDM_STRING_LENGTH) PWM_FREQUENCIES.
Proof. repeat constructor; vm_compute; discriminate. Qed.

Lemma preset_at_some st i : i < len (ad_presets st) -> exists p, preset_at st i = Some p.
Proof. intros H. unfold preset_at. apply nth_error_lt. exact H. Qed.

Lemma len_fm_bytes m : len (fm_bytes m) = 7.
Proof. destruct m as [[[a b] c] d]. reflexivity. Qed.

(* ---- the structure-valued SETs ---- *)
Lemma set_mode_struct_both q st dlo dhi hlo hhi upd :
  wf_cc q -> hboth q st (set_mode_struct q st dlo dhi hlo hhi upd).
Proof.
  intros W. unfold set_mode_struct, with_len.
  destruct (len (q_data q) =? 7) eqn:E; cbn [negb]; [|bn W].
  destruct (q_data q) as [|? d]; [discriminate E|]. shape_of E d.
  destruct (len (ad_presets st) <=? w16 n n0); [unfold nackd; bn W|ba W].
Qed.
Lemma ad_set_min_both q st : wf_cc q -> hboth q st (ad_set_min_h q st).
Proof.
  intros W. unfold ad_set_min_h, with_len.
  destruct (len (q_data q) =? 5) eqn:E; cbn [negb]; [|bn W].
  destruct (q_data q) as [|? d]; [discriminate E|]. shape_of E d.
  match goal with |- context [if ?c then _ else _] => destruct c end; [unfold nackd; bn W|ba W].
Qed.
Lemma ad_set_lock_both q st : wf_cc q -> hboth q st (ad_set_lock_h q st).
Proof.
  intros W. unfold ad_set_lock_h, with_len.
  destruct (len (q_data q) =? 3) eqn:E; cbn [negb]; [|bn W].
  destruct (q_data q) as [|? d]; [discriminate E|]. shape_of E d.
  destruct (negb (w16 n n0 =? ad_pin st)); [unfold nackd; bn W|].
  destruct (u8 (len LOCK_STATES) <=? n1); [unfold nackd; bn W|ba W].
Qed.
Lemma ad_set_pin_both q st : wf_cc q -> hboth q st (ad_set_pin_h q st).
Proof.
  intros W. unfold ad_set_pin_h, with_len.
  destruct (len (q_data q) =? 4) eqn:E; cbn [negb]; [|bn W].
  destruct (q_data q) as [|? d]; [discriminate E|]. shape_of E d.
  destruct (negb (w16 n1 n2 =? ad_pin st)); [unfold nackd; bn W|].
  destruct (MAX_LOCK_PIN_V <? w16 n n0); [bn W|ba W].
Qed.
Lemma ad_set_playback_both q st : wf_cc q -> hboth q st (ad_set_playback_h q st).
Proof.
  intros W. unfold ad_set_playback_h, with_len.
  destruct (len (q_data q) =? 3) eqn:E; cbn [negb]; [|bn W].
  destruct (q_data q) as [|? d]; [discriminate E|]. shape_of E d.
  destruct ((len (ad_presets st) <=? w16 n n0) && negb (w16 n n0 =? 65535)); [unfold nackd; bn W|ba W].
Qed.
Lemma ad_capture_both q st : wf_cc q -> hboth q st (ad_capture_preset q st).
Proof.
  intros W. unfold ad_capture_preset, with_len.
  destruct (len (q_data q) =? 8) eqn:E; cbn [negb]; [|bn W].
  destruct (q_data q) as [|? d]; [discriminate E|]. shape_of E d.
  destruct ((w16 n n0 =? 0) || (len (ad_presets st) <=? w16 n n0)) eqn:C; [unfold nackd; bn W|].
  apply Bool.orb_false_iff in C as [C1 C2]. apply N.eqb_neq in C1. apply N.leb_gt in C2.
  destruct (preset_at_some st (w16 n n0 - 1)) as (p & Ep); [lia|]. rewrite Ep.
  destruct (p_prog p =? PRESET_PROGRAMMED_READ_ONLY); [unfold nackw; bn W|ba W].
Qed.
Lemma ad_set_preset_status_both q st : wf_cc q -> hboth q st (ad_set_preset_status_h q st).
Proof.
  intros W. unfold ad_set_preset_status_h, with_len.
  destruct (len (q_data q) =? 9) eqn:E; cbn [negb]; [|bn W].
  destruct (q_data q) as [|? d]; [discriminate E|]. shape_of E d.
  destruct ((w16 n n0 =? 0) || (len (ad_presets st) <? w16 n n0)) eqn:C; [unfold nackd; bn W|].
  apply Bool.orb_false_iff in C as [C1 C2]. apply N.eqb_neq in C1. apply N.ltb_ge in C2.
  destruct (preset_at_some st (w16 n n0 - 1)) as (p & Ep); [lia|]. rewrite Ep.
  destruct (p_prog p =? PRESET_PROGRAMMED_READ_ONLY); [unfold nackw; bn W|].
  destruct (1 <? n7); [unfold nackd; bn W|]. destruct (n7 =? 1); ba W.
Qed.
Lemma ad_get_preset_status_both q st : wf_cc q -> hboth q st (ad_get_preset_status q st).
Proof.
  intros W. unfold ad_get_preset_status. pose proof (extract_not_oob 2 q).
  destruct (extract 2 q) as [| |a]; [congruence|bn W|].
  destruct ((a =? 0) || (len (ad_presets st) <? a)) eqn:C; [unfold nackd; bn W|].
  apply Bool.orb_false_iff in C as [C1 C2]. apply N.eqb_neq in C1. apply N.ltb_ge in C2.
  destruct (preset_at_some st (a - 1)) as (p & Ep); [lia|]. rewrite Ep.
  destruct p as [[[u f] w] pr]. apply both_ack; [exact W|]. rewrite !len_app, !len_be_bytes. vm_compute. discriminate.
Qed.
Lemma ad_set_personality_both q st : wf_cc q -> hboth q st (ad_set_personality_h q st).
Proof.
  intros W. unfold ad_set_personality_h. destruct (1 <? ad_lock st); [unfold nackw; bn W|].
  eapply both_lift; [apply set_personality_ok; exact W|destruct st; reflexivity].
Qed.
Lemma ad_set_start_both q st : wf_cc q -> hboth q st (ad_set_start_h q st).
Proof.
  intros W. unfold ad_set_start_h. destruct (0 <? ad_lock st); [unfold nackw; bn W|].
  eapply both_lift; [apply set_dmx_address_ok; exact W|destruct st; reflexivity].
Qed.

Lemma ad_get_min_both q st : wf_cc q -> hboth q st (ad_get_min q st).
Proof.
  intros W. unfold ad_get_min. apply both_r. apply get_noarg_ok; [exact W|].
  destruct (ad_min st) as [[i d] o]. rewrite !len_app, !len_be_bytes. vm_compute. discriminate.
Qed.

Ltac goodlem4 W :=
  first [ goodlem2 W
        | apply set_u16_range_ok; exact W | apply set_burn_in_ok; exact W
        | apply setting_get_ok; exact W | apply setting_set_ok; exact W
        | apply setting_get_description_ok; [exact W | vm_compute; reflexivity | vm_compute; discriminate]
        | apply freq_get_description_ok; [exact W | vm_compute; reflexivity | vm_compute; discriminate | exact pwm_descs_short]
        | apply get_noarg_ok; [exact W | first [rewrite len_fm_bytes; vm_compute; discriminate
                                               | rewrite !len_app, !len_be_bytes; vm_compute; discriminate
                                               | vm_compute; discriminate]] ].

Lemma ad_handlers_both c q st e h :
  lookup ad_state (ad_table c) (q_pid q) = Some e ->
  ((q_cc q = GET_COMMAND /\ e_get e = Some h) \/ (q_cc q = SET_COMMAND /\ e_set e = Some h)) ->
  hboth q st (h q st).
Proof.
  intros L H. assert (W : wf_cc q) by (destruct H as [[H _]|[H _]]; [left|right; left]; exact H).
  unfold ad_table in L. pick L;
    destruct H as [[CC G]|[CC G]]; cbn in G; try discriminate G; inversion G; subst; clear G;
    try (apply ad_set_personality_both; exact W); try (apply ad_set_start_both; exact W);
    try (apply set_mode_struct_both; exact W); try (apply ad_set_min_both; exact W);
    try (apply ad_set_lock_both; exact W); try (apply ad_set_pin_both; exact W);
    try (apply ad_set_playback_both; exact W); try (apply ad_capture_both; exact W);
    try (apply ad_set_preset_status_both; exact W); try (apply ad_get_preset_status_both; exact W);
    try (apply ad_get_min_both; exact W);
    unfold ad_device_info, ad_product_detail, str_handler, ad_get_personality, ad_personality_description, ad_get_start,
      ad_get_fail, ad_get_startup, ad_dimmer_info, ad_get_max, ad_set_max_h, ad_get_curve, ad_set_curve_h,
      ad_curve_description, ad_get_resp, ad_set_resp_h, ad_resp_description, ad_get_freq, ad_set_freq_h,
      ad_freq_description, ad_get_lock, ad_lock_description, ad_get_pin, ad_get_burn, ad_set_burn_h, ad_get_identify,
      ad_set_identify_h, ad_get_mode, ad_set_mode_h, ad_get_post, ad_set_post_h, ad_get_playback, ad_preset_info,
      ad_get_merge, ad_set_merge_h;
    first [ apply both_r; goodlem4 W
          | eapply both_lift; [goodlem4 W | try (match goal with |- _ = ?s => destruct s; reflexivity end)] ].
Qed.

Lemma advanced_dimmer_conforms c uid q st :
  let out := fst (ad_send c uid q st) in
  let st' := snd (ad_send c uid q st) in
  (exists s ro, out = [(s, ro)]) /\
  (is_broadcast (q_dst q) = true -> exists s, out = [(s, None)]) /\
  (is_broadcast (q_dst q) = false -> directed_to (q_dst q) uid = true ->
   q_cc q = GET_COMMAND \/ q_cc q = SET_COMMAND ->
   exists r, out = [(RDM_COMPLETED_OK, Some r)] /\ resp_ok q r /\
             (r_type r = RDM_NACK_REASON -> st' = st)).
Proof.
  apply resp_send_ok.
  - vm_compute. discriminate.
  - intros q0 st0 e h L H. apply (ad_handlers_both c q0 st0 e h L H).
  - intros q0 st0 e h L H. apply (ad_handlers_both c q0 st0 e h L H).
Qed.

(* the lock state never makes the responder answer something it would not answer unlocked: whatever the
   lock state and PIN, a request that is not a unicast to this responder gets no response *)
Lemma advanced_dimmer_locked_silent c uid q st :
  is_broadcast (q_dst q) = true \/ directed_to (q_dst q) uid = false ->
  exists s, fst (ad_send c uid q st) = [(s, None)].
Proof.
  intros [B|D].
  - destruct (dispatch_broadcast ad_state false (ad_table c) uid ROOT_RDM_DEVICE q st B) as (s & E & _). eauto.
  - unfold ad_send, dispatch. rewrite D. cbn. eauto.
Qed.

(* write protection: while the start address (lock state >= 1) resp. the personality (lock state 2) is locked,
   a unicast SET of it is NACKed with NR_WRITE_PROTECT and changes nothing *)
Lemma advanced_dimmer_write_protect c uid q st :
  is_broadcast (q_dst q) = false -> directed_to (q_dst q) uid = true -> q_cc q = SET_COMMAND ->
  q_sub q = ROOT_RDM_DEVICE ->
  (q_pid q = PID_DMX_START_ADDRESS /\ 0 < ad_lock st) \/ (q_pid q = PID_DMX_PERSONALITY /\ 1 < ad_lock st) ->
  ad_send c uid q st = ([(RDM_COMPLETED_OK, nack_with_reason q NR_WRITE_PROTECT 0)], st).
Proof.
  intros B D CC SUB H. unfold ad_send, dispatch. rewrite D, B, CC, SUB. cbn [negb andb orb].
  change (SET_COMMAND =? DISCOVER_COMMAND) with false. change (SET_COMMAND =? GET_COMMAND) with false.
  change (ROOT_RDM_DEVICE =? ROOT_RDM_DEVICE) with true. cbn [negb andb orb].
  change (ROOT_RDM_DEVICE =? ALL_RDM_SUBDEVICES) with false. cbn [andb].
  destruct H as [[P L]|[P L]]; rewrite P; cbn [lookup ad_table];
    repeat match goal with |- context [(?a =? ?b)] =>
      first [ change (a =? b) with true | change (a =? b) with false ] end; cbv iota;
    cbn [e_set e_get]; change (SET_COMMAND =? SET_COMMAND) with true; cbv iota.
  - unfold ad_set_start_h. replace (0 <? ad_lock st) with true by (symmetry; apply N.ltb_lt; exact L). reflexivity.
  - unfold ad_set_personality_h. replace (1 <? ad_lock st) with true by (symmetry; apply N.ltb_lt; exact L). reflexivity.
Qed.

Lemma ad_table_shape c : shape (ad_table c) = TBL_AdvancedDimmerResponder.
Proof. reflexivity. Qed.
