(* C13 — executable models of further built-in responders on top of the ResponderOps dispatch and the
   ResponderHelper models of Model.v: SensorResponder, DimmerSubDevice, DimmerRootDevice and the composite
   DimmerResponder.  Every handler is the one-line call into ResponderHelper that the C++ handler is. *)
From OlaBase Require Import Bytes.
From C13 Require Import Gen Model AckTimer.
Local Open Scope N_scope.

(* a handler built from a helper that returns hres: NULL stands for the (impossible) out-of-range read *)
Definition lift_set {S A} (x : hres A) (st : S) (upd : A -> S) : option response * S :=
  match x with HOob => (None, st) | HR r a => (r, upd a) end.

(* ResponderHelper::GetProductDetailList *)
Definition get_product_detail_list (q : request) (details : list N) (mc : N) : option response :=
  if negb (len (q_data q) =? 0) then nack_with_reason q NR_FORMAT_ERROR mc
  else ack q (flat_map (be_bytes 2) details) mc.

(* the four label strings of a responder (literals and VERSION of the build) *)
Definition str_handler {S} (f : at_cfg -> list N) (c : at_cfg) : handler S := fun q st =>
  (get_string q (f c) 0 MAX_RDM_STRING_LENGTH, st).

(* ======================= SensorResponder ======================= *)
Record sr_state := mkSR { sr_ident : bool; sr_sensors : list sensor }.

Definition sr_device_info : handler sr_state := fun q st =>
  (get_device_info q OLA_SENSOR_ONLY_MODEL PRODUCT_CATEGORY_TEST 2 0 1 1 ZERO_FOOTPRINT_DMX_ADDRESS 0
                   (len (sr_sensors st)) 0, st).
Definition sr_product_detail : handler sr_state := fun q st =>
  (get_product_detail_list q [PRODUCT_DETAIL_TEST] 0, st).
Definition sr_get_identify : handler sr_state := fun q st => (get_bool q (sr_ident st) 0, st).
Definition sr_set_identify : handler sr_state := fun q st =>
  lift_set (set_bool q (sr_ident st) 0) st (fun b => mkSR b (sr_sensors st)).
Definition sr_sensor_definition : handler sr_state := fun q st =>
  lift_set (get_sensor_definition q (sr_sensors st)) st (fun _ => st).
Definition sr_get_sensor_value : handler sr_state := fun q st =>
  lift_set (get_sensor_value q (sr_sensors st)) st (fun ss => mkSR (sr_ident st) ss).
Definition sr_set_sensor_value : handler sr_state := fun q st =>
  lift_set (set_sensor_value q (sr_sensors st)) st (fun ss => mkSR (sr_ident st) ss).
Definition sr_record_sensor : handler sr_state := fun q st =>
  lift_set (record_sensor q (sr_sensors st)) st (fun ss => mkSR (sr_ident st) ss).

Definition sr_table (c : at_cfg) : table sr_state :=
  [ (PID_SUPPORTED_PARAMETERS, mkEntry None None);
    (PID_DEVICE_INFO, mkEntry (Some sr_device_info) None);
    (PID_PRODUCT_DETAIL_ID_LIST, mkEntry (Some sr_product_detail) None);
    (PID_DEVICE_MODEL_DESCRIPTION, mkEntry (Some (str_handler c_model c)) None);
    (PID_MANUFACTURER_LABEL, mkEntry (Some (str_handler c_manu c)) None);
    (PID_DEVICE_LABEL, mkEntry (Some (str_handler c_label c)) None);
    (PID_SOFTWARE_VERSION_LABEL, mkEntry (Some (str_handler c_version c)) None);
    (PID_SENSOR_DEFINITION, mkEntry (Some sr_sensor_definition) None);
    (PID_SENSOR_VALUE, mkEntry (Some sr_get_sensor_value) (Some sr_set_sensor_value));
    (PID_RECORD_SENSORS, mkEntry None (Some sr_record_sensor));
    (PID_IDENTIFY_DEVICE, mkEntry (Some sr_get_identify) (Some sr_set_identify)) ].

Definition sr_send (c : at_cfg) (uid : N) (q : request) (st : sr_state) : list reply * sr_state :=
  dispatch sr_state false (sr_table c) uid ROOT_RDM_DEVICE q st.

(* ======================= DimmerSubDevice ======================= *)
Record ds_state := mkDS { ds_active : N; ds_start : N; ds_ident : bool; ds_mode : N }.

Definition dimmer_pers : list pers :=
  [ mkPers 1 (* "8 bit dimming" *) [56; 32; 98; 105; 116; 32; 100; 105; 109; 109; 105; 110; 103] [];
    mkPers 2 (* "16 bit dimming" *) [49; 54; 32; 98; 105; 116; 32; 100; 105; 109; 109; 105; 110; 103] [] ].
Definition ds_fp (s : ds_state) : N := active_fp dimmer_pers (ds_active s).

(* shared by the sub-devices, the root and the advanced dimmer: SetIdentifyMode *)
Definition set_identify_mode (q : request) (old : N) : hres N :=
  match extract 1 q with
  | EOob => HOob
  | EBad => HR (nack_with_reason q NR_FORMAT_ERROR 0) old
  | EVal v => if negb (v =? IDENTIFY_MODE_QUIET) && negb (v =? IDENTIFY_MODE_LOUD)
              then HR (nack_with_reason q NR_DATA_OUT_OF_RANGE 0) old
              else HR (ack q [] 0) v
  end.

Definition ds_device_info (count : N) : handler ds_state := fun q s =>
  (get_device_info q OLA_DUMMY_DIMMER_MODEL PRODUCT_CATEGORY_DIMMER 1 (ds_fp s) (ds_active s)
                   (u8 (len dimmer_pers))
                   (if ds_fp s =? 0 then ZERO_FOOTPRINT_DMX_ADDRESS else ds_start s) count 0 0, s).
Definition ds_product_detail : handler ds_state := fun q s =>
  (get_product_detail_list q [PRODUCT_DETAIL_TEST] 0, s).
Definition ds_get_personality : handler ds_state := fun q s =>
  (get_personality q dimmer_pers (ds_active s) 0, s).
Definition ds_set_personality : handler ds_state := fun q s =>
  lift_set (set_personality q dimmer_pers (ds_active s) (ds_start s) 0) s
           (fun a => mkDS a (ds_start s) (ds_ident s) (ds_mode s)).
Definition ds_personality_description : handler ds_state := fun q s =>
  lift_set (get_personality_description q dimmer_pers 0) s (fun _ => s).
Definition ds_get_start : handler ds_state := fun q s => (get_uint 2 q (ds_start s) 0, s).
Definition ds_set_start : handler ds_state := fun q s =>
  lift_set (set_dmx_address q dimmer_pers (ds_active s) (ds_start s) 0) s
           (fun a => mkDS (ds_active s) a (ds_ident s) (ds_mode s)).
Definition ds_get_identify : handler ds_state := fun q s => (get_bool q (ds_ident s) 0, s).
Definition ds_set_identify : handler ds_state := fun q s =>
  lift_set (set_bool q (ds_ident s) 0) s (fun b => mkDS (ds_active s) (ds_start s) b (ds_mode s)).
Definition ds_get_mode : handler ds_state := fun q s => (get_uint 1 q (ds_mode s) 0, s).
Definition ds_set_mode : handler ds_state := fun q s =>
  lift_set (set_identify_mode q (ds_mode s)) s (fun m => mkDS (ds_active s) (ds_start s) (ds_ident s) m).

Definition ds_table (c : at_cfg) (count : N) : table ds_state :=
  [ (PID_SUPPORTED_PARAMETERS, mkEntry None None);
    (PID_DEVICE_INFO, mkEntry (Some (ds_device_info count)) None);
    (PID_PRODUCT_DETAIL_ID_LIST, mkEntry (Some ds_product_detail) None);
    (PID_DEVICE_MODEL_DESCRIPTION, mkEntry (Some (str_handler c_model c)) None);
    (PID_MANUFACTURER_LABEL, mkEntry (Some (str_handler c_manu c)) None);
    (PID_DEVICE_LABEL, mkEntry (Some (str_handler c_label c)) None);
    (PID_SOFTWARE_VERSION_LABEL, mkEntry (Some (str_handler c_version c)) None);
    (PID_DMX_PERSONALITY, mkEntry (Some ds_get_personality) (Some ds_set_personality));
    (PID_DMX_PERSONALITY_DESCRIPTION, mkEntry (Some ds_personality_description) None);
    (PID_DMX_START_ADDRESS, mkEntry (Some ds_get_start) (Some ds_set_start));
    (PID_IDENTIFY_DEVICE, mkEntry (Some ds_get_identify) (Some ds_set_identify));
    (PID_IDENTIFY_MODE, mkEntry (Some ds_get_mode) (Some ds_set_mode)) ].

(* DimmerSubDevice::SendRDMRequest; number = m_sub_device_number *)
Definition ds_send (c : at_cfg) (count uid number : N) (q : request) (s : ds_state)
  : list reply * ds_state :=
  dispatch ds_state true (ds_table c count) uid number q s.   (* RDMOps(PARAM_HANDLERS, true) *)

Definition ds_init (number : N) : ds_state := mkDS 1 number false IDENTIFY_MODE_LOUD.

(* ======================= DimmerRootDevice ======================= *)
Record dm_state := mkDM { dm_ident : bool; dm_mode : N; dm_subs : list ds_state }.

Definition dm_dsubs (st : dm_state) : list dsub := map (fun s => (ds_fp s, ds_start s)) (dm_subs st).
Fixpoint put_starts (subs : list ds_state) (l : list dsub) : list ds_state :=
  match subs, l with
  | s :: r, d :: r' => mkDS (ds_active s) (snd d) (ds_ident s) (ds_mode s) :: put_starts r r'
  | _, _ => subs
  end.

(* GetDmxBlockAddress: the loop over the sub-devices; acc = (next_address, base_address, total) *)
Fixpoint block_scan (l : list dsub) (next base total : N) : N * N :=
  match l with
  | [] => (base, total)
  | (fp, start) :: r =>
    if fp =? 0 then block_scan r next base total
    else if next =? start then block_scan r (u16 (next + fp)) base (u16 (total + fp))
    else if next =? 0 then block_scan r (u16 (start + fp)) start (u16 (total + fp))
    else block_scan r next 65535 (u16 (total + fp))
  end.
Definition get_dmx_block_address (q : request) (l : list dsub) : option response :=
  if negb (len (q_data q) =? 0) then nack_with_reason q NR_FORMAT_ERROR 0 else
  let (base, total) := block_scan l 0 0 0 in
  get_response_from_data q (be_bytes 2 total ++ be_bytes 2 base) RDM_ACK 0.

Definition dm_device_info : handler dm_state := fun q st =>
  (if negb (len (q_data q) =? 0) then nack_with_reason q NR_FORMAT_ERROR 0 else
   get_device_info q OLA_DUMMY_DIMMER_MODEL PRODUCT_CATEGORY_DIMMER 1 0 1 1 65535 (len (dm_subs st)) 0 0, st).
Definition dm_product_detail : handler dm_state := fun q st =>
  (get_product_detail_list q [PRODUCT_DETAIL_TEST] 0, st).
Definition dm_get_identify : handler dm_state := fun q st => (get_bool q (dm_ident st) 0, st).
Definition dm_set_identify : handler dm_state := fun q st =>
  lift_set (set_bool q (dm_ident st) 0) st (fun b => mkDM b (dm_mode st) (dm_subs st)).
Definition dm_get_block : handler dm_state := fun q st => (get_dmx_block_address q (dm_dsubs st), st).
Definition dm_set_block : handler dm_state := fun q st =>
  lift_set (set_dmx_block_address q (dm_dsubs st)) st
           (fun l => mkDM (dm_ident st) (dm_mode st) (put_starts (dm_subs st) l)).
Definition dm_get_mode : handler dm_state := fun q st => (get_uint 1 q (dm_mode st) 0, st).
Definition dm_set_mode : handler dm_state := fun q st =>
  lift_set (set_identify_mode q (dm_mode st)) st (fun m => mkDM (dm_ident st) m (dm_subs st)).

Definition dm_table (c : at_cfg) : table dm_state :=
  [ (PID_SUPPORTED_PARAMETERS, mkEntry None None);
    (PID_DEVICE_INFO, mkEntry (Some dm_device_info) None);
    (PID_PRODUCT_DETAIL_ID_LIST, mkEntry (Some dm_product_detail) None);
    (PID_DEVICE_MODEL_DESCRIPTION, mkEntry (Some (str_handler c_model c)) None);
    (PID_MANUFACTURER_LABEL, mkEntry (Some (str_handler c_manu c)) None);
    (PID_DEVICE_LABEL, mkEntry (Some (str_handler c_label c)) None);
    (PID_SOFTWARE_VERSION_LABEL, mkEntry (Some (str_handler c_version c)) None);
    (PID_DMX_BLOCK_ADDRESS, mkEntry (Some dm_get_block) (Some dm_set_block));
    (PID_IDENTIFY_DEVICE, mkEntry (Some dm_get_identify) (Some dm_set_identify));
    (PID_IDENTIFY_MODE, mkEntry (Some dm_get_mode) (Some dm_set_mode)) ].

Definition dm_root_send (c : at_cfg) (uid : N) (q : request) (st : dm_state) : list reply * dm_state :=
  dispatch dm_state false (dm_table c) uid ROOT_RDM_DEVICE q st.

(* ======================= DimmerResponder (root + dispatcher + sub-devices) ======================= *)
(* sub-device number i (1-based) acting on its slot of the shared state *)
Definition dm_sub_device (c : at_cfg) (uid i : N) : device dm_state := fun q st =>
  match nth_error (dm_subs st) (N.to_nat (i - 1)) with
  | Some s =>
    let (out, s') := ds_send c (len (dm_subs st)) uid i q s in
    (out, mkDM (dm_ident st) (dm_mode st) (set_nth (dm_subs st) (N.to_nat (i - 1)) s'))
  | None => ([(RDM_TIMEOUT, None)], st)       (* no such object: never built *)
  end.
Fixpoint dm_devices (c : at_cfg) (uid i : N) (n : nat) : list (N * device dm_state) :=
  match n with
  | O => []
  | S n' => (i, dm_sub_device c uid i) :: dm_devices c uid (i + 1) n'
  end.
Definition dm_send (c : at_cfg) (uid : N) (q : request) (st : dm_state) : fres dm_state :=
  dimmer_send dm_state (dm_root_send c uid) (dm_devices c uid 1 (length (dm_subs st))) q st.

Fixpoint dm_init_subs (i : N) (n : nat) : list ds_state :=
  match n with O => [] | S n' => ds_init i :: dm_init_subs (i + 1) n' end.
Definition dm_init (n : N) : dm_state := mkDM false IDENTIFY_MODE_LOUD (dm_init_subs 1 (N.to_nat n)).

(* histories (for the correspondence drivers) *)
Fixpoint sr_run (c : at_cfg) (uid : N) (h : list request) (st : sr_state) : list (list reply) * sr_state :=
  match h with
  | [] => ([], st)
  | q :: rest => let (out, st1) := sr_send c uid q st in
                 let (outs, st2) := sr_run c uid rest st1 in (out :: outs, st2)
  end.
Fixpoint dm_run (c : at_cfg) (uid : N) (h : list request) (st : dm_state)
  : option (list (list reply) * dm_state) :=
  match h with
  | [] => Some ([], st)
  | q :: rest =>
    match dm_send c uid q st with
    | FUseAfterFree => None
    | FOk out st1 => match dm_run c uid rest st1 with
                     | Some (outs, st2) => Some (out :: outs, st2)
                     | None => None
                     end
    end
  end.
