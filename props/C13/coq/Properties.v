(* C13 — property theorems.  Only statements closed by `exact`, each followed by Print Assumptions. *)
From OlaBase Require Import Bytes.
From C13 Require Import Gen GenTables Model AckTimer Responders MovingLight Network Dummy AdvDimmer Chk Proofs
  ProofsHelpers ProofsResp ProofsMoving ProofsNet ProofsAdv ProofsDimmer ProofsAck ProofsFan.
Local Open Scope N_scope.

(* ---- layer 2: the response builders ---- *)
Theorem c13_builders :
  forall q pid data ty mc,
    q_cc q = GET_COMMAND \/ q_cc q = SET_COMMAND \/ q_cc q = DISCOVER_COMMAND ->
    exists r, get_response_with_pid q pid data ty mc = Some r /\
      r_src r = q_dst q /\ r_dst r = q_src q /\ r_tn r = q_tn q /\ r_type r = ty /\ r_mc r = mc /\
      r_sub r = q_sub q /\ r_cc r = q_cc q + 1 /\ r_pid r = pid /\ r_data r = data.
Proof. exact grwp_spec. Qed.
Print Assumptions c13_builders.

Theorem c13_builders_nack :
  forall q reason mc,
    q_cc q = GET_COMMAND \/ q_cc q = SET_COMMAND \/ q_cc q = DISCOVER_COMMAND ->
    reason <= NR_INVALID_PORT ->
    exists r, nack_with_reason q reason mc = Some r /\ resp_ok q r /\
              r_type r = RDM_NACK_REASON /\ r_sub r = q_sub q /\ r_pid r = q_pid q /\ r_mc r = mc.
Proof. exact nack_spec. Qed.
Print Assumptions c13_builders_nack.

(* ---- layer 1: ResponderOps dispatch, for EVERY handler behaviour ---- *)
Theorem c13_dispatch_once :
  forall (State : Type) incl (t : table State) uid sd q st,
    exists s ro, fst (dispatch State incl t uid sd q st) = [(s, ro)].
Proof. exact dispatch_once. Qed.
Print Assumptions c13_dispatch_once.

Theorem c13_dispatch_broadcast :
  forall (State : Type) incl (t : table State) uid sd q st,
    is_broadcast (q_dst q) = true ->
    exists s, fst (dispatch State incl t uid sd q st) = [(s, None)] /\
              (s = RDM_WAS_BROADCAST \/
               (q_cc q = DISCOVER_COMMAND /\ s = RDM_PLUGIN_DISCOVERY_NOT_SUPPORTED)).
Proof. exact dispatch_broadcast. Qed.
Print Assumptions c13_dispatch_broadcast.

Theorem c13_dispatch_other_uid :
  forall (State : Type) incl (t : table State) uid sd q st,
    is_broadcast (q_dst q) = false -> directed_to (q_dst q) uid = false ->
    dispatch State incl t uid sd q st = ([(RDM_TIMEOUT, None)], st).
Proof. exact dispatch_other. Qed.
Print Assumptions c13_dispatch_other_uid.

(* unicast GET/SET: one RDM_COMPLETED_OK completion whose response has source and destination
   swapped, the request's transaction number, the matching response class, a legal type and at
   most 231 bytes -- provided every installed handler returns a conformant response
   (handlers_conform: the hypothesis the sweep validates on the real handlers) *)
Theorem c13_dispatch :
  forall (State : Type) incl (t : table State) uid sd q st,
    (forall pid e h, lookup State t pid = Some e -> (e_get e = Some h \/ e_set e = Some h) ->
       forall q st, (q_cc q = GET_COMMAND \/ q_cc q = SET_COMMAND \/ q_cc q = DISCOVER_COMMAND) ->
                    exists r, fst (h q st) = Some r /\ resp_ok q r) ->
    2 * len t <= MAX_PDL ->
    is_broadcast (q_dst q) = false -> directed_to (q_dst q) uid = true ->
    q_cc q = GET_COMMAND \/ q_cc q = SET_COMMAND ->
    exists r, fst (dispatch State incl t uid sd q st) = [(RDM_COMPLETED_OK, Some r)] /\ resp_ok q r.
Proof. exact dispatch_unicast. Qed.
Print Assumptions c13_dispatch.

Theorem c13_dispatch_unknown_pid_state :
  forall (State : Type) incl (t : table State) uid sd q st,
    lookup State t (q_pid q) = None -> snd (dispatch State incl t uid sd q st) = st.
Proof. exact dispatch_state_unknown_pid. Qed.
Print Assumptions c13_dispatch_unknown_pid_state.

(* the hypotheses of c13_dispatch are satisfiable: the scripted table used by the correspondence *)
Example c13_dispatch_example :
  fst (test_dispatch false 5 0 (mkReq 9 5 3 1 0 GET_COMMAND 32769 [1; 2]) 0) =
  [(RDM_COMPLETED_OK, Some (mkResp 5 9 3 RDM_ACK 0 0 GET_COMMAND_RESPONSE 32769 [1; 2]))].
Proof. vm_compute. reflexivity. Qed.

(* ---- SubDeviceDispatcher (with fix 01): completion exactly once, tracker never used after free ---- *)
Theorem c13_fanout :
  forall (State : Type) (devs : list (N * device State)) q st,
    (forall k d, In (k, d) devs -> forall q st, exists r, fst (d q st) = [r]) ->
    len devs < 65536 ->
    exists r st', subdev_send State devs q st = FOk [r] st'.
Proof. exact subdev_send_once. Qed.
Print Assumptions c13_fanout.

Theorem c13_fanout_first :
  forall (State : Type) k (d : device State) rest q st,
    (forall k' d', In (k', d') ((k, d) :: rest) -> forall q st, exists r, fst (d' q st) = [r]) ->
    len ((k, d) :: rest) < 65536 ->
    q_sub q = ALL_RDM_SUBDEVICES -> q_cc q <> GET_COMMAND ->
    exists st', subdev_send State ((k, d) :: rest) q st = FOk (fst (d q st)) st'.
Proof. exact fan_out_first. Qed.
Print Assumptions c13_fanout_first.

(* a broadcast SET to all sub-devices (status-only sub-device replies) completes once, no response *)
Example c13_fanout_broadcast_example :
  test_fan [(1, 0); (1, 0)] (mkReq 9 281474976710655 0 1 65535 SET_COMMAND 240 [0; 1]) 0 =
  FOk [(RDM_WAS_BROADCAST, None)] 2.
Proof. vm_compute. reflexivity. Qed.

(* ---- the instance checker decides the property text on one observed exchange ---- *)
Theorem c13_chk_sound :
  forall uid q obs sb sa, chk_13 uid q obs sb sa = 0 -> conforms uid q obs sb sa.
Proof. exact chk_13_sound. Qed.
Print Assumptions c13_chk_sound.

Theorem c13_chk_resp_iff : forall q r, chk_resp q r = 0 <-> resp_ok q r.
Proof. exact (fun q r => conj (chk_resp_sound q r) (chk_resp_complete q r)). Qed.
Print Assumptions c13_chk_resp_iff.

(* ---- layer 3: the generic helpers.  good q st x = no out-of-range read, a conformant ACK/NACK
   (legal reason, <= 231 bytes), and the state equal to st whenever the answer is a NACK ---- *)
Theorem c13_helpers_extract : forall k q, extract k q <> EOob.
Proof. exact extract_not_oob. Qed.
Print Assumptions c13_helpers_extract.

Theorem c13_helpers_set :
  forall q, (q_cc q = GET_COMMAND \/ q_cc q = SET_COMMAND \/ q_cc q = DISCOVER_COMMAND) ->
    (forall k old mc, good q old (set_uint k q old mc)) /\
    (forall old mc, good q old (set_bool q old mc)) /\
    (forall old mc maxlen, good q old (set_string q old mc maxlen)) /\
    (forall ps active start mc, good q active (set_personality q ps active start mc)) /\
    (forall ps active old mc, good q old (set_dmx_address q ps active old mc)) /\
    (forall descs off cur, good q cur (setting_set q descs off cur)) /\
    (forall ss, good q ss (set_sensor_value q ss)) /\
    (forall ss, good q ss (record_sensor q ss)) /\
    (forall ss, good q ss (get_sensor_value q ss)).
Proof.
  exact (fun q W =>
    conj (fun k old mc => set_uint_ok k q old mc W)
   (conj (fun old mc => set_bool_ok q old mc W)
   (conj (fun old mc maxlen => set_string_ok q old mc maxlen W)
   (conj (fun ps active start mc => set_personality_ok q ps active start mc W)
   (conj (fun ps active old mc => set_dmx_address_ok q ps active old mc W)
   (conj (fun descs off cur => setting_set_ok q descs off cur W)
   (conj (fun ss => set_sensor_value_ok q ss W)
   (conj (fun ss => record_sensor_ok q ss W)
         (fun ss => get_sensor_value_ok q ss W))))))))).
Qed.
Print Assumptions c13_helpers_set.

Theorem c13_helpers_get :
  forall q, (q_cc q = GET_COMMAND \/ q_cc q = SET_COMMAND \/ q_cc q = DISCOVER_COMMAND) ->
    (forall k v mc, (k <= 4)%nat -> good_r q (get_uint k q v mc)) /\
    (forall v mc, good_r q (get_bool q v mc)) /\
    (forall v mc maxlen, maxlen <= MAX_PDL \/ len v <= MAX_PDL -> good_r q (get_string q v mc maxlen)) /\
    (forall ps active mc, good_r q (get_personality q ps active mc)) /\
    (forall ps mc, good q tt (get_personality_description q ps mc)) /\
    (forall ps active start mc, good_r q (get_dmx_address q ps active start mc)) /\
    (forall descs off cur, good_r q (setting_get q descs off cur)) /\
    (forall descs off, len descs < 256 -> off <= 1 -> good q tt (setting_get_description q descs off)) /\
    (forall ss, good q tt (get_sensor_definition q ss)) /\
    (forall mc, len (q_data q) <= MAX_PDL -> good_r q (set_test_data q mc)).
Proof.
  exact (fun q W =>
    conj (fun k v mc K => get_uint_ok k q v mc W K)
   (conj (fun v mc => get_bool_ok q v mc W)
   (conj (fun v mc maxlen H => get_string_ok q v mc maxlen W H)
   (conj (fun ps active mc => get_personality_ok q ps active mc W)
   (conj (fun ps mc => get_personality_description_ok q ps mc W)
   (conj (fun ps active start mc => get_dmx_address_ok q ps active start mc W)
   (conj (fun descs off cur => setting_get_ok q descs off cur W)
   (conj (fun descs off L O => setting_get_description_ok q descs off W L O)
   (conj (fun ss => get_sensor_definition_ok q ss W)
         (fun mc L => set_test_data_ok q mc W L)))))))))).
Qed.
Print Assumptions c13_helpers_get.

Theorem c13_helpers_address_range :
  forall q ps active old mc r a,
    active_fp ps active <= DMX_UNIVERSE_SIZE ->
    set_dmx_address q ps active old mc = HR (Some r) a -> r_type r = RDM_ACK ->
    (q_cc q = GET_COMMAND \/ q_cc q = SET_COMMAND \/ q_cc q = DISCOVER_COMMAND) ->
    1 <= a /\ a + active_fp ps active <= DMX_UNIVERSE_SIZE + 1.
Proof. exact set_dmx_address_range. Qed.
Print Assumptions c13_helpers_address_range.

(* GET TEST_DATA: the full statement fails (known finding C13-testdata-over-231) ... *)
Theorem c13_helpers_testdata_refuted :
  exists r, get_test_data (mkReq 1 2 0 1 0 GET_COMMAND PID_TEST_DATA [0; 232]) 0 = HR (Some r) tt /\
            r_type r = RDM_ACK /\ len (r_data r) = 232.
Proof. exact get_test_data_refuted. Qed.
Print Assumptions c13_helpers_testdata_refuted.

(* ... and holds under the weakest guard excluding it: the requested pattern length is not in 232..4096 *)
Theorem c13_helpers_testdata_partial :
  forall q mc,
    (q_cc q = GET_COMMAND \/ q_cc q = SET_COMMAND \/ q_cc q = DISCOVER_COMMAND) ->
    (forall hi lo, q_data q = [hi; lo] -> hi < 256 -> lo < 256 ->
                   hi * 256 + lo <= MAX_PDL \/ MAX_RDM_TEST_DATA_PATTERN_LENGTH < hi * 256 + lo) ->
    bytes_ok (q_data q) = true ->
    good q tt (get_test_data q mc).
Proof. exact get_test_data_partial. Qed.
Print Assumptions c13_helpers_testdata_partial.

Example c13_helpers_testdata_guard_satisfiable :
  good (mkReq 1 2 0 1 0 GET_COMMAND PID_TEST_DATA [0; 231]) tt
       (get_test_data (mkReq 1 2 0 1 0 GET_COMMAND PID_TEST_DATA [0; 231]) 0).
Proof.
  apply get_test_data_partial.
  - left; reflexivity.
  - intros hi lo E _ _. inversion E; subst. left. vm_compute. discriminate.
  - reflexivity.
Qed.

(* ---- round 2: helpers that had no theorem ---- *)
Theorem c13_helpers_device_info :
  forall q model cat ver fp cur cnt start subs sens mc,
    (q_cc q = GET_COMMAND \/ q_cc q = SET_COMMAND \/ q_cc q = DISCOVER_COMMAND) ->
    good_r q (get_device_info q model cat ver fp cur cnt start subs sens mc).
Proof. exact (fun q model cat ver fp cur cnt start subs sens mc W =>
                get_device_info_ok q model cat ver fp cur cnt start subs sens mc W). Qed.
Print Assumptions c13_helpers_device_info.

(* slot data: the active personality exists (SetActivePersonality validates it) and, for the two
   table replies, the table fits one response (5 resp. 3 bytes per slot; there is no ACK_OVERFLOW) *)
Theorem c13_helpers_slots :
  forall q ps active mc sl,
    (q_cc q = GET_COMMAND \/ q_cc q = SET_COMMAND \/ q_cc q = DISCOVER_COMMAND) ->
    active_slots ps active = Some sl ->
    (5 * len sl <= MAX_PDL -> good q tt (get_slot_info q ps active mc)) /\
    (3 * len sl <= MAX_PDL -> good q tt (get_slot_defaults q ps active mc)) /\
    good q tt (get_slot_description q ps active mc).
Proof.
  exact (fun q ps active mc sl W A =>
    conj (fun L => get_slot_info_ok q ps active mc sl W A L)
   (conj (fun L => get_slot_defaults_ok q ps active mc sl W A L)
         (get_slot_description_ok q ps active mc sl W A))).
Qed.
Print Assumptions c13_helpers_slots.

(* ---- round 2: AckTimerResponder, for EVERY history of (clock reading, request) pairs and every
   label configuration.  After any history the next request is completed exactly once; broadcast and
   vendorcast get no response; a unicast GET/SET addressed to the responder gets RDM_COMPLETED_OK with
   source/destination swapped, the request's transaction number, a matching class (GET QUEUED_MESSAGE
   may deliver a SET response), a legal type, <= 231 bytes; and a NACK leaves the readable
   parameters (start address, identify, personality) unchanged.  No handler hypothesis is left. ---- *)
Theorem c13_acktimer :
  forall c uid h now q,
    let st := snd (at_run c uid h at_init) in
    let out := fst (at_send c uid now q st) in
    let st' := snd (at_send c uid now q st) in
    (exists s ro, out = [(s, ro)]) /\
    (is_broadcast (q_dst q) = true -> exists s, out = [(s, None)]) /\
    (is_broadcast (q_dst q) = false -> directed_to (q_dst q) uid = true ->
     q_cc q = GET_COMMAND \/ q_cc q = SET_COMMAND ->
     exists r, out = [(RDM_COMPLETED_OK, Some r)] /\ resp_ok q r /\
               (r_type r = RDM_NACK_REASON -> at_params st' = at_params st)).
Proof. exact acktimer_conforms. Qed.
Print Assumptions c13_acktimer.

(* a SET answered with ACK_TIMER, and the queued message collected 400 ms later by another controller *)
Example c13_acktimer_example :
  fst (at_run (mkCfg [] [] [] []) 5
         [(0, mkReq 9 5 1 1 0 SET_COMMAND PID_IDENTIFY_DEVICE [1]);
          (400000, mkReq 8 5 2 1 0 GET_COMMAND PID_QUEUED_MESSAGE [4])] at_init) =
  [ [(RDM_COMPLETED_OK, Some (mkResp 5 9 1 RDM_ACK_TIMER 0 0 SET_COMMAND_RESPONSE PID_IDENTIFY_DEVICE [0; 5]))];
    [(RDM_COMPLETED_OK, Some (mkResp 5 8 2 RDM_ACK 0 0 SET_COMMAND_RESPONSE PID_IDENTIFY_DEVICE []))] ].
Proof. vm_compute. reflexivity. Qed.

(* ---- round 2: which handler ran (used to connect replies and state changes) ---- *)
Theorem c13_dispatch_state :
  forall (State : Type) incl (t : table State) uid sd q st,
    snd (dispatch State incl t uid sd q st) = st \/
    exists e h, lookup State t (q_pid q) = Some e /\
      ((q_cc q = GET_COMMAND /\ e_get e = Some h) \/ (q_cc q = SET_COMMAND /\ e_set e = Some h)) /\
      snd (dispatch State incl t uid sd q st) = snd (h q st) /\
      (is_broadcast (q_dst q) = false ->
       fst (dispatch State incl t uid sd q st) = [(RDM_COMPLETED_OK, fst (h q st))]).
Proof. exact dispatch_state. Qed.
Print Assumptions c13_dispatch_state.

(* ---- round 2: the fan-out and the known finding C13-fanout-mixed-nack ---- *)
(* a long-lived dispatcher over any sequence of requests (a request issued from a completion callback is
   the next request of the sequence: every fan-out owns its tracker): every one completes exactly once *)
Theorem c13_fanout_run :
  forall (State : Type) (devs : list (N * device State)) h,
    (forall k d, In (k, d) devs -> forall q st, exists r, fst (d q st) = [r]) ->
    len devs < 65536 ->
    forall st, exists outs st', sub_run State devs h st = Some (outs, st') /\
                                length outs = length h /\ Forall (fun o => exists r, o = [r]) outs.
Proof. exact sub_run_once. Qed.
Print Assumptions c13_fanout_run.

(* a SET fanned out to all sub-devices reports the FIRST sub-device's reply and leaves the state that
   all sub-devices, each run once in map order, produce *)
Theorem c13_fanout_state :
  forall (State : Type) k (d : device State) rest q st,
    (forall k' d', In (k', d') ((k, d) :: rest) -> forall q st, exists r, fst (d' q st) = [r]) ->
    len ((k, d) :: rest) < 65536 ->
    q_sub q = ALL_RDM_SUBDEVICES -> q_cc q <> GET_COMMAND ->
    subdev_send State ((k, d) :: rest) q st =
    FOk (fst (d q st)) (run_states State ((k, d) :: rest) q st).
Proof. exact fan_out_state. Qed.
Print Assumptions c13_fanout_state.

(* full statement "a NACKed SET changes nothing" is false for the fan-out ... *)
Theorem c13_fanout_mixed_refuted :
  exists r st', subdev_send dim_state (dim2 5) mixed_q mixed_st = FOk [(RDM_COMPLETED_OK, Some r)] st' /\
                r_type r = RDM_NACK_REASON /\ st' = ((2, 1), (1, 512)) /\ st' <> mixed_st.
Proof. exact fanout_mixed_refuted. Qed.
Print Assumptions c13_fanout_mixed_refuted.

(* ... and holds when the verdict is not mixed: if every sub-device NACKs (each sub-device keeping its
   own state on a NACK) the reported NACK comes with an unchanged state.  Hence the finding needs a
   sub-device after the first one whose answer is not a NACK. *)
Theorem c13_fanout_partial :
  forall (State : Type) k (d : device State) rest q st,
    (forall k' d', In (k', d') ((k, d) :: rest) -> forall q st, exists r, fst (d' q st) = [r]) ->
    len ((k, d) :: rest) < 65536 ->
    q_sub q = ALL_RDM_SUBDEVICES -> q_cc q <> GET_COMMAND ->
    (forall k' d', In (k', d') ((k, d) :: rest) -> nack_keeps State d') ->
    all_nack State ((k, d) :: rest) q st ->
    subdev_send State ((k, d) :: rest) q st = FOk (fst (d q st)) st.
Proof.
  exact (fun State k d rest q st HO LT SUB CC NK AN =>
           eq_trans (fan_out_state State k d rest q st HO LT SUB CC)
                    (f_equal (FOk (fst (d q st))) (all_nack_state State ((k, d) :: rest) q st NK AN))).
Qed.
Print Assumptions c13_fanout_partial.

(* the hypotheses hold for the modelled DimmerSubDevice pair *)
Example c13_fanout_partial_hyps_satisfiable :
  (forall k d, In (k, d) (dim2 5) -> forall q st, exists r, fst (d q st) = [r]) /\
  (forall k d, In (k, d) (dim2 5) -> nack_keeps dim_state d).
Proof. exact (dim2_hyps 5). Qed.

Example c13_fanout_partial_guard_satisfiable : all_nack dim_state (dim2 5) mixed_q ((2, 1), (2, 2)).
Proof. exact fanout_all_nack_example. Qed.

(* ---- DimmerRootDevice::SetDmxBlockAddress as it is: the range check uses the footprints read at
   the time of the request and the apply loop cannot fail afterwards, so a NACK (wrong length, base 0,
   block beyond the bound) leaves every sub-device's start address unchanged ---- *)
Theorem c13_block_address :
  forall q l, (q_cc q = GET_COMMAND \/ q_cc q = SET_COMMAND \/ q_cc q = DISCOVER_COMMAND) ->
              good q l (set_dmx_block_address q l).
Proof. exact set_dmx_block_address_ok. Qed.
Print Assumptions c13_block_address.

(* ---- round 5: further responders proved handler by handler (no handler hypothesis left).
   Each statement holds from EVERY state (for the moving light: every state satisfying the invariant,
   which the initial state has and every request keeps), hence after every history. ---- *)
Theorem c13_sensor :
  forall c uid q st,
    let out := fst (sr_send c uid q st) in
    let st' := snd (sr_send c uid q st) in
    (exists s ro, out = [(s, ro)]) /\
    (is_broadcast (q_dst q) = true -> exists s, out = [(s, None)]) /\
    (is_broadcast (q_dst q) = false -> directed_to (q_dst q) uid = true ->
     q_cc q = GET_COMMAND \/ q_cc q = SET_COMMAND ->
     exists r, out = [(RDM_COMPLETED_OK, Some r)] /\ resp_ok q r /\
               (r_type r = RDM_NACK_REASON -> st' = st)).
Proof. exact sensor_conforms. Qed.
Print Assumptions c13_sensor.

Theorem c13_dimmer_sub :
  forall c count uid number q st,
    let out := fst (ds_send c count uid number q st) in
    let st' := snd (ds_send c count uid number q st) in
    (exists s ro, out = [(s, ro)]) /\
    (is_broadcast (q_dst q) = true -> exists s, out = [(s, None)]) /\
    (is_broadcast (q_dst q) = false -> directed_to (q_dst q) uid = true ->
     q_cc q = GET_COMMAND \/ q_cc q = SET_COMMAND ->
     exists r, out = [(RDM_COMPLETED_OK, Some r)] /\ resp_ok q r /\
               (r_type r = RDM_NACK_REASON -> st' = st)).
Proof. exact dimmer_sub_conforms. Qed.
Print Assumptions c13_dimmer_sub.

(* the root device; its state includes the sub-devices it re-addresses (DMX_BLOCK_ADDRESS) *)
Theorem c13_dimmer_root :
  forall c uid q st,
    let out := fst (dm_root_send c uid q st) in
    let st' := snd (dm_root_send c uid q st) in
    (exists s ro, out = [(s, ro)]) /\
    (is_broadcast (q_dst q) = true -> exists s, out = [(s, None)]) /\
    (is_broadcast (q_dst q) = false -> directed_to (q_dst q) uid = true ->
     q_cc q = GET_COMMAND \/ q_cc q = SET_COMMAND ->
     exists r, out = [(RDM_COMPLETED_OK, Some r)] /\ resp_ok q r /\
               (r_type r = RDM_NACK_REASON -> st' = st)).
Proof. exact dimmer_root_conforms. Qed.
Print Assumptions c13_dimmer_root.

(* moving light: GET DEVICE_HOURS / LAMP_HOURS / DEVICE_POWER_CYCLES post-increment their counter even when
   the GET is NACKed, so "NACK => state unchanged" is stated for SETs (which is what the property says) *)
Theorem c13_moving_light :
  forall c uid h q,
    let st := snd (ml_run c uid h ml_init) in
    let out := fst (ml_send c uid q st) in
    let st' := snd (ml_send c uid q st) in
    (exists s ro, out = [(s, ro)]) /\
    (is_broadcast (q_dst q) = true -> exists s, out = [(s, None)]) /\
    (is_broadcast (q_dst q) = false -> directed_to (q_dst q) uid = true ->
     q_cc q = GET_COMMAND \/ q_cc q = SET_COMMAND ->
     exists r, out = [(RDM_COMPLETED_OK, Some r)] /\ resp_ok q r /\
               (q_cc q = SET_COMMAND -> r_type r = RDM_NACK_REASON -> st' = st)).
Proof.
  exact (fun c uid h q =>
           proj2 (moving_light_conforms c uid q _ (ml_run_inv c uid h ml_init ml_init_inv))).
Qed.
Print Assumptions c13_moving_light.

(* ---- round 6: NetworkResponder and DummyResponder, with the eight E1.37-2 network helpers over an abstract
   NetworkManagerInterface.  net_ok: at most 38 interfaces (LIST_INTERFACES has no ACK_OVERFLOW). ---- *)
Theorem c13_network :
  forall c uid q st,
    6 * len (n_ifs (nc_net c)) <= MAX_PDL ->
    let out := fst (nr_send c uid q st) in
    let st' := snd (nr_send c uid q st) in
    (exists s ro, out = [(s, ro)]) /\
    (is_broadcast (q_dst q) = true -> exists s, out = [(s, None)]) /\
    (is_broadcast (q_dst q) = false -> directed_to (q_dst q) uid = true ->
     q_cc q = GET_COMMAND \/ q_cc q = SET_COMMAND ->
     exists r, out = [(RDM_COMPLETED_OK, Some r)] /\ resp_ok q r /\
               (r_type r = RDM_NACK_REASON -> st' = st)).
Proof. exact network_conforms. Qed.
Print Assumptions c13_network.

(* DummyResponder after every history, any sensors.  The request is well formed (bytes, at most 231 of them)
   and outside exactly the recorded departure C13-testdata-over-231 (known_testdata: GET TEST_DATA asking for
   232..4096 bytes, see c13_helpers_testdata_refuted); the configuration has at most 38 interfaces and URL
   strings that fit one response. *)
Theorem c13_dummy :
  forall c uid ss h q,
    (6 * len (n_ifs (dc_net c)) <= MAX_PDL /\ len (dc_url_manu c) <= MAX_PDL /\
     len (dc_url_product c) <= MAX_PDL /\ len (dc_url_firmware c) <= MAX_PDL) ->
    (bytes_ok (q_data q) = true /\ len (q_data q) <= MAX_PDL /\ known_testdata q = false) ->
    let st := snd (dr_run c uid h (dr_init ss)) in
    let out := fst (dr_send c uid q st) in
    let st' := snd (dr_send c uid q st) in
    (exists s ro, out = [(s, ro)]) /\
    (is_broadcast (q_dst q) = true -> exists s, out = [(s, None)]) /\
    (is_broadcast (q_dst q) = false -> directed_to (q_dst q) uid = true ->
     q_cc q = GET_COMMAND \/ q_cc q = SET_COMMAND ->
     exists r, out = [(RDM_COMPLETED_OK, Some r)] /\ resp_ok q r /\
               (q_cc q = SET_COMMAND -> r_type r = RDM_NACK_REASON -> st' = st)).
Proof.
  exact (fun c uid ss h q CO RQ =>
           proj2 (dummy_conforms c uid q _ CO RQ (dr_run_inv c uid h (dr_init ss) (dr_init_inv ss)))).
Qed.
Print Assumptions c13_dummy.

(* the hypotheses are met by a concrete request and configuration; the excluded region is exactly the finding *)
Example c13_dummy_hyps_satisfiable :
  (bytes_ok [0; 231] = true /\ len [0; 231] <= MAX_PDL /\
   known_testdata (mkReq 1 2 0 1 0 GET_COMMAND PID_TEST_DATA [0; 231]) = false) /\
  known_testdata (mkReq 1 2 0 1 0 GET_COMMAND PID_TEST_DATA [0; 232]) = true /\
  known_testdata (mkReq 1 2 0 1 0 GET_COMMAND PID_TEST_DATA [16; 1]) = false.
Proof. repeat split; vm_compute; congruence. Qed.

(* ---- AdvancedDimmerResponder, handler by handler (lock state / PIN, presets, fail and start-up modes, the four
   setting managers), from every state: no handler hypothesis, no invariant needed ---- *)
Theorem c13_advanced_dimmer :
  forall c uid q st,
    let out := fst (ad_send c uid q st) in
    let st' := snd (ad_send c uid q st) in
    (exists s ro, out = [(s, ro)]) /\
    (is_broadcast (q_dst q) = true -> exists s, out = [(s, None)]) /\
    (is_broadcast (q_dst q) = false -> directed_to (q_dst q) uid = true ->
     q_cc q = GET_COMMAND \/ q_cc q = SET_COMMAND ->
     exists r, out = [(RDM_COMPLETED_OK, Some r)] /\ resp_ok q r /\
               (r_type r = RDM_NACK_REASON -> st' = st)).
Proof. exact advanced_dimmer_conforms. Qed.
Print Assumptions c13_advanced_dimmer.

(* whatever the lock state and PIN, a request that is not a unicast to this responder gets no response ... *)
Theorem c13_advanced_dimmer_locked_silent :
  forall c uid q st,
    is_broadcast (q_dst q) = true \/ directed_to (q_dst q) uid = false ->
    exists s, fst (ad_send c uid q st) = [(s, None)].
Proof. exact advanced_dimmer_locked_silent. Qed.
Print Assumptions c13_advanced_dimmer_locked_silent.

(* ... and a unicast SET of a locked parameter is NACKed NR_WRITE_PROTECT with the state untouched *)
Theorem c13_advanced_dimmer_write_protect :
  forall c uid q st,
    is_broadcast (q_dst q) = false -> directed_to (q_dst q) uid = true -> q_cc q = SET_COMMAND ->
    q_sub q = ROOT_RDM_DEVICE ->
    (q_pid q = PID_DMX_START_ADDRESS /\ 0 < ad_lock st) \/ (q_pid q = PID_DMX_PERSONALITY /\ 1 < ad_lock st) ->
    ad_send c uid q st = ([(RDM_COMPLETED_OK, nack_with_reason q NR_WRITE_PROTECT 0)], st).
Proof. exact advanced_dimmer_write_protect. Qed.
Print Assumptions c13_advanced_dimmer_write_protect.

(* the lock states are reachable: SET LOCK_STATE with the right PIN *)
Example c13_advanced_dimmer_lock_reachable :
  ad_lock (snd (ad_send (mkCfg [] [] [] []) 5 (mkReq 9 5 1 1 0 SET_COMMAND 1601 [0; 0; 2]) ad_init)) = 2.
Proof. vm_compute. reflexivity. Qed.

(* the composite DimmerResponder (root + SubDeviceDispatcher + sub-devices, handlers as modelled): every request,
   in every state, is completed exactly once and no deleted fan-out tracker is touched *)
Theorem c13_dimmer_once :
  forall c uid q st, len (dm_subs st) < 65536 -> exists r st', dm_send c uid q st = FOk [r] st'.
Proof. exact dimmer_once. Qed.
Print Assumptions c13_dimmer_once.

(* ---- the composite DimmerResponder as one statement (c13_sensor shape): root device, SubDeviceDispatcher and the
   sub-devices with their modelled handlers.  Every request in every state: exactly one completion; broadcast /
   vendorcast: no response; unicast GET/SET: (COMPLETED_OK, Some r) with resp_ok; a NACK leaves the whole dimmer
   unchanged -- except for SETs fanned out to ALL_RDM_SUBDEVICES, which is exactly the known finding
   C13-fanout-mixed-nack (c13_fanout_mixed_refuted; c13_fanout_partial says when it cannot happen). ---- *)
Theorem c13_dimmer :
  forall c uid q st,
    len (dm_subs st) < 65536 ->
    exists r st', dm_send c uid q st = FOk [r] st' /\
      (is_broadcast (q_dst q) = true -> snd r = None) /\
      (is_broadcast (q_dst q) = false -> directed_to (q_dst q) uid = true ->
       q_cc q = GET_COMMAND \/ q_cc q = SET_COMMAND ->
       exists rr, r = (RDM_COMPLETED_OK, Some rr) /\ resp_ok q rr /\
                  (q_sub q <> ALL_RDM_SUBDEVICES -> r_type rr = RDM_NACK_REASON -> st' = st)).
Proof. exact dimmer_conforms. Qed.
Print Assumptions c13_dimmer.

Example c13_dimmer_example :
  dm_send (mkCfg [] [] [] []) 5 (mkReq 9 5 1 1 2 SET_COMMAND PID_DMX_START_ADDRESS [1; 0]) (dm_init 4) =
  FOk [(RDM_COMPLETED_OK, Some (mkResp 5 9 1 RDM_ACK 0 2 SET_COMMAND_RESPONSE PID_DMX_START_ADDRESS []))]
      (mkDM false IDENTIFY_MODE_LOUD [ds_init 1; mkDS 1 256 false IDENTIFY_MODE_LOUD; ds_init 3; ds_init 4]).
Proof. vm_compute. reflexivity. Qed.

(* the modelled handler tables have exactly the PIDs and GET/SET handlers of the PARAM_HANDLERS arrays
   (GenTables.v is regenerated from the sources on every run) *)
Theorem c13_tables :
  forall c mc n nc dc,
    shape (sr_table c) = TBL_SensorResponder /\ shape (ds_table c n) = TBL_DimmerSubDevice /\
    shape (dm_table c) = TBL_DimmerRootDevice /\ shape (at_table c) = TBL_AckTimerResponder /\
    shape (ml_table mc) = TBL_MovingLightResponder /\ shape (nr_table nc) = TBL_NetworkResponder /\
    shape (dr_table dc) = TBL_DummyResponder /\ shape (ad_table c) = TBL_AdvancedDimmerResponder.
Proof.
  exact (fun c mc n nc dc => conj eq_refl (conj eq_refl (conj eq_refl (conj eq_refl (conj eq_refl
                             (conj eq_refl (conj eq_refl eq_refl))))))).
Qed.
Print Assumptions c13_tables.

(* the advanced dimmer's private constants and tables are regenerated from AdvancedDimmerResponder.cpp into GenTables.v
   and used by the model; this pins what the proofs rely on: six presets (the initial state), three curves / four response
   times / three lock states / five PWM frequencies whose descriptions fit their field, one personality, and the
   level / time windows reported in DIMMER_INFO and PRESET_INFO *)
Theorem c13_adv_consts :
  ADV_PRESET_COUNT = len (ad_presets ad_init) /\
  len ADV_CURVES = 3 /\ len ADV_RESPONSE_TIMES = 4 /\ len ADV_LOCK_STATES = 3 /\ len ADV_PWM_FREQUENCIES = 5 /\
  forallb (fun fd => len (snd fd) <=? MAX_RDM_STRING_LENGTH) ADV_PWM_FREQUENCIES = true /\
  len ADV_PERSONALITIES = 1 /\
  (ADV_LOWER_MIN_LEVEL, ADV_UPPER_MIN_LEVEL, ADV_LOWER_MAX_LEVEL, ADV_UPPER_MAX_LEVEL) = (0, 32767, 32767, 65535) /\
  (ADV_MIN_FAIL_DELAY_TIME, ADV_MAX_FAIL_DELAY_TIME, ADV_MIN_FAIL_HOLD_TIME, ADV_MAX_FAIL_HOLD_TIME) = (10, 255, 0, 65280) /\
  (ADV_MIN_STARTUP_DELAY_TIME, ADV_MAX_STARTUP_DELAY_TIME, ADV_MIN_STARTUP_HOLD_TIME, ADV_MAX_STARTUP_HOLD_TIME) =
  (0, 1200, 0, 36000) /\
  ADV_INFINITE_TIME = 65535 /\ ADV_DIMMER_RESOLUTION = 14.
Proof.
  exact (conj eq_refl (conj eq_refl (conj eq_refl (conj eq_refl (conj eq_refl (conj eq_refl (conj eq_refl
        (conj eq_refl (conj eq_refl (conj eq_refl (conj eq_refl eq_refl))))))))))).
Qed.
Print Assumptions c13_adv_consts.

(* the literal numbers of the property text *)
Theorem c13_constants :
  MAX_PDL = 231 /\ RDM_WAS_BROADCAST = 1 /\ RDM_COMPLETED_OK = 0 /\ ALL_RDM_SUBDEVICES = 65535 /\
  GET_COMMAND_RESPONSE = GET_COMMAND + 1 /\ SET_COMMAND_RESPONSE = SET_COMMAND + 1 /\
  NR_INVALID_PORT = 19 /\ DMX_UNIVERSE_SIZE = 512.
Proof. exact (conj eq_refl (conj eq_refl (conj eq_refl (conj eq_refl (conj eq_refl (conj eq_refl (conj eq_refl eq_refl))))))). Qed.
Print Assumptions c13_constants.
