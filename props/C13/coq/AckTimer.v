(* C13 — executable model of AckTimerResponder (common/rdm/AckTimerResponder.cpp): the queue / timer
   state machine (SET -> ACK_TIMER + a message that becomes available 400 ms later, GET QUEUED_MESSAGE
   delivery, STATUS_GET_LAST_MESSAGE) on top of the ResponderOps dispatch of Model.v.
   Time is the responder's monotonic clock in microseconds. *)
From OlaBase Require Import Bytes.
From C13 Require Import Gen Model.
Local Open Scope N_scope.

(* class QueuedResponse *)
Record qmsg := mkQ { qm_valid : N; qm_pid : N; qm_cc : N; qm_data : list N }.

(* the strings the label GETs return (string literals / VERSION of the build) *)
Record at_cfg := mkCfg { c_model : list N; c_manu : list N; c_label : list N; c_version : list N }.

Record at_state := mkAT {
  at_now : N;                       (* what m_clock.CurrentMonotonicTime returns during this request *)
  at_start : N; at_ident : bool; at_active : N;
  at_upcoming : list qmsg;          (* m_upcoming_queued_messages *)
  at_queued : list qmsg;            (* m_queued_messages, front first *)
  at_last : option qmsg }.          (* m_last_queued_message *)

Definition ACK_TIMER_US : N := 400000.      (* ACK_TIMER_MS = 400 *)
Definition ACK_TIME_FIELD : N := 5.         (* 1 + ACK_TIMER_MS / 100 *)

Definition at_pers : list pers :=
  [ mkPers 0 (* "Personality 1" *) [80; 101; 114; 115; 111; 110; 97; 108; 105; 116; 121; 32; 49] []; mkPers 5 (* "Personality 2" *) [80; 101; 114; 115; 111; 110; 97; 108; 105; 116; 121; 32; 50] [];
    mkPers 10 (* "Personality 3" *) [80; 101; 114; 115; 111; 110; 97; 108; 105; 116; 121; 32; 51] []; mkPers 20 (* "Personality 4" *) [80; 101; 114; 115; 111; 110; 97; 108; 105; 116; 121; 32; 52] [] ].

Definition at_init : at_state := mkAT 0 1 false 1 [] [] None.

(* QueuedMessageCount: size > MAX_QUEUED_MESSAGE_COUNT ? MAX_QUEUED_MESSAGE_COUNT : size *)
Definition qcount (st : at_state) : N :=
  if MAX_QUEUED_MESSAGE_COUNT <? len (at_queued st) then MAX_QUEUED_MESSAGE_COUNT else len (at_queued st).

(* QueueAnyNewMessages: IsValid(now) = now >= m_valid_after *)
Definition is_valid (now : N) (m : qmsg) : bool := qm_valid m <=? now.
Definition queue_new (st : at_state) : at_state :=
  mkAT (at_now st) (at_start st) (at_ident st) (at_active st)
       (filter (fun m => negb (is_valid (at_now st) m)) (at_upcoming st))
       (at_queued st ++ filter (is_valid (at_now st)) (at_upcoming st))
       (at_last st).

(* ResponseFromQueuedMessage; None = NULL *)
Definition response_from_queued (q : request) (st : at_state) (m : qmsg) : option response :=
  if qm_cc m =? GET_COMMAND_RESPONSE then
    Some (mkResp (q_dst q) (q_src q) (q_tn q) RDM_ACK (qcount st) ROOT_RDM_DEVICE
                 GET_COMMAND_RESPONSE (qm_pid m) (qm_data m))
  else if qm_cc m =? SET_COMMAND_RESPONSE then
    Some (mkResp (q_dst q) (q_src q) (q_tn q) RDM_ACK (qcount st) ROOT_RDM_DEVICE
                 SET_COMMAND_RESPONSE (qm_pid m) (qm_data m))
  else None.

Definition empty_status (q : request) (st : at_state) : option response :=
  get_response_with_pid q PID_STATUS_MESSAGES [] RDM_ACK (qcount st).

(* handlers return None for NULL; an out-of-range read in Extract* (EOob) is mapped to None as well and
   shown impossible together with it *)
Definition at_get_queued : handler at_state := fun q st =>
  match extract 1 q with
  | EOob => (None, st)
  | EBad => (nack_with_reason q NR_FORMAT_ERROR (qcount st), st)
  | EVal s =>
    match at_queued st with
    | [] => (empty_status q st, st)
    | m :: rest =>
      if s =? STATUS_GET_LAST_MESSAGE then
        match at_last st with
        | Some l => (response_from_queued q st l, st)
        | None => (empty_status q st, st)
        end
      else
        let st' := mkAT (at_now st) (at_start st) (at_ident st) (at_active st) (at_upcoming st)
                        rest (Some m) in
        (response_from_queued q st' m, st')     (* the count is read after the pop *)
    end
  end.

Definition at_fp (st : at_state) : N := active_fp at_pers (at_active st).

Definition at_get_device_info : handler at_state := fun q st =>
  (get_device_info q OLA_ACK_TIMER_MODEL PRODUCT_CATEGORY_TEST 1 (at_fp st) (at_active st)
                   (u8 (len at_pers))
                   (if at_fp st =? 0 then ZERO_FOOTPRINT_DMX_ADDRESS else at_start st) 0 0 (qcount st), st).

Definition at_get_string (f : at_cfg -> list N) (c : at_cfg) : handler at_state := fun q st =>
  (get_string q (f c) (qcount st) MAX_RDM_STRING_LENGTH, st).

Definition at_get_personality : handler at_state := fun q st =>
  (get_personality q at_pers (at_active st) (qcount st), st).
Definition at_set_personality : handler at_state := fun q st =>
  match set_personality q at_pers (at_active st) (at_start st) (qcount st) with
  | HOob => (None, st)
  | HR r a => (r, mkAT (at_now st) (at_start st) (at_ident st) a (at_upcoming st) (at_queued st) (at_last st))
  end.
Definition at_get_personality_description : handler at_state := fun q st =>
  match get_personality_description q at_pers (qcount st) with
  | HOob => (None, st)
  | HR r _ => (r, st)
  end.
Definition at_get_start : handler at_state := fun q st =>
  (get_dmx_address q at_pers (at_active st) (at_start st) (qcount st), st).

Definition ack_timer_response (q : request) (st : at_state) : option response :=
  get_response_from_data q (be_bytes 2 ACK_TIME_FIELD) RDM_ACK_TIMER (qcount st).
Definition push_upcoming (st : at_state) (pid : N) : list qmsg :=
  at_upcoming st ++ [mkQ (at_now st + ACK_TIMER_US) pid SET_COMMAND_RESPONSE []].

(* AckTimerResponder::SetDmxStartAddress *)
Definition at_set_start : handler at_state := fun q st =>
  match extract 2 q with
  | EOob => (None, st)
  | EBad => (nack_with_reason q NR_FORMAT_ERROR (qcount st), st)
  | EVal a =>
    let end_address := u16 (1 + DMX_UNIVERSE_SIZE + 65536 - at_fp st) in
    if (a =? 0) || (end_address <? a) then (nack_with_reason q NR_DATA_OUT_OF_RANGE (qcount st), st)
    else if at_fp st =? 0 then (nack_with_reason q NR_DATA_OUT_OF_RANGE (qcount st), st)
    else
      let st' := mkAT (at_now st) a (at_ident st) (at_active st) (push_upcoming st PID_DMX_START_ADDRESS)
                      (at_queued st) (at_last st) in
      (ack_timer_response q st', st')
  end.

Definition at_get_identify : handler at_state := fun q st =>
  (get_bool q (at_ident st) (qcount st), st).
(* AckTimerResponder::SetIdentify *)
Definition at_set_identify : handler at_state := fun q st =>
  match extract 1 q with
  | EOob => (None, st)
  | EBad => (nack_with_reason q NR_FORMAT_ERROR (qcount st), st)
  | EVal a =>
    if negb (a =? 0) && negb (a =? 1) then (nack_with_reason q NR_DATA_OUT_OF_RANGE (qcount st), st)
    else
      let st' := mkAT (at_now st) (at_start st) (a =? 1) (at_active st)
                      (push_upcoming st PID_IDENTIFY_DEVICE) (at_queued st) (at_last st) in
      (ack_timer_response q st', st')
  end.

(* PARAM_HANDLERS as ResponderOps stores them (std::map order = ascending PID) *)
Definition at_table (c : at_cfg) : table at_state :=
  [ (PID_QUEUED_MESSAGE, mkEntry (Some at_get_queued) None);
    (PID_SUPPORTED_PARAMETERS, mkEntry None None);
    (PID_DEVICE_INFO, mkEntry (Some at_get_device_info) None);
    (PID_DEVICE_MODEL_DESCRIPTION, mkEntry (Some (at_get_string c_model c)) None);
    (PID_MANUFACTURER_LABEL, mkEntry (Some (at_get_string c_manu c)) None);
    (PID_DEVICE_LABEL, mkEntry (Some (at_get_string c_label c)) None);
    (PID_SOFTWARE_VERSION_LABEL, mkEntry (Some (at_get_string c_version c)) None);
    (PID_DMX_PERSONALITY, mkEntry (Some at_get_personality) (Some at_set_personality));
    (PID_DMX_PERSONALITY_DESCRIPTION, mkEntry (Some at_get_personality_description) None);
    (PID_DMX_START_ADDRESS, mkEntry (Some at_get_start) (Some at_set_start));
    (PID_IDENTIFY_DEVICE, mkEntry (Some at_get_identify) (Some at_set_identify)) ].

(* AckTimerResponder::SendRDMRequest at clock reading `now` *)
Definition at_send (c : at_cfg) (uid : N) (now : N) (q : request) (st : at_state)
  : list reply * at_state :=
  let st0 := mkAT now (at_start st) (at_ident st) (at_active st) (at_upcoming st) (at_queued st)
                  (at_last st) in
  dispatch at_state false (at_table c) uid ROOT_RDM_DEVICE q (queue_new st0).

(* a history: clock reading and request of every call, oldest first *)
Fixpoint at_run (c : at_cfg) (uid : N) (h : list (N * request)) (st : at_state)
  : list (list reply) * at_state :=
  match h with
  | [] => ([], st)
  | (now, q) :: rest =>
    let (out, st1) := at_send c uid now q st in
    let (outs, st2) := at_run c uid rest st1 in
    (out :: outs, st2)
  end.

(* the parameters readable through GETs *)
Definition at_params (st : at_state) : N * bool * N := (at_start st, at_ident st, at_active st).
