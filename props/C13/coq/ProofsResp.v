(* C13 — whole responders: SensorResponder, DimmerSubDevice, DimmerRootDevice.  Generic part: a
   responder is a handler table on the ResponderOps dispatch; if every installed handler answers
   conformantly and keeps the state on a NACK, every request is answered conformantly. *)
From OlaBase Require Import Bytes.
From C13 Require Import Gen GenTables Model AckTimer Responders Chk Proofs ProofsHelpers.
Local Open Scope N_scope.

Definition hresp_g {S} (q : request) (x : option response * S) : Prop :=
  exists r, fst x = Some r /\ resp_ok q r.
(* NACK => the state is the one before the call *)
Definition hkeeps_g {S} (st : S) (x : option response * S) : Prop :=
  forall r, fst x = Some r -> r_type r = RDM_NACK_REASON -> snd x = st.

Definition shape {S} (t : table S) : list (N * (bool * bool)) :=
  map (fun e => (fst e, (match e_get (snd e) with Some _ => true | None => false end,
                         match e_set (snd e) with Some _ => true | None => false end))) t.

Section Generic.
  Variable S : Type.
  Variables (incl : bool) (t : table S) (uid sd : N).
  Hypothesis small : 2 * len t <= MAX_PDL.
  Hypothesis HR : forall q st e h, lookup S t (q_pid q) = Some e ->
    ((q_cc q = GET_COMMAND /\ e_get e = Some h) \/ (q_cc q = SET_COMMAND /\ e_set e = Some h)) ->
    hresp_g q (h q st).
  Hypothesis HK : forall q st e h, lookup S t (q_pid q) = Some e ->
    ((q_cc q = GET_COMMAND /\ e_get e = Some h) \/ (q_cc q = SET_COMMAND /\ e_set e = Some h)) ->
    hkeeps_g st (h q st).

  Lemma resp_send_ok q st :
    let out := fst (dispatch S incl t uid sd q st) in
    let st' := snd (dispatch S incl t uid sd q st) in
    (exists s ro, out = [(s, ro)]) /\
    (is_broadcast (q_dst q) = true -> exists s, out = [(s, None)]) /\
    (is_broadcast (q_dst q) = false -> directed_to (q_dst q) uid = true ->
     q_cc q = GET_COMMAND \/ q_cc q = SET_COMMAND ->
     exists r, out = [(RDM_COMPLETED_OK, Some r)] /\ resp_ok q r /\
               (r_type r = RDM_NACK_REASON -> st' = st)).
  Proof.
    cbn zeta. pose proof (dispatch_state S incl t uid sd q st) as DS.
    split; [apply dispatch_once|]. split.
    - intros B. destruct (dispatch_broadcast S incl t uid sd q st B) as (s & E & _). eauto.
    - intros B D CC.
      destruct (dispatch_unicast_at S incl t uid sd q st) as (r & E & O); auto.
      + intros e h L H. apply (HR q st e h L H).
      + exists r. split; [exact E|]. split; [exact O|]. intros T.
        destruct DS as [E2|(e & h & L & H & E2 & E3)]; [exact E2|].
        rewrite E2. specialize (E3 B). rewrite E3 in E. inversion E as [E4].
        apply (HK q st e h L H r); auto.
  Qed.
End Generic.

(* ---- glue between helper results and handlers ---- *)
Lemma good_r_resp_g {S} q x (st : S) : good_r q x -> hresp_g q (x, st).
Proof. destruct x as [r|]; cbn; [|tauto]. intros H. exists r. auto. Qed.
Lemma keeps_same_g {S} x (st : S) : hkeeps_g st (x, st).
Proof. intros r _ _. reflexivity. Qed.
Lemma lift_resp {S A} q (x : hres A) a (st : S) upd : good q a x -> hresp_g q (lift_set x st upd).
Proof.
  destruct x as [|[r|] a']; cbn; try tauto. intros (O & _). exists r. auto.
Qed.
Lemma lift_keeps {S A} q (x : hres A) a (st : S) upd :
  good q a x -> upd a = st -> hkeeps_g st (lift_set x st upd).
Proof.
  destruct x as [|[r|] a']; cbn; try tauto. intros (_ & K) U r0 E T. cbn in *.
  inversion E; subst r0. rewrite (K T). exact U.
Qed.

(* ---- helpers first used here ---- *)
Lemma get_product_detail_list_ok q l mc :
  wf_cc q -> 2 * len l <= MAX_PDL -> good_r q (get_product_detail_list q l mc).
Proof.
  intros W L. unfold get_product_detail_list. destruct (negb (len (q_data q) =? 0)).
  - apply good_r_nack; [exact W|vm_compute; discriminate].
  - apply good_r_ack; [exact W|]. rewrite len_flat_be2. exact L.
Qed.
Lemma set_identify_mode_ok q old : wf_cc q -> good q old (set_identify_mode q old).
Proof.
  intros W. unfold set_identify_mode. pose proof (extract_not_oob 1 q).
  destruct (extract 1 q) as [| |v]; [congruence| |].
  - apply good_nack; [exact W|vm_compute; discriminate].
  - destruct (negb (v =? IDENTIFY_MODE_QUIET) && negb (v =? IDENTIFY_MODE_LOUD)).
    + apply good_nack; [exact W|vm_compute; discriminate].
    + apply good_ack; [exact W|vm_compute; discriminate].
Qed.
Lemma get_dmx_block_address_ok q l : wf_cc q -> good_r q (get_dmx_block_address q l).
Proof.
  intros W. unfold get_dmx_block_address. destruct (negb (len (q_data q) =? 0)).
  - apply good_r_nack; [exact W|vm_compute; discriminate].
  - destruct (block_scan l 0 0 0) as [b tt0].
    change (get_response_from_data q (be_bytes 2 tt0 ++ be_bytes 2 b) RDM_ACK 0)
      with (ack q (be_bytes 2 tt0 ++ be_bytes 2 b) 0).
    apply good_r_ack; [exact W|]. rewrite len_app, !len_be_bytes. vm_compute. discriminate.
Qed.

Ltac goodlem W :=
  first [ apply get_device_info_ok
        | apply get_product_detail_list_ok; [|vm_compute; discriminate]
        | apply get_string_ok; [|left; vm_compute; discriminate]
        | apply get_bool_ok | apply set_bool_ok
        | apply get_sensor_definition_ok | apply get_sensor_value_ok
        | apply set_sensor_value_ok | apply record_sensor_ok
        | apply get_personality_ok | apply set_personality_ok | apply get_personality_description_ok
        | apply get_uint_ok; [|lia] | apply set_dmx_address_ok | apply set_identify_mode_ok
        | apply get_dmx_block_address_ok | apply set_dmx_block_address_ok ];
  exact W.

Ltac pick L :=
  cbn [lookup] in L;
  repeat match type of L with
         | (if ?c then _ else _) = _ => destruct c
         end;
  try discriminate L; inversion L; subst; clear L.

Ltac solve_resp W :=
  first [ apply good_r_resp_g; goodlem W
        | eapply lift_resp; goodlem W ].
Ltac solve_keeps W :=
  first [ apply keeps_same_g
        | eapply lift_keeps; [goodlem W | try (match goal with |- _ = ?s => destruct s; reflexivity end)] ].

(* ======================= SensorResponder ======================= *)
Lemma sr_table_shape c : shape (sr_table c) = TBL_SensorResponder.
Proof. reflexivity. Qed.

Lemma sr_HR c q st e h :
  lookup sr_state (sr_table c) (q_pid q) = Some e ->
  ((q_cc q = GET_COMMAND /\ e_get e = Some h) \/ (q_cc q = SET_COMMAND /\ e_set e = Some h)) ->
  hresp_g q (h q st).
Proof.
  intros L H. assert (W : wf_cc q) by (destruct H as [[H _]|[H _]]; [left|right; left]; exact H).
  unfold sr_table in L. pick L;
    destruct H as [[CC G]|[CC G]]; cbn in G; try discriminate G; inversion G; subst; clear G;
    unfold sr_device_info, sr_product_detail, str_handler, sr_sensor_definition, sr_get_sensor_value,
           sr_set_sensor_value, sr_record_sensor, sr_get_identify, sr_set_identify;
    solve_resp W.
Qed.
Lemma sr_HK c q st e h :
  lookup sr_state (sr_table c) (q_pid q) = Some e ->
  ((q_cc q = GET_COMMAND /\ e_get e = Some h) \/ (q_cc q = SET_COMMAND /\ e_set e = Some h)) ->
  hkeeps_g st (h q st).
Proof.
  intros L H. assert (W : wf_cc q) by (destruct H as [[H _]|[H _]]; [left|right; left]; exact H).
  unfold sr_table in L. pick L;
    destruct H as [[CC G]|[CC G]]; cbn in G; try discriminate G; inversion G; subst; clear G;
    unfold sr_device_info, sr_product_detail, str_handler, sr_sensor_definition, sr_get_sensor_value,
           sr_set_sensor_value, sr_record_sensor, sr_get_identify, sr_set_identify;
    solve_keeps W.
Qed.

Lemma sensor_conforms c uid q st :
  let out := fst (sr_send c uid q st) in
  let st' := snd (sr_send c uid q st) in
  (exists s ro, out = [(s, ro)]) /\
  (is_broadcast (q_dst q) = true -> exists s, out = [(s, None)]) /\
  (is_broadcast (q_dst q) = false -> directed_to (q_dst q) uid = true ->
   q_cc q = GET_COMMAND \/ q_cc q = SET_COMMAND ->
   exists r, out = [(RDM_COMPLETED_OK, Some r)] /\ resp_ok q r /\
             (r_type r = RDM_NACK_REASON -> st' = st)).
Proof.
  apply resp_send_ok.
  - vm_compute. discriminate.
  - intros q0 st0 e h. apply sr_HR.
  - intros q0 st0 e h. apply sr_HK.
Qed.

(* ======================= DimmerSubDevice ======================= *)
Lemma ds_table_shape c n : shape (ds_table c n) = TBL_DimmerSubDevice.
Proof. reflexivity. Qed.

Lemma ds_HR c n q st e h :
  lookup ds_state (ds_table c n) (q_pid q) = Some e ->
  ((q_cc q = GET_COMMAND /\ e_get e = Some h) \/ (q_cc q = SET_COMMAND /\ e_set e = Some h)) ->
  hresp_g q (h q st).
Proof.
  intros L H. assert (W : wf_cc q) by (destruct H as [[H _]|[H _]]; [left|right; left]; exact H).
  unfold ds_table in L. pick L;
    destruct H as [[CC G]|[CC G]]; cbn in G; try discriminate G; inversion G; subst; clear G;
    unfold ds_device_info, ds_product_detail, str_handler, ds_get_personality, ds_set_personality,
           ds_personality_description, ds_get_start, ds_set_start, ds_get_identify, ds_set_identify,
           ds_get_mode, ds_set_mode;
    solve_resp W.
Qed.
Lemma ds_HK c n q st e h :
  lookup ds_state (ds_table c n) (q_pid q) = Some e ->
  ((q_cc q = GET_COMMAND /\ e_get e = Some h) \/ (q_cc q = SET_COMMAND /\ e_set e = Some h)) ->
  hkeeps_g st (h q st).
Proof.
  intros L H. assert (W : wf_cc q) by (destruct H as [[H _]|[H _]]; [left|right; left]; exact H).
  unfold ds_table in L. pick L;
    destruct H as [[CC G]|[CC G]]; cbn in G; try discriminate G; inversion G; subst; clear G;
    unfold ds_device_info, ds_product_detail, str_handler, ds_get_personality, ds_set_personality,
           ds_personality_description, ds_get_start, ds_set_start, ds_get_identify, ds_set_identify,
           ds_get_mode, ds_set_mode;
    solve_keeps W.
Qed.

Lemma dimmer_sub_conforms c n uid number q st :
  let out := fst (ds_send c n uid number q st) in
  let st' := snd (ds_send c n uid number q st) in
  (exists s ro, out = [(s, ro)]) /\
  (is_broadcast (q_dst q) = true -> exists s, out = [(s, None)]) /\
  (is_broadcast (q_dst q) = false -> directed_to (q_dst q) uid = true ->
   q_cc q = GET_COMMAND \/ q_cc q = SET_COMMAND ->
   exists r, out = [(RDM_COMPLETED_OK, Some r)] /\ resp_ok q r /\
             (r_type r = RDM_NACK_REASON -> st' = st)).
Proof.
  apply resp_send_ok.
  - vm_compute. discriminate.
  - intros q0 st0 e h. apply ds_HR.
  - intros q0 st0 e h. apply ds_HK.
Qed.

(* ======================= DimmerRootDevice ======================= *)
Lemma dm_table_shape c : shape (dm_table c) = TBL_DimmerRootDevice.
Proof. reflexivity. Qed.

Lemma dm_device_info_resp q st : wf_cc q -> hresp_g q (dm_device_info q st).
Proof.
  intros W. unfold dm_device_info. apply good_r_resp_g.
  destruct (negb (len (q_data q) =? 0)).
  - apply good_r_nack; [exact W|vm_compute; discriminate].
  - apply get_device_info_ok. exact W.
Qed.

Lemma put_starts_same subs : put_starts subs (map (fun s => (ds_fp s, ds_start s)) subs) = subs.
Proof. induction subs as [|s r IH]; [reflexivity|]. cbn. rewrite IH. destruct s; reflexivity. Qed.

Lemma dm_HR c q st e h :
  lookup dm_state (dm_table c) (q_pid q) = Some e ->
  ((q_cc q = GET_COMMAND /\ e_get e = Some h) \/ (q_cc q = SET_COMMAND /\ e_set e = Some h)) ->
  hresp_g q (h q st).
Proof.
  intros L H. assert (W : wf_cc q) by (destruct H as [[H _]|[H _]]; [left|right; left]; exact H).
  unfold dm_table in L. pick L;
    destruct H as [[CC G]|[CC G]]; cbn in G; try discriminate G; inversion G; subst; clear G;
    try (apply dm_device_info_resp; exact W);
    unfold dm_product_detail, str_handler, dm_get_identify, dm_set_identify, dm_get_block, dm_set_block,
           dm_get_mode, dm_set_mode;
    solve_resp W.
Qed.
Lemma dm_HK c q st e h :
  lookup dm_state (dm_table c) (q_pid q) = Some e ->
  ((q_cc q = GET_COMMAND /\ e_get e = Some h) \/ (q_cc q = SET_COMMAND /\ e_set e = Some h)) ->
  hkeeps_g st (h q st).
Proof.
  intros L H. assert (W : wf_cc q) by (destruct H as [[H _]|[H _]]; [left|right; left]; exact H).
  unfold dm_table in L. pick L;
    destruct H as [[CC G]|[CC G]]; cbn in G; try discriminate G; inversion G; subst; clear G;
    unfold dm_device_info, dm_product_detail, str_handler, dm_get_identify, dm_set_identify, dm_get_block,
           dm_set_block, dm_get_mode, dm_set_mode;
    first [ apply keeps_same_g
          | eapply lift_keeps; [goodlem W | first [ destruct st; reflexivity
                                                  | unfold dm_dsubs; rewrite put_starts_same; destruct st; reflexivity ] ] ].
Qed.

Lemma dimmer_root_conforms c uid q st :
  let out := fst (dm_root_send c uid q st) in
  let st' := snd (dm_root_send c uid q st) in
  (exists s ro, out = [(s, ro)]) /\
  (is_broadcast (q_dst q) = true -> exists s, out = [(s, None)]) /\
  (is_broadcast (q_dst q) = false -> directed_to (q_dst q) uid = true ->
   q_cc q = GET_COMMAND \/ q_cc q = SET_COMMAND ->
   exists r, out = [(RDM_COMPLETED_OK, Some r)] /\ resp_ok q r /\
             (r_type r = RDM_NACK_REASON -> st' = st)).
Proof.
  apply resp_send_ok.
  - vm_compute. discriminate.
  - intros q0 st0 e h. apply dm_HR.
  - intros q0 st0 e h. apply dm_HK.
Qed.
