(* C13 — the E1.37-2 network helpers of ResponderHelper (GetListInterfaces, GetInterfaceLabel,
   GetInterfaceHardwareAddressType1, GetIPV4CurrentAddress, GetIPV4DefaultRoute, GetDNSHostname,
   GetDNSDomainName, GetDNSNameServer) over an abstract NetworkManagerInterface, and NetworkResponder. *)
From OlaBase Require Import Bytes.
From C13 Require Import Gen GenTables Model AckTimer Responders.
Local Open Scope N_scope.

(* ola::network::Interface as the helpers see it.  index is the int32_t bit pattern; addresses are the
   32-bit values whose big-endian bytes go on the wire; dhcp is what GetDHCPStatus answers for it *)
Record iface := mkIf { if_name : list N; if_ip : N; if_mask : N; if_hw : list N; if_index : N;
                       if_type : N; if_dhcp : N }.
(* what the NetworkManagerInterface answers; None = the call returned false *)
Record netcfg := mkNet { n_ifs : list iface; n_route : option (N * N);   (* if_index pattern, gateway *)
                         n_host : list N; n_domain : list N; n_dns : option (list N) }.

Definition s32 (x : N) : N := (x + 2147483648) mod 4294967296.    (* order-preserving for int32_t *)
Definition index_valid (i : N) : bool := (MIN_RDM_INTERFACE_INDEX <=? i) && (i <=? MAX_RDM_INTERFACE_INDEX).

(* std::sort with InterfaceIndexOrdering (signed); the harness uses distinct indices *)
Fixpoint insert_if (x : iface) (l : list iface) : list iface :=
  match l with
  | [] => [x]
  | y :: r => if s32 (if_index y) <=? s32 (if_index x) then y :: insert_if x r else x :: y :: r
  end.
Fixpoint sort_ifs (l : list iface) : list iface :=
  match l with [] => [] | x :: r => insert_if x (sort_ifs r) end.

(* InterfacePicker::ChooseInterface(iface, index, specific_only) after IsInterfaceIndexValid *)
Fixpoint find_if (l : list iface) (i : N) : option iface :=
  match l with [] => None | x :: r => if if_index x =? i then Some x else find_if r i end.
Definition find_interface (n : netcfg) (i : N) : option iface :=
  if negb (index_valid i) then None else find_if (n_ifs n) i.

Definition get_list_interfaces (q : request) (n : netcfg) (mc : N) : option response :=
  if negb (len (q_data q) =? 0) then nack_with_reason q NR_FORMAT_ERROR mc else
  match n_ifs n with
  | [] => ack q [] mc
  | _ =>
    (* sorted, then stable_partition: the valid ones first, interface_count of them are reported *)
    let valid := filter (fun x => index_valid (if_index x)) (sort_ifs (n_ifs n)) in
    ack q (flat_map (fun x => be_bytes 4 (if_index x) ++ be_bytes 2 (if_type x)) valid) mc
  end.

Definition get_interface_label (q : request) (n : netcfg) (mc : N) : hres unit :=
  match extract 4 q with
  | EOob => HOob
  | EBad => HR (nack_with_reason q NR_FORMAT_ERROR 0) tt
  | EVal i =>
    match find_interface n i with
    | None => HR (nack_with_reason q NR_DATA_OUT_OF_RANGE 0) tt
    | Some x => HR (ack q (be_bytes 4 (if_index x) ++ str_trunc (if_name x) MAX_RDM_STRING_LENGTH) mc) tt
    end
  end.

Definition get_interface_hw (q : request) (n : netcfg) (mc : N) : hres unit :=
  match extract 4 q with
  | EOob => HOob
  | EBad => HR (nack_with_reason q NR_FORMAT_ERROR 0) tt
  | EVal i =>
    match find_interface n i with
    | None => HR (nack_with_reason q NR_DATA_OUT_OF_RANGE 0) tt
    | Some x => if negb (if_type x =? ARP_ETHERNET_TYPE) then HR (nack_with_reason q NR_DATA_OUT_OF_RANGE 0) tt
                else HR (ack q (be_bytes 4 (if_index x) ++ take 6 (if_hw x ++ repeat 0 6)) mc) tt
    end
  end.

(* IPV4Address::ToCIDRMask: count the one bits from the least significant end; a zero above a one fails *)
Fixpoint cidr_loop (k : nat) (m bits : N) (seen : bool) : option N :=
  match k with
  | O => Some bits
  | S k' => if N.odd m then cidr_loop k' (m / 2) (u8 (bits + 1)) true
            else if seen then None else cidr_loop k' (m / 2) bits false
  end.
Definition cidr (m : N) : N := match cidr_loop 32 m 0 false with Some b => b | None => 255 end.

Definition get_ipv4_current_address (q : request) (n : netcfg) (mc : N) : hres unit :=
  match extract 4 q with
  | EOob => HOob
  | EBad => HR (nack_with_reason q NR_FORMAT_ERROR 0) tt
  | EVal i =>
    match find_interface n i with
    | None => HR (nack_with_reason q NR_DATA_OUT_OF_RANGE 0) tt
    | Some x => HR (ack q (be_bytes 4 (if_index x) ++ be_bytes 4 (if_ip x) ++
                           [cidr (u32 (if_mask x)); u8 (if_dhcp x)]) mc) tt
    end
  end.

Definition DEFAULT_INDEX_PATTERN : N := 4294967295.      (* Interface::DEFAULT_INDEX = -1 *)
Definition get_ipv4_default_route (q : request) (n : netcfg) (mc : N) : option response :=
  if negb (len (q_data q) =? 0) then nack_with_reason q NR_FORMAT_ERROR mc else
  match n_route n with
  | None => nack_with_reason q NR_HARDWARE_FAULT 0
  | Some (idx, gw) =>
    ack q (be_bytes 4 (if idx =? DEFAULT_INDEX_PATTERN then NO_DEFAULT_ROUTE else idx) ++
           be_bytes 4 (if gw =? 0 then NO_DEFAULT_ROUTE else gw)) mc
  end.

Definition get_dns_hostname (q : request) (n : netcfg) (mc : N) : option response :=
  if negb (len (q_data q) =? 0) then nack_with_reason q NR_FORMAT_ERROR mc else
  if (len (n_host n) =? 0) || (MAX_RDM_HOSTNAME_LENGTH <? len (n_host n))
  then nack_with_reason q NR_HARDWARE_FAULT 0
  else get_string q (n_host n) mc MAX_RDM_HOSTNAME_LENGTH.
Definition get_dns_domain_name (q : request) (n : netcfg) (mc : N) : option response :=
  if negb (len (q_data q) =? 0) then nack_with_reason q NR_FORMAT_ERROR mc else
  if MAX_RDM_DOMAIN_NAME_LENGTH <? len (n_domain n) then nack_with_reason q NR_HARDWARE_FAULT 0
  else get_string q (n_domain n) mc MAX_RDM_DOMAIN_NAME_LENGTH.
Definition get_dns_name_server (q : request) (n : netcfg) (mc : N) : hres unit :=
  match extract 1 q with
  | EOob => HOob
  | EBad => HR (nack_with_reason q NR_FORMAT_ERROR 0) tt
  | EVal i =>
    match n_dns n with
    | None => HR (nack_with_reason q NR_HARDWARE_FAULT 0) tt
    | Some servers =>
      if (len servers <=? i) || (DNS_NAME_SERVER_MAX_INDEX <? i)
      then HR (nack_with_reason q NR_DATA_OUT_OF_RANGE 0) tt
      else match nth_error servers (N.to_nat i) with
           | None => HOob
           | Some a => HR (ack q ([i] ++ be_bytes 4 a) mc) tt
           end
    end
  end.

(* the eight handlers, shared by NetworkResponder and DummyResponder *)
Section NetHandlers.
  Variable S : Type.
  Variable n : netcfg.
  Definition h_list_interfaces : handler S := fun q st => (get_list_interfaces q n 0, st).
  Definition h_interface_label : handler S := fun q st => lift_set (get_interface_label q n 0) st (fun _ => st).
  Definition h_interface_hw : handler S := fun q st => lift_set (get_interface_hw q n 0) st (fun _ => st).
  Definition h_ipv4_current : handler S := fun q st => lift_set (get_ipv4_current_address q n 0) st (fun _ => st).
  Definition h_ipv4_route : handler S := fun q st => (get_ipv4_default_route q n 0, st).
  Definition h_dns_hostname : handler S := fun q st => (get_dns_hostname q n 0, st).
  Definition h_dns_domain : handler S := fun q st => (get_dns_domain_name q n 0, st).
  Definition h_dns_server : handler S := fun q st => lift_set (get_dns_name_server q n 0) st (fun _ => st).
End NetHandlers.

(* ======================= NetworkResponder ======================= *)
Record nr_cfg := mkNC { nc_strs : at_cfg; nc_net : netcfg }.
Definition nr_state := bool.                          (* m_identify_mode *)

Definition nr_device_info : handler nr_state := fun q st =>
  (get_device_info q OLA_E137_2_MODEL PRODUCT_CATEGORY_TEST 2 0 1 1 ZERO_FOOTPRINT_DMX_ADDRESS 0 0 0, st).
Definition nr_product_detail : handler nr_state := fun q st =>
  (get_product_detail_list q [PRODUCT_DETAIL_TEST] 0, st).
Definition nr_get_identify : handler nr_state := fun q st => (get_bool q st 0, st).
Definition nr_set_identify : handler nr_state := fun q st => lift_set (set_bool q st 0) st (fun b => b).

Definition nr_table (c : nr_cfg) : table nr_state :=
  [ (PID_SUPPORTED_PARAMETERS, mkEntry None None);
    (PID_DEVICE_INFO, mkEntry (Some nr_device_info) None);
    (PID_PRODUCT_DETAIL_ID_LIST, mkEntry (Some nr_product_detail) None);
    (PID_DEVICE_MODEL_DESCRIPTION, mkEntry (Some (str_handler c_model (nc_strs c))) None);
    (PID_MANUFACTURER_LABEL, mkEntry (Some (str_handler c_manu (nc_strs c))) None);
    (PID_DEVICE_LABEL, mkEntry (Some (str_handler c_label (nc_strs c))) None);
    (PID_SOFTWARE_VERSION_LABEL, mkEntry (Some (str_handler c_version (nc_strs c))) None);
    (PID_LIST_INTERFACES, mkEntry (Some (h_list_interfaces nr_state (nc_net c))) None);
    (PID_INTERFACE_LABEL, mkEntry (Some (h_interface_label nr_state (nc_net c))) None);
    (PID_INTERFACE_HARDWARE_ADDRESS_TYPE1, mkEntry (Some (h_interface_hw nr_state (nc_net c))) None);
    (PID_IPV4_CURRENT_ADDRESS, mkEntry (Some (h_ipv4_current nr_state (nc_net c))) None);
    (PID_IPV4_DEFAULT_ROUTE, mkEntry (Some (h_ipv4_route nr_state (nc_net c))) None);
    (PID_DNS_NAME_SERVER, mkEntry (Some (h_dns_server nr_state (nc_net c))) None);
    (PID_DNS_HOSTNAME, mkEntry (Some (h_dns_hostname nr_state (nc_net c))) None);
    (PID_DNS_DOMAIN_NAME, mkEntry (Some (h_dns_domain nr_state (nc_net c))) None);
    (PID_IDENTIFY_DEVICE, mkEntry (Some nr_get_identify) (Some nr_set_identify)) ].

Definition nr_send (c : nr_cfg) (uid : N) (q : request) (st : nr_state) : list reply * nr_state :=
  dispatch nr_state false (nr_table c) uid ROOT_RDM_DEVICE q st.
Fixpoint nr_run (c : nr_cfg) (uid : N) (h : list request) (st : nr_state)
  : list (list reply) * nr_state :=
  match h with
  | [] => ([], st)
  | q :: rest => let (out, st1) := nr_send c uid q st in
                 let (outs, st2) := nr_run c uid rest st1 in (out :: outs, st2)
  end.
