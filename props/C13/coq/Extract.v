From Coq Require Extraction.
From Coq Require Import ExtrOcamlBasic.
From OlaBase Require Import Bytes.
From C13 Require Import Gen Model AckTimer Responders MovingLight Network Dummy AdvDimmer Chk.
Extraction Language OCaml.
Extraction "model.ml" io_witness N.div_eucl chk_13 chk_sweep predict test_dispatch test_fan help_run
  known_testdata at_run at_init qcount sr_run dm_run dm_init cfg_sensors sensors_dyn ml_run ml_init nr_run dr_run dr_init ad_run ad_init.
