(* C13 — executable model of DummyResponder (common/rdm/DummyResponder.cpp), handler by handler.
   Personalities / slot data are regenerated from the source (GenTables.PERS_DummyResponder); the network
   manager and the (load average) sensors are abstract: configuration resp. state. *)
From OlaBase Require Import Bytes.
From C13 Require Import Gen GenTables Model AckTimer Responders MovingLight Network.
Local Open Scope N_scope.

Definition dr_pers : list pers := mk_pers PERS_DummyResponder.
Definition DR_DEFAULT_PERSONALITY : N := 2.

Record dr_cfg := mkDC { dc_strs : at_cfg; dc_codever : list N;
                        dc_url_manu : list N; dc_url_product : list N; dc_url_firmware : list N;
                        dc_clock : ml_cfg;            (* only the time fields are used *)
                        dc_net : netcfg }.
Record dr_state := mkDR { dr_start : N; dr_ident : bool; dr_strikes : N; dr_active : N;
                          dr_sensors : list sensor }.
Definition dr_init (ss : list sensor) : dr_state := mkDR 1 false 0 DR_DEFAULT_PERSONALITY ss.
Definition dr_fp (st : dr_state) : N := active_fp dr_pers (dr_active st).

Definition dr_param_description : handler dr_state := fun q st =>
  match extract 2 q with
  | EOob => (None, st)
  | EBad => (nack_with_reason q NR_FORMAT_ERROR 0, st)
  | EVal v => if negb (v =? OLA_MANUFACTURER_PID_CODE_VERSION)
              then (nack_with_reason q NR_DATA_OUT_OF_RANGE 0, st)
              else (get_ascii_param_description q OLA_MANUFACTURER_PID_CODE_VERSION CC_GET_V (* "Code Version" *) [67; 111; 100; 101; 32; 86; 101; 114; 115; 105; 111; 110], st)
  end.
Definition dr_device_info : handler dr_state := fun q st =>
  (get_device_info q OLA_DUMMY_DEVICE_MODEL PRODUCT_CATEGORY_OTHER 4 (dr_fp st) (dr_active st)
                   (u8 (len dr_pers)) (if dr_fp st =? 0 then ZERO_FOOTPRINT_DMX_ADDRESS else dr_start st)
                   0 (len (dr_sensors st)) 0, st).
Definition dr_product_detail : handler dr_state := fun q st =>
  (get_product_detail_list q [PRODUCT_DETAIL_TEST; PRODUCT_DETAIL_OTHER] 0, st).
Definition dr_get_factory : handler dr_state := fun q st =>
  (get_noarg q [if (dr_start st =? 1) && (dr_active st =? DR_DEFAULT_PERSONALITY) && negb (dr_ident st)
                then 1 else 0], st).
Definition dr_set_factory : handler dr_state := fun q st =>
  if negb (len (q_data q) =? 0) then (nack_with_reason q NR_FORMAT_ERROR 0, st)
  else (ack q [] 0, mkDR 1 false (dr_strikes st) DR_DEFAULT_PERSONALITY (dr_sensors st)).
Definition dr_get_personality : handler dr_state := fun q st =>
  (get_personality q dr_pers (dr_active st) 0, st).
Definition dr_set_personality : handler dr_state := fun q st =>
  lift_set (set_personality q dr_pers (dr_active st) (dr_start st) 0) st
           (fun a => mkDR (dr_start st) (dr_ident st) (dr_strikes st) a (dr_sensors st)).
Definition dr_personality_description : handler dr_state := fun q st =>
  lift_set (get_personality_description q dr_pers 0) st (fun _ => st).
Definition dr_slot_info : handler dr_state := fun q st =>
  lift_set (get_slot_info q dr_pers (dr_active st) 0) st (fun _ => st).
Definition dr_slot_description : handler dr_state := fun q st =>
  lift_set (get_slot_description q dr_pers (dr_active st) 0) st (fun _ => st).
Definition dr_slot_defaults : handler dr_state := fun q st =>
  lift_set (get_slot_defaults q dr_pers (dr_active st) 0) st (fun _ => st).
Definition dr_get_start : handler dr_state := fun q st =>
  (get_dmx_address q dr_pers (dr_active st) (dr_start st) 0, st).
Definition dr_set_start : handler dr_state := fun q st =>
  lift_set (set_dmx_address q dr_pers (dr_active st) (dr_start st) 0) st
           (fun a => mkDR a (dr_ident st) (dr_strikes st) (dr_active st) (dr_sensors st)).
Definition dr_get_strikes : handler dr_state := fun q st => (get_uint 4 q (dr_strikes st) 0, st).
Definition dr_set_strikes : handler dr_state := fun q st =>
  lift_set (set_uint 4 q (dr_strikes st) 0) st
           (fun v => mkDR (dr_start st) (dr_ident st) v (dr_active st) (dr_sensors st)).
Definition dr_get_identify : handler dr_state := fun q st => (get_bool q (dr_ident st) 0, st).
Definition dr_set_identify : handler dr_state := fun q st =>
  lift_set (set_bool q (dr_ident st) 0) st
           (fun b => mkDR (dr_start st) b (dr_strikes st) (dr_active st) (dr_sensors st)).
Definition dr_clock (c : dr_cfg) : handler dr_state := fun q st =>
  let k := dc_clock c in
  (get_noarg q (be_bytes 2 (mc_year k) ++ [u8 (mc_mon k); u8 (mc_day k); u8 (mc_hour k); u8 (mc_min k);
                                           u8 (mc_sec k)]), st).
Definition dr_with_sensors (st : dr_state) (ss : list sensor) : dr_state :=
  mkDR (dr_start st) (dr_ident st) (dr_strikes st) (dr_active st) ss.
Definition dr_sensor_definition : handler dr_state := fun q st =>
  lift_set (get_sensor_definition q (dr_sensors st)) st (fun _ => st).
Definition dr_get_sensor_value : handler dr_state := fun q st =>
  lift_set (get_sensor_value q (dr_sensors st)) st (dr_with_sensors st).
Definition dr_set_sensor_value : handler dr_state := fun q st =>
  lift_set (set_sensor_value q (dr_sensors st)) st (dr_with_sensors st).
Definition dr_record_sensor : handler dr_state := fun q st =>
  lift_set (record_sensor q (dr_sensors st)) st (dr_with_sensors st).
(* GetString(request, url, 0, UINT8_MAX) *)
Definition dr_url (f : dr_cfg -> list N) (c : dr_cfg) : handler dr_state := fun q st =>
  (get_string q (f c) 0 255, st).
Definition dr_get_test_data : handler dr_state := fun q st =>
  lift_set (get_test_data q 0) st (fun _ => st).
Definition dr_set_test_data : handler dr_state := fun q st => (set_test_data q 0, st).
Definition dr_code_version (c : dr_cfg) : handler dr_state := fun q st =>
  (get_string q (dc_codever c) 0 MAX_RDM_STRING_LENGTH, st).

Definition dr_table (c : dr_cfg) : table dr_state :=
  [ (PID_TEST_DATA, mkEntry (Some dr_get_test_data) (Some dr_set_test_data));
    (PID_SUPPORTED_PARAMETERS, mkEntry None None);
    (PID_PARAMETER_DESCRIPTION, mkEntry (Some dr_param_description) None);
    (PID_DEVICE_INFO, mkEntry (Some dr_device_info) None);
    (PID_PRODUCT_DETAIL_ID_LIST, mkEntry (Some dr_product_detail) None);
    (PID_DEVICE_MODEL_DESCRIPTION, mkEntry (Some (str_handler c_model (dc_strs c))) None);
    (PID_MANUFACTURER_LABEL, mkEntry (Some (str_handler c_manu (dc_strs c))) None);
    (PID_DEVICE_LABEL, mkEntry (Some (str_handler c_label (dc_strs c))) None);
    (144, mkEntry (Some dr_get_factory) (Some dr_set_factory));
    (PID_SOFTWARE_VERSION_LABEL, mkEntry (Some (str_handler c_version (dc_strs c))) None);
    (208, mkEntry (Some (dr_url dc_url_manu c)) None);
    (209, mkEntry (Some (dr_url dc_url_product c)) None);
    (210, mkEntry (Some (dr_url dc_url_firmware c)) None);
    (PID_DMX_PERSONALITY, mkEntry (Some dr_get_personality) (Some dr_set_personality));
    (PID_DMX_PERSONALITY_DESCRIPTION, mkEntry (Some dr_personality_description) None);
    (PID_DMX_START_ADDRESS, mkEntry (Some dr_get_start) (Some dr_set_start));
    (288, mkEntry (Some dr_slot_info) None);
    (289, mkEntry (Some dr_slot_description) None);
    (290, mkEntry (Some dr_slot_defaults) None);
    (PID_SENSOR_DEFINITION, mkEntry (Some dr_sensor_definition) None);
    (PID_SENSOR_VALUE, mkEntry (Some dr_get_sensor_value) (Some dr_set_sensor_value));
    (PID_RECORD_SENSORS, mkEntry None (Some dr_record_sensor));
    (1026, mkEntry (Some dr_get_strikes) (Some dr_set_strikes));
    (1539, mkEntry (Some (dr_clock c)) None);
    (PID_LIST_INTERFACES, mkEntry (Some (h_list_interfaces dr_state (dc_net c))) None);
    (PID_INTERFACE_LABEL, mkEntry (Some (h_interface_label dr_state (dc_net c))) None);
    (PID_INTERFACE_HARDWARE_ADDRESS_TYPE1, mkEntry (Some (h_interface_hw dr_state (dc_net c))) None);
    (PID_IPV4_CURRENT_ADDRESS, mkEntry (Some (h_ipv4_current dr_state (dc_net c))) None);
    (PID_IPV4_DEFAULT_ROUTE, mkEntry (Some (h_ipv4_route dr_state (dc_net c))) None);
    (PID_DNS_NAME_SERVER, mkEntry (Some (h_dns_server dr_state (dc_net c))) None);
    (PID_DNS_HOSTNAME, mkEntry (Some (h_dns_hostname dr_state (dc_net c))) None);
    (PID_DNS_DOMAIN_NAME, mkEntry (Some (h_dns_domain dr_state (dc_net c))) None);
    (PID_IDENTIFY_DEVICE, mkEntry (Some dr_get_identify) (Some dr_set_identify));
    (OLA_MANUFACTURER_PID_CODE_VERSION, mkEntry (Some (dr_code_version c)) None) ].

Definition dr_send (c : dr_cfg) (uid : N) (q : request) (st : dr_state) : list reply * dr_state :=
  dispatch dr_state false (dr_table c) uid ROOT_RDM_DEVICE q st.
Fixpoint dr_run (c : dr_cfg) (uid : N) (h : list request) (st : dr_state)
  : list (list reply) * dr_state :=
  match h with
  | [] => ([], st)
  | q :: rest => let (out, st1) := dr_send c uid q st in
                 let (outs, st2) := dr_run c uid rest st1 in (out :: outs, st2)
  end.
