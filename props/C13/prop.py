ID = 'C13'
CXX_SOURCES = []
GROUPS = ['common']
WRAP = ['clock_gettime', 'time']
# zero-length VLAs (GET TEST_DATA with pattern length 0, empty lists) are a GCC extension, not an access
CXXFLAGS = ['-fno-sanitize=vla-bound']
PROC_TIMEOUT = 1500

def gen_consts(v):
    import os
    R = 'ola::rdm::'
    ents = [(n, R + n) for n in (
        'RDM_COMPLETED_OK RDM_WAS_BROADCAST RDM_TIMEOUT RDM_PLUGIN_DISCOVERY_NOT_SUPPORTED '
        'RDM_ACK RDM_ACK_TIMER RDM_NACK_REASON ACK_OVERFLOW ALL_RDM_SUBDEVICES ROOT_RDM_DEVICE '
        'NR_UNKNOWN_PID NR_FORMAT_ERROR NR_HARDWARE_FAULT NR_WRITE_PROTECT NR_UNSUPPORTED_COMMAND_CLASS '
        'NR_DATA_OUT_OF_RANGE NR_SUB_DEVICE_OUT_OF_RANGE NR_INVALID_PORT '
        'PID_SUPPORTED_PARAMETERS PID_PARAMETER_DESCRIPTION PID_DEVICE_INFO PID_SOFTWARE_VERSION_LABEL '
        'PID_DMX_START_ADDRESS PID_IDENTIFY_DEVICE PID_QUEUED_MESSAGE PID_TEST_DATA '
        'MAX_RDM_STRING_LENGTH ZERO_FOOTPRINT_DMX_ADDRESS ALL_SENSORS SENSOR_RECORDED_VALUE '
        'SENSOR_RECORDED_RANGE_VALUES SENSOR_RECORDED_UNSUPPORTED SENSOR_RECORDED_RANGE_UNSUPPORTED '
        'MAX_RDM_TEST_DATA_PATTERN_LENGTH RDM_VERSION_1_0 PID_STATUS_MESSAGES PID_DEVICE_MODEL_DESCRIPTION '
        'PID_MANUFACTURER_LABEL PID_DEVICE_LABEL PID_DMX_PERSONALITY PID_DMX_PERSONALITY_DESCRIPTION '
        'STATUS_GET_LAST_MESSAGE MAX_QUEUED_MESSAGE_COUNT OLA_ACK_TIMER_MODEL PRODUCT_CATEGORY_TEST '
        'OLA_SENSOR_ONLY_MODEL OLA_DUMMY_DIMMER_MODEL OLA_DUMMY_MOVING_LIGHT_MODEL OLA_DUMMY_DEVICE_MODEL '
        'PID_PRODUCT_DETAIL_ID_LIST PID_SENSOR_DEFINITION PID_SENSOR_VALUE PID_RECORD_SENSORS PID_IDENTIFY_MODE '
        'PID_DMX_BLOCK_ADDRESS IDENTIFY_MODE_QUIET IDENTIFY_MODE_LOUD PRODUCT_DETAIL_TEST PRODUCT_CATEGORY_DIMMER '
        'PRODUCT_CATEGORY_FIXTURE_MOVING_YOKE OLA_MANUFACTURER_PID_CODE_VERSION OLA_E137_2_MODEL OLA_E137_DIMMER_MODEL '
        'PID_LIST_INTERFACES PID_INTERFACE_LABEL PID_INTERFACE_HARDWARE_ADDRESS_TYPE1 PID_IPV4_CURRENT_ADDRESS '
        'PID_IPV4_DEFAULT_ROUTE PID_DNS_NAME_SERVER PID_DNS_HOSTNAME PID_DNS_DOMAIN_NAME NO_DEFAULT_ROUTE '
        'MIN_RDM_INTERFACE_INDEX MAX_RDM_INTERFACE_INDEX DNS_NAME_SERVER_MAX_INDEX MAX_RDM_HOSTNAME_LENGTH '
        'MAX_RDM_DOMAIN_NAME_LENGTH DHCP_STATUS_MAX PRODUCT_DETAIL_OTHER PRODUCT_CATEGORY_OTHER').split()]
    ents += [('MAX_LOCK_PIN_V', R + 'MAX_LOCK_PIN'), ('MERGEMODE_DMX_ONLY_V', R + 'MERGEMODE_DMX_ONLY')]
    ents += [('ARP_ETHERNET_TYPE', 'ARPHRD_ETHER')]   # what Interface::ARP_ETHERNET_TYPE is defined as (Interface.cpp)
    ents += [(n + '_V', R + n) for n in ('LAMP_ON LAMP_STANDBY LAMP_ON_MODE_DMX LAMP_ON_MODE_ON_AFTER_CAL DISPLAY_INVERT_AUTO '
                                         'POWER_STATE_NORMAL RESET_WARM RESET_COLD DS_ASCII CC_GET').split()]
    ents += [(n, R + 'RDMCommand::' + n) for n in (
        'DISCOVER_COMMAND DISCOVER_COMMAND_RESPONSE GET_COMMAND GET_COMMAND_RESPONSE '
        'SET_COMMAND SET_COMMAND_RESPONSE').split()]
    ents += [('ALL_DEVICES', R + 'UID::ALL_DEVICES'), ('ALL_MANUFACTURERS', R + 'UID::ALL_MANUFACTURERS'),
             ('DMX_UNIVERSE_SIZE', 'ola::DMX_UNIVERSE_SIZE'), ('DMX_MAX_SLOT_VALUE', 'ola::DMX_MAX_SLOT_VALUE'),
             ('MAX_PDL', R + 'RDMCommandSerializer::MAX_PARAM_DATA_LENGTH')]
    err = gen_tables(v)
    if err:
        return err
    return v.gen_consts_cpp(ID, ['ola/Constants.h', 'ola/rdm/RDMCommand.h', 'ola/rdm/RDMCommandSerializer.h',
                                 'ola/rdm/RDMEnums.h', 'ola/rdm/OpenLightingEnums.h', 'ola/rdm/RDMResponseCodes.h', 'ola/rdm/UID.h',
                                 'net/if_arp.h'],
                            ents, os.path.join(v.VERIF, 'props', ID, 'coq', 'Gen.v'))

def gen_tables(v):
    """GenTables.v: the (pid, has GET handler, has SET handler) table of every built-in responder, as
    ResponderOps stores it (ascending PID, placeholder for SUPPORTED_PARAMETERS).  The handler arrays are
    read from the .cpp files, the PID values come from the compiler."""
    import os, re, subprocess
    classes = ['SensorResponder', 'DimmerRootDevice', 'DimmerSubDevice', 'AckTimerResponder', 'DummyResponder',
               'MovingLightResponder', 'AdvancedDimmerResponder', 'NetworkResponder']
    tables, names = {}, set()
    for c in classes:
        src = open(v.repo_path('common/rdm/%s.cpp' % c)).read()
        m = re.search(r'PARAM_HANDLERS\[\]\s*=\s*\{(.*?)\n\};', src, re.S)
        if not m:
            return 'no PARAM_HANDLERS array in %s.cpp' % c
        body = re.sub(r'#ifdef HAVE_GETLOADAVG|#endif[^\n]*', '', m.group(1))
        ents = re.findall(r'\{\s*(\w+)\s*,\s*(&\s*\w+::\w+|NULL)\s*,\s*(&\s*\w+::\w+|NULL)\s*\}', body)
        ents = [e for e in ents if e[0] != '0']
        tables[c] = ents
        names.update(e[0] for e in ents)
    # personalities and their slot data (DummyResponder, MovingLightResponder)
    def balanced(s, i):
        d, j = 0, i
        while True:
            if s[j] == '(':
                d += 1
            elif s[j] == ')':
                d -= 1
                if d == 0:
                    return s[i + 1:j], j
            j += 1
    def args(s):
        out, cur, d, q = [], '', 0, False
        for ch in s:
            if ch == '"':
                q = not q
            if not q and ch == '(':
                d += 1
            if not q and ch == ')':
                d -= 1
            if not q and d == 0 and ch == ',':
                out.append(cur.strip()); cur = ''
            else:
                cur += ch
        out.append(cur.strip())
        return out
    def cstr(a):
        return [ord(ch) for ch in ''.join(re.findall(r'"([^"]*)"', a))]
    pers = {}
    for c in ('DummyResponder', 'MovingLightResponder'):
        src = re.sub(r'//[^\n]*', '', open(v.repo_path('common/rdm/%s.cpp' % c)).read())
        slots = {}
        for m in re.finditer(r'(\w+)\.push_back\(', src):
            body, _ = balanced(src, m.end() - 1)
            body = body.strip()
            sm = re.match(r'SlotData::(Primary|Secondary)Slot\s*\(', body)
            if sm:
                a = args(balanced(body, sm.end() - 1)[0])
                if sm.group(1) == 'Primary':
                    ent = ('0', a[0], a[1], a[2] if len(a) > 2 else None)
                    names.add(a[0])
                else:
                    ent = (a[0], a[1], a[2], a[3] if len(a) > 3 else None)
                    names.add(a[0])
                slots.setdefault(m.group(1), []).append(ent)
            pm = re.match(r'Personality\s*\(', body)
            if pm:
                a = args(balanced(body, pm.end() - 1)[0])
                sl = re.search(r'SlotDataCollection\((\w+)\)', a[2]).group(1) if len(a) > 2 else None
                pers.setdefault(c, []).append((a[0], cstr(a[1]), sl))
        pers[c] = [(fp, d, slots.get(sl, []) if sl else []) for fp, d, sl in pers.get(c, [])]
    names = sorted(names)
    bdir = os.path.join(v.BUILD, ID)
    os.makedirs(bdir, exist_ok=True)
    cpp, exe = os.path.join(bdir, 'gentables.cpp'), os.path.join(bdir, 'gentables')
    with open(cpp, 'w') as f:
        f.write('#include <stdio.h>\n#include "ola/rdm/RDMEnums.h"\n#include "ola/rdm/OpenLightingEnums.h"\n'
                'using namespace ola::rdm;\nint main() {\n' +
                ''.join('printf("%s %%u\\n", (unsigned)(%s));\n' % (n, n) for n in names) + 'return 0; }\n')
    r = subprocess.run(['ccache', 'g++', '-std=gnu++11', '-DHAVE_CONFIG_H', '-w'] + v.include_flags() + [cpp, '-o', exe],
                       stdout=subprocess.PIPE, stderr=subprocess.PIPE)
    if r.returncode:
        return 'gentables compile error: ' + r.stderr.decode(errors='replace')[-1500:]
    vals = dict(l.split() for l in subprocess.run([exe], stdout=subprocess.PIPE).stdout.decode().split('\n') if l)
    out = ['(* REGENERATED from common/rdm/*Responder*.cpp (PARAM_HANDLERS) and the RDM enums on every run. Do not edit. *)',
           'From Coq Require Import NArith List.', 'Import ListNotations.', 'Local Open Scope N_scope.']
    for c in classes:
        t = {0x50: ('false', 'false')}
        for n, g, s in tables[c]:
            t[int(vals[n])] = ('false' if g == 'NULL' else 'true', 'false' if s == 'NULL' else 'true')
        out.append('Definition TBL_%s : list (N * (bool * bool)) :=\n  [%s].' % (
            c, '; '.join('(%d, (%s, %s))' % (k, t[k][0], t[k][1]) for k in sorted(t))))
    def nl(l):
        return '[' + '; '.join(str(x) for x in l) + ']'
    for c in sorted(pers):
        rows = []
        for fp, d, sl in pers[c]:
            srows = ['(%s, %s, %s, %s, %s)' % (vals.get(t, t), vals.get(i, i), dv, 'false' if ds is None else 'true',
                                               nl(cstr(ds)) if ds is not None else '[]') for t, i, dv, ds in sl]
            rows.append('(%s, %s, [%s])' % (fp, nl(d), '; '.join(srows)))
        out.append('(* footprint, description, slots (type, id, default, has description, description) *)')
        out.append('Definition PERS_%s : list (N * list N * list (N * N * N * bool * list N)) :=\n  [%s].' % (
            c, ';\n   '.join(rows)))
    # AdvancedDimmerResponder: private constants and string tables, cut from the source text
    asrc = re.sub(r'//[^\n]*', '', open(v.repo_path('common/rdm/AdvancedDimmerResponder.cpp')).read())
    out.append('(* AdvancedDimmerResponder.cpp: private constants, setting descriptions, personality *)')
    for m in re.finditer(r'const\s+(?:uint8_t|uint16_t|unsigned int)\s+AdvancedDimmerResponder::(\w+)\s*=\s*(0x[0-9a-fA-F]+|\d+)\s*;', asrc):
        out.append('Definition ADV_%s : N := %d.' % (m.group(1), int(m.group(2), 0)))
    for m in re.finditer(r'const char\*\s*AdvancedDimmerResponder::(\w+)\[\]\s*=\s*\{(.*?)\};', asrc, re.S):
        strs_ = re.findall(r'"([^"]*)"', m.group(2))
        out.append('Definition ADV_%s : list (list N) :=\n  [%s].' % (m.group(1), '; '.join(nl([ord(ch) for ch in s_]) for s_ in strs_)))
    m = re.search(r'AdvancedDimmerResponder::PWM_FREQUENCIES\[\]\s*=\s*\{(.*?)\};', asrc, re.S)
    fr = re.findall(r'\{\s*(\d+)\s*,\s*"([^"]*)"\s*\}', m.group(1)) if m else []
    out.append('Definition ADV_PWM_FREQUENCIES : list (N * list N) :=\n  [%s].' % '; '.join(
        '(%s, %s)' % (f, nl([ord(ch) for ch in d])) for f, d in fr))
    ps = re.findall(r'personalities\.push_back\(Personality\(\s*(\d+)\s*,\s*"([^"]*)"\s*\)\)', asrc)
    out.append('Definition ADV_PERSONALITIES : list (N * list N) :=\n  [%s].' % '; '.join(
        '(%s, %s)' % (f, nl([ord(ch) for ch in d])) for f, d in ps))
    new = '\n'.join(out) + '\n'
    path = os.path.join(v.VERIF, 'props', ID, 'coq', 'GenTables.v')
    if not os.path.exists(path) or open(path).read() != new:
        open(path, 'w').write(new)
    return None

# ------------------------------------------------------------------ case generation
import os as _os, re as _re

OWN = (0x7a70 << 32) | 1
DESTS = {'own': OWN, 'other': (0x7a70 << 32) | 2, 'otherm': (0x1234 << 32) | 1,
         'vcast': (0x7a70 << 32) | 0xffffffff, 'vcasto': (0x1234 << 32) | 0xffffffff,
         'bcast': (0xffff << 32) | 0xffffffff}
SRC = (0x7a70 << 32) | 0x11223344
SUBS = [0, 1, 2, 0x200, 0xffff]
GET, SET, DISC = 0x20, 0x30, 0x10
_DIM = ['DimmerRootDevice', 'DimmerSubDevice']
# "dimmer" has 2 sub-devices, "dimmerN" has N
KINDS = {'dummy': ['DummyResponder'], 'dimmer': _DIM, 'dimmer0': _DIM, 'dimmer1': _DIM, 'dimmer4': _DIM, 'dimmer8': _DIM,
         'moving': ['MovingLightResponder'], 'sensor': ['SensorResponder'],
         'acktimer': ['AckTimerResponder'], 'advdimmer': ['AdvancedDimmerResponder'],
         'network': ['NetworkResponder']}

def hx(bs):
    return ''.join('%02x' % (b & 255) for b in bs) if bs else '-'

def req(dst, sub, cc, pid, data, tn=0, src=SRC, port=1, flag=False):
    s = '%d,%d,%d,%d,%d,%d,%d,%s' % (src, dst, tn & 255, port, sub, cc, pid, hx(data))
    return s + (',K' if flag else '')

_PIDS = {}
def supported_pids():
    """PID tables of the built-in responders, read from the repository sources (generator aim only)."""
    if _PIDS:
        return _PIDS
    repo = _os.environ.get('VERIF_REPO', '/repo')
    enums = {}
    for h in ('include/ola/rdm/RDMEnums.h', 'include/ola/rdm/OpenLightingEnums.h'):
        p = _os.path.join(repo, h)
        if not _os.path.exists(p):
            p = _os.path.join('/repo', h)
        for m in _re.finditer(r'\b((?:PID|OLA_MANUFACTURER_PID)_\w+)\s*=\s*(0x[0-9a-fA-F]+|\d+)', open(p).read()):
            enums[m.group(1)] = int(m.group(2), 0)
    for k, files in KINDS.items():
        pids = {0x50}
        for f in files:
            p = _os.path.join(repo, 'common/rdm', f + '.cpp')
            if not _os.path.exists(p):
                p = _os.path.join('/repo/common/rdm', f + '.cpp')
            for m in _re.finditer(r'\{\s*((?:PID|OLA_MANUFACTURER_PID)_\w+)\s*,', open(p).read()):
                if m.group(1) in enums:
                    pids.add(enums[m.group(1)])
        _PIDS[k] = sorted(pids)
    return _PIDS

LENS = [0, 1, 2, 3, 4, 5, 7, 8, 9, 10, 11, 12, 31, 32, 33, 230, 231]

def rdata(rng, n, small=True):
    if small and rng.random() < 0.6:
        # plausible values: small numbers, big endian
        bs = [0] * n
        if n:
            bs[-1] = rng.choice([0, 1, 2, 3, 4, 5, 6, 7, 255, rng.randrange(256)])
            if n > 1 and rng.random() < 0.3:
                bs[-2] = rng.choice([1, 2, 255, rng.randrange(256)])
            if n > 2 and rng.random() < 0.3:
                bs[0] = rng.choice([0, 1, 255])
        return bs
    return [rng.randrange(256) for _ in range(n)]

def dimmer_safe(kind, dname, sub, cc, pid, data):
    """random dimmer sweeps do not send a valid-length SET PERSONALITY / START_ADDRESS to all
    sub-devices (the mixed-verdict fan-out is exercised by its own, flagged, class)"""
    if kind.startswith('dimmer') and dname == 'own' and sub == 0xffff and cc == SET:
        if (pid == 0xe0 and len(data) == 1) or (pid == 0xf0 and len(data) == 2):
            return data + [0]
    return data

def avoid_known(kind, dname, sub, cc, pid, data):
    # GET TEST_DATA with a pattern length of 232..4096 is the known finding; it has its own class
    if kind == 'dummy' and pid == 0x16 and cc == GET and len(data) == 2 and 231 < data[0] * 256 + data[1] <= 4096:
        return [0, data[1] % 232]
    return data

def nsub_of(kind):
    return (int(kind[6:]) if len(kind) > 6 else 2) if kind.startswith('dimmer') else 0

def subs_of(kind):
    n = nsub_of(kind)
    return sorted(set(SUBS + [n, n + 1])) if kind.startswith('dimmer') else SUBS

def gen_block(rng, tier):
    """DMX_BLOCK_ADDRESS on the dimmer root after personality / start-address changes on individual
    sub-devices; bases around 512 - total footprint and around the 255 bound of the code"""
    for n in (1, 2, 4, 8):
        kind = 'dimmer' if n == 2 else 'dimmer%d' % n
        for _ in range(10 if tier == 'quick' else 120):
            seq, fps = [], [1] * n
            for i in rng.sample(range(n), rng.randrange(0, n + 1)):
                fps[i] = 2
                seq.append(req(OWN, i + 1, SET, 0xe0, [2]))
            if rng.random() < 0.4:
                seq.append(req(OWN, rng.randrange(1, n + 1), SET, 0xf0, [1, rng.choice([0xfe, 0xff])]))
            tot = sum(fps)
            for _ in range(4):
                base = max(0, rng.choice([512, 255]) - tot + rng.choice([-2, -1, 0, 1, 2, 3]))
                base = rng.choice([base, base, base, 1, 0, 600])
                seq.append(req(OWN, 0, SET, 0x140, [base >> 8, base & 255]))
                seq.append(req(OWN, 0, GET, 0x140, []))
                if rng.random() < 0.3:
                    seq.append(req(OWN, rng.randrange(1, n + 1), SET, 0xe0, [rng.choice([1, 2])]))
            seq.append(req(OWN, n, GET, 0xf0, []))
            yield seq_case(rng, kind, seq)

def sweep_req(rng, kind, pid, cc, sub, dname, n=None):
    if n is None:
        n = rng.choice(LENS)
    data = rdata(rng, n)
    data = dimmer_safe(kind, dname, sub, cc, pid, data)
    data = avoid_known(kind, dname, sub, cc, pid, data)
    return req(DESTS[dname], sub, cc, pid, data, tn=rng.randrange(256),
               src=rng.choice([SRC, 1, (0x7a70 << 32) | 5]), port=rng.choice([0, 1, 255]))

SRCS = [SRC, 1, (0x7a70 << 32) | 5, (0x4744 << 32) | 2]

def retag(rng, reqs):
    """give every request of a sequence a transaction number and a controller UID that differ from
    those of its neighbours, so a reply built from an earlier request is always visible to chk_13"""
    t0, s0 = rng.randrange(256), rng.randrange(len(SRCS))
    out = []
    for i, r in enumerate(reqs):
        f = r.split(',')
        f[0] = str(SRCS[(s0 + i) % len(SRCS)])
        f[2] = str((t0 + 37 * i) % 256)
        out.append(','.join(f))
    return out

def nest(rng, reqs, p=0.4):
    """with probability p turn the sequence into an outline: a request of depth d+1 is sent by the harness from
    inside the completion callback of the closest preceding request of depth d (re-entrant use of the
    responder, as a queueing controller does); listed in execution order"""
    if rng.random() >= p:
        return reqs
    out, d = [], 0
    for i, r in enumerate(reqs):
        d = 0 if i == 0 else rng.choice([0, 0, d, d, min(d + 1, 3), min(d + 1, 3)])
        out.append('%d@%s' % (d, r) if d else r)
    return out

def seq_case(rng, kind, reqs):
    return 'sweep %s %d %s' % (kind, OWN, '/'.join(nest(rng, retag(rng, reqs))))

def gen_nested(rng, tier):
    """re-entrancy aimed at the fan-out: SETs to ALL_RDM_SUBDEVICES whose completion callback sends further
    requests (another fan-out, a sub-device, the root), several levels deep, on a long-lived responder"""
    for n in (1, 2, 4, 8):
        kind = 'dimmer' if n == 2 else 'dimmer%d' % n
        for _ in range(6 if tier == 'quick' else 80):
            seq, d = [], 0
            for i in range(rng.choice([6, 12, 30])):
                d = 0 if i == 0 else rng.choice([0, d, min(d + 1, 4), min(d + 1, 4)])
                k = rng.random()
                if k < 0.45:
                    r = req(OWN, 0xffff, SET, rng.choice([0x1000, 0x1000, 0x1040]), [rng.choice([0, 1, 0xff])])
                elif k < 0.6:
                    r = req(DESTS[rng.choice(['bcast', 'vcast', 'other'])], 0xffff, SET, 0x1000, [rng.randrange(2)])
                elif k < 0.8:
                    r = req(OWN, rng.choice([0, 1, n, n + 1]), rng.choice([GET, SET]), rng.choice([0x1000, 0xf0, 0x60]),
                            rdata(rng, rng.choice([0, 1, 2])))
                else:
                    r = req(OWN, 0xffff, GET, 0x1000, [])
                seq.append((d, r))
            rs = retag(rng, [r for _, r in seq])
            yield 'sweep %s %d %s' % (kind, OWN, '/'.join(('%d@%s' % (d, r) if d else r) for (d, _), r in zip(seq, rs)))

def gen_acktimer(rng, tier):
    """ack-timer histories: SETs answered with ACK_TIMER, the harness' virtual clock advances 150 ms per
    request (queued messages mature after 400 ms), GET QUEUED_MESSAGE with every status type incl.
    STATUS_GET_LAST_MESSAGE while further messages are (or are not) queued"""
    def step():
        k = rng.random()
        if k < 0.22:
            return req(OWN, 0, SET, 0x1000, [rng.randrange(2)])
        if k < 0.40:
            return req(OWN, 0, SET, 0xf0, [0, rng.randrange(1, 200)])
        if k < 0.75:
            return req(OWN, 0, GET, 0x20, [rng.choice([1, 1, 1, 2, 3, 4, 4, 0, 5])])
        if k < 0.80:
            return req(OWN, 0, GET, 0x20, rdata(rng, rng.choice([0, 2])))
        if k < 0.90:
            return req(OWN, 0, GET, rng.choice([0xf0, 0x1000, 0x60, 0xe0]), [])
        return sweep_req(rng, 'acktimer', rng.choice([0x20, 0xf0, 0x1000, 0xe0]), rng.choice([GET, SET]),
                         rng.choice([0, 0, 1, 0xffff]), rng.choice(['own', 'own', 'bcast', 'vcast', 'other']),
                         rng.choice([0, 1, 2]))
    # the minimal shape: two ACK_TIMER SETs, wait, pop one message, ask for the last message again
    yield seq_case(rng, 'acktimer', [req(OWN, 0, SET, 0x1000, [1]), req(OWN, 0, SET, 0xf0, [0, 7]),
                                     req(OWN, 0, GET, 0x1000, []), req(OWN, 0, GET, 0xf0, []), req(OWN, 0, GET, 0x60, []),
                                     req(OWN, 0, GET, 0x20, [4]), req(OWN, 0, GET, 0x20, [1]),
                                     req(OWN, 0, GET, 0x20, [1]), req(OWN, 0, GET, 0x20, [4]), req(OWN, 0, GET, 0x20, [1]),
                                     req(OWN, 0, GET, 0x20, [4]), req(OWN, 0, GET, 0x20, [1])])
    for _ in range(60 if tier == 'quick' else 1500):
        yield seq_case(rng, 'acktimer', [step() for _ in range(rng.choice([12, 24, 48]))])

def _repo_file(rel):
    repo = _os.environ.get('VERIF_REPO', '/repo')
    p = _os.path.join(repo, rel)
    return p if _os.path.exists(p) else _os.path.join('/repo', rel)

def acktimer_strings():
    """the string constants the ack-timer label GETs return (configuration of the model)"""
    ver = _re.search(r'#define VERSION "([^"]*)"', open(_repo_file('config.h')).read()).group(1)
    manu = _re.search(r'OLA_MANUFACTURER_LABEL\[\]\s*=\s*"([^"]*)"',
                      open(_repo_file('common/rdm/OpenLightingEnums.cpp')).read()).group(1)
    return ['OLA Ack Timer Responder', manu, 'Ack Timer Responder', 'OLA Version ' + ver]

def gen_ackt(rng, tier):
    """full functional correspondence of AckTimerResponder with AckTimer.v: histories with explicit clock
    steps around the 400 ms boundary"""
    strs = ' '.join(hx([ord(c) for c in s]) for s in acktimer_strings())
    pids = [0x20, 0x50, 0x60, 0x80, 0x81, 0x82, 0xc0, 0xe0, 0xe1, 0xf0, 0x1000, 0x30, 0x1001]
    def step():
        dt = rng.choice([0, 0, 1, 100, 199, 200, 201, 399, 400, 401, 1000])
        k = rng.random()
        if k < 0.2:
            r = req(OWN, 0, SET, 0x1000, [rng.choice([0, 1, 1, 2])])
        elif k < 0.37:
            r = req(OWN, 0, SET, 0xf0, [rng.choice([0, 0, 1, 2]), rng.randrange(256)])
        elif k < 0.45:
            r = req(OWN, 0, SET, 0xe0, [rng.randrange(6)])
        elif k < 0.75:
            r = req(OWN, 0, GET, 0x20, [rng.choice([1, 1, 1, 2, 3, 4, 4, 0, 5])])
        else:
            pid = rng.choice(pids)
            n = rng.choice([0, 0, 0, 1, 2, 3])
            r = req(DESTS[rng.choice(['own'] * 8 + sorted(DESTS))], rng.choice([0, 0, 0, 0, 1, 0xffff]),
                    rng.choice([GET, GET, SET, DISC]), pid, rdata(rng, n))
        return dt, r
    for _ in range(150 if tier == 'quick' else 4000):
        steps = [step() for _ in range(rng.choice([6, 16, 40]))]
        reqs = nest(rng, retag(rng, [r for _, r in steps]))
        yield 'ackt %d %s %s' % (OWN, strs, '/'.join('%d:%s' % (dt, r) for (dt, _), r in zip(steps, reqs)))
    # more than 255 queued messages: the message count saturates
    steps = [(0, req(OWN, 0, SET, 0x1000, [i & 1])) for i in range(300)] + [(500, req(OWN, 0, GET, 0x60, []))] + \
            [(0, req(OWN, 0, GET, 0x20, [4])) for _ in range(50)]
    reqs = retag(rng, [r for _, r in steps])
    yield 'ackt %d %s %s' % (OWN, strs, '/'.join('%d:%s' % (dt, r) for (dt, _), r in zip(steps, reqs)))

# ---- field-wise payloads from the PID store descriptors (/repo/data/rdm/*.proto, text format)
def _parse_textproto(text):
    root, stack = {}, []
    cur = root
    for raw in text.split('\n'):
        line = raw.strip()
        if not line or line.startswith('#'):
            continue
        if line.endswith('{'):
            key = line[:-1].strip()
            node = {}
            cur.setdefault(key, []).append(node)
            stack.append(cur)
            cur = node
        elif line == '}':
            cur = stack.pop()
        elif ':' in line:
            k, v = line.split(':', 1)
            cur.setdefault(k.strip(), []).append(v.strip().strip('"'))
    return root

_DESCS = {}
def pid_descriptors():
    """pid value -> {'get': [fields], 'set': [fields]} for every PID described in the PID store"""
    if _DESCS:
        return _DESCS
    for fn in ('pids.proto', 'draft_pids.proto', 'manufacturer_pids.proto'):
        try:
            root = _parse_textproto(open(_repo_file('data/rdm/' + fn)).read())
        except IOError:
            continue
        pids = list(root.get('pid', []))
        for m in root.get('manufacturer', []):
            if m.get('manufacturer_id', ['0'])[0] == str(0x7a70):
                pids += m.get('pid', [])
        for pd in pids:
            try:
                v = int(pd['value'][0])
            except (KeyError, ValueError):
                continue
            _DESCS.setdefault(v, {'get': (pd.get('get_request') or [{}])[0].get('field', []),
                                  'set': (pd.get('set_request') or [{}])[0].get('field', [])})
    return _DESCS

_W = {'BOOL': 1, 'UINT8': 1, 'INT8': 1, 'UINT16': 2, 'INT16': 2, 'UINT32': 4, 'INT32': 4, 'IPV4': 4, 'MAC': 6, 'UID': 6}
_BOUND = {1: [0, 1, 2, 3, 4, 5, 6, 7, 127, 128, 254, 255],
          2: [0, 1, 2, 5, 6, 7, 9, 10, 11, 254, 255, 256, 1199, 1200, 1201, 0x7ffe, 0x7fff, 0x8000, 35999, 36000, 36001,
              0xfeff, 0xff00, 0xff01, 0xfffe, 0xffff],
          4: [0, 1, 2, 255, 256, 65535, 65536, (1 << 31) - 1, 1 << 31, (1 << 32) - 2, (1 << 32) - 1],
          6: [0, 1, (1 << 48) - 1]}

def _flatten(fields):
    """leaf fields of a request (one repetition of every group); strings become (None, sizes)"""
    out = []
    for f in fields:
        t = f.get('type', ['?'])[0]
        if t == 'GROUP':
            out += _flatten(f.get('field', []))
        elif t == 'STRING':
            mx = int(f.get('max_size', ['32'])[0])
            mn = int(f.get('min_size', ['0'])[0])
            out.append(('S', sorted({mn, max(0, mn - 1), 1, 2, 3, mx - 1, mx, mx + 1}), []))
        elif t in _W:
            w = _W[t]
            vals = set(_BOUND[w])
            for r in f.get('range', []):
                for k in ('min', 'max'):
                    if k in r:
                        x = int(r[k][0])
                        vals.update([x - 1, x, x + 1])
            for l in f.get('label', []):
                if 'value' in l:
                    x = int(l['value'][0])
                    vals.update([x - 1, x, x + 1])
            out.append((w, sorted(v & ((1 << (8 * w)) - 1) for v in vals), []))
    return out

def _enc(leaves, vals, rng):
    bs = []
    for (w, _, _), v in zip(leaves, vals):
        if w == 'S':
            bs += [rng.choice([0x61, 0x64, 0x65, 0x66, 0x6e, 0x72, 0x41, 0x20]) for _ in range(v)]
        else:
            bs += list(int(v).to_bytes(w, 'big'))
    return bs[:231]

def gen_fields(rng, tier):
    """every described GET/SET of every supported PID: each field in turn at its boundary values (descriptor
    ranges/labels +-1 and generic width boundaries) while the other fields hold plausible valid values, so a
    handler that stores field by field and NACKs later is caught by the snapshot pair"""
    quick = tier == 'quick'
    descs = pid_descriptors()
    sup = supported_pids()
    for kind in sorted(KINDS):
        if kind in ('dimmer0', 'dimmer1', 'dimmer8'):
            continue
        reqs = []
        for pid in sup[kind]:
            d = descs.get(pid)
            if not d:
                continue
            for cc, key in ((SET, 'set'), (GET, 'get')):
                leaves = _flatten(d[key])
                if not leaves:
                    continue
                bases = [[(1 if w != 'S' else 2) for (w, _, _) in leaves],
                         [(2 if w != 'S' else 3) for (w, _, _) in leaves],
                         [(rng.choice([0, 1, 3, 4, 5]) if w != 'S' else rng.choice([0, 2, 5])) for (w, _, _) in leaves]]
                if not quick:
                    bases += [[(rng.choice([0, 1, 2, 3, 4, 5, 10, 20]) if w != 'S' else 4) for (w, _, _) in leaves] for _ in range(3)]
                for base in bases:
                    for i, (w, vals, _) in enumerate(leaves):
                        vs = vals if (not quick or len(vals) <= 14) else rng.sample(vals, 14)
                        for v in vs:
                            cur = list(base)
                            cur[i] = v
                            sub = rng.choice([0, 0, 0, 1, 2]) if kind.startswith('dimmer') else 0
                            reqs.append(req(OWN, sub, cc, pid, _enc(leaves, cur, rng)))
        rng.shuffle(reqs)
        for ch in chunks(reqs, 48):
            yield seq_case(rng, kind, ch)

def _label_strings(model, label):
    ver = _re.search(r'#define VERSION "([^"]*)"', open(_repo_file('config.h')).read()).group(1)
    manu = _re.search(r'OLA_MANUFACTURER_LABEL\[\]\s*=\s*"([^"]*)"',
                      open(_repo_file('common/rdm/OpenLightingEnums.cpp')).read()).group(1)
    return ' '.join(hx([ord(c) for c in s]) for s in (model, manu, label, 'OLA Version ' + ver))

def _field_reqs(rng, pid, cc, sub, n_variants=1):
    """a described request for pid with plausible / boundary field values (see gen_fields)"""
    d = pid_descriptors().get(pid)
    leaves = _flatten(d['set' if cc == SET else 'get']) if d else []
    if not leaves:
        return [req(OWN, sub, cc, pid, rdata(rng, rng.choice([0, 0, 1, 2])))]
    out = []
    for _ in range(n_variants):
        vals = [(rng.choice([0, 1, 1, 2, 3]) if w != 'S' else rng.choice([0, 3, 32])) for (w, _, _) in leaves]
        i = rng.randrange(len(leaves))
        if rng.random() < 0.6:
            vals[i] = rng.choice(leaves[i][1])
        out.append(req(OWN, sub, cc, pid, _enc(leaves, vals, rng)))
    return out

def rand_net(rng):
    """a scripted NetworkManagerInterface: interfaces with distinct indices (some outside the RDM range), masks
    that are / are not CIDR, names around 32 bytes, host / domain names around their limits, 0-4 name servers"""
    n = rng.choice([0, 1, 2, 2, 3, 5])
    idxs = rng.sample([1, 2, 3, 7, 0x7fffffff, 0x10000, 0, 12, 300], n)
    ifs = []
    for ix in idxs:
        name = [rng.choice(b'etholwan0123') for _ in range(rng.choice([0, 1, 4, 31, 32, 33, 40]))]
        mask = rng.choice([0xffffff00, 0xffff0000, 0xffffffff, 0, 0xff00ff00, 0x80000000, 0xfffffffe, 0x00ffffff])
        ifs.append('%s.%d.%d.%s.%d.%d' % (hx(name), rng.randrange(1 << 32), mask, hx([rng.randrange(256) for _ in range(6)]),
                                         ix, rng.choice([1, 1, 1, 0xffff, 6, 772])))
    host = [rng.choice(b'abcdefgh-') for _ in range(rng.choice([0, 1, 5, 62, 63, 64, 100]))]
    dom = [rng.choice(b'abc.xyz') for _ in range(rng.choice([0, 7, 230, 231, 232, 255, 256, 300]))]
    dns = '+'.join(str(rng.randrange(1 << 32)) for _ in range(rng.choice([0, 1, 2, 3, 4]))) or '-'
    rif = rng.choice(idxs + [0xffffffff, 0xffffffff, 1, 0]) if idxs else rng.choice([0xffffffff, 1])
    net = '%s~%s~%d~%d~%s~%s' % (hx(host), hx(dom), rif, rng.choice([0, 0x0a0000fe, rng.randrange(1 << 32)]), dns,
                                 '+'.join(ifs) or '-')
    return net, idxs

def gen_resp(rng, tier):
    """full-reply correspondence of whole responders with their handler-by-handler models (Responders.v)"""
    quick = tier == 'quick'
    sup = supported_pids()
    def walk(kind, subs, length):
        pids = sup[kind] + [0x51, 0x7fff, 0x1001]
        seq = []
        for _ in range(length):
            pid = rng.choice(pids)
            cc = rng.choice([GET, GET, SET, SET, SET, DISC])
            sub = rng.choice(subs)
            k = rng.random()
            if k < 0.65:
                r = _field_reqs(rng, pid, cc, sub)[0]
            else:
                r = req(DESTS[rng.choice(['own'] * 5 + sorted(DESTS))], sub, cc, pid, rdata(rng, rng.choice(LENS[:10])))
            seq.append(r)
        return retag(rng, seq)
    def fin(seq):
        return '/'.join(nest(rng, seq))
    strs = _label_strings('OLA Sensor Device', 'Sensor Device')
    for _ in range(80 if quick else 2500):
        ns = rng.choice([3, 3, 3, 0])
        init = ','.join(str(rng.choice(I16 + [rng.randrange(65536)])) for _ in range(4 * ns)) or '-'
        seq = walk('sensor', [0, 0, 0, 0, 1, 0xffff], rng.choice([8, 24, 48]))
        # sensor numbers at their boundaries
        for i in range(len(seq)):
            if rng.random() < 0.35:
                f = seq[i].split(',')
                pid = rng.choice([0x200, 0x201, 0x201, 0x202])
                f[4], f[5], f[6] = '0', str(rng.choice([GET, SET])), str(pid)
                f[7] = hx([rng.choice([0, 1, 2, 3, 254, 255])])
                seq[i] = ','.join(f)
        yield 'resp sensor %d %s %s %s' % (OWN, strs, init, fin(seq))
    import time as _time
    strs = _label_strings('OLA Moving Light', '-')
    ver = _re.search(r'#define VERSION "([^"]*)"', open(_repo_file('config.h')).read()).group(1)
    for _ in range(80 if quick else 2500):
        epoch = rng.choice([1700000000, 951782399, 1, 4102444799, rng.randrange(1, 2000000000)])
        tm = _time.gmtime(epoch)
        init = '%s,%d,%d,%d,%d,%d,%d,%d' % (hx([ord(ch) for ch in ver]), epoch, tm.tm_year, tm.tm_mon, tm.tm_mday,
                                            tm.tm_hour, tm.tm_min, tm.tm_sec)
        seq = walk('moving', [0, 0, 0, 0, 0, 1, 0xffff], rng.choice([8, 24, 48]))
        for i in range(len(seq)):
            k = rng.random()
            f = seq[i].split(',')
            if k < 0.08:     # languages
                f[4], f[5], f[6], f[7] = '0', str(SET), str(0xb0), hx([ord(ch) for ch in rng.choice(['en', 'fr', 'de', 'es', 'EN'])])
            elif k < 0.14:   # parameter description of the manufacturer PID and of others
                v = rng.choice([0x8001, 0x8001, 0x8000, 0x8002, 0x60])
                f[4], f[5], f[6], f[7] = '0', str(GET), str(0x51), hx([v >> 8, v & 255])
            elif k < 0.2:    # slot descriptions
                f[4], f[5], f[6], f[7] = '0', str(GET), str(0x121), hx([0, rng.choice([0, 1, 3, 4, 7, 15, 16, 17, 18])])
            elif k < 0.26:   # personalities
                f[4], f[5], f[6], f[7] = '0', str(SET), str(0xe0), hx([rng.randrange(6)])
            elif k < 0.3:
                f[4], f[5], f[6], f[7] = '0', str(SET), str(0xf0), hx([rng.choice([0, 1, 1, 2]), rng.randrange(256)])
            seq[i] = ','.join(f)
        yield 'resp moving %d %s %s %s' % (OWN, strs, init, fin(seq))
    strs = _label_strings('Dummy Model', 'Dummy RDM Device').rsplit(' ', 1)[0] + ' ' + hx([ord(ch) for ch in 'Dummy Software Version'])
    murl = _re.search(r'OLA_MANUFACTURER_URL\[\]\s*=\s*"([^"]*)"', open(_repo_file('common/rdm/OpenLightingEnums.cpp')).read()).group(1)
    dsrc = open(_repo_file('common/rdm/DummyResponder.cpp')).read()
    purl = _re.search(r'DummyResponder::GetProductURL\(.*?"(http[^"]*)"', dsrc, _re.S).group(1)
    furl = _re.search(r'DummyResponder::GetFirmwareURL\(.*?"(http[^"]*)"', dsrc, _re.S).group(1)
    urls = '|'.join(hx([ord(ch) for ch in u]) for u in (murl, purl, furl))
    for _ in range(80 if quick else 2500):
        epoch = rng.choice([1700000000, 951782399, rng.randrange(1, 2000000000)])
        tm = _time.gmtime(epoch)
        net, idxs = rand_net(rng)
        ns = rng.choice([3, 3, 0])
        sens = ','.join(str(rng.choice(I16 + [rng.randrange(65536)])) for _ in range(4 * ns)) or '-'
        init = '%s,%d,%d,%d,%d,%d,%d,%d|%s|%s|%s' % (hx([ord(ch) for ch in ver]), epoch, tm.tm_year, tm.tm_mon, tm.tm_mday,
                                                     tm.tm_hour, tm.tm_min, tm.tm_sec, urls, net, sens)
        seq = walk('dummy', [0, 0, 0, 0, 0, 1, 0xffff], rng.choice([8, 24, 48]))
        for i in range(len(seq)):
            k = rng.random()
            f = seq[i].split(',')
            if k < 0.1:
                v = rng.choice(idxs + idxs + [0, 1, 2, 0xffffff00, 0xffffff01, 0xffffffff])
                f[4], f[5], f[6], f[7] = '0', str(GET), str(rng.choice([0x701, 0x702, 0x705])), hx(list(v.to_bytes(4, 'big')))
            elif k < 0.2:
                pid = rng.choice([0x200, 0x201, 0x201, 0x202])
                f[4], f[5], f[6], f[7] = '0', str(rng.choice([GET, SET])), str(pid), hx([rng.choice([0, 1, 2, 3, 254, 255])])
            elif k < 0.27:
                v = rng.choice([0, 1, 231, 100, 4097, 65535])      # 232..4096 is the known finding, kept out of this class
                f[4], f[5], f[6], f[7] = '0', str(GET), str(0x16), hx([v >> 8, v & 255])
            elif k < 0.33:
                f[4], f[5], f[6], f[7] = '0', str(GET), str(0x121), hx([0, rng.choice([0, 1, 3, 4, 5, 6])])
            elif k < 0.4:
                f[4], f[5], f[6], f[7] = '0', str(SET), str(0xe0), hx([rng.randrange(6)])
            elif k < 0.45:
                f[4], f[5], f[6], f[7] = '0', str(SET), str(0xf0), hx([rng.choice([0, 1, 1, 2]), rng.randrange(256)])
            elif k < 0.5:
                v = rng.choice([0x8001, 0x8001, 0x8000, 0x60])
                f[4], f[5], f[6], f[7] = '0', str(GET), str(0x51), hx([v >> 8, v & 255])
            f[7] = hx(avoid_known('dummy', 'own', int(f[4]), int(f[5]), int(f[6]), [int(f[7][j:j + 2], 16) for j in range(0, len(f[7]), 2)] if f[7] != '-' else []))
            seq[i] = ','.join(f)
        yield 'resp dummy %d %s %s %s' % (OWN, strs, init, fin(seq))
    strs = _label_strings('OLA E1.37-1 Dimmer', 'Dummy Adv Dimmer')
    for _ in range(120 if quick else 3000):
        seq = walk('advdimmer', [0, 0, 0, 0, 0, 0, 1, 0xffff], rng.choice([12, 24, 48]))
        pin = 0
        for i in range(len(seq)):
            k = rng.random()
            f = seq[i].split(',')
            def S(pid, data, cc=SET):
                f[4], f[5], f[6], f[7] = '0', str(cc), str(pid), hx(data)
            if k < 0.12:     # lock state with the right / a wrong PIN, every state and one beyond
                p_ = rng.choice([pin, pin, pin, pin ^ 1])
                S(0x641, [p_ >> 8, p_ & 255, rng.choice([0, 1, 2, 2, 3])])
            elif k < 0.18:   # change the PIN (right / wrong current PIN, new PIN around 9999)
                new = rng.choice([0, 1, 1234, 9999, 10000])
                cur = rng.choice([pin, pin, pin ^ 1])
                S(0x640, [new >> 8, new & 255, cur >> 8, cur & 255])
                if cur == pin and new <= 9999 and f[1] == str(OWN):
                    pin = new
            elif k < 0.24:   # locked / unlocked start address and personality
                if rng.random() < 0.5:
                    S(0xf0, [rng.choice([0, 1, 1, 2]), rng.randrange(256)])
                else:
                    S(0xe0, [rng.choice([0, 1, 1, 2])])
            elif k < 0.32:   # fail / start-up mode: scene valid or not, times inside / outside their windows
                sc = rng.choice([0, 1, 5, 6, 7, 65535])
                dl = rng.choice([0, 9, 10, 255, 256, 1200, 1201, 65534, 65535])
                hd = rng.choice([0, 1, 36000, 36001, 65280, 65281, 65535])
                S(rng.choice([0x141, 0x142]), [sc >> 8, sc & 255, dl >> 8, dl & 255, hd >> 8, hd & 255, rng.randrange(256)])
            elif k < 0.4:    # presets: capture / status / playback around the preset count and the read-only preset
                sc = rng.choice([0, 1, 2, 5, 6, 7, 65535])
                which = rng.random()
                if which < 0.35:
                    S(0x1030, [sc >> 8, sc & 255] + rdata(rng, 6, False))
                elif which < 0.7:
                    S(0x1042, [sc >> 8, sc & 255] + rdata(rng, 6, False) + [rng.choice([0, 0, 1, 2])])
                elif which < 0.85:
                    S(0x1042, [sc >> 8, sc & 255], GET)
                else:
                    S(0x1031, [sc >> 8, sc & 255, rng.randrange(256)])
            elif k < 0.46:   # setting managers and their descriptions
                pid = rng.choice([0x343, 0x345, 0x347])
                if rng.random() < 0.5:
                    S(pid, [rng.choice([0, 1, 2, 3, 4, 5, 6])])
                else:
                    S(pid + 1, [rng.choice([0, 1, 2, 3, 4, 5, 6])], GET)
            elif k < 0.5:
                v = rng.choice([0, 0x7ffe, 0x7fff, 0x8000, 0xffff])
                if rng.random() < 0.5:
                    S(0x342, [v >> 8, v & 255])
                else:
                    w = rng.choice([0, 0x7fff, 0x8000])
                    S(0x341, [v >> 8, v & 255, w >> 8, w & 255, rng.choice([0, 1, 2])])
            seq[i] = ','.join(f)
        yield 'resp advdimmer %d %s - %s' % (OWN, strs, fin(seq))
    strs = _label_strings('OLA Network Device', 'Network Device')
    for _ in range(60 if quick else 2000):
        net, idxs = rand_net(rng)
        seq = walk('network', [0, 0, 0, 0, 0, 1, 0xffff], rng.choice([8, 24, 48]))
        for i in range(len(seq)):
            k = rng.random()
            f = seq[i].split(',')
            if k < 0.3:      # interface index arguments
                v = rng.choice(idxs + idxs + [0, 1, 2, 0xffffff00, 0xffffff01, 0xffffffff, 0x80000000])
                f[4], f[5], f[6], f[7] = '0', str(GET), str(rng.choice([0x701, 0x702, 0x705])), hx(list(v.to_bytes(4, 'big')))
            elif k < 0.4:
                f[4], f[5], f[6], f[7] = '0', str(GET), str(0x70b), hx([rng.choice([0, 1, 2, 3, 4, 255])])
            elif k < 0.6:
                f[4], f[5], f[6], f[7] = '0', str(GET), str(rng.choice([0x700, 0x70a, 0x70c, 0x70d])), '-'
            seq[i] = ','.join(f)
        yield 'resp network %d %s %s %s' % (OWN, strs, net, fin(seq))
    strs = _label_strings('OLA Dimmer', 'Dummy Dimmer')
    for n in (0, 1, 2, 4, 8):
        kind = 'dimmer' if n == 2 else 'dimmer%d' % n
        for _ in range(30 if quick else 600):
            seq = walk(kind, [0, 0, 1, 1, 2, n, n + 1, 0xffff, 0xffff], rng.choice([8, 24, 48]))
            yield 'resp dimmer%d %d %s - %s' % (n, OWN, strs, fin(seq))

def gen_state_bcast(rng, tier):
    """reach a non-initial state with valid unicast SETs (for the advanced dimmer: every LOCK_STATE, with the PIN
    unchanged or changed first), then send a valid-looking SET/GET of EVERY supported PID to every non-unicast
    destination (and to the own UID): nothing that happens before ResponderOps' addressing logic may answer"""
    quick = tier == 'quick'
    sup = supported_pids()
    for kind in sorted(KINDS):
        if kind in ('dimmer0', 'dimmer1', 'dimmer8'):
            continue
        variants = [None]
        if kind == 'advdimmer':
            variants = [(st, newpin) for st in (0, 1, 2) for newpin in (None, 0x1234)]
        for var in variants:
            for rep in range(1 if quick else 6):
                seq = []
                if var is not None:
                    st, newpin = var
                    pin = 0
                    if newpin is not None:
                        seq.append(req(OWN, 0, SET, 0x640, [newpin >> 8, newpin & 255, 0, 0]))
                        pin = newpin
                    seq.append(req(OWN, 0, SET, 0x641, [pin >> 8, pin & 255, st]))
                    seq.append(req(OWN, 0, GET, 0x641, []))
                else:
                    for _ in range(6):
                        pid = rng.choice(sup[kind])
                        seq += _field_reqs(rng, pid, SET, rng.choice([0, 0, 1] if kind.startswith('dimmer') else [0]))
                body = []
                for pid in sup[kind]:
                    for dn in ('bcast', 'vcast', 'vcasto', 'other', 'otherm', 'own'):
                        for cc in ((SET,) if quick and dn != 'own' else (SET, GET)):
                            r = _field_reqs(rng, pid, cc, 0)[0].split(',')
                            r[1] = str(DESTS[dn])
                            r[7] = hx(avoid_known(kind, dn, 0, cc, pid, [int(r[7][j:j + 2], 16) for j in range(0, len(r[7]), 2)] if r[7] != '-' else []))
                            body.append(','.join(r))
                rng.shuffle(body)
                # keep the state-reaching prefix in front of every chunk (a fresh responder per case)
                for ch in chunks(body, 60):
                    yield seq_case(rng, kind, seq + ch)

def chunks(l, n):
    for i in range(0, len(l), n):
        yield l[i:i + n]

def gen_sweeps(rng, tier):
    quick = tier == 'quick'
    sup = supported_pids()
    for kind in sorted(KINDS):
        pids = sup[kind]
        near = set()
        for p in pids:
            near.update([(p - 1) & 0xffff, (p + 1) & 0xffff])
        boundary = sorted((near | {0, 1, 0x4f, 0x51, 0x7fff, 0x8000, 0x8001, 0xfffe, 0xffff}) - set(pids))
        if quick:
            boundary = rng.sample(boundary, min(len(boundary), 14))
        reqs = []
        for pid in pids + boundary:
            for cc in (GET, SET, DISC):
                KS = subs_of(kind)
                combos = [(s, 'own') for s in KS] + [(0, d) for d in ('other', 'otherm', 'vcast', 'vcasto', 'bcast')]
                combos += [(rng.choice(KS), rng.choice(sorted(DESTS))) for _ in range(3 if quick else 12)]
                if not quick:
                    combos += [(s, d) for s in KS for d in ('vcast', 'bcast', 'other')]
                for sub, dn in combos:
                    for _ in range(1 if quick else 2):
                        reqs.append(sweep_req(rng, kind, pid, cc, sub, dn))
                if pid in pids:
                    # every length boundary on the plain unicast path
                    for n in ([0, 1, 2, 3, 4, 5, 8, 9, 10, 32, 33, 231] if quick else LENS):
                        reqs.append(sweep_req(rng, kind, pid, cc, rng.choice([0, 0, 0, 1, nsub_of(kind), 0xffff] if kind.startswith('dimmer') else [0]), 'own', n))
        rng.shuffle(reqs)
        for ch in chunks(reqs, 48):
            yield seq_case(rng, kind, ch)
        # stateful walks: mostly SETs of supported PIDs with plausible values, unicast
        for _ in range(12 if quick else 150):
            seq = []
            for _ in range(40):
                pid = rng.choice(pids)
                cc = rng.choice([SET, SET, SET, GET])
                sub = rng.choice([0, 0, 1, 2, nsub_of(kind), 0xffff] if kind.startswith('dimmer') else [0, 0, 0, 0, 1, 0xffff])
                dn = rng.choice(['own'] * 6 + ['bcast', 'vcast', 'other'])
                seq.append(sweep_req(rng, kind, pid, cc, sub, dn, rng.choice([0, 1, 1, 2, 2, 3, 4, 4, 5, 8, 9, 10])))
            yield seq_case(rng, kind, seq)
        if not quick:
            # every PID 0x0000-0xffff, every command class; sub-device and destination drawn per request
            allr = []
            for pid in range(65536):
                for cc in (GET, SET, DISC):
                    allr.append(sweep_req(rng, kind, pid, cc, rng.choice(subs_of(kind)), rng.choice(['own'] * 3 + sorted(DESTS)),
                                          rng.choice([0, 0, 1, 2, 4, 231])))
            rng.shuffle(allr)
            for ch in chunks(allr, 512):
                yield seq_case(rng, kind, ch)
    # known-finding classes (each also listed in known_findings)
    yield 'sweep dimmer %d %s' % (OWN, '/'.join([req(OWN, 1, SET, 0xe0, [2], tn=1), req(OWN, 0xffff, SET, 0xf0, [2, 0], tn=2, flag=True),
                                                 req(OWN, 2, GET, 0xf0, [], tn=3)]))
    yield 'sweep dimmer %d %s' % (OWN, '/'.join([req(OWN, 1, SET, 0xf0, [2, 0], tn=1), req(OWN, 0xffff, SET, 0xe0, [2], tn=2, flag=True),
                                                 req(OWN, 2, GET, 0xe0, [], tn=3)]))
    yield 'sweep dummy %d %s' % (OWN, '/'.join([req(OWN, 0, GET, 0x16, [0, 231]), req(OWN, 0, GET, 0x16, [0, 232]),
                                                req(OWN, 0, GET, 0x16, [16, 0]), req(OWN, 0, GET, 0x16, [16, 1])]))

def gen_disp(rng, tier):
    quick = tier == 'quick'
    pids = [0x50, 0x51, 0x60, 0x8001, 0x8002, 0x8003, 0x8004, 0x8005, 0x8006, 0, 0xffff, 0x4f]
    for pid in pids:
        for cc in (GET, SET, DISC):
            for sub in SUBS:
                for tsub in (0, 1):
                    for dn in sorted(DESTS):
                        for n in ((rng.choice([0, 1, 2, 231]),) if quick else (0, 1, 2, 231)):
                            yield 'disp %d %d %d %s %d' % (rng.randrange(2), OWN, tsub,
                                                           req(DESTS[dn], sub, cc, pid, rdata(rng, n, False),
                                                               tn=rng.randrange(256)),
                                                           rng.choice([0, 1, 0xffffffff, rng.randrange(1 << 32)]))

def gen_fan(rng, tier):
    n = 600 if tier == 'quick' else 20000
    for _ in range(n):
        k = rng.choice([0, 1, 2, 3, 5])
        script = ','.join('%d.%d' % (rng.choice([0, 0, 1, 3]), rng.choice([0, 1, 2])) for _ in range(k)) or '-'
        if rng.random() < 0.3:   # what real sub-devices do on a broadcast: status only
            script = ','.join('1.0' for _ in range(k)) or '-'
        sub = rng.choice([0xffff, 0xffff, 1, 2, k, k + 1, 0x200, 0])
        yield 'fan %s %s %d' % (script, req(DESTS[rng.choice(sorted(DESTS))], sub, rng.choice([GET, SET, SET, DISC]),
                                            rng.choice([0xf0, 0x1000, 0x60]), rdata(rng, rng.choice([0, 1, 2]))),
                                rng.choice([0, 5, 0xffffffff]))

I16 = [0, 1, 99, 100, 0x7fff, 0x8000, 0xff9c, 0xffff]

def gen_help(rng, tier):
    reps = 1 if tier == 'quick' else 12
    def R(data, cc=None, pid=0x1234):
        return req(OWN, rng.choice([0, 1]), cc if cc else rng.choice([GET, SET]), pid, data, tn=rng.randrange(256))
    def lens_around(w):
        return sorted({0, max(0, w - 1), w, w + 1, 231})
    mcs = [0, 7, 255]
    for _ in range(reps):
        for k in (1, 2, 4):
            for n in (0, 1, 2):
                yield 'help 0 %s %d,%d,%d -' % (R(rdata(rng, n)), k, rng.randrange(1 << (8 * k)), rng.choice(mcs))
            for n in lens_around(k):
                yield 'help 1 %s %d,%d,%d -' % (R(rdata(rng, n, False)), k, rng.randrange(1 << (8 * k)), rng.choice(mcs))
        for n in (0, 1):
            yield 'help 2 %s %d,%d -' % (R(rdata(rng, n)), rng.randrange(2), rng.choice(mcs))
        for d in ([], [0], [1], [2], [255], [0, 0], [1, 1], [1] * 231):
            yield 'help 3 %s %d,%d -' % (R(d), rng.randrange(2), rng.choice(mcs))
        for sl in (0, 1, 31, 32, 33, 200, 231, 232, 255, 256, 257, 300):
            for ml in (32, 0, 231, 255):
                yield 'help 4 %s %d,%d %s' % (R(rdata(rng, rng.choice([0, 0, 1]))), rng.choice(mcs), ml,
                                             hx([rng.randrange(1, 256) for _ in range(sl)]))
        for n in (0, 1, 31, 32, 33, 231):
            for ml in (32, 0, 255):
                yield 'help 5 %s %d,%d %s' % (R([rng.choice([0, 65, 66, 255]) for _ in range(n)]), rng.choice(mcs), ml,
                                             hx([rng.randrange(256) for _ in range(rng.choice([0, 5, 32]))]))
        for act in range(1, 7):
            for n in (0, 1):
                yield 'help 6 %s %d,%d -' % (R(rdata(rng, n)), act, rng.choice(mcs))
                yield 'help 9 %s %d,%d,%d -' % (R(rdata(rng, n)), act, rng.choice([1, 512, 0xffff, rng.randrange(65536)]), rng.choice(mcs))
                yield 'help 11 %s %d,%d -' % (R(rdata(rng, n)), act, rng.choice(mcs))
                yield 'help 13 %s %d,%d -' % (R(rdata(rng, n)), act, rng.choice(mcs))
            for start in (0, 1, 2, 3, 508, 509, 512, 513, 514, 65535):
                for d in ([], [0], [1], [2], [3], [4], [5], [6], [7], [255], [2, 2]):
                    if tier != 'quick' or rng.random() < 0.35:
                        yield 'help 7 %s %d,%d,%d -' % (R(d), act, start, rng.choice(mcs))
            for v in (0, 1, 2, 507, 508, 509, 511, 512, 513, 514, 515, 65535):
                yield 'help 10 %s %d,%d,%d -' % (R([v >> 8, v & 255]), act, rng.choice([1, 77]), rng.choice(mcs))
            for d in ([], [1], [0, 0, 1]):
                yield 'help 10 %s %d,%d,%d -' % (R(d), act, 33, rng.choice(mcs))
            for v in (0, 1, 2, 3, 4, 5, 6, 255, 256, 65535):
                yield 'help 12 %s %d,%d -' % (R([v >> 8, v & 255]), act, rng.choice(mcs))
            for d in ([], [1], [0, 0, 1]):
                yield 'help 12 %s %d,%d -' % (R(d), act, rng.choice(mcs))
        for d in ([], [0], [1], [2], [3], [4], [5], [6], [7], [255], [1, 1]):
            yield 'help 8 %s %d -' % (R(d), rng.choice(mcs))
        for n in (0, 1):
            yield 'help 14 %s %s -' % (R(rdata(rng, n)), ','.join(str(x) for x in [
                rng.randrange(65536), rng.randrange(65536), rng.randrange(1 << 32), rng.randrange(65536),
                rng.randrange(256), rng.randrange(256), rng.randrange(65536), rng.randrange(65536),
                rng.randrange(256), rng.choice(mcs)]))
        for f in (15, 16, 17, 18):
            for ns in (0, 3):
                for d in ([], [0], [1], [2], [3], [254], [255], [0, 0]):
                    dyn = ','.join(str(rng.choice(I16 + [rng.randrange(65536)])) for _ in range(4 * ns)) or '-'
                    yield 'help %d %s %s -' % (f, R(d), dyn)
        for c in (0, 1):
            for cur in (0, 1, 2, 3):
                for n in (0, 1):
                    yield 'help 19 %s %d,%d -' % (R(rdata(rng, n)), c, cur)
                for d in ([], [0], [1], [2], [3], [4], [255], [1, 1]):
                    yield 'help 20 %s %d,%d -' % (R(d), c, cur)
            for d in ([], [0], [1], [2], [3], [4], [255], [1, 1]):
                yield 'help 21 %s %d -' % (R(d), c)
        for v in (0, 1, 230, 231, 232, 255, 256, 4095, 4096, 4097, 65535):
            yield 'help 22 %s %d -' % (R([v >> 8, v & 255]), rng.choice(mcs))
        for d in ([], [1], [0, 0, 1]):
            yield 'help 22 %s %d -' % (R(d), rng.choice(mcs))
        for nsubs in (0, 1, 2, 4, 8):
            for _ in range(6):
                prs = [rng.choice([1, 2]) for _ in range(nsubs)]
                tot = sum(prs)
                base = max(0, rng.choice([255, 255, 512]) - tot + rng.choice([-1, 0, 1, 2]))
                base = rng.choice([base, base, base, 0, 1, 65535])
                st = ','.join('%d,%d' % (pp, rng.choice([1, 77, 511, 512])) for pp in prs) or '-'
                yield 'help 24 %s %s -' % (R([base >> 8, base & 255], cc=SET), st)
            yield 'help 24 %s %s -' % (R(rdata(rng, rng.choice([0, 1, 3])), cc=SET), ','.join(['1,5'] * nsubs) or '-')
        for n in (0, 1, 2, 230, 231):
            yield 'help 23 %s %d -' % (R(rdata(rng, n, False)), rng.choice(mcs))

def gen_cases(rng, tier):
    for g in (gen_disp, gen_fan, gen_help, gen_ackt, gen_acktimer, gen_block, gen_nested, gen_state_bcast, gen_fields, gen_resp, gen_sweeps):
        for c in g(rng, tier):
            yield c

def nontrivial(payload, md):
    op = payload.split(' ', 1)[0]
    if op == 'sweep':
        # a judged sequence containing at least one SET (snapshot pair) and one GET
        return md.get('chk') == 'ok' and ',48,' in payload and ',32,' in payload
    if op == 'resp':
        t = md.get('t', '')
        return ',0,0,' in t and ',2,0,' in t      # at least one ACK and one NACK in the history
    if op == 'ackt':
        # a history in which an ACK_TIMER was sent and a queued message was later delivered
        t = md.get('t', '')
        return ',1,' in t and ',49,' in t
    r = md.get('r', '')
    if op == 'help':
        return r not in ('none', 'oob') and r.split(',')[3:4] == ['0']
    # disp / fan: exactly one completion carrying a response
    return md.get('n') == '1' and not r.endswith(':none')

RULE = ('disp: scripted handler table on the real ResponderOps x PID {placeholder, get-only, set-only, both, NULL-returning, '
        'NACKing, unknown} x {GET,SET,DISCOVERY} x sub-device {0,1,2,0x200,0xffff} x own sub-device {0,1} x destination '
        '{own, other device, other manufacturer, vendorcast, foreign vendorcast, broadcast}; fan: SubDeviceDispatcher over 0-5 '
        'scripted sub-devices (status x {no response, ACK, NACK}); help: every modelled ResponderHelper at lengths w-1/w/w+1/0/231 '
        'and the value boundaries of each comparison; sweep: every built-in responder, all supported PIDs + neighbours/boundary '
        'PIDs (thorough: all 65536) x class x sub-device x destination x parameter lengths, in sequences of 40-512 requests with a '
        'snapshot of all GET-able parameters around every SET, every reply judged by the extracted chk_sweep, transaction number '
        'and controller UID different on neighbouring requests; fields: for every GET/SET described in the PID store (/repo/data/rdm) each field in turn at its descriptor range/label values +-1 and the generic width boundaries with the other fields valid; state-bcast: after valid unicast SETs (advanced dimmer: every LOCK_STATE, PIN changed or not) a valid-looking SET/GET of every supported PID to every non-unicast destination; block: DMX_BLOCK_ADDRESS after per-sub-device changes on dimmers with 0/1/2/4/8 sub-devices; nesting: in ~40% of all sweep/ackt/resp sequences (and in a fan-out aimed class) requests are sent from INSIDE the completion callback of an earlier request, up to 4 levels deep, on the same long-lived responder (re-entrancy); the after-snapshot of a SET is then taken at the moment its callback runs; ackt: ack-timer histories with explicit clock steps around 400 ms '
        '(SET->ACK_TIMER, queued-message delivery, STATUS_GET_LAST_MESSAGE, >255 queued), full replies compared with AckTimer.v; resp: random/field-wise histories on the sensor responder, dimmers with 0/1/2/4/8 sub-devices, the moving light, the network responder, the dummy responder (scripted network manager around its limits) and the advanced dimmer (lock state / PIN changes with right and wrong PINs, presets around the count and the read-only preset, fail/start-up times around their windows), full replies and final state compared with Responders.v / MovingLight.v. '
        'non-trivial = helper ACK / one completion carrying a response / a fully conformant sequence containing GETs and SETs; '
        'distinct = distinct model output line')
ASSUMPTIONS = ['the models are sequential: a request issued from inside a completion callback is modelled as the next request (the callback is the last action of every responder entry point); the harness checks that equivalence on the real code by sending nested requests',
               'the completion callback passed to a responder is not NULL (HandleRDMRequest returns without completing otherwise)',
               'operator new does not fail',
               'every sub-device handed to SubDeviceDispatcher completes its callback exactly once (c13_fanout hypothesis; true of DimmerSubDevice by c13_dispatch_once)',
               'snapshots exclude volatile readings: REAL_TIME_CLOCK, SENSOR_VALUE (random / load-average sensors), QUEUED_MESSAGE, and the host network PIDs of the dummy responder; self-incrementing counters (DEVICE_HOURS, LAMP_HOURS, DEVICE_POWER_CYCLES) are written back after being read',
               'UBSan vla-bound is disabled: zero-length VLAs in ResponderHelper (e.g. GET TEST_DATA with pattern length 0) are a GCC extension, not a memory access']
TRUSTED = ['modelled rather than verified: ResponderOps<T>::HandleRDMRequest/HandleSupportedParams, GetResponseWithPid/GetResponseFromData/'
           'NackWithReason, SubDeviceDispatcher (SendRDMRequest/FanOutToSubDevices/NackIfNotBroadcast/HandleSubDeviceResponse/FanOutTracker), '
           'DimmerResponder::SendRDMRequest, ResponderHelper Extract*/Get*/Set* listed in coq/Model.v, PersonalityCollection::Lookup, '
           'SlotDataCollection::Lookup, Sensor FetchValue/Record/Reset, SettingManager<BasicSetting> Get/Set/GetDescription',
           'NOT modelled: the ~150 per-PID handler bodies of the eight responders; for them the evidence is the sweep, each real reply '
           'judged by the Coq-proved checker (chk_13 + dispatch-class agreement), not a theorem',
           'the harness talks to the extracted checker through a pipe (model_driver --serve); PID tables are read from the live '
           'ResponderOps::m_handlers maps; snapshots are 60-bit FNV digests of all GET replies',
           'AckTimerResponder (AckTimer.v): all 13 handlers, QueueAnyNewMessages, QueuedMessageCount, ResponseFromQueuedMessage; the clock '
           'is interposed (ld --wrap=clock_gettime) and advanced by the harness, the label strings are read from config.h / '
           'OpenLightingEnums.cpp by the generator and handed to the model as configuration',
           'Responders.v / MovingLight.v: SensorResponder (sensors replaced by scripted test sensors in the harness: the real ones are '
           'random / load averages), DimmerSubDevice, DimmerRootDevice, DimmerResponder composite, MovingLightResponder (time() is '
           'interposed for REAL_TIME_CLOCK); GenTables.v is produced by prop.gen_tables from the .cpp sources (regex) with enum values '
           'from the compiler',
           'Network.v / Dummy.v: the network helpers are modelled over an abstract network manager (interfaces, route, names, DNS as '
           'configuration; the harness installs a FakeNetworkManager built from the same configuration, also in the DummyResponder), '
           'std::sort of the interfaces is modelled as an insertion sort (distinct indices in the generated configurations), theorems '
           'assume at most 38 interfaces and URL strings of at most 231 bytes',
           'AdvDimmer.v: setting / frequency descriptions, lock states, the personality and the level / time windows are cut from the '
           'text of AdvancedDimmerResponder.cpp into GenTables.v on every run (c13_adv_consts); the initial member values of the '
           'constructor are typed by hand and pinned by the resp advdimmer correspondence; slot-table theorems assume '
           'the table fits one response (<=46 slots for SLOT_INFO, <=77 for DEFAULT_SLOT_VALUE) and that the active personality exists']
LEVEL_TEXT = ('PARTIAL by design. Coq theorems, for all requests and EVERY handler behaviour, about an executable model of '
              'ResponderOps dispatch (completion exactly once; broadcast/vendorcast: status only, no response; foreign UID: '
              'RDM_TIMEOUT, state untouched; unicast GET/SET: one COMPLETED_OK reply with src/dst swapped, same transaction number, '
              'matching class, legal type, <=231 bytes provided the handlers return conformant responses), of the response builders, '
              'of the SubDeviceDispatcher fan-out (exactly one completion, tracker never used after deletion, first sub-device\'s '
              'reply, resulting state) and of the generic ResponderHelper parsers (never read outside the parameter data, ACK or NACK '
              'with a legal reason for every length, state unchanged on NACK), all tied to the C++ by differential correspondence. '
              'For ALL eight responder classes the handler hypothesis is discharged, each handler modelled as the '
              'ResponderHelper call (or the few lines) it is: AckTimerResponder (c13_acktimer), SensorResponder (c13_sensor), '
              'DimmerSubDevice and DimmerRootDevice (c13_dimmer_sub, c13_dimmer_root; the composite DimmerResponder: '
              'c13_dimmer, NACK => unchanged outside exactly the known fan-out finding), MovingLightResponder (c13_moving_light), NetworkResponder (c13_network, incl. the eight '
              'E1.37-2 network helpers over an abstract NetworkManagerInterface), DummyResponder (c13_dummy; excludes exactly the '
              'known finding GET TEST_DATA 232..4096) and AdvancedDimmerResponder (c13_advanced_dimmer, plus lock-state theorems '
              'c13_advanced_dimmer_locked_silent / _write_protect). Handler tables are checked against tables regenerated from the '
              'PARAM_HANDLERS arrays (c13_tables), personalities/slots of the moving light and the dummy are regenerated from their '
              'sources, and full replies + final internal state are compared with the real responders (resp/ackt classes; scripted '
              'sensors, network manager and clock; histories reach every lock state). Model = code remains differential testing; '
              'independently every real reply of the sweeps (with before/after snapshots of all GET-able parameters) is judged by the '
              'extracted instance checker chk_13, proved to imply the property text (c13_chk_sound). '
              'Two known findings are excluded narrowly (GET TEST_DATA > 231 bytes, refuted/partial theorems; mixed ACK/NACK of a SET '
              'fanned out to all sub-devices, c13_fanout_mixed_refuted / c13_fanout_partial).')
LEVEL_NOTE = ('Trusted: Coq kernel, extraction (ExtrOcamlBasic), OCaml/C++ glue incl. the pipe to the checker service, generator '
              'coverage; model = code is validated by differential testing, not proved; handler conformance (hypothesis '
              'handlers_conform of c13_dispatch) is validated by the sweep only; volatile readings are excluded from snapshots; '
              'for a destination that is another unicast UID or for DISCOVERY class the checker only demands one completion and a '
              'well-formed response if any (the property text does not say more). DimmerRootDevice::SetDmxBlockAddress '
              'bounds the block by DMX_MAX_SLOT_VALUE (255) instead of 512: legal bases are refused with a conformant NACK and '
              'nothing changes, which C13 as worded allows (modelled as is, c13_block_address); dimmers are swept with 0, 1, 2, 4 '
              'and 8 sub-devices and every snapshot covers the root and every sub-device.')
TECHNIQUE = ('Coq proof on hand-written executable model + extracted-model/implementation differential correspondence + '
             'sweep of the real responders judged by the extracted, proved instance checker')
DESIGN_REF = 'DESIGN.md §4 C13'
